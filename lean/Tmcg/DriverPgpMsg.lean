import Tmcg.Driver
import Tmcg.Model.PgpMsg
/-
  Line-protocol handlers of area "pgpmsg" (property C20: OpenPGP signatures and encryption);
  filled by the builder of that area.  Line formats: top of harness/drv_pgpmsg.cc.

  The libgcrypt primitives are replayed from the logs carried by each line; a query the log does
  not answer gets a default value, and the model is run with two different defaults: a result that
  depends on an unanswered query shows up as `oracle-miss`.
-/
namespace Tmcg.DriverPgpMsg
open Tmcg Tmcg.Driver Tmcg.PgpMsg

abbrev Log := List (List (List Nat))

def pBool01 (s : String) : Option Bool := if s = "1" then some true else if s = "0" then some false else none

/-- `[hex,hex]` -/
def pHexList (s : String) : Option (List (List Nat)) := do
  let l ← pList s
  l.mapM pHex

def twice (f : Nat → String) : String :=
  let a := f 0
  let b := f 1
  if a = b then a else "oracle-miss"

/-- block cipher of the key `ekey` from `[block:out]` -/
def mkE (ekey : List Nat) (log : Log) (bs d : Nat) : Bytes → Bytes → Bytes :=
  fun k b =>
    if k = ekey then
      match log.find? (fun e => e.head? = some b) with
      | some [_, o] => o
      | _ => List.replicate bs d
    else List.replicate bs (d + 2)

def mkSha1 (log : Log) (d : Nat) : Bytes → Bytes :=
  fun x => match log.find? (fun e => e.head? = some x) with
    | some [_, o] => o
    | _ => List.replicate 20 d

/-- `[key:nonce:ad:pt:ct:tag]` -/
def mkSeal (log : Log) (d : Nat) : Seal :=
  fun k n a p => match log.find? (fun e => e.take 4 = [k, n, a, p]) with
    | some [_, _, _, _, c, t] => (c, t)
    | _ => (List.replicate p.length d, List.replicate 16 d)

/-- `[key:nonce:ad:ct:tag:rc:pt]` -/
def mkOpen (log : Log) (d : Nat) : Open :=
  fun k n a c t => match log.find? (fun e => e.take 5 = [k, n, a, c, t]) with
    | some [_, _, _, _, _, rc, p] => if rc = [0] then some p else none
    | _ => if d = 0 then none else some [d]

def showSym (r : SymRes) : String :=
  s!"{r.rc} {hexOfBytes r.seskey} {hexOfBytes r.pfx} {hexOfBytes r.out}"

def hCfbEnc : Handler
  | [seskey, pfx, resync, input, coins, ekey, elog] => do
    let seskey ← pHex seskey; let pfx ← pHex pfx; let resync ← pBool01 resync; let input ← pHex input
    let coins ← pHexList coins; let ekey ← pHex ekey; let elog ← pHexTuples elog
    some (twice fun d => showSym (symEncryptAES256 (mkE ekey elog 16 d) coins input seskey pfx resync))
  | _ => none

def hCfbDec : Handler
  | [algo, seskey, pfx, resync, input, ekey, elog] => do
    let algo ← pNat algo; let seskey ← pHex seskey; let pfx ← pHex pfx; let resync ← pBool01 resync
    let input ← pHex input; let ekey ← pHex ekey; let elog ← pHexTuples elog
    some (twice fun d => showSym (symDecrypt (mkE ekey elog (blockLength algo) d) algo input seskey pfx resync))
  | _ => none

def hAeadEnc : Handler
  | [sk, ae, cs, seskey, ad, input, coins, slog] => do
    let sk ← pNat sk; let ae ← pNat ae; let cs ← pNat cs; let seskey ← pHex seskey; let ad ← pHex ad
    let input ← pHex input; let coins ← pHexList coins; let slog ← pHexTuples slog
    some (twice fun d =>
      let r := aeadEncrypt (mkSeal slog d) coins input seskey sk ae cs ad
      s!"{r.rc} {hexOfBytes r.seskey} {hexOfBytes r.iv} {hexOfBytes r.out}")
  | _ => none

def hAeadDec : Handler
  | [sk, ae, cs, seskey, iv, ad, input, olog] => do
    let sk ← pNat sk; let ae ← pNat ae; let cs ← pNat cs; let seskey ← pHex seskey; let iv ← pHex iv
    let ad ← pHex ad; let input ← pHex input; let olog ← pHexTuples olog
    some (twice fun d =>
      let r := aeadDecrypt (mkOpen olog d) input seskey sk ae cs iv ad
      s!"{r.1} {hexOfBytes r.2}")
  | _ => none

def showFlags (m : Msg) : String := showBool m.haveSed ++ showBool m.haveSeipd ++ showBool m.haveAead

def showMsg (m : Msg) : String :=
  s!"{m.version} {showFlags m} {m.skalgo} {m.aeadalgo} {m.chunksize} {hexOfBytes m.iv} {hexOfBytes m.encrypted}"

def hMsgParse : Handler
  | [octets] => do
    let input ← pHex octets
    match msgParse input with
    | .unmodelled => some "unmodelled"
    | .fail => some "fail"
    | .ok m => some s!"ok {showMsg m} {hexOfBytes m.mdc}"
  | _ => none

def pFlags (s : String) : Option (Bool × Bool × Bool) :=
  match s.toList with
  | [a, b, c] => do
    let a ← pBool01 (String.singleton a); let b ← pBool01 (String.singleton b); let c ← pBool01 (String.singleton c)
    some (a, b, c)
  | _ => none

def hMsgDec : Handler
  | [version, flags, sk, ae, cs, iv, enc, key, ekey, elog, hlog, olog] => do
    let version ← pNat version; let (sed, seipd, aead) ← pFlags flags
    let sk ← pNat sk; let ae ← pNat ae; let cs ← pNat cs; let iv ← pHex iv; let enc ← pHex enc
    let key ← pHex key; let ekey ← pHex ekey; let elog ← pHexTuples elog; let hlog ← pHexTuples hlog
    let olog ← pHexTuples olog
    let m : Msg := { version := version, haveSed := sed, haveSeipd := seipd, haveAead := aead, skalgo := sk,
                     aeadalgo := ae, chunksize := cs, iv := iv, encrypted := enc }
    let algo := if key ≠ [] ∧ !aead then key.headD 0 else sk
    some (twice fun d =>
      let r := msgDecrypt (mkE ekey elog (blockLength algo) d) (mkSha1 hlog d) (mkOpen olog d) m key
      s!"{showBool r.1} {hexOfBytes r.2}")
  | _ => none

/-- `[algo:input:digest]`, algo = OpenPGP hash algorithm octet -/
def mkH (log : Log) (d : Nat) : Nat → Bytes → Bytes :=
  fun algo x => match log.find? (fun e => e.take 2 = [[algo], x]) with
    | some [_, _, o] => o
    | _ => List.replicate (hashLength algo) d

/-- `[data:rc]`, rc big endian -/
def mkPk (log : Log) (d : Nat) : Bytes → Nat :=
  fun x => match log.find? (fun e => e.head? = some x) with
    | some [_, rc] => Pgp.fromBE rc
    | _ => d

def hHash : Handler
  | [kind, ver, algo, a, b, c, trailer, hlog] => do
    let ver ← pNat ver; let algo ← pNat algo; let a ← pHex a; let b ← pHex b; let c ← pHex c
    let trailer ← pHex trailer; let hlog ← pHexTuples hlog
    let input ← match kind with
      | "bin" => some (hashInputBinary ver a trailer)
      | "text" => some (hashInputText ver a trailer)
      | "standalone" => some (hashInputStandalone ver trailer)
      | "key" => some (hashInputKey ver a trailer)
      | "key2" => some (hashInputKey2 ver a b trailer)
      | "cert" => some (hashInputCert ver a b c trailer)
      | _ => none
    some (twice fun d =>
      let r := hashAndLeft (mkH hlog d) algo input
      s!"{hexOfBytes r.1} {hexOfBytes r.2}")
  | _ => none

def hValidity : Handler
  | [creation, expiration, hashalgo, keycreation, now] => do
    let creation ← pNat creation; let expiration ← pNat expiration; let hashalgo ← pNat hashalgo
    let keycreation ← pNat keycreation; let now ← pNat now
    let s : Sig := { version := 4, type := 0, pkalgo := 1, hashalgo := hashalgo, creation := creation,
                     expiration := expiration }
    let r := checkValidity s keycreation now
    some s!"{showBool r.1} {showBool r.2}"
  | _ => none

def hVerify : Handler
  | [kind, ver, type, pkalgo, hashalgo, creation, hspd, left, qbits, rbits, sbits, a, b, c, hlog, pklog] => do
    let ver ← pNat ver; let type ← pNat type; let pkalgo ← pNat pkalgo; let hashalgo ← pNat hashalgo
    let creation ← pNat creation; let hspd ← pHex hspd; let left ← pHex left
    let qbits ← pNat qbits; let rbits ← pNat rbits; let sbits ← pNat sbits
    let a ← pHex a; let b ← pHex b; let c ← pHex c; let hlog ← pHexTuples hlog; let pklog ← pHexTuples pklog
    let s : Sig := { version := ver, type := type, pkalgo := pkalgo, hashalgo := hashalgo, creation := creation,
                     hspd := hspd, left := left }
    let t ← match kind with
      | "data" => some (Target.data a)
      | "datalit" => some (Target.dataLit a (c.headD 0) b (Pgp.fromBE (c.drop 1)))
      | "standalone" => some Target.standalone
      | "key" => some (Target.key a)
      | "key2" => some (Target.key2 a b)
      | "uid" => some (Target.uid a b)
      | "uat" => some (Target.uat a b)
      | _ => none
    some (twice fun d => showBool (verifySig (mkH hlog d) (mkPk pklog d) s ⟨qbits, rbits, sbits⟩ t))
  | _ => none

def pTarget (kind : String) (a b c : List Nat) : Option Target :=
  match kind with
  | "data" => some (Target.data a)
  | "datalit" => some (Target.dataLit a (c.headD 0) b (Pgp.fromBE (c.drop 1)))
  | "standalone" => some Target.standalone
  | "key" => some (Target.key a)
  | "key2" => some (Target.key2 a b)
  | "uid" => some (Target.uid a b)
  | "uat" => some (Target.uat a b)
  | _ => none

/-- pgpmsg.sigflip <kind> <a> <b> <c> <body> <pos> <flipped body> => <hashed 0|1> <same|changed|na> -/
def hSigFlip : Handler
  | [kind, a, b, c, body, pos, body2] => do
    let a ← pHex a; let b ← pHex b; let c ← pHex c; let body ← pHex body; let pos ← pNat pos
    let body2 ← pHex body2
    let t ← pTarget kind a b c
    let r := match sigFlipSameInput body body2 t with
      | some true => "same"
      | some false => "changed"
      | none => "na"
    some s!"{showBool (sigOctetHashed body pos)} {r}"
  | _ => none

def showHexList (l : List Bytes) : String := "[" ++ ",".intercalate (l.map hexOfBytes) ++ "]"

/-- canonical text of the fields of a decoded signature packet -/
def showArea (f : AreaResult) : String :=
  let c := f.ctx
  s!"c={c.creation} e={c.expiration} k={c.keyexpiration} x={showBool c.exportable} r={showBool c.revocable} " ++
  s!"kf={hexOfBytes c.keyflags} ft={hexOfBytes c.features} psa={hexOfBytes c.psa} pha={hexOfBytes c.pha} " ++
  s!"pca={hexOfBytes c.pca} paa={hexOfBytes c.paa} rc={c.revcode} " ++
  s!"rk={c.revkeyClass}:{c.revkeyAlgo}:{hexOfBytes c.revkeyFpr} pu={showBool c.primaryUid} " ++
  s!"i={hexOfBytes c.issuer} iv={c.issuerVer} if={hexOfBytes c.issuerFpr} es={hexOfBytes c.embedded} " ++
  s!"esl={showHexList f.embeddedsigs} " ++
  "nt=[" ++ ",".intercalate (f.notations.map fun nv => hexOfBytes nv.1 ++ ":" ++ hexOfBytes nv.2) ++ "] " ++
  s!"rf={showHexList f.recipients}"

/-- pgpmsg.sigmerge <hashed area> <unhashed area> => err | critical | ok <fields> -/
def hSigMerge : Handler
  | [h, u] => do
    let h ← pHex h; let u ← pHex u
    match sigFieldsOfAreas h u with
    | .err => some "err"
    | .critical => some "critical"
    | .ok f => some ("ok " ++ showArea f)
  | _ => none

def handlers : List (String × Handler) := [
  ("pgpmsg.cfb.enc", hCfbEnc), ("pgpmsg.cfb.dec", hCfbDec),
  ("pgpmsg.aead.enc", hAeadEnc), ("pgpmsg.aead.dec", hAeadDec),
  ("pgpmsg.msg.parse", hMsgParse), ("pgpmsg.msg.dec", hMsgDec),
  ("pgpmsg.hash", hHash), ("pgpmsg.validity", hValidity), ("pgpmsg.verify", hVerify),
  ("pgpmsg.sigflip", hSigFlip), ("pgpmsg.sigmerge", hSigMerge)
]

end Tmcg.DriverPgpMsg
