import Tmcg.Driver
import Tmcg.Model.Args
import Tmcg.Model.ArgsGroth
import Tmcg.Model.ArgsSound
/-
  Line-protocol handlers of area "args": the rotation argument (HooghSchoenmakersSkoricVillegasVRHE,
  with PUBROTZK) and the shuffle argument (GrothVSSHE with GrothSKC / PedersenCommitmentScheme) —
  properties C03 (completeness), C04 (false statements refused), C05 (tampering refused).
  Line formats: top of harness/drv_args.cc.
-/
namespace Tmcg.DriverArgs
open Tmcg Tmcg.Driver Tmcg.Args

/-- `[p',q',g',h']` (CRS of the coin flip) or `[]` -/
def pCrs (s : String) : Option (Option CoinFlip.Crs) := do
  let l ← pIntList s
  match l with
  | [] => some none
  | [p, q, g, h] => some (some ⟨p, q, g, h⟩)
  | _ => none

/-- the mode named by the op suffix; `none` when the line lacks what the mode needs -/
def mkMode (name : String) (crs : Option CoinFlip.Crs) (H : Sigma.Hash) : Option Mode :=
  match name with
  | "interactive" => some .inter
  | "publiccoin" => crs.map Mode.pc
  | "noninteractive" => some (.ni H)
  | _ => none

def showOut (r : Except Err CoinFlip.PcOutcome) : String := showPc r

/-- args.vrhe.prove.<mode> p q g h r [s] [X] [Y] [coins] [peer] [log] [crs] => verdict [sent] -/
def hVrheProve (mode : String) : Handler
  | [p, q, g, h, r, s, X, Y, coins, peer, log, crs] => do
    let p ← pInt p; let q ← pInt q; let g ← pInt g; let h ← pInt h; let r ← pNat r
    let s ← pIntList s; let X ← pCardList X; let Y ← pCardList Y; let coins ← pIntList coins
    let peer ← pPeerLines peer; let log ← pOracle log; let crs ← pCrs crs
    let _ ← mkMode mode crs (fun _ => 0)
    some (withOracle log fun H => showOut (do
      let S ← mkSigmaState p q g h 0
      match mkMode mode crs H with
      | none => .error .oob
      | some m => run (done (vrheProve m S r s X Y)) { peer := peer, coins := coins }))
  | _ => none

/-- args.vrhe.verify.<mode> p q g h [X] [Y] [coins] [peer] trunc [log] [crs] => verdict [sent] -/
def hVrheVerify (mode : String) : Handler
  | [p, q, g, h, X, Y, coins, peer, trunc, log, crs] => do
    let p ← pInt p; let q ← pInt q; let g ← pInt g; let h ← pInt h
    let X ← pCardList X; let Y ← pCardList Y; let coins ← pIntList coins
    let peer ← pPeerLines peer; let trunc ← pNat trunc; let log ← pOracle log; let crs ← pCrs crs
    let _ ← mkMode mode crs (fun _ => 0)
    some (withOracle log fun H => showOut (do
      let S ← mkSigmaState p q g h 0
      match mkMode mode crs H with
      | none => .error .oob
      | some m => run (vrheVerify m S X Y) { peer := peer, coins := coins, trunc := trunc = 1 }))
  | _ => none

/-- args.rot.prove.<mode> p q g h r [s] [alpha] [c] [coins] [peer] [log] [crs] => verdict [sent] -/
def hRotProve (mode : String) : Handler
  | [p, q, g, h, r, s, alpha, c, coins, peer, log, crs] => do
    let p ← pInt p; let q ← pInt q; let g ← pInt g; let h ← pInt h; let r ← pNat r
    let s ← pIntList s; let alpha ← pIntList alpha; let c ← pIntList c; let coins ← pIntList coins
    let peer ← pPeerLines peer; let log ← pOracle log; let crs ← pCrs crs
    let _ ← mkMode mode crs (fun _ => 0)
    some (withOracle log fun H => showOut (do
      let S ← mkSigmaState p q g h 0
      match mkMode mode crs H with
      | none => .error .oob
      | some m => run (done (rotProve m S r s alpha c)) { peer := peer, coins := coins }))
  | _ => none

/-- args.rot.verify.<mode> p q g h [alpha] [c] [coins] [peer] trunc [log] [crs] => verdict [sent] -/
def hRotVerify (mode : String) : Handler
  | [p, q, g, h, alpha, c, coins, peer, trunc, log, crs] => do
    let p ← pInt p; let q ← pInt q; let g ← pInt g; let h ← pInt h
    let alpha ← pIntList alpha; let c ← pIntList c; let coins ← pIntList coins
    let peer ← pPeerLines peer; let trunc ← pNat trunc; let log ← pOracle log; let crs ← pCrs crs
    let _ ← mkMode mode crs (fun _ => 0)
    some (withOracle log fun H => showOut (do
      let S ← mkSigmaState p q g h 0
      match mkMode mode crs H with
      | none => .error .oob
      | some m => run (done (rotVerify m S alpha c)) { peer := peer, coins := coins, trunc := trunc = 1 }))
  | _ => none

/-- args.hoogh.witness [idx:r,…] => r [R]   (how the stack-level wrapper derives the witness) -/
def hHooghWitness : Handler
  | [ss] => do
    let ss ← pPairList ss
    let (r, R) := hooghWitness ss
    some s!"{r} {showList R}"
  | _ => none

/-- args.groth.prove.<mode> p q g h le [cg] [pi] [R] [e] [E] [coins] [peer] [log] [crs] => verdict [sent] -/
def hGrothProve (mode : String) : Handler
  | [p, q, g, h, le, cg, pi, R, e, E, coins, peer, log, crs] => do
    let p ← pInt p; let q ← pInt q; let g ← pInt g; let h ← pInt h; let le ← pNat le
    let cg ← pIntList cg; let pi ← pNatList pi; let R ← pIntList R
    let e ← pCardList e; let E ← pCardList E; let coins ← pIntList coins
    let peer ← pPeerLines peer; let log ← pOracle log; let crs ← pCrs crs
    let _ ← mkMode mode crs (fun _ => 0)
    some (withOracle log fun H => showOut (do
      let P ← mkGrothPub p q g h cg le
      match mkMode mode crs H with
      | none => .error .oob
      | some m => run (done (grothProve m P pi R e E)) { peer := peer, coins := coins }))
  | _ => none

/-- args.groth.verify.<mode> p q g h le [cg] [e] [E] [coins] [peer] trunc [log] [crs] => verdict [sent] -/
def hGrothVerify (mode : String) : Handler
  | [p, q, g, h, le, cg, e, E, coins, peer, trunc, log, crs] => do
    let p ← pInt p; let q ← pInt q; let g ← pInt g; let h ← pInt h; let le ← pNat le
    let cg ← pIntList cg; let e ← pCardList e; let E ← pCardList E; let coins ← pIntList coins
    let peer ← pPeerLines peer; let trunc ← pNat trunc; let log ← pOracle log; let crs ← pCrs crs
    let _ ← mkMode mode crs (fun _ => 0)
    some (withOracle log fun H => showOut (do
      let P ← mkGrothPub p q g h cg le
      match mkMode mode crs H with
      | none => .error .oob
      | some m => run (grothVerify m P e E) { peer := peer, coins := coins, trunc := trunc = 1 }))
  | _ => none

/-- args.tmcg.hoogh.verify.<mode> p q g h [s] [s2] [coins] [peer] trunc [log] [crs] => verdict [sent] -/
def hTmcgHooghVerify (mode : String) : Handler
  | [p, q, g, h, X, Y, coins, peer, trunc, log, crs] => do
    let p ← pInt p; let q ← pInt q; let g ← pInt g; let h ← pInt h
    let X ← pCardList X; let Y ← pCardList Y; let coins ← pIntList coins
    let peer ← pPeerLines peer; let trunc ← pNat trunc; let log ← pOracle log; let crs ← pCrs crs
    let _ ← mkMode mode crs (fun _ => 0)
    -- order of checks: the model refuses stacks of different size or with a non-member component before it reads or hashes
    -- anything (`hooghVerifyStack_refuses`); a hash query logged by the code on such a statement means it went further
    let early := X.length ≠ Y.length || (match mkSigmaState p q g h 0 with | .ok S => !stacksInGroup S X Y | .error _ => false)
    if early && !log.isEmpty then some "oracle-unused" else
    some (withOracle log fun H => showOut (do
      let S ← mkSigmaState p q g h 0
      match mkMode mode crs H with
      | none => .error .oob
      | some m => run (hooghVerifyStack m S X Y) { peer := peer, coins := coins, trunc := trunc = 1 }))
  | _ => none

/-- args.tmcg.groth.verify.<mode> p q g h le [cg] [s] [s2] [coins] [peer] trunc [log] [crs] => verdict [sent] -/
def hTmcgGrothVerify (mode : String) : Handler
  | [p, q, g, h, le, cg, e, E, coins, peer, trunc, log, crs] => do
    let p ← pInt p; let q ← pInt q; let g ← pInt g; let h ← pInt h; let le ← pNat le
    let cg ← pIntList cg; let e ← pCardList e; let E ← pCardList E; let coins ← pIntList coins
    let peer ← pPeerLines peer; let trunc ← pNat trunc; let log ← pOracle log; let crs ← pCrs crs
    let _ ← mkMode mode crs (fun _ => 0)
    let early := e.length ≠ E.length || (match mkGrothPub p q g h cg le with | .ok P => !stacksInGroup P.S e E | .error _ => false)
    if early && !log.isEmpty then some "oracle-unused" else
    some (withOracle log fun H => showOut (do
      let P ← mkGrothPub p q g h cg le
      match mkMode mode crs H with
      | none => .error .oob
      | some m => run (grothVerifyStack m P e E) { peer := peer, coins := coins, trunc := trunc = 1 }))
  | _ => none

/-- args.groth.witness [idx:r,…] => [pi] [R] -/
def hGrothWitness : Handler
  | [ss] => do
    let ss ← pPairList ss
    let (pi, R) := grothWitness ss
    some s!"{showList pi} {showList R}"
  | _ => none

def showExc : Except Err Bool → String
  | .ok b => showBool b
  | .error e => toString e

/-- args.groth.exceptional p q g h le [cg] [pi] [R] [e] [E] [t] lam x => 1/0: the exceptional event of the
    soundness theorems (C04Args) for the served challenges; the harness writes the real verdict there -/
def hGrothExc : Handler
  | [p, q, g, h, le, cg, pi, R, e, E, t, lam, x] => do
    let p ← pInt p; let q ← pInt q; let g ← pInt g; let h ← pInt h; let le ← pNat le
    let cg ← pIntList cg; let pi ← pNatList pi; let R ← pIntList R
    let e ← pCardList e; let E ← pCardList E; let t ← pIntList t; let lam ← pInt lam; let x ← pInt x
    some (showExc (do
      let P ← mkGrothPub p q g h cg le
      grothExceptional P pi R e E t lam x))
  | _ => none

/-- args.vrhe.exceptional p q g h r [s] [X] [Y] [alpha] => 1/0 -/
def hVrheExc : Handler
  | [p, q, g, h, r, s, X, Y, alpha] => do
    let p ← pInt p; let q ← pInt q; let g ← pInt g; let h ← pInt h; let r ← pNat r
    let s ← pIntList s; let X ← pCardList X; let Y ← pCardList Y; let alpha ← pIntList alpha
    some (showExc (do
      let S ← mkSigmaState p q g h 0
      rotExceptional S r s X Y alpha))
  | _ => none

/-- args.skc.prove.<mode> p q g h le [cg] [pi] r [m] [coins] [peer] [log] [crs] => verdict [sent] -/
def hSkcProve (mode : String) : Handler
  | [p, q, g, h, le, cg, pi, r, m, coins, peer, log, crs] => do
    let p ← pInt p; let q ← pInt q; let g ← pInt g; let h ← pInt h; let le ← pNat le
    let cg ← pIntList cg; let pi ← pNatList pi; let r ← pInt r; let m ← pIntList m
    let coins ← pIntList coins; let peer ← pPeerLines peer; let log ← pOracle log; let crs ← pCrs crs
    let _ ← mkMode mode crs (fun _ => 0)
    some (withOracle log fun H => showOut (do
      let P ← mkGrothPub p q g h cg le
      match mkMode mode crs H with
      | none => .error .oob
      | some md => run (done (skcProve md P pi r m)) { peer := peer, coins := coins }))
  | _ => none

/-- args.skc.verify.<mode> p q g h le [cg] c [f'] [m] [coins] [peer] trunc [log] [crs] => verdict [sent] -/
def hSkcVerify (mode : String) : Handler
  | [p, q, g, h, le, cg, c, fp, m, coins, peer, trunc, log, crs] => do
    let p ← pInt p; let q ← pInt q; let g ← pInt g; let h ← pInt h; let le ← pNat le
    let cg ← pIntList cg; let c ← pInt c; let fp ← pIntList fp; let m ← pIntList m
    let coins ← pIntList coins; let peer ← pPeerLines peer; let trunc ← pNat trunc
    let log ← pOracle log; let crs ← pCrs crs
    let _ ← mkMode mode crs (fun _ => 0)
    some (withOracle log fun H => showOut (do
      let P ← mkGrothPub p q g h cg le
      match mkMode mode crs H with
      | none => .error .oob
      | some md => run (done (skcVerify md P c fp m)) { peer := peer, coins := coins, trunc := trunc = 1 }))
  | _ => none

def modes : List String := ["interactive", "publiccoin", "noninteractive"]

def handlers : List (String × Handler) :=
  modes.flatMap (fun m => [
    ("args.vrhe.prove." ++ m, hVrheProve m), ("args.vrhe.verify." ++ m, hVrheVerify m),
    ("args.rot.prove." ++ m, hRotProve m), ("args.rot.verify." ++ m, hRotVerify m),
    ("args.groth.prove." ++ m, hGrothProve m), ("args.groth.verify." ++ m, hGrothVerify m),
    ("args.tmcg.hoogh.verify." ++ m, hTmcgHooghVerify m),
    ("args.tmcg.groth.verify." ++ m, hTmcgGrothVerify m),
    ("args.skc.prove." ++ m, hSkcProve m), ("args.skc.verify." ++ m, hSkcVerify m)])
  ++ [("args.hoogh.witness", hHooghWitness), ("args.groth.witness", hGrothWitness),
      ("args.groth.exceptional", hGrothExc), ("args.vrhe.exceptional", hVrheExc)]

end Tmcg.DriverArgs
