import TmcgProofs.RbcLiveA
/-
  C14 liveness, part B: the first-time filters only grow; a consumed well-formed message sets its
  filter entry; description of one system step in terms of `DispL`.
-/
namespace Tmcg.Rbc
variable {H : Int → Int} {T : Tag → Int}

structure FMono (q q' : Party) : Prop where
  send : ∀ a b, fHas q.send a b = true → fHas q'.send a b = true
  echo : ∀ a b, fHas q.echo a b = true → fHas q'.echo a b = true
  ready : ∀ a b, fHas q.ready a b = true → fHas q'.ready a b = true
  request : ∀ a b, fHas q.request a b = true → fHas q'.request a b = true
  answer : ∀ a b, fHas q.answer a b = true → fHas q'.answer a b = true

theorem FMono.refl (q : Party) : FMono q q :=
  ⟨fun _ _ h => h, fun _ _ h => h, fun _ _ h => h, fun _ _ h => h, fun _ _ h => h⟩

theorem FMono.trans {a b c : Party} (h1 : FMono a b) (h2 : FMono b c) : FMono a c :=
  ⟨fun x y h => h2.send x y (h1.send x y h), fun x y h => h2.echo x y (h1.echo x y h),
   fun x y h => h2.ready x y (h1.ready x y h), fun x y h => h2.request x y (h1.request x y h),
   fun x y h => h2.answer x y (h1.answer x y h)⟩

/-- same five filters -/
def FSame (q q' : Party) : Prop :=
  q'.send = q.send ∧ q'.echo = q.echo ∧ q'.ready = q.ready ∧ q'.request = q.request ∧
  q'.answer = q.answer

theorem FSame.mono {q q' : Party} (h : FSame q q') : FMono q q' := by
  obtain ⟨h1, h2, h3, h4, h5⟩ := h
  exact ⟨by rw [h1]; exact fun _ _ h => h, by rw [h2]; exact fun _ _ h => h,
    by rw [h3]; exact fun _ _ h => h, by rw [h4]; exact fun _ _ h => h,
    by rw [h5]; exact fun _ _ h => h⟩

theorem dob_fsame (p : Party) (m : Msg) (s : Sent) : FSame p (deliverOrBuffer p m s).party := by
  unfold deliverOrBuffer; simp only []; split_ifs
  · split <;> exact ⟨rfl, rfl, rfl, rfl, rfl⟩
  · exact ⟨rfl, rfl, rfl, rfl, rfl⟩

theorem DispL.fmono {q : Party} {l : Nat} {msg : Msg} {q' : Party} {s : Sent} {o : Outcome}
    (h : DispL H T q l msg q' s o) : FMono q q' := by
  cases h with
  | drop => exact FMono.refl q
  | markSend => exact { FMono.refl q with send := fun _ _ h => fHas_fIns_mono _ _ _ _ _ h }
  | echoNew => exact { FMono.refl q with send := fun _ _ h => fHas_fIns_mono _ _ _ _ _ h }
  | echoOld => exact { FMono.refl q with send := fun _ _ h => fHas_fIns_mono _ _ _ _ _ h }
  | markEcho => exact { FMono.refl q with echo := fun _ _ h => fHas_fIns_mono _ _ _ _ _ h }
  | echoCount => exact { FMono.refl q with echo := fun _ _ h => fHas_fIns_mono _ _ _ _ _ h }
  | markReady => exact { FMono.refl q with ready := fun _ _ h => fHas_fIns_mono _ _ _ _ _ h }
  | readyCount => exact { FMono.refl q with ready := fun _ _ h => fHas_fIns_mono _ _ _ _ _ h }
  | readyReq wf hact hnew hlen hamp hr p3 hd hfoo =>
    rcases hd with ⟨_, rfl⟩ | ⟨_, rfl⟩ <;>
    exact { FMono.refl q with ready := fun _ _ h => fHas_fIns_mono _ _ _ _ _ h }
  | readyDeliver wf hact hnew hlen hamp hr p3 hd hfoo =>
    refine FMono.trans ?_ (dob_fsame p3 msg []).mono
    rcases hd with ⟨_, rfl⟩ | ⟨_, rfl⟩ <;>
    exact { FMono.refl q with ready := fun _ _ h => fHas_fIns_mono _ _ _ _ _ h }
  | reqAnswer => exact { FMono.refl q with request := fun _ _ h => fHas_fIns_mono _ _ _ _ _ h }
  | markReq => exact { FMono.refl q with request := fun _ _ h => fHas_fIns_mono _ _ _ _ _ h }
  | markAns => exact { FMono.refl q with answer := fun _ _ h => fHas_fIns_mono _ _ _ _ _ h }
  | answerDeliver =>
    refine FMono.trans ?_ (dob_fsame _ msg []).mono
    exact { FMono.refl q with answer := fun _ _ h => fHas_fIns_mono _ _ _ _ _ h }
  | retrieve => exact FMono.refl q
  | ldelMark => exact FSame.mono ⟨rfl, rfl, rfl, rfl, rfl⟩
  | ldelDeliver =>
    refine FMono.trans ?_ (dob_fsame _ msg []).mono
    exact FSame.mono ⟨rfl, rfl, rfl, rfl, rfl⟩

theorem Flagged.mono {q q' : Party} {l : Nat} {msg : Msg} (h : Flagged q l msg) (hm : FMono q q') :
    Flagged q' l msg :=
  ⟨fun a => hm.send _ _ (h.1 a), fun a => hm.echo _ _ (h.2.1 a), fun a => hm.ready _ _ (h.2.2.1 a),
   fun a => hm.request _ _ (h.2.2.2.1 a), fun a => hm.answer _ _ (h.2.2.2.2 a)⟩

theorem DispL.flagged {q : Party} {l : Nat} {msg : Msg} {q' : Party} {s : Sent} {o : Outcome}
    (h : DispL H T q l msg q' s o) (wf0 : WF q msg) : Flagged q' l msg := by
  cases h with
  | drop hfl => exact hfl wf0
  | markSend wf hact => exact .ofSend hact (fHas_fIns_self _ _ _)
  | echoNew wf hact => exact .ofSend hact (fHas_fIns_self _ _ _)
  | echoOld wf hact => exact .ofSend hact (fHas_fIns_self _ _ _)
  | markEcho wf hact => exact .ofEcho hact (fHas_fIns_self _ _ _)
  | echoCount wf hact => exact .ofEcho hact (fHas_fIns_self _ _ _)
  | markReady wf hact => exact .ofReady hact (fHas_fIns_self _ _ _)
  | readyCount wf hact => exact .ofReady hact (fHas_fIns_self _ _ _)
  | readyReq wf hact hnew hlen hamp hr p3 hd hfoo =>
    rcases hd with ⟨_, rfl⟩ | ⟨_, rfl⟩ <;> exact .ofReady hact (fHas_fIns_self _ _ _)
  | readyDeliver wf hact hnew hlen hamp hr p3 hd hfoo =>
    refine Flagged.mono ?_ (dob_fsame p3 msg []).mono
    rcases hd with ⟨_, rfl⟩ | ⟨_, rfl⟩ <;> exact .ofReady hact (fHas_fIns_self _ _ _)
  | reqAnswer wf hact => exact .ofRequest hact (fHas_fIns_self _ _ _)
  | markReq wf hact => exact .ofRequest hact (fHas_fIns_self _ _ _)
  | markAns wf hact => exact .ofAnswer hact (fHas_fIns_self _ _ _)
  | answerDeliver wf hact =>
    refine Flagged.mono ?_ (dob_fsame _ msg []).mono
    exact .ofAnswer hact (fHas_fIns_self _ _ _)
  | retrieve wf hact => exact .ofOther (Or.inr (Or.inl hact))
  | ldelMark wf hact => exact .ofOther (Or.inr (Or.inr hact))
  | ldelDeliver wf hact => exact .ofOther (Or.inr (Or.inr hact))

end Tmcg.Rbc
