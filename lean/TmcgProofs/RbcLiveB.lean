import TmcgProofs.RbcLiveA
/-
  C14 liveness, part B: the first-time filters only grow; a consumed well-formed message sets its
  filter entry; description of one system step in terms of `DispL`.
-/
namespace Tmcg.Rbc
variable {H : Int → Int} {T : Tag → Int}

structure FMono (q q' : Party) : Prop where
  send : ∀ a b, fHas q.send a b = true → fHas q'.send a b = true
  echo : ∀ a b, fHas q.echo a b = true → fHas q'.echo a b = true
  ready : ∀ a b, fHas q.ready a b = true → fHas q'.ready a b = true
  request : ∀ a b, fHas q.request a b = true → fHas q'.request a b = true
  answer : ∀ a b, fHas q.answer a b = true → fHas q'.answer a b = true

theorem FMono.refl (q : Party) : FMono q q :=
  ⟨fun _ _ h => h, fun _ _ h => h, fun _ _ h => h, fun _ _ h => h, fun _ _ h => h⟩

theorem FMono.trans {a b c : Party} (h1 : FMono a b) (h2 : FMono b c) : FMono a c :=
  ⟨fun x y h => h2.send x y (h1.send x y h), fun x y h => h2.echo x y (h1.echo x y h),
   fun x y h => h2.ready x y (h1.ready x y h), fun x y h => h2.request x y (h1.request x y h),
   fun x y h => h2.answer x y (h1.answer x y h)⟩

/-- same five filters -/
def FSame (q q' : Party) : Prop :=
  q'.send = q.send ∧ q'.echo = q.echo ∧ q'.ready = q.ready ∧ q'.request = q.request ∧
  q'.answer = q.answer

theorem FSame.mono {q q' : Party} (h : FSame q q') : FMono q q' := by
  obtain ⟨h1, h2, h3, h4, h5⟩ := h
  exact ⟨by rw [h1]; exact fun _ _ h => h, by rw [h2]; exact fun _ _ h => h,
    by rw [h3]; exact fun _ _ h => h, by rw [h4]; exact fun _ _ h => h,
    by rw [h5]; exact fun _ _ h => h⟩

theorem dob_fsame (p : Party) (m : Msg) (s : Sent) : FSame p (deliverOrBuffer p m s).party := by
  unfold deliverOrBuffer; simp only []; split_ifs
  · split <;> exact ⟨rfl, rfl, rfl, rfl, rfl⟩
  · exact ⟨rfl, rfl, rfl, rfl, rfl⟩

theorem DispL.fmono {q : Party} {l : Nat} {msg : Msg} {q' : Party} {s : Sent} {o : Outcome}
    (h : DispL H T q l msg q' s o) : FMono q q' := by
  cases h with
  | drop => exact FMono.refl q
  | markSend => exact { FMono.refl q with send := fun _ _ h => fHas_fIns_mono _ _ _ _ _ h }
  | echoNew => exact { FMono.refl q with send := fun _ _ h => fHas_fIns_mono _ _ _ _ _ h }
  | echoOld => exact { FMono.refl q with send := fun _ _ h => fHas_fIns_mono _ _ _ _ _ h }
  | markEcho => exact { FMono.refl q with echo := fun _ _ h => fHas_fIns_mono _ _ _ _ _ h }
  | echoCount => exact { FMono.refl q with echo := fun _ _ h => fHas_fIns_mono _ _ _ _ _ h }
  | markReady => exact { FMono.refl q with ready := fun _ _ h => fHas_fIns_mono _ _ _ _ _ h }
  | readyCount => exact { FMono.refl q with ready := fun _ _ h => fHas_fIns_mono _ _ _ _ _ h }
  | readyReq wf hact hnew hlen hamp hr p3 hd hfoo =>
    rcases hd with ⟨_, rfl⟩ | ⟨_, rfl⟩ <;>
    exact { FMono.refl q with ready := fun _ _ h => fHas_fIns_mono _ _ _ _ _ h }
  | readyDeliver wf hact hnew hlen hamp hr p3 hd hfoo =>
    refine FMono.trans ?_ (dob_fsame p3 msg []).mono
    rcases hd with ⟨_, rfl⟩ | ⟨_, rfl⟩ <;>
    exact { FMono.refl q with ready := fun _ _ h => fHas_fIns_mono _ _ _ _ _ h }
  | reqAnswer => exact { FMono.refl q with request := fun _ _ h => fHas_fIns_mono _ _ _ _ _ h }
  | markReq => exact { FMono.refl q with request := fun _ _ h => fHas_fIns_mono _ _ _ _ _ h }
  | markAns => exact { FMono.refl q with answer := fun _ _ h => fHas_fIns_mono _ _ _ _ _ h }
  | answerDeliver =>
    refine FMono.trans ?_ (dob_fsame _ msg []).mono
    exact { FMono.refl q with answer := fun _ _ h => fHas_fIns_mono _ _ _ _ _ h }
  | retrieve => exact FMono.refl q
  | ldelMark => exact FSame.mono ⟨rfl, rfl, rfl, rfl, rfl⟩
  | ldelDeliver =>
    refine FMono.trans ?_ (dob_fsame _ msg []).mono
    exact FSame.mono ⟨rfl, rfl, rfl, rfl, rfl⟩

theorem Flagged.mono {q q' : Party} {l : Nat} {msg : Msg} (h : Flagged q l msg) (hm : FMono q q') :
    Flagged q' l msg :=
  ⟨fun a => hm.send _ _ (h.1 a), fun a => hm.echo _ _ (h.2.1 a), fun a => hm.ready _ _ (h.2.2.1 a),
   fun a => hm.request _ _ (h.2.2.2.1 a), fun a => hm.answer _ _ (h.2.2.2.2 a)⟩

theorem DispL.flagged {q : Party} {l : Nat} {msg : Msg} {q' : Party} {s : Sent} {o : Outcome}
    (h : DispL H T q l msg q' s o) (wf0 : WF q msg) : Flagged q' l msg := by
  cases h with
  | drop hfl => exact hfl wf0
  | markSend wf hact => exact .ofSend hact (fHas_fIns_self _ _ _)
  | echoNew wf hact => exact .ofSend hact (fHas_fIns_self _ _ _)
  | echoOld wf hact => exact .ofSend hact (fHas_fIns_self _ _ _)
  | markEcho wf hact => exact .ofEcho hact (fHas_fIns_self _ _ _)
  | echoCount wf hact => exact .ofEcho hact (fHas_fIns_self _ _ _)
  | markReady wf hact => exact .ofReady hact (fHas_fIns_self _ _ _)
  | readyCount wf hact => exact .ofReady hact (fHas_fIns_self _ _ _)
  | readyReq wf hact hnew hlen hamp hr p3 hd hfoo =>
    rcases hd with ⟨_, rfl⟩ | ⟨_, rfl⟩ <;> exact .ofReady hact (fHas_fIns_self _ _ _)
  | readyDeliver wf hact hnew hlen hamp hr p3 hd hfoo =>
    refine Flagged.mono ?_ (dob_fsame p3 msg []).mono
    rcases hd with ⟨_, rfl⟩ | ⟨_, rfl⟩ <;> exact .ofReady hact (fHas_fIns_self _ _ _)
  | reqAnswer wf hact => exact .ofRequest hact (fHas_fIns_self _ _ _)
  | markReq wf hact => exact .ofRequest hact (fHas_fIns_self _ _ _)
  | markAns wf hact => exact .ofAnswer hact (fHas_fIns_self _ _ _)
  | answerDeliver wf hact =>
    refine Flagged.mono ?_ (dob_fsame _ msg []).mono
    exact .ofAnswer hact (fHas_fIns_self _ _ _)
  | retrieve wf hact => exact .ofOther (Or.inr (Or.inl hact))
  | ldelMark wf hact => exact .ofOther (Or.inr (Or.inr hact))
  | ldelDeliver wf hact => exact .ofOther (Or.inr (Or.inr hact))

/-! ### micro-steps: every event is one or two of these -/

inductive Micro (H : Int → Int) (T : Tag → Int) (c : Cfg) : Sys → Sys → Prop
  /-- housekeeping of the deliver buffer (nothing deliverable): obsolete entries are dropped,
      l-retrieve messages may be sent -/
  | hk (s : Sys) (i : Nat) (hi : c.honest i) (R : Filter) (s0 : Sent)
      (hff : findFirst (deliverable (s.st i)) (s.st i).deliverBuf = none)
      (hR : (s.st i).fifo = false → R = (s.st i).retrieve)
      (hs0 : ∀ x ∈ s0, x.2.action = lRetrieve) :
      Micro H T c s ⟨upd s.st i (hkParty (s.st i) R), s.log ++ tagMsgs i s0, s.bc, s.dl⟩
  /-- a message is consumed -/
  | disp (s : Sys) (i : Nat) (hi : c.honest i) (l : Nat) (msg : Msg) (hl : l < c.n)
      (hin : l ∈ c.byz ∨ (l, i, msg) ∈ s.log) (q' : Party) (sd : Sent) (o : Outcome)
      (hD : DispL H T (s.st i) l msg q' sd o) :
      Micro H T c s ⟨upd s.st i q', s.log ++ tagMsgs i sd, s.bc, dlAfter s.dl i msg.tag o⟩
  /-- a buffered message is handed out -/
  | bufDel (s : Sys) (i : Nat) (hi : c.honest i) (e : Msg) (rest : List Msg) (m : Int)
      (hff : findFirst (deliverable (s.st i)) (s.st i).deliverBuf = some (e, rest))
      (hm : aGet (s.st i).mbar e.tag = some m) :
      Micro H T c s ⟨upd s.st i { s.st i with
          deliverS := (s.st i).deliverS.set e.sender.toNat ((s.st i).dS e.sender.toNat + 1),
          deliverBuf := rest }, s.log, s.bc, s.dl ++ [(i, e.tag, m)]⟩
  | bcast (s : Sys) (i : Nat) (hi : c.honest i) (v rnd : Int) :
      Micro H T c s (s.apply H T (.bcast i v rnd))

theorem sys_eta (s : Sys) : s = ⟨s.st, s.log, s.bc, s.dl⟩ := by cases s; rfl

theorem tagMsgs_nil (i : Nat) : tagMsgs i [] = [] := rfl

/-- one `Deliver` iteration of an honest party as micro-steps -/
theorem stepSys_micro {c : Cfg} {s : Sys} (hI : Inv H c s) {i : Nat}
    (hi : c.honest i) (pi : List Nat) (inp : Option (Nat × Msg))
    (hinp : ∀ l msg, inp = some (l, msg) → l < c.n ∧ (l ∈ c.byz ∨ (l, i, msg) ∈ s.log)) :
    (findFirst (deliverable (s.st i)) (s.st i).deliverBuf ≠ none ∧
      Micro H T c s (stepSys H T s i pi inp)) ∨
    (findFirst (deliverable (s.st i)) (s.st i).deliverBuf = none ∧
      ∃ s1, Micro H T c s s1 ∧ Inv H c s1 ∧
        ((inp = none ∧ stepSys H T s i pi inp = s1) ∨
         (∃ l msg q' sd o, inp = some (l, msg) ∧ DispL H T (s1.st i) l msg q' sd o ∧
            Micro H T c s1 (stepSys H T s i pi inp) ∧
            stepSys H T s i pi inp =
              ⟨upd s1.st i q', s1.log ++ tagMsgs i sd, s1.bc, dlAfter s1.dl i msg.tag o⟩))) := by
  have hP : PInv H c i (s.st i) s.log s.dl := hI.parties i hi
  rcases phaseBuffer_cases (s.st i) hP.cskip with ⟨e, rest, hff, hm, hpb⟩ |
    ⟨e, rest, m, hff, hm, hpb⟩ | ⟨hff, R, s0, hpb, hR, hs0⟩
  · exfalso
    obtain ⟨he, hdel, _⟩ := findFirst_some _ _ _ _ hff
    unfold deliverable at hdel
    simp only [Bool.and_eq_true, decide_eq_true_eq] at hdel
    obtain ⟨v, hv, _⟩ := hP.good e.tag (hdel.1.trans hP.cID) (Or.inl ⟨e, he, rfl⟩)
    rw [hm] at hv; cases hv
  · left
    refine ⟨by rw [hff]; simp, ?_⟩
    have hstep : step H T (s.st i) pi inp = ⟨{ s.st i with
          deliverS := (s.st i).deliverS.set e.sender.toNat ((s.st i).dS e.sender.toNat + 1),
          deliverBuf := rest }, [], .delivered e.sender.toNat m⟩ := by
      unfold step; rw [hpb]
    have htag : deliveredTag (s.st i) pi inp = e.tag := by
      unfold deliveredTag stepMsg; rw [hff]; rfl
    rw [stepSys_eq H T s i pi inp _ _ _ hstep, htag]
    have := Micro.bufDel (H := H) (T := T) (c := c) s i hi e rest m hff hm
    simpa [dlAfter, tagMsgs_nil] using this
  · right
    refine ⟨hff, _, Micro.hk s i hi R s0 hff hR hs0, ?_, ?_⟩
    · exact inv_T1 hI hi _ s0 (hP.hk R hR) (NewOk.of_quiet (quiet_of_retrieve hs0))
    · have htb : takeBuffered (hkParty (s.st i) R).bufMsg pi = none := by
        show takeBuffered (s.st i).bufMsg pi = none
        rw [hP.cbuf]; exact takeBuffered_replicate _ _
      have htb' : takeBuffered (s.st i).bufMsg pi = none := htb
      cases inp with
      | none =>
        left
        refine ⟨rfl, ?_⟩
        have hstep : step H T (s.st i) pi none = ⟨hkParty (s.st i) R, s0, .idle⟩ := by
          unfold step; rw [hpb]; simp only []; rw [htb]
        rw [stepSys_eq H T s i pi none _ _ _ hstep]; rfl
      | some lm =>
        obtain ⟨l, msg⟩ := lm
        right
        obtain ⟨q', sd, o, hD, hEq⟩ := dispatchL H T (hkParty (s.st i) R) s0 l msg
        have hstep : step H T (s.st i) pi (some (l, msg)) = ⟨q', s0 ++ sd, o⟩ := by
          unfold step; rw [hpb]; simp only []; rw [htb]; exact hEq
        have htag : deliveredTag (s.st i) pi (some (l, msg)) = msg.tag := by
          unfold deliveredTag stepMsg; rw [hff]; simp only []; rw [htb']; rfl
        obtain ⟨hl, hin⟩ := hinp l msg rfl
        have hD' : DispL H T ((⟨upd s.st i (hkParty (s.st i) R), s.log ++ tagMsgs i s0, s.bc,
            s.dl⟩ : Sys).st i) l msg q' sd o := by
          show DispL H T (upd s.st i (hkParty (s.st i) R) i) l msg q' sd o
          rw [upd_same]; exact hD
        have hfin : stepSys H T s i pi (some (l, msg)) =
            ⟨upd (upd s.st i (hkParty (s.st i) R)) i q', (s.log ++ tagMsgs i s0) ++ tagMsgs i sd,
              s.bc, dlAfter s.dl i msg.tag o⟩ := by
          rw [stepSys_eq H T s i pi _ _ _ _ hstep, htag, upd_upd, tagMsgs_append, List.append_assoc]
        refine ⟨l, msg, q', sd, o, rfl, hD', ?_, hfin⟩
        rw [hfin]
        refine Micro.disp _ i hi l msg hl ?_ q' sd o hD'
        rcases hin with h | h
        · exact Or.inl h
        · exact Or.inr (List.mem_append_left _ h)

/-- what an event hands to `stepSys` -/
theorem valid_input {c : Cfg} {s : Sys} {i src : Nat} {msg : Msg}
    (hv : src < c.n ∧ (src ∈ c.byz ∨ (src, i, msg) ∈ s.log)) :
    ∀ l m, (some (src, msg) : Option (Nat × Msg)) = some (l, m) →
      l < c.n ∧ (l ∈ c.byz ∨ (l, i, m) ∈ s.log) := by
  intro l m h
  simp only [Option.some.injEq, Prod.mk.injEq] at h
  obtain ⟨rfl, rfl⟩ := h
  exact hv

/-- induction over reachable states along micro-steps, with the safety invariant at hand -/
theorem live_induction {c : Cfg} (hy : Hyp H c) (P : Sys → Prop) (h0 : P (Sys.init c))
    (hstep : ∀ s s', Inv H c s → Inv H c s' → Micro H T c s s' → P s → P s') :
    ∀ {s : Sys}, Reach H T c s → P s := by
  intro s hr
  induction hr with
  | init => exact h0
  | step s ev hr hv ih =>
    have hI := reach_inv hy hr
    have hI' := inv_step T hy hI ev hv
    have key : ∀ (i : Nat) (hi : c.honest i) (pi : List Nat) (inp : Option (Nat × Msg)),
        (∀ l msg, inp = some (l, msg) → l < c.n ∧ (l ∈ c.byz ∨ (l, i, msg) ∈ s.log)) →
        Inv H c (stepSys H T s i pi inp) → P (stepSys H T s i pi inp) := by
      intro i hi pi inp hinp hI2
      rcases stepSys_micro (T := T) hI hi pi inp hinp with ⟨_, hm⟩ |
        ⟨_, s1, hm1, hI1, ⟨_, heq⟩ | ⟨l, msg, q', sd, o, _, _, hm2, _⟩⟩
      · exact hstep _ _ hI hI2 hm ih
      · rw [heq]; exact hstep _ _ hI hI1 hm1 ih
      · exact hstep _ _ hI1 hI2 hm2 (hstep _ _ hI hI1 hm1 ih)
    cases ev with
    | recv i src msg pi =>
      obtain ⟨hi, hsrc, hin⟩ := hv
      exact key i hi pi _ (valid_input ⟨hsrc, hin⟩) hI'
    | tick i pi =>
      exact key i hv pi none (by intro l m h; cases h) hI'
    | bcast i v rnd => exact hstep _ _ hI hI' (Micro.bcast s i hv v rnd) ih

end Tmcg.Rbc
