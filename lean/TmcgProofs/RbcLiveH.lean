import TmcgProofs.RbcLiveG
/-
  C14 liveness, part H: once the digest of a slot is fixed, the slot is awaited (r-request
  outstanding), delivered, or buffered.
-/
namespace Tmcg.Rbc
variable {H : Int → Int} {T : Tag → Int} {c : Cfg}

theorem findFirst_split {α} (q : α → Bool) : ∀ (l : List α) (e : α) (rest : List α),
    findFirst q l = some (e, rest) → ∀ x ∈ l, x = e ∨ x ∈ rest := by
  intro l
  induction l with
  | nil => intro e rest h; simp [findFirst] at h
  | cons y ys ih =>
    intro e rest h x hx
    unfold findFirst at h
    by_cases hq : q y = true
    · rw [if_pos hq] at h
      simp only [Option.some.injEq, Prod.mk.injEq] at h
      obtain ⟨rfl, rfl⟩ := h
      rcases List.mem_cons.1 hx with rfl | hx
      · exact Or.inl rfl
      · exact Or.inr hx
    · rw [if_neg hq] at h
      cases hr : findFirst q ys with
      | none => rw [hr] at h; simp at h
      | some zr =>
        obtain ⟨z, r⟩ := zr
        rw [hr] at h
        simp only [Option.some.injEq, Prod.mk.injEq] at h
        obtain ⟨rfl, rfl⟩ := h
        rcases List.mem_cons.1 hx with rfl | hx
        · exact Or.inr List.mem_cons_self
        · rcases ih z r hr x hx with h | h
          · exact Or.inl h
          · exact Or.inr (List.mem_cons_of_mem _ h)

def Prog (p : Party) (dl : List (Nat × Tag × Int)) (j : Nat) (τ : Tag) : Prop :=
  τ ∈ p.awaited ∨ (∃ v, (j, τ, v) ∈ dl) ∨ (∃ e ∈ p.deliverBuf, e.tag = τ)

def DbarProg (c : Cfg) (s : Sys) : Prop :=
  ∀ j, c.honest j → ∀ τ d, aGet (s.st j).dbar τ = some d → Prog (s.st j) s.dl j τ

theorem dbarProg_step (hy : Hyp H c) {s s' : Sys} (hI : Inv H c s) (hI' : Inv H c s')
    (hm : Micro H T c s s') (ih : DbarProg c s) : DbarProg c s' := by
  have hfr := hm.frame
  intro j hj τ d hd
  have hP := hI.parties j hj
  -- same state of `j`
  have old' : (s'.st j) = (s.st j) → Prog (s'.st j) s'.dl j τ := by
    intro h; rw [h] at hd ⊢
    rcases ih j hj τ d hd with h1 | ⟨v, h1⟩ | h1
    · exact Or.inl h1
    · exact Or.inr (Or.inl ⟨v, hfr.2.1 _ h1⟩)
    · exact Or.inr (Or.inr h1)
  cases hm with
  | bcast i hi v rnd =>
    have hd0 : aGet (s.st j).dbar τ = some d := by
      rw [← upd_field (·.dbar) s.st i (broadcast (s.st i) v rnd).1 j rfl]; exact hd
    have e1 : (upd s.st i (broadcast (s.st i) v rnd).1 j).awaited = (s.st j).awaited :=
      upd_field (·.awaited) _ _ _ _ rfl
    have e2 : (upd s.st i (broadcast (s.st i) v rnd).1 j).deliverBuf = (s.st j).deliverBuf :=
      upd_field (·.deliverBuf) _ _ _ _ rfl
    show Prog (upd s.st i (broadcast (s.st i) v rnd).1 j) s.dl j τ
    unfold Prog; rw [e1, e2]; exact ih j hj τ d hd0
  | hk i hi R s0 hff hR hs0 =>
    by_cases hji : j = i
    swap
    · exact old' (upd_ne _ _ _ _ hji)
    subst hji
    show Prog (upd s.st j (hkParty (s.st j) R) j) s.dl j τ
    have hd0 : aGet (s.st j).dbar τ = some d := by
      have := hd
      rw [show ((⟨upd s.st j (hkParty (s.st j) R), s.log ++ tagMsgs j s0, s.bc, s.dl⟩ : Sys).st j)
        = hkParty (s.st j) R from upd_same _ _ _] at this
      exact this
    rw [upd_same]
    rcases ih j hj τ d hd0 with h1 | h1 | ⟨e, he, het⟩
    · exact Or.inl h1
    · exact Or.inr (Or.inl h1)
    · by_cases hob : obsolete (s.st j) e = true
      · right; left
        unfold obsolete at hob
        simp only [Bool.and_eq_true, decide_eq_true_eq] at hob
        obtain ⟨⟨hid, hfifo⟩, hlt⟩ := hob
        obtain ⟨w0, w1, w2⟩ := hP.bufWF e he
        rw [hP.cn] at w1
        rw [← het]
        exact hP.fifoDel (hP.cfifo.symm.trans hfifo) e.tag (hid.trans hP.cID) w0 w1 w2 hlt
      · right; right
        refine ⟨e, List.mem_filter.2 ⟨he, ?_⟩, het⟩
        simpa using hob
  | bufDel i hi e rest m' hff hm' =>
    by_cases hji : j = i
    swap
    · exact old' (upd_ne _ _ _ _ hji)
    subst hji
    have hd0 : aGet (s.st j).dbar τ = some d := by
      have := hd
      rw [show ((⟨upd s.st j _, s.log, s.bc, s.dl ++ [(j, e.tag, m')]⟩ : Sys).st j)
        = _ from upd_same _ _ _] at this
      exact this
    show Prog (upd s.st j _ j) (s.dl ++ [(j, e.tag, m')]) j τ
    rw [upd_same]
    rcases ih j hj τ d hd0 with h1 | ⟨v, h1⟩ | ⟨x, hx, hxt⟩
    · exact Or.inl h1
    · exact Or.inr (Or.inl ⟨v, List.mem_append_left _ h1⟩)
    · rcases findFirst_split _ _ _ _ hff x hx with rfl | h
      · right; left
        exact ⟨m', by rw [← hxt]; exact List.mem_append_right _ (List.mem_singleton.2 rfl)⟩
      · exact Or.inr (Or.inr ⟨x, h, hxt⟩)
  | disp i hi l msg hl hin q' sd o hD =>
    by_cases hji : j = i
    swap
    · exact old' (upd_ne _ _ _ _ hji)
    subst hji
    have hst : (upd s.st j q' j) = q' := upd_same _ _ _
    have hd' : aGet q'.dbar τ = some d := by
      have := hd
      rw [show ((⟨upd s.st j q', s.log ++ tagMsgs j sd, s.bc, dlAfter s.dl j msg.tag o⟩ : Sys).st j)
        = q' from hst] at this
      exact this
    show Prog (upd s.st j q' j) (dlAfter s.dl j msg.tag o) j τ
    rw [hst]
    obtain ⟨p1, p2, p3⟩ := hD.prog
    -- transfer of an old `Prog`
    have transfer : Prog (s.st j) s.dl j τ →
        (τ = msg.tag → msg.tag ∈ (s.st j).awaited → Prog q' (dlAfter s.dl j msg.tag o) j τ) →
        Prog q' (dlAfter s.dl j msg.tag o) j τ := by
      intro h hsp
      rcases h with h1 | ⟨v, h1⟩ | ⟨e, he, het⟩
      · by_cases hτ : τ = msg.tag
        · exact hsp hτ (hτ ▸ h1)
        · exact Or.inl (p1 τ h1 hτ)
      · exact Or.inr (Or.inl ⟨v, dlAfter_mono _ _ _ _ _ h1⟩)
      · exact Or.inr (Or.inr ⟨e, p2 e he, het⟩)
    -- what `p3` yields
    have fromp3 : τ = msg.tag →
        (msg.tag ∈ (s.st j).awaited ∨
          (aGet (s.st j).dbar msg.tag = none ∧ aGet q'.dbar msg.tag ≠ none)) →
        Prog q' (dlAfter s.dl j msg.tag o) j τ := by
      intro hτ hpre
      subst hτ
      rcases p3 hpre with h | ⟨who, m, h⟩ | h | h
      · exact Or.inl h
      · right; left
        rw [h]; exact ⟨m, List.mem_append_right _ (List.mem_singleton.2 rfl)⟩
      · exact Or.inr (Or.inr ⟨msg, h, rfl⟩)
      · exfalso
        have hP' := hI'.parties j hj
        have hE : EQ c (s.log ++ tagMsgs j sd) msg.tag 0 := by
          refine hP'.dbarEQ msg.tag 0 ?_
          show aGet (upd s.st j q' j).dbar msg.tag = some 0
          rw [hst]; exact h
        obtain ⟨k, dst, m, _, hm1, hm2, _, hm4⟩ := EQ.honest hy hE
        obtain ⟨v, hv, _⟩ := hI'.echoH k dst m hm1 hm2
        rw [hm4] at hv
        exact hy.h0 v hv.symm
    cases hdo : aGet (s.st j).dbar τ with
    | some d0 => exact transfer (ih j hj τ d0 hdo) (fun hτ h => fromp3 hτ (Or.inl h))
    | none =>
      rcases hD.dbar_change with h' | ⟨h', hn, _⟩
      · rw [h', hdo] at hd'; cases hd'
      · by_cases hτ : τ = msg.tag
        · refine fromp3 hτ (Or.inr ⟨hn, ?_⟩)
          rw [← hτ, hd']; simp
        · rw [h', aGet_aSet_ne _ _ _ _ hτ, hdo] at hd'; cases hd'

theorem dob_deliverS (p : Party) (msg : Msg) :
    (deliverOrBuffer p msg []).party.deliverS = p.deliverS ∨
    ∃ w, (deliverOrBuffer p msg []).party.deliverS = p.deliverS.set w (p.dS w + 1) := by
  rcases dob_cases p msg with ⟨_, _, _, heq⟩ | ⟨_, _, _, _, heq⟩ | ⟨_, heq⟩ <;> rw [heq]
  · exact Or.inl rfl
  · exact Or.inr ⟨_, rfl⟩
  · exact Or.inl rfl

theorem DispL.deliverS_change {q : Party} {l : Nat} {msg : Msg} {q' : Party} {s : Sent} {o : Outcome}
    (h : DispL H T q l msg q' s o) :
    q'.deliverS = q.deliverS ∨ ∃ w, q'.deliverS = q.deliverS.set w (q.dS w + 1) := by
  cases h with
  | readyReq wf hact hnew hlen hamp hr p3 hd hfoo =>
    rcases hd with ⟨_, rfl⟩ | ⟨_, rfl⟩ <;> exact Or.inl rfl
  | readyDeliver wf hact hnew hlen hamp hr p3 hd hfoo =>
    have h3 : p3.deliverS = q.deliverS := by rcases hd with ⟨_, rfl⟩ | ⟨_, rfl⟩ <;> rfl
    have := dob_deliverS p3 msg
    unfold Party.dS at this ⊢
    rw [h3] at this; exact this
  | answerDeliver => exact dob_deliverS (answerPost q l msg) msg
  | ldelDeliver => exact dob_deliverS (ldelDec q l msg _) msg
  | _ => exact Or.inl rfl

/-- the deliver counters start at 1 and only grow -/
def DSPos (c : Cfg) (s : Sys) : Prop :=
  ∀ j, c.honest j → ∀ w, w < c.n → 1 ≤ (s.st j).dS w

theorem dSPos_init (c : Cfg) : DSPos c (Sys.init c) := by
  intro j _ w hw
  show 1 ≤ (List.replicate c.n (1 : Int)).getD w 0
  simp [List.getD_eq_getElem?_getD, hw]

theorem dSPos_step {s s' : Sys} (hI : Inv H c s) (hm : Micro H T c s s') (ih : DSPos c s) :
    DSPos c s' := by
  intro j hj w hw
  have same : (s'.st j).deliverS = (s.st j).deliverS → 1 ≤ (s'.st j).dS w := by
    intro h; unfold Party.dS; rw [h]; exact ih j hj w hw
  have setcase : ∀ (q' : Party) (w0 : Nat),
      q'.deliverS = (s.st j).deliverS.set w0 ((s.st j).dS w0 + 1) → 1 ≤ q'.dS w := by
    intro q' w0 h
    unfold Party.dS; rw [h]
    by_cases hww : w = w0
    · subst hww
      rw [getD_set_self _ _ _ (by rw [(hI.parties j hj).clen]; exact hw)]
      have := ih j hj w hw
      unfold Party.dS at this ⊢; omega
    · rw [getD_set_ne _ _ _ _ hww]; exact ih j hj w hw
  cases hm with
  | hk i hi R s0 hff hR hs0 => exact same (upd_field (·.deliverS) _ _ _ _ rfl)
  | bcast i hi v rnd => exact same (upd_field (·.deliverS) _ _ _ _ rfl)
  | bufDel i hi e rest m' hff hm' =>
    by_cases hji : j = i
    swap
    · exact same (by show (upd s.st i _ j).deliverS = _; rw [upd_ne _ _ _ _ hji])
    subst hji
    show 1 ≤ (upd s.st j _ j).dS w
    rw [upd_same]
    exact setcase _ e.sender.toNat rfl
  | disp i hi l msg hl hin q' sd o hD =>
    by_cases hji : j = i
    swap
    · exact same (by show (upd s.st i q' j).deliverS = _; rw [upd_ne _ _ _ _ hji])
    subst hji
    show 1 ≤ (upd s.st j q' j).dS w
    rw [upd_same]
    rcases hD.deliverS_change with h | ⟨w0, h⟩
    · unfold Party.dS; rw [h]; exact ih j hj w hw
    · exact setcase q' w0 h

end Tmcg.Rbc
