import TmcgProofs.CgjkrSignBindE
/-
  C16, run level, part F: the simulator of the product proof, and a per-step fact about the back-up sharings
  (`PedersenVSS::Share`, receiver side).

    * `prod_proof_simulate`   for ANY `α, β, χ`, any challenge `d` and any answers there is a first message that makes
                              the three checks of `sCheckProd` pass: one accepting run of the proof carries no
                              information when the challenge is known beforehand (the formal content of "the product
                              relation is not implied by the checks of a single run")
    * `pvRhs_false`           the right-hand side loop of the receiver's check without `CheckElement` failure: all
                              entries are elements of the group of order `q`, the value is `commitProdFrom`
  TODO (not done): `pvRecv1`–`pvRecv3` — without complaint the pair `(σ, τ)` the receiver keeps is in range and
  satisfies `g^σ h^τ = ∏ A_k^{x^k}` against the row it keeps, whose entries are all group elements (`pvRhs_false`);
  on the complaint path (`pvRecv3Go`) the dealer's published pairs are checked with `commitProd` against the same row,
  whose entries are then only known to be checked by the receivers that did not complain.
-/
namespace Tmcg.CgjkrSignBind
open Tmcg Tmcg.Powm Tmcg.Dkg Tmcg.Grp Tmcg.DkgL Tmcg.DkgP Tmcg.Cgjkr Tmcg.CgjkrSign Tmcg.CgjkrSignRunP
open Polynomial

/-! ### receiver side of a back-up sharing -/

theorem pvRhs_false (G : Dkg.Grp) (x : Nat) (k : Nat) (cs : List Int) (acc r : Int)
    (h : pvRhs G x k cs acc = .ok (false, r)) :
    (∀ c ∈ cs, Dkg.checkElement G c = true) ∧ commitProdFrom G.p x k cs acc = .ok r := by
  induction cs generalizing k acc with
  | nil =>
    simp only [pvRhs, Except.ok.injEq, Prod.mk.injEq, true_and] at h
    subst h
    exact ⟨fun c hc => absurd hc List.not_mem_nil, rfl⟩
  | cons c cs ih =>
    simp only [pvRhs] at h
    split at h
    · simp at h
    · rename_i hc
      simp only [bind, Except.bind] at h
      cases hb : mpzPowm c ((x : Int) ^ k) G.p with
      | error e => rw [hb] at h; cases h
      | ok b =>
        rw [hb] at h
        simp only at h
        obtain ⟨i1, i2⟩ := ih _ _ h
        refine ⟨?_, ?_⟩
        · intro c' hc'
          rcases List.mem_cons.mp hc' with rfl | hc'
          · simpa using hc
          · exact i1 c' hc'
        · simp only [commitProdFrom, bind, Except.bind, hb]
          exact i2

variable {G : Dkg.Grp} [Fact (Nat.Prime G.p.natAbs)] [Fact (Nat.Prime G.q.natAbs)]

set_option linter.unusedSectionVars false
set_option linter.unusedVariables false

/-- **the product proof can be simulated**: for any `α, β, χ`, any challenge and any answers there is a first message
    `(DD, DD', EE)` that makes the three checks of steps 1d / 2d pass. -/
theorem prod_proof_simulate (hG : ValidGrp G) (al be ch : Fp G) (hal0 : al ≠ 0) (hbe0 : be ≠ 0) (hch0 : ch ≠ 0)
    (d f1 z1 f2 z2 z3 : Int) :
    ∃ DD DDp EE : Fp G,
      cp G G.g ^ f1 * cp G G.h ^ z1 = al ^ d * DD ∧
      cp G G.g ^ f2 * cp G G.h ^ z2 = be ^ d * EE ∧
      be ^ f1 * cp G G.h ^ z3 = ch ^ d * DDp := by
  refine ⟨(al ^ d)⁻¹ * (cp G G.g ^ f1 * cp G G.h ^ z1), (ch ^ d)⁻¹ * (be ^ f1 * cp G G.h ^ z3),
    (be ^ d)⁻¹ * (cp G G.g ^ f2 * cp G G.h ^ z2), ?_, ?_, ?_⟩
  · rw [← mul_assoc, mul_inv_cancel₀ (zpow_ne_zero _ hal0), one_mul]
  · rw [← mul_assoc, mul_inv_cancel₀ (zpow_ne_zero _ hbe0), one_mul]
  · rw [← mul_assoc, mul_inv_cancel₀ (zpow_ne_zero _ hch0), one_mul]

end Tmcg.CgjkrSignBind
