import TmcgProofs.RbcLiveF
/-
  C14 liveness, part G: thresholds.  Enough echoes or readies ⇒ the r-ready was sent;
  `2t+1` readies ⇒ the digest is fixed.
-/
namespace Tmcg.Rbc
variable {H : Int → Int} {T : Tag → Int} {c : Cfg}

theorem mkMsg_ready (msg : Msg) (d : Int) : mkMsg msg rReady d = readyMsg msg.tag d := rfl
theorem mkMsg_echo (msg : Msg) (d : Int) : mkMsg msg rEcho d = echoMsg msg.tag d := rfl

/-- with an echo quorum or `t+1` readies counted, the party has sent its r-ready
    (or `t = 0` and it has counted a ready itself) -/
def ReadySent (c : Cfg) (s : Sys) : Prop :=
  ∀ j, c.honest j → ∀ τ d,
    (c.n - c.t ≤ cnt (s.st j).eD (τ, d) ∨ c.t + 1 ≤ cnt (s.st j).rD (τ, d)) →
    SentAll c s j (readyMsg τ d) ∨ (c.t = 0 ∧ 1 ≤ cnt (s.st j).rD (τ, d))

theorem readySent_step {s s' : Sys} (hI : Inv H c s) (hm : Micro H T c s s')
    (ih : ReadySent c s) : ReadySent c s' := by
  have hfr := hm.frame
  intro j hj τ d hprem
  have old : (c.n - c.t ≤ cnt (s.st j).eD (τ, d) ∨ c.t + 1 ≤ cnt (s.st j).rD (τ, d)) →
      cnt (s.st j).rD (τ, d) ≤ cnt (s'.st j).rD (τ, d) →
      SentAll c s' j (readyMsg τ d) ∨ (c.t = 0 ∧ 1 ≤ cnt (s'.st j).rD (τ, d)) := by
    intro h hle
    rcases ih j hj τ d h with h1 | ⟨h1, h2⟩
    · exact Or.inl (fun x hx => hfr.1 _ (h1 x hx))
    · exact Or.inr ⟨h1, le_trans h2 hle⟩
  have old' : (s'.st j).eD = (s.st j).eD → (s'.st j).rD = (s.st j).rD →
      SentAll c s' j (readyMsg τ d) ∨ (c.t = 0 ∧ 1 ≤ cnt (s'.st j).rD (τ, d)) := by
    intro h1 h2
    rw [h1, h2] at hprem
    exact old hprem (by rw [h2])
  cases hm with
  | hk i hi R s0 hff hR hs0 =>
    exact old' (upd_field (·.eD) _ _ _ _ rfl) (upd_field (·.rD) _ _ _ _ rfl)
  | bufDel i hi e rest m' hff hm' =>
    exact old' (upd_field (·.eD) _ _ _ _ rfl) (upd_field (·.rD) _ _ _ _ rfl)
  | bcast i hi v rnd =>
    exact old' (upd_field (·.eD) _ _ _ _ rfl) (upd_field (·.rD) _ _ _ _ rfl)
  | disp i hi l msg hl hin q' sd o hD =>
    by_cases hji : j = i
    swap
    · have : (upd s.st i q' j) = s.st j := upd_ne _ _ _ _ hji
      exact old' (by show (upd s.st i q' j).eD = _; rw [this])
        (by show (upd s.st i q' j).rD = _; rw [this])
    subst hji
    have hP := hI.parties j hj
    have hst : (upd s.st j q' j) = q' := upd_same _ _ _
    have hprem' : c.n - c.t ≤ cnt q'.eD (τ, d) ∨ c.t + 1 ≤ cnt q'.rD (τ, d) := by
      have := hprem
      rw [show ((⟨upd s.st j q', s.log ++ tagMsgs j sd, s.bc, dlAfter s.dl j msg.tag o⟩ : Sys).st j)
        = q' from hst] at this
      exact this
    show SentAll c _ j (readyMsg τ d) ∨ (c.t = 0 ∧ 1 ≤ cnt (upd s.st j q' j).rD (τ, d))
    rw [hst]
    have sent : sd = sendAll (s.st j).n (mkMsg msg rReady msg.payload) → (τ, d) = (msg.tag, msg.payload) →
        SentAll c ⟨upd s.st j q', s.log ++ tagMsgs j sd, s.bc, dlAfter s.dl j msg.tag o⟩ j
          (readyMsg τ d) := by
      intro hsd hk x hx
      have hτ : τ = msg.tag := (Prod.mk.injEq _ _ _ _ ▸ hk).1
      have hdd : d = msg.payload := (Prod.mk.injEq _ _ _ _ ▸ hk).2
      refine List.mem_append_right _ (mem_tagMsgs.2 ⟨rfl, ?_⟩)
      rw [hsd, hτ, hdd, ← mkMsg_ready]
      exact mem_sendAll_iff.2 ⟨by rw [hP.cn]; exact hx, rfl⟩
    have oldq : (c.n - c.t ≤ cnt (s.st j).eD (τ, d) ∨ c.t + 1 ≤ cnt (s.st j).rD (τ, d)) →
        cnt (s.st j).rD (τ, d) ≤ cnt q'.rD (τ, d) →
        SentAll c ⟨upd s.st j q', s.log ++ tagMsgs j sd, s.bc, dlAfter s.dl j msg.tag o⟩ j
          (readyMsg τ d) ∨ (c.t = 0 ∧ 1 ≤ cnt q'.rD (τ, d)) := by
      intro h hle
      have := old h (by show _ ≤ cnt (upd s.st j q' j).rD (τ, d); rw [hst]; exact hle)
      rw [show ((⟨upd s.st j q', s.log ++ tagMsgs j sd, s.bc, dlAfter s.dl j msg.tag o⟩ : Sys).st j)
        = q' from hst] at this
      exact this
    rcases hD.quorum_change with ⟨h1, h2⟩ | ⟨h1, h2, h3⟩ | ⟨h1, h2, h3, _⟩
    · rw [h1, h2] at hprem'
      exact oldq hprem' (by rw [h2])
    · by_cases hk : (τ, d) = (msg.tag, msg.payload)
      · rw [h2] at hprem' ⊢
        by_cases hpre : c.n - c.t ≤ cnt (s.st j).eD (τ, d) ∨ c.t + 1 ≤ cnt (s.st j).rD (τ, d)
        · have := oldq hpre (by rw [h2])
          rw [h2] at this; exact this
        · left
          refine sent (h3 ?_) hk
          rw [h1, hk, cnt_cntInc_self] at hprem'
          rw [hk] at hpre
          unfold EchoQ
          rw [hP.cn, hP.ct]
          omega
      · rw [h1, cnt_cntInc_ne _ _ _ hk, h2] at hprem'
        have := oldq hprem' (by rw [h2])
        exact this
    · by_cases hk : (τ, d) = (msg.tag, msg.payload)
      · by_cases hpre : c.n - c.t ≤ cnt (s.st j).eD (τ, d) ∨ c.t + 1 ≤ cnt (s.st j).rD (τ, d)
        · exact oldq hpre (by rw [h1, hk, cnt_cntInc_self]; omega)
        · rw [h2] at hprem'
          rw [h1, hk, cnt_cntInc_self] at hprem' ⊢
          rw [hk] at hpre
          by_cases ht : c.t = 0
          · right; exact ⟨ht, by omega⟩
          · left
            refine sent (h3 ?_) hk
            unfold Amp
            rw [hP.cn, hP.ct]
            omega
      · rw [h1, cnt_cntInc_ne _ _ _ hk, h2] at hprem'
        exact oldq hprem' (by rw [h1, cnt_cntInc_ne _ _ _ hk])

/-- a fixed digest stays -/
theorem dbar_keeps {s s' : Sys} (hm : Micro H T c s s') {j : Nat} {τ : Tag} {d : Int}
    (h : aGet (s.st j).dbar τ = some d) : aGet (s'.st j).dbar τ = some d := by
  have same : (s'.st j).dbar = (s.st j).dbar → aGet (s'.st j).dbar τ = some d := by
    intro h'; rw [h']; exact h
  cases hm with
  | hk i hi R s0 hff hR hs0 => exact same (upd_field (·.dbar) _ _ _ _ rfl)
  | bufDel i hi e rest m' hff hm' => exact same (upd_field (·.dbar) _ _ _ _ rfl)
  | bcast i hi v rnd => exact same (upd_field (·.dbar) _ _ _ _ rfl)
  | disp i hi l msg hl hin q' sd o hD =>
    by_cases hji : j = i
    swap
    · exact same (by show (upd s.st i q' j).dbar = _; rw [upd_ne _ _ _ _ hji])
    subst hji
    show aGet (upd s.st j q' j).dbar τ = some d
    rw [upd_same]
    rcases hD.dbar_change with h' | ⟨h', hn, _⟩
    · rw [h']; exact h
    · rw [h']
      by_cases hτ : τ = msg.tag
      · subst hτ; rw [hn] at h; cases h
      · rw [aGet_aSet_ne _ _ _ _ hτ]; exact h

/-- a fixed digest passed the length check -/
def DbarLen (T : Tag → Int) (c : Cfg) (s : Sys) : Prop :=
  ∀ j, c.honest j → ∀ τ d, aGet (s.st j).dbar τ = some d → LenOk T τ d

theorem dbarLen_step {s s' : Sys} (hm : Micro H T c s s') (ih : DbarLen T c s) :
    DbarLen T c s' := by
  intro j hj τ d h
  have same : (s'.st j).dbar = (s.st j).dbar → LenOk T τ d := by
    intro h'; rw [h'] at h; exact ih j hj τ d h
  cases hm with
  | hk i hi R s0 hff hR hs0 => exact same (upd_field (·.dbar) _ _ _ _ rfl)
  | bufDel i hi e rest m' hff hm' => exact same (upd_field (·.dbar) _ _ _ _ rfl)
  | bcast i hi v rnd => exact same (upd_field (·.dbar) _ _ _ _ rfl)
  | disp i hi l msg hl hin q' sd o hD =>
    by_cases hji : j = i
    swap
    · exact same (by show (upd s.st i q' j).dbar = _; rw [upd_ne _ _ _ _ hji])
    subst hji
    have h2 : aGet q'.dbar τ = some d := by
      have : (upd s.st j q' j) = q' := upd_same _ _ _
      rw [← this]; exact h
    rcases hD.dbar_change with h' | ⟨h', hn, _, hlen, _⟩
    · rw [h'] at h2; exact ih j hj τ d h2
    · rw [h'] at h2
      by_cases hτ : τ = msg.tag
      · subst hτ; rw [aGet_aSet_self] at h2; cases h2; exact hlen
      · rw [aGet_aSet_ne _ _ _ _ hτ] at h2; exact ih j hj τ d h2

/-- `2t+1` counted readies fix the digest -/
def CntDbar (c : Cfg) (s : Sys) : Prop :=
  ∀ j, c.honest j → ∀ τ d, 2 * c.t + 1 ≤ cnt (s.st j).rD (τ, d) → aGet (s.st j).dbar τ = some d

theorem cntDbar_step (hy : Hyp H c) {s s' : Sys} (hI : Inv H c s) (hI' : Inv H c s')
    (hm : Micro H T c s s') (ih : CntDbar c s) : CntDbar c s' := by
  have hfr := hm.frame
  intro j hj τ d hge
  have old : 2 * c.t + 1 ≤ cnt (s.st j).rD (τ, d) → aGet (s'.st j).dbar τ = some d :=
    fun h => dbar_keeps hm (ih j hj τ d h)
  have old' : (s'.st j).rD = (s.st j).rD → aGet (s'.st j).dbar τ = some d := by
    intro h; rw [h] at hge; exact old hge
  cases hm with
  | hk i hi R s0 hff hR hs0 => exact old' (upd_field (·.rD) _ _ _ _ rfl)
  | bufDel i hi e rest m' hff hm' => exact old' (upd_field (·.rD) _ _ _ _ rfl)
  | bcast i hi v rnd => exact old' (upd_field (·.rD) _ _ _ _ rfl)
  | disp i hi l msg hl hin q' sd o hD =>
    by_cases hji : j = i
    swap
    · exact old' (by show (upd s.st i q' j).rD = _; rw [upd_ne _ _ _ _ hji])
    subst hji
    have hP := hI.parties j hj
    have hst : (upd s.st j q' j) = q' := upd_same _ _ _
    have hge' : 2 * c.t + 1 ≤ cnt q'.rD (τ, d) := by
      have := hge
      rw [show ((⟨upd s.st j q', s.log ++ tagMsgs j sd, s.bc, dlAfter s.dl j msg.tag o⟩ : Sys).st j)
        = q' from hst] at this
      exact this
    rcases hD.quorum_change with ⟨_, h2⟩ | ⟨_, h2, _⟩ | ⟨h1, _, _, h4⟩
    · rw [h2] at hge'; exact old hge'
    · rw [h2] at hge'; exact old hge'
    · by_cases hk : (τ, d) = (msg.tag, msg.payload)
      swap
      · rw [h1, cnt_cntInc_ne _ _ _ hk] at hge'; exact old hge'
      have hτ : τ = msg.tag := (Prod.mk.injEq _ _ _ _ ▸ hk).1
      have hdd : d = msg.payload := (Prod.mk.injEq _ _ _ _ ▸ hk).2
      by_cases hpre : 2 * c.t + 1 ≤ cnt (s.st j).rD (τ, d)
      · exact old hpre
      rw [h1, hk, cnt_cntInc_self] at hge'
      rw [hk] at hpre
      have hr : cnt (s.st j).rD (msg.tag, msg.payload) + 1 = 2 * (s.st j).t + 1 := by
        rw [hP.ct]; omega
      show aGet (upd s.st j q' j).dbar τ = some d
      rw [hst, hτ, hdd]
      rcases h4 hr with h | ⟨db, hdb, hne⟩
      · exact h
      · exfalso
        have e1 : EQ c (s.log ++ tagMsgs j sd) msg.tag db := (hP.dbarEQ msg.tag db hdb).mono hfr.1
        have hP' := hI'.parties j hj
        have hW : Wit c (s.log ++ tagMsgs j sd) j (upd s.st j q' j).ready rReady msg.tag msg.payload
            (cnt (upd s.st j q' j).rD (msg.tag, msg.payload)) := hP'.rQ msg.tag msg.payload
        rw [hst, h1, cnt_cntInc_self] at hW
        obtain ⟨l', m, hlog, ha, ht, hp⟩ := hW.honest (by have := hy.hb; omega)
        have e2 := hI'.readyEQ l' j m hlog ha
        rw [ht, hp] at e2
        exact hne (EQ.unique hy hI' e1 e2)

end Tmcg.Rbc
