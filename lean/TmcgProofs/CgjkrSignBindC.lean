import TmcgProofs.CgjkrSignBindB
import TmcgProofs.DkgKeyArith
/-
  C16, run level, part C: from the commitment rows of the back-up sharings to the polynomial of the combined
  sharing (steps 1f / 2f), and its value at 0.

  The combined sharing of step 1f (`kindV = 2`; step 2f: `kindV = 4`) is `Σ_{jt ∈ signers} λ_jt · (sharing of v_jt)`,
  where the sharing of `v_jt` is dealer `jt`'s Pedersen VSS `v_i_vss[jt]` (commitment row `A_jt`) or, for a dealer
  whose `v_jt` was reconstructed in step 1e, the constant `v_jt`.

    * `comb_eval_zero`     ALGEBRA of steps 1f / 2f: if the sharing polynomial `W_jt` of every signer has
                           `W_jt(0) = K(x_jt)·A(x_jt)` for polynomials `K`, `A` of degree `≤ t`, and there are at
                           least `2t+1` signers, then `(Σ λ_jt W_jt)(0) = K(0)·A(0)`   (`mu = k·a`, `s = k·(m + x r)`)
    * `sShareRhs_val`      the right-hand side of the share check is `∏_jt B_jt^{λ_jt}`
    * `ViewRows`           the rows a party holds are Pedersen rows of polynomial pairs `(V_jt, V'_jt)` of degree `≤ t`
                           (what `t+1` verified shares of honest parties force: `pedersen_row_unique`)
    * `Fcomb`, `Fcomb'`    the polynomial pair of the combined sharing DEFINED from the view
    * `shareOk_opens`      a pair that passes the check of steps 1f / 2f opens the Pedersen commitment
                           `g^{Fcomb(x_j)} h^{Fcomb'(x_j)}`
    * `bindsViewOcc_of_rows`   hence `BindsViewOcc` for `Fcomb` from the binding of that ONE commitment per position
                           w.r.t. the pairs lying in the inbox (`PedBindOcc`): a violation is a pair of the inbox and
                           the pair `(Fcomb(x_j), Fcomb'(x_j))`, two openings with different first components
    * `fcomb_eval_zero`    `Fcomb(0) = K(0)·A(0)` under the product relation for every signer
-/
namespace Tmcg.CgjkrSignBind
open Tmcg Tmcg.Powm Tmcg.Dkg Tmcg.Grp Tmcg.DkgL Tmcg.DkgP Tmcg.Cgjkr Tmcg.CgjkrSign Tmcg.CgjkrSignRunP
open Polynomial

variable {G : Dkg.Grp} [Fact (Nat.Prime G.p.natAbs)] [Fact (Nat.Prime G.q.natAbs)]

set_option linter.unusedSectionVars false
set_option linter.unusedVariables false

/-! ### polynomial helpers -/

theorem eval_list_sum' {R : Type} [CommRing R] (l : List (Polynomial R)) (x : R) :
    (l.sum).eval x = (l.map (fun p => p.eval x)).sum := by
  induction l with
  | nil => simp
  | cons a l ih => simp [ih]

theorem degree_list_sum_lt {R : Type} [CommRing R] (l : List (Polynomial R)) (n : Nat)
    (h : ∀ p ∈ l, p.degree < ((n + 1 : Nat) : WithBot Nat)) : (l.sum).degree < ((n + 1 : Nat) : WithBot Nat) := by
  induction l with
  | nil =>
    simp only [List.sum_nil, Polynomial.degree_zero]
    exact WithBot.bot_lt_coe _
  | cons a l ih =>
    simp only [List.sum_cons]
    exact lt_of_le_of_lt (Polynomial.degree_add_le _ _)
      (max_lt (h a List.mem_cons_self) (ih (fun p hp => h p (List.mem_cons_of_mem _ hp))))

theorem degree_C_mul_lt {R : Type} [CommRing R] (c : R) (p : Polynomial R) (n : Nat)
    (h : p.degree < ((n + 1 : Nat) : WithBot Nat)) : (C c * p).degree < ((n + 1 : Nat) : WithBot Nat) := by
  refine lt_of_le_of_lt (Polynomial.degree_mul_le _ _) ?_
  refine lt_of_le_of_lt (add_le_add Polynomial.degree_C_le le_rfl) ?_
  rw [zero_add]
  exact h

theorem degree_C_lt {R : Type} [CommRing R] (c : R) (n : Nat) :
    (C c : Polynomial R).degree < ((n + 1 : Nat) : WithBot Nat) := by
  refine lt_of_le_of_lt Polynomial.degree_C_le ?_
  exact_mod_cast Nat.succ_pos n

/-- **the algebra of steps 1f / 2f**: the combination, with the Lagrange multipliers of at least `2t+1` signers, of
    sharings whose secrets are the products `K(x_jt)·A(x_jt)` of the signers' shares of two sharings of degree
    `≤ t`, is a sharing of `K(0)·A(0)`. -/
theorem comb_eval_zero (hq : 0 < G.q) (S pts : List Nat) (hgp : GoodParties G.q (S.map (getN pts)))
    (t : Nat) (hlen : 2 * t < S.length)
    (K A : Polynomial (ZMod G.q.natAbs)) (hK : K.degree < ((t + 1 : Nat) : WithBot Nat))
    (hA : A.degree < ((t + 1 : Nat) : WithBot Nat))
    (W : Nat → Polynomial (ZMod G.q.natAbs))
    (hW : ∀ jt ∈ S, (W jt).eval 0 = K.eval (pt G.q (getN pts jt)) * A.eval (pt G.q (getN pts jt))) :
    ((S.map (fun jt => C (lam G.q (S.map (getN pts)) (getN pts jt)) * W jt)).sum).eval 0 =
      K.eval 0 * A.eval 0 := by
  have hdeg : (K * A).degree < ((S.map (getN pts)).length : Nat) := by
    rw [List.length_map]
    by_cases h0 : K * A = 0
    · rw [h0, Polynomial.degree_zero]; exact WithBot.bot_lt_coe _
    · have hK0 : K ≠ 0 := fun e => h0 (by rw [e, zero_mul])
      have hA0 : A ≠ 0 := fun e => h0 (by rw [e, mul_zero])
      have h1 := (Polynomial.natDegree_lt_iff_degree_lt hK0).mpr hK
      have h2 := (Polynomial.natDegree_lt_iff_degree_lt hA0).mpr hA
      have h3 := Polynomial.natDegree_mul_le (p := K) (q := A)
      exact (Polynomial.natDegree_lt_iff_degree_lt h0).mp (by omega)
  have hs := sum_lam hq (S.map (getN pts)) hgp (K * A) hdeg
  rw [eval_list_sum', List.map_map, ← Polynomial.eval_mul, ← hs, List.map_map]
  congr 1
  apply List.map_congr_left
  intro jt hjt
  simp only [Function.comp, Polynomial.eval_mul, Polynomial.eval_C]
  rw [hW jt hjt]

/-! ### exponents in `ZMod q` for both bases -/

theorem hexp_cq (hG : ValidGrp G) (e : Int) : cp G G.h ^ e = cp G G.h ^ (cq G e).val := by
  rw [← zpow_natCast]
  exact h_zpow_congr hG _ _ (ka_cq_val _).symm

theorem hexp_add (hG : ValidGrp G) (a b : ZMod G.q.natAbs) :
    cp G G.h ^ a.val * cp G G.h ^ b.val = cp G G.h ^ (a + b).val := by
  rw [← zpow_natCast, ← zpow_natCast, ← zpow_add₀ (h_unit hG), hexp_cq hG, cq_add, ka_cq_val,
    ka_cq_val]

theorem hexp_pow (hG : ValidGrp G) (a : ZMod G.q.natAbs) (n : Nat) :
    (cp G G.h ^ a.val) ^ n = cp G G.h ^ (a * (n : ZMod G.q.natAbs)).val := by
  rw [← pow_mul, ← zpow_natCast, hexp_cq hG]
  congr 2
  rw [Nat.cast_mul, cq_mul, ka_cq_val, cq_natCast]

/-- the Pedersen commitment with exponents in `ZMod q` -/
noncomputable def ped (G : Dkg.Grp) [Fact (Nat.Prime G.p.natAbs)] (a b : ZMod G.q.natAbs) : Fp G :=
  cp G G.g ^ a.val * cp G G.h ^ b.val

theorem ped_ne_zero (hG : ValidGrp G) (a b : ZMod G.q.natAbs) : ped G a b ≠ 0 :=
  mul_ne_zero (pow_ne_zero _ (g_unit hG)) (pow_ne_zero _ (h_unit hG))

theorem ped_mul (hG : ValidGrp G) (a b a' b' : ZMod G.q.natAbs) :
    ped G a b * ped G a' b' = ped G (a + a') (b + b') := by
  unfold ped
  rw [← ka_gexp_add hG, ← hexp_add hG]
  ring

theorem ped_pow (hG : ValidGrp G) (a b : ZMod G.q.natAbs) (n : Nat) :
    ped G a b ^ n = ped G (a * (n : ZMod G.q.natAbs)) (b * (n : ZMod G.q.natAbs)) := by
  unfold ped
  rw [mul_pow, ka_gexp_pow hG, hexp_pow hG]

theorem ped_int (hG : ValidGrp G) (a b : Int) : cp G G.g ^ a * cp G G.h ^ b = ped G (cq G a) (cq G b) := by
  unfold ped
  rw [ka_gexp_cq hG a, hexp_cq hG b]

theorem ped_list_prod (hG : ValidGrp G) (l : List Nat) (a b : Nat → ZMod G.q.natAbs) (n : Nat → Nat) :
    (l.map (fun jt => ped G (a jt) (b jt) ^ n jt)).prod =
      ped G ((l.map (fun jt => a jt * (n jt : ZMod G.q.natAbs))).sum)
        ((l.map (fun jt => b jt * (n jt : ZMod G.q.natAbs))).sum) := by
  induction l with
  | nil => simp [ped]
  | cons x l ih =>
    rw [List.map_cons, List.prod_cons, ih, ped_pow hG, ped_mul hG]
    simp only [List.map_cons, List.sum_cons]

/-! ### the right-hand side of the share check -/

/-- the factor of signer `jt` in the share check for position `j` -/
def rhsFactor (G : Dkg.Grp) (st : SSt) (kindV j jt : Nat) : Except Err Int :=
  if !st.compl.contains jt then commitProd G.p ((st.env G).pt j) (getPv st kindV jt).A
  else fpowm G.tabG G.g (getI st.vi jt) G.p

theorem sShareRhs_val (hG : ValidGrp G) (st : SSt) (kindV j : Nat) (B : Nat → Fp G) (l : List Nat) (acc : Int)
    (hacc : 0 ≤ acc ∧ acc < G.p)
    (hB : ∀ jt ∈ l, ∃ b, rhsFactor G st kindV j jt = .ok b ∧ cp G b = B jt)
    (hlam : ∀ jt ∈ l, 0 ≤ getI st.lam jt) :
    ∃ r, sShareRhs (st.env G) st kindV j l acc = .ok r ∧ 0 ≤ r ∧ r < G.p ∧
      cp G r = cp G acc * (l.map (fun jt => B jt ^ (getI st.lam jt).toNat)).prod := by
  have : Fact (Nat.Prime (gGrp G).p.natAbs) := ⟨hG.vg.p_prime⟩
  induction l generalizing acc with
  | nil => exact ⟨acc, rfl, hacc.1, hacc.2, by simp⟩
  | cons jt rest ih =>
    obtain ⟨b, hb, hbv⟩ := hB jt List.mem_cons_self
    obtain ⟨bl, hbl, -, -, hblv⟩ := mpzPowm_nonneg hG.vg b (getI st.lam jt) (hlam jt List.mem_cons_self)
    have hbl' : mpzPowm b (getI st.lam jt) G.p = .ok bl := hbl
    have hblv' : cp G bl = cp G b ^ (getI st.lam jt).toNat := hblv
    obtain ⟨r, hr, hr0, hr1, hrv⟩ := ih (acc * bl % G.p) (p_bounds hG _)
      (fun x hx => hB x (List.mem_cons_of_mem _ hx)) (fun x hx => hlam x (List.mem_cons_of_mem _ hx))
    refine ⟨r, ?_, hr0, hr1, ?_⟩
    · unfold rhsFactor at hb
      have hE : (st.env G).G = G := rfl
      simp only [sShareRhs, hE, bind, Except.bind]
      rw [hb]
      simp only
      rw [hbl']
      exact hr
    · rw [hrv, cp_emod hG, cp_mul, hblv', hbv]
      simp only [List.map_cons, List.prod_cons]
      ring

/-! ### the view of a party and the polynomial pair of the combined sharing -/

/-- what party `st.i` holds when it reads the combined shares (`kindV = 2`: step 1f, `4`: step 2f): the multipliers
    are the reduced integers with classes `Λ jt`; the row of every signer whose value was not reconstructed is the
    Pedersen row of a polynomial pair `(V jt, V' jt)` of degree `≤ t` (so its share check value at every position
    is `g^{V(x)} h^{V'(x)}`); the reconstructed values are in range. -/
structure ViewRows (G : Dkg.Grp) [Fact (Nat.Prime G.p.natAbs)] (st : SSt) (kindV : Nat)
    (Λ : Nat → ZMod G.q.natAbs) (V V' : Nat → Polynomial (ZMod G.q.natAbs)) : Prop where
  hlam : ∀ jt ∈ st.signers, 0 ≤ getI st.lam jt ∧ cq G (getI st.lam jt) = Λ jt
  hdeg : ∀ jt ∈ st.signers, (V jt).degree < ((st.t + 1 : Nat) : WithBot Nat) ∧
    (V' jt).degree < ((st.t + 1 : Nat) : WithBot Nat)
  hrow : ∀ jt ∈ st.signers, st.compl.contains jt = false → ∀ j, j < st.m →
    ∃ b, commitProd G.p ((st.env G).pt j) (getPv st kindV jt).A = .ok b ∧
      cp G b = ped G ((V jt).eval (pt G.q (getN st.pts j))) ((V' jt).eval (pt G.q (getN st.pts j)))
  hvi : ∀ jt ∈ st.signers, st.compl.contains jt = true → (getI st.vi jt).natAbs < G.q.natAbs

/-- the sharing polynomial of signer `jt` in the view: its back-up sharing, or the constant `v_jt` -/
noncomputable def Wv (G : Dkg.Grp) (st : SSt) (V : Nat → Polynomial (ZMod G.q.natAbs)) (jt : Nat) :
    Polynomial (ZMod G.q.natAbs) :=
  if st.compl.contains jt then C (cq G (getI st.vi jt)) else V jt

noncomputable def Wv' (G : Dkg.Grp) (st : SSt) (V' : Nat → Polynomial (ZMod G.q.natAbs)) (jt : Nat) :
    Polynomial (ZMod G.q.natAbs) :=
  if st.compl.contains jt then 0 else V' jt

/-- the polynomial of the combined sharing, defined from the view -/
noncomputable def Fcomb (G : Dkg.Grp) (st : SSt) (Λ : Nat → ZMod G.q.natAbs)
    (V : Nat → Polynomial (ZMod G.q.natAbs)) : Polynomial (ZMod G.q.natAbs) :=
  (st.signers.map (fun jt => C (Λ jt) * Wv G st V jt)).sum

/-- its companion (the exponents of `h`) -/
noncomputable def Fcomb' (G : Dkg.Grp) (st : SSt) (Λ : Nat → ZMod G.q.natAbs)
    (V' : Nat → Polynomial (ZMod G.q.natAbs)) : Polynomial (ZMod G.q.natAbs) :=
  (st.signers.map (fun jt => C (Λ jt) * Wv' G st V' jt)).sum

theorem Fcomb_degree (st : SSt) (kindV : Nat) (Λ : Nat → ZMod G.q.natAbs)
    (V V' : Nat → Polynomial (ZMod G.q.natAbs)) (hV : ViewRows G st kindV Λ V V') :
    (Fcomb G st Λ V).degree < ((st.t + 1 : Nat) : WithBot Nat) := by
  unfold Fcomb
  apply degree_list_sum_lt
  intro p hp
  obtain ⟨jt, hjt, rfl⟩ := List.mem_map.mp hp
  apply degree_C_mul_lt
  unfold Wv
  split
  · exact degree_C_lt _ _
  · exact (hV.hdeg jt hjt).1

/-- the value of the share check's right-hand side for position `j`: the Pedersen commitment to
    `(Fcomb(x_j), Fcomb'(x_j))` -/
theorem shareRhs_ped (hG : ValidGrp G) (st : SSt) (kindV : Nat) (Λ : Nat → ZMod G.q.natAbs)
    (V V' : Nat → Polynomial (ZMod G.q.natAbs)) (hV : ViewRows G st kindV Λ V V') (j : Nat) (hj : j < st.m) :
    ∃ r, sShareRhs (st.env G) st kindV j st.signers 1 = .ok r ∧ 0 ≤ r ∧ r < G.p ∧
      cp G r = ped G ((Fcomb G st Λ V).eval (pt G.q (getN st.pts j)))
        ((Fcomb' G st Λ V').eval (pt G.q (getN st.pts j))) := by
  have h1p : (1 : Int) < G.p := by
    have : Fact (Nat.Prime (gGrp G).p.natAbs) := ⟨hG.vg.p_prime⟩
    exact one_lt_p hG.vg
  set x := pt G.q (getN st.pts j) with hx
  have hB : ∀ jt ∈ st.signers, ∃ b, rhsFactor G st kindV j jt = .ok b ∧
      cp G b = ped G ((Wv G st V jt).eval x) ((Wv' G st V' jt).eval x) := by
    intro jt hjt
    unfold rhsFactor Wv Wv'
    cases hc : st.compl.contains jt with
    | false =>
      simp only [Bool.not_false, if_true, Bool.false_eq_true, if_false]
      exact hV.hrow jt hjt hc j hj
    | true =>
      simp only [Bool.not_true, Bool.false_eq_true, if_false, if_true, Polynomial.eval_C, Polynomial.eval_zero]
      obtain ⟨b, hb, -, -, hbv⟩ := fpowm_g hG (getI st.vi jt) (hV.hvi jt hjt hc)
      refine ⟨b, hb, ?_⟩
      rw [hbv, ka_gexp_cq hG]
      unfold ped
      simp
  obtain ⟨r, hr, hr0, hr1, hrv⟩ := sShareRhs_val hG st kindV j
    (fun jt => ped G ((Wv G st V jt).eval x) ((Wv' G st V' jt).eval x)) st.signers 1
    ⟨by norm_num, h1p⟩ hB (fun jt hjt => (hV.hlam jt hjt).1)
  refine ⟨r, hr, hr0, hr1, ?_⟩
  rw [hrv, cp_one, one_mul, ped_list_prod hG]
  unfold Fcomb Fcomb'
  rw [eval_list_sum', eval_list_sum', List.map_map, List.map_map]
  congr 1
  · congr 1
    apply List.map_congr_left
    intro jt hjt
    obtain ⟨l0, l1⟩ := hV.hlam jt hjt
    simp only [Function.comp, Polynomial.eval_mul, Polynomial.eval_C]
    rw [← l1, ← cq_natCast, Int.toNat_of_nonneg l0, mul_comm]
  · congr 1
    apply List.map_congr_left
    intro jt hjt
    obtain ⟨l0, l1⟩ := hV.hlam jt hjt
    simp only [Function.comp, Polynomial.eval_mul, Polynomial.eval_C]
    rw [← l1, ← cq_natCast, Int.toNat_of_nonneg l0, mul_comm]

/-- a pair that passes the check of steps 1f / 2f opens the commitment to `(Fcomb(x_j), Fcomb'(x_j))` -/
theorem shareOk_opens (hG : ValidGrp G) (st : SSt) (kindV : Nat) (Λ : Nat → ZMod G.q.natAbs)
    (V V' : Nat → Polynomial (ZMod G.q.natAbs)) (hV : ViewRows G st kindV Λ V V') (j : Nat) (hj : j < st.m)
    (foo bar : Int) (hf : foo.natAbs < G.q.natAbs) (hb : bar.natAbs < G.q.natAbs)
    (hs : ShareOk G st kindV j foo bar) :
    cp G G.g ^ foo * cp G G.h ^ bar =
      ped G ((Fcomb G st Λ V).eval (pt G.q (getN st.pts j))) ((Fcomb' G st Λ V').eval (pt G.q (getN st.pts j))) := by
  obtain ⟨l, r, hl, hr, hlr⟩ := hs
  obtain ⟨l', hl', -, -, hlv⟩ := pedF_val hG foo bar hf hb
  rw [hl] at hl'
  cases hl'
  obtain ⟨r', hr', -, -, hrv⟩ := shareRhs_ped hG st kindV Λ V V' hV j hj
  rw [hr] at hr'
  cases hr'
  rw [← hlv, hlr, hrv]

/-- **binding of one commitment per position, w.r.t. the pairs lying in the inbox**: every in-range pair of the
    inbox `I` (identifier of `Sign`, sender `j`) that opens the Pedersen commitment `g^{F(x_j)} h^{F'(x_j)}` has
    first component `F(x_j)`.  A violation consists of the pair of the inbox and the pair `(F(x_j), F'(x_j))`: two
    openings of one commitment with different first components, from which `log_g h` is computed
    (`binding_pair_dkg`). -/
def PedBindOcc (G : Dkg.Grp) [Fact (Nat.Prime G.p.natAbs)] (st : SSt) (I : Inbox)
    (F F' : Polynomial (ZMod G.q.natAbs)) : Prop :=
  ∀ j foo bar, j < st.m → foo.natAbs < G.q.natAbs → bar.natAbs < G.q.natAbs →
    InB I (sgMain st.m) j foo → InB I (sgMain st.m) j bar →
    cp G G.g ^ foo * cp G G.h ^ bar =
      ped G (F.eval (pt G.q (getN st.pts j))) (F'.eval (pt G.q (getN st.pts j))) →
    ((foo : Int) : ZMod G.q.natAbs) = F.eval (pt G.q (getN st.pts j))

/-- what a violation of `PedBindOcc` is: the discrete logarithm of `h` -/
theorem pedBind_violation (hG : ValidGrp G) (a a' : ZMod G.q.natAbs) (foo bar : Int)
    (h : cp G G.g ^ foo * cp G G.h ^ bar = ped G a a') (hne : ((foo : Int) : ZMod G.q.natAbs) ≠ a) :
    ∃ x : Int, 0 ≤ x ∧ x < G.q ∧ cp G G.g ^ x = cp G G.h := by
  have h' : cp G G.g ^ foo * cp G G.h ^ bar = cp G G.g ^ ((a.val : Nat) : Int) * cp G G.h ^ ((a'.val : Nat) : Int) := by
    rw [h]; unfold ped; rw [zpow_natCast, zpow_natCast]
  refine (binding_pair_dkg hG foo bar _ _ h' ?_).2
  rw [ka_cq_val]
  exact hne

/-- **the view is bound to the polynomial defined from its rows**, given the binding of the one commitment per
    position w.r.t. the pairs in the inbox, and the party's own share on that polynomial -/
theorem bindsViewOcc_of_rows (hG : ValidGrp G) (st : SSt) (I : Inbox) (kindV : Nat) (Λ : Nat → ZMod G.q.natAbs)
    (V V' : Nat → Polynomial (ZMod G.q.natAbs)) (hV : ViewRows G st kindV Λ V V')
    (hown : ((st.s : Int) : ZMod G.q.natAbs) = (Fcomb G st Λ V).eval (pt G.q (getN st.pts st.i)))
    (hP : PedBindOcc G st I (Fcomb G st Λ V) (Fcomb' G st Λ V')) :
    BindsViewOcc G st I kindV (Fcomb G st Λ V) := by
  refine ⟨Fcomb_degree st kindV Λ V V' hV, hown, ?_⟩
  intro j foo bar hj hf hb i1 i2 hs
  exact hP j foo bar hj hf hb i1 i2 (shareOk_opens hG st kindV Λ V V' hV j hj foo bar hf hb hs)

/-- **the secret of the combined sharing**: with the Lagrange multipliers of at least `2t+1` signers, and the
    product relation `v_jt = K(x_jt)·A(x_jt)` for the secret of every signer's sharing (reconstructed value, or
    constant term of its back-up sharing — what the proofs of steps 1d / 2d assert), `Fcomb(0) = K(0)·A(0)`. -/
theorem fcomb_eval_zero (hG : ValidGrp G) (st : SSt) (V : Nat → Polynomial (ZMod G.q.natAbs))
    (hgp : GoodParties G.q (st.signers.map (getN st.pts))) (hlen : 2 * st.t < st.signers.length)
    (K A : Polynomial (ZMod G.q.natAbs)) (hK : K.degree < ((st.t + 1 : Nat) : WithBot Nat))
    (hA : A.degree < ((st.t + 1 : Nat) : WithBot Nat))
    (hprod : ∀ jt ∈ st.signers, (Wv G st V jt).eval 0 =
      K.eval (pt G.q (getN st.pts jt)) * A.eval (pt G.q (getN st.pts jt))) :
    (Fcomb G st (fun jt => lam G.q (st.signers.map (getN st.pts)) (getN st.pts jt)) V).eval 0 =
      K.eval 0 * A.eval 0 :=
  comb_eval_zero hG.vg.q_pos st.signers st.pts hgp st.t hlen K A hK hA (Wv G st V) hprod

end Tmcg.CgjkrSignBind
