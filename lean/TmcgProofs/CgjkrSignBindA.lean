import TmcgProofs.CgjkrSignRunB
/-
  C16, run level, part A of the derivation of the premises of `sign_run_agree` / `sign_run_valid`
  (TmcgProofs/CgjkrSignRunB.lean) — the schedule-aware trace of a run.

  Why new statements are needed.  `RunBinding` (CgjkrSignRunB.lean) asks for `BindsView` at EVERY state of a run
  at which `doAct (.shRead 0)` evaluates (it does at every round: with nothing to read it just fails), and
  `BindsView` quantifies over ALL pairs `(foo, bar)` that satisfy the share check, not only over the pairs that
  occur in the run.  Both make the hypothesis unsatisfiable in every non-degenerate run (see
  `bindsView_unsat` in TmcgProofs/CgjkrSignBindB.lean), i.e. `sign_run_agree` / `sign_run_valid` hold vacuously.
  The statements of the files CgjkrSignBind*.lean repair this:

    * `AtAct`            party `k` is alive at the beginning of a round of the run WHOSE FIRST ACTION IS `a`
    * `prog_mem`         every action of a round of the schedule belongs to `actions m t`
    * `doAct_struct`, `cfg_struct`   `m`, `t`, `i`, `pts` of a party never change; so `SignerSet` follows from
                         structural hypotheses on the signer list (`signerSet_of_run`)
    * `sign_run_trace'`  a party that ends `Sign` with `true` executed `shRead 1` at a state of the run AT THE ROUND
                         WHERE THE SCHEDULE HAS IT, and its `r` is 0 or stems from `shRead 0` executed at its round
-/
namespace Tmcg.CgjkrSignBind
open Tmcg Tmcg.Powm Tmcg.Dkg Tmcg.Grp Tmcg.DkgL Tmcg.DkgP Tmcg.Cgjkr Tmcg.CgjkrSign Tmcg.CgjkrSignRunP
open Polynomial

/-! ### the schedule -/

theorem groupRounds_mem (S : Act → Prop) (l cur : List Act) (acc : List (List Act))
    (hl : ∀ a ∈ l, S a) (hcur : ∀ a ∈ cur, S a) (hacc : ∀ r ∈ acc, ∀ a ∈ r, S a) :
    ∀ r ∈ groupRounds l cur acc, ∀ a ∈ r, S a := by
  induction l generalizing cur acc with
  | nil =>
    intro r hr
    simp only [groupRounds] at hr
    split at hr
    · exact hacc r hr
    · rcases List.mem_append.1 hr with h | h
      · exact hacc r h
      · simp only [List.mem_singleton] at h
        subst h
        exact hcur
  | cons a rest ih =>
    intro r hr
    simp only [groupRounds] at hr
    have ha : S a := hl a List.mem_cons_self
    have hrest : ∀ x ∈ rest, S x := fun x hx => hl x (List.mem_cons_of_mem _ hx)
    split at hr
    · refine ih [a] (acc ++ [cur]) hrest ?_ ?_ r hr
      · intro x hx
        simp only [List.mem_singleton] at hx
        subst hx
        exact ha
      · intro r' hr'
        rcases List.mem_append.1 hr' with h | h
        · exact hacc r' h
        · simp only [List.mem_singleton] at h
          subst h
          exact hcur
    · refine ih (cur ++ [a]) acc hrest ?_ hacc r hr
      intro x hx
      rcases List.mem_append.1 hx with h | h
      · exact hcur x h
      · simp only [List.mem_singleton] at h
        subst h
        exact ha

/-- every action of a round of the schedule is an action of `actions m t` -/
theorem prog_mem (m t r : Nat) : ∀ a ∈ (prog m t).getD r [], a ∈ actions m t := by
  have h := groupRounds_mem (fun a => a ∈ actions m t) (actions m t) [] [] (fun a ha => ha)
    (by intro x hx; simp at hx) (by intro r hr; simp at hr)
  rw [List.getD_eq_getElem?_getD]
  cases hg : (prog m t)[r]? with
  | none => intro x hx; simp at hx
  | some l => exact h l (List.mem_of_getElem? hg)

/-! ### what no action changes: `m`, `t`, `i`, `pts` -/

def SameSt (st st' : SSt) : Prop := st'.m = st.m ∧ st'.t = st.t ∧ st'.i = st.i ∧ st'.pts = st.pts

def FrM (st : SSt) : AOut → Prop
  | .go st' _ _ => SameSt st st'
  | .done st' _ _ _ => SameSt st st'

theorem post_failM (st st0 : SSt) (I : Inbox) (h : SameSt st st0) : Post (FrM st) (CgjkrSign.fail st0 I) := by
  constructor
  intro o ho
  cases ho
  exact h

theorem emitOps_struct (st : SSt) (ops acc : List Op) : SameSt st (emitOps st ops acc).1 := by
  induction ops generalizing st acc with
  | nil => exact ⟨rfl, rfl, rfl, rfl⟩
  | cons op rest ih =>
    cases op with
    | bc tag v =>
      simp only [emitOps]
      exact ih _ _
    | pv j v =>
      simp only [emitOps]
      exact ih _ _

macro "struct_step" : tactic => `(tactic| first
  | (apply post_failM)
  | (apply post_pure)
  | (apply post_ok)
  | (apply post_bind; intro _)
  | (apply post_map; intro _)
  | split)

theorem doAct_struct_post (G : Dkg.Grp) (a : Act) (st : SSt) (I : Inbox) : Post (FrM st) (doAct G a st I) := by
  cases a
  all_goals
    unfold doAct
    dsimp only
    repeat' struct_step
    all_goals exact ⟨rfl, rfl, rfl, rfl⟩

end Tmcg.CgjkrSignBind
