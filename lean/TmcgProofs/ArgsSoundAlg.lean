import Mathlib.Algebra.Polynomial.Roots
import Mathlib.Algebra.Polynomial.BigOperators
import Mathlib.Data.Fintype.BigOperators
import Mathlib.Data.Fintype.Pi
import Mathlib.Data.ZMod.Basic
import Mathlib.Algebra.Field.ZMod
import Mathlib.GroupTheory.OrderOfElement
import Mathlib.Data.List.GetD
import Mathlib.Data.List.OfFn
/-
  C04 for the shuffle and rotation arguments, part 1: the algebraic core of the soundness bounds.

  (a) the permutation polynomial: two lists of field elements of the same length whose multisets
      differ agree in `Π (a_i - x) = Π (b_i - x)` for at most `n` values of `x`;
  (b) a nontrivial linear form takes a given value on at most `|T|^(n-1)` of the `|T|^n` vectors of
      `T^n` (additively over a field, and multiplicatively for elements of prime order).
-/
namespace Tmcg.ArgsSound
open Polynomial
set_option linter.unusedSectionVars false

/-! ### (a) the permutation polynomial -/

section perm
variable {K : Type*} [Field K] [DecidableEq K]

/-- `Π (a_i - X)` -/
noncomputable def permPoly (a : List K) : K[X] := (a.map fun c => C c - X).prod

theorem permPoly_eval (a : List K) (x : K) : (permPoly a).eval x = (a.map fun c => c - x).prod := by
  unfold permPoly
  rw [eval_list_prod, List.map_map]
  congr 1
  apply List.map_congr_left
  intro c _
  simp

theorem permPoly_eq (a : List K) :
    permPoly a = (-1) ^ a.length * ((a : Multiset K).map fun c => X - C c).prod := by
  unfold permPoly
  induction a with
  | nil => simp
  | cons c a ih =>
    rw [List.map_cons, List.prod_cons, ih, List.length_cons, pow_succ]
    simp only [Multiset.map_coe, Multiset.prod_coe, List.map_cons, List.prod_cons]
    ring

theorem permPoly_natDegree_le (a : List K) : (permPoly a).natDegree ≤ a.length := by
  rw [permPoly_eq]
  refine (natDegree_mul_le).trans ?_
  have h1 : ((-1 : K[X]) ^ a.length).natDegree = 0 := by
    have : ((-1 : K[X]) ^ a.length) = C ((-1 : K) ^ a.length) := by simp
    rw [this, natDegree_C]
  rw [h1, zero_add, natDegree_multiset_prod_X_sub_C_eq_card]
  simp

/-- equal permutation polynomials of lists of the same length: equal multisets -/
theorem multiset_eq_of_permPoly_eq (a b : List K) (hl : a.length = b.length)
    (h : permPoly a = permPoly b) : (a : Multiset K) = (b : Multiset K) := by
  rw [permPoly_eq, permPoly_eq, hl] at h
  have hu : IsUnit ((-1 : K[X]) ^ b.length) := (isUnit_neg_one (α := K[X])).pow _
  have h2 := hu.mul_left_cancel h
  have := congrArg Polynomial.roots h2
  rwa [roots_multiset_prod_X_sub_C, roots_multiset_prod_X_sub_C] at this

/-- **(a)** the permutation polynomial: if the multisets of two lists of length `n` differ, then
    `Π (a_i - x) = Π (b_i - x)` holds for at most `n` values of `x` -/
theorem perm_poly_bound (a b : List K) (hl : a.length = b.length)
    (hne : (a : Multiset K) ≠ (b : Multiset K)) (T : Finset K) :
    (T.filter fun x => (a.map fun c => c - x).prod = (b.map fun c => c - x).prod).card ≤ a.length := by
  have hP : permPoly a - permPoly b ≠ 0 := by
    intro h
    exact hne (multiset_eq_of_permPoly_eq a b hl (sub_eq_zero.mp h))
  have hdeg : (permPoly a - permPoly b).natDegree ≤ a.length := by
    refine (natDegree_sub_le _ _).trans ?_
    exact max_le (permPoly_natDegree_le a) (by rw [hl]; exact permPoly_natDegree_le b)
  have hsub : (T.filter fun x => (a.map fun c => c - x).prod = (b.map fun c => c - x).prod) ⊆
      (permPoly a - permPoly b).roots.toFinset := by
    intro x hx
    rw [Finset.mem_filter] at hx
    rw [Multiset.mem_toFinset, mem_roots hP, IsRoot, eval_sub, permPoly_eval, permPoly_eval, hx.2,
      sub_self]
  calc _ ≤ (permPoly a - permPoly b).roots.toFinset.card := Finset.card_le_card hsub
    _ ≤ Multiset.card (permPoly a - permPoly b).roots := Multiset.toFinset_card_le _
    _ ≤ (permPoly a - permPoly b).natDegree := card_roots' _
    _ ≤ a.length := hdeg

end perm

/-! ### (b) vectors of challenges that satisfy a relation pinned by one coordinate -/

section count
variable {α : Type*} [DecidableEq α]

/-- if the other coordinates determine coordinate `k` of the vectors with property `P`, at most
    `|T|^(n-1)` vectors of `T^n` have the property -/
theorem card_filter_pi_le (n : ℕ) (T : Finset α) (k : Fin n) (P : (Fin n → α) → Prop)
    [DecidablePred P]
    (h : ∀ t t' : Fin n → α, (∀ j, t j ∈ T) → (∀ j, t' j ∈ T) → P t → P t' →
      (∀ j, j ≠ k → t j = t' j) → t k = t' k) :
    ((Fintype.piFinset fun _ : Fin n => T).filter P).card ≤ T.card ^ (n - 1) := by
  classical
  have hcard : (Fintype.piFinset fun _ : {j : Fin n // j ≠ k} => T).card = T.card ^ (n - 1) := by
    rw [Fintype.card_piFinset, Finset.prod_const, Finset.card_univ, Fintype.card_subtype_compl,
      Fintype.card_fin, Fintype.card_subtype_eq]
  rw [← hcard]
  apply Finset.card_le_card_of_injOn (fun t => fun j : {j : Fin n // j ≠ k} => t j.1)
  · intro t ht
    simp only [Finset.coe_filter, Set.mem_ofPred_eq, Fintype.mem_piFinset] at ht
    simp only [Finset.mem_coe, Fintype.mem_piFinset]
    intro j
    exact ht.1 j.1
  · intro t ht t' ht' heq
    simp only [Finset.coe_filter, Set.mem_ofPred_eq, Fintype.mem_piFinset] at ht ht'
    have hj : ∀ j, j ≠ k → t j = t' j := fun j hj => congrFun heq ⟨j, hj⟩
    funext j
    by_cases hjk : j = k
    · rw [hjk]; exact h t t' ht.1 ht'.1 ht.2 ht'.2 hj
    · exact hj j hjk

end count

section linear
variable {K : Type*} [Field K] [DecidableEq K]

/-- **(b)** a linear form with a non-zero coefficient takes the value `c` on at most `|T|^(n-1)` of
    the vectors of `T^n` -/
theorem linear_form_bound (n : ℕ) (δ : Fin n → K) (k : Fin n) (hk : δ k ≠ 0) (c : K) (T : Finset K) :
    ((Fintype.piFinset fun _ : Fin n => T).filter fun t => ∑ i, δ i * t i = c).card ≤
      T.card ^ (n - 1) := by
  apply card_filter_pi_le n T k
  intro t t' _ _ h1 h2 hj
  have e : ∀ u : Fin n → K, ∑ i, δ i * u i = δ k * u k + ∑ i ∈ Finset.univ.erase k, δ i * u i :=
    fun u => (Finset.add_sum_erase _ _ (Finset.mem_univ k)).symm
  rw [e t] at h1
  rw [e t'] at h2
  have e2 : ∑ i ∈ Finset.univ.erase k, δ i * t i = ∑ i ∈ Finset.univ.erase k, δ i * t' i := by
    apply Finset.sum_congr rfl
    intro i hi
    rw [hj i (Finset.ne_of_mem_erase hi)]
  rw [e2] at h1
  have : δ k * t k = δ k * t' k := by
    have := h1.trans h2.symm
    exact add_right_cancel this
  exact mul_left_cancel₀ hk this

end linear

section mult
variable {F : Type*} [Field F] [DecidableEq F]

/-- an element `D ≠ 1` with `D^q = 1`, `q` prime: `D^a = D^b` only for `a ≡ b (mod q)` -/
theorem zpow_eq_imp_modEq (q : ℕ) (hq : q.Prime) (D : F) (hD : D ^ q = 1) (hD1 : D ≠ 1) (a b : ℤ)
    (h : D ^ a = D ^ b) : ((a : ZMod q) = (b : ZMod q)) := by
  have hD0 : D ≠ 0 := by
    rintro rfl
    rw [zero_pow hq.ne_zero] at hD
    exact zero_ne_one hD
  have hord : orderOf D = q := by
    have : Fact q.Prime := ⟨hq⟩
    exact orderOf_eq_prime hD hD1
  have h1 : D ^ (a - b) = 1 := by
    rw [zpow_sub₀ hD0, h, div_self (zpow_ne_zero _ hD0)]
  have h3 : D ^ (a - b).natAbs = 1 := by
    rcases Int.natAbs_eq (a - b) with e | e
    · rw [e, zpow_natCast] at h1; exact h1
    · rw [e, zpow_neg, zpow_natCast, inv_eq_one] at h1; exact h1
  have h4 : q ∣ (a - b).natAbs := by
    rw [← hord]; exact orderOf_dvd_of_pow_eq_one h3
  have h2 : (q : ℤ) ∣ a - b := Int.natCast_dvd.mpr h4
  rw [ZMod.intCast_eq_intCast_iff_dvd_sub]
  have : (q : ℤ) ∣ -(a - b) := (dvd_neg).mpr h2
  simpa using this

/-- **(b), multiplicative form**: for subgroup elements `D_i` (order dividing the prime `q`), one of
    them `≠ 1`, and a set `T` of integers that are pairwise different modulo `q`, the relation
    `Π D_i^{t_i} = c` holds for at most `|T|^(n-1)` of the vectors `t ∈ T^n` -/
theorem mult_form_bound (q : ℕ) (hq : q.Prime) (n : ℕ) (D : Fin n → F) (hD : ∀ i, D i ^ q = 1)
    (k : Fin n) (hk : D k ≠ 1) (c : F) (T : Finset ℤ)
    (hT : ∀ a ∈ T, ∀ b ∈ T, (a : ZMod q) = (b : ZMod q) → a = b) :
    ((Fintype.piFinset fun _ : Fin n => T).filter fun t => ∏ i, D i ^ t i = c).card ≤
      T.card ^ (n - 1) := by
  have hD0 : ∀ i, D i ≠ 0 := by
    intro i h0
    have := hD i
    rw [h0, zero_pow hq.ne_zero] at this
    exact zero_ne_one this
  apply card_filter_pi_le n T k
  intro t t' ht ht' h1 h2 hj
  have e : ∀ u : Fin n → ℤ, ∏ i, D i ^ u i = D k ^ u k * ∏ i ∈ Finset.univ.erase k, D i ^ u i :=
    fun u => (Finset.mul_prod_erase _ _ (Finset.mem_univ k)).symm
  rw [e t] at h1
  rw [e t'] at h2
  have e2 : ∏ i ∈ Finset.univ.erase k, D i ^ t i = ∏ i ∈ Finset.univ.erase k, D i ^ t' i := by
    apply Finset.prod_congr rfl
    intro i hi
    rw [hj i (Finset.ne_of_mem_erase hi)]
  rw [e2] at h1
  have hne : ∏ i ∈ Finset.univ.erase k, D i ^ t' i ≠ 0 := by
    rw [Finset.prod_ne_zero_iff]
    intro i _
    exact zpow_ne_zero _ (hD0 i)
  have : D k ^ t k = D k ^ t' k := mul_right_cancel₀ hne (h1.trans h2.symm)
  exact hT _ (ht k) _ (ht' k) (zpow_eq_imp_modEq q hq (D k) (hD k) hk _ _ this)

/-- **(b), multiplicative form with an index map**: the relation `Π_i D_i^{t_{σ(i)}} = 1` for an
    injective index map `σ` on `{0 … n-1}`, subgroup elements `D_i`, one of them `≠ 1` -/
theorem inj_form_bound (q : ℕ) (hq : q.Prime) (n : ℕ) (σ : ℕ → ℕ) (hσ : ∀ i < n, σ i < n)
    (hinj : ∀ i < n, ∀ j < n, σ i = σ j → i = j)
    (D : ℕ → F) (hD : ∀ i < n, D i ^ q = 1) (i0 : ℕ) (hi0 : i0 < n) (hk : D i0 ≠ 1) (T : Finset ℤ)
    (hT : ∀ a ∈ T, ∀ b ∈ T, (a : ZMod q) = (b : ZMod q) → a = b)
    (acc : (Fin n → ℤ) → Prop) [DecidablePred acc]
    (h : ∀ t : Fin n → ℤ, (∀ j, t j ∈ T) → acc t →
      ∏ i ∈ Finset.range n, D i ^ (List.ofFn t).getD (σ i) 0 = 1) :
    ((Fintype.piFinset fun _ : Fin n => T).filter acc).card ≤ T.card ^ (n - 1) := by
  have hD0 : ∀ i < n, D i ≠ 0 := by
    intro i hi h0
    have := hD i hi
    rw [h0, zero_pow hq.ne_zero] at this
    exact zero_ne_one this
  apply card_filter_pi_le n T ⟨σ i0, hσ i0 hi0⟩
  intro t t' ht ht' h1 h2 hj
  have r1 := h t ht h1
  have r2 := h t' ht' h2
  have g : ∀ (u : Fin n → ℤ) (j : ℕ) (hj : j < n), (List.ofFn u).getD j 0 = u ⟨j, hj⟩ := by
    intro u j hj
    rw [List.getD_eq_getElem _ _ (by simpa using hj)]
    simp
  rw [← Finset.mul_prod_erase _ _ (Finset.mem_range.mpr hi0)] at r1 r2
  have e2 : ∏ i ∈ (Finset.range n).erase i0, D i ^ (List.ofFn t).getD (σ i) 0 =
      ∏ i ∈ (Finset.range n).erase i0, D i ^ (List.ofFn t').getD (σ i) 0 := by
    apply Finset.prod_congr rfl
    intro i hi
    have hin : i < n := Finset.mem_range.mp (Finset.mem_of_mem_erase hi)
    have hne := Finset.ne_of_mem_erase hi
    rw [g t _ (hσ i hin), g t' _ (hσ i hin), hj ⟨σ i, hσ i hin⟩ (by
      intro heq
      exact hne (hinj i hin i0 hi0 (Fin.mk.inj_iff.mp heq)))]
  rw [e2] at r1
  have hne0 : ∏ i ∈ (Finset.range n).erase i0, D i ^ (List.ofFn t').getD (σ i) 0 ≠ 0 := by
    rw [Finset.prod_ne_zero_iff]
    intro i hi
    exact zpow_ne_zero _ (hD0 i (Finset.mem_range.mp (Finset.mem_of_mem_erase hi)))
  have h3 : D i0 ^ (List.ofFn t).getD (σ i0) 0 = D i0 ^ (List.ofFn t').getD (σ i0) 0 :=
    mul_right_cancel₀ hne0 (r1.trans r2.symm)
  rw [g t _ (hσ i0 hi0), g t' _ (hσ i0 hi0)] at h3
  exact hT _ (ht _) _ (ht' _) (zpow_eq_imp_modEq q hq (D i0) (hD i0 hi0) hk _ _ h3)

/-- from the product equation to the deviations: if `Π Ev_i^{t_{σ(i)}} · Π (ev_i^{t_i})⁻¹ =
    b^{Σ R_i t_{σ(i)}}` and `σ` permutes the indices, then `Π (Ev_i / (ev_{σ(i)} b^{R_i}))^{t_{σ(i)}} = 1` -/
theorem rel_to_dev (n : ℕ) (σ : ℕ → ℕ) (Ev ev : ℕ → F) (b : F) (hb0 : b ≠ 0)
    (hev0 : ∀ j < n, ev j ≠ 0) (hσ : ∀ i < n, σ i < n) (R tt : ℕ → ℤ)
    (hre : ∏ i ∈ Finset.range n, ev (σ i) ^ tt (σ i) = ∏ i ∈ Finset.range n, ev i ^ tt i)
    (h : (∏ i ∈ Finset.range n, Ev i ^ tt (σ i)) * (∏ i ∈ Finset.range n, (ev i ^ tt i)⁻¹) =
      b ^ (∑ i ∈ Finset.range n, R i * tt (σ i))) :
    ∏ i ∈ Finset.range n, (Ev i / (ev (σ i) * b ^ R i)) ^ tt (σ i) = 1 := by
  have hP0 : (∏ i ∈ Finset.range n, ev i ^ tt i) ≠ 0 := by
    rw [Finset.prod_ne_zero_iff]
    intro i hi
    exact zpow_ne_zero _ (hev0 i (Finset.mem_range.mp hi))
  have hb : ∏ i ∈ Finset.range n, (b ^ R i) ^ tt (σ i) = b ^ (∑ i ∈ Finset.range n, R i * tt (σ i)) := by
    induction n with
    | zero => simp
    | succ n ih =>
      rw [Finset.prod_range_succ, Finset.sum_range_succ, zpow_add₀ hb0, ← zpow_mul]
      congr 1
      clear ih hP0 h hre hσ hev0
      induction n with
      | zero => simp
      | succ n ih2 =>
        rw [Finset.prod_range_succ, Finset.sum_range_succ, zpow_add₀ hb0, ← zpow_mul, ih2]
  have e1 : ∏ i ∈ Finset.range n, (Ev i / (ev (σ i) * b ^ R i)) ^ tt (σ i) =
      (∏ i ∈ Finset.range n, Ev i ^ tt (σ i)) /
        ((∏ i ∈ Finset.range n, ev (σ i) ^ tt (σ i)) * ∏ i ∈ Finset.range n, (b ^ R i) ^ tt (σ i)) := by
    rw [← Finset.prod_mul_distrib, ← Finset.prod_div_distrib]
    apply Finset.prod_congr rfl
    intro i _
    rw [div_zpow, mul_zpow]
  have hA : (∏ i ∈ Finset.range n, Ev i ^ tt (σ i)) =
      b ^ (∑ i ∈ Finset.range n, R i * tt (σ i)) * ∏ i ∈ Finset.range n, ev i ^ tt i := by
    rw [← h, Finset.prod_inv_distrib, mul_assoc, inv_mul_cancel₀ hP0, mul_one]
  rw [e1, hre, hb, hA, mul_comm]
  exact div_self (mul_ne_zero hP0 (zpow_ne_zero _ hb0))

end mult

/-! ### pairs of challenges: few bad first components, few accepted second components otherwise -/

/-- if at most `a` first components `λ ∈ T` are bad and for every other `λ ∈ T` at most `b` second
    components `x ∈ T` are accepted, then at most `a |T| + b |T|` pairs of `T × T` are accepted -/
theorem card_pairs_le {α : Type*} [DecidableEq α] (T : Finset α) (bad : α → Prop) [DecidablePred bad]
    (acc : α × α → Prop) [DecidablePred acc] (a b : ℕ) (hbad : (T.filter bad).card ≤ a)
    (hgood : ∀ l ∈ T, ¬ bad l → (T.filter fun x => acc (l, x)).card ≤ b) :
    ((T ×ˢ T).filter acc).card ≤ a * T.card + b * T.card := by
  classical
  have hsub : (T ×ˢ T).filter acc ⊆
      ((T.filter bad) ×ˢ T) ∪ ((T ×ˢ T).filter fun y => ¬ bad y.1 ∧ acc y) := by
    intro y hy
    rw [Finset.mem_filter, Finset.mem_product] at hy
    rw [Finset.mem_union]
    by_cases hb : bad y.1
    · left; rw [Finset.mem_product, Finset.mem_filter]; exact ⟨⟨hy.1.1, hb⟩, hy.1.2⟩
    · right; rw [Finset.mem_filter, Finset.mem_product]; exact ⟨hy.1, hb, hy.2⟩
  refine (Finset.card_le_card hsub).trans ((Finset.card_union_le _ _).trans ?_)
  apply Nat.add_le_add
  · rw [Finset.card_product]
    exact Nat.mul_le_mul_right _ hbad
  · set B := (T ×ˢ T).filter fun y => ¬ bad y.1 ∧ acc y with hB
    have h1 := Finset.card_le_mul_card_image (f := Prod.fst) B b (by
      intro l hl
      obtain ⟨y, hy, rfl⟩ := Finset.mem_image.mp hl
      rw [hB, Finset.mem_filter, Finset.mem_product] at hy
      refine le_trans ?_ (hgood y.1 hy.1.1 hy.2.1)
      apply Finset.card_le_card_of_injOn Prod.snd
      · intro z hz
        simp only [Finset.coe_filter, Set.mem_ofPred_eq] at hz
        rw [hB, Finset.mem_filter, Finset.mem_product] at hz
        simp only [Finset.coe_filter, Set.mem_ofPred_eq]
        refine ⟨hz.1.1.2, ?_⟩
        have : z = (y.1, z.2) := Prod.ext hz.2 rfl
        rw [← this]; exact hz.1.2.2
      · intro z hz z' hz' h
        simp only [Finset.coe_filter, Set.mem_ofPred_eq] at hz hz'
        exact Prod.ext (hz.2.trans hz'.2.symm) h)
    refine h1.trans (Nat.mul_le_mul_left _ ?_)
    apply Finset.card_le_card
    intro l hl
    obtain ⟨y, hy, rfl⟩ := Finset.mem_image.mp hl
    rw [hB, Finset.mem_filter, Finset.mem_product] at hy
    exact hy.1.1

end Tmcg.ArgsSound
