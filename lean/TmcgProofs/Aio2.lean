import Tmcg.Model.Aio2
import TmcgProofs.Aio
/-
  C13, second part: the chunked mode of the select class, the non-blocking class (sender on a
  bounded queue with a clock, receiver), several peers behind one object.

  Main results (all for `ModeOk md`, honest primitives `CrOk md cr`, any `sz` with the contract `SzOk` of
  `mpz_sizeinbase`):
   * `link_prefix`, `link_complete`: fragmentation invariance of `receive2` in EVERY mode of both classes
     (plain / CFB / chunked-CTR line codecs; `decode_encode` is the codec round trip);
   * `chunked_roundtrip` (= `select_roundtrip_prefix/_complete` for `send2`), `chunked_any_state`,
     `chunked_integrity` (= `delivered_was_tagged2`, `bad_tag_never_delivered2`);
   * `nb_send_all_or_nothing`, `nb_send_refused`, `nb_send_timeout` (strict prefix on the link AND the link
     closed unless plain mode with nothing written -- library as repaired by 531e2c0), `closed_link_silent`,
     `nb_send_mid_message(_closes)`, `nb_recv_fragmentation_invariant`, `nb_accepted_prefix` (any sequence of
     Sends, time-outs included: delivered <+: accepted); `timeout_splice` documents the old defect;
   * `peers_not_mixed` (`recvN`, three schedulers);
   * integer arrays (`sendArr`, `recvArr`, per-sender queues): `array_roundtrip`, `arrays_peers_not_mixed`
     (+ `fit_uniform`), `array_prefix_under_tamper` (array layer over any in-order value source), `arrCheck_AI`
     (the "out of order" branch is unreachable when the sizes asked for are the sizes sent), `sendArrGo_select`.
-/
namespace Tmcg.Aio2
open Tmcg Tmcg.Aio Tmcg.Codec

/-! ## the modes and their text lines -/

def cfgOf (md : Mode) : Cfg :=
  { auth := md.auth, enc := md.enc, maclen := md.maclen, blklen := md.blklen, bufSize := md.bufSize }

/-- the library's constants -/
def ModeOk (md : Mode) : Prop :=
  md.maclen = 32 ∧ md.blklen = 16 ∧ md.bufSize = Gen.TMCG_MAX_VALUE_CHARS

/-- honest primitives (see `Tmcg.Aio.CryptoOk`); in the chunked mode the "position" handed to the
    cipher is the chunk counter -/
abbrev CrOk (md : Mode) (cr : Crypto) : Prop := CryptoOk (cfgOf md) cr

/-- the number handed to `mpz_get_str` -/
def tmpOf (md : Mode) (m : Int) : Int := if md.enc then m + hideLength else m

/-- contract of `mpz_sizeinbase(·, 62)` as far as safety needs it: never less than the number of
    digits (the sign is not counted) -/
def SzOk (sz : Int → Nat) : Prop :=
  ∀ v : Int, (strBytes (str62 v)).length ≤ sz v + (if v < 0 then 1 else 0)

def encNext (md : Mode) (e : Enc) : Enc :=
  if !md.enc then e
  else if md.ctr then { calls := e.calls + 1, chunkOut := e.chunkOut + 1 }
  else { e with calls := e.calls + 1 }

def lineOf2 (md : Mode) (cr : Crypto) (sz : Int → Nat) (e : Enc) (m : Int) : Bytes :=
  let digits := strBytes (str62 (tmpOf md m))
  if !md.enc then digits
  else if md.ctr then
    strBytes (str62 ((beImport (43 :: cr.encrypt (e.chunkOut + 1)
        (digits ++ List.replicate (padLen md (sz (tmpOf md m)) - digits.length) 0)) : Nat) : Int))
      ++ [124] ++ strBytes (str62 ((e.chunkOut + 1 : Nat) : Int))
  else strBytes (str62 ((beImport (43 :: cr.encrypt e.calls digits) : Nat) : Int))

/-- `Send` does not refuse `m` in codec state `e` -/
def OkMsg2 (md : Mode) (sz : Int → Nat) (e : Enc) (m : Int) : Prop :=
  ¬ (md.enc = true ∧ m < 0) ∧ 2 * sz (tmpOf md m) < md.bufSize ∧
  (md.ctr = true → (strBytes (str62 ((e.chunkOut + 1 : Nat) : Int))).length ≤ md.blklen)

theorem ctr_enc {md : Mode} (h : md.ctr = true) : md.enc = true := by
  unfold Mode.ctr at h
  simp only [Bool.and_eq_true] at h
  exact h.1.1

theorem encodeLine_iff (md : Mode) (cr : Crypto) (sz : Int → Nat) (e e' : Enc) (m : Int) (l : Bytes) :
    encodeLine md cr e m (sz (tmpOf md m)) = some (e', l) ↔
      OkMsg2 md sz e m ∧ e' = encNext md e ∧ l = lineOf2 md cr sz e m := by
  unfold encodeLine OkMsg2 encNext lineOf2 tmpOf
  cases henc : md.enc <;> cases hctr : md.ctr
  · simp [eq_comm]
  · have := ctr_enc hctr; rw [henc] at this; exact absurd this (by simp)
  · simp only [Bool.not_true, Bool.false_eq_true, if_false, if_true, true_and, not_lt, ge_iff_le]
    constructor
    · intro h
      split at h
      · simp at h
      · split at h
        · simp at h
        · simp only [Option.some.injEq, Prod.mk.injEq] at h
          refine ⟨⟨by omega, by omega, by simp⟩, h.1.symm, h.2.symm⟩
    · rintro ⟨⟨h1, h2, -⟩, rfl, rfl⟩
      rw [if_neg (by omega), if_neg (by omega)]
  · simp only [Bool.not_true, Bool.false_eq_true, if_false, if_true, true_and, not_lt, ge_iff_le]
    constructor
    · intro h
      split at h
      · simp at h
      · split at h
        · simp at h
        · split at h
          · simp at h
          · simp only [Option.some.injEq, Prod.mk.injEq] at h
            refine ⟨⟨by omega, by omega, fun _ => by omega⟩, h.1.symm, h.2.symm⟩
    · rintro ⟨⟨h1, h2, h3⟩, rfl, rfl⟩
      rw [if_neg (by omega), if_neg (by omega), if_neg (by have := h3 trivial; omega)]

/-! ### facts about the lines -/

theorem char_of_toNat {c : Char} {n : Nat} (h : c.toNat = n) : c = Char.ofNat n := by
  rw [← h, Char.ofNat_toNat]

theorem str62_no124 (z : Int) : 124 ∉ strBytes (str62 z) := by
  rw [strBytes_str62]
  intro h
  obtain ⟨c, hc, h124⟩ := List.mem_map.mp h
  have hc' : c = '|' := char_of_toNat h124
  obtain ⟨ds, h1, h2, -, -⟩ := str62_toList z
  rw [h1] at hc
  subst hc'
  split at hc
  · rcases List.mem_cons.mp hc with h | h
    · exact absurd h (by decide)
    · exact (h2 _ h).ne_bar rfl
  · exact (h2 _ hc).ne_bar rfl

theorem lineOf2_no_nl (md : Mode) (cr : Crypto) (sz : Int → Nat) (e : Enc) (m : Int) :
    10 ∉ lineOf2 md cr sz e m := by
  unfold lineOf2
  simp only []
  split
  · exact strBytes_str62_no_nl _
  · split
    · intro h
      simp only [List.append_assoc, List.mem_append, List.mem_cons, List.mem_nil_iff, or_false] at h
      rcases h with h | h | h
      · exact strBytes_str62_no_nl _ h
      · omega
      · exact strBytes_str62_no_nl _ h
    · exact strBytes_str62_no_nl _

theorem takeWhile_all {α} (p : α → Bool) : ∀ l : List α, (∀ c ∈ l, p c = true) → l.takeWhile p = l
  | [], _ => rfl
  | a :: t, h => by
    rw [List.takeWhile_cons_of_pos (h a (by simp)), takeWhile_all p t (fun c hc => h c (by simp [hc]))]

/-- `mpz_set_str` reads a C string: what follows the first NUL is invisible -/
theorem parse62_nul_pad (z : Int) (k : Nat) :
    parse62 (bytesStr (strBytes (str62 z) ++ List.replicate k 0)) = some z := by
  have h0 : parse62 (bytesStr (strBytes (str62 z) ++ List.replicate k 0)) = parse62 (str62 z) := by
    have hl : (bytesStr (strBytes (str62 z) ++ List.replicate k 0)).toList.takeWhile (· ≠ Char.ofNat 0) =
        (str62 z).toList.takeWhile (· ≠ Char.ofNat 0) := by
      unfold bytesStr
      rw [String.toList_ofList, List.map_append, strBytes_str62, List.map_map]
      have : List.map (Char.ofNat ∘ Char.toNat) (str62 z).toList = (str62 z).toList := by
        conv_rhs => rw [← List.map_id (str62 z).toList]
        apply List.map_congr_left
        intro c _
        exact Char.ofNat_toNat c
      rw [this, List.map_replicate]
      have hnn : ∀ c ∈ (str62 z).toList, (decide (c ≠ Char.ofNat 0)) = true := by
        intro c hc
        obtain ⟨ds, h1, h2, -, -⟩ := str62_toList z
        rw [h1] at hc
        simp only [decide_eq_true_eq]
        split at hc
        · rcases List.mem_cons.mp hc with h | h
          · rw [h]; decide
          · exact (h2 _ h).ne_nul
        · exact (h2 _ hc).ne_nul
      rw [List.takeWhile_append_of_pos hnn]
      cases k with
      | zero =>
        rw [List.replicate_zero, List.takeWhile_nil, List.append_nil]
        exact (takeWhile_all _ _ hnn).symm
      | succ k =>
        rw [List.replicate_succ, List.takeWhile_cons_of_neg (by simp), List.append_nil]
        exact (takeWhile_all _ _ hnn).symm
    unfold parse62
    simp only [hl]
  rw [h0, parse62_str62]

theorem hide_pos : 0 < hideLength := by unfold hideLength; positivity

theorem padLen_bounds (md : Mode) (h : md.blklen = 16) (est : Nat) :
    est + 1 ≤ padLen md est ∧ padLen md est ≤ est + 16 := by
  unfold padLen
  simp only [h]
  split <;> omega

def tagOf2 (md : Mode) (cr : Crypto) (sqn : Nat) (line : Bytes) : Bytes :=
  if md.auth then cr.mac (line ++ [10] ++ strBytes (str62 ((sqn : Nat) : Int))) else []

def frame2 (md : Mode) (cr : Crypto) (sz : Int → Nat) (sqn : Nat) (e : Enc) (m : Int) : Bytes :=
  lineOf2 md cr sz e m ++ 10 :: tagOf2 md cr sqn (lineOf2 md cr sz e m)

theorem tagOf2_length (md : Mode) (cr : Crypto) (hcr : CrOk md cr) (sqn : Nat) (line : Bytes) :
    (tagOf2 md cr sqn line).length = if md.auth then md.maclen else 0 := by
  unfold tagOf2
  split
  · exact hcr.mac_len _
  · rfl

theorem frame2_length (md : Mode) (cr : Crypto) (hcr : CrOk md cr) (sz : Int → Nat) (sqn : Nat) (e : Enc) (m : Int) :
    (frame2 md cr sz sqn e m).length =
      (lineOf2 md cr sz e m).length + 1 + (if md.auth then md.maclen else 0) := by
  unfold frame2
  rw [List.length_append, List.length_cons, tagOf2_length md cr hcr]
  omega

theorem frame2_pos (md : Mode) (cr : Crypto) (sz : Int → Nat) (sqn : Nat) (e : Enc) (m : Int) :
    0 < (frame2 md cr sz sqn e m).length := by
  unfold frame2; simp

theorem enc_str_length (cr : Crypto) (md : Mode) (hcr : CrOk md cr) (k : Nat) (d : Bytes) :
    2 * (strBytes (str62 ((beImport (43 :: cr.encrypt k d) : Nat) : Int))).length ≤ 3 * (d.length + 1) + 2 := by
  have hlt := beImport_lt (43 :: cr.encrypt k d) (by
    intro x hx
    rcases List.mem_cons.mp hx with rfl | hx
    · norm_num
    · exact hcr.enc_byte _ _ x hx)
  have := strBytes_str62_length _ _ hlt
  simp only [List.length_cons, hcr.enc_len] at this
  exact this

/-- every line `Send` accepts fits, with newline and tag, into the receiver's reassembly buffer -/
theorem frame2_length_le (md : Mode) (hmd : ModeOk md) (cr : Crypto) (hcr : CrOk md cr) (sz : Int → Nat)
    (hsz : SzOk sz) (sqn : Nat) (e : Enc) (m : Int) (hok : OkMsg2 md sz e m) :
    (frame2 md cr sz sqn e m).length ≤ md.bufSize := by
  obtain ⟨hm, hb, hs⟩ := hmd
  have h4096 : Gen.TMCG_MAX_VALUE_CHARS = 4096 := rfl
  rw [frame2_length md cr hcr]
  have hmac : (if md.auth then md.maclen else 0) ≤ 32 := by split <;> omega
  obtain ⟨hneg, hlen, hctr⟩ := hok
  have hdig := hsz (tmpOf md m)
  unfold lineOf2
  simp only []
  cases henc : md.enc
  · simp only [Bool.not_false, if_true]
    have : (if tmpOf md m < 0 then 1 else 0) ≤ 1 := by split <;> omega
    omega
  · have hm0 : ¬ m < 0 := fun h => hneg ⟨henc, h⟩
    have htmp : ¬ tmpOf md m < 0 := by
      unfold tmpOf; rw [henc]; simp only [if_true]; have := hide_pos; omega
    rw [if_neg htmp] at hdig
    simp only [Bool.not_true, Bool.false_eq_true, if_false]
    cases hc : md.ctr
    · simp only [Bool.false_eq_true, if_false]
      have := enc_str_length cr md hcr e.calls (strBytes (str62 (tmpOf md m)))
      omega
    · simp only [if_true]
      have hp := padLen_bounds md hb (sz (tmpOf md m))
      have h3 := hctr hc
      have := enc_str_length cr md hcr (e.chunkOut + 1) (strBytes (str62 (tmpOf md m)) ++
        List.replicate (padLen md (sz (tmpOf md m)) - (strBytes (str62 (tmpOf md m))).length) 0)
      simp only [List.length_append, List.length_replicate, List.length_cons, List.length_nil] at this ⊢
      omega

theorem idxOf_sep (x : Nat) (line rest : Bytes) (h : x ∉ line) :
    List.idxOf? x (line ++ x :: rest) = some line.length := by
  unfold List.idxOf?
  rw [List.findIdx?_append]
  have : List.findIdx? (fun y => y == x) line = none := by
    rw [List.findIdx?_eq_none_iff]
    intro y hy
    simp only [beq_eq_false_iff_ne, ne_eq]
    rintro rfl
    exact h hy
  rw [this, List.findIdx?_cons]
  simp

theorem beExport_plus (cr : Crypto) (md : Mode) (hcr : CrOk md cr) (k : Nat) (d : Bytes) :
    beExport (beImport (43 :: cr.encrypt k d)) = 43 :: cr.encrypt k d := by
  apply beExport_beImport
  · intro x hx
    rcases List.mem_cons.mp hx with rfl | hx
    · norm_num
    · exact hcr.enc_byte _ _ x hx
  · simp

/-- the decoding part of `Receive` inverts the encoding part of `Send`, in every mode, and moves the
    receiver's codec state as the sender's moved -/
theorem decode_encode (md : Mode) (hmd : ModeOk md) (cr : Crypto) (hcr : CrOk md cr) (sz : Int → Nat)
    (hsz : SzOk sz) (e : Enc) (chunkIn : Int) (m : Int) (hok : OkMsg2 md sz e m) :
    decodeLine md cr e.calls chunkIn (lineOf2 md cr sz e m) =
      ((encNext md e).calls, (if md.ctr then (((encNext md e).chunkOut : Nat) : Int) else chunkIn), some m) := by
  obtain ⟨hm, hb, hs⟩ := hmd
  obtain ⟨hneg, hlen, hctr⟩ := hok
  have hdig := hsz (tmpOf md m)
  unfold decodeLine lineOf2 encNext
  simp only []
  cases henc : md.enc
  · have hc : md.ctr = false := by
      cases h : md.ctr
      · rfl
      · have := ctr_enc h; rw [henc] at this; exact absurd this (by simp)
    simp [hc, tmpOf, henc, bytesStr_strBytes_str62, parse62_str62]
  · have hm0 : ¬ m < 0 := fun h => hneg ⟨henc, h⟩
    have htmp : ¬ tmpOf md m < 0 := by
      unfold tmpOf; rw [henc]; simp only [if_true]; have := hide_pos; omega
    rw [if_neg htmp] at hdig
    have htv : tmpOf md m = m + hideLength := by unfold tmpOf; rw [henc]; rfl
    simp only [Bool.not_true, Bool.false_eq_true, if_false]
    cases hc : md.ctr
    · -- CFB
      simp only [Bool.false_eq_true, if_false, htv]
      rw [htv] at hdig
      have hE := beExport_plus cr md hcr e.calls (strBytes (str62 (m + hideLength)))
      have hD := hcr.dec_enc e.calls (strBytes (str62 (m + hideLength)))
      have hL : 1 ≤ (cr.encrypt e.calls (strBytes (str62 (m + hideLength)))).length := by
        rw [hcr.enc_len]
        have := strBytes_str62_ne_nil (m + hideLength)
        cases h : strBytes (str62 (m + hideLength)) with
        | nil => exact absurd h this
        | cons a t => simp
      have hne : ¬ (cr.encrypt e.calls (strBytes (str62 (m + hideLength))) = []) := by
        intro h; rw [h] at hL; simp at hL
      rw [bytesStr_strBytes_str62, parse62_str62]
      simp only [Int.natAbs_natCast, hE, List.length_cons, List.head?_cons, List.tail_cons, hD,
        bytesStr_strBytes_str62, parse62_str62, List.isEmpty_iff, hne, if_false]
      have h1 : ¬ ((cr.encrypt e.calls (strBytes (str62 (m + hideLength)))).length + 1 <
          if (md.cls == Cls.select) = true then 2 else 1) := by
        split <;> omega
      have : ¬ (m + hideLength < hideLength) := by omega
      simp [this]
      split <;> omega
    · -- CTR with an explicit counter
      simp only [if_true]
      set c := e.chunkOut + 1 with hcdef
      set plain := strBytes (str62 (tmpOf md m)) ++
        List.replicate (padLen md (sz (tmpOf md m)) - (strBytes (str62 (tmpOf md m))).length) 0 with hplain
      set A := strBytes (str62 ((beImport (43 :: cr.encrypt c plain) : Nat) : Int)) with hA
      set C := strBytes (str62 ((c : Nat) : Int)) with hC
      have hidx : List.idxOf? 124 (A ++ [124] ++ C) = some A.length := by
        rw [List.append_assoc]; exact idxOf_sep 124 A C (str62_no124 _)
      have hdrop : List.drop (A.length + 1) (A ++ [124] ++ C) = C := by
        rw [show A.length + 1 = (A ++ [124]).length by simp]; exact List.drop_left
      have htake : List.take A.length (A ++ [124] ++ C) = A := by
        rw [List.append_assoc]; exact List.take_left
      have hp := padLen_bounds md hb (sz (tmpOf md m))
      have hplen : 1 ≤ plain.length := by
        rw [hplain]; simp only [List.length_append, List.length_replicate]; omega
      have hE := beExport_plus cr md hcr c plain
      have hD := hcr.dec_enc c plain
      have hL : 1 ≤ (cr.encrypt c plain).length := by rw [hcr.enc_len]; exact hplen
      have h3 := hctr hc
      rw [hidx]
      simp only [hdrop, htake]
      rw [hC, bytesStr_strBytes_str62, parse62_str62]
      simp only [Int.natAbs_natCast]
      rw [← hC, if_neg (by omega), if_neg (by omega)]
      rw [hA, bytesStr_strBytes_str62, parse62_str62]
      simp only [Int.natAbs_natCast, hE, List.length_cons, List.head?_cons, List.tail_cons, hD]
      rw [if_neg (by omega)]
      simp only [ne_eq, not_true_eq_false, if_false]
      rw [hplain, parse62_nul_pad, htv]
      have : ¬ (m + hideLength < hideLength) := by omega
      simp [this, hcdef]

/-! ### the parse attempt on a genuine stream -/

/-- the sender state the receiver's codec state corresponds to -/
def encOf (rx : Rx2) : Enc := { calls := rx.calls, chunkOut := rx.chunkIn.toNat }

theorem encOf_next (md : Mode) (rx rx' : Rx2) (h1 : rx'.calls = (encNext md (encOf rx)).calls)
    (h2 : rx'.chunkIn = if md.ctr then (((encNext md (encOf rx)).chunkOut : Nat) : Int) else rx.chunkIn) :
    encOf rx' = encNext md (encOf rx) := by
  unfold encOf at h1 h2 ⊢
  unfold encNext at h1 h2 ⊢
  rw [h1, h2]
  cases henc : md.enc <;> cases hctr : md.ctr
  · simp
  · have := ctr_enc hctr; rw [henc] at this; exact absurd this (by simp)
  · simp
  · simp; omega

/-- a genuine frame at the head of the buffer is delivered; `e` is the sender's codec state when it made
    the frame, which has to agree with the receiver's only in the cipher position (and that only matters
    in the CFB modes) -/
theorem parse2_frame_gen (md : Mode) (hmd : ModeOk md) (cr : Crypto) (hcr : CrOk md cr) (sz : Int → Nat)
    (hsz : SzOk sz) (rx : Rx2) (e : Enc) (hcalls : e.calls = rx.calls) (m : Int) (more : Bytes)
    (hok : OkMsg2 md sz e m) (hbuf : rx.buf = frame2 md cr sz rx.sqn e m ++ more) :
    ∃ rx', parse2 md cr rx = (rx', .delivered m) ∧ rx'.buf = more ∧ rx'.flag = !more.isEmpty ∧
      rx'.sqn = (if md.auth then rx.sqn + 1 else rx.sqn) ∧ rx'.ivSeen = rx.ivSeen ∧
      rx'.calls = (encNext md e).calls ∧
      rx'.chunkIn = (if md.ctr then (((encNext md e).chunkOut : Nat) : Int) else rx.chunkIn) := by
  set line := lineOf2 md cr sz e m with hline
  have hnl : 10 ∉ line := lineOf2_no_nl md cr sz e m
  have htl := tagOf2_length md cr hcr rx.sqn line
  have hb : rx.buf = line ++ 10 :: (tagOf2 md cr rx.sqn line ++ more) := by
    rw [hbuf, frame2, ← hline]; simp
  have hidx := idxOf_sep 10 line (tagOf2 md cr rx.sqn line ++ more) hnl
  rw [← hb] at hidx
  have h1 : List.take line.length rx.buf = line := by
    rw [hb]; exact List.take_left' rfl
  have h2 : List.take (if md.auth = true then md.maclen else 0)
      (List.drop (line.length + 1) rx.buf) = tagOf2 md cr rx.sqn line := by
    have : rx.buf = (line ++ [10]) ++ (tagOf2 md cr rx.sqn line ++ more) := by
      rw [hb]; simp
    rw [this, List.drop_left' (by simp), ← htl]; exact List.take_left' rfl
  have h3 : List.drop (line.length + 1 + if md.auth = true then md.maclen else 0) rx.buf = more := by
    have : rx.buf = (line ++ [10] ++ tagOf2 md cr rx.sqn line) ++ more := by
      rw [hb]; simp
    rw [this]; exact List.drop_left' (by simp [htl]; omega)
  have h4 : ¬ (rx.buf.length - line.length - 1 < if md.auth = true then md.maclen else 0) := by
    rw [hb, ← htl]; simp
  have hde := decode_encode md hmd cr hcr sz hsz e rx.chunkIn m hok
  rw [← hline, hcalls] at hde
  unfold parse2
  simp only [hidx, h1, h2, h3, h4, if_false]
  cases hauth : md.auth
  · simp only [Bool.not_false, Bool.true_or, Bool.not_true, Bool.false_eq_true, if_false, hde]
    exact ⟨_, rfl, rfl, rfl, rfl, rfl, rfl, rfl⟩
  · have hv : cr.verify (line ++ [10] ++ strBytes (str62 ((rx.sqn : Nat) : Int))) (tagOf2 md cr rx.sqn line) = true := by
      rw [hcr.verify_iff]; simp [tagOf2, hauth]
    simp only [Bool.not_true, Bool.false_or, hv, Bool.false_eq_true, if_false, if_true, hde]
    exact ⟨_, rfl, rfl, rfl, rfl, rfl, rfl, rfl⟩

theorem parse2_frame (md : Mode) (hmd : ModeOk md) (cr : Crypto) (hcr : CrOk md cr) (sz : Int → Nat)
    (hsz : SzOk sz) (rx : Rx2) (m : Int) (more : Bytes) (hok : OkMsg2 md sz (encOf rx) m)
    (hbuf : rx.buf = frame2 md cr sz rx.sqn (encOf rx) m ++ more) :
    ∃ rx', parse2 md cr rx = (rx', .delivered m) ∧ rx'.buf = more ∧ rx'.flag = !more.isEmpty ∧
      rx'.sqn = (if md.auth then rx.sqn + 1 else rx.sqn) ∧ rx'.ivSeen = rx.ivSeen ∧
      encOf rx' = encNext md (encOf rx) := by
  obtain ⟨rx', h1, h2, h3, h4, h5, h6, h7⟩ :=
    parse2_frame_gen md hmd cr hcr sz hsz rx (encOf rx) rfl m more hok hbuf
  exact ⟨rx', h1, h2, h3, h4, h5, encOf_next md rx rx' h6 h7⟩

theorem parse2_no_nl (md : Mode) (cr : Crypto) (rx : Rx2) (h : 10 ∉ rx.buf) :
    parse2 md cr rx = ({ rx with flag := false }, .incomplete) := by
  unfold parse2
  simp only [idxOf_none _ h]

theorem parse2_partial (md : Mode) (cr : Crypto) (hcr : CrOk md cr) (sz : Int → Nat) (rx : Rx2) (e : Enc)
    (m : Int) (rest tail : Bytes) (hbuf : rx.buf ++ rest = frame2 md cr sz rx.sqn e m ++ tail)
    (hlen : rx.buf.length < (frame2 md cr sz rx.sqn e m).length) :
    parse2 md cr rx = ({ rx with flag := false }, .incomplete) := by
  set line := lineOf2 md cr sz e m with hline
  have hnl : 10 ∉ line := lineOf2_no_nl md cr sz e m
  have htl := tagOf2_length md cr hcr rx.sqn line
  rcases List.append_eq_append_iff.mp hbuf with ⟨as, h1, -⟩ | ⟨bs, h1, -⟩
  · -- buf is a prefix of the frame
    unfold frame2 at h1
    rw [← hline] at h1
    rcases List.append_eq_append_iff.mp h1.symm with ⟨cs, h2, -⟩ | ⟨bs, h2, h3⟩
    · apply parse2_no_nl
      intro h10
      exact hnl (h2 ▸ List.mem_append_left _ h10)
    · cases bs with
      | nil =>
        apply parse2_no_nl
        rw [h2, List.append_nil]; exact hnl
      | cons b t =>
        simp only [List.cons_append, List.cons.injEq] at h3
        obtain ⟨rfl, h3⟩ := h3
        have hidx := idxOf_sep 10 line t hnl
        rw [← h2] at hidx
        have hlt : rx.buf.length - line.length - 1 < (if md.auth = true then md.maclen else 0) := by
          rw [frame2_length md cr hcr, ← hline] at hlen
          rw [h2] at hlen ⊢
          simp only [List.length_append, List.length_cons] at hlen ⊢
          omega
        unfold parse2
        simp only [hidx, hlt, if_true]
  · rw [h1, List.length_append] at hlen
    omega

/-! ### the stream of frames and the receiver invariant -/

def frames2 (md : Mode) (cr : Crypto) (sz : Int → Nat) : Nat → Enc → List Int → Bytes
  | _, _, [] => []
  | sqn, e, m :: ms =>
    frame2 md cr sz sqn e m ++ frames2 md cr sz (if md.auth then sqn + 1 else sqn) (encNext md e) ms

/-- none of the messages is refused by `Send` -/
def OkSeq (md : Mode) (sz : Int → Nat) : Enc → List Int → Prop
  | _, [] => True
  | e, m :: ms => OkMsg2 md sz e m ∧ OkSeq md sz (encNext md e) ms

structure Inv2 (md : Mode) (cr : Crypto) (sz : Int → Nat) (iv : Bytes) (rx : Rx2) (rest : Bytes)
    (pending : List Int) : Prop where
  ok : OkSeq md sz (encOf rx) pending
  len : rx.buf.length ≤ md.bufSize
  stream : rx.buf ++ rest =
    (if md.enc = true ∧ rx.ivSeen = false ∧ pending ≠ [] then iv else []) ++
      frames2 md cr sz rx.sqn (encOf rx) pending
  ivphase : md.enc = true → rx.ivSeen = false → rx.flag = false ∧ rx.buf.length < md.blklen
  noframe : rx.flag = false → ¬ (md.enc = true ∧ rx.ivSeen = false) → ∀ m ps, pending = m :: ps →
    rx.buf.length < (frame2 md cr sz rx.sqn (encOf rx) m).length

def mu2 (rx : Rx2) (pipe : Bytes) (pending : List Int) : Nat :=
  2 * pipe.length + 3 * pending.length + (if rx.flag then 1 else 0)

theorem Inv2.stuck_pipe {md : Mode} {cr : Crypto} {sz : Int → Nat} {iv : Bytes} {rx : Rx2} {pipe wire : Bytes}
    {pending : List Int} (hmd : ModeOk md) (hcr : CrOk md cr) (hsz : SzOk sz)
    (hI : Inv2 md cr sz iv rx (pipe ++ wire) pending) (hflag : rx.flag = false)
    (hroom : md.bufSize - rx.buf.length = 0) : pipe = [] := by
  have hmd' := hmd
  obtain ⟨hm, hb, hs⟩ := hmd
  have h4096 : Gen.TMCG_MAX_VALUE_CHARS = 4096 := rfl
  by_cases hph : md.enc = true ∧ rx.ivSeen = false
  · have := (hI.ivphase hph.1 hph.2).2
    omega
  · cases pending with
    | nil =>
      have := hI.stream
      simp [frames2] at this
      exact this.2.1
    | cons m ps =>
      have h1 := hI.noframe hflag hph m ps rfl
      have h2 := frame2_length_le md hmd' cr hcr sz hsz rx.sqn (encOf rx) m hI.ok.1
      omega

theorem Inv2.done {md : Mode} {cr : Crypto} {sz : Int → Nat} {iv : Bytes} {rx : Rx2} {pending : List Int}
    (hiv : iv.length = md.blklen)
    (hI : Inv2 md cr sz iv rx [] pending) (hflag : rx.flag = false) : pending = [] := by
  cases pending with
  | nil => rfl
  | cons m ps =>
    exfalso
    have hst := hI.stream
    by_cases hph : md.enc = true ∧ rx.ivSeen = false
    · have := (hI.ivphase hph.1 hph.2).2
      rw [if_pos ⟨hph.1, hph.2, by simp⟩] at hst
      have := congrArg List.length hst
      simp only [List.append_nil, List.length_append] at this
      omega
    · have h1 := hI.noframe hflag hph m ps rfl
      rw [if_neg (fun h => hph ⟨h.1, h.2.1⟩)] at hst
      have := congrArg List.length hst
      simp only [frames2, List.append_nil, List.nil_append, List.length_append] at this
      omega

theorem read2_spec (md : Mode) (hmd : ModeOk md) (cr : Crypto) (hcr : CrOk md cr) (sz : Int → Nat)
    (hsz : SzOk sz) (iv : Bytes) (hiv : iv.length = md.blklen) (rx : Rx2) (pipe wire : Bytes)
    (pending : List Int) (hI : Inv2 md cr sz iv rx (pipe ++ wire) pending) (hflag : rx.flag = false)
    (rx' : Rx2) (pipe' : Bytes) (h : readStep2 md rx pipe = (rx', pipe')) :
    Inv2 md cr sz iv rx' (pipe' ++ wire) pending ∧
    (mu2 rx' pipe' pending < mu2 rx pipe pending ∨ (rx' = rx ∧ pipe' = pipe ∧ pipe = [])) := by
  have hmd' := hmd
  obtain ⟨hm, hb, hs⟩ := hmd
  have h4096 : Gen.TMCG_MAX_VALUE_CHARS = 4096 := rfl
  unfold readStep2 at h
  by_cases hstop : md.bufSize - rx.buf.length = 0 ∨ pipe.isEmpty = true
  · simp only [hstop, if_true, Prod.mk.injEq] at h
    obtain ⟨rfl, rfl⟩ := h
    refine ⟨hI, Or.inr ⟨rfl, rfl, ?_⟩⟩
    rcases hstop with h0 | h0
    · exact hI.stuck_pipe hmd' hcr hsz hflag h0
    · simpa using h0
  · simp only [hstop, if_false] at h
    have hroom : 0 < md.bufSize - rx.buf.length := by omega
    have hpipe : 0 < pipe.length := by
      cases pipe with
      | nil => simp at hstop
      | cons a t => simp
    set room := md.bufSize - rx.buf.length with hroomdef
    have hgl : (pipe.take room).length = min room pipe.length := List.length_take
    have hdl : (pipe.drop room).length = pipe.length - room := List.length_drop
    have hsplit : pipe.take room ++ pipe.drop room = pipe := List.take_append_drop _ _
    have hlen := hI.len
    have hsw : pipe.take room ++ (pipe.drop room ++ wire) = pipe ++ wire := by
      rw [← List.append_assoc, hsplit]
    by_cases hph : md.enc = true ∧ rx.ivSeen = false
    · have hph' : md.enc = true ∧ (!rx.ivSeen) = true := by simp [hph.1, hph.2]
      simp only [hph'] at h
      have hpne : pending ≠ [] := by
        rintro rfl
        have := hI.stream
        simp [frames2] at this
        rw [this.2.1] at hpipe
        simp at hpipe
      have hst := hI.stream
      rw [if_pos ⟨hph.1, hph.2, hpne⟩] at hst
      by_cases hfull : (rx.buf ++ pipe.take room).length ≥ md.blklen
      · simp only [hfull, if_true] at h
        obtain ⟨rfl, rfl⟩ := h
        have hst2 : (rx.buf ++ pipe.take room) ++ (pipe.drop room ++ wire) =
            iv ++ frames2 md cr sz rx.sqn (encOf rx) pending := by
          rw [← hst, List.append_assoc, hsw]
        have hst3 : List.drop md.blklen (rx.buf ++ pipe.take room) ++ (pipe.drop room ++ wire) =
            frames2 md cr sz rx.sqn (encOf rx) pending := by
          rw [← List.drop_append_of_le_length hfull, hst2, ← hiv]
          exact List.drop_left
        refine ⟨⟨hI.ok, ?_, ?_, ?_, ?_⟩, Or.inl ?_⟩
        · simp only [List.length_drop, List.length_append, hgl]
          omega
        · simp only [hst3]
          simp
          rfl
        · intro _ hf; simp at hf
        · intro hfl _ m ps hp
          simp only [Bool.not_eq_false', List.isEmpty_iff] at hfl
          simp only [hfl, List.length_nil]
          exact frame2_pos _ _ _ _ _ _
        · simp only [mu2, hflag, hdl]
          split <;> simp <;> omega
      · simp only [hfull, if_false] at h
        obtain ⟨rfl, rfl⟩ := h
        refine ⟨⟨hI.ok, ?_, ?_, ?_, ?_⟩, Or.inl ?_⟩
        · show (rx.buf ++ pipe.take room).length ≤ md.bufSize
          simp only [List.length_append, hgl] at hfull ⊢
          omega
        · show (rx.buf ++ pipe.take room) ++ (pipe.drop room ++ wire) =
            (if md.enc = true ∧ rx.ivSeen = false ∧ pending ≠ [] then iv else []) ++
              frames2 md cr sz rx.sqn (encOf rx) pending
          rw [if_pos ⟨hph.1, hph.2, hpne⟩, ← hst, List.append_assoc, hsw]
        · intro _ _
          refine ⟨hflag, ?_⟩
          show (rx.buf ++ pipe.take room).length < md.blklen
          omega
        · intro _ hn; exact absurd hph hn
        · simp only [mu2, hflag, hdl]
          simp; omega
    · have hph' : ¬ (md.enc = true ∧ (!rx.ivSeen) = true) := by
        intro hc; apply hph; simpa using hc
      simp only [hph', if_false, Prod.mk.injEq] at h
      obtain ⟨rfl, rfl⟩ := h
      refine ⟨⟨hI.ok, ?_, ?_, ?_, ?_⟩, Or.inl ?_⟩
      · show (rx.buf ++ pipe.take room).length ≤ md.bufSize
        simp only [List.length_append, hgl]
        omega
      · have hst := hI.stream
        show (rx.buf ++ pipe.take room) ++ (pipe.drop room ++ wire) = _
        rw [List.append_assoc, hsw]; exact hst
      · intro he hs; exact absurd ⟨he, hs⟩ hph
      · intro hf; simp at hf
      · simp only [mu2, hflag, hdl]
        simp; omega

theorem round2_noflag (md : Mode) (cr : Crypto) (rx : Rx2) (pipe : Bytes) (h : rx.flag = false) :
    round2 md cr rx pipe = ((readStep2 md rx pipe).1, (readStep2 md rx pipe).2, .incomplete) := by
  simp [round2, h]

theorem round2_incomplete (md : Mode) (cr : Crypto) (rx rx1 : Rx2) (pipe : Bytes) (h : rx.flag = true)
    (hp : parse2 md cr rx = (rx1, .incomplete)) :
    round2 md cr rx pipe = ((readStep2 md rx1 pipe).1, (readStep2 md rx1 pipe).2, .incomplete) := by
  simp [round2, h, hp]

theorem round2_delivered (md : Mode) (cr : Crypto) (rx rx1 : Rx2) (pipe : Bytes) (v : Int) (h : rx.flag = true)
    (hp : parse2 md cr rx = (rx1, .delivered v)) :
    round2 md cr rx pipe = (rx1, pipe, .delivered v) := by
  simp [round2, h, hp]

theorem receive2_succ_incomplete (md : Mode) (cr : Crypto) (k : Nat) (rx rx1 : Rx2) (pipe pipe1 : Bytes)
    (h : round2 md cr rx pipe = (rx1, pipe1, .incomplete)) :
    receive2 md cr (k + 1) rx pipe = receive2 md cr k rx1 pipe1 := by
  simp [receive2, h]

theorem receive2_succ_delivered (md : Mode) (cr : Crypto) (k : Nat) (rx rx1 : Rx2) (pipe pipe1 : Bytes) (v : Int)
    (h : round2 md cr rx pipe = (rx1, pipe1, .delivered v)) :
    receive2 md cr (k + 1) rx pipe = (rx1, pipe1, .delivered v) := by
  simp [receive2, h]

/-- outcome of a `Receive` call (or of its last `rounds` rounds) from a state satisfying the invariant -/
def RecvOk2 (md : Mode) (cr : Crypto) (sz : Int → Nat) (iv wire : Bytes) (pending : List Int) (rounds : Nat)
    (rx : Rx2) (pipe : Bytes) (r : Rx2 × Bytes × Parse) : Prop :=
  (r.2.2 = .incomplete ∧ Inv2 md cr sz iv r.1 (r.2.1 ++ wire) pending ∧
    mu2 r.1 r.2.1 pending ≤ mu2 rx pipe pending ∧
    (1 ≤ rounds → mu2 r.1 r.2.1 pending < mu2 rx pipe pending ∨ (rx.flag = false ∧ pipe = []))) ∨
  (∃ v ps, r.2.2 = .delivered v ∧ pending = v :: ps ∧ Inv2 md cr sz iv r.1 (r.2.1 ++ wire) ps ∧
    mu2 r.1 r.2.1 ps < mu2 rx pipe pending)

theorem receive2_spec (md : Mode) (hmd : ModeOk md) (cr : Crypto) (hcr : CrOk md cr) (sz : Int → Nat)
    (hsz : SzOk sz) (iv : Bytes) (hiv : iv.length = md.blklen) (wire : Bytes) (pending : List Int) :
    ∀ (rounds : Nat) (rx : Rx2) (pipe : Bytes), Inv2 md cr sz iv rx (pipe ++ wire) pending →
      RecvOk2 md cr sz iv wire pending rounds rx pipe (receive2 md cr rounds rx pipe) := by
  intro rounds
  induction rounds with
  | zero =>
    intro rx pipe hI
    left
    exact ⟨rfl, hI, le_refl _, fun h => absurd h (by omega)⟩
  | succ k ih =>
    intro rx pipe hI
    -- the common tail: read, then the remaining rounds
    have tail : ∀ rx1 : Rx2, rx1.flag = false → Inv2 md cr sz iv rx1 (pipe ++ wire) pending →
        RecvOk2 md cr sz iv wire pending (k + 1) rx1 pipe
          (receive2 md cr k (readStep2 md rx1 pipe).1 (readStep2 md rx1 pipe).2) := by
      intro rx1 hf1 hI1
      obtain ⟨hI2, hmu⟩ := read2_spec md hmd cr hcr sz hsz iv hiv rx1 pipe wire pending hI1 hf1
        (readStep2 md rx1 pipe).1 (readStep2 md rx1 pipe).2 rfl
      have hle : mu2 (readStep2 md rx1 pipe).1 (readStep2 md rx1 pipe).2 pending ≤ mu2 rx1 pipe pending := by
        rcases hmu with h | ⟨h1, h2, -⟩
        · omega
        · rw [h1, h2]
      rcases ih _ _ hI2 with ⟨h1, h2, h3, -⟩ | ⟨v, ps, h1, h2, h3, h4⟩
      · left
        refine ⟨h1, h2, le_trans h3 hle, fun _ => ?_⟩
        rcases hmu with h | ⟨-, -, h⟩
        · left; omega
        · right; exact ⟨hf1, h⟩
      · right
        exact ⟨v, ps, h1, h2, h3, by omega⟩
    have tail' : ∀ rx1 : Rx2, rx.flag = true → rx1 = { rx with flag := false } →
        Inv2 md cr sz iv rx1 (pipe ++ wire) pending →
        RecvOk2 md cr sz iv wire pending (k + 1) rx pipe
          (receive2 md cr k (readStep2 md rx1 pipe).1 (readStep2 md rx1 pipe).2) := by
      intro rx1 hf hrx1 hI1
      have hf1 : rx1.flag = false := by rw [hrx1]
      have hmu1 : mu2 rx1 pipe pending + 1 = mu2 rx pipe pending := by
        simp [mu2, hf, hf1]
      rcases tail rx1 hf1 hI1 with ⟨h1, h2, h3, -⟩ | ⟨v, ps, h1, h2, h3, h4⟩
      · left
        exact ⟨h1, h2, by omega, fun _ => Or.inl (by omega)⟩
      · right
        exact ⟨v, ps, h1, h2, h3, by omega⟩
    cases hflag : rx.flag
    · rw [receive2_succ_incomplete md cr k rx _ pipe _ (round2_noflag md cr rx pipe hflag)]
      exact tail rx hflag hI
    · -- a parse attempt; we are past the IV
      have hph : ¬ (md.enc = true ∧ rx.ivSeen = false) := by
        rintro ⟨h1, h2⟩
        have := (hI.ivphase h1 h2).1
        rw [hflag] at this
        exact absurd this (by simp)
      have hst := hI.stream
      rw [if_neg (fun h => hph ⟨h.1, h.2.1⟩), List.nil_append] at hst
      -- invariant after an incomplete parse
      have hInc : (∀ m ps, pending = m :: ps → rx.buf.length < (frame2 md cr sz rx.sqn (encOf rx) m).length) →
          Inv2 md cr sz iv { rx with flag := false } (pipe ++ wire) pending := by
        intro hno
        exact ⟨hI.ok, hI.len, hI.stream, fun h1 h2 => absurd ⟨h1, h2⟩ hph, fun _ _ => hno⟩
      cases hp : pending with
      | nil =>
        subst hp
        have hbuf : rx.buf = [] := by
          simp only [frames2, List.append_eq_nil_iff] at hst
          exact hst.1
        have hparse := parse2_no_nl md cr rx (by rw [hbuf]; simp)
        rw [receive2_succ_incomplete md cr k rx _ pipe _ (round2_incomplete md cr rx _ pipe hflag hparse)]
        exact tail' _ hflag rfl (hInc (fun m ps h => by simp at h))
      | cons m ps =>
        subst hp
        rw [frames2] at hst
        by_cases hshort : rx.buf.length < (frame2 md cr sz rx.sqn (encOf rx) m).length
        · have hparse := parse2_partial md cr hcr sz rx (encOf rx) m _ _ hst hshort
          rw [receive2_succ_incomplete md cr k rx _ pipe _ (round2_incomplete md cr rx _ pipe hflag hparse)]
          refine tail' _ hflag rfl (hInc ?_)
          intro m' ps' h
          simp only [List.cons.injEq] at h
          rw [← h.1]; exact hshort
        · -- a complete frame is buffered
          set fr := frame2 md cr sz rx.sqn (encOf rx) m with hfr
          have hge : fr.length ≤ rx.buf.length := by omega
          have htake : rx.buf.take fr.length = fr := by
            have := congrArg (List.take fr.length) hst
            rw [List.take_append_of_le_length hge, List.take_left' rfl] at this
            exact this
          have hsplit : rx.buf = fr ++ rx.buf.drop fr.length := by
            conv_lhs => rw [← List.take_append_drop fr.length rx.buf, htake]
          have hrest : rx.buf.drop fr.length ++ (pipe ++ wire) =
              frames2 md cr sz (if md.auth then rx.sqn + 1 else rx.sqn) (encNext md (encOf rx)) ps := by
            have := congrArg (List.drop fr.length) hst
            rw [List.drop_append_of_le_length hge, List.drop_left' rfl] at this
            exact this
          obtain ⟨rx', hparse, hb', hf', hs', hiv', he'⟩ :=
            parse2_frame md hmd cr hcr sz hsz rx m _ hI.ok.1 hsplit
          rw [receive2_succ_delivered md cr k rx _ pipe _ m (round2_delivered md cr rx _ pipe m hflag hparse)]
          right
          refine ⟨m, ps, rfl, rfl, ⟨?_, ?_, ?_, ?_, ?_⟩, ?_⟩
          · show OkSeq md sz (encOf rx') ps
            rw [he']; exact hI.ok.2
          · show rx'.buf.length ≤ md.bufSize
            have := hI.len
            rw [hb']; simp only [List.length_drop]; omega
          · show rx'.buf ++ (pipe ++ wire) = _
            have hc : ¬ (md.enc = true ∧ rx'.ivSeen = false ∧ ps ≠ []) := fun h => hph ⟨h.1, hiv' ▸ h.2.1⟩
            rw [if_neg hc, List.nil_append, hb', hs', he']
            exact hrest
          · intro h1 h2; exact absurd ⟨h1, hiv' ▸ h2⟩ hph
          · intro hfl _ m' ps' _
            show rx'.buf.length < _
            rw [hf'] at hfl
            have hnil : rx.buf.drop fr.length = [] := by simpa using hfl
            rw [hb', hnil]
            exact frame2_pos _ _ _ _ _ _
          · show mu2 rx' pipe ps < mu2 rx pipe (m :: ps)
            simp only [mu2, List.length_cons, hflag, if_true]
            split <;> omega

/-! ### worlds: one link under an arbitrary schedule of arrivals and `Receive` calls -/

structure World2 where
  rx : Rx2 := {}
  pipe : Bytes := []        -- arrived, not yet read
  wire : Bytes := []        -- not yet arrived
  delivered : List Int := []
  failures : Nat := 0       -- `Receive` calls that returned false on a complete message
  deriving Repr

def step2 (md : Mode) (cr : Crypto) (n : Nat) (w : World2) : Op → World2
  | .push k => { w with pipe := w.pipe ++ w.wire.take k, wire := w.wire.drop k }
  | .recv =>
    let (rx', pipe', res) := receive2 md cr n w.rx w.pipe
    match res with
    | .delivered v => { w with rx := rx', pipe := pipe', delivered := w.delivered ++ [v] }
    | .failed => { w with rx := rx', pipe := pipe', failures := w.failures + 1 }
    | .incomplete => { w with rx := rx', pipe := pipe' }

def run2 (md : Mode) (cr : Crypto) (n : Nat) (w : World2) (ops : List Op) : World2 :=
  ops.foldl (step2 md cr n) w

structure WInv2 (md : Mode) (cr : Crypto) (sz : Int → Nat) (iv : Bytes) (msgs : List Int) (w : World2)
    (pending : List Int) : Prop where
  split : msgs = w.delivered ++ pending
  nofail : w.failures = 0
  inv : Inv2 md cr sz iv w.rx (w.pipe ++ w.wire) pending

theorem step2_push (md : Mode) (cr : Crypto) (sz : Int → Nat) (iv : Bytes) (n : Nat) (msgs : List Int)
    (w : World2) (pending : List Int) (k : Nat) (h : WInv2 md cr sz iv msgs w pending) :
    WInv2 md cr sz iv msgs (step2 md cr n w (.push k)) pending := by
  refine ⟨h.split, h.nofail, ?_⟩
  show Inv2 md cr sz iv w.rx ((w.pipe ++ w.wire.take k) ++ w.wire.drop k) pending
  rw [List.append_assoc, List.take_append_drop]
  exact h.inv

theorem step2_recv (md : Mode) (hmd : ModeOk md) (cr : Crypto) (hcr : CrOk md cr) (sz : Int → Nat)
    (hsz : SzOk sz) (iv : Bytes) (hiv : iv.length = md.blklen) (n : Nat) (hn : 1 ≤ n) (msgs : List Int)
    (w : World2) (pending : List Int) (h : WInv2 md cr sz iv msgs w pending) :
    ∃ pending', WInv2 md cr sz iv msgs (step2 md cr n w .recv) pending' ∧
      (step2 md cr n w .recv).wire = w.wire ∧ pending'.length ≤ pending.length ∧
      (mu2 (step2 md cr n w .recv).rx (step2 md cr n w .recv).pipe pending' < mu2 w.rx w.pipe pending ∨
        (w.rx.flag = false ∧ w.pipe = [] ∧ pending' = pending)) := by
  have hspec := receive2_spec md hmd cr hcr sz hsz iv hiv w.wire pending n w.rx w.pipe h.inv
  unfold step2
  simp only []
  generalize receive2 md cr n w.rx w.pipe = r at hspec
  obtain ⟨rx', pipe', res⟩ := r
  rcases hspec with ⟨h1, h2, h3, h4⟩ | ⟨v, ps, h1, h2, h3, h4⟩
  · simp only at h1 h2 h3 h4
    subst h1
    refine ⟨pending, ⟨h.split, h.nofail, h2⟩, rfl, le_refl _, ?_⟩
    rcases h4 hn with h5 | ⟨h5, h6⟩
    · exact Or.inl h5
    · exact Or.inr ⟨h5, h6, rfl⟩
  · simp only at h1 h2 h3 h4
    subst h1 h2
    refine ⟨ps, ⟨?_, h.nofail, h3⟩, rfl, by simp, Or.inl h4⟩
    show msgs = (w.delivered ++ [v]) ++ ps
    rw [h.split]; simp

theorem run2_inv (md : Mode) (hmd : ModeOk md) (cr : Crypto) (hcr : CrOk md cr) (sz : Int → Nat)
    (hsz : SzOk sz) (iv : Bytes) (hiv : iv.length = md.blklen) (n : Nat) (hn : 1 ≤ n) (msgs : List Int) :
    ∀ (ops : List Op) (w : World2) (pending : List Int), WInv2 md cr sz iv msgs w pending →
      ∃ pending', WInv2 md cr sz iv msgs (run2 md cr n w ops) pending' ∧
        (run2 md cr n w ops).wire.length ≤ w.wire.length := by
  intro ops
  induction ops with
  | nil => intro w pending h; exact ⟨pending, h, le_refl _⟩
  | cons op ops ih =>
    intro w pending h
    show ∃ pending', WInv2 md cr sz iv msgs (run2 md cr n (step2 md cr n w op) ops) pending' ∧
      (run2 md cr n (step2 md cr n w op) ops).wire.length ≤ w.wire.length
    cases op with
    | push k =>
      obtain ⟨p', h1, h2⟩ := ih _ pending (step2_push md cr sz iv n msgs w pending k h)
      refine ⟨p', h1, le_trans h2 ?_⟩
      show (w.wire.drop k).length ≤ _
      simp
    | recv =>
      obtain ⟨p1, h1, h2, -, -⟩ := step2_recv md hmd cr hcr sz hsz iv hiv n hn msgs w pending h
      obtain ⟨p', h3, h4⟩ := ih _ p1 h1
      exact ⟨p', h3, h2 ▸ h4⟩

theorem recv2_iter (md : Mode) (hmd : ModeOk md) (cr : Crypto) (hcr : CrOk md cr) (sz : Int → Nat)
    (hsz : SzOk sz) (iv : Bytes) (hiv : iv.length = md.blklen) (n : Nat) (hn : 1 ≤ n) (msgs : List Int) :
    ∀ (k : Nat) (w : World2) (pending : List Int), WInv2 md cr sz iv msgs w pending → w.wire = [] →
      ∃ pending', WInv2 md cr sz iv msgs (run2 md cr n w (List.replicate k Op.recv)) pending' ∧
        pending'.length ≤ pending.length ∧
        (pending' = [] ∨
          mu2 (run2 md cr n w (List.replicate k Op.recv)).rx (run2 md cr n w (List.replicate k Op.recv)).pipe
            pending' + k ≤ mu2 w.rx w.pipe pending) := by
  intro k
  induction k with
  | zero => intro w pending h _; exact ⟨pending, h, le_refl _, Or.inr (le_refl _)⟩
  | succ k ih =>
    intro w pending h hw
    rw [List.replicate_succ]
    show ∃ pending', WInv2 md cr sz iv msgs (run2 md cr n (step2 md cr n w .recv) (List.replicate k Op.recv)) pending' ∧ _
    obtain ⟨p1, h1, h2, h3, h4⟩ := step2_recv md hmd cr hcr sz hsz iv hiv n hn msgs w pending h
    obtain ⟨p', h5, h6, h7⟩ := ih _ p1 h1 (by rw [h2, hw])
    refine ⟨p', h5, le_trans h6 h3, ?_⟩
    rcases h4 with h4 | ⟨hf, hp, rfl⟩
    · rcases h7 with h7 | h7
      · exact Or.inl h7
      · right
        show mu2 (run2 md cr n (step2 md cr n w .recv) (List.replicate k Op.recv)).rx
          (run2 md cr n (step2 md cr n w .recv) (List.replicate k Op.recv)).pipe p' + (k + 1) ≤ _
        omega
    · left
      have hI := h.inv
      rw [hp, hw] at hI
      have := hI.done hiv hf
      subst this
      simpa using h6

/-- the bytes a sender puts on a fresh link for `msgs`: the IV once (encrypted modes), then the frames -/
def wireOf (md : Mode) (cr : Crypto) (sz : Int → Nat) (iv : Bytes) (msgs : List Int) : Bytes :=
  (if md.enc = true ∧ msgs ≠ [] then iv else []) ++ frames2 md cr sz 1 {} msgs

theorem init2_inv (md : Mode) (hmd : ModeOk md) (cr : Crypto) (sz : Int → Nat) (iv : Bytes)
    (msgs : List Int) (hok : OkSeq md sz {} msgs) :
    WInv2 md cr sz iv msgs { wire := wireOf md cr sz iv msgs } msgs := by
  obtain ⟨hm, hb, hs⟩ := hmd
  refine ⟨by simp, rfl, ⟨hok, by simp, ?_, ?_, ?_⟩⟩
  · show ([] : Bytes) ++ ([] ++ wireOf md cr sz iv msgs) = _
    simp [wireOf]
    rfl
  · intro _ _
    refine ⟨rfl, ?_⟩
    show ([] : Bytes).length < md.blklen
    rw [hb]; simp
  · intro _ _ m ps _
    exact frame2_pos _ _ _ _ _ _

/-- **safety, every mode of both classes**: whatever the fragmentation and the interleaving with
    `Receive` calls, the delivered sequence is a prefix of the sent one and no call fails -/
theorem link_prefix (md : Mode) (hmd : ModeOk md) (cr : Crypto) (hcr : CrOk md cr) (sz : Int → Nat)
    (hsz : SzOk sz) (iv : Bytes) (hiv : iv.length = md.blklen) (n : Nat) (hn : 1 ≤ n) (msgs : List Int)
    (hok : OkSeq md sz {} msgs) (ops : List Op) :
    (run2 md cr n { wire := wireOf md cr sz iv msgs } ops).delivered <+: msgs ∧
    (run2 md cr n { wire := wireOf md cr sz iv msgs } ops).failures = 0 := by
  obtain ⟨p, hp, -⟩ := run2_inv md hmd cr hcr sz hsz iv hiv n hn msgs ops _ msgs
    (init2_inv md hmd cr sz iv msgs hok)
  exact ⟨⟨p, hp.split.symm⟩, hp.nofail⟩

/-- **delivery**: once all bytes have arrived, finitely many further calls deliver everything -/
theorem link_complete (md : Mode) (hmd : ModeOk md) (cr : Crypto) (hcr : CrOk md cr) (sz : Int → Nat)
    (hsz : SzOk sz) (iv : Bytes) (hiv : iv.length = md.blklen) (n : Nat) (hn : 1 ≤ n) (msgs : List Int)
    (hok : OkSeq md sz {} msgs) (ops : List Op) :
    ∃ N, ∀ k, N ≤ k →
      (run2 md cr n { wire := wireOf md cr sz iv msgs }
        (ops ++ [Op.push (wireOf md cr sz iv msgs).length] ++ List.replicate k Op.recv)).delivered = msgs := by
  obtain ⟨p0, hp0, hlen0⟩ := run2_inv md hmd cr hcr sz hsz iv hiv n hn msgs (ops ++ [Op.push (wireOf md cr sz iv msgs).length]) _ msgs
    (init2_inv md hmd cr sz iv msgs hok)
  have hw : (run2 md cr n { wire := wireOf md cr sz iv msgs } (ops ++ [Op.push (wireOf md cr sz iv msgs).length])).wire = [] := by
    obtain ⟨p1, -, hl1⟩ := run2_inv md hmd cr hcr sz hsz iv hiv n hn msgs ops _ msgs
      (init2_inv md hmd cr sz iv msgs hok)
    unfold run2 at hl1 ⊢
    rw [List.foldl_append]
    show List.drop (wireOf md cr sz iv msgs).length _ = []
    exact List.drop_eq_nil_of_le hl1
  refine ⟨mu2 (run2 md cr n { wire := wireOf md cr sz iv msgs } (ops ++ [Op.push (wireOf md cr sz iv msgs).length])).rx
    (run2 md cr n { wire := wireOf md cr sz iv msgs } (ops ++ [Op.push (wireOf md cr sz iv msgs).length])).pipe p0, ?_⟩
  intro k hk
  obtain ⟨p', h1, -, h3⟩ := recv2_iter md hmd cr hcr sz hsz iv hiv n hn msgs k _ p0 hp0 hw
  have hrun : run2 md cr n { wire := wireOf md cr sz iv msgs } (ops ++ [Op.push (wireOf md cr sz iv msgs).length] ++ List.replicate k Op.recv) =
      run2 md cr n (run2 md cr n { wire := wireOf md cr sz iv msgs } (ops ++ [Op.push (wireOf md cr sz iv msgs).length])) (List.replicate k Op.recv) := by
    unfold run2; rw [List.foldl_append]
  rw [hrun]
  have hnil : p' = [] := by
    rcases h3 with h3 | h3
    · exact h3
    · have : mu2 (run2 md cr n (run2 md cr n { wire := wireOf md cr sz iv msgs } (ops ++ [Op.push (wireOf md cr sz iv msgs).length]))
          (List.replicate k Op.recv)).rx (run2 md cr n (run2 md cr n { wire := wireOf md cr sz iv msgs }
          (ops ++ [Op.push (wireOf md cr sz iv msgs).length])) (List.replicate k Op.recv)).pipe p' = 0 := by omega
      unfold mu2 at this
      have : p'.length = 0 := by omega
      exact List.length_eq_zero_iff.mp this
  have := h1.split
  rw [hnil, List.append_nil] at this
  exact this.symm

/-! ## senders -/

/-- the bytes in front of the first frame -/
def ivPre (md : Mode) (iv : Bytes) (ivSent : Bool) : Bytes := if md.enc = true ∧ ivSent = false then iv else []

theorem send2_spec (md : Mode) (cr : Crypto) (iv : Bytes) (sz : Int → Nat) (tx tx' : Tx2) (m : Int) (w : Bytes)
    (h : send2 md cr iv tx m (sz (tmpOf md m)) = some (tx', w)) :
    OkMsg2 md sz tx.enc m ∧ w = ivPre md iv tx.ivSent ++ frame2 md cr sz tx.sqn tx.enc m ∧
    tx'.sqn = (if md.auth then tx.sqn + 1 else tx.sqn) ∧ tx'.enc = encNext md tx.enc ∧
    (md.enc = true → tx'.ivSent = true) ∧ tx.isOpen = true := by
  unfold send2 at h
  cases hop : tx.isOpen
  · simp [hop] at h
  simp only [hop, Bool.not_true, Bool.false_eq_true, if_false] at h
  cases he : encodeLine md cr tx.enc m (sz (tmpOf md m)) with
  | none => simp [he] at h
  | some r =>
    obtain ⟨e, line⟩ := r
    obtain ⟨hok, rfl, rfl⟩ := (encodeLine_iff md cr sz tx.enc e m line).mp he
    simp only [he] at h
    refine ⟨hok, ?_⟩
    cases hauth : md.auth <;> cases henc : md.enc <;> cases hs : tx.ivSent <;>
      simp [hauth, henc, hs] at h <;> obtain ⟨rfl, rfl⟩ := h <;>
      simp [ivPre, frame2, tagOf2, hauth, henc]

/-- a closed link (select class): `Send` returns false and writes nothing -/
theorem closed_link_silent_select (md : Mode) (cr : Crypto) (iv : Bytes) (tx : Tx2) (m : Int) (est : Nat)
    (h : tx.isOpen = false) : send2 md cr iv tx m est = none := by
  unfold send2; simp [h]

/-- `Send` after `Send` on a link that takes everything (select class) -/
def sendAll2 (md : Mode) (cr : Crypto) (iv : Bytes) (sz : Int → Nat) : Tx2 → List Int → Option (Tx2 × Bytes)
  | tx, [] => some (tx, [])
  | tx, m :: ms =>
    match send2 md cr iv tx m (sz (tmpOf md m)) with
    | none => none
    | some (tx1, w) =>
      match sendAll2 md cr iv sz tx1 ms with
      | none => none
      | some (tx2, ws) => some (tx2, w ++ ws)

theorem sendAll2_spec (md : Mode) (cr : Crypto) (iv : Bytes) (sz : Int → Nat) :
    ∀ (msgs : List Int) (tx tx' : Tx2) (wire : Bytes), sendAll2 md cr iv sz tx msgs = some (tx', wire) →
      OkSeq md sz tx.enc msgs ∧
      wire = (if md.enc = true ∧ tx.ivSent = false ∧ msgs ≠ [] then iv else []) ++
        frames2 md cr sz tx.sqn tx.enc msgs := by
  intro msgs
  induction msgs with
  | nil =>
    intro tx tx' wire h
    simp only [sendAll2, Option.some.injEq, Prod.mk.injEq] at h
    simp [frames2, OkSeq, h.2.symm]
  | cons m ms ih =>
    intro tx tx' wire h
    rw [sendAll2] at h
    cases hs : send2 md cr iv tx m (sz (tmpOf md m)) with
    | none => simp [hs] at h
    | some r =>
      obtain ⟨tx1, w⟩ := r
      simp only [hs] at h
      cases hs2 : sendAll2 md cr iv sz tx1 ms with
      | none => simp [hs2] at h
      | some r2 =>
        obtain ⟨tx2, ws⟩ := r2
        simp only [hs2, Option.some.injEq, Prod.mk.injEq] at h
        obtain ⟨-, rfl⟩ := h
        obtain ⟨hok, hw, hsq, hen, hivs, -⟩ := send2_spec md cr iv sz tx tx1 m w hs
        obtain ⟨hoks, hws⟩ := ih tx1 tx2 ws hs2
        refine ⟨⟨hok, hen ▸ hoks⟩, ?_⟩
        have hpre : (if md.enc = true ∧ tx1.ivSent = false ∧ ms ≠ [] then iv else []) = [] := by
          rw [if_neg]
          rintro ⟨he, hf, -⟩
          rw [hivs he] at hf
          exact absurd hf (by simp)
        rw [hws, hpre, hw, hsq, hen]
        simp [frames2, ivPre]

/-- **chunked_roundtrip** (and every other mode of the select class): what `Send` after `Send` writes
    is delivered in order under every schedule -/
theorem select_roundtrip_prefix (md : Mode) (hmd : ModeOk md) (cr : Crypto) (hcr : CrOk md cr) (sz : Int → Nat)
    (hsz : SzOk sz) (iv : Bytes) (hiv : iv.length = md.blklen) (n : Nat) (hn : 1 ≤ n) (msgs : List Int)
    (tx' : Tx2) (wire : Bytes) (hsend : sendAll2 md cr iv sz {} msgs = some (tx', wire)) (ops : List Op) :
    (run2 md cr n { wire := wire } ops).delivered <+: msgs ∧ (run2 md cr n { wire := wire } ops).failures = 0 := by
  obtain ⟨hok, hw⟩ := sendAll2_spec md cr iv sz msgs {} tx' wire hsend
  have : wire = wireOf md cr sz iv msgs := by rw [hw]; simp [wireOf]
  rw [this]
  exact link_prefix md hmd cr hcr sz hsz iv hiv n hn msgs hok ops

theorem select_roundtrip_complete (md : Mode) (hmd : ModeOk md) (cr : Crypto) (hcr : CrOk md cr) (sz : Int → Nat)
    (hsz : SzOk sz) (iv : Bytes) (hiv : iv.length = md.blklen) (n : Nat) (hn : 1 ≤ n) (msgs : List Int)
    (tx' : Tx2) (wire : Bytes) (hsend : sendAll2 md cr iv sz {} msgs = some (tx', wire)) (ops : List Op) :
    ∃ N, ∀ k, N ≤ k →
      (run2 md cr n { wire := wire } (ops ++ [Op.push wire.length] ++ List.replicate k Op.recv)).delivered = msgs := by
  obtain ⟨hok, hw⟩ := sendAll2_spec md cr iv sz msgs {} tx' wire hsend
  have : wire = wireOf md cr sz iv msgs := by rw [hw]; simp [wireOf]
  rw [this]
  exact link_complete md hmd cr hcr sz hsz iv hiv n hn msgs hok ops

/-! ### the non-blocking sender on a bounded queue -/

theorem Link.write_spec (l l1 : Link) (d : Bytes) (k1 : Nat) (h : l.write d = (l1, k1)) :
    k1 ≤ d.length ∧ l1.out = l.out ++ d.take k1 ∧ l1.cap = l.cap := by
  unfold Link.write at h
  simp only [Prod.mk.injEq] at h
  obtain ⟨rfl, rfl⟩ := h
  exact ⟨Nat.min_le_left _ _, rfl, rfl⟩

/-- a write loop puts a prefix of its data on the link, in order, and nothing else; the rest is what it
    reports as not written -/
theorem writeLoop_spec : ∀ (f : Nat) (l : Link) (ds : List Nat) (d : Bytes),
    ∃ k, k ≤ d.length ∧ (writeLoop f l ds d).1.out = l.out ++ d.take k ∧
      (writeLoop f l ds d).2.2 = d.drop k ∧ (writeLoop f l ds d).1.cap = l.cap := by
  intro f
  induction f with
  | zero => intro l ds d; exact ⟨0, by omega, by simp [writeLoop], by simp [writeLoop], rfl⟩
  | succ f ih =>
    intro l ds d
    rw [writeLoop]
    cases hw : l.write d with
    | mk l1 k1 =>
      obtain ⟨hk, hout, hcap⟩ := Link.write_spec l l1 d k1 hw
      simp only []
      by_cases hemp : (d.drop k1).isEmpty = true
      · simp only [if_pos hemp]
        refine ⟨k1, hk, hout, ?_, hcap⟩
        simpa using hemp
      · simp only [if_neg hemp]
        by_cases hk0 : k1 = 0
        · simp only [if_pos hk0]
          subst hk0
          obtain ⟨k, h1, h2, h3, h4⟩ := ih (l1.drain (ds.headD 0)) ds.tail (d.drop 0)
          refine ⟨k, by simpa using h1, ?_, by simpa using h3, by rw [h4]; exact hcap⟩
          rw [h2]
          show l1.out ++ _ = _
          rw [hout]; simp
        · simp only [if_neg hk0]
          obtain ⟨k, h1, h2, h3, h4⟩ := ih l1 ds (d.drop k1)
          refine ⟨k1 + k, ?_, ?_, ?_, by rw [h4, hcap]⟩
          · simp only [List.length_drop] at h1; omega
          · rw [h2, hout, List.take_add, List.append_assoc]
          · rw [h3, List.drop_drop]

theorem writeLoop_done (f : Nat) (l : Link) (ds : List Nat) (d : Bytes)
    (h : (writeLoop f l ds d).2.2.isEmpty = true) : (writeLoop f l ds d).1.out = l.out ++ d := by
  obtain ⟨k, h1, h2, h3, -⟩ := writeLoop_spec f l ds d
  rw [h3] at h
  have : d.length ≤ k := by simpa using h
  rw [h2, List.take_of_length_le this]

theorem writeLoop_partial (f : Nat) (l : Link) (ds : List Nat) (d : Bytes)
    (h : (writeLoop f l ds d).2.2.isEmpty = false) :
    ∃ k, k < d.length ∧ (writeLoop f l ds d).1.out = l.out ++ d.take k ∧ (writeLoop f l ds d).2.2 = d.drop k := by
  obtain ⟨k, h1, h2, h3, -⟩ := writeLoop_spec f l ds d
  rw [h3] at h
  refine ⟨k, ?_, h2, h3⟩
  by_contra hc
  have : d.drop k = [] := List.drop_eq_nil_of_le (by omega)
  rw [this] at h; simp at h

theorem md_nb_eq (md : Mode) (h : md.cls = .nonblock) : { md with cls := Cls.nonblock } = md := by
  cases md; simp at h; simp [h]

/-- the complete framing of `m` by the non-blocking sender in state `tx`; the tag covers whatever the MAC
    handle still holds from a `Send` that timed out -/
def nbFrame (md : Mode) (cr : Crypto) (sz : Int → Nat) (tx : Tx2) (m : Int) : Bytes :=
  lineOf2 md cr sz tx.enc m ++ 10 ::
    (if md.auth then cr.mac (tx.macAcc ++ (lineOf2 md cr sz tx.enc m ++ [10]) ++ strBytes (str62 ((tx.sqn : Nat) : Int))) else [])

theorem nbFrame_clean (md : Mode) (cr : Crypto) (sz : Int → Nat) (tx : Tx2) (m : Int) (h : tx.macAcc = []) :
    nbFrame md cr sz tx m = frame2 md cr sz tx.sqn tx.enc m := by
  unfold nbFrame frame2 tagOf2
  rw [h]; simp

/-- the tag the non-blocking sender computes in state `tx` for the line of `m` -/
def nbTag (md : Mode) (cr : Crypto) (sz : Int → Nat) (tx : Tx2) (m : Int) : Bytes :=
  cr.mac (tx.macAcc ++ (lineOf2 md cr sz tx.enc m ++ [10]) ++ strBytes (str62 ((tx.sqn : Nat) : Int)))

/-- `nbSend` after the IV stage: line, then tag -/
def nbTail (md : Mode) (cr : Crypto) (fu : Fuel) (tx2 : Tx2) (line : Bytes) (l2 : Link) (ds2 : List Nat) :
    Bool × Tx2 × Link × List Nat :=
  let body := line ++ [10]
  let tx3 : Tx2 := if md.auth then { tx2 with macAcc := tx2.macAcc ++ body } else tx2
  let w := writeLoop (max fu.body 1) l2 ds2 body
  if !w.2.2.isEmpty then
    (false, { tx3 with isOpen := !(decide (w.2.2.length < body.length) || md.enc || md.auth) }, w.1, w.2.1)
  else if md.auth then
    let tag := cr.mac (tx3.macAcc ++ strBytes (str62 ((tx3.sqn : Nat) : Int)))
    let tx4 : Tx2 := { tx3 with macAcc := [] }
    let w2 := writeLoop (max fu.mac 1) w.1 w.2.1 tag
    if !w2.2.2.isEmpty then (false, { tx4 with isOpen := false }, w2.1, w2.2.1)
    else (true, { tx4 with sqn := tx4.sqn + 1 }, w2.1, w2.2.1)
  else (true, tx3, w.1, w.2.1)

theorem nbSend_eq (md : Mode) (hcls : md.cls = .nonblock) (cr : Crypto) (iv : Bytes) (sz : Int → Nat)
    (tx : Tx2) (m : Int) (l : Link) (fu : Fuel) (ds : List Nat) (hok : OkMsg2 md sz tx.enc m)
    (hopen : tx.isOpen = true) :
    nbSend md cr iv tx m (sz (tmpOf md m)) l fu ds =
      (if md.enc = true ∧ tx.ivSent = false then
        let w := writeLoop (max fu.iv 1) l ds iv
        if w.2.2.isEmpty then
          nbTail md cr fu { tx with enc := encNext md tx.enc, ivSent := true, isOpen := true }
            (lineOf2 md cr sz tx.enc m) w.1 w.2.1
        else (false, { tx with enc := encNext md tx.enc, ivSent := false, isOpen := false }, w.1, w.2.1)
      else nbTail md cr fu { tx with enc := encNext md tx.enc } (lineOf2 md cr sz tx.enc m) l ds) := by
  have he := (encodeLine_iff md cr sz tx.enc (encNext md tx.enc) m (lineOf2 md cr sz tx.enc m)).mpr ⟨hok, rfl, rfl⟩
  unfold nbSend
  rw [md_nb_eq md hcls, he]
  simp only [hopen, Bool.not_true, Bool.false_eq_true, if_false]
  by_cases hc : md.enc = true ∧ tx.ivSent = false
  · have hc' : md.enc = true ∧ (!tx.ivSent) = true := by simp [hc.1, hc.2]
    rw [if_pos hc, if_pos hc']
    simp only []
    cases hrem : (writeLoop (max fu.iv 1) l ds iv).2.2.isEmpty
    · simp
    · simp only [Bool.not_true, Bool.false_eq_true, if_false, if_true]
      rfl
  · have hc' : ¬ (md.enc = true ∧ (!tx.ivSent) = true) := by
      intro h; apply hc; simpa using h
    rw [if_neg hc, if_neg hc']
    rfl

theorem nbTail_outcome (md : Mode) (cr : Crypto) (fu : Fuel) (tx2 : Tx2) (line : Bytes) (l2 : Link) (ds2 : List Nat) :
    let r := nbTail md cr fu tx2 line l2 ds2
    let body := line ++ [10]
    let tag := cr.mac (tx2.macAcc ++ body ++ strBytes (str62 ((tx2.sqn : Nat) : Int)))
    (∃ k, k < body.length ∧ r.1 = false ∧ r.2.2.1.out = l2.out ++ body.take k ∧
      r.2.1 = { tx2 with macAcc := if md.auth then tx2.macAcc ++ body else tx2.macAcc,
                         isOpen := !(decide (0 < k) || md.enc || md.auth) }) ∨
    (md.auth = true ∧ ∃ k, k < tag.length ∧ r.1 = false ∧ r.2.2.1.out = l2.out ++ body ++ tag.take k ∧
      r.2.1 = { tx2 with macAcc := [], isOpen := false }) ∨
    (r.1 = true ∧ r.2.2.1.out = l2.out ++ body ++ (if md.auth then tag else []) ∧
      r.2.1 = { tx2 with macAcc := if md.auth then [] else tx2.macAcc,
                         sqn := if md.auth then tx2.sqn + 1 else tx2.sqn }) := by
  intro r body tag
  have hr : r = nbTail md cr fu tx2 line l2 ds2 := rfl
  unfold nbTail at hr
  simp only [] at hr
  cases hrem : (writeLoop (max fu.body 1) l2 ds2 (line ++ [10])).2.2.isEmpty
  · -- the line did not get through
    left
    obtain ⟨k, hk, hout, hrest⟩ := writeLoop_partial _ _ _ _ hrem
    simp only [hrem, Bool.not_false, if_true] at hr
    have hdec : decide ((writeLoop (max fu.body 1) l2 ds2 (line ++ [10])).2.2.length < (line ++ [10]).length) =
        decide (0 < k) := by
      rw [hrest]
      apply decide_eq_decide.mpr
      simp only [List.length_drop]; omega
    rw [hdec] at hr
    refine ⟨k, hk, by rw [hr], by rw [hr]; exact hout, ?_⟩
    rw [hr]
    cases md.auth <;> rfl
  · have hout := writeLoop_done _ _ _ _ hrem
    simp only [hrem, Bool.not_true, Bool.false_eq_true, if_false] at hr
    cases hauth : md.auth
    · right; right
      simp only [hauth, Bool.false_eq_true, if_false] at hr
      refine ⟨by rw [hr], by rw [hr]; simpa using hout, by rw [hr]; simp⟩
    · simp only [hauth, if_true] at hr
      split at hr
      · rename_i hc
        right; left
        have hc' : (writeLoop (max fu.mac 1) (writeLoop (max fu.body 1) l2 ds2 (line ++ [10])).1
          (writeLoop (max fu.body 1) l2 ds2 (line ++ [10])).2.1 tag).2.2.isEmpty = false := by
          cases h : (writeLoop (max fu.mac 1) (writeLoop (max fu.body 1) l2 ds2 (line ++ [10])).1
          (writeLoop (max fu.body 1) l2 ds2 (line ++ [10])).2.1 tag).2.2.isEmpty with
          | false => rfl
          | true =>
            exfalso
            change (!(writeLoop (max fu.mac 1) (writeLoop (max fu.body 1) l2 ds2 (line ++ [10])).1
          (writeLoop (max fu.body 1) l2 ds2 (line ++ [10])).2.1 tag).2.2.isEmpty) = true at hc
            rw [h] at hc; simp at hc
        obtain ⟨k, hk, hout2, -⟩ := writeLoop_partial _ _ _ _ hc'
        refine ⟨rfl, k, hk, by rw [hr], ?_, by rw [hr]⟩
        rw [hr]; show (writeLoop _ _ _ tag).1.out = _
        rw [hout2, hout]
      · rename_i hc
        right; right
        have hc' : (writeLoop (max fu.mac 1) (writeLoop (max fu.body 1) l2 ds2 (line ++ [10])).1
          (writeLoop (max fu.body 1) l2 ds2 (line ++ [10])).2.1 tag).2.2.isEmpty = true := by
          cases h : (writeLoop (max fu.mac 1) (writeLoop (max fu.body 1) l2 ds2 (line ++ [10])).1
          (writeLoop (max fu.body 1) l2 ds2 (line ++ [10])).2.1 tag).2.2.isEmpty with
          | true => rfl
          | false =>
            exfalso
            change ¬ ((!(writeLoop (max fu.mac 1) (writeLoop (max fu.body 1) l2 ds2 (line ++ [10])).1
          (writeLoop (max fu.body 1) l2 ds2 (line ++ [10])).2.1 tag).2.2.isEmpty) = true) at hc
            rw [h] at hc; simp at hc
        have hout2 := writeLoop_done _ _ _ _ hc'
        refine ⟨by rw [hr], ?_, by rw [hr]; simp⟩
        rw [hr]; show (writeLoop _ _ _ tag).1.out = _
        rw [hout2, hout]; simp [body]

/-- the four ways a `Send` of an acceptable value on an open link can end -/
theorem nbSend_outcome (md : Mode) (hcls : md.cls = .nonblock) (cr : Crypto) (iv : Bytes) (sz : Int → Nat)
    (tx : Tx2) (m : Int) (l : Link) (fu : Fuel) (ds : List Nat) (hok : OkMsg2 md sz tx.enc m)
    (hopen : tx.isOpen = true) :
    let r := nbSend md cr iv tx m (sz (tmpOf md m)) l fu ds
    let body := lineOf2 md cr sz tx.enc m ++ [10]
    let tag := nbTag md cr sz tx m
    -- time-out while the IV is written: the link is closed
    (md.enc = true ∧ tx.ivSent = false ∧ ∃ k, k < iv.length ∧ r.1 = false ∧ r.2.2.1.out = l.out ++ iv.take k ∧
      r.2.1 = { tx with enc := encNext md tx.enc, isOpen := false }) ∨
    -- time-out while the line is written: closed unless nothing is out of step
    (∃ k, k < body.length ∧ r.1 = false ∧ r.2.2.1.out = l.out ++ ivPre md iv tx.ivSent ++ body.take k ∧
      r.2.1 = { tx with enc := encNext md tx.enc, ivSent := tx.ivSent || md.enc,
                        macAcc := if md.auth then tx.macAcc ++ body else tx.macAcc,
                        isOpen := !(decide (0 < k) || md.enc || md.auth) }) ∨
    -- time-out while the tag is written: closed
    (md.auth = true ∧ ∃ k, k < tag.length ∧ r.1 = false ∧
      r.2.2.1.out = l.out ++ ivPre md iv tx.ivSent ++ body ++ tag.take k ∧
      r.2.1 = { tx with enc := encNext md tx.enc, ivSent := tx.ivSent || md.enc, macAcc := [], isOpen := false }) ∨
    -- everything written
    (r.1 = true ∧ r.2.2.1.out = l.out ++ ivPre md iv tx.ivSent ++ body ++ (if md.auth then tag else []) ∧
      r.2.1 = { tx with enc := encNext md tx.enc, ivSent := tx.ivSent || md.enc,
                        macAcc := if md.auth then [] else tx.macAcc,
                        sqn := if md.auth then tx.sqn + 1 else tx.sqn }) := by
  intro r body tag
  have hr : r = nbSend md cr iv tx m (sz (tmpOf md m)) l fu ds := rfl
  rw [nbSend_eq md hcls cr iv sz tx m l fu ds hok hopen] at hr
  by_cases hc : md.enc = true ∧ tx.ivSent = false
  · rw [if_pos hc] at hr
    simp only [] at hr
    have hpre : ivPre md iv tx.ivSent = iv := by unfold ivPre; rw [if_pos hc]
    cases hrem : (writeLoop (max fu.iv 1) l ds iv).2.2.isEmpty
    · left
      obtain ⟨k, hk, hout, -⟩ := writeLoop_partial _ _ _ _ hrem
      simp only [hrem, Bool.false_eq_true, if_false] at hr
      refine ⟨hc.1, hc.2, k, hk, by rw [hr], by rw [hr]; exact hout, ?_⟩
      rw [hr]; show ({ tx with enc := encNext md tx.enc, ivSent := false, isOpen := false } : Tx2) = _
      rw [← hc.2]
    · right
      have hout := writeLoop_done _ _ _ _ hrem
      simp only [hrem, if_true] at hr
      have ho := nbTail_outcome md cr fu { tx with enc := encNext md tx.enc, ivSent := true, isOpen := true }
        (lineOf2 md cr sz tx.enc m) (writeLoop (max fu.iv 1) l ds iv).1 (writeLoop (max fu.iv 1) l ds iv).2.1
      simp only [] at ho
      rw [← hr, hout] at ho
      have hiv1 : (tx.ivSent || md.enc) = true := by rw [hc.1]; simp
      rcases ho with ⟨k, hk, h1, h2, h3⟩ | ⟨ha, k, hk, h1, h2, h3⟩ | ⟨h1, h2, h3⟩
      · left
        exact ⟨k, hk, h1, by rw [h2, hpre], by rw [h3, hiv1]⟩
      · right; left
        exact ⟨ha, k, hk, h1, by rw [h2, hpre]; rfl, by rw [h3, hiv1]⟩
      · right; right
        exact ⟨h1, by rw [h2, hpre]; rfl, by rw [h3, hiv1, ← hopen]⟩
  · rw [if_neg hc] at hr
    right
    have hpre : ivPre md iv tx.ivSent = [] := by unfold ivPre; rw [if_neg hc]
    have ho := nbTail_outcome md cr fu { tx with enc := encNext md tx.enc } (lineOf2 md cr sz tx.enc m) l ds
    simp only [] at ho
    rw [← hr] at ho
    have hiv1 : (tx.ivSent || md.enc) = tx.ivSent := by
      cases h1 : md.enc <;> cases h2 : tx.ivSent <;> simp_all
    rcases ho with ⟨k, hk, h1, h2, h3⟩ | ⟨ha, k, hk, h1, h2, h3⟩ | ⟨h1, h2, h3⟩
    · left
      exact ⟨k, hk, h1, by rw [h2, hpre, List.append_nil], by rw [h3, hiv1]⟩
    · right; left
      exact ⟨ha, k, hk, h1, by rw [h2, hpre, List.append_nil]; rfl, by rw [h3, hiv1]⟩
    · right; right
      exact ⟨h1, by rw [h2, hpre, List.append_nil]; rfl, by rw [h3, hiv1]⟩

/-- **closed_link_silent**: once the output descriptor is erased, every later `Send` on the link returns
    false, writes nothing and changes nothing -- whatever the value, the clock and the queue -/
theorem closed_link_silent (md : Mode) (cr : Crypto) (iv : Bytes) (tx : Tx2) (m : Int) (est : Nat)
    (l : Link) (fu : Fuel) (ds : List Nat) (h : tx.isOpen = false) :
    nbSend md cr iv tx m est l fu ds = (false, tx, l, ds) := by
  unfold nbSend; simp [h]

/-- a value `Send` refuses (negative on an encrypted link, too long) leaves link and sender untouched -/
theorem nb_send_refused (md : Mode) (hcls : md.cls = .nonblock) (cr : Crypto) (iv : Bytes) (sz : Int → Nat)
    (tx : Tx2) (m : Int) (l : Link) (fu : Fuel) (ds : List Nat) (hno : ¬ OkMsg2 md sz tx.enc m) :
    nbSend md cr iv tx m (sz (tmpOf md m)) l fu ds = (false, tx, l, ds) := by
  cases hop : tx.isOpen
  · exact closed_link_silent md cr iv tx m _ l fu ds hop
  unfold nbSend
  rw [md_nb_eq md hcls]
  simp only [hop, Bool.not_true, Bool.false_eq_true, if_false]
  cases he : encodeLine md cr tx.enc m (sz (tmpOf md m)) with
  | none => rfl
  | some r =>
    obtain ⟨e, line⟩ := r
    exact absurd ((encodeLine_iff md cr sz tx.enc e m line).mp he).1 hno

theorem nbSend_true_ok (md : Mode) (hcls : md.cls = .nonblock) (cr : Crypto) (iv : Bytes) (sz : Int → Nat)
    (tx : Tx2) (m : Int) (l : Link) (fu : Fuel) (ds : List Nat)
    (h : (nbSend md cr iv tx m (sz (tmpOf md m)) l fu ds).1 = true) :
    OkMsg2 md sz tx.enc m ∧ tx.isOpen = true := by
  constructor
  · by_contra hno
    rw [nb_send_refused md hcls cr iv sz tx m l fu ds hno] at h
    simp at h
  · cases hop : tx.isOpen
    · rw [closed_link_silent md cr iv tx m _ l fu ds hop] at h; simp at h
    · rfl

/-- **nb_send_all_or_nothing**: a `Send` that returns true (the link was open, the value acceptable) has
    put exactly the complete framing of the message on the link -- the IV if it was still due, the line, the
    newline, the tag -- whatever the capacity of the queue, the receiver's progress during the sleeps and
    the number of retries; it has advanced cipher position, sequence number and MAC handle by exactly one
    message, and the link stays open -/
theorem nb_send_all_or_nothing (md : Mode) (hcls : md.cls = .nonblock) (cr : Crypto) (iv : Bytes) (sz : Int → Nat)
    (tx : Tx2) (m : Int) (l : Link) (fu : Fuel) (ds : List Nat)
    (h : (nbSend md cr iv tx m (sz (tmpOf md m)) l fu ds).1 = true) :
    OkMsg2 md sz tx.enc m ∧ tx.isOpen = true ∧
    (nbSend md cr iv tx m (sz (tmpOf md m)) l fu ds).2.2.1.out =
      l.out ++ ivPre md iv tx.ivSent ++ nbFrame md cr sz tx m ∧
    (nbSend md cr iv tx m (sz (tmpOf md m)) l fu ds).2.1 =
      { tx with enc := encNext md tx.enc, ivSent := tx.ivSent || md.enc,
                macAcc := if md.auth then [] else tx.macAcc,
                sqn := if md.auth then tx.sqn + 1 else tx.sqn } := by
  obtain ⟨hok, hopen⟩ := nbSend_true_ok md hcls cr iv sz tx m l fu ds h
  refine ⟨hok, hopen, ?_⟩
  have ho := nbSend_outcome md hcls cr iv sz tx m l fu ds hok hopen
  simp only [] at ho
  rcases ho with ⟨-, -, k, -, h1, -⟩ | ⟨k, -, h1, -⟩ | ⟨-, k, -, h1, -⟩ | ⟨-, h2, h3⟩
  · rw [h1] at h; exact absurd h (by simp)
  · rw [h1] at h; exact absurd h (by simp)
  · rw [h1] at h; exact absurd h (by simp)
  · refine ⟨?_, h3⟩
    rw [h2]
    unfold nbFrame nbTag
    cases md.auth <;> simp

/-- **what a timed-out `Send` leaves behind** (repaired library): `Send` on an open link returned false
    although the value was acceptable.  Then a *strict prefix* `p` of the message's framing is on the link --
    possibly empty, possibly ending inside the IV, inside the line or inside the tag -- the sequence number has
    not moved, but the cipher has; AND the link is now closed, unless nothing at all is out of step: plain
    mode (no cipher, no MAC) and not a single byte written. -/
theorem nb_send_timeout (md : Mode) (hcls : md.cls = .nonblock) (cr : Crypto) (iv : Bytes) (sz : Int → Nat)
    (tx : Tx2) (m : Int) (l : Link) (fu : Fuel) (ds : List Nat) (hok : OkMsg2 md sz tx.enc m)
    (hopen : tx.isOpen = true)
    (h : (nbSend md cr iv tx m (sz (tmpOf md m)) l fu ds).1 = false) :
    ∃ p, (nbSend md cr iv tx m (sz (tmpOf md m)) l fu ds).2.2.1.out = l.out ++ p ∧
      p <+: ivPre md iv tx.ivSent ++ nbFrame md cr sz tx m ∧
      p.length < (ivPre md iv tx.ivSent ++ nbFrame md cr sz tx m).length ∧
      (nbSend md cr iv tx m (sz (tmpOf md m)) l fu ds).2.1.sqn = tx.sqn ∧
      (nbSend md cr iv tx m (sz (tmpOf md m)) l fu ds).2.1.enc = encNext md tx.enc ∧
      ((nbSend md cr iv tx m (sz (tmpOf md m)) l fu ds).2.1.isOpen = true ↔
        (md.enc = false ∧ md.auth = false ∧ p = [])) ∧
      ((nbSend md cr iv tx m (sz (tmpOf md m)) l fu ds).2.1.isOpen = true →
        (nbSend md cr iv tx m (sz (tmpOf md m)) l fu ds).2.1 = tx) := by
  have ho := nbSend_outcome md hcls cr iv sz tx m l fu ds hok hopen
  simp only [] at ho
  have hfr : nbFrame md cr sz tx m = (lineOf2 md cr sz tx.enc m ++ [10]) ++ (if md.auth then nbTag md cr sz tx m else []) := by
    unfold nbFrame nbTag; cases md.auth <;> simp
  rcases ho with ⟨he, hs, k, hk, -, h2, h3⟩ | ⟨k, hk, -, h2, h3⟩ | ⟨ha, k, hk, -, h2, h3⟩ | ⟨h1, -, -⟩
  · have hpre : ivPre md iv tx.ivSent = iv := by unfold ivPre; rw [if_pos ⟨he, hs⟩]
    refine ⟨iv.take k, h2, ?_, ?_, by rw [h3], by rw [h3], ?_, ?_⟩
    · rw [hpre]; exact (List.take_prefix k iv).trans (List.prefix_append _ _)
    · rw [hpre, List.length_append, List.length_take]; omega
    · rw [h3]; simp [he]
    · rw [h3]; simp
  · refine ⟨ivPre md iv tx.ivSent ++ (lineOf2 md cr sz tx.enc m ++ [10]).take k, by rw [h2, List.append_assoc], ?_, ?_,
      by rw [h3], by rw [h3], ?_, ?_⟩
    · rw [hfr, ← List.append_assoc]
      exact (List.prefix_append_right_inj _).mpr (List.take_prefix _ _) |>.trans (List.prefix_append _ _)
    · rw [hfr, List.length_append, List.length_append, List.length_append, List.length_take]; omega
    · rw [h3]
      simp only [Bool.not_eq_true', Bool.or_eq_false_iff, decide_eq_false_iff_not, List.append_eq_nil_iff,
        List.take_eq_nil_iff]
      constructor
      · rintro ⟨⟨hk0, he⟩, ha⟩
        refine ⟨he, ha, ?_, Or.inl (by omega)⟩
        unfold ivPre; rw [he]; simp
      · rintro ⟨he, ha, -, hk0⟩
        refine ⟨⟨?_, he⟩, ha⟩
        rcases hk0 with hk0 | hk0
        · omega
        · simp at hk0
    · rw [h3]
      simp only [Bool.not_eq_true', Bool.or_eq_false_iff, decide_eq_false_iff_not]
      rintro ⟨⟨hk0, he⟩, ha⟩
      have hk0' : k = 0 := by omega
      subst hk0'
      have hen : encNext md tx.enc = tx.enc := by unfold encNext; simp [he]
      rw [hen, he, ha]
      cases tx; simp_all
  · refine ⟨ivPre md iv tx.ivSent ++ ((lineOf2 md cr sz tx.enc m ++ [10]) ++ (nbTag md cr sz tx m).take k),
      by rw [h2]; simp only [List.append_assoc], ?_, ?_, by rw [h3], by rw [h3], ?_, ?_⟩
    · rw [hfr, ha, if_pos rfl]
      exact (List.prefix_append_right_inj _).mpr ((List.prefix_append_right_inj _).mpr (List.take_prefix _ _))
    · rw [hfr, ha, if_pos rfl]; simp only [List.length_append, List.length_take]; omega
    · rw [h3]; simp [ha]
    · rw [h3]; simp
  · rw [h1] at h; exact absurd h (by simp)

/-- **a time-out can leave the link in the middle of a message**: an unencrypted link whose queue has room
    for some but not all bytes of the line, a `Send` whose clock allows one attempt (time-out 0): `Send`
    returns false and the first `free` bytes of the line stay on the link.  (Before the repair 531e2c0 the
    link stayed usable in that state -- the finding; now it is closed: `nb_send_mid_message_closes`.) -/
theorem nb_send_mid_message (md : Mode) (hcls : md.cls = .nonblock) (henc : md.enc = false) (cr : Crypto)
    (iv : Bytes) (sz : Int → Nat) (tx : Tx2) (m : Int) (l : Link) (fu : Fuel) (ds : List Nat)
    (hok : OkMsg2 md sz tx.enc m) (hopen : tx.isOpen = true) (hf0 : 0 < l.free)
    (hf1 : l.free ≤ (lineOf2 md cr sz tx.enc m).length) (hfu : fu.body ≤ 1) :
    (nbSend md cr iv tx m (sz (tmpOf md m)) l fu ds).1 = false ∧
    (nbSend md cr iv tx m (sz (tmpOf md m)) l fu ds).2.2.1.out =
      l.out ++ (lineOf2 md cr sz tx.enc m ++ [10]).take l.free := by
  rw [nbSend_eq md hcls cr iv sz tx m l fu ds hok hopen, if_neg (by rw [henc]; simp)]
  unfold nbTail
  simp only []
  have hmax : max fu.body 1 = 1 := by omega
  rw [hmax]
  have hw : writeLoop 1 l ds (lineOf2 md cr sz tx.enc m ++ [10]) =
      ({ l with out := l.out ++ (lineOf2 md cr sz tx.enc m ++ [10]).take l.free }, ds,
        (lineOf2 md cr sz tx.enc m ++ [10]).drop l.free) := by
    have hmin : min (lineOf2 md cr sz tx.enc m ++ [10]).length l.free = l.free := by
      simp only [List.length_append, List.length_cons, List.length_nil]; omega
    have hne : ((lineOf2 md cr sz tx.enc m ++ [10]).drop l.free).isEmpty = false := by
      cases hd : (lineOf2 md cr sz tx.enc m ++ [10]).drop l.free with
      | nil =>
        have := congrArg List.length hd
        simp only [List.length_drop, List.length_append, List.length_cons, List.length_nil] at this
        omega
      | cons a t => rfl
    rw [writeLoop]
    simp only [Link.write, hmin, hne, Bool.false_eq_true, if_false]
    rw [if_neg (by omega), writeLoop]
  rw [hw]
  have hne : ((lineOf2 md cr sz tx.enc m ++ [10]).drop l.free).isEmpty = false := by
    cases hd : (lineOf2 md cr sz tx.enc m ++ [10]).drop l.free with
    | nil =>
      have := congrArg List.length hd
      simp only [List.length_drop, List.length_append, List.length_cons, List.length_nil] at this
      omega
    | cons a t => rfl
  simp [hne]

theorem nb_send_mid_message_closes (md : Mode) (hcls : md.cls = .nonblock) (henc : md.enc = false) (cr : Crypto)
    (iv : Bytes) (sz : Int → Nat) (tx : Tx2) (m : Int) (l : Link) (fu : Fuel) (ds : List Nat)
    (hok : OkMsg2 md sz tx.enc m) (hopen : tx.isOpen = true) (hf0 : 0 < l.free)
    (hf1 : l.free ≤ (lineOf2 md cr sz tx.enc m).length) (hfu : fu.body ≤ 1) :
    (nbSend md cr iv tx m (sz (tmpOf md m)) l fu ds).2.1.isOpen = false := by
  obtain ⟨hr, hout⟩ := nb_send_mid_message md hcls henc cr iv sz tx m l fu ds hok hopen hf0 hf1 hfu
  obtain ⟨p, hout', -, -, -, -, hiff, -⟩ := nb_send_timeout md hcls cr iv sz tx m l fu ds hok hopen hr
  cases hop : (nbSend md cr iv tx m (sz (tmpOf md m)) l fu ds).2.1.isOpen
  · rfl
  · exfalso
    have hp := (hiff.mp hop).2.2
    rw [hout', hp, List.append_nil] at hout
    have := congrArg List.length hout
    simp only [List.length_append, List.length_take, List.length_cons, List.length_nil] at this
    omega

/-- The defect before the repair 531e2c0, kept as documentation of the finding: what the receiver of an
    unauthenticated plain link makes of such a fragment `p` followed by the complete line of a later message --
    one value, read from the concatenated digits.  With the repaired sender this stream can no longer arise:
    after a fragment the link is closed and nothing follows (`nb_send_timeout`, `closed_link_silent`,
    `nb_accepted_prefix`). -/
theorem timeout_splice (md : Mode) (hauth : md.auth = false) (henc : md.enc = false) (cr : Crypto) (rx : Rx2)
    (p l2 more : Bytes) (hp : 10 ∉ p) (hl : 10 ∉ l2) (hbuf : rx.buf = p ++ l2 ++ 10 :: more) :
    (parse2 md cr rx).2 =
      match parse62 (bytesStr (p ++ l2)) with
      | some v => .delivered v
      | none => .failed := by
  have hidx : List.idxOf? 10 rx.buf = some (p ++ l2).length := by
    rw [hbuf]; exact idxOf_sep 10 (p ++ l2) more (by simp [hp, hl])
  have htake : List.take (p ++ l2).length rx.buf = p ++ l2 := by
    rw [hbuf]; exact List.take_left' rfl
  unfold parse2
  simp only [hidx, hauth, Bool.false_eq_true, if_false, Nat.not_lt_zero, Bool.not_false, Bool.true_or,
    Bool.not_true, htake]
  unfold decodeLine
  simp only [henc, Bool.not_false, if_true]
  cases parse62 (bytesStr (p ++ l2)) <;> rfl

/-- `Send` after `Send` by the non-blocking class, every one returning true; each call has its own clock
    budgets and its own schedule of receiver progress -/
def nbSendAll (md : Mode) (cr : Crypto) (iv : Bytes) (sz : Int → Nat) :
    Tx2 → Link → List (Int × Fuel × List Nat) → Option (Tx2 × Link)
  | tx, l, [] => some (tx, l)
  | tx, l, (m, fu, ds) :: rest =>
    match nbSend md cr iv tx m (sz (tmpOf md m)) l fu ds with
    | (true, tx', l', _) => nbSendAll md cr iv sz tx' l' rest
    | (false, _, _, _) => none

theorem nbSendAll_spec (md : Mode) (hcls : md.cls = .nonblock) (cr : Crypto) (iv : Bytes) (sz : Int → Nat) :
    ∀ (sends : List (Int × Fuel × List Nat)) (tx tx' : Tx2) (l l' : Link),
      nbSendAll md cr iv sz tx l sends = some (tx', l') → tx.macAcc = [] →
      OkSeq md sz tx.enc (sends.map (·.1)) ∧
      l'.out = l.out ++ ((if md.enc = true ∧ tx.ivSent = false ∧ sends.map (·.1) ≠ [] then iv else []) ++
        frames2 md cr sz tx.sqn tx.enc (sends.map (·.1))) := by
  intro sends
  induction sends with
  | nil =>
    intro tx tx' l l' h _
    simp only [nbSendAll, Option.some.injEq, Prod.mk.injEq] at h
    simp [frames2, OkSeq, h.2.symm]
  | cons s rest ih =>
    intro tx tx' l l' h hclean
    obtain ⟨m, fu, ds⟩ := s
    rw [nbSendAll] at h
    cases hr : (nbSend md cr iv tx m (sz (tmpOf md m)) l fu ds).1
    · -- a failing Send ends the run
      exfalso
      revert h
      generalize hg : nbSend md cr iv tx m (sz (tmpOf md m)) l fu ds = g at hr
      obtain ⟨b, t, ll, dd⟩ := g
      simp only at hr
      subst hr
      simp
    · obtain ⟨hok, -, hout, htx⟩ := nb_send_all_or_nothing md hcls cr iv sz tx m l fu ds hr
      revert h
      generalize hg : nbSend md cr iv tx m (sz (tmpOf md m)) l fu ds = g at hr hout htx
      obtain ⟨b, t, ll, dd⟩ := g
      simp only at hr hout htx
      subst hr
      intro h
      simp only at h
      have hcl : t.macAcc = [] := by rw [htx]; simp only []; split <;> simp [hclean]
      obtain ⟨hoks, houts⟩ := ih t tx' ll l' h hcl
      have hte : t.enc = encNext md tx.enc := by rw [htx]
      have hts : t.sqn = (if md.auth then tx.sqn + 1 else tx.sqn) := by rw [htx]
      have hti : md.enc = true → t.ivSent = true := by intro he; rw [htx]; simp [he]
      refine ⟨⟨hok, hte ▸ hoks⟩, ?_⟩
      have hpre : (if md.enc = true ∧ t.ivSent = false ∧ List.map (·.1) rest ≠ [] then iv else []) = [] := by
        rw [if_neg]
        rintro ⟨he, hf, -⟩
        rw [hti he] at hf
        exact absurd hf (by simp)
      rw [houts, hpre, hout, nbFrame_clean md cr sz tx m hclean, hte, hts]
      simp [frames2, ivPre]

/-- **nb_recv_fragmentation_invariant**: the non-blocking class, sender and receiver together.  The sender
    works on a queue of any capacity, each `Send` retrying as long as its clock allows while the receiver
    drains the queue at any pace; if every `Send` returned true, then however the bytes that went through
    the queue are fragmented on their way and however the `Receive` calls interleave with their arrival,
    the receiver delivers a prefix of the sent sequence, no call fails, and once everything has arrived
    finitely many calls deliver all of it. -/
theorem nb_recv_fragmentation_invariant (md : Mode) (hmd : ModeOk md) (hcls : md.cls = .nonblock) (cr : Crypto)
    (hcr : CrOk md cr) (sz : Int → Nat) (hsz : SzOk sz) (iv : Bytes) (hiv : iv.length = md.blklen)
    (n : Nat) (hn : 1 ≤ n) (sends : List (Int × Fuel × List Nat)) (cap : Nat) (tx' : Tx2) (l' : Link)
    (hsend : nbSendAll md cr iv sz {} { cap := cap } sends = some (tx', l')) (ops : List Op) :
    ((run2 md cr n { wire := l'.out } ops).delivered <+: sends.map (·.1) ∧
      (run2 md cr n { wire := l'.out } ops).failures = 0) ∧
    ∃ N, ∀ k, N ≤ k →
      (run2 md cr n { wire := l'.out } (ops ++ [Op.push l'.out.length] ++ List.replicate k Op.recv)).delivered =
        sends.map (·.1) := by
  obtain ⟨hok, hout⟩ := nbSendAll_spec md hcls cr iv sz sends {} tx' { cap := cap } l' hsend rfl
  have hw : l'.out = wireOf md cr sz iv (sends.map (·.1)) := by
    rw [hout]; simp [wireOf]
  rw [hw]
  exact ⟨link_prefix md hmd cr hcr sz hsz iv hiv n hn _ hok ops,
    link_complete md hmd cr hcr sz hsz iv hiv n hn _ hok ops⟩

/-! ### a stream that stops short: the receiver in front of an incomplete last frame -/

structure WInvT (md : Mode) (cr : Crypto) (sz : Int → Nat) (iv : Bytes) (msgs : List Int) (tail : Bytes)
    (w : World2) (pending : List Int) : Prop where
  split : msgs = w.delivered ++ pending
  nofail : w.failures = 0
  inv : Inv2 md cr sz iv w.rx (w.pipe ++ (w.wire ++ tail)) pending

theorem runT_inv (md : Mode) (hmd : ModeOk md) (cr : Crypto) (hcr : CrOk md cr) (sz : Int → Nat)
    (hsz : SzOk sz) (iv : Bytes) (hiv : iv.length = md.blklen) (n : Nat) (msgs : List Int) (tail : Bytes) :
    ∀ (ops : List Op) (w : World2) (pending : List Int), WInvT md cr sz iv msgs tail w pending →
      ∃ pending', WInvT md cr sz iv msgs tail (run2 md cr n w ops) pending' := by
  intro ops
  induction ops with
  | nil => intro w pending h; exact ⟨pending, h⟩
  | cons op ops ih =>
    intro w pending h
    show ∃ pending', WInvT md cr sz iv msgs tail (run2 md cr n (step2 md cr n w op) ops) pending'
    cases op with
    | push k =>
      refine ih _ pending ⟨h.split, h.nofail, ?_⟩
      show Inv2 md cr sz iv w.rx ((w.pipe ++ w.wire.take k) ++ (w.wire.drop k ++ tail)) pending
      have : (w.pipe ++ w.wire.take k) ++ (w.wire.drop k ++ tail) = w.pipe ++ (w.wire ++ tail) := by
        rw [List.append_assoc, ← List.append_assoc (w.wire.take k), List.take_append_drop]
      rw [this]; exact h.inv
    | recv =>
      have hspec := receive2_spec md hmd cr hcr sz hsz iv hiv (w.wire ++ tail) pending n w.rx w.pipe h.inv
      have hstep : step2 md cr n w .recv =
          (match (receive2 md cr n w.rx w.pipe).2.2 with
            | .delivered v => { w with rx := (receive2 md cr n w.rx w.pipe).1, pipe := (receive2 md cr n w.rx w.pipe).2.1,
                                       delivered := w.delivered ++ [v] }
            | .failed => { w with rx := (receive2 md cr n w.rx w.pipe).1, pipe := (receive2 md cr n w.rx w.pipe).2.1,
                                  failures := w.failures + 1 }
            | .incomplete => { w with rx := (receive2 md cr n w.rx w.pipe).1, pipe := (receive2 md cr n w.rx w.pipe).2.1 }) := rfl
      rw [hstep]
      generalize receive2 md cr n w.rx w.pipe = r at hspec
      obtain ⟨rx', pipe', res⟩ := r
      rcases hspec with ⟨h1, h2, -, -⟩ | ⟨v, ps, h1, h2, h3, -⟩
      · simp only at h1 h2
        subst h1
        exact ih _ pending ⟨h.split, h.nofail, h2⟩
      · simp only at h1 h2 h3
        subst h1 h2
        refine ih _ ps ⟨?_, h.nofail, h3⟩
        show msgs = (w.delivered ++ [v]) ++ ps
        rw [h.split]; simp

/-- the receiver in front of a stream that stops inside the last frame (`q ++ tail` is the genuine stream of
    `msgs`, only `q` ever arrives): no call fails, a prefix of `msgs` is delivered, and if something is
    missing (`tail ≠ []`) the last message is not among the delivered ones -/
theorem link_prefix_truncated (md : Mode) (hmd : ModeOk md) (cr : Crypto) (hcr : CrOk md cr) (sz : Int → Nat)
    (hsz : SzOk sz) (iv : Bytes) (hiv : iv.length = md.blklen) (n : Nat) (msgs : List Int)
    (hok : OkSeq md sz {} msgs) (q tail : Bytes) (hq : q ++ tail = wireOf md cr sz iv msgs) (ops : List Op) :
    (run2 md cr n { wire := q } ops).failures = 0 ∧ (run2 md cr n { wire := q } ops).delivered <+: msgs ∧
    (tail ≠ [] → (run2 md cr n { wire := q } ops).delivered ≠ msgs) := by
  have h0 : WInvT md cr sz iv msgs tail { wire := q } msgs := by
    have hi := (init2_inv md hmd cr sz iv msgs hok).inv
    refine ⟨by simp, rfl, ?_⟩
    show Inv2 md cr sz iv {} ([] ++ (q ++ tail)) msgs
    rw [hq]; exact hi
  obtain ⟨p, hp⟩ := runT_inv md hmd cr hcr sz hsz iv hiv n msgs tail ops _ msgs h0
  refine ⟨hp.nofail, ⟨p, hp.split.symm⟩, ?_⟩
  intro htail heq
  have hsplit := hp.split
  rw [heq] at hsplit
  have hpn : p = [] := by
    have := congrArg List.length hsplit
    simp only [List.length_append] at this
    exact List.length_eq_zero_iff.mp (by omega)
  have hst := hp.inv.stream
  rw [hpn] at hst
  simp [frames2] at hst
  exact htail hst.2.2.2

/-! ### any sequence of `Send`s, failing ones included (repaired library) -/

/-- `Send` after `Send`, whatever each returns; the third component collects the values whose `Send`
    returned true -/
def nbSendSeq (md : Mode) (cr : Crypto) (iv : Bytes) (sz : Int → Nat) :
    Tx2 → Link → List (Int × Fuel × List Nat) → Tx2 × Link × List Int
  | tx, l, [] => (tx, l, [])
  | tx, l, (m, fu, ds) :: rest =>
    let r := nbSend md cr iv tx m (sz (tmpOf md m)) l fu ds
    let s := nbSendSeq md cr iv sz r.2.1 r.2.2.1 rest
    (s.1, s.2.1, if r.1 then m :: s.2.2 else s.2.2)

/-- the genuine stream of `msgs` from sender state `tx` on -/
def streamFrom (md : Mode) (cr : Crypto) (sz : Int → Nat) (iv : Bytes) (tx : Tx2) (msgs : List Int) : Bytes :=
  (if md.enc = true ∧ tx.ivSent = false ∧ msgs ≠ [] then iv else []) ++ frames2 md cr sz tx.sqn tx.enc msgs

theorem nbSendSeq_closed (md : Mode) (cr : Crypto) (iv : Bytes) (sz : Int → Nat) :
    ∀ (sends : List (Int × Fuel × List Nat)) (tx : Tx2) (l : Link), tx.isOpen = false →
      nbSendSeq md cr iv sz tx l sends = (tx, l, []) := by
  intro sends
  induction sends with
  | nil => intro tx l _; rfl
  | cons s rest ih =>
    intro tx l h
    obtain ⟨m, fu, ds⟩ := s
    rw [nbSendSeq]
    simp only [closed_link_silent md cr iv tx m _ l fu ds h, ih tx l h]
    simp

theorem streamFrom_cons (md : Mode) (cr : Crypto) (sz : Int → Nat) (iv : Bytes) (tx tx1 : Tx2) (m : Int)
    (ms : List Int) (hs : tx1.sqn = (if md.auth then tx.sqn + 1 else tx.sqn)) (he : tx1.enc = encNext md tx.enc)
    (hi : md.enc = true → tx1.ivSent = true) :
    streamFrom md cr sz iv tx (m :: ms) =
      ivPre md iv tx.ivSent ++ frame2 md cr sz tx.sqn tx.enc m ++ streamFrom md cr sz iv tx1 ms := by
  have hpre : (if md.enc = true ∧ tx1.ivSent = false ∧ ms ≠ [] then iv else []) = [] := by
    rw [if_neg]
    rintro ⟨h1, h2, -⟩
    rw [hi h1] at h2
    exact absurd h2 (by simp)
  unfold streamFrom
  rw [hpre, hs, he]
  simp [frames2, ivPre]

theorem nbSendSeq_spec (md : Mode) (hcls : md.cls = .nonblock) (cr : Crypto) (iv : Bytes) (sz : Int → Nat) :
    ∀ (sends : List (Int × Fuel × List Nat)) (tx : Tx2) (l : Link), tx.macAcc = [] →
      OkSeq md sz tx.enc (nbSendSeq md cr iv sz tx l sends).2.2 ∧
      ((nbSendSeq md cr iv sz tx l sends).2.1.out =
          l.out ++ streamFrom md cr sz iv tx (nbSendSeq md cr iv sz tx l sends).2.2 ∨
       ∃ m q, OkSeq md sz tx.enc ((nbSendSeq md cr iv sz tx l sends).2.2 ++ [m]) ∧
          (nbSendSeq md cr iv sz tx l sends).2.1.out = l.out ++ q ∧
          q <+: streamFrom md cr sz iv tx ((nbSendSeq md cr iv sz tx l sends).2.2 ++ [m]) ∧
          q.length < (streamFrom md cr sz iv tx ((nbSendSeq md cr iv sz tx l sends).2.2 ++ [m])).length) := by
  intro sends
  induction sends with
  | nil =>
    intro tx l _
    refine ⟨trivial, Or.inl ?_⟩
    simp [nbSendSeq, streamFrom, frames2]
  | cons s rest ih =>
    intro tx l hclean
    obtain ⟨m, fu, ds⟩ := s
    cases hop : tx.isOpen
    · rw [nbSendSeq_closed md cr iv sz _ tx l hop]
      refine ⟨trivial, Or.inl ?_⟩
      simp [streamFrom, frames2]
    rw [nbSendSeq]
    simp only []
    by_cases hok : OkMsg2 md sz tx.enc m
    · cases hr : (nbSend md cr iv tx m (sz (tmpOf md m)) l fu ds).1
      · -- time-out
        obtain ⟨p, hout, hpre, hlen, -, -, hopen', hsame⟩ :=
          nb_send_timeout md hcls cr iv sz tx m l fu ds hok hop hr
        simp only [Bool.false_eq_true, if_false]
        cases hop1 : (nbSend md cr iv tx m (sz (tmpOf md m)) l fu ds).2.1.isOpen
        · -- the link is closed: nothing more gets out
          rw [nbSendSeq_closed md cr iv sz rest _ _ hop1]
          refine ⟨trivial, Or.inr ⟨m, p, ⟨hok, trivial⟩, hout, ?_, ?_⟩⟩
          · have : streamFrom md cr sz iv tx ([] ++ [m]) = ivPre md iv tx.ivSent ++ nbFrame md cr sz tx m := by
              rw [nbFrame_clean md cr sz tx m hclean]; simp [streamFrom, frames2, ivPre]
            rw [this]; exact hpre
          · have : streamFrom md cr sz iv tx ([] ++ [m]) = ivPre md iv tx.ivSent ++ nbFrame md cr sz tx m := by
              rw [nbFrame_clean md cr sz tx m hclean]; simp [streamFrom, frames2, ivPre]
            rw [this]; exact hlen
        · -- nothing out of step: the sender is where it was
          have hp : p = [] := (hopen'.mp hop1).2.2
          have htx := hsame hop1
          have hl : (nbSend md cr iv tx m (sz (tmpOf md m)) l fu ds).2.2.1.out = l.out := by rw [hout, hp]; simp
          rw [htx]
          have := ih tx (nbSend md cr iv tx m (sz (tmpOf md m)) l fu ds).2.2.1 hclean
          rw [hl] at this
          exact this
      · -- accepted
        obtain ⟨-, -, hout, htx⟩ := nb_send_all_or_nothing md hcls cr iv sz tx m l fu ds hr
        simp only [if_true]
        have hcl : (nbSend md cr iv tx m (sz (tmpOf md m)) l fu ds).2.1.macAcc = [] := by
          rw [htx]; simp only []; split <;> simp [hclean]
        have hte : (nbSend md cr iv tx m (sz (tmpOf md m)) l fu ds).2.1.enc = encNext md tx.enc := by rw [htx]
        have hts : (nbSend md cr iv tx m (sz (tmpOf md m)) l fu ds).2.1.sqn = (if md.auth then tx.sqn + 1 else tx.sqn) := by
          rw [htx]
        have hti : md.enc = true → (nbSend md cr iv tx m (sz (tmpOf md m)) l fu ds).2.1.ivSent = true := by
          intro he; rw [htx]; simp [he]
        obtain ⟨hoks, hdis⟩ := ih _ (nbSend md cr iv tx m (sz (tmpOf md m)) l fu ds).2.2.1 hcl
        rw [hout, nbFrame_clean md cr sz tx m hclean] at hdis
        rw [hte] at hoks
        refine ⟨⟨hok, hoks⟩, ?_⟩
        rcases hdis with h1 | ⟨m', q, ho', h1, h2, h3⟩
        · left
          rw [h1, streamFrom_cons md cr sz iv tx _ m _ hts hte hti]
          simp only [List.append_assoc]
        · right
          refine ⟨m', ivPre md iv tx.ivSent ++ frame2 md cr sz tx.sqn tx.enc m ++ q, ?_, ?_, ?_, ?_⟩
          · rw [hte] at ho'; exact ⟨hok, ho'⟩
          · rw [h1]; simp only [List.append_assoc]
          · rw [List.cons_append, streamFrom_cons md cr sz iv tx _ m _ hts hte hti]
            exact (List.prefix_append_right_inj _).mpr h2
          · rw [List.cons_append, streamFrom_cons md cr sz iv tx _ m _ hts hte hti]
            simp only [List.length_append] at h3 ⊢
            omega
    · -- refused: nothing happens
      rw [nb_send_refused md hcls cr iv sz tx m l fu ds hok]
      simp only [Bool.false_eq_true, if_false]
      exact ih tx l hclean

/-- **time-outs cannot corrupt later values** (repaired library; the property-level statement).  Any
    sequence of `Send`s by the non-blocking class -- any values, acceptable or not; every call with its own
    clock budgets; a queue of any capacity drained at any pace, so that calls may succeed, be refused or time
    out at any point of the IV, the line or the tag -- followed by any fragmentation of what reached the link
    and any interleaving of arrivals and `Receive` calls: the receiver's delivered sequence is a prefix of the
    values whose `Send` returned true, and no `Receive` call fails.  No value that was never sent, none
    altered, none out of order. -/
theorem nb_accepted_prefix (md : Mode) (hmd : ModeOk md) (hcls : md.cls = .nonblock) (cr : Crypto)
    (hcr : CrOk md cr) (sz : Int → Nat) (hsz : SzOk sz) (iv : Bytes) (hiv : iv.length = md.blklen)
    (n : Nat) (hn : 1 ≤ n) (sends : List (Int × Fuel × List Nat)) (cap : Nat) (ops : List Op) :
    (run2 md cr n { wire := (nbSendSeq md cr iv sz {} { cap := cap } sends).2.1.out } ops).delivered <+:
      (nbSendSeq md cr iv sz {} { cap := cap } sends).2.2 ∧
    (run2 md cr n { wire := (nbSendSeq md cr iv sz {} { cap := cap } sends).2.1.out } ops).failures = 0 := by
  obtain ⟨hok, hdis⟩ := nbSendSeq_spec md hcls cr iv sz sends {} { cap := cap } rfl
  have hsw : ∀ ms, streamFrom md cr sz iv {} ms = wireOf md cr sz iv ms := by
    intro ms; simp [streamFrom, wireOf]
  rcases hdis with h1 | ⟨m, q, ho, h1, h2, h3⟩
  · have : (nbSendSeq md cr iv sz {} { cap := cap } sends).2.1.out =
        wireOf md cr sz iv (nbSendSeq md cr iv sz {} { cap := cap } sends).2.2 := by
      rw [h1, hsw]; rfl
    rw [this]
    exact link_prefix md hmd cr hcr sz hsz iv hiv n hn _ hok ops
  · have hq : (nbSendSeq md cr iv sz {} { cap := cap } sends).2.1.out = q := by rw [h1]; rfl
    rw [hq]
    obtain ⟨tail, htail⟩ := h2
    rw [hsw] at htail h3
    have hne : tail ≠ [] := by
      rintro rfl
      rw [List.append_nil] at htail
      rw [htail] at h3; omega
    obtain ⟨hf, hp, hn'⟩ := link_prefix_truncated md hmd cr hcr sz hsz iv hiv n _ ho q tail htail ops
    refine ⟨?_, hf⟩
    rcases List.prefix_concat_iff.mp hp with h | h
    · exact absurd h (hn' hne)
    · exact h

/-! ## chunked mode: what the counter adds, and what authentication guarantees -/

/-- in the chunked mode the line of a message depends on the sender's state only through the chunk
    counter, which travels with it -/
theorem lineOf2_ctr_calls (md : Mode) (hctr : md.ctr = true) (cr : Crypto) (sz : Int → Nat) (e : Enc) (c : Nat) (m : Int) :
    lineOf2 md cr sz { e with calls := c } m = lineOf2 md cr sz e m := by
  unfold lineOf2
  simp [hctr, ctr_enc hctr]

/-- **chunked_roundtrip, one chunk**: a genuine chunk is decoded correctly by a receiver in *any* cipher /
    counter state -- whatever was lost, repeated or re-ordered before it.  On an unauthenticated chunked
    link this is all the protection there is: every intact chunk yields its value, nothing is promised
    about the sequence. -/
theorem chunked_any_state (md : Mode) (hmd : ModeOk md) (hctr : md.ctr = true) (hauth : md.auth = false)
    (cr : Crypto) (hcr : CrOk md cr) (sz : Int → Nat) (hsz : SzOk sz) (rx : Rx2) (e : Enc) (s : Nat) (m : Int)
    (more : Bytes) (hok : OkMsg2 md sz e m) (hbuf : rx.buf = frame2 md cr sz s e m ++ more) :
    ∃ rx', parse2 md cr rx = (rx', .delivered m) ∧ rx'.buf = more ∧
      rx'.chunkIn = ((e.chunkOut + 1 : Nat) : Int) := by
  have hfr : frame2 md cr sz rx.sqn { e with calls := rx.calls } m = frame2 md cr sz s e m := by
    unfold frame2 tagOf2
    rw [lineOf2_ctr_calls md hctr, hauth]
    simp
  obtain ⟨rx', h1, h2, -, -, -, -, h7⟩ :=
    parse2_frame_gen md hmd cr hcr sz hsz rx { e with calls := rx.calls } rfl m more
      (by unfold OkMsg2 at hok ⊢; exact hok) (by rw [hfr]; exact hbuf)
  refine ⟨rx', h1, h2, ?_⟩
  rw [h7, if_pos hctr]
  unfold encNext
  simp [hctr, ctr_enc hctr]

/-- **chunked_integrity** (1), every authenticated mode, the chunked one included: whatever is delivered
    carried a tag that verified for (line, *current sequence number*).  In the chunked mode the line contains
    the chunk counter, so the counter is under the tag as well -- and the sequence number is checked exactly
    as in the stream modes: the counter does not relax the order. -/
theorem delivered_was_tagged2 (md : Mode) (cr : Crypto) (rx rx' : Rx2) (v : Int) (hauth : md.auth = true)
    (h : parse2 md cr rx = (rx', .delivered v)) :
    ∃ nl, rx.buf.idxOf? 10 = some nl ∧
      cr.verify (rx.buf.take nl ++ [10] ++ strBytes (str62 ((rx.sqn : Nat) : Int)))
        ((rx.buf.drop (nl + 1)).take md.maclen) = true ∧ rx'.sqn = rx.sqn + 1 := by
  unfold parse2 at h
  cases hidx : rx.buf.idxOf? 10 with
  | none => simp [hidx] at h
  | some nl =>
    refine ⟨nl, rfl, ?_⟩
    simp only [hidx, hauth, if_true] at h
    split at h
    · simp at h
    · cases hv : cr.verify (List.take nl rx.buf ++ [10] ++ strBytes (str62 ((rx.sqn : Nat) : Int)))
          (List.take md.maclen (List.drop (nl + 1) rx.buf)) with
      | false =>
        simp only [hv, Bool.not_true, Bool.false_or, Bool.not_false, if_true] at h
        split at h <;> simp at h
      | true =>
        refine ⟨rfl, ?_⟩
        simp only [hv, Bool.not_true, Bool.false_or, Bool.false_eq_true, if_false] at h
        have := congrArg (fun r => r.1.sqn) h
        simpa using this.symm

/-- **chunked_integrity** (2): a complete message whose tag does not verify is never delivered; before the
    first good message it is discarded, afterwards the link stops: the message stays at the head of the
    buffer and every further call fails the same way.  Removing, repeating or re-ordering whole messages of
    an authenticated link -- chunked or not -- therefore ends in a prefix of the sent sequence. -/
theorem bad_tag_never_delivered2 (md : Mode) (cr : Crypto) (rx : Rx2) (hauth : md.auth = true)
    (hflag : rx.flag = true) (nl : Nat) (hnl : rx.buf.idxOf? 10 = some nl)
    (hlen : md.maclen ≤ rx.buf.length - nl - 1)
    (hbad : cr.verify (rx.buf.take nl ++ [10] ++ strBytes (str62 ((rx.sqn : Nat) : Int)))
              ((rx.buf.drop (nl + 1)).take md.maclen) = false) :
    (parse2 md cr rx).2 = .failed ∧
    (rx.sqn ≠ 1 → (parse2 md cr rx).1.buf = rx.buf ∧ (parse2 md cr rx).1.flag = true ∧
      (parse2 md cr rx).1.sqn = rx.sqn) ∧
    (rx.sqn = 1 → (parse2 md cr rx).1.buf = rx.buf.drop (nl + 1 + md.maclen) ∧ (parse2 md cr rx).1.sqn = 1) := by
  have hl : ¬ (rx.buf.length - nl - 1 < md.maclen) := by omega
  unfold parse2
  simp only [hnl, hauth, if_true, hl, if_false, hbad]
  by_cases h1 : rx.sqn = 1
  · simp [h1]
  · simp [h1, hflag]

/-! ## several peers behind one object -/

theorem receive2_one (md : Mode) (cr : Crypto) (rx : Rx2) (pipe : Bytes) :
    receive2 md cr 1 rx pipe = round2 md cr rx pipe := by
  rw [receive2]
  generalize round2 md cr rx pipe = r
  obtain ⟨rx1, pipe1, res⟩ := r
  cases res <;> simp [receive2]

theorem randomMod_lt (n : Nat) (hn : 0 < n) (ws rest : List Nat) (v : Nat)
    (h : Rng.randomMod n ws = .ok (some (v, rest))) : v < n := by
  unfold Rng.randomMod at h
  split at h
  · simp at h
  · simp at h
  · simp only [Except.ok.injEq, Option.some.injEq, Prod.mk.injEq] at h
    rw [← h.1]; exact Nat.mod_lt _ hn

theorem pick_lt (n : Nat) (hn : 0 < n) (s : Sched) (cur : Nat) (ws : List Nat) (iDirect : Nat)
    (hcur : cur < n) (hid : iDirect < n) (i cur' : Nat) (ws' : List Nat)
    (h : pick n s cur ws iDirect = some (i, cur', ws')) : i < n ∧ cur' < n := by
  unfold pick at h
  cases s with
  | rr =>
    simp only [Option.some.injEq, Prod.mk.injEq] at h
    obtain ⟨rfl, rfl, -⟩ := h
    refine ⟨hcur, ?_⟩
    split <;> omega
  | direct =>
    simp only [Option.some.injEq, Prod.mk.injEq] at h
    obtain ⟨rfl, rfl, -⟩ := h
    exact ⟨hid, hcur⟩
  | rnd =>
    simp only at h
    split at h
    · rename_i v rest hr
      simp only [Option.some.injEq, Prod.mk.injEq] at h
      obtain ⟨rfl, rfl, -⟩ := h
      exact ⟨randomMod_lt n hn ws rest _ hr, hcur⟩
    · simp at h

/-- every link of the object satisfies the single-link invariant, each with its own key, IV, stream and
    list of pending messages -/
def PeersInv (md : Mode) (crs : Nat → Crypto) (sz : Int → Nat) (ivs : Nat → Bytes) (wires : Nat → Bytes)
    (pend : Nat → List Int) (peers : List Peer) : Prop :=
  ∀ i p, peers[i]? = some p → Inv2 md (crs i) sz (ivs i) p.rx (p.pipe ++ wires i) (pend i)

theorem PeersInv.set {md : Mode} {crs : Nat → Crypto} {sz : Int → Nat} {ivs wires : Nat → Bytes}
    {pend : Nat → List Int} {peers : List Peer} (h : PeersInv md crs sz ivs wires pend peers)
    (i : Nat) (q : Peer) (ps : List Int)
    (hq : Inv2 md (crs i) sz (ivs i) q.rx (q.pipe ++ wires i) ps) :
    PeersInv md crs sz ivs wires (Function.update pend i ps) (peers.set i q) := by
  intro j p hj
  by_cases hij : i = j
  · subst hij
    rw [List.getElem?_set] at hj
    simp only [if_true] at hj
    split at hj
    · simp only [Option.some.injEq] at hj
      subst hj
      rw [Function.update_self]; exact hq
    · simp at hj
  · rw [List.getElem?_set_ne hij] at hj
    rw [Function.update_of_ne (Ne.symm hij)]
    exact h j p hj

/-- a `Receive` call on the object: the links keep their invariants; a delivered value is the next pending
    message of exactly the link named in `i_out`; no call fails -/
theorem recvN_spec (md : Mode) (hmd : ModeOk md) (crs : Nat → Crypto) (hcrs : ∀ i, CrOk md (crs i))
    (sz : Int → Nat) (hsz : SzOk sz) (ivs : Nat → Bytes) (hivs : ∀ i, (ivs i).length = md.blklen)
    (wires : Nat → Bytes) (n : Nat) (hn : 0 < n) (s : Sched) (iDirect : Nat) (hid : iDirect < n) :
    ∀ (rounds : Nat) (nd : Node) (ws : List Nat) (pend : Nat → List Int),
      nd.peers.length = n → nd.cur < n → PeersInv md crs sz ivs wires pend nd.peers →
      (recvN md crs n s iDirect rounds nd ws).1.peers.length = n ∧
      (recvN md crs n s iDirect rounds nd ws).1.cur < n ∧
      (((recvN md crs n s iDirect rounds nd ws).2.2.res = .incomplete ∧
          PeersInv md crs sz ivs wires pend (recvN md crs n s iDirect rounds nd ws).1.peers) ∨
       (∃ v ps, (recvN md crs n s iDirect rounds nd ws).2.2.res = .delivered v ∧
          (recvN md crs n s iDirect rounds nd ws).2.2.iOut < n ∧
          pend (recvN md crs n s iDirect rounds nd ws).2.2.iOut = v :: ps ∧
          PeersInv md crs sz ivs wires
            (Function.update pend (recvN md crs n s iDirect rounds nd ws).2.2.iOut ps)
            (recvN md crs n s iDirect rounds nd ws).1.peers)) := by
  intro rounds
  induction rounds with
  | zero =>
    intro nd ws pend hl hc hI
    exact ⟨hl, hc, Or.inl ⟨rfl, hI⟩⟩
  | succ k ih =>
    intro nd ws pend hl hc hI
    rw [recvN]
    cases hp : pick n s nd.cur ws iDirect with
    | none => exact ⟨hl, hc, Or.inl ⟨rfl, hI⟩⟩
    | some r =>
      obtain ⟨i, cur', ws'⟩ := r
      obtain ⟨hi, hc'⟩ := pick_lt n hn s nd.cur ws iDirect hc hid i cur' ws' hp
      have hil : i < nd.peers.length := by omega
      have hget : nd.peers[i]? = some nd.peers[i] := List.getElem?_eq_getElem hil
      simp only [hget]
      have hIi := hI i nd.peers[i] hget
      have hspec := receive2_spec md hmd (crs i) (hcrs i) sz hsz (ivs i) (hivs i) (wires i) (pend i) 1
        nd.peers[i].rx nd.peers[i].pipe hIi
      rw [receive2_one] at hspec
      generalize round2 md (crs i) nd.peers[i].rx nd.peers[i].pipe = rr at hspec
      obtain ⟨rx1, pipe1, res⟩ := rr
      rcases hspec with ⟨h1, h2, -, -⟩ | ⟨v, ps, h1, h2, h3, -⟩
      · simp only at h1 h2
        subst h1
        simp only []
        have hI1 : PeersInv md crs sz ivs wires pend (nd.peers.set i ⟨rx1, pipe1⟩) := by
          have := hI.set i ⟨rx1, pipe1⟩ (pend i) h2
          rwa [Function.update_eq_self] at this
        exact ih { peers := nd.peers.set i ⟨rx1, pipe1⟩, cur := cur' } ws' pend
          (by simp [hl]) hc' hI1
      · simp only at h1 h2 h3
        subst h1
        simp only []
        refine ⟨by simp [hl], hc', Or.inr ⟨v, ps, rfl, hi, h2, ?_⟩⟩
        exact hI.set i ⟨rx1, pipe1⟩ ps h3

/-- the environment of an `n`-party object: bytes of link `i` arrive, or the application calls `Receive`
    with one of the three schedulers -/
inductive MOp where
  | push (i k : Nat)
  | recv (s : Sched) (iDirect : Nat)
  deriving Repr

structure MWorld where
  node : Node
  wires : Nat → Bytes              -- per link: sent, not yet arrived
  words : List Nat := []           -- coins of the random scheduler
  log : List (Nat × Int) := []     -- (i_out, value) of the successful calls, in order
  failures : Nat := 0

def mstep (md : Mode) (crs : Nat → Crypto) (n : Nat) (w : MWorld) : MOp → MWorld
  | .push i k =>
    match w.node.peers[i]? with
    | none => w
    | some p =>
      { w with node := { w.node with peers := w.node.peers.set i { p with pipe := p.pipe ++ (w.wires i).take k } },
               wires := Function.update w.wires i ((w.wires i).drop k) }
  | .recv s iDirect =>
    let r := recvN md crs n s (iDirect % n) n w.node w.words
    match r.2.2.res with
    | .delivered v => { w with node := r.1, words := r.2.1, log := w.log ++ [(r.2.2.iOut, v)] }
    | .failed => { w with node := r.1, words := r.2.1, failures := w.failures + 1 }
    | .incomplete => { w with node := r.1, words := r.2.1 }

def mrun (md : Mode) (crs : Nat → Crypto) (n : Nat) (w : MWorld) (ops : List MOp) : MWorld :=
  ops.foldl (mstep md crs n) w

/-- the values attributed to peer `i`, in the order of their delivery -/
def fromPeer (log : List (Nat × Int)) (i : Nat) : List Int := (log.filter (fun e => e.1 == i)).map (·.2)

structure MInv (md : Mode) (crs : Nat → Crypto) (sz : Int → Nat) (ivs : Nat → Bytes) (n : Nat)
    (msgs : Nat → List Int) (w : MWorld) (pend : Nat → List Int) : Prop where
  len : w.node.peers.length = n
  cur : w.node.cur < n
  links : PeersInv md crs sz ivs w.wires pend w.node.peers
  nofail : w.failures = 0
  split : ∀ i, msgs i = fromPeer w.log i ++ pend i
  idx : ∀ e ∈ w.log, e.1 < n

theorem fromPeer_append (log : List (Nat × Int)) (j : Nat) (v : Int) (i : Nat) :
    fromPeer (log ++ [(j, v)]) i = fromPeer log i ++ (if j = i then [v] else []) := by
  unfold fromPeer
  rw [List.filter_append, List.map_append]
  by_cases h : j = i
  · simp [h]
  · simp [h]

theorem mstep_inv (md : Mode) (hmd : ModeOk md) (crs : Nat → Crypto) (hcrs : ∀ i, CrOk md (crs i))
    (sz : Int → Nat) (hsz : SzOk sz) (ivs : Nat → Bytes) (hivs : ∀ i, (ivs i).length = md.blklen)
    (n : Nat) (hn : 0 < n) (msgs : Nat → List Int) (w : MWorld) (pend : Nat → List Int)
    (h : MInv md crs sz ivs n msgs w pend) (op : MOp) :
    ∃ pend', MInv md crs sz ivs n msgs (mstep md crs n w op) pend' := by
  cases op with
  | push i k =>
    simp only [mstep]
    cases hp : w.node.peers[i]? with
    | none => exact ⟨pend, h⟩
    | some p =>
      simp only []
      refine ⟨pend, ⟨by simp [h.len], h.cur, ?_, h.nofail, h.split, h.idx⟩⟩
      intro j q hj
      replace hj : (w.node.peers.set i { p with pipe := p.pipe ++ (w.wires i).take k })[j]? = some q := hj
      by_cases hij : i = j
      · subst hij
        simp only [List.getElem?_set] at hj
        have hil : i < w.node.peers.length := by
          by_contra hc
          rw [List.getElem?_eq_none (by omega)] at hp
          simp at hp
        rw [if_pos hil] at hj
        have hj' := Option.some.inj hj
        subst hj'
        have := h.links i p hp
        show Inv2 md (crs i) sz (ivs i) p.rx ((p.pipe ++ (w.wires i).take k) ++ Function.update w.wires i ((w.wires i).drop k) i) (pend i)
        rw [Function.update_self, List.append_assoc, List.take_append_drop]
        exact this
      · simp only [List.getElem?_set_ne hij] at hj
        have := h.links j q hj
        show Inv2 md (crs j) sz (ivs j) q.rx (q.pipe ++ Function.update w.wires i ((w.wires i).drop k) j) (pend j)
        rw [Function.update_of_ne (Ne.symm hij)]
        exact this
  | recv s iDirect =>
    have hid : iDirect % n < n := Nat.mod_lt _ hn
    obtain ⟨hl, hc, hres⟩ := recvN_spec md hmd crs hcrs sz hsz ivs hivs w.wires n hn s (iDirect % n) hid n
      w.node w.words pend h.len h.cur h.links
    simp only [mstep]
    rcases hres with ⟨h1, h2⟩ | ⟨v, ps, h1, h2, h3, h4⟩
    · rw [h1]
      exact ⟨pend, ⟨hl, hc, h2, h.nofail, h.split, h.idx⟩⟩
    · rw [h1]
      refine ⟨Function.update pend (recvN md crs n s (iDirect % n) n w.node w.words).2.2.iOut ps,
        ⟨hl, hc, h4, h.nofail, ?_, ?_⟩⟩
      · intro i
        show msgs i = fromPeer (w.log ++ [((recvN md crs n s (iDirect % n) n w.node w.words).2.2.iOut, v)]) i ++ _
        rw [fromPeer_append, h.split i]
        by_cases hi : (recvN md crs n s (iDirect % n) n w.node w.words).2.2.iOut = i
        · rw [if_pos hi, ← hi, Function.update_self, h3]; simp
        · rw [if_neg hi, Function.update_of_ne (Ne.symm hi)]; simp
      · intro e he
        show e.1 < n
        have he' : e ∈ w.log ++ [((recvN md crs n s (iDirect % n) n w.node w.words).2.2.iOut, v)] := he
        rcases List.mem_append.mp he' with he | he
        · exact h.idx e he
        · simp only [List.mem_singleton] at he
          rw [he]; exact h2

theorem mrun_inv (md : Mode) (hmd : ModeOk md) (crs : Nat → Crypto) (hcrs : ∀ i, CrOk md (crs i))
    (sz : Int → Nat) (hsz : SzOk sz) (ivs : Nat → Bytes) (hivs : ∀ i, (ivs i).length = md.blklen)
    (n : Nat) (hn : 0 < n) (msgs : Nat → List Int) :
    ∀ (ops : List MOp) (w : MWorld) (pend : Nat → List Int), MInv md crs sz ivs n msgs w pend →
      ∃ pend', MInv md crs sz ivs n msgs (mrun md crs n w ops) pend' := by
  intro ops
  induction ops with
  | nil => intro w pend h; exact ⟨pend, h⟩
  | cons op ops ih =>
    intro w pend h
    obtain ⟨p1, h1⟩ := mstep_inv md hmd crs hcrs sz hsz ivs hivs n hn msgs w pend h op
    exact ih _ p1 h1

/-- **peers_not_mixed**: an `n`-party object whose `n` input links carry what `n` senders wrote, each link
    with its own key and IV.  Under every interleaving of arrivals on the links (any fragmentation) and
    `Receive` calls with any of the three schedulers -- round robin, random (any coins), direct (any index) --
    the values returned with `i_out = i` are, in order, a prefix of what peer `i` sent: nothing is attributed
    to the wrong peer, nothing is re-ordered within a peer, nothing is delivered twice, and no call fails. -/
theorem peers_not_mixed (md : Mode) (hmd : ModeOk md) (crs : Nat → Crypto) (hcrs : ∀ i, CrOk md (crs i))
    (sz : Int → Nat) (hsz : SzOk sz) (ivs : Nat → Bytes) (hivs : ∀ i, (ivs i).length = md.blklen)
    (n : Nat) (hn : 0 < n) (msgs : Nat → List Int) (hok : ∀ i, OkSeq md sz {} (msgs i))
    (words : List Nat) (ops : List MOp) :
    let w := mrun md crs n
      { node := { peers := List.replicate n {} }, wires := fun i => wireOf md (crs i) sz (ivs i) (msgs i), words := words } ops
    (∀ i, fromPeer w.log i <+: msgs i) ∧ (∀ e ∈ w.log, e.1 < n) ∧ w.failures = 0 := by
  intro w
  have h0 : MInv md crs sz ivs n msgs
      { node := { peers := List.replicate n {} }, wires := fun i => wireOf md (crs i) sz (ivs i) (msgs i), words := words }
      msgs := by
    refine ⟨by simp, hn, ?_, rfl, fun i => by simp [fromPeer], fun e he => by simp at he⟩
    intro i p hp
    have hp' : p = {} := by
      rw [List.getElem?_replicate] at hp
      split at hp
      · simp only [Option.some.injEq] at hp; exact hp.symm
      · simp at hp
    subst hp'
    exact (init2_inv md hmd (crs i) sz (ivs i) (msgs i) (hok i)).inv
  obtain ⟨pend, hI⟩ := mrun_inv md hmd crs hcrs sz hsz ivs hivs n hn msgs ops _ msgs h0
  exact ⟨fun i => ⟨pend i, (hI.split i).symm⟩, hI.idx, hI.nofail⟩

/-! ## integer arrays -/

/-- the single values the arrays `arrs` travel as (with the delimiter after each array in the chunked mode of
    the select class) -/
def encArrs (md : Mode) (arrs : List (List Int)) : List Int := arrs.flatMap (arrItems md)

theorem encArrs_cons (md : Mode) (a : List Int) (more : List (List Int)) :
    encArrs md (a :: more) = arrItems md a ++ encArrs md more := by
  simp [encArrs]

theorem append_split {α} (q rest x y : List α) (h : q ++ rest = x ++ y) (hl : x.length ≤ q.length) :
    ∃ q2, q = x ++ q2 ∧ q2 ++ rest = y := by
  rcases List.append_eq_append_iff.mp h with ⟨as, h1, h2⟩ | ⟨bs, h1, h2⟩
  · -- x = q ++ as
    have : as = [] := by
      have := congrArg List.length h1
      simp only [List.length_append] at this
      exact List.length_eq_zero_iff.mp (by omega)
    subst this
    exact ⟨[], by simpa using h1.symm, by simpa using h2⟩
  · exact ⟨bs, h1, h2.symm⟩

/-- the array layer's invariant for one sender: the queue followed by the values still to come is the encoding
    of the arrays not yet handed out -- followed by `tl`, the items of an array whose `Send(vector)` failed half
    way (empty when there is none) --, and what was handed out are the first arrays, unchanged -/
def AI (md : Mode) (arrs : List (List Int)) (tl : List Int) (q rest : List Int) (got : List (List Int)) : Prop :=
  q ++ rest = encArrs md (arrs.drop got.length) ++ tl ∧ got = arrs.take got.length

/-- the size the caller asks for is the size of the next array of this sender; if it has none left, the size
    asked for is more than what a failed `Send(vector)` may have left behind (`tl = []`: a non-empty array is
    asked for, or the mode has delimiters) -/
def Fit (md : Mode) (k : Nat) (tl : List Int) (todo : List (List Int)) : Prop :=
  match todo with
  | a :: _ => a.length = k
  | [] => tl.length < k + (if md.delim then 1 else 0)

theorem take_succ_of_drop {α} (l : List α) (n : Nat) (a : α) (more : List α) (h : l.drop n = a :: more) :
    l.take (n + 1) = l.take n ++ [a] ∧ l.drop (n + 1) = more := by
  have hlt : n < l.length := by
    by_contra hc
    rw [List.drop_eq_nil_of_le (by omega)] at h; simp at h
  have h1 := List.drop_eq_getElem_cons hlt
  rw [h1] at h
  simp only [List.cons.injEq] at h
  refine ⟨?_, h.2⟩
  rw [List.take_succ_eq_append_getElem hlt, h.1]

/-- the queue test of `Receive(vector)` under the invariant: it either hands out exactly the next array of
    the sender, or leaves the queue alone -- the "out of order" branch is never entered -/
theorem arrCheck_AI (md : Mode) (arrs : List (List Int)) (tl q rest : List Int) (got : List (List Int))
    (m : List Int) (h : AI md arrs tl q rest got) (hfit : Fit md m.length tl (arrs.drop got.length)) :
    ((arrCheck md q m).2.2 = true ∧ AI md arrs tl (arrCheck md q m).1 rest (got ++ [(arrCheck md q m).2.1])) ∨
    ((arrCheck md q m).2.2 = false ∧ (arrCheck md q m).1 = q) := by
  obtain ⟨hq, hg⟩ := h
  unfold arrCheck
  simp only []
  cases hd : arrs.drop got.length with
  | nil =>
    rw [hd] at hq hfit
    have hql : q.length ≤ tl.length := by
      have := congrArg List.length hq
      simp only [encArrs, List.flatMap_nil, List.nil_append, List.length_append] at this
      omega
    simp only [Fit] at hfit
    right
    by_cases hdl : md.delim = true
    · simp only [hdl, if_true] at hfit ⊢
      rw [if_neg (by omega)]; exact ⟨rfl, rfl⟩
    · simp only [hdl, Bool.false_eq_true, if_false] at hfit ⊢
      rw [if_neg (by omega)]; exact ⟨rfl, rfl⟩
  | cons a more =>
    rw [hd] at hq hfit
    simp only [Fit] at hfit
    obtain ⟨ht, hdr⟩ := take_succ_of_drop arrs got.length a more hd
    have hAI : ∀ q2, q2 ++ rest = encArrs md more ++ tl → AI md arrs tl q2 rest (got ++ [a]) := by
      intro q2 h2
      constructor
      · rw [List.length_append, List.length_singleton, hdr]; exact h2
      · rw [List.length_append, List.length_singleton, ht, ← hg]
    rw [encArrs_cons, List.append_assoc] at hq
    by_cases hdl : md.delim = true
    · simp only [hdl, if_true]
      have hit : arrItems md a = a ++ [arrDelim] := by simp [arrItems, hdl]
      rw [hit] at hq
      by_cases hlen : q.length ≥ m.length + 1
      · obtain ⟨q2, hq2, hrest⟩ := append_split q rest (a ++ [arrDelim]) (encArrs md more ++ tl) hq
          (by simp only [List.length_append, List.length_singleton]; omega)
        left
        rw [if_pos hlen]
        have htake : q.take m.length = a := by
          rw [hq2, ← hfit, List.append_assoc]; exact List.take_left
        have hdrop : q.drop m.length = arrDelim :: q2 := by
          rw [hq2, ← hfit, List.append_assoc]; simp
        simp only [htake, hdrop, List.head?_cons, if_true, List.tail_cons]
        exact ⟨trivial, hAI q2 hrest⟩
      · right
        rw [if_neg hlen]; exact ⟨rfl, rfl⟩
    · simp only [hdl, Bool.false_eq_true, if_false]
      have hit : arrItems md a = a := by simp [arrItems, hdl]
      rw [hit] at hq
      by_cases hlen : q.length ≥ m.length
      · obtain ⟨q2, hq2, hrest⟩ := append_split q rest a (encArrs md more ++ tl) hq (by omega)
        left
        rw [if_pos hlen]
        have htake : q.take m.length = a := by rw [hq2, ← hfit]; exact List.take_left
        have hdrop : q.drop m.length = q2 := by rw [hq2, ← hfit]; exact List.drop_left
        simp only [htake, hdrop]
        exact ⟨trivial, hAI q2 hrest⟩
      · right
        rw [if_neg hlen]; exact ⟨rfl, rfl⟩

theorem AI_feed (md : Mode) (arrs : List (List Int)) (tl q ps : List Int) (v : Int) (got : List (List Int))
    (h : AI md arrs tl q (v :: ps) got) : AI md arrs tl (q ++ [v]) ps got := by
  refine ⟨?_, h.2⟩
  rw [List.append_assoc]; exact h.1

theorem AI_prefix (md : Mode) (arrs : List (List Int)) (tl q rest : List Int) (got : List (List Int))
    (h : AI md arrs tl q rest got) : got <+: arrs := by
  rw [h.2]; exact List.take_prefix _ _

/-- the array layer on its own, over ANY behaviour of the links underneath that hands each sender's values
    up in sending order (which is what an untampered link does -- `link_prefix` -- and what an authenticated
    link does under tampering, up to a MAC forgery -- `chunked_integrity`): a state is the queues, the values
    still to come and the arrays handed out; a step is a queue test for some sender and size (`check`), one
    more value of some sender arriving in its queue (`feed`), or nothing (a call that found nothing, a link
    that failed and stopped) -/
inductive AReach (md : Mode) (arrs : Nat → List (List Int)) (tls : Nat → List Int) :
    (Nat → List Int) → (Nat → List Int) → (Nat → List (List Int)) → Prop where
  | init : AReach md arrs tls (fun _ => []) (fun i => encArrs md (arrs i) ++ tls i) (fun _ => [])
  | feed (qs rest got) (j : Nat) (v : Int) (ps : List Int) : AReach md arrs tls qs rest got → rest j = v :: ps →
      AReach md arrs tls (Function.update qs j (qs j ++ [v])) (Function.update rest j ps) got
  | check (qs rest got) (i : Nat) (m : List Int) : AReach md arrs tls qs rest got →
      Fit md m.length (tls i) ((arrs i).drop (got i).length) →
      AReach md arrs tls (Function.update qs i (arrCheck md (qs i) m).1) rest
        (if (arrCheck md (qs i) m).2.2 then Function.update got i (got i ++ [(arrCheck md (qs i) m).2.1]) else got)

theorem AReach_inv (md : Mode) (arrs : Nat → List (List Int)) (tls : Nat → List Int) (qs rest : Nat → List Int)
    (got : Nat → List (List Int)) (h : AReach md arrs tls qs rest got) :
    ∀ i, AI md (arrs i) (tls i) (qs i) (rest i) (got i) := by
  induction h with
  | init => intro i; exact ⟨by simp, by simp⟩
  | feed qs rest got j v ps _ hr ih =>
    intro i
    by_cases hij : i = j
    · subst hij
      rw [Function.update_self, Function.update_self]
      have := ih i; rw [hr] at this
      exact AI_feed md _ _ _ _ _ _ this
    · rw [Function.update_of_ne hij, Function.update_of_ne hij]; exact ih i
  | check qs rest got j m _ hfit ih =>
    intro i
    by_cases hij : i = j
    · subst hij
      rw [Function.update_self]
      rcases arrCheck_AI md (arrs i) (tls i) (qs i) (rest i) (got i) m (ih i) hfit with ⟨h1, h2⟩ | ⟨h1, h2⟩
      · rw [h1, if_pos rfl, Function.update_self]; exact h2
      · rw [h1, h2]; simpa using ih i
    · rw [Function.update_of_ne hij]
      split
      · rw [Function.update_of_ne hij]; exact ih i
      · exact ih i

/-- **array_prefix_under_tamper**: whatever happens to the wire, as long as the links hand each sender's values
    up in sending order and otherwise stop -- the guarantee of authentication, `chunked_integrity` -- and the
    caller asks for the size of the array it expects next from the sender the scheduler names: the arrays
    returned for sender `i` are a prefix of the arrays sender `i` sent -- complete, unchanged, in order; never a
    partial array, never values of two arrays or two senders in one. -/
theorem array_prefix_under_tamper (md : Mode) (arrs : Nat → List (List Int)) (tls : Nat → List Int)
    (qs rest : Nat → List Int) (got : Nat → List (List Int)) (h : AReach md arrs tls qs rest got) :
    ∀ i, got i <+: arrs i :=
  fun i => AI_prefix md _ _ _ _ _ (AReach_inv md arrs tls qs rest got h i)

/-! ### arrays over the real links -/

structure AWorld where
  an : ANode
  wires : Nat → Bytes
  words : List Nat := []
  got : Nat → List (List Int) := fun _ => []     -- arrays returned with `i_out = i`, in order

/-- `.push i k`: `k` more bytes of link `i` arrive; `.recv s d`: `Receive(vector, i_out, s, 0)` for a vector of
    the size `ksz` the application expects, which may depend on how many arrays it has from each sender -/
def astep (md : Mode) (crs : Nat → Crypto) (n : Nat) (ksz : (Nat → Nat) → Nat) (w : AWorld) : MOp → AWorld
  | .push i k =>
    match w.an.node.peers[i]? with
    | none => w
    | some p =>
      { w with an := { w.an with node := { w.an.node with peers := w.an.node.peers.set i { p with pipe := p.pipe ++ (w.wires i).take k } } },
               wires := Function.update w.wires i ((w.wires i).drop k) }
  | .recv s iDirect =>
    let r := recvArr md crs n s (iDirect % n) w.an w.words (List.replicate (ksz (fun i => (w.got i).length)) 0)
    { w with an := r.1, words := r.2.1,
             got := if r.2.2.ok then Function.update w.got r.2.2.iOut (w.got r.2.2.iOut ++ [r.2.2.m]) else w.got }

def arun (md : Mode) (crs : Nat → Crypto) (n : Nat) (ksz : (Nat → Nat) → Nat) (w : AWorld) (ops : List MOp) : AWorld :=
  ops.foldl (astep md crs n ksz) w

structure AInvW (md : Mode) (crs : Nat → Crypto) (sz : Int → Nat) (ivs : Nat → Bytes) (n : Nat)
    (arrs : Nat → List (List Int)) (tls : Nat → List Int) (w : AWorld) (pend : Nat → List Int) : Prop where
  len : w.an.node.peers.length = n
  qlen : w.an.queues.length = n
  cur : w.an.node.cur < n
  bcur : w.an.bcur < n
  links : PeersInv md crs sz ivs w.wires pend w.an.node.peers
  arr : ∀ i q, w.an.queues[i]? = some q → AI md (arrs i) (tls i) q (pend i) (w.got i)
  out : ∀ i, n ≤ i → w.got i = []

theorem set_self {α} (l : List α) (i : Nat) (x : α) (h : l[i]? = some x) : l.set i x = l := by
  apply List.ext_getElem?
  intro j
  by_cases hij : i = j
  · subst hij
    rw [List.getElem?_set]
    have hl : i < l.length := by
      by_contra hc; rw [List.getElem?_eq_none (by omega)] at h; simp at h
    rw [if_pos rfl, if_pos hl, h]
  · rw [List.getElem?_set_ne hij]

theorem astep_inv (md : Mode) (hmd : ModeOk md) (crs : Nat → Crypto) (hcrs : ∀ i, CrOk md (crs i))
    (sz : Int → Nat) (hsz : SzOk sz) (ivs : Nat → Bytes) (hivs : ∀ i, (ivs i).length = md.blklen)
    (n : Nat) (hn : 0 < n) (arrs : Nat → List (List Int)) (tls : Nat → List Int) (ksz : (Nat → Nat) → Nat)
    (hfit : ∀ c : Nat → Nat, ∀ i, i < n → Fit md (ksz c) (tls i) ((arrs i).drop (c i)))
    (w : AWorld) (pend : Nat → List Int) (h : AInvW md crs sz ivs n arrs tls w pend) (op : MOp) :
    ∃ pend', AInvW md crs sz ivs n arrs tls (astep md crs n ksz w op) pend' := by
  cases op with
  | push i k =>
    simp only [astep]
    cases hp : w.an.node.peers[i]? with
    | none => exact ⟨pend, h⟩
    | some p =>
      simp only []
      refine ⟨pend, ⟨by simp [h.len], h.qlen, h.cur, h.bcur, ?_, h.arr, h.out⟩⟩
      intro j q hj
      replace hj : (w.an.node.peers.set i { p with pipe := p.pipe ++ (w.wires i).take k })[j]? = some q := hj
      by_cases hij : i = j
      · subst hij
        simp only [List.getElem?_set] at hj
        have hil : i < w.an.node.peers.length := by
          by_contra hc
          rw [List.getElem?_eq_none (by omega)] at hp
          simp at hp
        rw [if_pos hil] at hj
        have hj' := Option.some.inj hj
        subst hj'
        have := h.links i p hp
        show Inv2 md (crs i) sz (ivs i) p.rx ((p.pipe ++ (w.wires i).take k) ++ Function.update w.wires i ((w.wires i).drop k) i) (pend i)
        rw [Function.update_self, List.append_assoc, List.take_append_drop]
        exact this
      · simp only [List.getElem?_set_ne hij] at hj
        have := h.links j q hj
        show Inv2 md (crs j) sz (ivs j) q.rx (q.pipe ++ Function.update w.wires i ((w.wires i).drop k) j) (pend j)
        rw [Function.update_of_ne (Ne.symm hij)]
        exact this
  | recv s iDirect =>
    have hid : iDirect % n < n := Nat.mod_lt _ hn
    simp only [astep]
    set k := ksz (fun i => (w.got i).length) with hk
    set m0 : List Int := List.replicate k 0 with hm0
    have hm0l : m0.length = k := by simp [hm0]
    unfold recvArr
    cases hpk : pick n s w.an.bcur w.words (iDirect % n) with
    | none => exact ⟨pend, ⟨h.len, h.qlen, h.cur, h.bcur, h.links, h.arr, h.out⟩⟩
    | some r =>
      obtain ⟨i, b', ws1⟩ := r
      obtain ⟨hi, hb'⟩ := pick_lt n hn s w.an.bcur w.words (iDirect % n) h.bcur hid i b' ws1 hpk
      have hil : i < w.an.queues.length := by rw [h.qlen]; exact hi
      have hget : w.an.queues[i]? = some w.an.queues[i] := List.getElem?_eq_getElem hil
      simp only [hget]
      have hAI := h.arr i _ hget
      have hf := hfit (fun i => (w.got i).length) i hi
      rw [← hk, ← hm0l] at hf
      rcases arrCheck_AI md (arrs i) (tls i) _ (pend i) (w.got i) m0 hAI hf with ⟨hd, hAI'⟩ | ⟨hd, hq⟩
      · -- the next array of sender i is handed out
        simp only [hd, if_true]
        refine ⟨pend, ⟨h.len, by simp [h.qlen], h.cur, hb', h.links, ?_, ?_⟩⟩
        · intro j q hj
          replace hj : (w.an.queues.set i (arrCheck md w.an.queues[i] m0).1)[j]? = some q := hj
          by_cases hij : i = j
          · subst hij
            rw [List.getElem?_set, if_pos rfl, if_pos hil] at hj
            have := Option.some.inj hj; subst this
            show AI md (arrs i) (tls i) _ (pend i) (Function.update w.got i _ i)
            rw [Function.update_self]; exact hAI'
          · rw [List.getElem?_set_ne hij] at hj
            show AI md (arrs j) (tls j) q (pend j) (Function.update w.got i _ j)
            rw [Function.update_of_ne (Ne.symm hij)]; exact h.arr j q hj
        · intro j hj
          show Function.update w.got i _ j = []
          rw [Function.update_of_ne (by omega)]; exact h.out j hj
      · -- not enough in the queue: one single-value Receive
        simp only [hd, Bool.false_eq_true, if_false, hq]
        rw [set_self _ _ _ hget]
        obtain ⟨hl, hc, hres⟩ := recvN_spec md hmd crs hcrs sz hsz ivs hivs w.wires n hn s (iDirect % n) hid n
          w.an.node ws1 pend h.len h.cur h.links
        rcases hres with ⟨h1, h2⟩ | ⟨v, ps, h1, h2, h3, h4⟩
        · rw [h1]
          exact ⟨pend, ⟨hl, h.qlen, hc, hb', h2, h.arr, h.out⟩⟩
        · rw [h1]
          simp only []
          set j := (recvN md crs n s (iDirect % n) n w.an.node ws1).2.2.iOut with hj
          have hjl : j < w.an.queues.length := by rw [h.qlen]; exact h2
          refine ⟨Function.update pend j ps, ⟨hl, by simp [h.qlen], hc, hb', h4, ?_, h.out⟩⟩
          intro t q ht
          replace ht : (w.an.queues.set j (w.an.queues.getD j [] ++ [v]))[t]? = some q := ht
          by_cases hjt : j = t
          · subst hjt
            rw [List.getElem?_set, if_pos rfl, if_pos hjl] at ht
            have := Option.some.inj ht; subst this
            rw [Function.update_self]
            have hgd : w.an.queues.getD j [] = w.an.queues[j] := by
              rw [List.getD_eq_getElem?_getD, List.getElem?_eq_getElem hjl]; rfl
            rw [hgd]
            have := h.arr j _ (List.getElem?_eq_getElem hjl)
            rw [h3] at this
            exact AI_feed md _ _ _ _ _ _ this
          · rw [List.getElem?_set_ne hjt] at ht
            rw [Function.update_of_ne (Ne.symm hjt)]
            exact h.arr t q ht

theorem arun_inv (md : Mode) (hmd : ModeOk md) (crs : Nat → Crypto) (hcrs : ∀ i, CrOk md (crs i))
    (sz : Int → Nat) (hsz : SzOk sz) (ivs : Nat → Bytes) (hivs : ∀ i, (ivs i).length = md.blklen)
    (n : Nat) (hn : 0 < n) (arrs : Nat → List (List Int)) (tls : Nat → List Int) (ksz : (Nat → Nat) → Nat)
    (hfit : ∀ c : Nat → Nat, ∀ i, i < n → Fit md (ksz c) (tls i) ((arrs i).drop (c i))) :
    ∀ (ops : List MOp) (w : AWorld) (pend : Nat → List Int), AInvW md crs sz ivs n arrs tls w pend →
      ∃ pend', AInvW md crs sz ivs n arrs tls (arun md crs n ksz w ops) pend' := by
  intro ops
  induction ops with
  | nil => intro w pend h; exact ⟨pend, h⟩
  | cons op ops ih =>
    intro w pend h
    obtain ⟨p1, h1⟩ := astep_inv md hmd crs hcrs sz hsz ivs hivs n hn arrs tls ksz hfit w pend h op
    exact ih _ p1 h1

/-- the fresh object whose `n` input links carry the given value streams -/
def aworldOf (n : Nat) (wires : Nat → Bytes) (words : List Nat) : AWorld :=
  { an := { node := { peers := List.replicate n {} }, queues := List.replicate n [] }, wires := wires, words := words }

/-- the general statement: link `i` carries the values of the arrays `arrs i`, possibly followed by the first
    items `tls i` of an array that was not sent completely -/
theorem arrays_prefix_general (md : Mode) (hmd : ModeOk md) (crs : Nat → Crypto) (hcrs : ∀ i, CrOk md (crs i))
    (sz : Int → Nat) (hsz : SzOk sz) (ivs : Nat → Bytes) (hivs : ∀ i, (ivs i).length = md.blklen)
    (n : Nat) (hn : 0 < n) (arrs : Nat → List (List Int)) (tls : Nat → List Int)
    (hok : ∀ i, OkSeq md sz {} (encArrs md (arrs i) ++ tls i))
    (ksz : (Nat → Nat) → Nat) (hfit : ∀ c : Nat → Nat, ∀ i, i < n → Fit md (ksz c) (tls i) ((arrs i).drop (c i)))
    (words : List Nat) (ops : List MOp) :
    ∀ i, (arun md crs n ksz (aworldOf n (fun i => wireOf md (crs i) sz (ivs i) (encArrs md (arrs i) ++ tls i)) words) ops).got i
        <+: arrs i ∧
      (n ≤ i → (arun md crs n ksz (aworldOf n (fun i => wireOf md (crs i) sz (ivs i) (encArrs md (arrs i) ++ tls i)) words) ops).got i = []) := by
  have h0 : AInvW md crs sz ivs n arrs tls
      (aworldOf n (fun i => wireOf md (crs i) sz (ivs i) (encArrs md (arrs i) ++ tls i)) words)
      (fun i => encArrs md (arrs i) ++ tls i) := by
    refine ⟨by simp [aworldOf], by simp [aworldOf], hn, hn, ?_, ?_, fun _ _ => rfl⟩
    · intro i p hp
      have hp' : p = {} := by
        simp only [aworldOf] at hp
        rw [List.getElem?_replicate] at hp
        split at hp
        · simp only [Option.some.injEq] at hp; exact hp.symm
        · simp at hp
      subst hp'
      exact (init2_inv md hmd (crs i) sz (ivs i) _ (hok i)).inv
    · intro i q hq
      have hq' : q = [] := by
        simp only [aworldOf] at hq
        rw [List.getElem?_replicate] at hq
        split at hq
        · simp only [Option.some.injEq] at hq; exact hq.symm
        · simp at hq
      subst hq'
      exact ⟨by simp [aworldOf], by simp [aworldOf]⟩
  obtain ⟨pend, hI⟩ := arun_inv md hmd crs hcrs sz hsz ivs hivs n hn arrs tls ksz hfit ops _ _ h0
  intro i
  refine ⟨?_, hI.out i⟩
  by_cases hi : i < n
  · have hil : i < (arun md crs n ksz (aworldOf n (fun i => wireOf md (crs i) sz (ivs i) (encArrs md (arrs i) ++ tls i)) words) ops).an.queues.length := by
      rw [hI.qlen]; exact hi
    exact AI_prefix md _ _ _ _ _ (hI.arr i _ (List.getElem?_eq_getElem hil))
  · rw [hI.out i (by omega)]; exact List.nil_prefix

/-- the fresh object whose `n` input links carry what `n` senders wrote with `Send(vector)` -/
def aworld0 (md : Mode) (crs : Nat → Crypto) (sz : Int → Nat) (ivs : Nat → Bytes) (n : Nat)
    (arrs : Nat → List (List Int)) (words : List Nat) : AWorld :=
  aworldOf n (fun i => wireOf md (crs i) sz (ivs i) (encArrs md (arrs i))) words

/-- **arrays_peers_not_mixed**: `n` senders, each sending arrays with `Send(vector)` (every value accepted);
    the receiver calls `Receive(vector)` with any of the three schedulers (any coins, any direct index), each
    time for the size it expects (`Fit`: the size of the next array of whichever sender the scheduler names --
    e.g. all arrays of one size), under every fragmentation and interleaving of the arrivals on the `n` links.
    The arrays returned with `i_out = i` are a prefix of the arrays sender `i` sent: complete, unchanged, in
    order, at most once; no value of another array or of another sender in them.  The "out of order" branch of
    the chunked mode is never entered. -/
theorem arrays_peers_not_mixed (md : Mode) (hmd : ModeOk md) (crs : Nat → Crypto) (hcrs : ∀ i, CrOk md (crs i))
    (sz : Int → Nat) (hsz : SzOk sz) (ivs : Nat → Bytes) (hivs : ∀ i, (ivs i).length = md.blklen)
    (n : Nat) (hn : 0 < n) (arrs : Nat → List (List Int)) (hok : ∀ i, OkSeq md sz {} (encArrs md (arrs i)))
    (ksz : (Nat → Nat) → Nat) (hfit : ∀ c : Nat → Nat, ∀ i, i < n → Fit md (ksz c) [] ((arrs i).drop (c i)))
    (words : List Nat) (ops : List MOp) :
    ∀ i, (arun md crs n ksz (aworld0 md crs sz ivs n arrs words) ops).got i <+: arrs i ∧
      (n ≤ i → (arun md crs n ksz (aworld0 md crs sz ivs n arrs words) ops).got i = []) := by
  have := arrays_prefix_general md hmd crs hcrs sz hsz ivs hivs n hn arrs (fun _ => [])
    (fun i => by simpa using hok i) ksz hfit words ops
  simpa [aworld0] using this

/-- all arrays of all senders have the common size `k ≥ 1`, that is what the receiver asks for, and what a
    failed `Send(vector)` left behind is less than an array (with its delimiter) -/
theorem fit_uniform (md : Mode) (n k : Nat) (arrs : Nat → List (List Int)) (tls : Nat → List Int)
    (hsize : ∀ i a, a ∈ arrs i → a.length = k)
    (htl : ∀ i, (tls i).length < k + (if md.delim then 1 else 0)) :
    ∀ c : Nat → Nat, ∀ i, i < n → Fit md ((fun _ => k) c) (tls i) ((arrs i).drop (c i)) := by
  intro c i _
  cases hd : (arrs i).drop (c i) with
  | nil => exact htl i
  | cons a more =>
    show a.length = k
    apply hsize i a
    have : a ∈ (arrs i).drop (c i) := by rw [hd]; simp
    exact List.mem_of_mem_drop this

/-- the receiver of one sender asks for the size of the next array it has not yet received (for any size once
    it has them all) -/
def nextSize (arrs0 : List (List Int)) (c : Nat → Nat) : Nat :=
  match arrs0.drop (c 0) with
  | a :: _ => a.length
  | [] => 1

/-- **array_roundtrip**: one sender, any list of arrays of any sizes -- empty ones included: in the stream
    modes an empty array puts nothing on the wire and `Receive` of an empty vector returns true at once without
    looking at anything; in the chunked mode of the select class it travels as a lone delimiter.  Under every
    fragmentation and every interleaving of arrivals and `Receive(vector)` calls (each for the size of the next
    array expected) the arrays returned are a prefix of the arrays sent: each complete and unchanged, in order,
    at most once, no element of one array in another.  (Liveness -- all arrays eventually returned -- is observed
    on the real objects by `prop.aio2.arrays` and proved for single values only, `link_complete`.) -/
theorem array_roundtrip (md : Mode) (hmd : ModeOk md) (cr : Crypto) (hcr : CrOk md cr) (sz : Int → Nat)
    (hsz : SzOk sz) (iv : Bytes) (hiv : iv.length = md.blklen) (arrs0 : List (List Int))
    (hok : OkSeq md sz {} (encArrs md arrs0)) (words : List Nat) (ops : List MOp) :
    (arun md (fun _ => cr) 1 (nextSize arrs0) (aworld0 md (fun _ => cr) sz (fun _ => iv) 1 (fun _ => arrs0) words) ops).got 0
      <+: arrs0 := by
  refine (arrays_peers_not_mixed md hmd (fun _ => cr) (fun _ => hcr) sz hsz (fun _ => iv) (fun _ => hiv) 1
    (by omega) (fun _ => arrs0) (fun _ => hok) (nextSize arrs0) ?_ words ops 0).1
  intro c i hi
  have hi0 : i = 0 := by omega
  subst hi0
  unfold nextSize
  cases hd : arrs0.drop (c 0) with
  | nil => show ([] : List Int).length < 1 + _; simp
  | cons a more => rfl

theorem sendAll2_append (md : Mode) (cr : Crypto) (iv : Bytes) (sz : Int → Nat) :
    ∀ (xs ys : List Int) (tx tx1 tx2 : Tx2) (w1 w2 : Bytes),
      sendAll2 md cr iv sz tx xs = some (tx1, w1) → sendAll2 md cr iv sz tx1 ys = some (tx2, w2) →
      sendAll2 md cr iv sz tx (xs ++ ys) = some (tx2, w1 ++ w2) := by
  intro xs
  induction xs with
  | nil =>
    intro ys tx tx1 tx2 w1 w2 h1 h2
    simp only [sendAll2, Option.some.injEq, Prod.mk.injEq] at h1
    obtain ⟨rfl, rfl⟩ := h1
    simpa using h2
  | cons x xs ih =>
    intro ys tx tx1 tx2 w1 w2 h1 h2
    rw [sendAll2] at h1
    cases hs : send2 md cr iv tx x (sz (tmpOf md x)) with
    | none => simp [hs] at h1
    | some r =>
      obtain ⟨t, w⟩ := r
      simp only [hs] at h1
      cases hs2 : sendAll2 md cr iv sz t xs with
      | none => simp [hs2] at h1
      | some r2 =>
        obtain ⟨t2, ws⟩ := r2
        simp only [hs2, Option.some.injEq, Prod.mk.injEq] at h1
        obtain ⟨rfl, rfl⟩ := h1
        have := ih ys t t2 tx2 ws w2 hs2 h2
        rw [List.cons_append, sendAll2, hs]
        simp only [this, List.append_assoc]

/-- the sender side (select class, library as repaired by a324ab4): a `Send(vector)` that returns true has
    written what the single `Send`s of its items write, nothing else; one that returns false has written the
    frames of the `j` items in front of the refused one -- they stay on the link -- and, if `j > 0` (counting
    from the start of the array), the link is closed -/
theorem sendArrGo_select (md : Mode) (hcls : md.cls = .select) (cr : Crypto) (iv : Bytes) (sz : Int → Nat) :
    ∀ (ms : List Int) (idx : Nat) (tx : Tx2) (acc : Bytes),
      ((sendArrGo md cr iv idx tx ms (ms.map (fun m => sz (tmpOf md m))) acc).1 = true ∧
        ∃ tx' w, sendAll2 md cr iv sz tx ms = some (tx', w) ∧
          sendArrGo md cr iv idx tx ms (ms.map (fun m => sz (tmpOf md m))) acc = (true, tx', acc ++ w)) ∨
      ((sendArrGo md cr iv idx tx ms (ms.map (fun m => sz (tmpOf md m))) acc).1 = false ∧
        ∃ j tx1 w, j < ms.length ∧ sendAll2 md cr iv sz tx (ms.take j) = some (tx1, w) ∧
          sendArrGo md cr iv idx tx ms (ms.map (fun m => sz (tmpOf md m))) acc =
            (false, { tx1 with isOpen := tx1.isOpen && (idx + j == 0) }, acc ++ w)) := by
  intro ms
  induction ms with
  | nil => intro idx tx acc; left; exact ⟨rfl, tx, [], rfl, by simp [sendArrGo]⟩
  | cons m ms ih =>
    intro idx tx acc
    rw [sendArrGo]
    simp only [hcls, beq_self_eq_true, if_true, List.map_cons, List.headD_cons, List.tail_cons]
    cases hs : send2 md cr iv tx m (sz (tmpOf md m)) with
    | none =>
      right
      refine ⟨rfl, 0, tx, [], by simp, rfl, ?_⟩
      simp
    | some r =>
      obtain ⟨tx1, w1⟩ := r
      simp only []
      rcases ih (idx + 1) tx1 (acc ++ w1) with ⟨h1, tx', w, h2, h3⟩ | ⟨h1, j, t1, w, hj, h2, h3⟩
      · left
        refine ⟨h1, tx', w1 ++ w, ?_, ?_⟩
        · rw [sendAll2, hs]; simp only [h2]
        · rw [h3, List.append_assoc]
      · right
        refine ⟨h1, j + 1, t1, w1 ++ w, by simp; omega, ?_, ?_⟩
        · rw [List.take_succ_cons, sendAll2, hs]; simp only [h2]
        · rw [h3, List.append_assoc, show idx + 1 + j = idx + (j + 1) by omega]

/-- `Send(vector)` after `Send(vector)`, whatever each returns: final state, everything written, and the arrays
    whose `Send` returned true -/
def sendArrSeq (md : Mode) (cr : Crypto) (iv : Bytes) (sz : Int → Nat) :
    Tx2 → List (List Int) → Tx2 × Bytes × List (List Int)
  | tx, [] => (tx, [], [])
  | tx, a :: rest =>
    let r := sendArr md cr iv tx a ((arrItems md a).map (fun m => sz (tmpOf md m)))
    let s := sendArrSeq md cr iv sz r.2.1 rest
    (s.1, r.2.2 ++ s.2.1, if r.1 then a :: s.2.2 else s.2.2)

theorem arrItems_length (md : Mode) (a : List Int) :
    (arrItems md a).length = a.length + (if md.delim then 1 else 0) := by
  unfold arrItems; split <;> simp

theorem sendArrSeq_closed (md : Mode) (hcls : md.cls = .select) (cr : Crypto) (iv : Bytes) (sz : Int → Nat) :
    ∀ (atts : List (List Int)) (tx : Tx2), tx.isOpen = false → (∀ a ∈ atts, 1 ≤ a.length) →
      sendArrSeq md cr iv sz tx atts = (tx, [], []) := by
  intro atts
  induction atts with
  | nil => intro tx _ _; rfl
  | cons a rest ih =>
    intro tx h hne
    have ha := hne a (by simp)
    have hitems : ∃ x xs, arrItems md a = x :: xs := by
      cases hi : arrItems md a with
      | nil => have := arrItems_length md a; rw [hi] at this; simp at this; omega
      | cons x xs => exact ⟨x, xs, rfl⟩
    obtain ⟨x, xs, hx⟩ := hitems
    have hsend : sendArr md cr iv tx a ((arrItems md a).map (fun m => sz (tmpOf md m))) = (false, tx, []) := by
      unfold sendArr
      rw [hx, List.map_cons, sendArrGo]
      simp only [hcls, beq_self_eq_true, if_true, List.headD_cons]
      rw [closed_link_silent_select md cr iv tx x _ h]
      simp only [h, Bool.false_and]
      cases tx; simp_all
    rw [sendArrSeq]
    simp only [hsend, ih tx h (fun b hb => hne b (by simp [hb]))]
    simp

theorem sendArrSeq_sub (md : Mode) (cr : Crypto) (iv : Bytes) (sz : Int → Nat) :
    ∀ (atts : List (List Int)) (tx : Tx2), ∀ a ∈ (sendArrSeq md cr iv sz tx atts).2.2, a ∈ atts := by
  intro atts
  induction atts with
  | nil => intro tx a h; simp [sendArrSeq] at h
  | cons b rest ih =>
    intro tx a h
    rw [sendArrSeq] at h
    simp only [] at h
    split at h
    · rcases List.mem_cons.mp h with rfl | h
      · simp
      · exact List.mem_cons_of_mem _ (ih _ a h)
    · exact List.mem_cons_of_mem _ (ih _ a h)

/-- what any sequence of `Send(vector)`s of arrays of a common size `k ≥ 1` leaves on the link: exactly what
    single `Send`s of the values of the accepted arrays write, followed by at most an incomplete array -/
theorem sendArrSeq_spec (md : Mode) (hcls : md.cls = .select) (cr : Crypto) (iv : Bytes) (sz : Int → Nat)
    (k : Nat) (hk : 1 ≤ k) :
    ∀ (atts : List (List Int)) (tx : Tx2), (∀ a ∈ atts, a.length = k) →
      ∃ tl tx1, sendAll2 md cr iv sz tx (encArrs md (sendArrSeq md cr iv sz tx atts).2.2 ++ tl) =
          some (tx1, (sendArrSeq md cr iv sz tx atts).2.1) ∧
        tl.length < k + (if md.delim then 1 else 0) := by
  intro atts
  induction atts with
  | nil =>
    intro tx _
    exact ⟨[], tx, by simp [sendArrSeq, encArrs, sendAll2], by simp only [List.length_nil]; omega⟩
  | cons a rest ih =>
    intro tx hsz
    have hak : a.length = k := hsz a (by simp)
    have hrest : ∀ b ∈ rest, b.length = k := fun b hb => hsz b (by simp [hb])
    rw [sendArrSeq]
    simp only []
    unfold sendArr
    rcases sendArrGo_select md hcls cr iv sz (arrItems md a) 0 tx [] with ⟨h1, tx', w, h2, h3⟩ | ⟨h1, j, t1, w, hj, h2, h3⟩
    · -- accepted
      rw [h3]
      simp only [if_true, List.nil_append]
      obtain ⟨tl, tx1, h4, h5⟩ := ih tx' hrest
      refine ⟨tl, tx1, ?_, h5⟩
      rw [encArrs_cons, List.append_assoc]
      exact sendAll2_append md cr iv sz _ _ tx tx' tx1 w _ h2 h4
    · rw [h3]
      simp only [Bool.false_eq_true, if_false, List.nil_append, Nat.zero_add]
      by_cases hj0 : j = 0
      · -- refused at its first item: nothing written, the link is as it was
        subst hj0
        simp only [List.take_zero, sendAll2, Option.some.injEq, Prod.mk.injEq] at h2
        obtain ⟨rfl, rfl⟩ := h2
        have : ({ tx with isOpen := tx.isOpen && (0 == 0) } : Tx2) = tx := by cases tx; simp
        rw [this]
        obtain ⟨tl, tx1, h4, h5⟩ := ih tx hrest
        exact ⟨tl, tx1, by simpa using h4, h5⟩
      · -- a part of the array is on the link, which is closed now
        have hcl : ({ t1 with isOpen := t1.isOpen && (j == 0) } : Tx2).isOpen = false := by
          simp [hj0]
        rw [sendArrSeq_closed md hcls cr iv sz rest _ hcl (fun b hb => by rw [hrest b hb]; exact hk)]
        refine ⟨(arrItems md a).take j, t1, by simpa [encArrs] using h2, ?_⟩
        rw [List.length_take, ← hak, ← arrItems_length]; omega

/-- **arrays_accepted_prefix** (select class, library as repaired by a324ab4; the array analogue of
    `nb_accepted_prefix`).  `n` senders, each making ANY sequence of `Send(vector)` calls for arrays of the
    common size `k ≥ 1` -- elements acceptable or not, so that calls may succeed, be refused at their first
    element (nothing written) or fail later (a part of the array on the link, which is then closed and refuses
    everything); the receiver asks for arrays of size `k` with any scheduler, under any fragmentation and
    interleaving of the arrivals.  The arrays returned with `i_out = i` are a prefix of the arrays whose `Send`
    returned true at sender `i`: no partial array, no mixed array, nothing of an array that was not accepted. -/
theorem arrays_accepted_prefix (md : Mode) (hmd : ModeOk md) (hcls : md.cls = .select) (crs : Nat → Crypto)
    (hcrs : ∀ i, CrOk md (crs i)) (sz : Int → Nat) (hsz : SzOk sz) (ivs : Nat → Bytes)
    (hivs : ∀ i, (ivs i).length = md.blklen) (n : Nat) (hn : 0 < n) (k : Nat) (hk : 1 ≤ k)
    (atts : Nat → List (List Int)) (hsize : ∀ i a, a ∈ atts i → a.length = k)
    (words : List Nat) (ops : List MOp) :
    ∀ i, (arun md crs n (fun _ => k)
        (aworldOf n (fun i => (sendArrSeq md (crs i) (ivs i) sz {} (atts i)).2.1) words) ops).got i
      <+: (sendArrSeq md (crs i) (ivs i) sz {} (atts i)).2.2 := by
  choose tl tx1 h1 h2 using fun i => sendArrSeq_spec md hcls (crs i) (ivs i) sz k hk (atts i) {} (hsize i)
  have hspec := fun i => sendAll2_spec md (crs i) (ivs i) sz _ {} (tx1 i) _ (h1 i)
  have hw : (fun i => (sendArrSeq md (crs i) (ivs i) sz {} (atts i)).2.1) =
      (fun i => wireOf md (crs i) sz (ivs i)
        (encArrs md (sendArrSeq md (crs i) (ivs i) sz {} (atts i)).2.2 ++ tl i)) := by
    funext i
    rw [(hspec i).2]; simp [wireOf]
  rw [hw]
  intro i
  exact (arrays_prefix_general md hmd crs hcrs sz hsz ivs hivs n hn
    (fun i => (sendArrSeq md (crs i) (ivs i) sz {} (atts i)).2.2) tl (fun i => (hspec i).1) (fun _ => k)
    (fit_uniform md n k _ tl
      (fun i a ha => hsize i a (sendArrSeq_sub md (crs i) (ivs i) sz (atts i) {} a ha)) h2)
    words ops i).1

/-! ## the statements under their C13 names -/

/-- **chunked_roundtrip**: what `aiounicast_select::Send` after `Send` writes -- in the chunked mode: one
    CTR-encrypted, zero-padded chunk per value with its counter, `<base 62>|<counter>\n`, plus tag -- is
    delivered unchanged and in order under every fragmentation and every interleaving of arrivals and
    `Receive` calls; after the last byte finitely many calls deliver everything. -/
theorem chunked_roundtrip (md : Mode) (hmd : ModeOk md) (cr : Crypto) (hcr : CrOk md cr) (sz : Int → Nat)
    (hsz : SzOk sz) (iv : Bytes) (hiv : iv.length = md.blklen) (n : Nat) (hn : 1 ≤ n) (msgs : List Int)
    (tx' : Tx2) (wire : Bytes) (hsend : sendAll2 md cr iv sz {} msgs = some (tx', wire)) (ops : List Op) :
    ((run2 md cr n { wire := wire } ops).delivered <+: msgs ∧ (run2 md cr n { wire := wire } ops).failures = 0) ∧
    ∃ N, ∀ k, N ≤ k →
      (run2 md cr n { wire := wire } (ops ++ [Op.push wire.length] ++ List.replicate k Op.recv)).delivered = msgs :=
  ⟨select_roundtrip_prefix md hmd cr hcr sz hsz iv hiv n hn msgs tx' wire hsend ops,
   select_roundtrip_complete md hmd cr hcr sz hsz iv hiv n hn msgs tx' wire hsend ops⟩

/-- **chunked_integrity**: the exact guarantee of an authenticated link, chunked or not.  (1) A delivered
    value carried a tag valid for (its line, the receiver's current sequence number); the chunk counter is part
    of the line.  (2) A complete message with a bad tag is never delivered; after the first good message it
    stays at the head of the buffer and the link stops.  Hence removal, replay or re-ordering of whole messages
    -- which the chunk counter would tolerate -- is refused exactly as in the stream modes, unless a tag is
    forged.  (Without authentication the chunked mode promises only `chunked_any_state`.) -/
theorem chunked_integrity (md : Mode) (cr : Crypto) (rx : Rx2) (hauth : md.auth = true) :
    (∀ rx' v, parse2 md cr rx = (rx', .delivered v) →
      ∃ nl, rx.buf.idxOf? 10 = some nl ∧
        cr.verify (rx.buf.take nl ++ [10] ++ strBytes (str62 ((rx.sqn : Nat) : Int)))
          ((rx.buf.drop (nl + 1)).take md.maclen) = true ∧ rx'.sqn = rx.sqn + 1) ∧
    (∀ nl, rx.flag = true → rx.buf.idxOf? 10 = some nl → md.maclen ≤ rx.buf.length - nl - 1 →
      cr.verify (rx.buf.take nl ++ [10] ++ strBytes (str62 ((rx.sqn : Nat) : Int)))
        ((rx.buf.drop (nl + 1)).take md.maclen) = false →
      (parse2 md cr rx).2 = .failed ∧
      (rx.sqn ≠ 1 → (parse2 md cr rx).1.buf = rx.buf ∧ (parse2 md cr rx).1.flag = true ∧
        (parse2 md cr rx).1.sqn = rx.sqn)) := by
  refine ⟨fun rx' v h => delivered_was_tagged2 md cr rx rx' v hauth h, ?_⟩
  intro nl hflag hnl hlen hbad
  obtain ⟨h1, h2, -⟩ := bad_tag_never_delivered2 md cr rx hauth hflag nl hnl hlen hbad
  exact ⟨h1, h2⟩

end Tmcg.Aio2
