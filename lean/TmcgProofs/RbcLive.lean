import TmcgProofs.RbcLiveN
/-
  C14, second sentence: "Whenever all protocol messages are eventually handed over, every
  broadcast of an honest sender is delivered by all honest parties, and if one honest party
  delivers a slot then all do."

  Formulation over the system model of RbcGlobal.lean.  A run is an event list `evs`
  (`run H T c evs = some s`).  "All protocol messages have been handed over" is a property of the
  RUN: every message an honest party sent to an honest party (an entry of `s.log`) occurs as a
  `recv` event of the run at its destination.  "Settled": one more `Deliver` call of any honest
  party with no input changes nothing and delivers nothing (all buffered deliverable slots have
  been handed out — the real event loop reaches this by calling Deliver until it returns false).

  Scope: one channel (`c.ID`), FIFO mode on or off as configured, the default `fifo_skip = 0`,
  no `DeliverFrom`/channel switching (those are per-party theorems in RbcLocal.lean).

  RESULT.  The two statements are FALSE as first written (`rbc_validity_refuted`,
  `rbc_totality_refuted`, and three further counterexamples); the corrected statements
  `rbc_validity'`, `rbc_totality'` are proved (files RbcLiveA … RbcLiveN).  What had to change:

  (1) "handed over" must mean CONSUMED (`AllConsumed`, RbcLiveM/N): an iteration of `Deliver`
      that lets a buffered message out of `deliver_buf` returns before it calls
      `aiou->Receive`; in the model such a `recv` event does not look at its message.  With the
      weaker reading a party can miss a message for ever (`Swallow.swallow_breaks`).
      Needed for validity and for totality.
  (2) validity only: the digest `H v` must pass the length check of r-echo / r-ready
      (`ioLen (H v) ≤ 2 · ioLen (T tag)`, `LenOk`); the model treats `H` and `T` as independent
      parameters, for the real hashes the check always passes (`LenCx.long_digest_breaks`).
      In FIFO mode this is needed for the earlier slots of the sender, too.
  (3) validity in non-FIFO mode only: the random sequence number must be `≥ 1` (a message with
      `seq < 1` is dropped as malformed, `SeqCx.seq_zero_breaks`) and the sender must not have
      broadcast another value under the same tag (the second r-send is filtered as a
      duplicate, `DupCx.reused_tag_breaks`).  In FIFO mode both hold automatically.
  Totality needs nothing but (1): it also holds for Byzantine senders, in both modes.
-/
namespace Tmcg.Rbc

/-- the message was handed over in the run: some `recv` event at `dst` from link `src` carries it -/
def HandedOver (evs : List Event) (src dst : Nat) (msg : Msg) : Prop :=
  ∃ pi, Event.recv dst src msg pi ∈ evs

/-- every message between honest parties that was ever sent has been handed over -/
def AllHandedOver (c : Cfg) (evs : List Event) (s : Sys) : Prop :=
  ∀ src dst msg, (src, dst, msg) ∈ s.log → c.honest src → c.honest dst → HandedOver evs src dst msg

/-- no honest party has anything left to deliver or send without new input -/
def Settled (H : Int → Int) (T : Tag → Int) (c : Cfg) (s : Sys) : Prop :=
  ∀ i, c.honest i → ∀ pi, (step H T (s.st i) pi none).out = .idle ∧ (step H T (s.st i) pi none).sent = []

variable {H : Int → Int} {T : Tag → Int} {c : Cfg}

/-! ## the corrected statements -/

/-- a settled party has no deliverable buffered message -/
theorem settled_quiet (hy : Hyp H c) {evs : List Event} {s : Sys}
    (hrun : run H T c evs = some s) (hset : Settled H T c s) {j : Nat} (hj : c.honest j) :
    findFirst (deliverable (s.st j)) (s.st j).deliverBuf = none := by
  have hP := (reach_inv hy (run_reach _ _ _ _ _ hrun)).parties j hj
  have h := (hset j hj []).1
  rcases step_cases H T (s.st j) [] none hP.cskip hP.cbuf with ⟨_, _, _, _, heq⟩ |
    ⟨_, _, _, _, _, _, heq⟩ | ⟨hff, _⟩
  · rw [heq] at h; cases h
  · rw [heq] at h; cases h
  · exact hff

theorem final_of (hy : Hyp H c) {evs : List Event} {s : Sys}
    (hrun : run H T c evs = some s) (hall : AllConsumed H T c evs s) (hset : Settled H T c s) :
    Final H T c evs s :=
  ⟨hy, hrun, hall, fun _ hj => settled_quiet hy hrun hset hj⟩

/-- **validity** (corrected): in a settled run in which every message between honest parties was
    consumed, a value broadcast by an honest sender whose digest passes the length check has been
    delivered by every honest party under the tag it was broadcast with — in FIFO mode provided
    the digests of the sender's earlier slots pass the length check, too; in non-FIFO mode
    provided the sequence number is positive and the tag was used for this value only. -/
theorem rbc_validity' (hy : Hyp H c) {evs : List Event} {s : Sys}
    (hrun : run H T c evs = some s) (hall : AllConsumed H T c evs s) (hset : Settled H T c s)
    {k : Nat} {tag : Tag} {v : Int} (hk : c.honest k) (hb : (k, tag, v) ∈ s.bc)
    (hlen : LenOk T tag (H v))
    (hlenF : c.fifo = true → ∀ τ' v', (k, τ', v') ∈ s.bc → τ'.seq < tag.seq → LenOk T τ' (H v'))
    (hnf : c.fifo = false → 1 ≤ tag.seq ∧ ∀ v', (k, tag, v') ∈ s.bc → v' = v)
    {i : Nat} (hi : c.honest i) :
    (i, tag, v) ∈ s.dl :=
  (final_of hy hrun hall hset).validity hk hi hb hlen hlenF (fun hf =>
    ⟨(hnf hf).1, fun a b ha hb' => ((hnf hf).2 a ha).trans ((hnf hf).2 b hb').symm⟩)

/-- **totality** (corrected): in a settled run in which every message between honest parties was
    consumed, a slot delivered by one honest party has been delivered (with the same value) by
    every honest party — also for Byzantine senders, in both modes, no further assumption. -/
theorem rbc_totality' (hy : Hyp H c) {evs : List Event} {s : Sys}
    (hrun : run H T c evs = some s) (hall : AllConsumed H T c evs s) (hset : Settled H T c s)
    {i j : Nat} {tag : Tag} {v : Int} (hi : c.honest i) (hj : c.honest j)
    (hd : (i, tag, v) ∈ s.dl) :
    (j, tag, v) ∈ s.dl :=
  (final_of hy hrun hall hset).totality hi hj hd

/-! ## executable checks of the premises (for the concrete runs below) -/

theorem phaseBuffer_bufMsg (p p1 : Party) (sent : Sent) (h : phaseBuffer p = .inr (p1, sent)) :
    p1.bufMsg = p.bufMsg := by
  unfold phaseBuffer at h
  split at h
  · split at h <;> cases h
  · simp only [Sum.inr.injEq, Prod.mk.injEq] at h
    obtain ⟨rfl, _⟩ := h
    rfl

/-- with nothing queued in `buf_msg` the permutation is irrelevant -/
theorem step_pi_irrelevant (H : Int → Int) (T : Tag → Int) (p : Party)
    (hb : p.bufMsg = List.replicate p.n []) (pi : List Nat) :
    step H T p pi none = step H T p [] none := by
  unfold step
  cases h : phaseBuffer p with
  | inl r => rfl
  | inr x =>
    obtain ⟨p1, sent⟩ := x
    simp only []
    rw [phaseBuffer_bufMsg p p1 sent h, hb, takeBuffered_replicate, takeBuffered_replicate]

def recvOf : Event → Option (Nat × Nat × Msg)
  | .recv i src m _ => some (src, i, m)
  | _ => none

def chkHanded (c : Cfg) (evs : List Event) (s : Sys) : Bool :=
  s.log.all fun x => !(decide (c.honest x.1) && decide (c.honest x.2.1)) ||
    evs.any (fun e => decide (recvOf e = some x))

def chkConsumed (H : Int → Int) (T : Tag → Int) (c : Cfg) (evs : List Event) (s : Sys) : Bool :=
  s.log.all fun x => !(decide (c.honest x.1) && decide (c.honest x.2.1)) ||
    decide (x ∈ consumed H T c evs)

def chkSettled (H : Int → Int) (T : Tag → Int) (c : Cfg) (s : Sys) : Bool :=
  (List.range c.n).all fun i => !decide (c.honest i) ||
    (decide ((s.st i).bufMsg = List.replicate (s.st i).n []) &&
     decide ((step H T (s.st i) [] none).out = .idle) && (step H T (s.st i) [] none).sent.isEmpty)

theorem chkHanded_sound {c : Cfg} {evs : List Event} {s : Sys} (h : chkHanded c evs s = true) :
    AllHandedOver c evs s := by
  intro src dst msg hlog hs hd
  unfold chkHanded at h
  have := List.all_eq_true.1 h (src, dst, msg) hlog
  simp only [hs, hd, decide_true, Bool.and_self, Bool.not_true, Bool.false_or,
    List.any_eq_true, decide_eq_true_eq] at this
  obtain ⟨e, he, heq⟩ := this
  cases e with
  | recv i src' m pi =>
    simp only [recvOf, Option.some.injEq, Prod.mk.injEq] at heq
    obtain ⟨rfl, rfl, rfl⟩ := heq
    exact ⟨pi, he⟩
  | tick i pi => cases heq
  | bcast i v rnd => cases heq

theorem chkConsumed_sound {c : Cfg} {evs : List Event} {s : Sys}
    (h : chkConsumed H T c evs s = true) : AllConsumed H T c evs s := by
  intro src dst msg hlog hs hd
  unfold chkConsumed at h
  have := List.all_eq_true.1 h (src, dst, msg) hlog
  simpa [hs, hd] using this

theorem chkSettled_sound {c : Cfg} {s : Sys} (h : chkSettled H T c s = true) :
    Settled H T c s := by
  intro i hi pi
  unfold chkSettled at h
  have := List.all_eq_true.1 h i (List.mem_range.2 hi.1)
  simp only [hi, decide_true, Bool.not_true, Bool.false_or, Bool.and_eq_true,
    decide_eq_true_eq, List.isEmpty_iff] at this
  obtain ⟨⟨h1, h2⟩, h3⟩ := this
  rw [step_pi_irrelevant H T _ h1 pi]
  exact ⟨h2, h3⟩

theorem run_check {evs : List Event} {P : Sys → Bool}
    (h : (run H T c evs).map P = some true) : ∃ s, run H T c evs = some s ∧ P s = true := by
  cases hr : run H T c evs with
  | none => rw [hr] at h; cases h
  | some s =>
    rw [hr] at h
    simp only [Option.map_some, Option.some.injEq] at h
    exact ⟨s, rfl, h⟩

/-! ## counterexamples

  Common setting: 4 parties, `t = 1`, party 3 Byzantine and silent, channel 7, the honest party 0
  broadcasts; `H x = 2x+1` (injective, never 0). -/
namespace Cx

def cH : Int → Int := fun x => 2 * x + 1
def cT : Tag → Int := fun _ => 62 ^ 20
def cFifo : Cfg := ⟨4, 1, {3}, 7, true⟩
def cNon : Cfg := ⟨4, 1, {3}, 7, false⟩

theorem hypFifo : Hyp cH cFifo where
  hn := by decide
  hb := by decide
  inj := by intro a b h; simp only [cH] at h; omega
  h0 := by intro m h; simp only [cH] at h; omega

theorem hypNon : Hyp cH cNon where
  hn := by decide
  hb := by decide
  inj := by intro a b h; simp only [cH] at h; omega
  h0 := by intro m h; simp only [cH] at h; omega

def mk (seq a v : Int) : Msg := ⟨7, 0, seq, a, v⟩
def all3 (f : Nat → List Event) : List Event := f 0 ++ f 1 ++ f 2
def from3 (i : Nat) (m : Msg) : List Event := [.recv i 0 m [], .recv i 1 m [], .recv i 2 m []]
/-- every honest party consumes the r-send of slot `seq` -/
def sends (seq v : Int) : List Event := all3 fun i => [.recv i 0 (mk seq rSend v) []]
/-- every honest party consumes the three honest echoes / readies of slot `seq` -/
def echoes (seq v : Int) : List Event := all3 fun i => from3 i (mk seq rEcho (cH v))
def readies (seq v : Int) : List Event := all3 fun i => from3 i (mk seq rReady (cH v))

end Cx

/-! ### (1) A `recv` event at a party that has a deliverable buffered message does not consume its
    message.  Sender 0 broadcasts slots 1, 2, 3.  Parties 0 and 1 deliver all three.  Party 2
    completes slot 2 first (buffered), collects two r-ready of slot 3, then completes slot 1
    (delivered at once); the next event hands it the third r-ready of slot 3 — but that
    iteration lets slot 2 out of the buffer and never reads the link.  Every message has been
    "handed over", the run is settled, and party 2 never delivers slot 3. -/
namespace Swallow
open Cx

def swEvents : List Event :=
  [.bcast 0 11 0, .bcast 0 22 0, .bcast 0 33 0] ++
  all3 (fun i => [.recv i 0 (mk 1 rSend 11) [], .recv i 0 (mk 2 rSend 22) [],
                  .recv i 0 (mk 3 rSend 33) []]) ++
  all3 (fun i => from3 i (mk 1 rEcho (cH 11)) ++ from3 i (mk 2 rEcho (cH 22)) ++
                 from3 i (mk 3 rEcho (cH 33))) ++
  from3 0 (mk 1 rReady (cH 11)) ++ from3 0 (mk 2 rReady (cH 22)) ++ from3 0 (mk 3 rReady (cH 33)) ++
  from3 1 (mk 1 rReady (cH 11)) ++ from3 1 (mk 2 rReady (cH 22)) ++ from3 1 (mk 3 rReady (cH 33)) ++
  from3 2 (mk 2 rReady (cH 22)) ++
  [.recv 2 1 (mk 3 rReady (cH 33)) [], .recv 2 2 (mk 3 rReady (cH 33)) []] ++
  from3 2 (mk 1 rReady (cH 11)) ++
  [.recv 2 0 (mk 3 rReady (cH 33)) []] ++
  [.recv 0 2 (mk 1 lRetrieve lRetrieve) [], .recv 1 2 (mk 1 lRetrieve lRetrieve) [],
   .recv 2 0 (mk 1 lDeliver 11) [], .recv 2 1 (mk 1 lDeliver 11) []]

def slot3 : Tag := ⟨7, 0, 3⟩

theorem sw_check : (run cH cT cFifo swEvents).map (fun s =>
    chkHanded cFifo swEvents s && chkSettled cH cT cFifo s &&
    decide ((0, slot3, (33 : Int)) ∈ s.bc) && decide ((0, slot3, (33 : Int)) ∈ s.dl) &&
    decide ((2, slot3, (33 : Int)) ∉ s.dl)) = some true := by decide

theorem swallow_breaks : ∃ evs s, run cH cT cFifo evs = some s ∧ AllHandedOver cFifo evs s ∧
    Settled cH cT cFifo s ∧ (0, slot3, (33 : Int)) ∈ s.bc ∧ (0, slot3, (33 : Int)) ∈ s.dl ∧
    (2, slot3, (33 : Int)) ∉ s.dl := by
  obtain ⟨s, hrun, hP⟩ := run_check sw_check
  simp only [Bool.and_eq_true, decide_eq_true_eq] at hP
  obtain ⟨⟨⟨⟨h1, h2⟩, h3⟩, h4⟩, h5⟩ := hP
  exact ⟨swEvents, s, hrun, chkHanded_sound h1, chkSettled_sound h2, h3, h4, h5⟩

end Swallow

/-- **validity as first stated is false** -/
theorem rbc_validity_refuted :
    ¬ (∀ (H : Int → Int) (T : Tag → Int) (c : Cfg), Hyp H c → ∀ (evs : List Event) (s : Sys),
        run H T c evs = some s → AllHandedOver c evs s → Settled H T c s →
        ∀ (k : Nat) (tag : Tag) (v : Int), c.honest k → (k, tag, v) ∈ s.bc →
        ∀ i, c.honest i → (i, tag, v) ∈ s.dl) := by
  intro h
  obtain ⟨evs, s, hrun, hall, hset, hbc, _, hno⟩ := Swallow.swallow_breaks
  exact hno (h _ _ _ Cx.hypFifo evs s hrun hall hset 0 _ _ (by decide) hbc 2 (by decide))

/-- **totality as first stated is false** -/
theorem rbc_totality_refuted :
    ¬ (∀ (H : Int → Int) (T : Tag → Int) (c : Cfg), Hyp H c → ∀ (evs : List Event) (s : Sys),
        run H T c evs = some s → AllHandedOver c evs s → Settled H T c s →
        ∀ (i j : Nat) (tag : Tag) (v : Int), c.honest i → c.honest j → (i, tag, v) ∈ s.dl →
        (j, tag, v) ∈ s.dl) := by
  intro h
  obtain ⟨evs, s, hrun, hall, hset, _, hdl, hno⟩ := Swallow.swallow_breaks
  exact hno (h _ _ _ Cx.hypFifo evs s hrun hall hset 0 2 _ _ (by decide) (by decide) hdl)

/-! ### (2) the length check on digests: with `T tag = 0` (text length 1) and `H v = 200001`
    (three base-62 digits) every r-echo is dropped as over-long; all messages are consumed,
    nothing is ever delivered. -/
namespace LenCx
open Cx

def lT : Tag → Int := fun _ => 0
def lenEvents : List Event := [.bcast 0 100000 0] ++ sends 1 100000 ++ echoes 1 100000
def slot1 : Tag := ⟨7, 0, 1⟩

theorem len_check : (run cH lT cFifo lenEvents).map (fun s =>
    chkConsumed cH lT cFifo lenEvents s && chkSettled cH lT cFifo s &&
    decide ((0, slot1, (100000 : Int)) ∈ s.bc) && decide (s.dl = [])) = some true := by decide

theorem not_lenOk : ¬ LenOk lT slot1 (cH 100000) := by unfold LenOk; decide

theorem long_digest_breaks : ∃ evs s, run cH lT cFifo evs = some s ∧
    AllConsumed cH lT cFifo evs s ∧ Settled cH lT cFifo s ∧
    (0, slot1, (100000 : Int)) ∈ s.bc ∧ s.dl = [] := by
  obtain ⟨s, hrun, hP⟩ := run_check len_check
  simp only [Bool.and_eq_true, decide_eq_true_eq] at hP
  obtain ⟨⟨⟨h1, h2⟩, h3⟩, h4⟩ := hP
  exact ⟨lenEvents, s, hrun, chkConsumed_sound h1, chkSettled_sound h2, h3, h4⟩

end LenCx

/-! ### (3a) non-FIFO mode, a tag used twice: the honest sender draws the sequence number 9 for
    the values 5 and 6; all parties deliver 5, the r-send of 6 is filtered as a duplicate. -/
namespace DupCx
open Cx

def dupEvents : List Event :=
  [.bcast 0 5 9, .bcast 0 6 9] ++ sends 9 5 ++ echoes 9 5 ++ readies 9 5 ++ sends 9 6
def tag9 : Tag := ⟨7, 0, 9⟩

theorem dup_check : (run cH cT cNon dupEvents).map (fun s =>
    chkConsumed cH cT cNon dupEvents s && chkSettled cH cT cNon s &&
    decide ((0, tag9, (6 : Int)) ∈ s.bc) && decide ((1, tag9, (6 : Int)) ∉ s.dl)) = some true := by
  decide

theorem reused_tag_breaks : ∃ evs s, run cH cT cNon evs = some s ∧
    AllConsumed cH cT cNon evs s ∧ Settled cH cT cNon s ∧
    (0, tag9, (6 : Int)) ∈ s.bc ∧ (1, tag9, (6 : Int)) ∉ s.dl := by
  obtain ⟨s, hrun, hP⟩ := run_check dup_check
  simp only [Bool.and_eq_true, decide_eq_true_eq] at hP
  obtain ⟨⟨⟨h1, h2⟩, h3⟩, h4⟩ := hP
  exact ⟨dupEvents, s, hrun, chkConsumed_sound h1, chkSettled_sound h2, h3, h4⟩

end DupCx

/-! ### (3b) non-FIFO mode, sequence number 0: the r-send is dropped as malformed (`seq < 1`). -/
namespace SeqCx
open Cx

def seqEvents : List Event := [.bcast 0 5 0] ++ sends 0 5
def tag0 : Tag := ⟨7, 0, 0⟩

theorem seq_check : (run cH cT cNon seqEvents).map (fun s =>
    chkConsumed cH cT cNon seqEvents s && chkSettled cH cT cNon s &&
    decide ((0, tag0, (5 : Int)) ∈ s.bc) && decide (s.dl = [])) = some true := by decide

theorem seq_zero_breaks : ∃ evs s, run cH cT cNon evs = some s ∧
    AllConsumed cH cT cNon evs s ∧ Settled cH cT cNon s ∧
    (0, tag0, (5 : Int)) ∈ s.bc ∧ s.dl = [] := by
  obtain ⟨s, hrun, hP⟩ := run_check seq_check
  simp only [Bool.and_eq_true, decide_eq_true_eq] at hP
  obtain ⟨⟨⟨h1, h2⟩, h3⟩, h4⟩ := hP
  exact ⟨seqEvents, s, hrun, chkConsumed_sound h1, chkSettled_sound h2, h3, h4⟩

end SeqCx

/-! ## non-vacuity -/
namespace NonVac
open Example

/-- the example run of RbcGlobal (equivocating Byzantine sender 3), extended by the hand-overs
    that were missing: party 2's echoes of the other value, the r-requests to parties 1 and 2,
    their r-answers -/
def nvEvents : List Event := exEvents ++
  [ .recv 0 2 (mE 200) [], .recv 1 2 (mE 200) [], .recv 2 2 (mE 200) [],
    .recv 1 2 (mQ 100) [], .recv 2 2 (mQ 100) [], .recv 2 1 (mA 100) [], .recv 2 2 (mA 100) [] ]

theorem nv_check : (run exH exT exC nvEvents).map (fun s =>
    chkHanded exC nvEvents s && chkConsumed exH exT exC nvEvents s && chkSettled exH exT exC s &&
    decide (s.dl = [(0, ⟨7, 3, 1⟩, 100), (1, ⟨7, 3, 1⟩, 100), (2, ⟨7, 3, 1⟩, 100)])) = some true := by
  decide

end NonVac

/-- non-vacuity: the example run of RbcGlobal (equivocating Byzantine sender, all three honest
    parties deliver 100), extended by the missing hand-overs, satisfies the premises — those of
    the first formulation and the corrected one (`AllConsumed`) -/
example : ∃ evs s, run Example.exH Example.exT Example.exC evs = some s ∧
    AllHandedOver Example.exC evs s ∧ AllConsumed Example.exH Example.exT Example.exC evs s ∧
    Settled Example.exH Example.exT Example.exC s ∧ s.dl ≠ [] := by
  obtain ⟨s, hrun, hP⟩ := run_check NonVac.nv_check
  simp only [Bool.and_eq_true, decide_eq_true_eq] at hP
  obtain ⟨⟨⟨h1, h2⟩, h3⟩, h4⟩ := hP
  exact ⟨NonVac.nvEvents, s, hrun, chkHanded_sound h1, chkConsumed_sound h2, chkSettled_sound h3,
    by rw [h4]; simp⟩

/-! non-vacuity of validity: an honest broadcast in FIFO mode, everything consumed; all premises
    of `rbc_validity'` hold and the theorem yields the three deliveries -/
namespace NonVacV
open Cx

def vEvents : List Event := [.bcast 0 11 0] ++ sends 1 11 ++ echoes 1 11 ++ readies 1 11
def slot1 : Tag := ⟨7, 0, 1⟩

theorem v_check : (run cH cT cFifo vEvents).map (fun s =>
    chkConsumed cH cT cFifo vEvents s && chkSettled cH cT cFifo s &&
    decide (s.bc = [(0, slot1, (11 : Int))])) = some true := by decide

theorem lenOk11 : LenOk cT slot1 (cH 11) := by unfold LenOk; decide

theorem all_deliver : ∃ s, run cH cT cFifo vEvents = some s ∧
    (0, slot1, (11 : Int)) ∈ s.dl ∧ (1, slot1, (11 : Int)) ∈ s.dl ∧ (2, slot1, (11 : Int)) ∈ s.dl := by
  obtain ⟨s, hrun, hP⟩ := run_check v_check
  simp only [Bool.and_eq_true, decide_eq_true_eq] at hP
  obtain ⟨⟨h1, h2⟩, h3⟩ := hP
  have hb : (0, slot1, (11 : Int)) ∈ s.bc := by rw [h3]; exact List.mem_singleton.2 rfl
  have key : ∀ i, cFifo.honest i → (i, slot1, (11 : Int)) ∈ s.dl := fun i hi =>
    rbc_validity' hypFifo hrun (chkConsumed_sound h1) (chkSettled_sound h2) (k := 0) (by decide) hb
      lenOk11
      (by
        intro _ τ' v' hb' hlt
        rw [h3, List.mem_singleton] at hb'
        simp only [Prod.mk.injEq] at hb'
        rw [hb'.2.1] at hlt
        exact absurd hlt (lt_irrefl _))
      (by intro hf; cases hf) hi
  exact ⟨s, hrun, key 0 (by decide), key 1 (by decide), key 2 (by decide)⟩

end NonVacV

/-! ### the `l-retrieve` recovery IS triggered in ordinary single-channel FIFO runs

  (One might expect it to be dead code without `fifo_skip`.)  Whenever a slot completes out of
  order it is buffered, and the next `Deliver` iteration of that party asks everybody for the
  missing slots: sender 0 broadcasts slots 1 and 2, party 2 completes slot 2 first; its next
  (empty) iteration sends `l-retrieve` for slot 1.  The liveness proofs therefore treat the
  `l-deliver` path as live (`TotInv`, RbcLiveK.lean). -/
namespace RetrieveLive
open Cx

def rEvents : List Event :=
  [.bcast 0 11 0, .bcast 0 22 0] ++ sends 2 22 ++ echoes 2 22 ++ from3 2 (mk 2 rReady (cH 22)) ++
  [.tick 2 []]

theorem retrieve_is_sent : (run cH cT cFifo rEvents).map (fun s =>
    decide ((2, 0, mk 1 lRetrieve lRetrieve) ∈ s.log)) = some true := by decide

end RetrieveLive

end Tmcg.Rbc
