import TmcgProofs.RbcGlobal
/-
  C14, second sentence: "Whenever all protocol messages are eventually handed over, every
  broadcast of an honest sender is delivered by all honest parties, and if one honest party
  delivers a slot then all do."

  Formulation over the system model of RbcGlobal.lean.  A run is an event list `evs`
  (`run H T c evs = some s`).  "All protocol messages have been handed over" is a property of the
  RUN: every message an honest party sent to an honest party (an entry of `s.log`) occurs as a
  `recv` event of the run at its destination, at a position after it was sent — we only need:
  it occurs as a `recv` event.  "Settled": one more `Deliver` call of any honest party with no
  input changes nothing and delivers nothing (all buffered deliverable slots have been handed
  out — the real event loop reaches this by calling Deliver until it returns false).

  Scope: one channel (`c.ID`), FIFO mode on or off as configured, the default `fifo_skip = 0`,
  no `DeliverFrom`/channel switching (those are per-party theorems in RbcLocal.lean).
-/
namespace Tmcg.Rbc

/-- the message was handed over in the run: some `recv` event at `dst` from link `src` carries it -/
def HandedOver (evs : List Event) (src dst : Nat) (msg : Msg) : Prop :=
  ∃ pi, Event.recv dst src msg pi ∈ evs

/-- every message between honest parties that was ever sent has been handed over -/
def AllHandedOver (c : Cfg) (evs : List Event) (s : Sys) : Prop :=
  ∀ src dst msg, (src, dst, msg) ∈ s.log → c.honest src → c.honest dst → HandedOver evs src dst msg

/-- no honest party has anything left to deliver or send without new input -/
def Settled (H : Int → Int) (T : Tag → Int) (c : Cfg) (s : Sys) : Prop :=
  ∀ i, c.honest i → ∀ pi, (step H T (s.st i) pi none).out = .idle ∧ (step H T (s.st i) pi none).sent = []

variable {H : Int → Int} {T : Tag → Int} {c : Cfg}

/-- **validity**: in a settled run in which every message between honest parties was handed over,
    every value broadcast by an honest sender on the channel has been delivered by every honest
    party (under the tag it was broadcast with) -/
theorem rbc_validity (hy : Hyp H c) {evs : List Event} {s : Sys}
    (hrun : run H T c evs = some s) (hall : AllHandedOver c evs s) (hset : Settled H T c s)
    {k : Nat} {tag : Tag} {v : Int} (hk : c.honest k) (hb : (k, tag, v) ∈ s.bc)
    {i : Nat} (hi : c.honest i) :
    (i, tag, v) ∈ s.dl := by
  sorry

/-- **totality**: in such a run, a slot delivered by one honest party has been delivered (with
    the same value) by every honest party — also for Byzantine senders -/
theorem rbc_totality (hy : Hyp H c) {evs : List Event} {s : Sys}
    (hrun : run H T c evs = some s) (hall : AllHandedOver c evs s) (hset : Settled H T c s)
    {i j : Nat} {tag : Tag} {v : Int} (hi : c.honest i) (hj : c.honest j)
    (hd : (i, tag, v) ∈ s.dl) :
    (j, tag, v) ∈ s.dl := by
  sorry

/-- non-vacuity: the example run of RbcGlobal (equivocating Byzantine sender, all three honest
    parties deliver 100), extended if necessary by the missing hand-overs, satisfies the premises -/
example : ∃ evs s, run Example.exH Example.exT Example.exC evs = some s ∧
    AllHandedOver Example.exC evs s ∧ Settled Example.exH Example.exT Example.exC s ∧ s.dl ≠ [] := by
  sorry

end Tmcg.Rbc
