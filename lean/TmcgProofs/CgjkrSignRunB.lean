import TmcgProofs.CgjkrSignRun
import TmcgProofs.CgjkrSignRunB1
/-
  C16 on the step-by-step model of `DSS::Sign` (Tmcg/Model/CgjkrSign.lean), run level: the statements of
  TmcgProofs/CgjkrSignRun.lean (about single actions) lifted to whole runs `runSign`, for EVERY script of
  the deviating signers.

    * `cfgSign`, `AtRound`   the configuration after `r` rounds; a state/inbox a living party has at the
                             beginning of some round of the run
    * `sign_run_trace`       a party that ends `Sign` with `true` has executed the last action (`shRead 1`,
                             step 2f) at a state of the run, its `(r, s)` are the ones of that action, and its
                             `r` is either 0 or stems from an execution of step 1f/1g (`shRead 0`) in the run
    * `RunBinding`           the explicit binding hypothesis of a run: the views the honest parties have of the
                             two combined sharings (of `mu` and of `s`) at the moment they read the shares are
                             bound to two polynomials of degree `≤ t`, and the honest parties hold the same
                             `a_dkg->y`
    * `sign_run_agree`       all honest parties that complete `Sign` (with `r ≠ 0`) hold the same `(r, s)`
    * `sign_run_valid`       … and `Tsig.dssVerify` accepts it under `y = g^x` when the two polynomials carry
                             `k·a` and `k·(m + x·r)` and `a_dkg->y = g^a`

  All three are proved (no `sorry`).  Auxiliary lemmas: TmcgProofs/CgjkrSignRunB1.lean (schedule: every action of a
  round after the first is non-reading; frames of `emitOps` / `doAct`; `doAct_done_true_B`; one party over one
  round).  Here: `runActs_tail`, `runActs_head` (one round of a running party), the invariant `InvP` and its
  induction over the rounds `inv_all`.  `sign_run_trace` does not use `doAct_done_true` (whose first statement was
  false for `shRead ph`, `ph ≥ 2`) but `doAct_done_true_B`.
-/
namespace Tmcg.CgjkrSignRunP
open Tmcg Tmcg.Powm Tmcg.Dkg Tmcg.Grp Tmcg.DkgL Tmcg.DkgP Tmcg.Cgjkr Tmcg.CgjkrSign
open Polynomial

/-- the parties before the first round (as in `runSign`) -/
def psSign (t : Nat) (msg : Int) (sub : List Nat) (ins : List SignIn) : List (Party SSt) :=
  (List.range sub.length).zip ins |>.map (fun (k, sin) =>
    { dev := sin.dev, piCnt := List.replicate sub.length 0, inbox := Inbox.empty sub.length,
      st := { m := sub.length, t := t, i := k, pts := sub, msg := msg, x := sin.x, xp := sin.xp, keyC := sin.keyC,
              keyQ := sin.keyQ, strong := sin.strong, la := sin.la } })

/-- the configuration after `r` rounds -/
def cfgSign (G : Dkg.Grp) (t : Nat) (msg : Int) (sub : List Nat) (ins : List SignIn) (r : Nat) : List (Party SSt) :=
  runRounds (signStep G sub.length t) (List.range r) (psSign t msg sub ins)

theorem runSign_cfg (G : Dkg.Grp) (t : Nat) (msg : Int) (sub : List Nat) (ins : List SignIn) :
    runSign G t msg sub ins = cfgSign G t msg sub ins (prog sub.length t).length := rfl

/-- party `k` is alive and running at the beginning of some round of the run, with state `st` and inbox `I` -/
def AtRound (G : Dkg.Grp) (t : Nat) (msg : Int) (sub : List Nat) (ins : List SignIn) (k : Nat) (st : SSt) (I : Inbox) : Prop :=
  ∃ r P, (cfgSign G t msg sub ins r)[k]? = some P ∧ P.live = true ∧ P.st = st ∧ P.inbox = I

/-- the value `r` in `st` stems from an execution of step 1f/1g by party `k` in the run -/
def RLink (G : Dkg.Grp) (t : Nat) (msg : Int) (sub : List Nat) (ins : List SignIn) (k : Nat) (st : SSt) : Prop :=
  ∃ sa Ia sa' Ia' ops, AtRound G t msg sub ins k sa Ia ∧
    doAct G (.shRead 0) sa Ia = .ok (.go sa' Ia' ops) ∧ st.r = sa'.r ∧ sa.msg = msg

/-- `RLink` only looks at the component `r` -/
theorem RLink_congr (G : Dkg.Grp) (t : Nat) (msg : Int) (sub : List Nat) (ins : List SignIn) (k : Nat)
    (st st2 : SSt) (h : st2.r = st.r) (hl : RLink G t msg sub ins k st) : RLink G t msg sub ins k st2 := by
  obtain ⟨sa, Ia, sa', Ia', ops, h1, h2, h3, h4⟩ := hl
  exact ⟨sa, Ia, sa', Ia', ops, h1, h2, h.trans h3, h4⟩

/-- non-reading actions: no `true` return, `msg` and `r` are kept -/
theorem runActs_tail (G : Dkg.Grp) (acts : List Act) (hnr : ∀ a ∈ acts, a.reads = false)
    (st : SSt) (I : Inbox) (acc : List Op) (st' : SSt) (I' : Inbox) (ops : List Op) (status : Status)
    (h : runActs G acts st I acc = .ok (st', I', ops, status)) :
    status ≠ .ret true ∧ (status = .run → st'.msg = st.msg ∧ st'.r = st.r) := by
  induction acts generalizing st I acc with
  | nil =>
    simp only [runActs, pure, Except.pure, Except.ok.injEq, Prod.mk.injEq] at h
    obtain ⟨rfl, rfl, rfl, rfl⟩ := h
    exact ⟨by simp, fun _ => ⟨rfl, rfl⟩⟩
  | cons a rest ih =>
    have hra : a.reads = false := hnr a (List.mem_cons_self ..)
    simp only [runActs, bind, Except.bind] at h
    cases hd : doAct G a st I with
    | error e => rw [hd] at h; cases h
    | ok o =>
      rw [hd] at h
      have hne : ∀ ph, a = .shRead ph → ph ≠ 0 := by
        intro ph e; subst e; simp [Act.reads] at hra
      cases o with
      | go st1 I1 ops1 =>
        simp only at h
        have e := emitOps_frame st1 ops1 []
        rcases he : emitOps st1 ops1 [] with ⟨st2, ops2⟩
        rw [he] at h e
        simp only at h e
        obtain ⟨h1, h2⟩ := ih (fun x hx => hnr x (List.mem_cons_of_mem _ hx)) _ _ _ h
        obtain ⟨f1, f2⟩ := doAct_frame G a st st1 I I1 ops1 hd
        refine ⟨h1, fun hs => ?_⟩
        obtain ⟨g1, g2⟩ := h2 hs
        exact ⟨g1.trans (e.2.2.trans f1), g2.trans (e.1.trans (f2 hne))⟩
      | done st1 I1 ops1 b =>
        simp only at h
        rcases he : emitOps st1 ops1 [] with ⟨st2, ops2⟩
        rw [he] at h
        simp only [pure, Except.pure, Except.ok.injEq, Prod.mk.injEq] at h
        obtain ⟨rfl, rfl, rfl, rfl⟩ := h
        refine ⟨?_, fun hs => by cases hs⟩
        intro hb
        have hb' : b = true := by injection hb
        subst hb'
        have := (doAct_done_true_B G a st st1 I I1 ops1 hd).1
        rw [hra] at this
        cases this

/-- the conclusion of `sign_run_trace` for a state -/
def Concl (G : Dkg.Grp) (t : Nat) (msg : Int) (sub : List Nat) (ins : List SignIn) (k : Nat) (st : SSt) : Prop :=
  ∃ sb Ib sb' Ib' ops, AtRound G t msg sub ins k sb Ib ∧
    doAct G (.shRead 1) sb Ib = .ok (.done sb' Ib' ops true) ∧
    st.s = sb'.s ∧ st.r = sb'.r ∧ sb.msg = msg ∧ (sb.r = 0 ∨ RLink G t msg sub ins k sb)

/-- one round of a running party: the first action may read (and may be `shRead 0` / `shRead 1`), the
    others do not -/
theorem runActs_head (G : Dkg.Grp) (t : Nat) (msg : Int) (sub : List Nat) (ins : List SignIn) (k : Nat)
    (acts : List Act) (htl : TailNR acts) (st : SSt) (I : Inbox)
    (hAt : AtRound G t msg sub ins k st I) (hm : st.msg = msg) (hr : st.r = 0 ∨ RLink G t msg sub ins k st)
    (st' : SSt) (I' : Inbox) (ops : List Op) (status : Status)
    (h : runActs G acts st I [] = .ok (st', I', ops, status)) :
    (status = .run → st'.msg = msg ∧ (st'.r = 0 ∨ RLink G t msg sub ins k st')) ∧
    (status = .ret true → Concl G t msg sub ins k st') := by
  cases acts with
  | nil =>
    simp only [runActs, pure, Except.pure, Except.ok.injEq, Prod.mk.injEq] at h
    obtain ⟨rfl, rfl, rfl, rfl⟩ := h
    exact ⟨fun _ => ⟨hm, hr⟩, fun hs => by cases hs⟩
  | cons a rest =>
    have hrest : ∀ x ∈ rest, x.reads = false := by simpa [TailNR] using htl
    simp only [runActs, bind, Except.bind] at h
    cases hd : doAct G a st I with
    | error e => rw [hd] at h; cases h
    | ok o =>
      rw [hd] at h
      cases o with
      | go st1 I1 ops1 =>
        simp only at h
        have e := emitOps_frame st1 ops1 []
        rcases he : emitOps st1 ops1 [] with ⟨st2, ops2⟩
        rw [he] at h e
        simp only at h e
        obtain ⟨h1, h2⟩ := runActs_tail G rest hrest _ _ _ _ _ _ _ h
        obtain ⟨f1, f2⟩ := doAct_frame G a st st1 I I1 ops1 hd
        refine ⟨fun hs => ?_, fun hs => absurd hs h1⟩
        obtain ⟨g1, g2⟩ := h2 hs
        refine ⟨g1.trans (e.2.2.trans (f1.trans hm)), ?_⟩
        by_cases ha : ∀ ph, a = .shRead ph → ph ≠ 0
        · have hrr : st'.r = st.r := g2.trans (e.1.trans (f2 ha))
          rcases hr with h0 | hl
          · left; exact hrr.trans h0
          · right; exact RLink_congr G t msg sub ins k st st' hrr hl
        · have ha0 : a = .shRead 0 := by
            by_contra hc
            apply ha
            intro ph e hph
            subst hph
            exact hc e
          subst ha0
          right
          exact ⟨st, I, st1, I1, ops1, hAt, hd, g2.trans e.1, hm⟩
      | done st1 I1 ops1 b =>
        simp only at h
        have e := emitOps_frame st1 ops1 []
        rcases he : emitOps st1 ops1 [] with ⟨st2, ops2⟩
        rw [he] at h e
        simp only [pure, Except.pure, Except.ok.injEq, Prod.mk.injEq] at h e
        obtain ⟨rfl, rfl, rfl, rfl⟩ := h
        refine ⟨fun hs => (by cases hs), fun hb => ?_⟩
        have hb' : b = true := by injection hb
        subst hb'
        exact ⟨st, I, st1, I1, ops1, hAt, (doAct_done_true_B G a st st1 I I1 ops1 hd).2, e.2.1, e.1, hm, hr⟩

/-- the invariant of party `k` along the run -/
def InvP (G : Dkg.Grp) (t : Nat) (msg : Int) (sub : List Nat) (ins : List SignIn) (k : Nat) (P : Party SSt) : Prop :=
  (P.status = .run → P.st.msg = msg ∧ (P.st.r = 0 ∨ RLink G t msg sub ins k P.st)) ∧
  (P.status = .ret true → Concl G t msg sub ins k P.st)

theorem cfgSign_succ (G : Dkg.Grp) (t : Nat) (msg : Int) (sub : List Nat) (ins : List SignIn) (r : Nat) :
    cfgSign G t msg sub ins (r + 1) = runRound (signStep G sub.length t r) (cfgSign G t msg sub ins r) := by
  simp [cfgSign, List.range_succ, ag_runRounds_append, runRounds]

theorem inv_all (G : Dkg.Grp) (t : Nat) (msg : Int) (sub : List Nat) (ins : List SignIn) (k : Nat) :
    ∀ r P, (cfgSign G t msg sub ins r)[k]? = some P → InvP G t msg sub ins k P := by
  intro r
  induction r with
  | zero =>
    intro P hP
    have h0 : cfgSign G t msg sub ins 0 = psSign t msg sub ins := rfl
    rw [h0] at hP
    have hmem := List.mem_of_getElem? hP
    simp only [psSign, List.mem_map] at hmem
    obtain ⟨⟨k', sin⟩, -, rfl⟩ := hmem
    exact ⟨fun _ => ⟨rfl, Or.inl rfl⟩, fun h => by cases h⟩
  | succ r ih =>
    intro P' hP'
    rw [cfgSign_succ] at hP'
    obtain ⟨P, hP, hst, hstat⟩ := runRound_party_st _ _ k P' hP'
    have hI := ih P hP
    rcases stepParty_cases (cfgSign G t msg sub ins r).length (signStep G sub.length t r k) P with
      ⟨e1, e2⟩ | ⟨hl, I2, ops2, hs⟩
    · unfold InvP
      rw [hst, hstat, e1, e2]
      exact hI
    · have hrun : P.status = .run := by
        simp only [Party.live, Bool.and_eq_true, beq_iff_eq] at hl
        exact hl.1.1
      obtain ⟨hm, hr⟩ := hI.1 hrun
      have := runActs_head G t msg sub ins k _ (prog_tailNR sub.length t r) P.st P.inbox
        ⟨r, P, hP, hl, rfl, rfl⟩ hm hr _ _ _ _ hs
      unfold InvP
      rw [hst, hstat]
      exact this

/-- a party that ends `Sign` with `true`: its last action, its outputs, the origin of its `r` -/
theorem sign_run_trace (G : Dkg.Grp) (t : Nat) (msg : Int) (sub : List Nat) (ins : List SignIn) (k : Nat)
    (P : Party SSt) (hP : (runSign G t msg sub ins)[k]? = some P) (hd : P.status = .ret true) :
    ∃ sb Ib sb' Ib' ops, AtRound G t msg sub ins k sb Ib ∧
      doAct G (.shRead 1) sb Ib = .ok (.done sb' Ib' ops true) ∧
      P.st.s = sb'.s ∧ P.st.r = sb'.r ∧ sb.msg = msg ∧ (sb.r = 0 ∨ RLink G t msg sub ins k sb) := by
  rw [runSign_cfg] at hP
  exact (inv_all G t msg sub ins k _ P hP).2 hd

/-- the parties that follow the protocol in this call -/
def honestS (ins : List SignIn) (k : Nat) : Prop :=
  k < ins.length ∧ (ins.getD k ⟨0, 0, [], [], [], {}, []⟩).dev.honest = true ∧ (ins.getD k ⟨0, 0, [], [], [], {}, []⟩).la = []

variable {G : Dkg.Grp} [Fact (Nat.Prime G.p.natAbs)] [Fact (Nat.Prime G.q.natAbs)]

set_option linter.unusedSectionVars false
set_option linter.unusedVariables false

/-- **the binding hypothesis of a run** (in the style of `BindingHypG`): there are two polynomials of degree
    `≤ t` such that, whenever an honest party is about to read the combined shares of step 1f (resp. 2f), its
    own share and every pair that passes its check against the public commitments lie on the first (resp.
    second) polynomial; and the honest parties hold the same public value `a_dkg->y` of the nested key
    generation.  (A violation of the first two parts yields two openings of one Pedersen commitment with
    different first components, i.e. `log_g h`; the third part is the key agreement of `a_dkg`.) -/
structure RunBinding (G : Dkg.Grp) (t : Nat) (msg : Int) (sub : List Nat) (ins : List SignIn)
    (Fmu Fs : Polynomial (ZMod G.q.natAbs)) : Prop where
  mu : ∀ k st I, honestS ins k → AtRound G t msg sub ins k st I →
    (∃ out, doAct G (.shRead 0) st I = .ok out) → SignerSet G st ∧ BindsView G st 2 Fmu
  s : ∀ k st I, honestS ins k → AtRound G t msg sub ins k st I →
    (∃ out, doAct G (.shRead 1) st I = .ok out) → SignerSet G st ∧ BindsView G st 4 Fs
  y : ∀ k1 k2 st1 I1 st2 I2, honestS ins k1 → honestS ins k2 →
    AtRound G t msg sub ins k1 st1 I1 → AtRound G t msg sub ins k2 st2 I2 →
    (∃ out, doAct G (.shRead 0) st1 I1 = .ok out) → (∃ out, doAct G (.shRead 0) st2 I2 = .ok out) →
    st1.ag.y = st2.ag.y

/-- **Agreement.**  For every script of the deviating signers: all honest parties that complete `Sign`
    (with `r ≠ 0`) hold the same pair `(r, s)`. -/
theorem sign_run_agree (hG : ValidGrp G) (t : Nat) (msg : Int) (sub : List Nat) (ins : List SignIn)
    (Fmu Fs : Polynomial (ZMod G.q.natAbs)) (hB : RunBinding G t msg sub ins Fmu Fs)
    (k1 k2 : Nat) (h1 : honestS ins k1) (h2 : honestS ins k2) (P1 P2 : Party SSt)
    (hP1 : (runSign G t msg sub ins)[k1]? = some P1) (hP2 : (runSign G t msg sub ins)[k2]? = some P2)
    (hd1 : P1.status = .ret true) (hd2 : P2.status = .ret true)
    (hr1 : P1.st.r ≠ 0) (hr2 : P2.st.r ≠ 0) :
    P1.st.r = P2.st.r ∧ P1.st.s = P2.st.s := by
  obtain ⟨sb1, Ib1, sb1', Ib1', opsb1, hAt1, hdo1, hs1, hr1', hm1, hl1⟩ := sign_run_trace G t msg sub ins k1 P1 hP1 hd1
  obtain ⟨sb2, Ib2, sb2', Ib2', opsb2, hAt2, hdo2, hs2, hr2', hm2, hl2⟩ := sign_run_trace G t msg sub ins k2 P2 hP2 hd2
  obtain ⟨-, -, -, -, -, hrr1, -, -⟩ := shRead1_spec G sb1 sb1' Ib1 Ib1' opsb1 hdo1
  obtain ⟨-, -, -, -, -, hrr2, -, -⟩ := shRead1_spec G sb2 sb2' Ib2 Ib2' opsb2 hdo2
  have hl1' : RLink G t msg sub ins k1 sb1 := by
    rcases hl1 with h | h
    · exact absurd (hr1'.trans (hrr1.trans h)) hr1
    · exact h
  have hl2' : RLink G t msg sub ins k2 sb2 := by
    rcases hl2 with h | h
    · exact absurd (hr2'.trans (hrr2.trans h)) hr2
    · exact h
  obtain ⟨sa1, Ia1, sa1', Ia1', opsa1, hAta1, hdoa1, hra1, hma1⟩ := hl1'
  obtain ⟨sa2, Ia2, sa2', Ia2', opsa2, hAta2, hdoa2, hra2, hma2⟩ := hl2'
  obtain ⟨hS1, hB1⟩ := hB.mu k1 sa1 Ia1 h1 hAta1 ⟨_, hdoa1⟩
  obtain ⟨hS2, hB2⟩ := hB.mu k2 sa2 Ia2 h2 hAta2 ⟨_, hdoa2⟩
  have hy := hB.y k1 k2 sa1 Ia1 sa2 Ia2 h1 h2 hAta1 hAta2 ⟨_, hdoa1⟩ ⟨_, hdoa2⟩
  obtain ⟨-, hrEq⟩ := sign_mu_agree hG sa1 sa1' sa2 sa2' Ia1 Ia1' Ia2 Ia2' opsa1 opsa2 hS1 hS2 Fmu hB1 hB2 hy hdoa1 hdoa2
  obtain ⟨hT1, hC1⟩ := hB.s k1 sb1 Ib1 h1 hAt1 ⟨_, hdo1⟩
  obtain ⟨hT2, hC2⟩ := hB.s k2 sb2 Ib2 h2 hAt2 ⟨_, hdo2⟩
  obtain ⟨hsEq, -, -⟩ := sign_s_agree hG sb1 sb1' sb2 sb2' Ib1 Ib1' Ib2 Ib2' opsb1 opsb2 hT1 hT2 Fs hC1 hC2 hdo1 hdo2
  refine ⟨?_, ?_⟩
  · rw [hr1', hrr1, hra1, hrEq, ← hra2, ← hrr2, ← hr2']
  · rw [hs1, hsEq, ← hs2]

/-- **Validity.**  If moreover the first polynomial carries `k·a ≠ 0` with `a_dkg->y = g^a`, the second one
    `k·(m + x·r)`, and `y = g^x` is the key of the key sharing, then the pair `(r, s)` of an honest party that
    completes `Sign` with `r, s ≠ 0` is accepted by the model of the library's verifier, i.e. (by
    `TsigProofs.dssVerify_iff`) satisfies the textbook DSA equation under `y`. -/
theorem sign_run_valid (hG : ValidGrp G) (t : Nat) (msg : Int) (sub : List Nat) (ins : List SignIn)
    (Fmu Fs : Polynomial (ZMod G.q.natAbs)) (hB : RunBinding G t msg sub ins Fmu Fs)
    (k1 : Nat) (h1 : honestS ins k1) (P1 : Party SSt)
    (hP1 : (runSign G t msg sub ins)[k1]? = some P1) (hd1 : P1.status = .ret true)
    (x k a y : Int)
    (hy : cp G y = cp G G.g ^ x)
    (hay : ∀ st I, AtRound G t msg sub ins k1 st I → (∃ out, doAct G (.shRead 0) st I = .ok out) →
      cp G st.ag.y = cp G G.g ^ a)
    (hmu : Fmu.eval 0 = ((k * a : Int) : ZMod G.q.natAbs)) (hmu0 : Fmu.eval 0 ≠ 0)
    (hs : Fs.eval 0 = ((k * (msg + x * P1.st.r) : Int) : ZMod G.q.natAbs))
    (hr0 : P1.st.r ≠ 0) (hs0 : P1.st.s ≠ 0) :
    Tsig.dssVerify (gGrp G) y msg P1.st.r P1.st.s = .ok true := by
  have hq : 0 < G.q := hG.vg.q_pos
  obtain ⟨sb, Ib, sb', Ib', opsb, hAt, hdo, hs1, hr1, hm1, hl1⟩ := sign_run_trace G t msg sub ins k1 P1 hP1 hd1
  obtain ⟨-, -, -, -, -, hrr, -, -⟩ := shRead1_spec G sb sb' Ib Ib' opsb hdo
  have hl : RLink G t msg sub ins k1 sb := by
    rcases hl1 with h | h
    · exact absurd (hr1.trans (hrr.trans h)) hr0
    · exact h
  obtain ⟨sa, Ia, sa', Ia', opsa, hAta, hdoa, hra, hma⟩ := hl
  obtain ⟨hS1, hB1⟩ := hB.mu k1 sa Ia h1 hAta ⟨_, hdoa⟩
  obtain ⟨hT1, hC1⟩ := hB.s k1 sb Ib h1 hAt ⟨_, hdo⟩
  obtain ⟨-, -, hmuv⟩ := sign_mu_val hG sa sa' Ia Ia' opsa hS1 Fmu hB1 hdoa
  obtain ⟨hs0', hslt, hsv⟩ := sign_s_val hG sb sb' Ib Ib' opsb hT1 Fs hC1 hdo
  obtain ⟨-, -, -, rp, -, -, -, -, -, hrp, -⟩ := shRead0_spec G sa sa' Ia Ia' opsa hdoa
  have hmuM : sa'.mu ≡ k * a [ZMOD G.q] := by
    have : cq G sa'.mu = cq G (k * a) := by unfold cq; rw [hmuv, hmu]
    exact (DkgP.cq_eq_iff hq _ _).1 this
  have hmuM0 : ¬ sa'.mu ≡ 0 [ZMOD G.q] := by
    intro h
    have : cq G sa'.mu = cq G 0 := (DkgP.cq_eq_iff hq _ _).2 h
    apply hmu0
    rw [← hmuv]
    unfold cq at this
    simpa using this
  have hsM : sb'.s ≡ k * (sa.msg + x * sb'.r) [ZMOD G.q] := by
    have : cq G sb'.s = cq G (k * (sa.msg + x * sb'.r)) := by
      unfold cq; rw [hsv, hs, hma, hr1]
    exact (DkgP.cq_eq_iff hq _ _).1 this
  have hrpos : 0 < sb'.r := by
    have h0 : 0 ≤ sb'.r := by rw [hrr, hra, hrp]; exact Int.emod_nonneg _ (ne_of_gt hq)
    have h1 : sb'.r ≠ 0 := by rw [← hr1]; exact hr0
    omega
  have hspos : 0 < sb'.s := by
    have h1 : sb'.s ≠ 0 := by rw [← hs1]; exact hs0
    omega
  have := sign_final_valid hG sa sa' sb sb' Ia Ia' Ib Ib' opsa opsb x k a y hdoa hdo hra (hm1.trans hma.symm) hy
    (hay sa Ia hAta ⟨_, hdoa⟩) hmuM hmuM0 hsM hrpos hspos hslt
  rw [hma, ← hr1, ← hs1] at this
  exact this

end Tmcg.CgjkrSignRunP
