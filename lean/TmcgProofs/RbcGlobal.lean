import Tmcg.Model.Rbc
import Mathlib.Data.Finset.Card
import Mathlib.Data.List.Basic
import Mathlib.Tactic.Linarith
/-
  C14, part B — GLOBAL safety of the reliable broadcast (agreement, integrity, no duplication)
  for a system of `n` parties, at most `t` of them Byzantine, `3 t < n`, all honest parties
  running `Tmcg.Rbc.step` / `Tmcg.Rbc.broadcast` on ONE channel, in FIFO or in non-FIFO mode.

  Contents
    1.-3.  lemmas on the data structures; `Disp`: a relational description of `dispatch`
           (`dispatch_cases`), of `deliverOrBuffer` (`dob_cases`) and of `step` (`step_cases`)
    4.     the system model: `Cfg`, `Sys`, `Event`, `Event.Valid`, `Reach`, executable `run`
    5.     the invariant `Inv` (global part on the message log, `PInv` per honest party)
    6.     counting (quorum intersection) and the three safety properties FROM the invariant
    7.     the invariant is inductive (`inv_init`, `inv_step`, `reach_inv`)
    8.     `rbc_agreement`, `rbc_integrity`, `rbc_no_duplication` for every reachable state
    9.     non-vacuity (`Example.ex_deliveries`: 4 parties, party 3 Byzantine and equivocating,
           all three honest parties deliver) and `HashZero.hash_zero_breaks_agreement`: the
           hypothesis `∀ m, H m ≠ 0` of `Hyp` is necessary for this implementation.

  Hypotheses (`Hyp`): `3 t < n`, `byz.card ≤ t`, `H` injective, `H m ≠ 0`.  Nothing is assumed
  about `T`, about the permutations `pi`, or about the sequence numbers of non-FIFO broadcasts.

  (TmcgProofs/RbcLocal.lean is not imported: its compiled file did not exist and none of its
  statements is needed here; everything is proved from the model directly.  No `sorry`.)
-/
namespace Tmcg.Rbc

/-! ## 1. association lists, filters, counters -/

section basics
variable {κ ν : Type} [DecidableEq κ]

theorem aGet_aSet_self (l : List (κ × ν)) (k : κ) (v : ν) : aGet (aSet l k v) k = some v := by
  induction l with
  | nil => simp [aSet, aGet]
  | cons a l ih =>
    obtain ⟨k', v'⟩ := a
    by_cases h : k' = k
    · simp [aSet, aGet, h]
    · simp [aSet, aGet, h, ih]

theorem aGet_aSet_ne (l : List (κ × ν)) (k k' : κ) (v : ν) (h : k' ≠ k) :
    aGet (aSet l k v) k' = aGet l k' := by
  induction l with
  | nil => simp [aSet, aGet, Ne.symm h]
  | cons a l ih =>
    obtain ⟨k'', v'⟩ := a
    by_cases h2 : k'' = k
    · subst h2
      simp [aSet, aGet, Ne.symm h]
    · by_cases h3 : k'' = k'
      · subst h3
        simp [aSet, aGet, h2]
      · simp [aSet, aGet, h2, h3, ih]

end basics

theorem fHas_append (f g : Filter) (l : Nat) (t : Tag) :
    fHas (f ++ g) l t = (fHas f l t || fHas g l t) := by
  induction f with
  | nil => simp [fHas]
  | cons a f ih =>
    obtain ⟨l', t'⟩ := a
    simp [fHas, ih, Bool.or_assoc]

theorem fHas_fIns (f : Filter) (l a : Nat) (t b : Tag) :
    fHas (fIns f l t) a b = true ↔ (a = l ∧ b = t) ∨ fHas f a b = true := by
  unfold fIns
  by_cases h : fHas f l t = true
  · simp only [h, if_true]
    constructor
    · intro h'; exact Or.inr h'
    · rintro (⟨rfl, rfl⟩ | h')
      · exact h
      · exact h'
  · have h0 : fHas f l t = false := by simpa using h
    simp only [h0]
    rw [if_neg (by simp), fHas_append]
    simp [fHas]
    constructor
    · rintro (h' | ⟨rfl, rfl⟩)
      · exact Or.inr h'
      · exact Or.inl ⟨rfl, rfl⟩
    · rintro (⟨rfl, rfl⟩ | h')
      · exact Or.inr ⟨rfl, rfl⟩
      · exact Or.inl h'

theorem fHas_fIns_self (f : Filter) (l : Nat) (t : Tag) : fHas (fIns f l t) l t = true :=
  (fHas_fIns f l l t t).mpr (Or.inl ⟨rfl, rfl⟩)

theorem fHas_fIns_mono (f : Filter) (l a : Nat) (t b : Tag) (h : fHas f a b = true) :
    fHas (fIns f l t) a b = true :=
  (fHas_fIns f l a t b).mpr (Or.inr h)

/-- the count stored for a key (0 when absent) -/
def cnt (c : Counts) (k : Tag × Int) : Nat := (aGet c k).getD 0

theorem cntInc_snd (c : Counts) (k : Tag × Int) : (cntInc c k).2 = cnt c k + 1 := by
  unfold cntInc cnt
  cases h : aGet c k <;> simp

theorem cnt_cntInc_self (c : Counts) (k : Tag × Int) : cnt (cntInc c k).1 k = cnt c k + 1 := by
  unfold cntInc cnt
  cases h : aGet c k <;> simp [aGet_aSet_self]

theorem cnt_cntInc_ne (c : Counts) (k k' : Tag × Int) (h : k' ≠ k) :
    cnt (cntInc c k).1 k' = cnt c k' := by
  unfold cntInc cnt
  cases h2 : aGet c k <;> simp [aGet_aSet_ne _ _ _ _ h]

theorem cntTouch_snd (c : Counts) (k : Tag × Int) : (cntTouch c k).2 = cnt c k := by
  unfold cntTouch cnt
  cases h : aGet c k <;> simp

theorem cnt_cntTouch (c : Counts) (k k' : Tag × Int) : cnt (cntTouch c k).1 k' = cnt c k' := by
  unfold cntTouch cnt
  cases h2 : aGet c k with
  | some v => simp
  | none =>
    by_cases h : k' = k
    · subst h; simp [aGet_aSet_self, h2]
    · simp [aGet_aSet_ne _ _ _ _ h]

/-! ## 2. a relational description of `dispatch` -/

/-- `q'` differs from `q` at most in the first-time filters `send/echo/ready/request/answer`
    (which only grow) -/
structure SameCore (q q' : Party) : Prop where
  n : q'.n = q.n
  t : q'.t = q.t
  j : q'.j = q.j
  fifo : q'.fifo = q.fifo
  fifoSkip : q'.fifoSkip = q.fifoSkip
  ID : q'.ID = q.ID
  deliverS : q'.deliverS = q.deliverS
  bufMsg : q'.bufMsg = q.bufMsg
  mbar : q'.mbar = q.mbar
  dbar : q'.dbar = q.dbar
  eD : q'.eD = q.eD
  rD : q'.rD = q.rD
  retrieveBuf : q'.retrieveBuf = q.retrieveBuf
  deliverBuf : q'.deliverBuf = q.deliverBuf
  deliver : q'.deliver = q.deliver
  retrieve : q'.retrieve = q.retrieve
  awaited : q'.awaited = q.awaited
  send : ∀ a b, fHas q.send a b = true → fHas q'.send a b = true
  echo : ∀ a b, fHas q.echo a b = true → fHas q'.echo a b = true
  ready : ∀ a b, fHas q.ready a b = true → fHas q'.ready a b = true

theorem SameCore.refl (q : Party) : SameCore q q :=
  ⟨rfl, rfl, rfl, rfl, rfl, rfl, rfl, rfl, rfl, rfl, rfl, rfl, rfl, rfl, rfl, rfl, rfl,
   fun _ _ h => h, fun _ _ h => h, fun _ _ h => h⟩

theorem SameCore.mkSend (q : Party) (l : Nat) (tg : Tag) :
    SameCore q { q with send := fIns q.send l tg } :=
  { SameCore.refl q with send := fun _ _ h => fHas_fIns_mono _ _ _ _ _ h }

theorem SameCore.mkEcho (q : Party) (l : Nat) (tg : Tag) :
    SameCore q { q with echo := fIns q.echo l tg } :=
  { SameCore.refl q with echo := fun _ _ h => fHas_fIns_mono _ _ _ _ _ h }

theorem SameCore.mkReady (q : Party) (l : Nat) (tg : Tag) :
    SameCore q { q with ready := fIns q.ready l tg } :=
  { SameCore.refl q with ready := fun _ _ h => fHas_fIns_mono _ _ _ _ _ h }

theorem SameCore.mkRequest (q : Party) (f : Filter) : SameCore q { q with request := f } :=
  { SameCore.refl q with }

theorem SameCore.mkAnswer (q : Party) (f : Filter) : SameCore q { q with answer := f } :=
  { SameCore.refl q with }

/-- the range checks every message passes before it has any effect -/
def WF (q : Party) (msg : Msg) : Prop :=
  0 ≤ msg.sender ∧ msg.sender ≤ (q.n : Int) - 1 ∧ 1 ≤ msg.seq

/-- the party after an accepted r-echo -/
def echoPost (q : Party) (l : Nat) (msg : Msg) : Party :=
  { q with echo := fIns q.echo l msg.tag,
           eD := (cntInc q.eD (msg.tag, msg.payload)).1,
           rD := (cntTouch q.rD (msg.tag, msg.payload)).1 }

/-- the party after an accepted r-ready (before `dbar` is touched) -/
def readyPost (q : Party) (l : Nat) (msg : Msg) : Party :=
  { q with ready := fIns q.ready l msg.tag,
           eD := (cntTouch q.eD (msg.tag, msg.payload)).1,
           rD := (cntInc q.rD (msg.tag, msg.payload)).1 }

/-- the party after an accepted l-deliver (before `mbar` is touched) -/
def ldelBuf (q : Party) (l : Nat) (msg : Msg) : List Int :=
  ((aGet q.retrieveBuf msg.tag).getD (List.replicate q.n 0)).set l msg.payload

def ldelPost (q : Party) (l : Nat) (msg : Msg) : Party :=
  { q with deliver := fIns q.deliver l msg.tag,
           retrieveBuf := aSet q.retrieveBuf msg.tag (ldelBuf q l msg) }

/-- all the ways `dispatch` can treat the message `msg` handed over by link `l`:
    resulting party, messages sent by this call, outcome -/
inductive Disp (H : Int → Int) (q : Party) (l : Nat) (msg : Msg) : Party → Sent → Outcome → Prop
  /-- nothing but first-time filters changes; at most r-request / r-answer / l-fail are sent -/
  | minor (q' : Party) (s : Sent) (hc : SameCore q q')
      (hs : ∀ x ∈ s, x.2.action = rRequest ∨ x.2.action = rAnswer ∨ x.2.action = lFail) :
      Disp H q l msg q' s .idle
  /-- first r-send of the tag, nothing stored yet: store and echo -/
  | echoNew (wf : WF q msg) (hact : msg.action = rSend) (hnew : fHas q.send l msg.tag = false)
      (hl : msg.sender = (l : Int)) (hm : aGet q.mbar msg.tag = none) :
      Disp H q l msg
        { q with send := fIns q.send l msg.tag, mbar := aSet q.mbar msg.tag msg.payload }
        (sendAll q.n ⟨msg.id, msg.sender, msg.seq, rEcho, H msg.payload⟩) .idle
  /-- first r-send of the tag, the same payload is stored already: echo -/
  | echoOld (wf : WF q msg) (hact : msg.action = rSend) (hnew : fHas q.send l msg.tag = false)
      (hl : msg.sender = (l : Int)) (hm : aGet q.mbar msg.tag = some msg.payload) :
      Disp H q l msg
        { q with send := fIns q.send l msg.tag }
        (sendAll q.n ⟨msg.id, msg.sender, msg.seq, rEcho, H msg.payload⟩) .idle
  /-- a counted r-echo; possibly the echo quorum -/
  | echoCount (wf : WF q msg) (hact : msg.action = rEcho) (hnew : fHas q.echo l msg.tag = false)
      (s : Sent)
      (hs : s = [] ∨ (s = sendAll q.n ⟨msg.id, msg.sender, msg.seq, rReady, msg.payload⟩ ∧
                      cnt q.eD (msg.tag, msg.payload) + 1 = q.n - q.t)) :
      Disp H q l msg (echoPost q l msg) s .idle
  /-- a counted r-ready that does not touch `dbar` and does not deliver -/
  | readyCount (wf : WF q msg) (hact : msg.action = rReady) (hnew : fHas q.ready l msg.tag = false)
      (s : Sent)
      (hs : s = [] ∨
            (s = sendAll q.n ⟨msg.id, msg.sender, msg.seq, rReady, msg.payload⟩ ∧
             cnt q.rD (msg.tag, msg.payload) + 1 = q.t + 1)) :
      Disp H q l msg (readyPost q l msg) s .idle
  /-- the `2t+1`-st r-ready (fixes `dbar` if it is not set); payload unknown: r-request,
      the tag becomes awaited -/
  | readyReq (wf : WF q msg) (hact : msg.action = rReady) (hnew : fHas q.ready l msg.tag = false)
      (hr : cnt q.rD (msg.tag, msg.payload) + 1 = 2 * q.t + 1) (p3 : Party)
      (hd : (aGet q.dbar msg.tag = none ∧
              p3 = { readyPost q l msg with dbar := aSet q.dbar msg.tag msg.payload }) ∨
            (aGet q.dbar msg.tag = some msg.payload ∧ p3 = readyPost q l msg))
      (s : Sent) (hs : ∀ x ∈ s, x.2.action = rRequest) :
      Disp H q l msg
        { p3 with awaited := if q.awaited.contains msg.tag then q.awaited
                             else msg.tag :: q.awaited } s .idle
  /-- the `2t+1`-st r-ready, stored payload matches `dbar`: deliver or buffer -/
  | readyDeliver (wf : WF q msg) (hact : msg.action = rReady) (hnew : fHas q.ready l msg.tag = false)
      (hr : cnt q.rD (msg.tag, msg.payload) + 1 = 2 * q.t + 1) (p3 : Party)
      (hd : (aGet q.dbar msg.tag = none ∧
              p3 = { readyPost q l msg with dbar := aSet q.dbar msg.tag msg.payload }) ∨
            (aGet q.dbar msg.tag = some msg.payload ∧ p3 = readyPost q l msg))
      (hfoo : (aGet q.mbar msg.tag = none ∧ msg.payload = 0) ∨
              (∃ mb, aGet q.mbar msg.tag = some mb ∧ H mb = msg.payload)) :
      Disp H q l msg (deliverOrBuffer p3 msg []).party (deliverOrBuffer p3 msg []).sent
        (deliverOrBuffer p3 msg []).out
  /-- a valid r-answer for an awaited tag -/
  | answerDeliver (wf : WF q msg) (hact : msg.action = rAnswer)
      (hnew : fHas q.answer l msg.tag = false) (db : Int) (hd : aGet q.dbar msg.tag = some db)
      (haw : q.awaited.contains msg.tag = true) (hh : H msg.payload = db) (p2 : Party)
      (hp2 : p2 = { q with answer := fIns q.answer l msg.tag,
                           mbar := aSet q.mbar msg.tag msg.payload,
                           awaited := q.awaited.erase msg.tag }) :
      Disp H q l msg (deliverOrBuffer p2 msg []).party (deliverOrBuffer p2 msg []).sent
        (deliverOrBuffer p2 msg []).out
  /-- an l-retrieve that is answered with the stored payload -/
  | retrieveAns (wf : WF q msg) (hact : msg.action = lRetrieve) (mb : Int)
      (hm : aGet q.mbar msg.tag = some mb)
      (hc : (q.fifo = true ∧ msg.seq < q.dS msg.sender.toNat) ∨ q.fifo = false) :
      Disp H q l msg q [(l, ⟨msg.id, msg.sender, msg.seq, lDeliver, mb⟩)] .idle
  /-- an accepted l-deliver without a decision -/
  | ldelMark (wf : WF q msg) (hact : msg.action = lDeliver)
      (hnew : fHas q.deliver l msg.tag = false) (hretr : fHas q.retrieve l msg.tag = true) :
      Disp H q l msg (ldelPost q l msg) [] .idle
  /-- an accepted l-deliver with `n - t` agreeing answers -/
  | ldelDeliver (wf : WF q msg) (hact : msg.action = lDeliver)
      (hnew : fHas q.deliver l msg.tag = false) (hretr : fHas q.retrieve l msg.tag = true)
      (i : Nat) (hi : agreeFind (ldelPost q l msg) msg.tag (ldelBuf q l msg) (List.range q.n) = some i)
      (p3 : Party)
      (hp3 : p3 = { ldelPost q l msg with
                    mbar := aSet q.mbar msg.tag ((ldelBuf q l msg).getD i 0) }) :
      Disp H q l msg (deliverOrBuffer p3 msg []).party (deliverOrBuffer p3 msg []).sent
        (deliverOrBuffer p3 msg []).out

theorem result_eta (r : Result) : r = ⟨r.party, r.sent, r.out⟩ := by cases r; rfl

theorem dob_sent_nil (p : Party) (msg : Msg) : (deliverOrBuffer p msg []).sent = [] := by
  unfold deliverOrBuffer
  simp only []
  split_ifs
  · split <;> rfl
  · rfl

theorem dispatch_cases (H : Int → Int) (T : Tag → Int) (q : Party) (sent0 : Sent) (l : Nat)
    (msg : Msg) :
    ∃ q' s o, Disp H q l msg q' s o ∧ dispatch H T q sent0 l msg = ⟨q', sent0 ++ s, o⟩ := by
  unfold dispatch
  simp only []
  by_cases h1 : msg.sender > ((q.n : Int) - 1) ∨ msg.sender < 0
  · rw [if_pos h1]
    exact ⟨q, [], .idle, .minor q [] (SameCore.refl q) (by simp), rfl⟩
  rw [if_neg h1]
  by_cases h2 : msg.seq < 1
  · rw [if_pos h2]
    exact ⟨q, [], .idle, .minor q [] (SameCore.refl q) (by simp), rfl⟩
  rw [if_neg h2]
  have wf : WF q msg := by
    unfold WF
    simp only [not_or, not_lt, gt_iff_lt] at h1 h2
    omega
  have minorRefl : ∃ q' s o, Disp H q l msg q' s o ∧
      (⟨q, sent0 ++ [], Outcome.idle⟩ : Result) = ⟨q', sent0 ++ s, o⟩ :=
    ⟨q, [], .idle, .minor q [] (SameCore.refl q) (by simp), rfl⟩
  by_cases h3 : msg.action < rSend ∨ msg.action > lDeliver
  · rw [if_pos h3]; exact minorRefl
  rw [if_neg h3]
  by_cases hS : msg.action = rSend
  · rw [if_pos hS]
    by_cases hf : fHas q.send l msg.tag = true
    · simp only [hf, Bool.not_true, Bool.false_eq_true, if_false]; exact minorRefl
    · have hf0 : fHas q.send l msg.tag = false := by simpa using hf
      simp only [hf0, Bool.not_false, if_true]
      by_cases hl : msg.sender ≠ (l : Int)
      · rw [if_pos hl]
        exact ⟨_, [], .idle, .minor _ [] (SameCore.mkSend q l msg.tag) (by simp), rfl⟩
      · rw [if_neg hl]
        simp only [ne_eq, not_not] at hl
        cases hm : aGet q.mbar msg.tag with
        | none =>
          simp only []
          exact ⟨_, _, .idle, .echoNew wf hS hf0 hl hm, rfl⟩
        | some mb =>
          simp only []
          by_cases hmb : mb ≠ msg.payload
          · rw [if_pos hmb]
            exact ⟨_, [], .idle, .minor _ [] (SameCore.mkSend q l msg.tag) (by simp), rfl⟩
          · rw [if_neg hmb]
            simp only [ne_eq, not_not] at hmb
            subst hmb
            exact ⟨_, _, .idle, .echoOld wf hS hf0 hl hm, rfl⟩
  rw [if_neg hS]
  by_cases hE : msg.action = rEcho
  · rw [if_pos hE]
    by_cases hf : fHas q.echo l msg.tag = true
    · simp only [hf, Bool.not_true, Bool.false_eq_true, if_false]; exact minorRefl
    · have hf0 : fHas q.echo l msg.tag = false := by simpa using hf
      simp only [hf0, Bool.not_false, if_true]
      by_cases hlen : ioLen msg.payload > 2 * ioLen (T msg.tag)
      · rw [if_pos hlen]
        exact ⟨_, [], .idle, .minor _ [] (SameCore.mkEcho q l msg.tag) (by simp), rfl⟩
      · rw [if_neg hlen]
        by_cases hq : (cntInc q.eD (msg.tag, msg.payload)).2 = q.n - q.t ∧
            (cntTouch q.rD (msg.tag, msg.payload)).2 ≤ q.t
        · rw [if_pos hq]
          refine ⟨_, _, .idle, .echoCount wf hE hf0 _ (Or.inr ⟨rfl, ?_⟩), rfl⟩
          rw [← cntInc_snd]; exact hq.1
        · rw [if_neg hq]
          exact ⟨_, _, .idle, .echoCount wf hE hf0 _ (Or.inl rfl), rfl⟩
  rw [if_neg hE]
  by_cases hR : msg.action = rReady
  · rw [if_pos hR]
    by_cases hf : fHas q.ready l msg.tag = true
    · simp only [hf, Bool.not_true, Bool.false_eq_true, if_false]; exact minorRefl
    · have hf0 : fHas q.ready l msg.tag = false := by simpa using hf
      simp only [hf0, Bool.not_false, if_true]
      by_cases hlen : ioLen msg.payload > 2 * ioLen (T msg.tag)
      · rw [if_pos hlen]
        exact ⟨_, [], .idle, .minor _ [] (SameCore.mkReady q l msg.tag) (by simp), rfl⟩
      · rw [if_neg hlen]
        have hreq : ∀ x ∈ List.map (fun i => (i, (⟨msg.id, msg.sender, msg.seq, rRequest,
            msg.payload⟩ : Msg))) (List.range (2 * q.t + 1)), x.2.action = rRequest := by
          intro x hx
          obtain ⟨i, _, rfl⟩ := List.mem_map.1 hx
          rfl
        by_cases hq : q.t > 0 ∧ (cntInc q.rD (msg.tag, msg.payload)).2 = q.t + 1 ∧
            (cntTouch q.eD (msg.tag, msg.payload)).2 < q.n - q.t
        · rw [if_pos hq]
          refine ⟨_, _, .idle, .readyCount wf hR hf0 _ (Or.inr ⟨rfl, ?_⟩), rfl⟩
          rw [← cntInc_snd]; exact hq.2.1
        · rw [if_neg hq]
          by_cases hr : (cntInc q.rD (msg.tag, msg.payload)).2 = 2 * q.t + 1
          · rw [if_pos hr]
            have hr' : cnt q.rD (msg.tag, msg.payload) + 1 = 2 * q.t + 1 := by
              rw [← cntInc_snd]; exact hr
            cases hd : aGet q.dbar msg.tag with
            | none =>
              simp only [aGet_aSet_self, Option.getD_some]
              cases hm : aGet q.mbar msg.tag with
              | none =>
                simp only []
                by_cases hfoo : (0 : Int) ≠ msg.payload
                · rw [if_pos hfoo]
                  exact ⟨_, _, .idle, .readyReq wf hR hf0 hr' _ (Or.inl ⟨hd, rfl⟩) _ hreq, rfl⟩
                · rw [if_neg hfoo]
                  simp only [ne_eq, not_not] at hfoo
                  exact ⟨_, _, _, .readyDeliver wf hR hf0 hr' _ (Or.inl ⟨hd, rfl⟩)
                    (Or.inl ⟨hm, hfoo.symm⟩), rfl⟩
              | some mb =>
                simp only []
                by_cases hfoo : H mb ≠ msg.payload
                · rw [if_pos hfoo]
                  exact ⟨_, _, .idle, .readyReq wf hR hf0 hr' _ (Or.inl ⟨hd, rfl⟩) _ hreq, rfl⟩
                · rw [if_neg hfoo]
                  simp only [ne_eq, not_not] at hfoo
                  exact ⟨_, _, _, .readyDeliver wf hR hf0 hr' _ (Or.inl ⟨hd, rfl⟩)
                    (Or.inr ⟨mb, hm, hfoo⟩), rfl⟩
            | some db =>
              simp only []
              by_cases hdb : db ≠ msg.payload
              · rw [if_pos hdb]
                simp only []
                exact ⟨_, _, .idle, .readyCount wf hR hf0 _ (Or.inl rfl), rfl⟩
              · rw [if_neg hdb]
                simp only [ne_eq, not_not] at hdb
                subst hdb
                simp only [hd, Option.getD_some]
                cases hm : aGet q.mbar msg.tag with
                | none =>
                  simp only []
                  by_cases hfoo : (0 : Int) ≠ msg.payload
                  · rw [if_pos hfoo]
                    exact ⟨_, _, .idle, .readyReq wf hR hf0 hr' _ (Or.inr ⟨hd, rfl⟩) _ hreq, rfl⟩
                  · rw [if_neg hfoo]
                    simp only [ne_eq, not_not] at hfoo
                    exact ⟨_, _, _, .readyDeliver wf hR hf0 hr' _ (Or.inr ⟨hd, rfl⟩)
                      (Or.inl ⟨hm, hfoo.symm⟩), rfl⟩
                | some mb =>
                  simp only []
                  by_cases hfoo : H mb ≠ msg.payload
                  · rw [if_pos hfoo]
                    exact ⟨_, _, .idle, .readyReq wf hR hf0 hr' _ (Or.inr ⟨hd, rfl⟩) _ hreq, rfl⟩
                  · rw [if_neg hfoo]
                    simp only [ne_eq, not_not] at hfoo
                    exact ⟨_, _, _, .readyDeliver wf hR hf0 hr' _ (Or.inr ⟨hd, rfl⟩)
                      (Or.inr ⟨mb, hm, hfoo⟩), rfl⟩
          · rw [if_neg hr]
            exact ⟨_, _, .idle, .readyCount wf hR hf0 _ (Or.inl rfl), rfl⟩
  rw [if_neg hR]
  by_cases hQ : msg.action = rRequest
  · rw [if_pos hQ]
    by_cases hf : fHas q.request l msg.tag = true
    · simp only [hf, Bool.not_true, Bool.false_eq_true, if_false]; exact minorRefl
    · have hf0 : fHas q.request l msg.tag = false := by simpa using hf
      simp only [hf0, Bool.not_false, if_true]
      cases hm : aGet q.mbar msg.tag with
      | none =>
        simp only []
        exact ⟨_, [], .idle, .minor _ [] (SameCore.mkRequest q _) (by simp), rfl⟩
      | some mb =>
        simp only []
        refine ⟨_, _, .idle, .minor _ _ (SameCore.mkRequest q _) ?_, rfl⟩
        intro x hx
        simp only [List.mem_singleton] at hx
        subst hx
        exact Or.inr (Or.inl rfl)
  rw [if_neg hQ]
  by_cases hA : msg.action = rAnswer
  · rw [if_pos hA]
    by_cases hf : fHas q.answer l msg.tag = true
    · simp only [hf, Bool.not_true, Bool.false_eq_true, if_false]; exact minorRefl
    · have hf0 : fHas q.answer l msg.tag = false := by simpa using hf
      simp only [hf0, Bool.not_false, if_true]
      cases hd : aGet q.dbar msg.tag with
      | none =>
        simp only []
        exact ⟨_, [], .idle, .minor _ [] (SameCore.mkAnswer q _) (by simp), rfl⟩
      | some db =>
        simp only []
        have hmark : ∃ q' s o, Disp H q l msg q' s o ∧
            (⟨{ q with answer := fIns q.answer l msg.tag }, sent0 ++ [], Outcome.idle⟩ : Result)
              = ⟨q', sent0 ++ s, o⟩ :=
          ⟨_, [], .idle, .minor _ [] (SameCore.mkAnswer q _) (by simp), rfl⟩
        by_cases haw : q.awaited.contains msg.tag = true
        · simp only [haw, Bool.not_true, Bool.false_eq_true, if_false]
          by_cases hh : H msg.payload = db
          · rw [if_pos hh]
            exact ⟨_, _, _, .answerDeliver wf hA hf0 db hd haw hh _ rfl, rfl⟩
          · rw [if_neg hh]; exact hmark
        · have haw0 : q.awaited.contains msg.tag = false := by simpa using haw
          simp only [haw0, Bool.not_false, if_true]
          exact hmark
  rw [if_neg hA]
  by_cases hL : msg.action = lRetrieve
  · rw [if_pos hL]
    have hfail : ∃ q' s o, Disp H q l msg q' s o ∧
        (⟨q, sent0 ++ [(l, (⟨msg.id, msg.sender, msg.seq, lFail, lFail⟩ : Msg))], Outcome.idle⟩
          : Result) = ⟨q', sent0 ++ s, o⟩ := by
      refine ⟨_, _, .idle, .minor _ _ (SameCore.refl q) ?_, rfl⟩
      intro x hx
      simp only [List.mem_singleton] at hx
      subst hx
      exact Or.inr (Or.inr rfl)
    cases hm : aGet q.mbar msg.tag with
    | none => simp only []; exact hfail
    | some mb =>
      simp only []
      by_cases hc : (q.fifo = true ∧ msg.seq < q.dS msg.sender.toNat) ∨ ¬q.fifo = true
      · rw [if_pos hc]
        refine ⟨_, _, .idle, .retrieveAns wf hL mb hm ?_, rfl⟩
        rcases hc with hc | hc
        · exact Or.inl hc
        · exact Or.inr (by simpa using hc)
      · rw [if_neg hc]; exact hfail
  rw [if_neg hL]
  by_cases hD : msg.action = lDeliver
  · rw [if_pos hD]
    by_cases hf : fHas q.deliver l msg.tag = true
    · simp only [hf, Bool.not_true, Bool.false_eq_true, if_false]; exact minorRefl
    · have hf0 : fHas q.deliver l msg.tag = false := by simpa using hf
      simp only [hf0, Bool.not_false, if_true]
      by_cases hr : fHas q.retrieve l msg.tag = true
      · simp only [hr, Bool.not_true, Bool.false_eq_true, if_false]
        change ∃ q' s o, Disp H q l msg q' s o ∧
          (if deliverNum (ldelPost q l msg) msg.tag < q.n - q.t then
            (⟨ldelPost q l msg, sent0 ++ [], Outcome.idle⟩ : Result)
           else match agreeFind (ldelPost q l msg) msg.tag (ldelBuf q l msg) (List.range q.n) with
            | none => ⟨ldelPost q l msg, sent0 ++ [], Outcome.idle⟩
            | some i =>
              ⟨(deliverOrBuffer { ldelPost q l msg with
                  mbar := aSet q.mbar msg.tag ((ldelBuf q l msg).getD i 0) } msg []).party,
               sent0 ++ (deliverOrBuffer { ldelPost q l msg with
                  mbar := aSet q.mbar msg.tag ((ldelBuf q l msg).getD i 0) } msg []).sent,
               (deliverOrBuffer { ldelPost q l msg with
                  mbar := aSet q.mbar msg.tag ((ldelBuf q l msg).getD i 0) } msg []).out⟩)
            = ⟨q', sent0 ++ s, o⟩
        by_cases hn : deliverNum (ldelPost q l msg) msg.tag < q.n - q.t
        · rw [if_pos hn]
          exact ⟨_, _, .idle, .ldelMark wf hD hf0 hr, rfl⟩
        · rw [if_neg hn]
          cases hi : agreeFind (ldelPost q l msg) msg.tag (ldelBuf q l msg) (List.range q.n) with
          | none => exact ⟨_, _, .idle, .ldelMark wf hD hf0 hr, rfl⟩
          | some i => exact ⟨_, _, _, .ldelDeliver wf hD hf0 hr i hi _ rfl, rfl⟩
      · have hr0 : fHas q.retrieve l msg.tag = false := by simpa using hr
        simp only [hr0, Bool.not_false, if_true]; exact minorRefl
  rw [if_neg hD]
  exfalso
  simp only [rSend, rEcho, rReady, rRequest, rAnswer, lRetrieve, lDeliver] at *
  omega


/-! ## 3. `deliverOrBuffer`, `phaseBuffer`, `step` -/

theorem dob_cases (p : Party) (msg : Msg) :
    (msg.id = p.ID ∧ (p.fifo = true → msg.seq = p.dS msg.sender.toNat) ∧
      aGet p.mbar msg.tag = none ∧ deliverOrBuffer p msg [] = ⟨p, [], .threw⟩) ∨
    (∃ m, msg.id = p.ID ∧ (p.fifo = true → msg.seq = p.dS msg.sender.toNat) ∧
      aGet p.mbar msg.tag = some m ∧
      deliverOrBuffer p msg [] =
        ⟨{ p with deliverS := p.deliverS.set msg.sender.toNat (p.dS msg.sender.toNat + 1) }, [],
         .delivered msg.sender.toNat m⟩) ∨
    ((msg.id ≠ p.ID ∨ (p.fifo = true ∧ msg.seq ≠ p.dS msg.sender.toNat)) ∧
      deliverOrBuffer p msg [] = ⟨{ p with deliverBuf := p.deliverBuf ++ [msg] }, [], .idle⟩) := by
  unfold deliverOrBuffer
  simp only []
  by_cases hc : msg.id = p.ID ∧ (p.fifo = true ∧ msg.seq = p.dS msg.sender.toNat ∨ ¬p.fifo = true)
  · rw [if_pos hc]
    have h2 : p.fifo = true → msg.seq = p.dS msg.sender.toNat := by
      intro hf
      rcases hc.2 with h | h
      · exact h.2
      · exact absurd hf h
    cases hm : aGet p.mbar msg.tag with
    | none => exact Or.inl ⟨hc.1, h2, rfl, rfl⟩
    | some m => exact Or.inr (Or.inl ⟨m, hc.1, h2, rfl, rfl⟩)
  · rw [if_neg hc]
    refine Or.inr (Or.inr ⟨?_, rfl⟩)
    by_cases hid : msg.id = p.ID
    · right
      by_cases hf : p.fifo = true
      · refine ⟨hf, fun hs => hc ⟨hid, Or.inl ⟨hf, hs⟩⟩⟩
      · exact absurd ⟨hid, Or.inr hf⟩ hc
    · exact Or.inl hid

theorem findFirst_some {α} (q : α → Bool) : ∀ (l : List α) (e : α) (rest : List α),
    findFirst q l = some (e, rest) → e ∈ l ∧ q e = true ∧ ∀ x ∈ rest, x ∈ l := by
  intro l
  induction l with
  | nil => intro e rest h; simp [findFirst] at h
  | cons x xs ih =>
    intro e rest h
    unfold findFirst at h
    by_cases hq : q x = true
    · rw [if_pos hq] at h
      simp only [Option.some.injEq, Prod.mk.injEq] at h
      obtain ⟨rfl, rfl⟩ := h
      exact ⟨List.mem_cons_self, hq, fun y hy => List.mem_cons_of_mem _ hy⟩
    · rw [if_neg hq] at h
      cases hr : findFirst q xs with
      | none => rw [hr] at h; simp at h
      | some yr =>
        obtain ⟨y, r⟩ := yr
        rw [hr] at h
        simp only [Option.some.injEq, Prod.mk.injEq] at h
        obtain ⟨rfl, rfl⟩ := h
        obtain ⟨h1, h2, h3⟩ := ih y r hr
        refine ⟨List.mem_cons_of_mem _ h1, h2, ?_⟩
        intro z hz
        rcases List.mem_cons.1 hz with rfl | hz
        · exact List.mem_cons_self
        · exact List.mem_cons_of_mem _ (h3 z hz)

/-- every message produced by the out-of-order handler is an l-retrieve -/
def RetrOk (acc : RetrAcc) : Prop := ∀ x ∈ acc.sent, x.2.action = lRetrieve

theorem retrInner_ok (j : Nat) (dF : Filter) (m : Msg) (hm : m.action = lRetrieve)
    (acc : RetrAcc) (i : Nat) (h : RetrOk acc) : RetrOk (retrInner j dF m acc i) := by
  unfold retrInner
  split_ifs
  · exact h
  · exact h
  · exact h
  · intro x hx
    simp only [List.mem_append, List.mem_singleton] at hx
    rcases hx with hx | rfl
    · exact h x hx
    · exact hm

theorem foldl_inv {α β} (P : β → Prop) (f : β → α → β) (hf : ∀ b a, P b → P (f b a)) :
    ∀ (l : List α) (b : β), P b → P (l.foldl f b) := by
  intro l
  induction l with
  | nil => intro b hb; exact hb
  | cons a l ih => intro b hb; exact ih _ (hf b a hb)

theorem retrWhile_ok (n j : Nat) (dF : Filter) (e : Msg) (minS : Int) :
    ∀ (fuel : Nat) (foo : Int) (acc : RetrAcc), RetrOk acc →
      RetrOk (retrWhile n j dF e minS fuel foo acc) := by
  intro fuel
  induction fuel with
  | zero => intro foo acc h; exact h
  | succ f ih =>
    intro foo acc h
    unfold retrWhile
    split_ifs
    · exact ih _ _ (foldl_inv RetrOk _ (fun b a hb => retrInner_ok j dF _ rfl b a hb) _ _ h)
    · exact h

theorem retrOuter_ok (p : Party) (ds : List Int) (sc : Scan) (acc : RetrAcc) (who : Nat)
    (h : RetrOk acc) : RetrOk (retrOuter p ds sc acc who) := by
  unfold retrOuter
  split
  · exact h
  · exact retrWhile_ok _ _ _ _ _ _ _ _ h


/-- the party after the housekeeping part of `phaseBuffer` (`fifo_skip = 0`) -/
def hkParty (p : Party) (R : Filter) : Party :=
  { p with retrieve := R, deliverBuf := p.deliverBuf.filter fun e => !obsolete p e }

theorem phaseBuffer_cases (p : Party) (hskip : p.fifoSkip = 0) :
    (∃ e rest, findFirst (deliverable p) p.deliverBuf = some (e, rest) ∧
        aGet p.mbar e.tag = none ∧ phaseBuffer p = .inl ⟨p, [], .threw⟩) ∨
    (∃ e rest m, findFirst (deliverable p) p.deliverBuf = some (e, rest) ∧
        aGet p.mbar e.tag = some m ∧
        phaseBuffer p = .inl ⟨{ p with
          deliverS := p.deliverS.set e.sender.toNat (p.dS e.sender.toNat + 1),
          deliverBuf := rest }, [], .delivered e.sender.toNat m⟩) ∨
    (findFirst (deliverable p) p.deliverBuf = none ∧
      ∃ R s, phaseBuffer p = .inr (hkParty p R, s) ∧ (p.fifo = false → R = p.retrieve) ∧
        ∀ x ∈ s, x.2.action = lRetrieve) := by
  unfold phaseBuffer
  cases hff : findFirst (deliverable p) p.deliverBuf with
  | some er =>
    obtain ⟨e, rest⟩ := er
    simp only []
    cases hm : aGet p.mbar e.tag with
    | none => exact Or.inl ⟨e, rest, rfl, hm, rfl⟩
    | some m => exact Or.inr (Or.inl ⟨e, rest, m, rfl, hm, rfl⟩)
  | none =>
    simp only []
    refine Or.inr (Or.inr ⟨trivial, ?_⟩)
    have h1 : ¬(p.fifo = true ∧ p.fifoSkip > 0) := by omega
    rw [if_neg h1]
    simp only []
    by_cases hf : p.fifo = true ∧ p.fifoSkip = 0
    · rw [if_pos hf]
      refine ⟨_, _, rfl, ?_, ?_⟩
      · intro h; rw [hf.1] at h; cases h
      · exact foldl_inv RetrOk _ (fun b a hb => retrOuter_ok _ _ _ b a hb) _ _
          (by intro x hx; simp at hx)
    · rw [if_neg hf]
      refine ⟨_, _, rfl, fun _ => rfl, ?_⟩
      intro x hx; simp at hx


theorem takeBuffered_replicate (n : Nat) (pi : List Nat) :
    takeBuffered (List.replicate n []) pi = none := by
  induction pi with
  | nil => rfl
  | cons i rest ih =>
    unfold takeBuffered
    have : (List.replicate n ([] : List Int)).getD i [] = [] := by
      simp [List.getD_eq_getElem?_getD, List.getElem?_replicate]
      split_ifs <;> rfl
    rw [this]
    exact ih

/-- the message whose processing a `step` is about: the buffered message that is let out of
    `deliver_buf`, else the message taken from `buf_msg`, else the received one -/
def stepMsg (p : Party) (pi : List Nat) (inp : Option (Nat × Msg)) : Option Msg :=
  match findFirst (deliverable p) p.deliverBuf with
  | some (e, _) => some e
  | none =>
    match takeBuffered p.bufMsg pi with
    | some (_, msg, _) => some msg
    | none => inp.map (·.2)

/-- the tag a `step` delivers, when it delivers (`Outcome.delivered` carries only the sender) -/
def deliveredTag (p : Party) (pi : List Nat) (inp : Option (Nat × Msg)) : Tag :=
  ((stepMsg p pi inp).map Msg.tag).getD default

/-- all the ways one `step` can go (`fifo_skip = 0`, nothing queued in `buf_msg`) -/
theorem step_cases (H : Int → Int) (T : Tag → Int) (p : Party) (pi : List Nat)
    (inp : Option (Nat × Msg)) (hskip : p.fifoSkip = 0) (hbuf : p.bufMsg = List.replicate p.n []) :
    (∃ e rest, findFirst (deliverable p) p.deliverBuf = some (e, rest) ∧
        aGet p.mbar e.tag = none ∧ step H T p pi inp = ⟨p, [], .threw⟩) ∨
    (∃ e rest m, findFirst (deliverable p) p.deliverBuf = some (e, rest) ∧
        aGet p.mbar e.tag = some m ∧ deliveredTag p pi inp = e.tag ∧
        step H T p pi inp = ⟨{ p with
          deliverS := p.deliverS.set e.sender.toNat (p.dS e.sender.toNat + 1),
          deliverBuf := rest }, [], .delivered e.sender.toNat m⟩) ∨
    (findFirst (deliverable p) p.deliverBuf = none ∧
      ∃ R s0, (p.fifo = false → R = p.retrieve) ∧ (∀ x ∈ s0, x.2.action = lRetrieve) ∧
        ((inp = none ∧ step H T p pi inp = ⟨hkParty p R, s0, .idle⟩) ∨
         (∃ l msg q' s o, inp = some (l, msg) ∧ deliveredTag p pi inp = msg.tag ∧
            Disp H (hkParty p R) l msg q' s o ∧
            step H T p pi inp = ⟨q', s0 ++ s, o⟩))) := by
  rcases phaseBuffer_cases p hskip with ⟨e, rest, hff, hm, hpb⟩ | ⟨e, rest, m, hff, hm, hpb⟩ |
    ⟨hff, R, s0, hpb, hR, hs0⟩
  · left
    refine ⟨e, rest, hff, hm, ?_⟩
    unfold step; rw [hpb]
  · right; left
    refine ⟨e, rest, m, hff, hm, ?_, ?_⟩
    · unfold deliveredTag stepMsg; rw [hff]; rfl
    · unfold step; rw [hpb]
  · right; right
    refine ⟨hff, R, s0, hR, hs0, ?_⟩
    have htb : takeBuffered (hkParty p R).bufMsg pi = none := by
      show takeBuffered p.bufMsg pi = none
      rw [hbuf]; exact takeBuffered_replicate _ _
    have htb' : takeBuffered p.bufMsg pi = none := htb
    cases inp with
    | none =>
      left
      refine ⟨rfl, ?_⟩
      unfold step; rw [hpb]; simp only []; rw [htb]
    | some lm =>
      obtain ⟨l, msg⟩ := lm
      right
      obtain ⟨q', s, o, hD, hEq⟩ := dispatch_cases H T (hkParty p R) s0 l msg
      refine ⟨l, msg, q', s, o, rfl, ?_, hD, ?_⟩
      · unfold deliveredTag stepMsg; rw [hff]; simp only []; rw [htb']; rfl
      · unfold step; rw [hpb]; simp only []; rw [htb]; exact hEq


/-! ## 4. the system model

  `n` parties; the parties in `byz` (at most `t`, all `< n`… see `Event.Valid`) are Byzantine and
  are not modelled at all: the adversary may hand ANY message to an honest party under the link
  identity of a Byzantine party.  Honest parties run `step` / `broadcast` of the model on one
  channel `ID` in one mode.  The network may duplicate, reorder and lose messages: an honest party
  may be handed any message that some honest party ever sent to it, any number of times. -/

structure Cfg where
  n : Nat
  t : Nat
  byz : Finset Nat
  ID : Int
  fifo : Bool

def Cfg.honest (c : Cfg) (i : Nat) : Prop := i < c.n ∧ i ∉ c.byz

instance (c : Cfg) (i : Nat) : Decidable (c.honest i) := by unfold Cfg.honest; infer_instance

structure Sys where
  /-- states of the parties (only those of honest parties are ever touched) -/
  st : Nat → Party
  /-- every message an honest party ever sent: (source, destination, message) -/
  log : List (Nat × Nat × Msg)
  /-- honest broadcasts (party, tag, value) -/
  bc : List (Nat × Tag × Int)
  /-- honest deliveries (party, tag, value) -/
  dl : List (Nat × Tag × Int)

def initParty (c : Cfg) (i : Nat) : Party :=
  { Party.init c.n c.t i 0 with ID := c.ID, fifo := c.fifo }

def Sys.init (c : Cfg) : Sys := ⟨fun i => initParty c i, [], [], []⟩

inductive Event where
  /-- party `i` runs `Deliver` and the link layer hands over `msg` from link `src` -/
  | recv (i src : Nat) (msg : Msg) (pi : List Nat)
  /-- party `i` runs `Deliver` and nothing arrives -/
  | tick (i : Nat) (pi : List Nat)
  /-- party `i` broadcasts `v` (`rnd`: the random sequence number of non-FIFO mode) -/
  | bcast (i : Nat) (v rnd : Int)

def upd (st : Nat → Party) (i : Nat) (p : Party) : Nat → Party :=
  fun k => if k = i then p else st k

def tagMsgs (i : Nat) (s : Sent) : List (Nat × Nat × Msg) := s.map fun x => (i, x.1, x.2)

def stepSys (H : Int → Int) (T : Tag → Int) (s : Sys) (i : Nat) (pi : List Nat)
    (inp : Option (Nat × Msg)) : Sys :=
  let r := step H T (s.st i) pi inp
  { st := upd s.st i r.party
    log := s.log ++ tagMsgs i r.sent
    bc := s.bc
    dl := match r.out with
      | .delivered _ m => s.dl ++ [(i, deliveredTag (s.st i) pi inp, m)]
      | _ => s.dl }

def Sys.apply (H : Int → Int) (T : Tag → Int) (s : Sys) : Event → Sys
  | .recv i src msg pi => stepSys H T s i pi (some (src, msg))
  | .tick i pi => stepSys H T s i pi none
  | .bcast i v rnd =>
    let r := broadcast (s.st i) v rnd
    { st := upd s.st i r.1
      log := s.log ++ tagMsgs i r.2
      bc := s.bc ++ [(i, ⟨(s.st i).ID, (s.st i).j, r.1.s⟩, v)]
      dl := s.dl }

/-- which events may happen: only honest parties act; a received message comes from a link
    `src < n` and either `src` is Byzantine (then the message is arbitrary) or the message was
    sent by `src` to `i` earlier -/
def Event.Valid (c : Cfg) (s : Sys) : Event → Prop
  | .recv i src msg _ => c.honest i ∧ src < c.n ∧ (src ∈ c.byz ∨ (src, i, msg) ∈ s.log)
  | .tick i _ => c.honest i
  | .bcast i _ _ => c.honest i

instance (c : Cfg) (s : Sys) (ev : Event) : Decidable (ev.Valid c s) := by
  cases ev <;> (unfold Event.Valid; infer_instance)

inductive Reach (H : Int → Int) (T : Tag → Int) (c : Cfg) : Sys → Prop
  | init : Reach H T c (Sys.init c)
  | step (s : Sys) (ev : Event) : Reach H T c s → ev.Valid c s → Reach H T c (s.apply H T ev)

/-- executable version: run an event list from the initial state, `none` if an event is invalid -/
def runFrom (H : Int → Int) (T : Tag → Int) (c : Cfg) (s : Sys) : List Event → Option Sys
  | [] => some s
  | ev :: rest => if ev.Valid c s then runFrom H T c (s.apply H T ev) rest else none

def run (H : Int → Int) (T : Tag → Int) (c : Cfg) (evs : List Event) : Option Sys :=
  runFrom H T c (Sys.init c) evs

theorem runFrom_reach (H : Int → Int) (T : Tag → Int) (c : Cfg) :
    ∀ (evs : List Event) (s s' : Sys), Reach H T c s → runFrom H T c s evs = some s' →
      Reach H T c s' := by
  intro evs
  induction evs with
  | nil => intro s s' hr h; simp only [runFrom, Option.some.injEq] at h; exact h ▸ hr
  | cons ev rest ih =>
    intro s s' hr h
    unfold runFrom at h
    by_cases hv : ev.Valid c s
    · rw [if_pos hv] at h
      exact ih _ _ (Reach.step s ev hr hv) h
    · rw [if_neg hv] at h; cases h

theorem run_reach (H : Int → Int) (T : Tag → Int) (c : Cfg) (evs : List Event) (s : Sys)
    (h : run H T c evs = some s) : Reach H T c s :=
  runFrom_reach H T c evs _ s Reach.init h


/-! ## 5. the invariant -/

/-- an echo quorum for `(tag, d)` visible in the log: `n - t` parties all of whose honest members
    have sent r-echo with digest `d` for `tag` -/
def EQ (c : Cfg) (log : List (Nat × Nat × Msg)) (tag : Tag) (d : Int) : Prop :=
  ∃ S : Finset Nat, S ⊆ Finset.range c.n ∧ c.n - c.t ≤ S.card ∧
    ∀ k ∈ S, k ∉ c.byz → ∃ dst m, (k, dst, m) ∈ log ∧ m.action = rEcho ∧ m.tag = tag ∧ m.payload = d

/-- `S` is a set of `k` distinct links that passed the first-time filter `f` for `tag` and whose
    honest members have sent to `i` a message with action `a`, tag `tag` and payload `d` -/
def Wit (c : Cfg) (log : List (Nat × Nat × Msg)) (i : Nat) (f : Filter) (a : Int) (tag : Tag)
    (d : Int) (k : Nat) : Prop :=
  ∃ S : Finset Nat, S.card = k ∧ ∀ l ∈ S, l < c.n ∧ fHas f l tag = true ∧
    (l ∉ c.byz → ∃ m, (l, i, m) ∈ log ∧ m.action = a ∧ m.tag = tag ∧ m.payload = d)

/-- the slot of the retrieve buffer of `tag` that belongs to link `l` -/
def rbVal (p : Party) (tag : Tag) (l : Nat) : Int :=
  ((aGet p.retrieveBuf tag).getD (List.replicate p.n 0)).getD l 0

/-- invariant of one honest party `i` with state `p` relative to the log and the deliveries -/
structure PInv (H : Int → Int) (c : Cfg) (i : Nat) (p : Party) (log : List (Nat × Nat × Msg))
    (dl : List (Nat × Tag × Int)) : Prop where
  cn : p.n = c.n
  ct : p.t = c.t
  cj : p.j = i
  cID : p.ID = c.ID
  cfifo : p.fifo = c.fifo
  cskip : p.fifoSkip = 0
  cbuf : p.bufMsg = List.replicate p.n []
  clen : p.deliverS.length = c.n
  nfRetr : c.fifo = false → p.retrieve = []
  nfBuf : c.fifo = false → ∀ e ∈ p.deliverBuf, e.id ≠ c.ID
  bufWF : ∀ e ∈ p.deliverBuf, WF p e
  rbLen : ∀ tag buf, aGet p.retrieveBuf tag = some buf → buf.length = c.n
  /-- own r-echo messages are recorded in the `send` filter -/
  sendOk : ∀ dst m, (i, dst, m) ∈ log → m.action = rEcho →
    0 ≤ m.sender ∧ fHas p.send m.sender.toNat m.tag = true
  eQ : ∀ tag d, Wit c log i p.echo rEcho tag d (cnt p.eD (tag, d))
  rQ : ∀ tag d, Wit c log i p.ready rReady tag d (cnt p.rD (tag, d))
  dbarEQ : ∀ tag d, aGet p.dbar tag = some d → EQ c log tag d
  dbarCnt : ∀ tag d, aGet p.dbar tag = some d → 2 * c.t + 1 ≤ cnt p.rD (tag, d)
  /-- buffered and delivered slots of the channel have a stored payload with the agreed hash -/
  good : ∀ tag, tag.id = c.ID → ((∃ e ∈ p.deliverBuf, e.tag = tag) ∨ (∃ v, (i, tag, v) ∈ dl)) →
    ∃ v, aGet p.mbar tag = some v ∧ EQ c log tag (H v)
  fifoDel : c.fifo = true → ∀ tag : Tag, tag.id = c.ID → 0 ≤ tag.sender →
    tag.sender ≤ (c.n : Int) - 1 → 1 ≤ tag.seq → tag.seq < p.dS tag.sender.toNat →
    ∃ v, (i, tag, v) ∈ dl
  fifoLt : c.fifo = true → ∀ tag v, (i, tag, v) ∈ dl → tag.seq < p.dS tag.sender.toNat
  ldel : ∀ l tag, fHas p.deliver l tag = true → l < c.n → l ∉ c.byz →
    ∃ m, (l, i, m) ∈ log ∧ m.action = lDeliver ∧ m.tag = tag ∧ m.payload = rbVal p tag l
  awNodup : p.awaited.Nodup
  awDbar : ∀ tag, tag ∈ p.awaited → ∃ d, aGet p.dbar tag = some d
  /-- non-FIFO mode: a delivered tag has its digest fixed and is not awaited (any more) -/
  nfKnown : c.fifo = false → ∀ tag v, (i, tag, v) ∈ dl →
    (∃ d, aGet p.dbar tag = some d) ∧ tag ∉ p.awaited

/-- the invariant of the whole system -/
structure Inv (H : Int → Int) (c : Cfg) (s : Sys) : Prop where
  src : ∀ k dst m, (k, dst, m) ∈ s.log → c.honest k
  /-- honest r-send messages come from `broadcast` -/
  rsend : ∀ k dst m, (k, dst, m) ∈ s.log → m.action = rSend →
    (k, m.tag, m.payload) ∈ s.bc ∧ m.sender = (k : Int)
  /-- an honest r-echo carries the hash of a payload that the sender's link handed over -/
  echoH : ∀ k dst m, (k, dst, m) ∈ s.log → m.action = rEcho →
    ∃ v, m.payload = H v ∧ (m.sender.toNat ∉ c.byz →
      (m.sender.toNat, k, (⟨m.id, m.sender, m.seq, rSend, v⟩ : Msg)) ∈ s.log)
  /-- an honest party echoes one digest per tag -/
  echoU : ∀ k dst m dst' m', (k, dst, m) ∈ s.log → (k, dst', m') ∈ s.log → m.action = rEcho →
    m'.action = rEcho → m.tag = m'.tag → m.payload = m'.payload
  readyEQ : ∀ k dst m, (k, dst, m) ∈ s.log → m.action = rReady → EQ c s.log m.tag m.payload
  ldelEQ : c.fifo = true → ∀ k dst m, (k, dst, m) ∈ s.log → m.action = lDeliver → m.id = c.ID →
    EQ c s.log m.tag (H m.payload)
  dlWF : ∀ i tag v, (i, tag, v) ∈ s.dl → c.honest i ∧ tag.id = c.ID ∧ 0 ≤ tag.sender ∧
    tag.sender ≤ (c.n : Int) - 1 ∧ 1 ≤ tag.seq
  dlEQ : ∀ i tag v, (i, tag, v) ∈ s.dl → EQ c s.log tag (H v)
  nodup : (s.dl.map fun d => (d.1, d.2.1)).Nodup
  parties : ∀ i, c.honest i → PInv H c i (s.st i) s.log s.dl


/-! ## 6. counting, and the safety theorems from the invariant -/

/-- the standing assumptions: resilience, number of Byzantine parties, the payload hash is
    injective (collision resistance, idealised) and never `0`.

    `hH0` is NECESSARY for this implementation: in the r-ready branch a missing `mbar[tag]` is
    represented by the digest `0`, so with a payload of hash `0` a party accepts "no payload" as
    matching the agreed digest, buffers the slot and later delivers whatever the (Byzantine)
    sender's r-send stores — see `HashZero.hash_zero_breaks_agreement` at the end of the file. -/
structure Hyp (H : Int → Int) (c : Cfg) : Prop where
  hn : 3 * c.t < c.n
  hb : c.byz.card ≤ c.t
  inj : Function.Injective H
  h0 : ∀ m, H m ≠ 0

theorem exists_honest_of_card {c : Cfg} (S : Finset Nat) (h : c.byz.card < S.card) :
    ∃ l ∈ S, l ∉ c.byz :=
  Finset.exists_mem_notMem_of_card_lt_card h

theorem exists_honest_inter {H : Int → Int} {c : Cfg} (hy : Hyp H c) (S S' : Finset Nat)
    (hS : S ⊆ Finset.range c.n) (hS' : S' ⊆ Finset.range c.n)
    (h : c.n - c.t ≤ S.card) (h' : c.n - c.t ≤ S'.card) : ∃ l, l ∈ S ∧ l ∈ S' ∧ l ∉ c.byz := by
  have h1 := Finset.card_union_add_card_inter S S'
  have h2 : (S ∪ S').card ≤ c.n := by
    have := Finset.card_le_card (Finset.union_subset hS hS')
    simpa using this
  have hn := hy.hn
  have hb := hy.hb
  have h3 : c.byz.card < (S ∩ S').card := by omega
  obtain ⟨l, hl, hlb⟩ := exists_honest_of_card (c := c) _ h3
  exact ⟨l, (Finset.mem_inter.1 hl).1, (Finset.mem_inter.1 hl).2, hlb⟩

theorem EQ.mono {c : Cfg} {log log' : List (Nat × Nat × Msg)} {tag : Tag} {d : Int}
    (h : EQ c log tag d) (hsub : ∀ x ∈ log, x ∈ log') : EQ c log' tag d := by
  obtain ⟨S, h1, h2, h3⟩ := h
  refine ⟨S, h1, h2, fun k hk hb => ?_⟩
  obtain ⟨dst, m, hm, hrest⟩ := h3 k hk hb
  exact ⟨dst, m, hsub _ hm, hrest⟩

/-- some honest party echoed the digest of an echo quorum -/
theorem EQ.honest {H : Int → Int} {c : Cfg} (hy : Hyp H c) {log : List (Nat × Nat × Msg)}
    {tag : Tag} {d : Int} (h : EQ c log tag d) :
    ∃ k dst m, k ∉ c.byz ∧ (k, dst, m) ∈ log ∧ m.action = rEcho ∧ m.tag = tag ∧ m.payload = d := by
  obtain ⟨S, _, h2, h3⟩ := h
  have hn := hy.hn
  have hb := hy.hb
  obtain ⟨k, hk, hkb⟩ := exists_honest_of_card (c := c) S (by omega)
  obtain ⟨dst, m, hm⟩ := h3 k hk hkb
  exact ⟨k, dst, m, hkb, hm⟩

/-- two echo quorums for one tag carry the same digest -/
theorem EQ.unique {H : Int → Int} {c : Cfg} (hy : Hyp H c) {s : Sys} (hI : Inv H c s)
    {tag : Tag} {d d' : Int} (h : EQ c s.log tag d) (h' : EQ c s.log tag d') : d = d' := by
  obtain ⟨S, h1, h2, h3⟩ := h
  obtain ⟨S', h1', h2', h3'⟩ := h'
  obtain ⟨l, hl, hl', hlb⟩ := exists_honest_inter hy S S' h1 h1' h2 h2'
  obtain ⟨dst, m, hm, ha, ht, hp⟩ := h3 l hl hlb
  obtain ⟨dst', m', hm', ha', ht', hp'⟩ := h3' l hl' hlb
  rw [← hp, ← hp']
  exact hI.echoU l dst m dst' m' hm hm' ha ha' (ht.trans ht'.symm)

theorem inv_agreement {H : Int → Int} {c : Cfg} (hy : Hyp H c) {s : Sys} (hI : Inv H c s)
    {i i' : Nat} {tag : Tag} {v v' : Int} (h : (i, tag, v) ∈ s.dl) (h' : (i', tag, v') ∈ s.dl) :
    v = v' :=
  hy.inj (EQ.unique hy hI (hI.dlEQ _ _ _ h) (hI.dlEQ _ _ _ h'))

theorem inv_integrity {H : Int → Int} {c : Cfg} (hy : Hyp H c) {s : Sys} (hI : Inv H c s)
    {i k : Nat} {tag : Tag} {v : Int} (h : (i, tag, v) ∈ s.dl) (hk : c.honest k)
    (hs : tag.sender = (k : Int)) : (k, tag, v) ∈ s.bc := by
  obtain ⟨e, dst, m, _, hm, ha, ht, hp⟩ := EQ.honest hy (hI.dlEQ _ _ _ h)
  obtain ⟨v', hv', hlog⟩ := hI.echoH e dst m hm ha
  have hsender : m.sender = (k : Int) := by rw [← hs, ← ht]; rfl
  have hto : m.sender.toNat = k := by rw [hsender]; simp
  rw [hto] at hlog
  obtain ⟨hbc, _⟩ := hI.rsend k e _ (hlog hk.2) rfl
  have hvv : v = v' := hy.inj (by rw [← hv', hp])
  have htag : (⟨m.id, m.sender, m.seq, rSend, v'⟩ : Msg).tag = tag := by rw [← ht]; rfl
  rw [htag] at hbc
  rw [hvv]; exact hbc


/-! ## 7. the invariant is inductive -/

theorem replicate_getD_le (n k : Nat) : (List.replicate n (1 : Int)).getD k 0 ≤ 1 := by
  simp only [List.getD_eq_getElem?_getD, List.getElem?_replicate]
  split_ifs <;> simp

theorem pinv_init (H : Int → Int) (c : Cfg) (i : Nat) : PInv H c i (initParty c i) [] [] where
  cn := rfl
  ct := rfl
  cj := rfl
  cID := rfl
  cfifo := rfl
  cskip := rfl
  cbuf := rfl
  clen := by simp [initParty, Party.init]
  nfRetr := fun _ => rfl
  nfBuf := by intro _ e he; cases he
  bufWF := by intro e he; cases he
  rbLen := by intro tag buf h; cases h
  sendOk := by intro dst m h; cases h
  eQ := by intro tag d; exact ⟨∅, rfl, by simp⟩
  rQ := by intro tag d; exact ⟨∅, rfl, by simp⟩
  dbarEQ := by intro tag d h; cases h
  dbarCnt := by intro tag d h; cases h
  good := by
    intro tag _ h
    rcases h with ⟨e, he, _⟩ | ⟨v, hv⟩
    · cases he
    · cases hv
  fifoDel := by
    intro _ tag _ _ _ h1 h2
    have : (initParty c i).dS tag.sender.toNat ≤ 1 := replicate_getD_le _ _
    omega
  fifoLt := by intro _ tag v h; cases h
  ldel := by intro l tag h; cases h
  awNodup := List.nodup_nil
  awDbar := by intro tag h; cases h
  nfKnown := by intro _ tag v h; cases h

theorem inv_init (H : Int → Int) (c : Cfg) : Inv H c (Sys.init c) where
  src := by intro k dst m h; cases h
  rsend := by intro k dst m h; cases h
  echoH := by intro k dst m h; cases h
  echoU := by intro k dst m dst' m' h; cases h
  readyEQ := by intro k dst m h; cases h
  ldelEQ := by intro _ k dst m h; cases h
  dlWF := by intro i tag v h; cases h
  dlEQ := by intro i tag v h; cases h
  nodup := List.nodup_nil
  parties := fun i _ => pinv_init H c i

theorem Wit.mono {c : Cfg} {log log' : List (Nat × Nat × Msg)} {i : Nat} {f f' : Filter} {a : Int}
    {tag : Tag} {d : Int} {k : Nat} (h : Wit c log i f a tag d k) (hsub : ∀ x ∈ log, x ∈ log')
    (hf : ∀ l, fHas f l tag = true → fHas f' l tag = true) : Wit c log' i f' a tag d k := by
  obtain ⟨S, h1, h2⟩ := h
  refine ⟨S, h1, fun l hl => ?_⟩
  obtain ⟨h3, h4, h5⟩ := h2 l hl
  refine ⟨h3, hf l h4, fun hb => ?_⟩
  obtain ⟨m, hm, hrest⟩ := h5 hb
  exact ⟨m, hsub _ hm, hrest⟩

/-- Stage B: the log and the delivery list grow -/
theorem PInv.mono {H : Int → Int} {c : Cfg} {k : Nat} {p : Party}
    {log log' : List (Nat × Nat × Msg)} {dl dl' : List (Nat × Tag × Int)}
    (hP : PInv H c k p log dl) (hsub : ∀ x ∈ log, x ∈ log')
    (hown : ∀ dst m, (k, dst, m) ∈ log' → m.action = rEcho →
      (k, dst, m) ∈ log ∨ (0 ≤ m.sender ∧ fHas p.send m.sender.toNat m.tag = true))
    (hdl : ∀ tag v, (k, tag, v) ∈ dl' ↔ (k, tag, v) ∈ dl) : PInv H c k p log' dl' :=
  { hP with
    sendOk := by
      intro dst m hm ha
      rcases hown dst m hm ha with h | h
      · exact hP.sendOk dst m h ha
      · exact h
    eQ := fun tag d => (hP.eQ tag d).mono hsub (fun _ h => h)
    rQ := fun tag d => (hP.rQ tag d).mono hsub (fun _ h => h)
    dbarEQ := fun tag d h => (hP.dbarEQ tag d h).mono hsub
    good := by
      intro tag hid h
      have h' : (∃ e ∈ p.deliverBuf, e.tag = tag) ∨ (∃ v, (k, tag, v) ∈ dl) := by
        rcases h with h | ⟨v, hv⟩
        · exact Or.inl h
        · exact Or.inr ⟨v, (hdl tag v).1 hv⟩
      obtain ⟨v, hv, he⟩ := hP.good tag hid h'
      exact ⟨v, hv, he.mono hsub⟩
    fifoDel := by
      intro hf tag h1 h2 h3 h4 h5
      obtain ⟨v, hv⟩ := hP.fifoDel hf tag h1 h2 h3 h4 h5
      exact ⟨v, (hdl tag v).2 hv⟩
    fifoLt := fun hf tag v h => hP.fifoLt hf tag v ((hdl tag v).1 h)
    ldel := by
      intro l tag h1 h2 h3
      obtain ⟨m, hm, hrest⟩ := hP.ldel l tag h1 h2 h3
      exact ⟨m, hsub _ hm, hrest⟩
    nfKnown := fun hf tag v h => hP.nfKnown hf tag v ((hdl tag v).1 h) }

theorem mem_tagMsgs {i k dst : Nat} {m : Msg} {ms : Sent} :
    (k, dst, m) ∈ tagMsgs i ms ↔ k = i ∧ (dst, m) ∈ ms := by
  unfold tagMsgs
  simp only [List.mem_map, Prod.mk.injEq]
  constructor
  · rintro ⟨x, hx, rfl, rfl, rfl⟩
    exact ⟨rfl, hx⟩
  · rintro ⟨rfl, hx⟩
    exact ⟨(dst, m), hx, rfl, rfl, rfl⟩

theorem upd_same (st : Nat → Party) (i : Nat) (p : Party) : upd st i p i = p := by simp [upd]
theorem upd_ne (st : Nat → Party) (i k : Nat) (p : Party) (h : k ≠ i) : upd st i p k = st k := by
  simp [upd, h]

/-- what must be known about the messages `ms` that party `i` (new state `q'`) adds to the log -/
structure NewOk (H : Int → Int) (c : Cfg) (s : Sys) (i : Nat) (q' : Party) (ms : Sent) : Prop where
  nsend : ∀ x ∈ ms, x.2.action ≠ rSend
  echo : ∀ x ∈ ms, x.2.action = rEcho →
    0 ≤ x.2.sender ∧ fHas q'.send x.2.sender.toNat x.2.tag = true ∧
    (∃ v, x.2.payload = H v ∧ (x.2.sender.toNat ∉ c.byz →
      (x.2.sender.toNat, i, (⟨x.2.id, x.2.sender, x.2.seq, rSend, v⟩ : Msg)) ∈ s.log)) ∧
    (∀ dst m, (i, dst, m) ∈ s.log → m.action = rEcho → m.tag = x.2.tag → m.payload = x.2.payload) ∧
    (∀ y ∈ ms, y.2.action = rEcho → y.2.tag = x.2.tag → y.2.payload = x.2.payload)
  ready : ∀ x ∈ ms, x.2.action = rReady → EQ c s.log x.2.tag x.2.payload
  ldel : c.fifo = true → ∀ x ∈ ms, x.2.action = lDeliver → x.2.id = c.ID →
    EQ c s.log x.2.tag (H x.2.payload)

/-- messages that no invariant talks about -/
def Quiet (ms : Sent) : Prop :=
  ∀ x ∈ ms, x.2.action ≠ rSend ∧ x.2.action ≠ rEcho ∧ x.2.action ≠ rReady ∧ x.2.action ≠ lDeliver

theorem NewOk.of_quiet {H : Int → Int} {c : Cfg} {s : Sys} {i : Nat} {q' : Party} {ms : Sent}
    (h : Quiet ms) : NewOk H c s i q' ms where
  nsend := fun x hx => (h x hx).1
  echo := fun x hx ha => absurd ha (h x hx).2.1
  ready := fun x hx ha => absurd ha (h x hx).2.2.1
  ldel := fun _ x hx ha => absurd ha (h x hx).2.2.2

/-- T1: party `i` changes its state and sends messages; nothing is delivered -/
theorem inv_T1 {H : Int → Int} {c : Cfg} {s : Sys} (hI : Inv H c s) {i : Nat} (hi : c.honest i)
    (q' : Party) (ms : Sent) (hP : PInv H c i q' s.log s.dl) (hN : NewOk H c s i q' ms) :
    Inv H c ⟨upd s.st i q', s.log ++ tagMsgs i ms, s.bc, s.dl⟩ := by
  have hsub : ∀ x ∈ s.log, x ∈ s.log ++ tagMsgs i ms := fun x hx => List.mem_append_left _ hx
  have hsplit : ∀ k dst m, (k, dst, m) ∈ s.log ++ tagMsgs i ms →
      (k, dst, m) ∈ s.log ∨ (k = i ∧ (dst, m) ∈ ms) := by
    intro k dst m h
    rcases List.mem_append.1 h with h | h
    · exact Or.inl h
    · exact Or.inr (mem_tagMsgs.1 h)
  refine
    { src := ?_, rsend := ?_, echoH := ?_, echoU := ?_, readyEQ := ?_, ldelEQ := ?_,
      dlWF := hI.dlWF, dlEQ := fun j tag v h => (hI.dlEQ j tag v h).mono hsub,
      nodup := hI.nodup, parties := ?_ }
  · intro k dst m h
    rcases hsplit k dst m h with h | ⟨rfl, _⟩
    · exact hI.src k dst m h
    · exact hi
  · intro k dst m h ha
    rcases hsplit k dst m h with h | ⟨rfl, hms⟩
    · exact hI.rsend k dst m h ha
    · exact absurd ha (hN.nsend (dst, m) hms)
  · intro k dst m h ha
    rcases hsplit k dst m h with h | ⟨rfl, hms⟩
    · obtain ⟨v, hv, hl⟩ := hI.echoH k dst m h ha
      exact ⟨v, hv, fun hb => hsub _ (hl hb)⟩
    · obtain ⟨_, _, ⟨v, hv, hl⟩, _⟩ := hN.echo (dst, m) hms ha
      exact ⟨v, hv, fun hb => hsub _ (hl hb)⟩
  · intro k dst m dst' m' h h' ha ha' ht
    rcases hsplit k dst m h with hl | ⟨rfl, hms⟩
    · rcases hsplit k dst' m' h' with hl' | ⟨rfl, hms'⟩
      · exact hI.echoU k dst m dst' m' hl hl' ha ha' ht
      · obtain ⟨_, _, _, hold, _⟩ := hN.echo (dst', m') hms' ha'
        exact hold dst m hl ha ht
    · rcases hsplit k dst' m' h' with hl' | ⟨_, hms'⟩
      · obtain ⟨_, _, _, hold, _⟩ := hN.echo (dst, m) hms ha
        exact (hold dst' m' hl' ha' ht.symm).symm
      · obtain ⟨_, _, _, _, hnew⟩ := hN.echo (dst, m) hms ha
        exact (hnew (dst', m') hms' ha' ht.symm).symm
  · intro k dst m h ha
    rcases hsplit k dst m h with h | ⟨rfl, hms⟩
    · exact (hI.readyEQ k dst m h ha).mono hsub
    · exact (hN.ready (dst, m) hms ha).mono hsub
  · intro hf k dst m h ha hid
    rcases hsplit k dst m h with h | ⟨rfl, hms⟩
    · exact (hI.ldelEQ hf k dst m h ha hid).mono hsub
    · exact (hN.ldel hf (dst, m) hms ha hid).mono hsub
  · intro k hk
    by_cases hki : k = i
    · subst hki
      show PInv H c k (upd s.st k q' k) _ _
      rw [upd_same]
      refine hP.mono hsub ?_ (fun _ _ => Iff.rfl)
      intro dst m h ha
      rcases hsplit k dst m h with h | ⟨_, hms⟩
      · exact Or.inl h
      · obtain ⟨h1, h2, _⟩ := hN.echo (dst, m) hms ha
        exact Or.inr ⟨h1, h2⟩
    · show PInv H c k (upd s.st i q' k) _ _
      rw [upd_ne _ _ _ _ hki]
      refine (hI.parties k hk).mono hsub ?_ (fun _ _ => Iff.rfl)
      intro dst m h ha
      rcases hsplit k dst m h with h | ⟨rfl, _⟩
      · exact Or.inl h
      · exact absurd rfl hki

theorem getD_set_self (l : List Int) (w : Nat) (x : Int) (h : w < l.length) :
    (l.set w x).getD w 0 = x := by
  simp [List.getD_eq_getElem?_getD, h]

theorem getD_set_ne (l : List Int) (w k : Nat) (x : Int) (h : k ≠ w) :
    (l.set w x).getD k 0 = l.getD k 0 := by
  simp [List.getD_eq_getElem?_getD, Ne.symm h]

theorem toNat_inj_of_nonneg {a b : Int} (ha : 0 ≤ a) (hb : 0 ≤ b) (h : a.toNat = b.toNat) : a = b := by
  omega

/-- T2/T3: party `i` delivers `m` for `tag` -/
theorem inv_deliver {H : Int → Int} {c : Cfg} {s : Sys} (hI : Inv H c s) {i : Nat}
    (hi : c.honest i) (tag : Tag) (m : Int) (B : List Msg) (p : Party) (hp : s.st i = p)
    (hB : ∀ x ∈ B, x ∈ p.deliverBuf)
    (hid : tag.id = c.ID) (hs0 : 0 ≤ tag.sender) (hs1 : tag.sender ≤ (c.n : Int) - 1)
    (hseq1 : 1 ≤ tag.seq) (hseq : c.fifo = true → tag.seq = p.dS tag.sender.toNat)
    (hm : aGet p.mbar tag = some m) (hgood : EQ c s.log tag (H m))
    (hnf : c.fifo = false → (∀ v, (i, tag, v) ∉ s.dl) ∧ (∃ d, aGet p.dbar tag = some d) ∧
      tag ∉ p.awaited) :
    Inv H c ⟨upd s.st i { p with
        deliverS := p.deliverS.set tag.sender.toNat (p.dS tag.sender.toNat + 1),
        deliverBuf := B }, s.log, s.bc, s.dl ++ [(i, tag, m)]⟩ := by
  have hP : PInv H c i p s.log s.dl := hp ▸ hI.parties i hi
  have hwho : tag.sender.toNat < p.deliverS.length := by rw [hP.clen]; omega
  obtain ⟨p', hp'⟩ : ∃ p' : Party, p' = { p with
        deliverS := p.deliverS.set tag.sender.toNat (p.dS tag.sender.toNat + 1),
        deliverBuf := B } := ⟨_, rfl⟩
  have hself : p'.dS tag.sender.toNat = p.dS tag.sender.toNat + 1 := by
    rw [hp']; exact getD_set_self _ _ _ hwho
  have hne : ∀ w, w ≠ tag.sender.toNat → p'.dS w = p.dS w := by
    intro w hw; rw [hp']; exact getD_set_ne _ _ _ _ hw
  rw [← hp']
  have hfresh : ∀ v, (i, tag, v) ∉ s.dl := by
    intro v hv
    cases hf : c.fifo with
    | true =>
      have := hP.fifoLt hf tag v hv
      have := hseq hf
      omega
    | false => exact (hnf hf).1 v hv
  have hsplit : ∀ k tag' v, (k, tag', v) ∈ s.dl ++ [(i, tag, m)] →
      (k, tag', v) ∈ s.dl ∨ (k = i ∧ tag' = tag ∧ v = m) := by
    intro k tag' v h
    rcases List.mem_append.1 h with h | h
    · exact Or.inl h
    · simp only [List.mem_singleton, Prod.mk.injEq] at h
      exact Or.inr h
  refine
    { src := hI.src, rsend := hI.rsend, echoH := hI.echoH, echoU := hI.echoU,
      readyEQ := hI.readyEQ, ldelEQ := hI.ldelEQ, dlWF := ?_, dlEQ := ?_, nodup := ?_,
      parties := ?_ }
  · intro k tag' v h
    rcases hsplit k tag' v h with h | ⟨rfl, rfl, rfl⟩
    · exact hI.dlWF k tag' v h
    · exact ⟨hi, hid, hs0, hs1, hseq1⟩
  · intro k tag' v h
    rcases hsplit k tag' v h with h | ⟨rfl, rfl, rfl⟩
    · exact hI.dlEQ k tag' v h
    · exact hgood
  · show ((s.dl ++ [(i, tag, m)]).map fun d => (d.1, d.2.1)).Nodup
    rw [List.map_append, List.nodup_append]
    refine ⟨hI.nodup, by simp, ?_⟩
    intro a ha b hb
    simp only [List.map_cons, List.map_nil, List.mem_singleton] at hb
    subst hb
    rintro rfl
    obtain ⟨⟨k, tag', v⟩, hd, heq⟩ := List.mem_map.1 ha
    simp only [Prod.mk.injEq] at heq
    obtain ⟨rfl, rfl⟩ := heq
    exact hfresh v hd
  · intro k hk
    by_cases hki : k = i
    · subst hki
      show PInv H c k (upd s.st k _ k) _ _
      rw [upd_same]
      have hmono : ∀ w, p.dS w ≤ p'.dS w := by
        intro w
        by_cases hw : w = tag.sender.toNat
        · subst hw; omega
        · rw [hne w hw]
      subst hp'
      exact
        { hP with
          clen := by simp [hP.clen]
          nfBuf := fun hf e he => hP.nfBuf hf e (hB e he)
          bufWF := fun e he => hP.bufWF e (hB e he)
          good := by
            intro tag' hid' h
            rcases h with ⟨e, he, het⟩ | ⟨v, hv⟩
            · exact hP.good tag' hid' (Or.inl ⟨e, hB e he, het⟩)
            · rcases hsplit k tag' v hv with hv | ⟨_, rfl, rfl⟩
              · exact hP.good tag' hid' (Or.inr ⟨v, hv⟩)
              · exact ⟨v, hm, hgood⟩
          fifoDel := by
            intro hf tag' h1 h2 h3 h4 h5
            by_cases hw : tag'.sender.toNat = tag.sender.toNat
            · rw [hw, hself] at h5
              by_cases hlt : tag'.seq < p.dS tag.sender.toNat
              · obtain ⟨v, hv⟩ := hP.fifoDel hf tag' h1 h2 h3 h4 (by rw [hw]; exact hlt)
                exact ⟨v, List.mem_append_left _ hv⟩
              · have hseq' := hseq hf
                have : tag' = tag := by
                  have e1 : tag'.sender = tag.sender := toNat_inj_of_nonneg h2 hs0 hw
                  have e2 : tag'.seq = tag.seq := by omega
                  have e3 : tag'.id = tag.id := by rw [h1, hid]
                  cases tag'; cases tag; simp_all
                subst this
                exact ⟨m, List.mem_append_right _ (List.mem_singleton.2 rfl)⟩
            · rw [hne _ hw] at h5
              obtain ⟨v, hv⟩ := hP.fifoDel hf tag' h1 h2 h3 h4 h5
              exact ⟨v, List.mem_append_left _ hv⟩
          fifoLt := by
            intro hf tag' v hv
            rcases hsplit k tag' v hv with hv | ⟨_, rfl, rfl⟩
            · have := hP.fifoLt hf tag' v hv
              have := hmono tag'.sender.toNat
              omega
            · have := hseq hf
              rw [hself]
              omega
          nfKnown := by
            intro hf tag' v hv
            rcases hsplit k tag' v hv with hv | ⟨_, rfl, rfl⟩
            · exact hP.nfKnown hf tag' v hv
            · exact (hnf hf).2 }
    · show PInv H c k (upd s.st i _ k) _ _
      rw [upd_ne _ _ _ _ hki]
      refine (hI.parties k hk).mono (fun _ h => h) (fun dst m h _ => Or.inl h) ?_
      intro tag' v
      constructor
      · intro h
        rcases hsplit k tag' v h with h | ⟨rfl, _⟩
        · exact h
        · exact absurd rfl hki
      · exact fun h => List.mem_append_left _ h

theorem upd_upd (st : Nat → Party) (i : Nat) (p q : Party) : upd (upd st i p) i q = upd st i q := by
  funext k; unfold upd; split_ifs <;> rfl

theorem upd_self (st : Nat → Party) (i : Nat) : upd st i (st i) = st := by
  funext k; unfold upd; split_ifs with h
  · rw [h]
  · rfl

theorem inv_congr {H : Int → Int} {c : Cfg} {s s' : Sys} (h : Inv H c s) (h1 : s.st = s'.st)
    (h2 : s.log = s'.log) (h3 : s.bc = s'.bc) (h4 : s.dl = s'.dl) : Inv H c s' := by
  cases s; cases s'; simp only at h1 h2 h3 h4; subst h1 h2 h3 h4; exact h

/-- the delivery list after an outcome -/
def dlAfter (dl : List (Nat × Tag × Int)) (i : Nat) (tag : Tag) : Outcome → List (Nat × Tag × Int)
  | .delivered _ m => dl ++ [(i, tag, m)]
  | _ => dl

/-- T2: "deliver or buffer" for a slot whose stored payload has the agreed hash -/
theorem inv_dob {H : Int → Int} {c : Cfg} {s : Sys} (hI : Inv H c s) {i : Nat} (hi : c.honest i)
    (p3 : Party) (hp : s.st i = p3) (msg : Msg) (wf : WF p3 msg)
    (hgood : msg.id = c.ID → ∃ v, aGet p3.mbar msg.tag = some v ∧ EQ c s.log msg.tag (H v))
    (hnf : c.fifo = false → msg.id = c.ID → (∀ v, (i, msg.tag, v) ∉ s.dl) ∧
      (∃ d, aGet p3.dbar msg.tag = some d) ∧ msg.tag ∉ p3.awaited) :
    Inv H c ⟨upd s.st i (deliverOrBuffer p3 msg []).party, s.log, s.bc,
      dlAfter s.dl i msg.tag (deliverOrBuffer p3 msg []).out⟩ := by
  have hP : PInv H c i p3 s.log s.dl := hp ▸ hI.parties i hi
  rcases dob_cases p3 msg with ⟨hid, _, hm, _⟩ | ⟨m, hid, hseq, hm, heq⟩ | ⟨hcond, heq⟩
  · exfalso
    obtain ⟨v, hv, _⟩ := hgood (hid.trans hP.cID)
    rw [hm] at hv; cases hv
  · rw [heq]
    have hid' : msg.id = c.ID := hid.trans hP.cID
    obtain ⟨v, hv, hEQ⟩ := hgood hid'
    have hvm : v = m := by rw [hm] at hv; cases hv; rfl
    subst hvm
    obtain ⟨w0, w1, w2⟩ := wf
    rw [hP.cn] at w1
    refine inv_deliver hI hi msg.tag v p3.deliverBuf p3 hp (fun _ h => h) hid' w0 w1 w2
      (fun hf => hseq (hP.cfifo.trans hf)) hm hEQ ?_
    intro hf
    exact hnf hf hid'
  · rw [heq]
    have hP' : PInv H c i { p3 with deliverBuf := p3.deliverBuf ++ [msg] } s.log s.dl :=
      { hP with
        nfBuf := by
          intro hf e he
          rcases List.mem_append.1 he with he | he
          · exact hP.nfBuf hf e he
          · rw [List.mem_singleton] at he
            subst he
            rcases hcond with h | ⟨h, _⟩
            · rw [← hP.cID]; exact h
            · rw [hP.cfifo, hf] at h; cases h
        bufWF := by
          intro e he
          rcases List.mem_append.1 he with he | he
          · exact hP.bufWF e he
          · rw [List.mem_singleton] at he
            subst he; exact wf
        good := by
          intro tag hid h
          rcases h with ⟨e, he, het⟩ | h
          · rcases List.mem_append.1 he with he | he
            · exact hP.good tag hid (Or.inl ⟨e, he, het⟩)
            · rw [List.mem_singleton] at he
              subst he
              subst het
              exact hgood hid
          · exact hP.good tag hid (Or.inr h) }
    have := inv_T1 hI hi _ [] hP' (NewOk.of_quiet (by intro x hx; cases hx))
    exact inv_congr this rfl (by simp [tagMsgs]) rfl rfl

/-- Stage A for all the branches that only touch first-time filters -/
theorem PInv.sameCore {H : Int → Int} {c : Cfg} {i : Nat} {q q' : Party}
    {log : List (Nat × Nat × Msg)} {dl : List (Nat × Tag × Int)}
    (hc : SameCore q q') (hP : PInv H c i q log dl) : PInv H c i q' log dl where
  cn := hc.n.trans hP.cn
  ct := hc.t.trans hP.ct
  cj := hc.j.trans hP.cj
  cID := hc.ID.trans hP.cID
  cfifo := hc.fifo.trans hP.cfifo
  cskip := hc.fifoSkip.trans hP.cskip
  cbuf := by rw [hc.bufMsg, hc.n]; exact hP.cbuf
  clen := by rw [hc.deliverS]; exact hP.clen
  nfRetr := fun hf => by rw [hc.retrieve]; exact hP.nfRetr hf
  nfBuf := by rw [hc.deliverBuf]; exact hP.nfBuf
  bufWF := by unfold WF; rw [hc.deliverBuf, hc.n]; exact hP.bufWF
  rbLen := by rw [hc.retrieveBuf]; exact hP.rbLen
  sendOk := fun dst m h ha =>
    ⟨(hP.sendOk dst m h ha).1, hc.send _ _ (hP.sendOk dst m h ha).2⟩
  eQ := fun tag d => by
    rw [hc.eD]; exact (hP.eQ tag d).mono (fun _ h => h) (fun l h => hc.echo l tag h)
  rQ := fun tag d => by
    rw [hc.rD]; exact (hP.rQ tag d).mono (fun _ h => h) (fun l h => hc.ready l tag h)
  dbarEQ := by rw [hc.dbar]; exact hP.dbarEQ
  dbarCnt := by rw [hc.dbar, hc.rD]; exact hP.dbarCnt
  good := by rw [hc.deliverBuf, hc.mbar]; exact hP.good
  fifoDel := by unfold Party.dS; rw [hc.deliverS]; exact hP.fifoDel
  fifoLt := by unfold Party.dS; rw [hc.deliverS]; exact hP.fifoLt
  ldel := by unfold rbVal; rw [hc.deliver, hc.retrieveBuf, hc.n]; exact hP.ldel
  awNodup := by rw [hc.awaited]; exact hP.awNodup
  awDbar := by rw [hc.awaited, hc.dbar]; exact hP.awDbar
  nfKnown := by rw [hc.dbar, hc.awaited]; exact hP.nfKnown

/-- Stage A for the housekeeping part of `phaseBuffer` -/
theorem PInv.hk {H : Int → Int} {c : Cfg} {i : Nat} {p : Party}
    {log : List (Nat × Nat × Msg)} {dl : List (Nat × Tag × Int)} (R : Filter)
    (hR : p.fifo = false → R = p.retrieve)
    (hP : PInv H c i p log dl) : PInv H c i (hkParty p R) log dl :=
  { hP with
    nfRetr := by
      intro hf
      show R = []
      rw [hR (hP.cfifo.trans hf)]; exact hP.nfRetr hf
    nfBuf := fun hf e he => hP.nfBuf hf e (List.mem_of_mem_filter he)
    bufWF := fun e he => hP.bufWF e (List.mem_of_mem_filter he)
    good := by
      intro tag hid h
      rcases h with ⟨e, he, het⟩ | h
      · exact hP.good tag hid (Or.inl ⟨e, List.mem_of_mem_filter he, het⟩)
      · exact hP.good tag hid (Or.inr h) }

theorem PInv.echoNew {H : Int → Int} {c : Cfg} {i : Nat} {q : Party}
    {log : List (Nat × Nat × Msg)} {dl : List (Nat × Tag × Int)} (hP : PInv H c i q log dl)
    (l : Nat) (tag : Tag) (v : Int) (hm : aGet q.mbar tag = none) :
    PInv H c i { q with send := fIns q.send l tag, mbar := aSet q.mbar tag v } log dl :=
  { hP with
    sendOk := fun dst m h ha =>
      ⟨(hP.sendOk dst m h ha).1, fHas_fIns_mono _ _ _ _ _ (hP.sendOk dst m h ha).2⟩
    good := by
      intro tag' hid h
      obtain ⟨v', hv', he⟩ := hP.good tag' hid h
      by_cases ht : tag' = tag
      · subst ht; rw [hm] at hv'; cases hv'
      · exact ⟨v', by show aGet (aSet q.mbar tag v) tag' = some v'
                      rw [aGet_aSet_ne _ _ _ _ ht]; exact hv', he⟩
      }

theorem Wit.ins {c : Cfg} {log : List (Nat × Nat × Msg)} {i : Nat} {f : Filter} {a : Int}
    {tag : Tag} {d : Int} {k : Nat} (h : Wit c log i f a tag d k) (l : Nat) (msg : Msg)
    (hnew : fHas f l tag = false) (hl : l < c.n) (hin : l ∉ c.byz → (l, i, msg) ∈ log)
    (ha : msg.action = a) (ht : msg.tag = tag) (hp : msg.payload = d) :
    Wit c log i (fIns f l tag) a tag d (k + 1) := by
  obtain ⟨S, h1, h2⟩ := h
  have hnot : l ∉ S := by
    intro hl'
    have := (h2 l hl').2.1
    rw [hnew] at this; cases this
  refine ⟨insert l S, by rw [Finset.card_insert_of_notMem hnot, h1], ?_⟩
  intro l' hl'
  rcases Finset.mem_insert.1 hl' with rfl | hl'
  · exact ⟨hl, fHas_fIns_self _ _ _, fun hb => ⟨msg, hin hb, ha, ht, hp⟩⟩
  · obtain ⟨h3, h4, h5⟩ := h2 l' hl'
    exact ⟨h3, fHas_fIns_mono _ _ _ _ _ h4, h5⟩

theorem PInv.echoCount {H : Int → Int} {c : Cfg} {i : Nat} {q : Party}
    {log : List (Nat × Nat × Msg)} {dl : List (Nat × Tag × Int)} (hP : PInv H c i q log dl)
    (l : Nat) (msg : Msg) (hact : msg.action = rEcho) (hnew : fHas q.echo l msg.tag = false)
    (hl : l < c.n) (hin : l ∉ c.byz → (l, i, msg) ∈ log) :
    PInv H c i (echoPost q l msg) log dl :=
  { hP with
    eQ := by
      intro tag d
      show Wit c log i (fIns q.echo l msg.tag) rEcho tag d
        (cnt (cntInc q.eD (msg.tag, msg.payload)).1 (tag, d))
      by_cases hk : (tag, d) = (msg.tag, msg.payload)
      · obtain ⟨rfl, rfl⟩ := Prod.mk.inj hk
        rw [cnt_cntInc_self]
        exact (hP.eQ _ _).ins l msg hnew hl hin hact rfl rfl
      · rw [cnt_cntInc_ne _ _ _ hk]
        exact (hP.eQ tag d).mono (fun _ h => h) (fun l' h => fHas_fIns_mono _ _ _ _ _ h)
    rQ := by
      intro tag d
      show Wit c log i q.ready rReady tag d
        (cnt (cntTouch q.rD (msg.tag, msg.payload)).1 (tag, d))
      rw [cnt_cntTouch]; exact hP.rQ tag d
    dbarCnt := by
      intro tag d hd
      show 2 * c.t + 1 ≤ cnt (cntTouch q.rD (msg.tag, msg.payload)).1 (tag, d)
      rw [cnt_cntTouch]; exact hP.dbarCnt tag d hd }

theorem PInv.readyCount {H : Int → Int} {c : Cfg} {i : Nat} {q : Party}
    {log : List (Nat × Nat × Msg)} {dl : List (Nat × Tag × Int)} (hP : PInv H c i q log dl)
    (l : Nat) (msg : Msg) (hact : msg.action = rReady) (hnew : fHas q.ready l msg.tag = false)
    (hl : l < c.n) (hin : l ∉ c.byz → (l, i, msg) ∈ log) :
    PInv H c i (readyPost q l msg) log dl :=
  { hP with
    rQ := by
      intro tag d
      show Wit c log i (fIns q.ready l msg.tag) rReady tag d
        (cnt (cntInc q.rD (msg.tag, msg.payload)).1 (tag, d))
      by_cases hk : (tag, d) = (msg.tag, msg.payload)
      · obtain ⟨rfl, rfl⟩ := Prod.mk.inj hk
        rw [cnt_cntInc_self]
        exact (hP.rQ _ _).ins l msg hnew hl hin hact rfl rfl
      · rw [cnt_cntInc_ne _ _ _ hk]
        exact (hP.rQ tag d).mono (fun _ h => h) (fun l' h => fHas_fIns_mono _ _ _ _ _ h)
    eQ := by
      intro tag d
      show Wit c log i q.echo rEcho tag d
        (cnt (cntTouch q.eD (msg.tag, msg.payload)).1 (tag, d))
      rw [cnt_cntTouch]; exact hP.eQ tag d
    dbarCnt := by
      intro tag d hd
      show 2 * c.t + 1 ≤ cnt (cntInc q.rD (msg.tag, msg.payload)).1 (tag, d)
      have := hP.dbarCnt tag d hd
      by_cases hk : (tag, d) = (msg.tag, msg.payload)
      · obtain ⟨rfl, rfl⟩ := Prod.mk.inj hk
        rw [cnt_cntInc_self]; omega
      · rw [cnt_cntInc_ne _ _ _ hk]; exact this }

theorem PInv.setDbar {H : Int → Int} {c : Cfg} {i : Nat} {p : Party}
    {log : List (Nat × Nat × Msg)} {dl : List (Nat × Tag × Int)} (hP : PInv H c i p log dl)
    (tag : Tag) (d : Int) (hnone : aGet p.dbar tag = none) (hEQ : EQ c log tag d)
    (hcnt : 2 * c.t + 1 ≤ cnt p.rD (tag, d)) :
    PInv H c i { p with dbar := aSet p.dbar tag d } log dl :=
  { hP with
    dbarEQ := by
      intro tag' d' h
      change aGet (aSet p.dbar tag d) tag' = some d' at h
      by_cases ht : tag' = tag
      · subst ht; rw [aGet_aSet_self] at h; cases h; exact hEQ
      · rw [aGet_aSet_ne _ _ _ _ ht] at h; exact hP.dbarEQ tag' d' h
    dbarCnt := by
      intro tag' d' h
      change aGet (aSet p.dbar tag d) tag' = some d' at h
      by_cases ht : tag' = tag
      · subst ht; rw [aGet_aSet_self] at h; cases h; exact hcnt
      · rw [aGet_aSet_ne _ _ _ _ ht] at h; exact hP.dbarCnt tag' d' h
    awDbar := by
      intro tag' h
      show ∃ d', aGet (aSet p.dbar tag d) tag' = some d'
      by_cases ht : tag' = tag
      · subst ht; exact ⟨d, aGet_aSet_self _ _ _⟩
      · rw [aGet_aSet_ne _ _ _ _ ht]; exact hP.awDbar tag' h
    nfKnown := by
      intro hf tag' v hv
      obtain ⟨hd, haw⟩ := hP.nfKnown hf tag' v hv
      refine ⟨?_, haw⟩
      show ∃ d', aGet (aSet p.dbar tag d) tag' = some d'
      by_cases ht : tag' = tag
      · subst ht; exact ⟨d, aGet_aSet_self _ _ _⟩
      · rw [aGet_aSet_ne _ _ _ _ ht]; exact hd }

theorem PInv.setMbar {H : Int → Int} {c : Cfg} {i : Nat} {p : Party}
    {log : List (Nat × Nat × Msg)} {dl : List (Nat × Tag × Int)} (hP : PInv H c i p log dl)
    (tag : Tag) (v : Int) (hEQ : tag.id = c.ID → EQ c log tag (H v)) :
    PInv H c i { p with mbar := aSet p.mbar tag v } log dl :=
  { hP with
    good := by
      intro tag' hid h
      show ∃ v', aGet (aSet p.mbar tag v) tag' = some v' ∧ _
      by_cases ht : tag' = tag
      · subst ht; exact ⟨v, aGet_aSet_self _ _ _, hEQ hid⟩
      · rw [aGet_aSet_ne _ _ _ _ ht]; exact hP.good tag' hid h }

theorem ldelBuf_length {H : Int → Int} {c : Cfg} {i : Nat} {q : Party}
    {log : List (Nat × Nat × Msg)} {dl : List (Nat × Tag × Int)} (hP : PInv H c i q log dl)
    (l : Nat) (msg : Msg) : (ldelBuf q l msg).length = c.n := by
  unfold ldelBuf
  rw [List.length_set]
  cases h : aGet q.retrieveBuf msg.tag with
  | none => simp [hP.cn]
  | some b => simpa using hP.rbLen _ _ h

theorem PInv.onLdel {H : Int → Int} {c : Cfg} {i : Nat} {q : Party}
    {log : List (Nat × Nat × Msg)} {dl : List (Nat × Tag × Int)} (hP : PInv H c i q log dl)
    (l : Nat) (msg : Msg) (hact : msg.action = lDeliver) (hnew : fHas q.deliver l msg.tag = false)
    (hl : l < c.n) (hin : l ∉ c.byz → (l, i, msg) ∈ log) :
    PInv H c i (ldelPost q l msg) log dl :=
  { hP with
    rbLen := by
      intro tag buf h
      change aGet (aSet q.retrieveBuf msg.tag (ldelBuf q l msg)) tag = some buf at h
      by_cases ht : tag = msg.tag
      · subst ht; rw [aGet_aSet_self] at h; cases h; exact ldelBuf_length hP l msg
      · rw [aGet_aSet_ne _ _ _ _ ht] at h; exact hP.rbLen tag buf h
    ldel := by
      intro l' tag h hl' hb
      change fHas (fIns q.deliver l msg.tag) l' tag = true at h
      have hlen := ldelBuf_length hP l msg
      by_cases ht : tag = msg.tag
      · subst ht
        have hrb : rbVal (ldelPost q l msg) msg.tag l' = (ldelBuf q l msg).getD l' 0 := by
          unfold rbVal
          show ((aGet (aSet q.retrieveBuf msg.tag (ldelBuf q l msg)) msg.tag).getD _).getD l' 0 = _
          rw [aGet_aSet_self]; rfl
        rw [hrb]
        by_cases hll : l' = l
        · subst hll
          refine ⟨msg, hin hb, hact, rfl, ?_⟩
          unfold ldelBuf
          rw [getD_set_self]
          unfold ldelBuf at hlen
          rw [List.length_set] at hlen
          omega
        · rcases (fHas_fIns _ _ _ _ _).1 h with ⟨h1, _⟩ | h
          · exact absurd h1 hll
          · obtain ⟨m, hm, ha, hmt, hmp⟩ := hP.ldel l' msg.tag h hl' hb
            refine ⟨m, hm, ha, hmt, ?_⟩
            rw [hmp]
            unfold ldelBuf rbVal
            rw [getD_set_ne _ _ _ _ hll]
      · rcases (fHas_fIns _ _ _ _ _).1 h with ⟨_, h2⟩ | h
        · exact absurd h2 ht
        · obtain ⟨m, hm, ha, hmt, hmp⟩ := hP.ldel l' tag h hl' hb
          refine ⟨m, hm, ha, hmt, ?_⟩
          rw [hmp]
          unfold rbVal
          show _ = ((aGet (aSet q.retrieveBuf msg.tag (ldelBuf q l msg)) tag).getD _).getD l' 0
          rw [aGet_aSet_ne _ _ _ _ ht]; rfl }

theorem agreeFind_some (p : Party) (tag : Tag) (buf : List Int) :
    ∀ (L : List Nat) (i : Nat), agreeFind p tag buf L = some i →
      i ∈ L ∧ fHas p.deliver i tag = true ∧ p.n - p.t ≤ agreeNum p tag buf i := by
  intro L
  induction L with
  | nil => intro i h; simp [agreeFind] at h
  | cons a L ih =>
    intro i h
    unfold agreeFind at h
    split_ifs at h with h1 h2
    · obtain ⟨h3, h4⟩ := ih i h
      exact ⟨List.mem_cons_of_mem _ h3, h4⟩
    · cases h
      refine ⟨List.mem_cons_self, ?_, h2⟩
      simp only [Bool.or_eq_true, Bool.not_eq_true', decide_eq_true_eq, not_or] at h1
      simpa using h1.1
    · obtain ⟨h3, h4⟩ := ih i h
      exact ⟨List.mem_cons_of_mem _ h3, h4⟩

theorem agreeNum_wit (p : Party) (tag : Tag) (buf : List Int) (i : Nat) (hi : i < p.n)
    (hfi : fHas p.deliver i tag = true) :
    ∃ S : Finset Nat, S.card = agreeNum p tag buf i ∧
      ∀ k ∈ S, k < p.n ∧ fHas p.deliver k tag = true ∧ buf.getD k 0 = buf.getD i 0 := by
  unfold agreeNum
  set L := (List.range p.n).filter fun k =>
    decide (i < k) && fHas p.deliver k tag && decide (k ≠ p.j) &&
      decide (buf.getD k 0 = buf.getD i 0) with hL
  have hnd : L.Nodup := List.Nodup.filter _ List.nodup_range
  have hmem : ∀ k ∈ L, i < k ∧ k < p.n ∧ fHas p.deliver k tag = true ∧
      buf.getD k 0 = buf.getD i 0 := by
    intro k hk
    rw [hL, List.mem_filter] at hk
    obtain ⟨h1, h2⟩ := hk
    simp only [Bool.and_eq_true, decide_eq_true_eq] at h2
    exact ⟨h2.1.1.1, List.mem_range.1 h1, h2.1.1.2, h2.2⟩
  have hnot : i ∉ L.toFinset := by
    intro h
    have := (hmem i (List.mem_toFinset.1 h)).1
    omega
  refine ⟨insert i L.toFinset, ?_, ?_⟩
  · rw [Finset.card_insert_of_notMem hnot, List.toFinset_card_of_nodup hnd]; omega
  · intro k hk
    rcases Finset.mem_insert.1 hk with rfl | hk
    · exact ⟨hi, hfi, rfl⟩
    · exact (hmem k (List.mem_toFinset.1 hk)).2

theorem Wit.toEQ {c : Cfg} {log : List (Nat × Nat × Msg)} {i : Nat} {f : Filter} {tag : Tag}
    {d : Int} {k : Nat} (h : Wit c log i f rEcho tag d k) (hk : c.n - c.t ≤ k) : EQ c log tag d := by
  obtain ⟨S, h1, h2⟩ := h
  refine ⟨S, ?_, by omega, ?_⟩
  · intro l hl; exact Finset.mem_range.2 (h2 l hl).1
  · intro l hl hb
    obtain ⟨m, hm⟩ := (h2 l hl).2.2 hb
    exact ⟨i, m, hm⟩

theorem Wit.honest {c : Cfg} {log : List (Nat × Nat × Msg)} {i : Nat} {f : Filter} {a : Int}
    {tag : Tag} {d : Int} {k : Nat} (h : Wit c log i f a tag d k) (hk : c.byz.card < k) :
    ∃ l m, (l, i, m) ∈ log ∧ m.action = a ∧ m.tag = tag ∧ m.payload = d := by
  obtain ⟨S, h1, h2⟩ := h
  obtain ⟨l, hl, hb⟩ := exists_honest_of_card (c := c) S (by omega)
  obtain ⟨m, hm⟩ := (h2 l hl).2.2 hb
  exact ⟨l, m, hm⟩

theorem mem_sendAll {n : Nat} {m : Msg} {x : Nat × Msg} (h : x ∈ sendAll n m) : x.2 = m := by
  unfold sendAll at h
  obtain ⟨k, _, rfl⟩ := List.mem_map.1 h
  rfl

/-- T1 followed by T2 -/
theorem inv_T1_dob {H : Int → Int} {c : Cfg} {s : Sys} (hI : Inv H c s) {i : Nat}
    (hi : c.honest i) (p3 : Party) (hP3 : PInv H c i p3 s.log s.dl) (msg : Msg) (wf : WF p3 msg)
    (hgood : msg.id = c.ID → ∃ v, aGet p3.mbar msg.tag = some v ∧ EQ c s.log msg.tag (H v))
    (hnf : c.fifo = false → msg.id = c.ID → (∀ v, (i, msg.tag, v) ∉ s.dl) ∧
      (∃ d, aGet p3.dbar msg.tag = some d) ∧ msg.tag ∉ p3.awaited) :
    Inv H c ⟨upd s.st i (deliverOrBuffer p3 msg []).party,
      s.log ++ tagMsgs i (deliverOrBuffer p3 msg []).sent, s.bc,
      dlAfter s.dl i msg.tag (deliverOrBuffer p3 msg []).out⟩ := by
  have h1 := inv_T1 hI hi p3 [] hP3 (NewOk.of_quiet (by intro x hx; cases hx))
  have hlog : s.log ++ tagMsgs i [] = s.log := by simp [tagMsgs]
  have h1' : Inv H c ⟨upd s.st i p3, s.log, s.bc, s.dl⟩ := inv_congr h1 rfl hlog rfl rfl
  have h2 := inv_dob h1' hi p3 (upd_same _ _ _) msg wf hgood hnf
  refine inv_congr h2 (upd_upd _ _ _ _) ?_ rfl rfl
  rw [dob_sent_nil]; exact hlog.symm

theorem echo_newok {H : Int → Int} {c : Cfg} {s : Sys} {i : Nat} {q q' : Party}
    (hP : PInv H c i q s.log s.dl) {l : Nat} {msg : Msg} (wf : WF q msg)
    (hact : msg.action = rSend) (hnew : fHas q.send l msg.tag = false)
    (hlS : msg.sender = (l : Int)) (hin : l ∉ c.byz → (l, i, msg) ∈ s.log)
    (hq' : fHas q'.send l msg.tag = true) :
    NewOk H c s i q' (sendAll q.n ⟨msg.id, msg.sender, msg.seq, rEcho, H msg.payload⟩) := by
  have hto : msg.sender.toNat = l := by rw [hlS]; simp
  have hmsg : (⟨msg.id, msg.sender, msg.seq, rSend, msg.payload⟩ : Msg) = msg := by
    cases msg; simp_all
  refine ⟨?_, ?_, ?_, ?_⟩
  · intro x hx; rw [mem_sendAll hx]; show rEcho ≠ rSend; decide
  · intro x hx _
    rw [mem_sendAll hx]
    refine ⟨wf.1, ?_, ⟨msg.payload, rfl, ?_⟩, ?_, ?_⟩
    · show fHas q'.send msg.sender.toNat msg.tag = true
      rw [hto]; exact hq'
    · show msg.sender.toNat ∉ c.byz → (msg.sender.toNat, i, _) ∈ s.log
      rw [hto, hmsg]; exact hin
    · intro dst m hm ha ht
      exfalso
      obtain ⟨h0, h1⟩ := hP.sendOk dst m hm ha
      have hs : m.sender = msg.sender := congrArg Tag.sender ht
      rw [ht, hs, hto] at h1
      change fHas q.send l msg.tag = true at h1
      rw [hnew] at h1
      cases h1
    · intro y hy _ _
      rw [mem_sendAll hy]
  · intro x hx ha; rw [mem_sendAll hx] at ha; exact absurd (show rEcho = rReady from ha) (by decide)
  · intro _ x hx ha; rw [mem_sendAll hx] at ha; exact absurd (show rEcho = lDeliver from ha) (by decide)

theorem ready_newok {H : Int → Int} {c : Cfg} {s : Sys} {i : Nat} {q' : Party} {n : Nat}
    {msg : Msg} (hEQ : EQ c s.log msg.tag msg.payload) :
    NewOk H c s i q' (sendAll n ⟨msg.id, msg.sender, msg.seq, rReady, msg.payload⟩) := by
  refine ⟨?_, ?_, ?_, ?_⟩
  · intro x hx; rw [mem_sendAll hx]; show rReady ≠ rSend; decide
  · intro x hx ha; rw [mem_sendAll hx] at ha
    exact absurd (show rReady = rEcho from ha) (by decide)
  · intro x hx _; rw [mem_sendAll hx]; exact hEQ
  · intro _ x hx ha; rw [mem_sendAll hx] at ha
    exact absurd (show rReady = lDeliver from ha) (by decide)

theorem quiet_of_request {ms : Sent} (h : ∀ x ∈ ms, x.2.action = rRequest) : Quiet ms := by
  intro x hx
  rw [h x hx]
  decide

theorem quiet_nil : Quiet [] := by intro x hx; cases hx

theorem inv_disp_minor {H : Int → Int} {c : Cfg} {s : Sys} (hI : Inv H c s) {i : Nat}
    (hi : c.honest i) (q : Party) (hq : s.st i = q) (q' : Party) (ms : Sent) (hc : SameCore q q')
    (hs : ∀ x ∈ ms, x.2.action = rRequest ∨ x.2.action = rAnswer ∨ x.2.action = lFail) :
    Inv H c ⟨upd s.st i q', s.log ++ tagMsgs i ms, s.bc, s.dl⟩ := by
  have hP : PInv H c i q s.log s.dl := hq ▸ hI.parties i hi
  refine inv_T1 hI hi q' ms (hP.sameCore hc) (NewOk.of_quiet ?_)
  intro x hx
  rcases hs x hx with h | h | h <;> rw [h] <;> decide

theorem PInv.addAwaited {H : Int → Int} {c : Cfg} {i : Nat} {p : Party}
    {log : List (Nat × Nat × Msg)} {dl : List (Nat × Tag × Int)} (hP : PInv H c i p log dl)
    (tag : Tag) (hd : ∃ d, aGet p.dbar tag = some d)
    (hnd : c.fifo = false → ∀ v, (i, tag, v) ∉ dl) :
    PInv H c i { p with awaited := if p.awaited.contains tag then p.awaited
                                   else tag :: p.awaited } log dl := by
  by_cases hc : p.awaited.contains tag = true
  · have : (if p.awaited.contains tag then p.awaited else tag :: p.awaited) = p.awaited := by
      rw [if_pos hc]
    rw [this]
    exact { hP with }
  · have hnot : tag ∉ p.awaited := by simpa using hc
    have : (if p.awaited.contains tag then p.awaited else tag :: p.awaited) = tag :: p.awaited := by
      rw [if_neg hc]
    rw [this]
    exact
      { hP with
        awNodup := List.nodup_cons.2 ⟨hnot, hP.awNodup⟩
        awDbar := by
          intro tag' h
          rcases List.mem_cons.1 h with rfl | h
          · exact hd
          · exact hP.awDbar tag' h
        nfKnown := by
          intro hf tag' v hv
          obtain ⟨h1, h2⟩ := hP.nfKnown hf tag' v hv
          refine ⟨h1, ?_⟩
          intro h
          rcases List.mem_cons.1 h with rfl | h
          · exact hnd hf v hv
          · exact h2 h }

theorem PInv.eraseAwaited {H : Int → Int} {c : Cfg} {i : Nat} {p : Party}
    {log : List (Nat × Nat × Msg)} {dl : List (Nat × Tag × Int)} (hP : PInv H c i p log dl)
    (tag : Tag) : PInv H c i { p with awaited := p.awaited.erase tag } log dl :=
  { hP with
    awNodup := hP.awNodup.erase tag
    awDbar := fun tag' h => hP.awDbar tag' (List.mem_of_mem_erase h)
    nfKnown := by
      intro hf tag' v hv
      obtain ⟨h1, h2⟩ := hP.nfKnown hf tag' v hv
      exact ⟨h1, fun h => h2 (List.mem_of_mem_erase h)⟩ }

theorem not_mem_erase_self {p : Party} (h : p.awaited.Nodup) (tag : Tag) :
    tag ∉ p.awaited.erase tag := fun hm => (List.Nodup.mem_erase_iff h).1 hm |>.1 rfl

/-- the `2t+1`-st r-ready for `(tag, d)`: `dbar[tag]` was not set before, and `d` is the digest of
    an echo quorum -/
theorem ready_p3 {H : Int → Int} {c : Cfg} (hy : Hyp H c) {s : Sys} (hI : Inv H c s) {i : Nat}
    {q : Party} (hP : PInv H c i q s.log s.dl) {l : Nat} {msg : Msg}
    (hact : msg.action = rReady) (hnew : fHas q.ready l msg.tag = false) (hl : l < c.n)
    (hin : l ∉ c.byz → (l, i, msg) ∈ s.log)
    (hr : cnt q.rD (msg.tag, msg.payload) + 1 = 2 * q.t + 1) (p3 : Party)
    (hd : (aGet q.dbar msg.tag = none ∧
            p3 = { readyPost q l msg with dbar := aSet q.dbar msg.tag msg.payload }) ∨
          (aGet q.dbar msg.tag = some msg.payload ∧ p3 = readyPost q l msg)) :
    aGet q.dbar msg.tag = none ∧
    p3 = { readyPost q l msg with dbar := aSet q.dbar msg.tag msg.payload } ∧
    PInv H c i p3 s.log s.dl ∧ EQ c s.log msg.tag msg.payload := by
  have hn := hy.hn
  have hb := hy.hb
  rcases hd with ⟨hd, hp3⟩ | ⟨hd, _⟩
  · have hP' := hP.readyCount l msg hact hnew hl hin
    have hc1 : cnt (readyPost q l msg).rD (msg.tag, msg.payload) = 2 * c.t + 1 := by
      show cnt (cntInc q.rD (msg.tag, msg.payload)).1 (msg.tag, msg.payload) = _
      rw [cnt_cntInc_self, hr, hP.ct]
    have hw := hP'.rQ msg.tag msg.payload
    rw [hc1] at hw
    obtain ⟨l', m, hm, ha, ht, hp⟩ := hw.honest (by omega)
    have hEQ := hI.readyEQ l' i m hm ha
    rw [ht, hp] at hEQ
    refine ⟨hd, hp3, ?_, hEQ⟩
    rw [hp3]
    exact hP'.setDbar msg.tag msg.payload hd hEQ (by rw [hc1])
  · exfalso
    have := hP.dbarCnt _ _ hd
    rw [← hP.ct] at this
    omega

/-- the dispatch of a message that link `l` handed over preserves the invariant -/
theorem inv_disp {H : Int → Int} {c : Cfg} (hy : Hyp H c) {s : Sys} (hI : Inv H c s) {i : Nat}
    (hi : c.honest i) (q : Party) (hq : s.st i = q) (l : Nat) (msg : Msg) (hl : l < c.n)
    (hin : l ∈ c.byz ∨ (l, i, msg) ∈ s.log) (q' : Party) (ms : Sent) (o : Outcome)
    (hD : Disp H q l msg q' ms o) :
    Inv H c ⟨upd s.st i q', s.log ++ tagMsgs i ms, s.bc, dlAfter s.dl i msg.tag o⟩ := by
  have hP : PInv H c i q s.log s.dl := hq ▸ hI.parties i hi
  have hin' : l ∉ c.byz → (l, i, msg) ∈ s.log := fun hb => hin.resolve_left hb
  have hn := hy.hn
  have hb := hy.hb
  cases hD with
  | minor q' s' hc hs => exact inv_disp_minor hI hi q hq q' _ hc hs
  | echoNew wf hact hnew hlS hm =>
    exact inv_T1 hI hi _ _ (hP.echoNew l msg.tag msg.payload hm)
      (echo_newok hP wf hact hnew hlS hin' (fHas_fIns_self _ _ _))
  | echoOld wf hact hnew hlS hm =>
    exact inv_T1 hI hi _ _ (hP.sameCore (SameCore.mkSend q l msg.tag))
      (echo_newok hP wf hact hnew hlS hin' (fHas_fIns_self _ _ _))
  | echoCount wf hact hnew s' hs =>
    have hP' := hP.echoCount l msg hact hnew hl hin'
    refine inv_T1 hI hi _ _ hP' ?_
    rcases hs with rfl | ⟨rfl, hcnt⟩
    · exact NewOk.of_quiet quiet_nil
    · refine ready_newok ((hP'.eQ msg.tag msg.payload).toEQ ?_)
      show c.n - c.t ≤ cnt (cntInc q.eD (msg.tag, msg.payload)).1 (msg.tag, msg.payload)
      rw [cnt_cntInc_self, hcnt, hP.cn, hP.ct]
  | readyCount wf hact hnew s' hs =>
    have hP' := hP.readyCount l msg hact hnew hl hin'
    refine inv_T1 hI hi _ _ hP' ?_
    rcases hs with rfl | ⟨rfl, hcnt⟩
    · exact NewOk.of_quiet quiet_nil
    · have hw := hP'.rQ msg.tag msg.payload
      have hc1 : cnt (readyPost q l msg).rD (msg.tag, msg.payload) = c.t + 1 := by
        show cnt (cntInc q.rD (msg.tag, msg.payload)).1 (msg.tag, msg.payload) = _
        rw [cnt_cntInc_self, hcnt, hP.ct]
      rw [hc1] at hw
      obtain ⟨l', m, hm, ha, ht, hp⟩ := hw.honest (by omega)
      have := hI.readyEQ l' i m hm ha
      rw [ht, hp] at this
      exact ready_newok this
  | readyReq wf hact hnew hr p3 hd s' hs =>
    obtain ⟨hnone, hp3, hP3, hEQ⟩ := ready_p3 hy hI hP hact hnew hl hin' hr p3 hd
    have hdb3 : aGet p3.dbar msg.tag = some msg.payload := by
      rw [hp3]; exact aGet_aSet_self _ _ _
    have hP4 := hP3.addAwaited msg.tag ⟨_, hdb3⟩ (by
      intro hf v hv
      obtain ⟨⟨d, hd'⟩, _⟩ := hP.nfKnown hf msg.tag v hv
      rw [hnone] at hd'; cases hd')
    have haw : p3.awaited = q.awaited := by rw [hp3]; rfl
    rw [haw] at hP4
    exact inv_T1 hI hi _ _ hP4 (NewOk.of_quiet (quiet_of_request hs))
  | readyDeliver wf hact hnew hr p3 hd hfoo =>
    obtain ⟨hnone, hp3, hP3, hEQ⟩ := ready_p3 hy hI hP hact hnew hl hin' hr p3 hd
    have hdb3 : aGet p3.dbar msg.tag = some msg.payload := by
      rw [hp3]; exact aGet_aSet_self _ _ _
    have hmb3 : p3.mbar = q.mbar := by rw [hp3]; rfl
    have haw : p3.awaited = q.awaited := by rw [hp3]; rfl
    have wf3 : WF p3 msg := by rw [hp3]; exact wf
    refine inv_T1_dob hI hi p3 hP3 msg wf3 ?_ ?_
    · intro _
      rcases hfoo with ⟨_, h0⟩ | ⟨mb, hm, hh⟩
      · exfalso
        rw [h0] at hEQ
        obtain ⟨k, dst, m, _, hm, ha, _, hp⟩ := EQ.honest hy hEQ
        obtain ⟨v, hv, _⟩ := hI.echoH k dst m hm ha
        exact hy.h0 v (by rw [← hv, hp])
      · refine ⟨mb, by rw [hmb3]; exact hm, ?_⟩
        rw [hh]; exact hEQ
    · intro hf _
      refine ⟨?_, ⟨_, hdb3⟩, ?_⟩
      · intro v hv
        obtain ⟨⟨d, hd'⟩, _⟩ := hP.nfKnown hf msg.tag v hv
        rw [hnone] at hd'; cases hd'
      · rw [haw]
        intro h
        obtain ⟨d, hd'⟩ := hP.awDbar msg.tag h
        rw [hnone] at hd'; cases hd'
  | answerDeliver wf hact hnew db hd haw hh p2 hp2 =>
    have hEQ : EQ c s.log msg.tag (H msg.payload) := by rw [hh]; exact hP.dbarEQ _ _ hd
    have hmem : msg.tag ∈ q.awaited := by simpa using haw
    have hP2 : PInv H c i p2 s.log s.dl := by
      rw [hp2]
      exact (((hP.sameCore (SameCore.mkAnswer q (fIns q.answer l msg.tag))).setMbar msg.tag
        msg.payload (fun _ => hEQ)).eraseAwaited msg.tag)
    have wf2 : WF p2 msg := by rw [hp2]; exact wf
    have hmb2 : aGet p2.mbar msg.tag = some msg.payload := by rw [hp2]; exact aGet_aSet_self _ _ _
    refine inv_T1_dob hI hi p2 hP2 msg wf2 (fun _ => ⟨_, hmb2, hEQ⟩) ?_
    intro hf _
    refine ⟨?_, ⟨db, by rw [hp2]; exact hd⟩, ?_⟩
    · intro v hv
      exact (hP.nfKnown hf msg.tag v hv).2 hmem
    · rw [hp2]; exact not_mem_erase_self hP.awNodup msg.tag
  | retrieveAns wf hact mb hm hc =>
    refine inv_T1 hI hi _ _ hP ⟨?_, ?_, ?_, ?_⟩
    · intro x hx; rw [List.mem_singleton] at hx; subst hx; show lDeliver ≠ rSend; decide
    · intro x hx ha; rw [List.mem_singleton] at hx; subst hx
      exact absurd (show lDeliver = rEcho from ha) (by decide)
    · intro x hx ha; rw [List.mem_singleton] at hx; subst hx
      exact absurd (show lDeliver = rReady from ha) (by decide)
    · intro hf x hx _ hid
      rw [List.mem_singleton] at hx; subst hx
      show EQ c s.log msg.tag (H mb)
      have hid' : msg.tag.id = c.ID := hid
      rcases hc with ⟨_, hlt⟩ | hnf
      · have w1 : msg.tag.sender ≤ (c.n : Int) - 1 := by rw [← hP.cn]; exact wf.2.1
        obtain ⟨v, hv⟩ := hP.fifoDel hf msg.tag hid' wf.1 w1 wf.2.2 hlt
        obtain ⟨v', hv', he⟩ := hP.good msg.tag hid' (Or.inr ⟨v, hv⟩)
        rw [hm] at hv'; cases hv'; exact he
      · rw [hP.cfifo, hf] at hnf; cases hnf
  | ldelMark wf hact hnew hretr =>
    exact inv_T1 hI hi _ _ (hP.onLdel l msg hact hnew hl hin') (NewOk.of_quiet quiet_nil)
  | ldelDeliver wf hact hnew hretr i0 hi0 p3 hp3 =>
    have hf : c.fifo = true := by
      cases hfc : c.fifo with
      | true => rfl
      | false =>
        have := hP.nfRetr hfc
        rw [this] at hretr
        simp [fHas] at hretr
    have hPl := hP.onLdel l msg hact hnew hl hin'
    obtain ⟨hmem, hfi, hnum⟩ := agreeFind_some _ _ _ _ _ hi0
    have hi0n : i0 < (ldelPost q l msg).n := List.mem_range.1 hmem
    obtain ⟨S, hcard, hS⟩ := agreeNum_wit (ldelPost q l msg) msg.tag (ldelBuf q l msg) i0 hi0n hfi
    have hcn : (ldelPost q l msg).n = c.n := hP.cn
    have hct : (ldelPost q l msg).t = c.t := hP.ct
    have hlt : c.byz.card < S.card := by
      rw [hcard]; rw [hcn, hct] at hnum; omega
    obtain ⟨l', hl'S, hl'b⟩ := exists_honest_of_card (c := c) S hlt
    obtain ⟨hl'n, hl'f, hl'v⟩ := hS l' hl'S
    obtain ⟨m, hm, ha, hmt, hmp⟩ := hPl.ldel l' msg.tag hl'f (by rw [← hcn]; exact hl'n) hl'b
    have hrb : rbVal (ldelPost q l msg) msg.tag l' = (ldelBuf q l msg).getD l' 0 := by
      unfold rbVal
      show ((aGet (aSet q.retrieveBuf msg.tag (ldelBuf q l msg)) msg.tag).getD _).getD l' 0 = _
      rw [aGet_aSet_self]; rfl
    have hEQ : msg.tag.id = c.ID → EQ c s.log msg.tag (H ((ldelBuf q l msg).getD i0 0)) := by
      intro hid
      have hmid : m.id = c.ID := by
        have : m.tag.id = c.ID := by rw [hmt]; exact hid
        exact this
      have := hI.ldelEQ hf l' i m hm ha hmid
      rw [hmt, hmp, hrb, hl'v] at this
      exact this
    have hP3 : PInv H c i p3 s.log s.dl := by
      rw [hp3]; exact hPl.setMbar msg.tag _ hEQ
    have wf3 : WF p3 msg := by rw [hp3]; exact wf
    refine inv_T1_dob hI hi p3 hP3 msg wf3 ?_ ?_
    · intro hid
      exact ⟨_, by rw [hp3]; exact aGet_aSet_self _ _ _, hEQ hid⟩
    · intro hnf; rw [hf] at hnf; cases hnf

theorem stepSys_eq (H : Int → Int) (T : Tag → Int) (s : Sys) (i : Nat) (pi : List Nat)
    (inp : Option (Nat × Msg)) (q' : Party) (ms : Sent) (o : Outcome)
    (h : step H T (s.st i) pi inp = ⟨q', ms, o⟩) :
    stepSys H T s i pi inp =
      ⟨upd s.st i q', s.log ++ tagMsgs i ms, s.bc,
       dlAfter s.dl i (deliveredTag (s.st i) pi inp) o⟩ := by
  unfold stepSys
  simp only [h]
  cases o <;> rfl

theorem quiet_of_retrieve {ms : Sent} (h : ∀ x ∈ ms, x.2.action = lRetrieve) : Quiet ms := by
  intro x hx
  rw [h x hx]
  decide

theorem tagMsgs_append (i : Nat) (a b : Sent) : tagMsgs i (a ++ b) = tagMsgs i a ++ tagMsgs i b := by
  unfold tagMsgs; rw [List.map_append]

theorem inv_stepSys {H : Int → Int} (T : Tag → Int) {c : Cfg} (hy : Hyp H c) {s : Sys}
    (hI : Inv H c s) {i : Nat} (hi : c.honest i) (pi : List Nat) (inp : Option (Nat × Msg))
    (hinp : ∀ l msg, inp = some (l, msg) → l < c.n ∧ (l ∈ c.byz ∨ (l, i, msg) ∈ s.log)) :
    Inv H c (stepSys H T s i pi inp) := by
  have hP : PInv H c i (s.st i) s.log s.dl := hI.parties i hi
  rcases step_cases H T (s.st i) pi inp hP.cskip hP.cbuf with
    ⟨e, rest, hff, hm, hstep⟩ | ⟨e, rest, m, hff, hm, htag, hstep⟩ |
    ⟨hff, R, s0, hR, hs0, hrest⟩
  · rw [stepSys_eq H T s i pi inp _ _ _ hstep]
    exact inv_congr hI (upd_self _ _).symm (by simp [tagMsgs]) rfl rfl
  · rw [stepSys_eq H T s i pi inp _ _ _ hstep, htag]
    obtain ⟨he, hdel, hsub⟩ := findFirst_some _ _ _ _ hff
    unfold deliverable at hdel
    simp only [Bool.and_eq_true, decide_eq_true_eq, Bool.or_eq_true, Bool.not_eq_true'] at hdel
    obtain ⟨hid, hseq⟩ := hdel
    have hid' : e.tag.id = c.ID := hid.trans hP.cID
    obtain ⟨w0, w1, w2⟩ := hP.bufWF e he
    rw [hP.cn] at w1
    obtain ⟨v, hv, hEQ⟩ := hP.good e.tag hid' (Or.inl ⟨e, he, rfl⟩)
    have hvm : v = m := by rw [hm] at hv; cases hv; rfl
    subst hvm
    have := inv_deliver hI hi e.tag v rest (s.st i) rfl hsub hid' w0 w1 w2
      (by
        intro hf
        rcases hseq with h | h
        · rw [hP.cfifo, hf] at h; cases h
        · exact h)
      hm hEQ
      (by
        intro hf
        exact absurd hid' (hP.nfBuf hf e he))
    exact inv_congr this rfl (by simp [tagMsgs]) rfl rfl
  · have hPk := hP.hk R hR
    have hI1 := inv_T1 hI hi _ s0 hPk (NewOk.of_quiet (quiet_of_retrieve hs0))
    rcases hrest with ⟨_, hstep⟩ | ⟨l, msg, q', sd, o, hinpeq, htag, hD, hstep⟩
    · rw [stepSys_eq H T s i pi inp _ _ _ hstep]
      exact hI1
    · rw [stepSys_eq H T s i pi inp _ _ _ hstep, htag]
      obtain ⟨hl, hin⟩ := hinp l msg hinpeq
      have hin1 : l ∈ c.byz ∨ (l, i, msg) ∈ s.log ++ tagMsgs i s0 := by
        rcases hin with h | h
        · exact Or.inl h
        · exact Or.inr (List.mem_append_left _ h)
      have := inv_disp hy hI1 hi (hkParty (s.st i) R) (upd_same _ _ _) l msg hl hin1 q' sd o hD
      refine inv_congr this (upd_upd _ _ _ _) ?_ rfl rfl
      show (s.log ++ tagMsgs i s0) ++ tagMsgs i sd = s.log ++ tagMsgs i (s0 ++ sd)
      rw [tagMsgs_append, List.append_assoc]

theorem inv_bcast {H : Int → Int} {c : Cfg} {s : Sys} (hI : Inv H c s) {i : Nat}
    (hi : c.honest i) (v rnd : Int) :
    Inv H c ⟨upd s.st i (broadcast (s.st i) v rnd).1,
      s.log ++ tagMsgs i (broadcast (s.st i) v rnd).2,
      s.bc ++ [(i, ⟨(s.st i).ID, (s.st i).j, (broadcast (s.st i) v rnd).1.s⟩, v)], s.dl⟩ := by
  have hP : PInv H c i (s.st i) s.log s.dl := hI.parties i hi
  obtain ⟨s', hs'⟩ : ∃ s', s' = (if (s.st i).fifo then (s.st i).s + 1 else rnd) := ⟨_, rfl⟩
  have hb1 : (broadcast (s.st i) v rnd).1 = { s.st i with s := s' } := by rw [hs']; rfl
  have hb2 : (broadcast (s.st i) v rnd).2 =
      sendAll (s.st i).n ⟨(s.st i).ID, (s.st i).j, s', rSend, v⟩ := by rw [hs']; rfl
  rw [hb1, hb2]
  have hsub : ∀ x ∈ s.log, x ∈ s.log ++ tagMsgs i
      (sendAll (s.st i).n ⟨(s.st i).ID, (s.st i).j, s', rSend, v⟩) :=
    fun x hx => List.mem_append_left _ hx
  have hsplit : ∀ k dst m, (k, dst, m) ∈ s.log ++ tagMsgs i
      (sendAll (s.st i).n ⟨(s.st i).ID, (s.st i).j, s', rSend, v⟩) →
      (k, dst, m) ∈ s.log ∨ (k = i ∧ m = ⟨(s.st i).ID, (s.st i).j, s', rSend, v⟩) := by
    intro k dst m h
    rcases List.mem_append.1 h with h | h
    · exact Or.inl h
    · obtain ⟨h1, h2⟩ := mem_tagMsgs.1 h
      exact Or.inr ⟨h1, mem_sendAll h2⟩
  have hne : ∀ a : Int, a ≠ rSend → ∀ m : Msg,
      m = ⟨(s.st i).ID, (s.st i).j, s', rSend, v⟩ → m.action = a → False := by
    intro a ha m hm hma
    rw [hm] at hma
    exact ha hma.symm
  refine
    { src := ?_, rsend := ?_, echoH := ?_, echoU := ?_, readyEQ := ?_, ldelEQ := ?_,
      dlWF := hI.dlWF, dlEQ := fun j tag v h => (hI.dlEQ j tag v h).mono hsub,
      nodup := hI.nodup, parties := ?_ }
  · intro k dst m h
    rcases hsplit k dst m h with hl | ⟨rfl, _⟩
    · exact hI.src k dst m hl
    · exact hi
  · intro k dst m h ha
    rcases hsplit k dst m h with hl | ⟨rfl, hm⟩
    · obtain ⟨h1, h2⟩ := hI.rsend k dst m hl ha
      exact ⟨List.mem_append_left _ h1, h2⟩
    · subst hm
      refine ⟨List.mem_append_right _ (List.mem_singleton.2 rfl), ?_⟩
      show ((s.st k).j : Int) = k
      rw [hP.cj]
  · intro k dst m h ha
    rcases hsplit k dst m h with hl | ⟨_, hm⟩
    · obtain ⟨v', hv', hl'⟩ := hI.echoH k dst m hl ha
      exact ⟨v', hv', fun hb => hsub _ (hl' hb)⟩
    · exact (hne rEcho (by decide) m hm ha).elim
  · intro k dst m dst' m' h h' ha ha' ht
    rcases hsplit k dst m h with hl | ⟨_, hm⟩
    · rcases hsplit k dst' m' h' with hl' | ⟨_, hm'⟩
      · exact hI.echoU k dst m dst' m' hl hl' ha ha' ht
      · exact (hne rEcho (by decide) m' hm' ha').elim
    · exact (hne rEcho (by decide) m hm ha).elim
  · intro k dst m h ha
    rcases hsplit k dst m h with hl | ⟨_, hm⟩
    · exact (hI.readyEQ k dst m hl ha).mono hsub
    · exact (hne rReady (by decide) m hm ha).elim
  · intro hf k dst m h ha hid
    rcases hsplit k dst m h with hl | ⟨_, hm⟩
    · exact (hI.ldelEQ hf k dst m hl ha hid).mono hsub
    · exact (hne lDeliver (by decide) m hm ha).elim
  · intro k hk
    by_cases hki : k = i
    · subst hki
      show PInv H c k (upd s.st k _ k) _ _
      rw [upd_same]
      have hP' : PInv H c k { s.st k with s := s' } s.log s.dl := { hP with }
      refine hP'.mono hsub ?_ (fun _ _ => Iff.rfl)
      intro dst m h ha
      rcases hsplit k dst m h with hl | ⟨_, hm⟩
      · exact Or.inl hl
      · exact (hne rEcho (by decide) m hm ha).elim
    · show PInv H c k (upd s.st i _ k) _ _
      rw [upd_ne _ _ _ _ hki]
      refine (hI.parties k hk).mono hsub ?_ (fun _ _ => Iff.rfl)
      intro dst m h ha
      rcases hsplit k dst m h with hl | ⟨rfl, _⟩
      · exact Or.inl hl
      · exact absurd rfl hki



theorem inv_step {H : Int → Int} (T : Tag → Int) {c : Cfg} (hy : Hyp H c) {s : Sys}
    (hI : Inv H c s) (ev : Event) (hv : ev.Valid c s) : Inv H c (s.apply H T ev) := by
  cases ev with
  | recv i src msg pi =>
    obtain ⟨hi, hsrc, hin⟩ := hv
    refine inv_stepSys T hy hI hi pi (some (src, msg)) ?_
    intro l m h
    simp only [Option.some.injEq, Prod.mk.injEq] at h
    obtain ⟨rfl, rfl⟩ := h
    exact ⟨hsrc, hin⟩
  | tick i pi =>
    refine inv_stepSys T hy hI hv pi none ?_
    intro l m h; cases h
  | bcast i v rnd => exact inv_bcast hI hv v rnd

theorem reach_inv {H : Int → Int} {T : Tag → Int} {c : Cfg} (hy : Hyp H c) {s : Sys}
    (hr : Reach H T c s) : Inv H c s := by
  induction hr with
  | init => exact inv_init H c
  | step s ev _ hv ih => exact inv_step T hy ih ev hv

/-! ## 8. main theorems (property C14, global part)

  Deliveries and broadcasts are only ever recorded for honest parties (`Event.Valid`), so
  "`(i, tag, v) ∈ s.dl`" reads "the honest party `i` delivered `v` for `tag`".
  No assumption on the sequence numbers of non-FIFO broadcasts is needed for these statements
  (if an honest sender reuses a sequence number, at most one of its two values is delivered and
  integrity still holds for it). -/

/-- **agreement**: two honest deliveries for the same tag carry the same value -/
theorem rbc_agreement {H : Int → Int} {T : Tag → Int} {c : Cfg} (hy : Hyp H c) {s : Sys}
    (hr : Reach H T c s) {i i' : Nat} {tag : Tag} {v v' : Int}
    (h : (i, tag, v) ∈ s.dl) (h' : (i', tag, v') ∈ s.dl) : v = v' :=
  inv_agreement hy (reach_inv hy hr) h h'

/-- **integrity**: a value delivered for a tag of an honest sender was broadcast by that sender
    under that tag -/
theorem rbc_integrity {H : Int → Int} {T : Tag → Int} {c : Cfg} (hy : Hyp H c) {s : Sys}
    (hr : Reach H T c s) {i k : Nat} {tag : Tag} {v : Int}
    (h : (i, tag, v) ∈ s.dl) (hk : c.honest k) (hs : tag.sender = (k : Int)) :
    (k, tag, v) ∈ s.bc :=
  inv_integrity hy (reach_inv hy hr) h hk hs

/-- **no duplication**: an honest party delivers a tag at most once (both modes) -/
theorem rbc_no_duplication {H : Int → Int} {T : Tag → Int} {c : Cfg} (hy : Hyp H c) {s : Sys}
    (hr : Reach H T c s) : (s.dl.map fun d => (d.1, d.2.1)).Nodup :=
  (reach_inv hy hr).nodup


/-! ## 9. non-vacuity: a concrete run with an equivocating Byzantine sender -/

namespace Example

/-- an injective hash without the value `0` -/
def exH : Int → Int := fun x => 2 * x + 1
def exT : Tag → Int := fun _ => 62 ^ 20
/-- four parties, `t = 1`, party 3 Byzantine, channel 7, FIFO mode -/
def exC : Cfg := ⟨4, 1, {3}, 7, true⟩

theorem exHyp : Hyp exH exC where
  hn := by decide
  hb := by decide
  inj := by intro a b h; simp only [exH] at h; omega
  h0 := by intro m h; simp only [exH] at h; omega

def mS (v : Int) : Msg := ⟨7, 3, 1, rSend, v⟩
def mE (v : Int) : Msg := ⟨7, 3, 1, rEcho, exH v⟩
def mR (v : Int) : Msg := ⟨7, 3, 1, rReady, exH v⟩
def mQ (v : Int) : Msg := ⟨7, 3, 1, rRequest, exH v⟩
def mA (v : Int) : Msg := ⟨7, 3, 1, rAnswer, v⟩

/-- party 3 equivocates: r-send with 100 to parties 0 and 1, with 200 to party 2; it echoes 100.
    Parties 0 and 1 deliver 100 on the r-ready path, party 2 (which stored 200) asks with
    r-request and delivers 100 from party 0's r-answer. -/
def exEvents : List Event :=
  [ .recv 0 3 (mS 100) [], .recv 1 3 (mS 100) [], .recv 2 3 (mS 200) [],
    .recv 0 0 (mE 100) [], .recv 0 1 (mE 100) [], .recv 0 3 (mE 100) [],
    .recv 1 0 (mE 100) [], .recv 1 1 (mE 100) [], .recv 1 3 (mE 100) [],
    .recv 2 0 (mE 100) [], .recv 2 1 (mE 100) [], .recv 2 3 (mE 100) [],
    .recv 0 0 (mR 100) [], .recv 0 1 (mR 100) [], .recv 0 2 (mR 100) [],
    .recv 1 0 (mR 100) [], .recv 1 1 (mR 100) [], .recv 1 2 (mR 100) [],
    .recv 2 0 (mR 100) [], .recv 2 1 (mR 100) [], .recv 2 2 (mR 100) [],
    .recv 0 2 (mQ 100) [], .recv 2 0 (mA 100) [] ]

-- #eval (run exH exT exC exEvents).map (·.dl)
--   some [(0, { id := 7, sender := 3, seq := 1 }, 100), (1, { id := 7, sender := 3, seq := 1 }, 100),
--         (2, { id := 7, sender := 3, seq := 1 }, 100)]

/-- every event of the list is valid and all three honest parties deliver `100` -/
theorem ex_deliveries : (run exH exT exC exEvents).map (·.dl) =
    some [(0, ⟨7, 3, 1⟩, 100), (1, ⟨7, 3, 1⟩, 100), (2, ⟨7, 3, 1⟩, 100)] := by decide

/-- the final state of the run is reachable, so the safety theorems speak about it -/
theorem ex_reach : ∃ s, Reach exH exT exC s ∧ (2, (⟨7, 3, 1⟩ : Tag), (100 : Int)) ∈ s.dl := by
  cases h : run exH exT exC exEvents with
  | none => have := ex_deliveries; rw [h] at this; cases this
  | some s =>
    refine ⟨s, run_reach _ _ _ _ _ h, ?_⟩
    have := ex_deliveries
    rw [h] at this
    simp only [Option.map_some, Option.some.injEq] at this
    rw [this]; decide

end Example

/-! ### the assumption `H m ≠ 0` cannot be dropped

  With the injective "hash" `H = id` (so `H 0 = 0`): the Byzantine sender 3 starts slot 2 with
  payload `0` towards parties 0 and 1 only.  Party 2 collects `2t+1` r-ready for digest `0`, finds
  no stored payload — which the code represents by the digest `0` — so "matches", and buffers the
  slot (slot 1 is still outstanding).  Then the sender hands party 2 an r-send for slot 2 with
  payload `555`, which is stored.  After slot 1 is delivered everywhere, the buffered slot 2 is
  delivered: `0` at parties 0 and 1, `555` at party 2. -/
namespace HashZero

def zT : Tag → Int := fun _ => 62 ^ 20
def zC : Cfg := ⟨4, 1, {3}, 7, true⟩
def mk (seq a v : Int) : Msg := ⟨7, 3, seq, a, v⟩
def all3 (f : Nat → List Event) : List Event := f 0 ++ f 1 ++ f 2

def zEvents : List Event :=
  [ .recv 0 3 (mk 2 rSend 0) [], .recv 1 3 (mk 2 rSend 0) [] ] ++
  all3 (fun i => [.recv i 0 (mk 2 rEcho 0) [], .recv i 1 (mk 2 rEcho 0) [],
                  .recv i 3 (mk 2 rEcho 0) []]) ++
  all3 (fun i => [.recv i 0 (mk 2 rReady 0) [], .recv i 1 (mk 2 rReady 0) [],
                  .recv i 2 (mk 2 rReady 0) []]) ++
  [ .recv 2 3 (mk 2 rSend 555) [] ] ++
  all3 (fun i => [.recv i 3 (mk 1 rSend 9) []]) ++
  all3 (fun i => [.recv i 0 (mk 1 rEcho 9) [], .recv i 1 (mk 1 rEcho 9) [],
                  .recv i 2 (mk 1 rEcho 9) []]) ++
  all3 (fun i => [.recv i 0 (mk 1 rReady 9) [], .recv i 1 (mk 1 rReady 9) [],
                  .recv i 2 (mk 1 rReady 9) []]) ++
  all3 (fun i => [.tick i []])

theorem hash_zero_breaks_agreement : (run id zT zC zEvents).map (·.dl) =
    some [(0, ⟨7, 3, 1⟩, 9), (1, ⟨7, 3, 1⟩, 9), (2, ⟨7, 3, 1⟩, 9),
          (0, ⟨7, 3, 2⟩, 0), (1, ⟨7, 3, 2⟩, 0), (2, ⟨7, 3, 2⟩, 555)] := by decide

end HashZero

end Tmcg.Rbc

/-
#print axioms Tmcg.Rbc.rbc_agreement
#print axioms Tmcg.Rbc.rbc_integrity
#print axioms Tmcg.Rbc.rbc_no_duplication
-/
