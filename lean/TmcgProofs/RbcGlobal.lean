import Tmcg.Model.Rbc
import Mathlib.Data.Finset.Card
import Mathlib.Data.List.Basic
import Mathlib.Tactic.Linarith
/-
  C14, part B — GLOBAL safety of the reliable broadcast (agreement, integrity, no duplication)
  for a system of `n` parties, at most `t` of them Byzantine, `3 t < n`, all honest parties
  running `Tmcg.Rbc.step` / `Tmcg.Rbc.broadcast` on ONE channel.

  (TmcgProofs/RbcLocal.lean is not imported: its compiled file does not exist yet and none of its
  statements is needed here; everything is proved from the model directly.)
-/
namespace Tmcg.Rbc

/-! ## 1. association lists, filters, counters -/

section basics
variable {κ ν : Type} [DecidableEq κ]

theorem aGet_aSet_self (l : List (κ × ν)) (k : κ) (v : ν) : aGet (aSet l k v) k = some v := by
  induction l with
  | nil => simp [aSet, aGet]
  | cons a l ih =>
    obtain ⟨k', v'⟩ := a
    by_cases h : k' = k
    · simp [aSet, aGet, h]
    · simp [aSet, aGet, h, ih]

theorem aGet_aSet_ne (l : List (κ × ν)) (k k' : κ) (v : ν) (h : k' ≠ k) :
    aGet (aSet l k v) k' = aGet l k' := by
  induction l with
  | nil => simp [aSet, aGet, Ne.symm h]
  | cons a l ih =>
    obtain ⟨k'', v'⟩ := a
    by_cases h2 : k'' = k
    · subst h2
      simp [aSet, aGet, Ne.symm h]
    · by_cases h3 : k'' = k'
      · subst h3
        simp [aSet, aGet, h2]
      · simp [aSet, aGet, h2, h3, ih]

end basics

theorem fHas_append (f g : Filter) (l : Nat) (t : Tag) :
    fHas (f ++ g) l t = (fHas f l t || fHas g l t) := by
  induction f with
  | nil => simp [fHas]
  | cons a f ih =>
    obtain ⟨l', t'⟩ := a
    simp [fHas, ih, Bool.or_assoc]

theorem fHas_fIns (f : Filter) (l a : Nat) (t b : Tag) :
    fHas (fIns f l t) a b = true ↔ (a = l ∧ b = t) ∨ fHas f a b = true := by
  unfold fIns
  by_cases h : fHas f l t = true
  · simp only [h, if_true]
    constructor
    · intro h'; exact Or.inr h'
    · rintro (⟨rfl, rfl⟩ | h')
      · exact h
      · exact h'
  · have h0 : fHas f l t = false := by simpa using h
    simp only [h0]
    rw [if_neg (by simp), fHas_append]
    simp [fHas]
    constructor
    · rintro (h' | ⟨rfl, rfl⟩)
      · exact Or.inr h'
      · exact Or.inl ⟨rfl, rfl⟩
    · rintro (⟨rfl, rfl⟩ | h')
      · exact Or.inr ⟨rfl, rfl⟩
      · exact Or.inl h'

theorem fHas_fIns_self (f : Filter) (l : Nat) (t : Tag) : fHas (fIns f l t) l t = true :=
  (fHas_fIns f l l t t).mpr (Or.inl ⟨rfl, rfl⟩)

theorem fHas_fIns_mono (f : Filter) (l a : Nat) (t b : Tag) (h : fHas f a b = true) :
    fHas (fIns f l t) a b = true :=
  (fHas_fIns f l a t b).mpr (Or.inr h)

/-- the count stored for a key (0 when absent) -/
def cnt (c : Counts) (k : Tag × Int) : Nat := (aGet c k).getD 0

theorem cntInc_snd (c : Counts) (k : Tag × Int) : (cntInc c k).2 = cnt c k + 1 := by
  unfold cntInc cnt
  cases h : aGet c k <;> simp

theorem cnt_cntInc_self (c : Counts) (k : Tag × Int) : cnt (cntInc c k).1 k = cnt c k + 1 := by
  unfold cntInc cnt
  cases h : aGet c k <;> simp [aGet_aSet_self]

theorem cnt_cntInc_ne (c : Counts) (k k' : Tag × Int) (h : k' ≠ k) :
    cnt (cntInc c k).1 k' = cnt c k' := by
  unfold cntInc cnt
  cases h2 : aGet c k <;> simp [aGet_aSet_ne _ _ _ _ h]

theorem cntTouch_snd (c : Counts) (k : Tag × Int) : (cntTouch c k).2 = cnt c k := by
  unfold cntTouch cnt
  cases h : aGet c k <;> simp

theorem cnt_cntTouch (c : Counts) (k k' : Tag × Int) : cnt (cntTouch c k).1 k' = cnt c k' := by
  unfold cntTouch cnt
  cases h2 : aGet c k with
  | some v => simp
  | none =>
    by_cases h : k' = k
    · subst h; simp [aGet_aSet_self, h2]
    · simp [aGet_aSet_ne _ _ _ _ h]

/-! ## 2. a relational description of `dispatch` -/

/-- `q'` differs from `q` at most in the first-time filters `send/echo/ready/request/answer`
    (which only grow) -/
structure SameCore (q q' : Party) : Prop where
  n : q'.n = q.n
  t : q'.t = q.t
  j : q'.j = q.j
  fifo : q'.fifo = q.fifo
  fifoSkip : q'.fifoSkip = q.fifoSkip
  ID : q'.ID = q.ID
  deliverS : q'.deliverS = q.deliverS
  bufMsg : q'.bufMsg = q.bufMsg
  mbar : q'.mbar = q.mbar
  dbar : q'.dbar = q.dbar
  eD : q'.eD = q.eD
  rD : q'.rD = q.rD
  retrieveBuf : q'.retrieveBuf = q.retrieveBuf
  deliverBuf : q'.deliverBuf = q.deliverBuf
  deliver : q'.deliver = q.deliver
  retrieve : q'.retrieve = q.retrieve
  send : ∀ a b, fHas q.send a b = true → fHas q'.send a b = true
  echo : ∀ a b, fHas q.echo a b = true → fHas q'.echo a b = true
  ready : ∀ a b, fHas q.ready a b = true → fHas q'.ready a b = true

theorem SameCore.refl (q : Party) : SameCore q q :=
  ⟨rfl, rfl, rfl, rfl, rfl, rfl, rfl, rfl, rfl, rfl, rfl, rfl, rfl, rfl, rfl, rfl,
   fun _ _ h => h, fun _ _ h => h, fun _ _ h => h⟩

theorem SameCore.mkSend (q : Party) (l : Nat) (tg : Tag) :
    SameCore q { q with send := fIns q.send l tg } :=
  { SameCore.refl q with send := fun _ _ h => fHas_fIns_mono _ _ _ _ _ h }

theorem SameCore.mkEcho (q : Party) (l : Nat) (tg : Tag) :
    SameCore q { q with echo := fIns q.echo l tg } :=
  { SameCore.refl q with echo := fun _ _ h => fHas_fIns_mono _ _ _ _ _ h }

theorem SameCore.mkReady (q : Party) (l : Nat) (tg : Tag) :
    SameCore q { q with ready := fIns q.ready l tg } :=
  { SameCore.refl q with ready := fun _ _ h => fHas_fIns_mono _ _ _ _ _ h }

theorem SameCore.mkRequest (q : Party) (f : Filter) : SameCore q { q with request := f } :=
  { SameCore.refl q with }

theorem SameCore.mkAnswer (q : Party) (f : Filter) : SameCore q { q with answer := f } :=
  { SameCore.refl q with }

/-- the range checks every message passes before it has any effect -/
def WF (q : Party) (msg : Msg) : Prop :=
  0 ≤ msg.sender ∧ msg.sender ≤ (q.n : Int) - 1 ∧ 1 ≤ msg.seq

/-- the party after an accepted r-echo -/
def echoPost (q : Party) (l : Nat) (msg : Msg) : Party :=
  { q with echo := fIns q.echo l msg.tag,
           eD := (cntInc q.eD (msg.tag, msg.payload)).1,
           rD := (cntTouch q.rD (msg.tag, msg.payload)).1 }

/-- the party after an accepted r-ready (before `dbar` is touched) -/
def readyPost (q : Party) (l : Nat) (msg : Msg) : Party :=
  { q with ready := fIns q.ready l msg.tag,
           eD := (cntTouch q.eD (msg.tag, msg.payload)).1,
           rD := (cntInc q.rD (msg.tag, msg.payload)).1 }

/-- the party after an accepted l-deliver (before `mbar` is touched) -/
def ldelBuf (q : Party) (l : Nat) (msg : Msg) : List Int :=
  ((aGet q.retrieveBuf msg.tag).getD (List.replicate q.n 0)).set l msg.payload

def ldelPost (q : Party) (l : Nat) (msg : Msg) : Party :=
  { q with deliver := fIns q.deliver l msg.tag,
           retrieveBuf := aSet q.retrieveBuf msg.tag (ldelBuf q l msg) }

/-- all the ways `dispatch` can treat the message `msg` handed over by link `l`:
    resulting party, messages sent by this call, outcome -/
inductive Disp (H : Int → Int) (q : Party) (l : Nat) (msg : Msg) : Party → Sent → Outcome → Prop
  /-- nothing but first-time filters changes; at most r-request / r-answer / l-fail are sent -/
  | minor (q' : Party) (s : Sent) (hc : SameCore q q')
      (hs : ∀ x ∈ s, x.2.action = rRequest ∨ x.2.action = rAnswer ∨ x.2.action = lFail) :
      Disp H q l msg q' s .idle
  /-- first r-send of the tag, nothing stored yet: store and echo -/
  | echoNew (wf : WF q msg) (hact : msg.action = rSend) (hnew : fHas q.send l msg.tag = false)
      (hl : msg.sender = (l : Int)) (hm : aGet q.mbar msg.tag = none) :
      Disp H q l msg
        { q with send := fIns q.send l msg.tag, mbar := aSet q.mbar msg.tag msg.payload }
        (sendAll q.n ⟨msg.id, msg.sender, msg.seq, rEcho, H msg.payload⟩) .idle
  /-- first r-send of the tag, the same payload is stored already: echo -/
  | echoOld (wf : WF q msg) (hact : msg.action = rSend) (hnew : fHas q.send l msg.tag = false)
      (hl : msg.sender = (l : Int)) (hm : aGet q.mbar msg.tag = some msg.payload) :
      Disp H q l msg
        { q with send := fIns q.send l msg.tag }
        (sendAll q.n ⟨msg.id, msg.sender, msg.seq, rEcho, H msg.payload⟩) .idle
  /-- a counted r-echo; possibly the echo quorum -/
  | echoCount (wf : WF q msg) (hact : msg.action = rEcho) (hnew : fHas q.echo l msg.tag = false)
      (s : Sent)
      (hs : s = [] ∨ (s = sendAll q.n ⟨msg.id, msg.sender, msg.seq, rReady, msg.payload⟩ ∧
                      cnt q.eD (msg.tag, msg.payload) + 1 = q.n - q.t)) :
      Disp H q l msg (echoPost q l msg) s .idle
  /-- a counted r-ready that does not touch `dbar` and does not deliver -/
  | readyCount (wf : WF q msg) (hact : msg.action = rReady) (hnew : fHas q.ready l msg.tag = false)
      (s : Sent)
      (hs : (∀ x ∈ s, x.2.action = rRequest) ∨
            (s = sendAll q.n ⟨msg.id, msg.sender, msg.seq, rReady, msg.payload⟩ ∧
             cnt q.rD (msg.tag, msg.payload) + 1 = q.t + 1)) :
      Disp H q l msg (readyPost q l msg) s .idle
  /-- the `2t+1`-st r-ready fixes `dbar`; payload unknown: r-request -/
  | readyDbar (wf : WF q msg) (hact : msg.action = rReady) (hnew : fHas q.ready l msg.tag = false)
      (hr : cnt q.rD (msg.tag, msg.payload) + 1 = 2 * q.t + 1)
      (hd : aGet q.dbar msg.tag = none) (s : Sent) (hs : ∀ x ∈ s, x.2.action = rRequest) :
      Disp H q l msg
        { readyPost q l msg with dbar := aSet q.dbar msg.tag msg.payload } s .idle
  /-- the `2t+1`-st r-ready, stored payload matches `dbar`: deliver or buffer -/
  | readyDeliver (wf : WF q msg) (hact : msg.action = rReady) (hnew : fHas q.ready l msg.tag = false)
      (hr : cnt q.rD (msg.tag, msg.payload) + 1 = 2 * q.t + 1) (p3 : Party)
      (hd : (aGet q.dbar msg.tag = none ∧
              p3 = { readyPost q l msg with dbar := aSet q.dbar msg.tag msg.payload }) ∨
            (aGet q.dbar msg.tag = some msg.payload ∧ p3 = readyPost q l msg))
      (hfoo : (aGet q.mbar msg.tag = none ∧ msg.payload = 0) ∨
              (∃ mb, aGet q.mbar msg.tag = some mb ∧ H mb = msg.payload)) :
      Disp H q l msg (deliverOrBuffer p3 msg []).party (deliverOrBuffer p3 msg []).sent
        (deliverOrBuffer p3 msg []).out
  /-- an r-answer with the agreed digest while the stored payload does not match -/
  | answerDeliver (wf : WF q msg) (hact : msg.action = rAnswer)
      (hnew : fHas q.answer l msg.tag = false) (db : Int) (hd : aGet q.dbar msg.tag = some db)
      (hk : ∀ mb, aGet q.mbar msg.tag = some mb → H mb ≠ db) (hh : H msg.payload = db) (p2 : Party)
      (hp2 : p2 = { q with answer := fIns q.answer l msg.tag,
                           mbar := aSet q.mbar msg.tag msg.payload }) :
      Disp H q l msg (deliverOrBuffer p2 msg []).party (deliverOrBuffer p2 msg []).sent
        (deliverOrBuffer p2 msg []).out
  /-- an l-retrieve that is answered with the stored payload -/
  | retrieveAns (wf : WF q msg) (hact : msg.action = lRetrieve) (mb : Int)
      (hm : aGet q.mbar msg.tag = some mb)
      (hc : (q.fifo = true ∧ msg.seq < q.dS msg.sender.toNat) ∨ q.fifo = false) :
      Disp H q l msg q [(l, ⟨msg.id, msg.sender, msg.seq, lDeliver, mb⟩)] .idle
  /-- an accepted l-deliver without a decision -/
  | ldelMark (wf : WF q msg) (hact : msg.action = lDeliver)
      (hnew : fHas q.deliver l msg.tag = false) (hretr : fHas q.retrieve l msg.tag = true) :
      Disp H q l msg (ldelPost q l msg) [] .idle
  /-- an accepted l-deliver with `n - t` agreeing answers -/
  | ldelDeliver (wf : WF q msg) (hact : msg.action = lDeliver)
      (hnew : fHas q.deliver l msg.tag = false) (hretr : fHas q.retrieve l msg.tag = true)
      (i : Nat) (hi : agreeFind (ldelPost q l msg) msg.tag (ldelBuf q l msg) (List.range q.n) = some i)
      (p3 : Party)
      (hp3 : p3 = { ldelPost q l msg with
                    mbar := aSet q.mbar msg.tag ((ldelBuf q l msg).getD i 0) }) :
      Disp H q l msg (deliverOrBuffer p3 msg []).party (deliverOrBuffer p3 msg []).sent
        (deliverOrBuffer p3 msg []).out

theorem result_eta (r : Result) : r = ⟨r.party, r.sent, r.out⟩ := by cases r; rfl

theorem dob_sent_nil (p : Party) (msg : Msg) : (deliverOrBuffer p msg []).sent = [] := by
  unfold deliverOrBuffer
  simp only []
  split_ifs
  · split <;> rfl
  · rfl

theorem dispatch_cases (H : Int → Int) (T : Tag → Int) (q : Party) (sent0 : Sent) (l : Nat)
    (msg : Msg) :
    ∃ q' s o, Disp H q l msg q' s o ∧ dispatch H T q sent0 l msg = ⟨q', sent0 ++ s, o⟩ := by
  unfold dispatch
  simp only []
  by_cases h1 : msg.sender > ((q.n : Int) - 1) ∨ msg.sender < 0
  · rw [if_pos h1]
    exact ⟨q, [], .idle, .minor q [] (SameCore.refl q) (by simp), rfl⟩
  rw [if_neg h1]
  by_cases h2 : msg.seq < 1
  · rw [if_pos h2]
    exact ⟨q, [], .idle, .minor q [] (SameCore.refl q) (by simp), rfl⟩
  rw [if_neg h2]
  have wf : WF q msg := by
    unfold WF
    simp only [not_or, not_lt, gt_iff_lt] at h1 h2
    omega
  have minorRefl : ∃ q' s o, Disp H q l msg q' s o ∧
      (⟨q, sent0 ++ [], Outcome.idle⟩ : Result) = ⟨q', sent0 ++ s, o⟩ :=
    ⟨q, [], .idle, .minor q [] (SameCore.refl q) (by simp), rfl⟩
  by_cases h3 : msg.action < rSend ∨ msg.action > lDeliver
  · rw [if_pos h3]; exact minorRefl
  rw [if_neg h3]
  by_cases hS : msg.action = rSend
  · rw [if_pos hS]
    by_cases hf : fHas q.send l msg.tag = true
    · simp only [hf, Bool.not_true, Bool.false_eq_true, if_false]; exact minorRefl
    · have hf0 : fHas q.send l msg.tag = false := by simpa using hf
      simp only [hf0, Bool.not_false, if_true]
      by_cases hl : msg.sender ≠ (l : Int)
      · rw [if_pos hl]
        exact ⟨_, [], .idle, .minor _ [] (SameCore.mkSend q l msg.tag) (by simp), rfl⟩
      · rw [if_neg hl]
        simp only [ne_eq, not_not] at hl
        cases hm : aGet q.mbar msg.tag with
        | none =>
          simp only []
          exact ⟨_, _, .idle, .echoNew wf hS hf0 hl hm, rfl⟩
        | some mb =>
          simp only []
          by_cases hmb : mb ≠ msg.payload
          · rw [if_pos hmb]
            exact ⟨_, [], .idle, .minor _ [] (SameCore.mkSend q l msg.tag) (by simp), rfl⟩
          · rw [if_neg hmb]
            simp only [ne_eq, not_not] at hmb
            subst hmb
            exact ⟨_, _, .idle, .echoOld wf hS hf0 hl hm, rfl⟩
  rw [if_neg hS]
  by_cases hE : msg.action = rEcho
  · rw [if_pos hE]
    by_cases hf : fHas q.echo l msg.tag = true
    · simp only [hf, Bool.not_true, Bool.false_eq_true, if_false]; exact minorRefl
    · have hf0 : fHas q.echo l msg.tag = false := by simpa using hf
      simp only [hf0, Bool.not_false, if_true]
      by_cases hlen : ioLen msg.payload > 2 * ioLen (T msg.tag)
      · rw [if_pos hlen]
        exact ⟨_, [], .idle, .minor _ [] (SameCore.mkEcho q l msg.tag) (by simp), rfl⟩
      · rw [if_neg hlen]
        by_cases hq : (cntInc q.eD (msg.tag, msg.payload)).2 = q.n - q.t ∧
            (cntTouch q.rD (msg.tag, msg.payload)).2 ≤ q.t
        · rw [if_pos hq]
          refine ⟨_, _, .idle, .echoCount wf hE hf0 _ (Or.inr ⟨rfl, ?_⟩), rfl⟩
          rw [← cntInc_snd]; exact hq.1
        · rw [if_neg hq]
          exact ⟨_, _, .idle, .echoCount wf hE hf0 _ (Or.inl rfl), rfl⟩
  rw [if_neg hE]
  by_cases hR : msg.action = rReady
  · rw [if_pos hR]
    by_cases hf : fHas q.ready l msg.tag = true
    · simp only [hf, Bool.not_true, Bool.false_eq_true, if_false]; exact minorRefl
    · have hf0 : fHas q.ready l msg.tag = false := by simpa using hf
      simp only [hf0, Bool.not_false, if_true]
      by_cases hlen : ioLen msg.payload > 2 * ioLen (T msg.tag)
      · rw [if_pos hlen]
        exact ⟨_, [], .idle, .minor _ [] (SameCore.mkReady q l msg.tag) (by simp), rfl⟩
      · rw [if_neg hlen]
        have hreq : ∀ x ∈ List.map (fun i => (i, (⟨msg.id, msg.sender, msg.seq, rRequest,
            msg.payload⟩ : Msg))) (List.range (2 * q.t + 1)), x.2.action = rRequest := by
          intro x hx
          obtain ⟨i, _, rfl⟩ := List.mem_map.1 hx
          rfl
        by_cases hq : q.t > 0 ∧ (cntInc q.rD (msg.tag, msg.payload)).2 = q.t + 1 ∧
            (cntTouch q.eD (msg.tag, msg.payload)).2 < q.n - q.t
        · rw [if_pos hq]
          refine ⟨_, _, .idle, .readyCount wf hR hf0 _ (Or.inr ⟨rfl, ?_⟩), rfl⟩
          rw [← cntInc_snd]; exact hq.2.1
        · rw [if_neg hq]
          by_cases hr : (cntInc q.rD (msg.tag, msg.payload)).2 = 2 * q.t + 1
          · rw [if_pos hr]
            have hr' : cnt q.rD (msg.tag, msg.payload) + 1 = 2 * q.t + 1 := by
              rw [← cntInc_snd]; exact hr
            cases hd : aGet q.dbar msg.tag with
            | none =>
              simp only [aGet_aSet_self, Option.getD_some]
              cases hm : aGet q.mbar msg.tag with
              | none =>
                simp only []
                by_cases hfoo : (0 : Int) ≠ msg.payload
                · rw [if_pos hfoo]
                  exact ⟨_, _, .idle, .readyDbar wf hR hf0 hr' hd _ hreq, rfl⟩
                · rw [if_neg hfoo]
                  simp only [ne_eq, not_not] at hfoo
                  exact ⟨_, _, _, .readyDeliver wf hR hf0 hr' _ (Or.inl ⟨hd, rfl⟩)
                    (Or.inl ⟨hm, hfoo.symm⟩), rfl⟩
              | some mb =>
                simp only []
                by_cases hfoo : H mb ≠ msg.payload
                · rw [if_pos hfoo]
                  exact ⟨_, _, .idle, .readyDbar wf hR hf0 hr' hd _ hreq, rfl⟩
                · rw [if_neg hfoo]
                  simp only [ne_eq, not_not] at hfoo
                  exact ⟨_, _, _, .readyDeliver wf hR hf0 hr' _ (Or.inl ⟨hd, rfl⟩)
                    (Or.inr ⟨mb, hm, hfoo⟩), rfl⟩
            | some db =>
              simp only []
              by_cases hdb : db ≠ msg.payload
              · rw [if_pos hdb]
                simp only []
                exact ⟨_, _, .idle, .readyCount wf hR hf0 _ (Or.inl (by simp)), rfl⟩
              · rw [if_neg hdb]
                simp only [ne_eq, not_not] at hdb
                subst hdb
                simp only [hd, Option.getD_some]
                cases hm : aGet q.mbar msg.tag with
                | none =>
                  simp only []
                  by_cases hfoo : (0 : Int) ≠ msg.payload
                  · rw [if_pos hfoo]
                    exact ⟨_, _, .idle, .readyCount wf hR hf0 _ (Or.inl hreq), rfl⟩
                  · rw [if_neg hfoo]
                    simp only [ne_eq, not_not] at hfoo
                    exact ⟨_, _, _, .readyDeliver wf hR hf0 hr' _ (Or.inr ⟨hd, rfl⟩)
                      (Or.inl ⟨hm, hfoo.symm⟩), rfl⟩
                | some mb =>
                  simp only []
                  by_cases hfoo : H mb ≠ msg.payload
                  · rw [if_pos hfoo]
                    exact ⟨_, _, .idle, .readyCount wf hR hf0 _ (Or.inl hreq), rfl⟩
                  · rw [if_neg hfoo]
                    simp only [ne_eq, not_not] at hfoo
                    exact ⟨_, _, _, .readyDeliver wf hR hf0 hr' _ (Or.inr ⟨hd, rfl⟩)
                      (Or.inr ⟨mb, hm, hfoo⟩), rfl⟩
          · rw [if_neg hr]
            exact ⟨_, _, .idle, .readyCount wf hR hf0 _ (Or.inl (by simp)), rfl⟩
  rw [if_neg hR]
  by_cases hQ : msg.action = rRequest
  · rw [if_pos hQ]
    by_cases hf : fHas q.request l msg.tag = true
    · simp only [hf, Bool.not_true, Bool.false_eq_true, if_false]; exact minorRefl
    · have hf0 : fHas q.request l msg.tag = false := by simpa using hf
      simp only [hf0, Bool.not_false, if_true]
      cases hm : aGet q.mbar msg.tag with
      | none =>
        simp only []
        exact ⟨_, [], .idle, .minor _ [] (SameCore.mkRequest q _) (by simp), rfl⟩
      | some mb =>
        simp only []
        refine ⟨_, _, .idle, .minor _ _ (SameCore.mkRequest q _) ?_, rfl⟩
        intro x hx
        simp only [List.mem_singleton] at hx
        subst hx
        exact Or.inr (Or.inl rfl)
  rw [if_neg hQ]
  by_cases hA : msg.action = rAnswer
  · rw [if_pos hA]
    by_cases hf : fHas q.answer l msg.tag = true
    · simp only [hf, Bool.not_true, Bool.false_eq_true, if_false]; exact minorRefl
    · have hf0 : fHas q.answer l msg.tag = false := by simpa using hf
      simp only [hf0, Bool.not_false, if_true]
      cases hd : aGet q.dbar msg.tag with
      | none =>
        simp only []
        exact ⟨_, [], .idle, .minor _ [] (SameCore.mkAnswer q _) (by simp), rfl⟩
      | some db =>
        simp only []
        have hmark : ∃ q' s o, Disp H q l msg q' s o ∧
            (⟨{ q with answer := fIns q.answer l msg.tag }, sent0 ++ [], Outcome.idle⟩ : Result)
              = ⟨q', sent0 ++ s, o⟩ :=
          ⟨_, [], .idle, .minor _ [] (SameCore.mkAnswer q _) (by simp), rfl⟩
        cases hm : aGet q.mbar msg.tag with
        | none =>
          simp only [Bool.false_eq_true, if_false]
          by_cases hh : H msg.payload = db
          · rw [if_pos hh]
            exact ⟨_, _, _, .answerDeliver wf hA hf0 db hd (by simp [hm]) hh _ rfl, rfl⟩
          · rw [if_neg hh]; exact hmark
        | some mb =>
          simp only [decide_eq_true_eq]
          by_cases hk : H mb = db
          · rw [if_pos hk]; exact hmark
          · rw [if_neg hk]
            by_cases hh : H msg.payload = db
            · rw [if_pos hh]
              refine ⟨_, _, _, .answerDeliver wf hA hf0 db hd ?_ hh _ rfl, rfl⟩
              intro mb' hmb'
              rw [hm] at hmb'
              cases hmb'
              exact hk
            · rw [if_neg hh]; exact hmark
  rw [if_neg hA]
  by_cases hL : msg.action = lRetrieve
  · rw [if_pos hL]
    have hfail : ∃ q' s o, Disp H q l msg q' s o ∧
        (⟨q, sent0 ++ [(l, (⟨msg.id, msg.sender, msg.seq, lFail, lFail⟩ : Msg))], Outcome.idle⟩
          : Result) = ⟨q', sent0 ++ s, o⟩ := by
      refine ⟨_, _, .idle, .minor _ _ (SameCore.refl q) ?_, rfl⟩
      intro x hx
      simp only [List.mem_singleton] at hx
      subst hx
      exact Or.inr (Or.inr rfl)
    cases hm : aGet q.mbar msg.tag with
    | none => simp only []; exact hfail
    | some mb =>
      simp only []
      by_cases hc : (q.fifo = true ∧ msg.seq < q.dS msg.sender.toNat) ∨ ¬q.fifo = true
      · rw [if_pos hc]
        refine ⟨_, _, .idle, .retrieveAns wf hL mb hm ?_, rfl⟩
        rcases hc with hc | hc
        · exact Or.inl hc
        · exact Or.inr (by simpa using hc)
      · rw [if_neg hc]; exact hfail
  rw [if_neg hL]
  by_cases hD : msg.action = lDeliver
  · rw [if_pos hD]
    by_cases hf : fHas q.deliver l msg.tag = true
    · simp only [hf, Bool.not_true, Bool.false_eq_true, if_false]; exact minorRefl
    · have hf0 : fHas q.deliver l msg.tag = false := by simpa using hf
      simp only [hf0, Bool.not_false, if_true]
      by_cases hr : fHas q.retrieve l msg.tag = true
      · simp only [hr, Bool.not_true, Bool.false_eq_true, if_false]
        change ∃ q' s o, Disp H q l msg q' s o ∧
          (if deliverNum (ldelPost q l msg) msg.tag < q.n - q.t then
            (⟨ldelPost q l msg, sent0 ++ [], Outcome.idle⟩ : Result)
           else match agreeFind (ldelPost q l msg) msg.tag (ldelBuf q l msg) (List.range q.n) with
            | none => ⟨ldelPost q l msg, sent0 ++ [], Outcome.idle⟩
            | some i =>
              ⟨(deliverOrBuffer { ldelPost q l msg with
                  mbar := aSet q.mbar msg.tag ((ldelBuf q l msg).getD i 0) } msg []).party,
               sent0 ++ (deliverOrBuffer { ldelPost q l msg with
                  mbar := aSet q.mbar msg.tag ((ldelBuf q l msg).getD i 0) } msg []).sent,
               (deliverOrBuffer { ldelPost q l msg with
                  mbar := aSet q.mbar msg.tag ((ldelBuf q l msg).getD i 0) } msg []).out⟩)
            = ⟨q', sent0 ++ s, o⟩
        by_cases hn : deliverNum (ldelPost q l msg) msg.tag < q.n - q.t
        · rw [if_pos hn]
          exact ⟨_, _, .idle, .ldelMark wf hD hf0 hr, rfl⟩
        · rw [if_neg hn]
          cases hi : agreeFind (ldelPost q l msg) msg.tag (ldelBuf q l msg) (List.range q.n) with
          | none => exact ⟨_, _, .idle, .ldelMark wf hD hf0 hr, rfl⟩
          | some i => exact ⟨_, _, _, .ldelDeliver wf hD hf0 hr i hi _ rfl, rfl⟩
      · have hr0 : fHas q.retrieve l msg.tag = false := by simpa using hr
        simp only [hr0, Bool.not_false, if_true]; exact minorRefl
  rw [if_neg hD]
  exfalso
  simp only [rSend, rEcho, rReady, rRequest, rAnswer, lRetrieve, lDeliver] at *
  omega


/-! ## 3. `deliverOrBuffer`, `phaseBuffer`, `step` -/

theorem dob_cases (p : Party) (msg : Msg) :
    (msg.id = p.ID ∧ (p.fifo = true → msg.seq = p.dS msg.sender.toNat) ∧
      aGet p.mbar msg.tag = none ∧ deliverOrBuffer p msg [] = ⟨p, [], .threw⟩) ∨
    (∃ m, msg.id = p.ID ∧ (p.fifo = true → msg.seq = p.dS msg.sender.toNat) ∧
      aGet p.mbar msg.tag = some m ∧
      deliverOrBuffer p msg [] =
        ⟨{ p with deliverS := p.deliverS.set msg.sender.toNat (p.dS msg.sender.toNat + 1) }, [],
         .delivered msg.sender.toNat m⟩) ∨
    ((msg.id ≠ p.ID ∨ (p.fifo = true ∧ msg.seq ≠ p.dS msg.sender.toNat)) ∧
      deliverOrBuffer p msg [] = ⟨{ p with deliverBuf := p.deliverBuf ++ [msg] }, [], .idle⟩) := by
  unfold deliverOrBuffer
  simp only []
  by_cases hc : msg.id = p.ID ∧ (p.fifo = true ∧ msg.seq = p.dS msg.sender.toNat ∨ ¬p.fifo = true)
  · rw [if_pos hc]
    have h2 : p.fifo = true → msg.seq = p.dS msg.sender.toNat := by
      intro hf
      rcases hc.2 with h | h
      · exact h.2
      · exact absurd hf h
    cases hm : aGet p.mbar msg.tag with
    | none => exact Or.inl ⟨hc.1, h2, rfl, rfl⟩
    | some m => exact Or.inr (Or.inl ⟨m, hc.1, h2, rfl, rfl⟩)
  · rw [if_neg hc]
    refine Or.inr (Or.inr ⟨?_, rfl⟩)
    by_cases hid : msg.id = p.ID
    · right
      by_cases hf : p.fifo = true
      · refine ⟨hf, fun hs => hc ⟨hid, Or.inl ⟨hf, hs⟩⟩⟩
      · exact absurd ⟨hid, Or.inr hf⟩ hc
    · exact Or.inl hid

theorem findFirst_some {α} (q : α → Bool) : ∀ (l : List α) (e : α) (rest : List α),
    findFirst q l = some (e, rest) → e ∈ l ∧ q e = true ∧ ∀ x ∈ rest, x ∈ l := by
  intro l
  induction l with
  | nil => intro e rest h; simp [findFirst] at h
  | cons x xs ih =>
    intro e rest h
    unfold findFirst at h
    by_cases hq : q x = true
    · rw [if_pos hq] at h
      simp only [Option.some.injEq, Prod.mk.injEq] at h
      obtain ⟨rfl, rfl⟩ := h
      exact ⟨List.mem_cons_self, hq, fun y hy => List.mem_cons_of_mem _ hy⟩
    · rw [if_neg hq] at h
      cases hr : findFirst q xs with
      | none => rw [hr] at h; simp at h
      | some yr =>
        obtain ⟨y, r⟩ := yr
        rw [hr] at h
        simp only [Option.some.injEq, Prod.mk.injEq] at h
        obtain ⟨rfl, rfl⟩ := h
        obtain ⟨h1, h2, h3⟩ := ih y r hr
        refine ⟨List.mem_cons_of_mem _ h1, h2, ?_⟩
        intro z hz
        rcases List.mem_cons.1 hz with rfl | hz
        · exact List.mem_cons_self
        · exact List.mem_cons_of_mem _ (h3 z hz)

/-- every message produced by the out-of-order handler is an l-retrieve -/
def RetrOk (acc : RetrAcc) : Prop := ∀ x ∈ acc.sent, x.2.action = lRetrieve

theorem retrInner_ok (j : Nat) (dF : Filter) (m : Msg) (hm : m.action = lRetrieve)
    (acc : RetrAcc) (i : Nat) (h : RetrOk acc) : RetrOk (retrInner j dF m acc i) := by
  unfold retrInner
  split_ifs
  · exact h
  · exact h
  · exact h
  · intro x hx
    simp only [List.mem_append, List.mem_singleton] at hx
    rcases hx with hx | rfl
    · exact h x hx
    · exact hm

theorem foldl_inv {α β} (P : β → Prop) (f : β → α → β) (hf : ∀ b a, P b → P (f b a)) :
    ∀ (l : List α) (b : β), P b → P (l.foldl f b) := by
  intro l
  induction l with
  | nil => intro b hb; exact hb
  | cons a l ih => intro b hb; exact ih _ (hf b a hb)

theorem retrWhile_ok (n j : Nat) (dF : Filter) (e : Msg) (minS : Int) :
    ∀ (fuel : Nat) (foo : Int) (acc : RetrAcc), RetrOk acc →
      RetrOk (retrWhile n j dF e minS fuel foo acc) := by
  intro fuel
  induction fuel with
  | zero => intro foo acc h; exact h
  | succ f ih =>
    intro foo acc h
    unfold retrWhile
    split_ifs
    · exact ih _ _ (foldl_inv RetrOk _ (fun b a hb => retrInner_ok j dF _ rfl b a hb) _ _ h)
    · exact h

theorem retrOuter_ok (p : Party) (ds : List Int) (sc : Scan) (acc : RetrAcc) (who : Nat)
    (h : RetrOk acc) : RetrOk (retrOuter p ds sc acc who) := by
  unfold retrOuter
  split
  · exact h
  · exact retrWhile_ok _ _ _ _ _ _ _ _ h


/-- the party after the housekeeping part of `phaseBuffer` (`fifo_skip = 0`) -/
def hkParty (p : Party) (R : Filter) : Party :=
  { p with retrieve := R, deliverBuf := p.deliverBuf.filter fun e => !obsolete p e }

theorem phaseBuffer_cases (p : Party) (hskip : p.fifoSkip = 0) :
    (∃ e rest, findFirst (deliverable p) p.deliverBuf = some (e, rest) ∧
        aGet p.mbar e.tag = none ∧ phaseBuffer p = .inl ⟨p, [], .threw⟩) ∨
    (∃ e rest m, findFirst (deliverable p) p.deliverBuf = some (e, rest) ∧
        aGet p.mbar e.tag = some m ∧
        phaseBuffer p = .inl ⟨{ p with
          deliverS := p.deliverS.set e.sender.toNat (p.dS e.sender.toNat + 1),
          deliverBuf := rest }, [], .delivered e.sender.toNat m⟩) ∨
    (findFirst (deliverable p) p.deliverBuf = none ∧
      ∃ R s, phaseBuffer p = .inr (hkParty p R, s) ∧ (p.fifo = false → R = p.retrieve) ∧
        ∀ x ∈ s, x.2.action = lRetrieve) := by
  unfold phaseBuffer
  cases hff : findFirst (deliverable p) p.deliverBuf with
  | some er =>
    obtain ⟨e, rest⟩ := er
    simp only []
    cases hm : aGet p.mbar e.tag with
    | none => exact Or.inl ⟨e, rest, rfl, hm, rfl⟩
    | some m => exact Or.inr (Or.inl ⟨e, rest, m, rfl, hm, rfl⟩)
  | none =>
    simp only []
    refine Or.inr (Or.inr ⟨trivial, ?_⟩)
    have h1 : ¬(p.fifo = true ∧ p.fifoSkip > 0) := by omega
    rw [if_neg h1]
    simp only []
    by_cases hf : p.fifo = true ∧ p.fifoSkip = 0
    · rw [if_pos hf]
      refine ⟨_, _, rfl, ?_, ?_⟩
      · intro h; rw [hf.1] at h; cases h
      · exact foldl_inv RetrOk _ (fun b a hb => retrOuter_ok _ _ _ b a hb) _ _
          (by intro x hx; simp at hx)
    · rw [if_neg hf]
      refine ⟨_, _, rfl, fun _ => rfl, ?_⟩
      intro x hx; simp at hx


theorem takeBuffered_replicate (n : Nat) (pi : List Nat) :
    takeBuffered (List.replicate n []) pi = none := by
  induction pi with
  | nil => rfl
  | cons i rest ih =>
    unfold takeBuffered
    have : (List.replicate n ([] : List Int)).getD i [] = [] := by
      simp [List.getD_eq_getElem?_getD, List.getElem?_replicate]
      split_ifs <;> rfl
    rw [this]
    exact ih

/-- the message whose processing a `step` is about: the buffered message that is let out of
    `deliver_buf`, else the message taken from `buf_msg`, else the received one -/
def stepMsg (p : Party) (pi : List Nat) (inp : Option (Nat × Msg)) : Option Msg :=
  match findFirst (deliverable p) p.deliverBuf with
  | some (e, _) => some e
  | none =>
    match takeBuffered p.bufMsg pi with
    | some (_, msg, _) => some msg
    | none => inp.map (·.2)

/-- the tag a `step` delivers, when it delivers (`Outcome.delivered` carries only the sender) -/
def deliveredTag (p : Party) (pi : List Nat) (inp : Option (Nat × Msg)) : Tag :=
  ((stepMsg p pi inp).map Msg.tag).getD default

/-- all the ways one `step` can go (`fifo_skip = 0`, nothing queued in `buf_msg`) -/
theorem step_cases (H : Int → Int) (T : Tag → Int) (p : Party) (pi : List Nat)
    (inp : Option (Nat × Msg)) (hskip : p.fifoSkip = 0) (hbuf : p.bufMsg = List.replicate p.n []) :
    (∃ e rest, findFirst (deliverable p) p.deliverBuf = some (e, rest) ∧
        aGet p.mbar e.tag = none ∧ step H T p pi inp = ⟨p, [], .threw⟩) ∨
    (∃ e rest m, findFirst (deliverable p) p.deliverBuf = some (e, rest) ∧
        aGet p.mbar e.tag = some m ∧ deliveredTag p pi inp = e.tag ∧
        step H T p pi inp = ⟨{ p with
          deliverS := p.deliverS.set e.sender.toNat (p.dS e.sender.toNat + 1),
          deliverBuf := rest }, [], .delivered e.sender.toNat m⟩) ∨
    (findFirst (deliverable p) p.deliverBuf = none ∧
      ∃ R s0, (p.fifo = false → R = p.retrieve) ∧ (∀ x ∈ s0, x.2.action = lRetrieve) ∧
        ((inp = none ∧ step H T p pi inp = ⟨hkParty p R, s0, .idle⟩) ∨
         (∃ l msg q' s o, inp = some (l, msg) ∧ deliveredTag p pi inp = msg.tag ∧
            Disp H (hkParty p R) l msg q' s o ∧
            step H T p pi inp = ⟨q', s0 ++ s, o⟩))) := by
  rcases phaseBuffer_cases p hskip with ⟨e, rest, hff, hm, hpb⟩ | ⟨e, rest, m, hff, hm, hpb⟩ |
    ⟨hff, R, s0, hpb, hR, hs0⟩
  · left
    refine ⟨e, rest, hff, hm, ?_⟩
    unfold step; rw [hpb]
  · right; left
    refine ⟨e, rest, m, hff, hm, ?_, ?_⟩
    · unfold deliveredTag stepMsg; rw [hff]; rfl
    · unfold step; rw [hpb]
  · right; right
    refine ⟨hff, R, s0, hR, hs0, ?_⟩
    have htb : takeBuffered (hkParty p R).bufMsg pi = none := by
      show takeBuffered p.bufMsg pi = none
      rw [hbuf]; exact takeBuffered_replicate _ _
    have htb' : takeBuffered p.bufMsg pi = none := htb
    cases inp with
    | none =>
      left
      refine ⟨rfl, ?_⟩
      unfold step; rw [hpb]; simp only []; rw [htb]
    | some lm =>
      obtain ⟨l, msg⟩ := lm
      right
      obtain ⟨q', s, o, hD, hEq⟩ := dispatch_cases H T (hkParty p R) s0 l msg
      refine ⟨l, msg, q', s, o, rfl, ?_, hD, ?_⟩
      · unfold deliveredTag stepMsg; rw [hff]; simp only []; rw [htb']; rfl
      · unfold step; rw [hpb]; simp only []; rw [htb]; exact hEq


/-! ## 4. the system model

  `n` parties; the parties in `byz` (at most `t`, all `< n`… see `Event.Valid`) are Byzantine and
  are not modelled at all: the adversary may hand ANY message to an honest party under the link
  identity of a Byzantine party.  Honest parties run `step` / `broadcast` of the model on one
  channel `ID` in one mode.  The network may duplicate, reorder and lose messages: an honest party
  may be handed any message that some honest party ever sent to it, any number of times. -/

structure Cfg where
  n : Nat
  t : Nat
  byz : Finset Nat
  ID : Int
  fifo : Bool

def Cfg.honest (c : Cfg) (i : Nat) : Prop := i < c.n ∧ i ∉ c.byz

instance (c : Cfg) (i : Nat) : Decidable (c.honest i) := by unfold Cfg.honest; infer_instance

structure Sys where
  /-- states of the parties (only those of honest parties are ever touched) -/
  st : Nat → Party
  /-- every message an honest party ever sent: (source, destination, message) -/
  log : List (Nat × Nat × Msg)
  /-- honest broadcasts (party, tag, value) -/
  bc : List (Nat × Tag × Int)
  /-- honest deliveries (party, tag, value) -/
  dl : List (Nat × Tag × Int)

def initParty (c : Cfg) (i : Nat) : Party :=
  { Party.init c.n c.t i 0 with ID := c.ID, fifo := c.fifo }

def Sys.init (c : Cfg) : Sys := ⟨fun i => initParty c i, [], [], []⟩

inductive Event where
  /-- party `i` runs `Deliver` and the link layer hands over `msg` from link `src` -/
  | recv (i src : Nat) (msg : Msg) (pi : List Nat)
  /-- party `i` runs `Deliver` and nothing arrives -/
  | tick (i : Nat) (pi : List Nat)
  /-- party `i` broadcasts `v` (`rnd`: the random sequence number of non-FIFO mode) -/
  | bcast (i : Nat) (v rnd : Int)

def upd (st : Nat → Party) (i : Nat) (p : Party) : Nat → Party :=
  fun k => if k = i then p else st k

def tagMsgs (i : Nat) (s : Sent) : List (Nat × Nat × Msg) := s.map fun x => (i, x.1, x.2)

def stepSys (H : Int → Int) (T : Tag → Int) (s : Sys) (i : Nat) (pi : List Nat)
    (inp : Option (Nat × Msg)) : Sys :=
  let r := step H T (s.st i) pi inp
  { st := upd s.st i r.party
    log := s.log ++ tagMsgs i r.sent
    bc := s.bc
    dl := match r.out with
      | .delivered _ m => s.dl ++ [(i, deliveredTag (s.st i) pi inp, m)]
      | _ => s.dl }

def Sys.apply (H : Int → Int) (T : Tag → Int) (s : Sys) : Event → Sys
  | .recv i src msg pi => stepSys H T s i pi (some (src, msg))
  | .tick i pi => stepSys H T s i pi none
  | .bcast i v rnd =>
    let r := broadcast (s.st i) v rnd
    { st := upd s.st i r.1
      log := s.log ++ tagMsgs i r.2
      bc := s.bc ++ [(i, ⟨(s.st i).ID, (s.st i).j, r.1.s⟩, v)]
      dl := s.dl }

/-- which events may happen: only honest parties act; a received message comes from a link
    `src < n` and either `src` is Byzantine (then the message is arbitrary) or the message was
    sent by `src` to `i` earlier -/
def Event.Valid (c : Cfg) (s : Sys) : Event → Prop
  | .recv i src msg _ => c.honest i ∧ src < c.n ∧ (src ∈ c.byz ∨ (src, i, msg) ∈ s.log)
  | .tick i _ => c.honest i
  | .bcast i _ _ => c.honest i

instance (c : Cfg) (s : Sys) (ev : Event) : Decidable (ev.Valid c s) := by
  cases ev <;> (unfold Event.Valid; infer_instance)

inductive Reach (H : Int → Int) (T : Tag → Int) (c : Cfg) : Sys → Prop
  | init : Reach H T c (Sys.init c)
  | step (s : Sys) (ev : Event) : Reach H T c s → ev.Valid c s → Reach H T c (s.apply H T ev)

/-- executable version: run an event list from the initial state, `none` if an event is invalid -/
def runFrom (H : Int → Int) (T : Tag → Int) (c : Cfg) (s : Sys) : List Event → Option Sys
  | [] => some s
  | ev :: rest => if ev.Valid c s then runFrom H T c (s.apply H T ev) rest else none

def run (H : Int → Int) (T : Tag → Int) (c : Cfg) (evs : List Event) : Option Sys :=
  runFrom H T c (Sys.init c) evs

theorem runFrom_reach (H : Int → Int) (T : Tag → Int) (c : Cfg) :
    ∀ (evs : List Event) (s s' : Sys), Reach H T c s → runFrom H T c s evs = some s' →
      Reach H T c s' := by
  intro evs
  induction evs with
  | nil => intro s s' hr h; simp only [runFrom, Option.some.injEq] at h; exact h ▸ hr
  | cons ev rest ih =>
    intro s s' hr h
    unfold runFrom at h
    by_cases hv : ev.Valid c s
    · rw [if_pos hv] at h
      exact ih _ _ (Reach.step s ev hr hv) h
    · rw [if_neg hv] at h; cases h

theorem run_reach (H : Int → Int) (T : Tag → Int) (c : Cfg) (evs : List Event) (s : Sys)
    (h : run H T c evs = some s) : Reach H T c s :=
  runFrom_reach H T c evs _ s Reach.init h

end Tmcg.Rbc
