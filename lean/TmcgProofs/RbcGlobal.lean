import Tmcg.Model.Rbc
import Mathlib.Data.Finset.Card
import Mathlib.Data.List.Basic
import Mathlib.Tactic.Linarith
/-
  C14, part B — GLOBAL safety of the reliable broadcast (agreement, integrity, no duplication)
  for a system of `n` parties, at most `t` of them Byzantine, `3 t < n`, all honest parties
  running `Tmcg.Rbc.step` / `Tmcg.Rbc.broadcast` on ONE channel.

  (TmcgProofs/RbcLocal.lean is not imported: its compiled file does not exist yet and none of its
  statements is needed here; everything is proved from the model directly.)
-/
namespace Tmcg.Rbc

/-! ## 1. association lists, filters, counters -/

section basics
variable {κ ν : Type} [DecidableEq κ]

theorem aGet_aSet_self (l : List (κ × ν)) (k : κ) (v : ν) : aGet (aSet l k v) k = some v := by
  induction l with
  | nil => simp [aSet, aGet]
  | cons a l ih =>
    obtain ⟨k', v'⟩ := a
    by_cases h : k' = k
    · simp [aSet, aGet, h]
    · simp [aSet, aGet, h, ih]

theorem aGet_aSet_ne (l : List (κ × ν)) (k k' : κ) (v : ν) (h : k' ≠ k) :
    aGet (aSet l k v) k' = aGet l k' := by
  induction l with
  | nil => simp [aSet, aGet, Ne.symm h]
  | cons a l ih =>
    obtain ⟨k'', v'⟩ := a
    by_cases h2 : k'' = k
    · subst h2
      simp [aSet, aGet, Ne.symm h]
    · by_cases h3 : k'' = k'
      · subst h3
        simp [aSet, aGet, h2]
      · simp [aSet, aGet, h2, h3, ih]

end basics

theorem fHas_append (f g : Filter) (l : Nat) (t : Tag) :
    fHas (f ++ g) l t = (fHas f l t || fHas g l t) := by
  induction f with
  | nil => simp [fHas]
  | cons a f ih =>
    obtain ⟨l', t'⟩ := a
    simp [fHas, ih, Bool.or_assoc]

theorem fHas_fIns (f : Filter) (l a : Nat) (t b : Tag) :
    fHas (fIns f l t) a b = true ↔ (a = l ∧ b = t) ∨ fHas f a b = true := by
  unfold fIns
  by_cases h : fHas f l t = true
  · simp only [h, if_true]
    constructor
    · intro h'; exact Or.inr h'
    · rintro (⟨rfl, rfl⟩ | h')
      · exact h
      · exact h'
  · have h0 : fHas f l t = false := by simpa using h
    simp only [h0]
    rw [if_neg (by simp), fHas_append]
    simp [fHas]
    constructor
    · rintro (h' | ⟨rfl, rfl⟩)
      · exact Or.inr h'
      · exact Or.inl ⟨rfl, rfl⟩
    · rintro (⟨rfl, rfl⟩ | h')
      · exact Or.inr ⟨rfl, rfl⟩
      · exact Or.inl h'

theorem fHas_fIns_self (f : Filter) (l : Nat) (t : Tag) : fHas (fIns f l t) l t = true :=
  (fHas_fIns f l l t t).mpr (Or.inl ⟨rfl, rfl⟩)

theorem fHas_fIns_mono (f : Filter) (l a : Nat) (t b : Tag) (h : fHas f a b = true) :
    fHas (fIns f l t) a b = true :=
  (fHas_fIns f l a t b).mpr (Or.inr h)

/-- the count stored for a key (0 when absent) -/
def cnt (c : Counts) (k : Tag × Int) : Nat := (aGet c k).getD 0

theorem cntInc_snd (c : Counts) (k : Tag × Int) : (cntInc c k).2 = cnt c k + 1 := by
  unfold cntInc cnt
  cases h : aGet c k <;> simp

theorem cnt_cntInc_self (c : Counts) (k : Tag × Int) : cnt (cntInc c k).1 k = cnt c k + 1 := by
  unfold cntInc cnt
  cases h : aGet c k <;> simp [aGet_aSet_self]

theorem cnt_cntInc_ne (c : Counts) (k k' : Tag × Int) (h : k' ≠ k) :
    cnt (cntInc c k).1 k' = cnt c k' := by
  unfold cntInc cnt
  cases h2 : aGet c k <;> simp [aGet_aSet_ne _ _ _ _ h]

theorem cntTouch_snd (c : Counts) (k : Tag × Int) : (cntTouch c k).2 = cnt c k := by
  unfold cntTouch cnt
  cases h : aGet c k <;> simp

theorem cnt_cntTouch (c : Counts) (k k' : Tag × Int) : cnt (cntTouch c k).1 k' = cnt c k' := by
  unfold cntTouch cnt
  cases h2 : aGet c k with
  | some v => simp
  | none =>
    by_cases h : k' = k
    · subst h; simp [aGet_aSet_self, h2]
    · simp [aGet_aSet_ne _ _ _ _ h]

/-! ## 2. a relational description of `dispatch` -/

/-- `q'` differs from `q` at most in the first-time filters `send/echo/ready/request/answer`
    (which only grow) -/
structure SameCore (q q' : Party) : Prop where
  n : q'.n = q.n
  t : q'.t = q.t
  j : q'.j = q.j
  fifo : q'.fifo = q.fifo
  fifoSkip : q'.fifoSkip = q.fifoSkip
  ID : q'.ID = q.ID
  deliverS : q'.deliverS = q.deliverS
  bufMsg : q'.bufMsg = q.bufMsg
  mbar : q'.mbar = q.mbar
  dbar : q'.dbar = q.dbar
  eD : q'.eD = q.eD
  rD : q'.rD = q.rD
  retrieveBuf : q'.retrieveBuf = q.retrieveBuf
  deliverBuf : q'.deliverBuf = q.deliverBuf
  deliver : q'.deliver = q.deliver
  retrieve : q'.retrieve = q.retrieve
  send : ∀ a b, fHas q.send a b = true → fHas q'.send a b = true
  echo : ∀ a b, fHas q.echo a b = true → fHas q'.echo a b = true
  ready : ∀ a b, fHas q.ready a b = true → fHas q'.ready a b = true

theorem SameCore.refl (q : Party) : SameCore q q :=
  ⟨rfl, rfl, rfl, rfl, rfl, rfl, rfl, rfl, rfl, rfl, rfl, rfl, rfl, rfl, rfl, rfl,
   fun _ _ h => h, fun _ _ h => h, fun _ _ h => h⟩

theorem SameCore.mkSend (q : Party) (l : Nat) (tg : Tag) :
    SameCore q { q with send := fIns q.send l tg } :=
  { SameCore.refl q with send := fun _ _ h => fHas_fIns_mono _ _ _ _ _ h }

theorem SameCore.mkEcho (q : Party) (l : Nat) (tg : Tag) :
    SameCore q { q with echo := fIns q.echo l tg } :=
  { SameCore.refl q with echo := fun _ _ h => fHas_fIns_mono _ _ _ _ _ h }

theorem SameCore.mkReady (q : Party) (l : Nat) (tg : Tag) :
    SameCore q { q with ready := fIns q.ready l tg } :=
  { SameCore.refl q with ready := fun _ _ h => fHas_fIns_mono _ _ _ _ _ h }

theorem SameCore.mkRequest (q : Party) (f : Filter) : SameCore q { q with request := f } :=
  { SameCore.refl q with }

theorem SameCore.mkAnswer (q : Party) (f : Filter) : SameCore q { q with answer := f } :=
  { SameCore.refl q with }

/-- the range checks every message passes before it has any effect -/
def WF (q : Party) (msg : Msg) : Prop :=
  0 ≤ msg.sender ∧ msg.sender ≤ (q.n : Int) - 1 ∧ 1 ≤ msg.seq

/-- the party after an accepted r-echo -/
def echoPost (q : Party) (l : Nat) (msg : Msg) : Party :=
  { q with echo := fIns q.echo l msg.tag,
           eD := (cntInc q.eD (msg.tag, msg.payload)).1,
           rD := (cntTouch q.rD (msg.tag, msg.payload)).1 }

/-- the party after an accepted r-ready (before `dbar` is touched) -/
def readyPost (q : Party) (l : Nat) (msg : Msg) : Party :=
  { q with ready := fIns q.ready l msg.tag,
           eD := (cntTouch q.eD (msg.tag, msg.payload)).1,
           rD := (cntInc q.rD (msg.tag, msg.payload)).1 }

/-- the party after an accepted l-deliver (before `mbar` is touched) -/
def ldelBuf (q : Party) (l : Nat) (msg : Msg) : List Int :=
  ((aGet q.retrieveBuf msg.tag).getD (List.replicate q.n 0)).set l msg.payload

def ldelPost (q : Party) (l : Nat) (msg : Msg) : Party :=
  { q with deliver := fIns q.deliver l msg.tag,
           retrieveBuf := aSet q.retrieveBuf msg.tag (ldelBuf q l msg) }

/-- all the ways `dispatch` can treat the message `msg` handed over by link `l`:
    resulting party, messages sent by this call, outcome -/
inductive Disp (H : Int → Int) (q : Party) (l : Nat) (msg : Msg) : Party → Sent → Outcome → Prop
  /-- nothing but first-time filters changes; at most r-request / r-answer / l-fail are sent -/
  | minor (q' : Party) (s : Sent) (hc : SameCore q q')
      (hs : ∀ x ∈ s, x.2.action = rRequest ∨ x.2.action = rAnswer ∨ x.2.action = lFail) :
      Disp H q l msg q' s .idle
  /-- first r-send of the tag, nothing stored yet: store and echo -/
  | echoNew (wf : WF q msg) (hact : msg.action = rSend) (hnew : fHas q.send l msg.tag = false)
      (hl : msg.sender = (l : Int)) (hm : aGet q.mbar msg.tag = none) :
      Disp H q l msg
        { q with send := fIns q.send l msg.tag, mbar := aSet q.mbar msg.tag msg.payload }
        (sendAll q.n ⟨msg.id, msg.sender, msg.seq, rEcho, H msg.payload⟩) .idle
  /-- first r-send of the tag, the same payload is stored already: echo -/
  | echoOld (wf : WF q msg) (hact : msg.action = rSend) (hnew : fHas q.send l msg.tag = false)
      (hl : msg.sender = (l : Int)) (hm : aGet q.mbar msg.tag = some msg.payload) :
      Disp H q l msg
        { q with send := fIns q.send l msg.tag }
        (sendAll q.n ⟨msg.id, msg.sender, msg.seq, rEcho, H msg.payload⟩) .idle
  /-- a counted r-echo; possibly the echo quorum -/
  | echoCount (wf : WF q msg) (hact : msg.action = rEcho) (hnew : fHas q.echo l msg.tag = false)
      (s : Sent)
      (hs : s = [] ∨ (s = sendAll q.n ⟨msg.id, msg.sender, msg.seq, rReady, msg.payload⟩ ∧
                      cnt q.eD (msg.tag, msg.payload) + 1 = q.n - q.t)) :
      Disp H q l msg (echoPost q l msg) s .idle
  /-- a counted r-ready that does not touch `dbar` and does not deliver -/
  | readyCount (wf : WF q msg) (hact : msg.action = rReady) (hnew : fHas q.ready l msg.tag = false)
      (s : Sent)
      (hs : (∀ x ∈ s, x.2.action = rRequest) ∨
            (s = sendAll q.n ⟨msg.id, msg.sender, msg.seq, rReady, msg.payload⟩ ∧
             cnt q.rD (msg.tag, msg.payload) + 1 = q.t + 1)) :
      Disp H q l msg (readyPost q l msg) s .idle
  /-- the `2t+1`-st r-ready fixes `dbar`; payload unknown: r-request -/
  | readyDbar (wf : WF q msg) (hact : msg.action = rReady) (hnew : fHas q.ready l msg.tag = false)
      (hr : cnt q.rD (msg.tag, msg.payload) + 1 = 2 * q.t + 1)
      (hd : aGet q.dbar msg.tag = none) (s : Sent) (hs : ∀ x ∈ s, x.2.action = rRequest) :
      Disp H q l msg
        { readyPost q l msg with dbar := aSet q.dbar msg.tag msg.payload } s .idle
  /-- the `2t+1`-st r-ready, stored payload matches `dbar`: deliver or buffer -/
  | readyDeliver (wf : WF q msg) (hact : msg.action = rReady) (hnew : fHas q.ready l msg.tag = false)
      (hr : cnt q.rD (msg.tag, msg.payload) + 1 = 2 * q.t + 1) (p3 : Party)
      (hd : (aGet q.dbar msg.tag = none ∧
              p3 = { readyPost q l msg with dbar := aSet q.dbar msg.tag msg.payload }) ∨
            (aGet q.dbar msg.tag = some msg.payload ∧ p3 = readyPost q l msg))
      (hfoo : (match aGet q.mbar msg.tag with | none => 0 | some mb => H mb) = msg.payload) :
      Disp H q l msg (deliverOrBuffer p3 msg []).party (deliverOrBuffer p3 msg []).sent
        (deliverOrBuffer p3 msg []).out
  /-- an r-answer with the agreed digest while the stored payload does not match -/
  | answerDeliver (wf : WF q msg) (hact : msg.action = rAnswer)
      (hnew : fHas q.answer l msg.tag = false) (db : Int) (hd : aGet q.dbar msg.tag = some db)
      (hk : ∀ mb, aGet q.mbar msg.tag = some mb → H mb ≠ db) (hh : H msg.payload = db) (p2 : Party)
      (hp2 : p2 = { q with answer := fIns q.answer l msg.tag,
                           mbar := aSet q.mbar msg.tag msg.payload }) :
      Disp H q l msg (deliverOrBuffer p2 msg []).party (deliverOrBuffer p2 msg []).sent
        (deliverOrBuffer p2 msg []).out
  /-- an l-retrieve that is answered with the stored payload -/
  | retrieveAns (wf : WF q msg) (hact : msg.action = lRetrieve) (mb : Int)
      (hm : aGet q.mbar msg.tag = some mb)
      (hc : (q.fifo = true ∧ msg.seq < q.dS msg.sender.toNat) ∨ q.fifo = false) :
      Disp H q l msg q [(l, ⟨msg.id, msg.sender, msg.seq, lDeliver, mb⟩)] .idle
  /-- an accepted l-deliver without a decision -/
  | ldelMark (wf : WF q msg) (hact : msg.action = lDeliver)
      (hnew : fHas q.deliver l msg.tag = false) (hretr : fHas q.retrieve l msg.tag = true) :
      Disp H q l msg (ldelPost q l msg) [] .idle
  /-- an accepted l-deliver with `n - t` agreeing answers -/
  | ldelDeliver (wf : WF q msg) (hact : msg.action = lDeliver)
      (hnew : fHas q.deliver l msg.tag = false) (hretr : fHas q.retrieve l msg.tag = true)
      (i : Nat) (hi : agreeFind (ldelPost q l msg) msg.tag (ldelBuf q l msg) (List.range q.n) = some i)
      (p3 : Party)
      (hp3 : p3 = { ldelPost q l msg with
                    mbar := aSet q.mbar msg.tag ((ldelBuf q l msg).getD i 0) }) :
      Disp H q l msg (deliverOrBuffer p3 msg []).party (deliverOrBuffer p3 msg []).sent
        (deliverOrBuffer p3 msg []).out

theorem result_eta (r : Result) : r = ⟨r.party, r.sent, r.out⟩ := by cases r; rfl

theorem dob_sent_nil (p : Party) (msg : Msg) : (deliverOrBuffer p msg []).sent = [] := by
  unfold deliverOrBuffer
  simp only []
  split_ifs
  · split <;> rfl
  · rfl

theorem dispatch_cases (H : Int → Int) (T : Tag → Int) (q : Party) (sent0 : Sent) (l : Nat)
    (msg : Msg) :
    ∃ q' s o, Disp H q l msg q' s o ∧ dispatch H T q sent0 l msg = ⟨q', sent0 ++ s, o⟩ := by
  unfold dispatch
  simp only []
  by_cases h1 : msg.sender > ((q.n : Int) - 1) ∨ msg.sender < 0
  · rw [if_pos h1]
    exact ⟨q, [], .idle, .minor q [] (SameCore.refl q) (by simp), rfl⟩
  rw [if_neg h1]
  by_cases h2 : msg.seq < 1
  · rw [if_pos h2]
    exact ⟨q, [], .idle, .minor q [] (SameCore.refl q) (by simp), rfl⟩
  rw [if_neg h2]
  have wf : WF q msg := by
    unfold WF
    simp only [not_or, not_lt, gt_iff_lt] at h1 h2
    omega
  have minorRefl : ∃ q' s o, Disp H q l msg q' s o ∧
      (⟨q, sent0 ++ [], Outcome.idle⟩ : Result) = ⟨q', sent0 ++ s, o⟩ :=
    ⟨q, [], .idle, .minor q [] (SameCore.refl q) (by simp), rfl⟩
  by_cases h3 : msg.action < rSend ∨ msg.action > lDeliver
  · rw [if_pos h3]; exact minorRefl
  rw [if_neg h3]
  by_cases hS : msg.action = rSend
  · rw [if_pos hS]
    by_cases hf : fHas q.send l msg.tag = true
    · simp only [hf, Bool.not_true, Bool.false_eq_true, if_false]; exact minorRefl
    · have hf0 : fHas q.send l msg.tag = false := by simpa using hf
      simp only [hf0, Bool.not_false, if_true]
      by_cases hl : msg.sender ≠ (l : Int)
      · rw [if_pos hl]
        exact ⟨_, [], .idle, .minor _ [] (SameCore.mkSend q l msg.tag) (by simp), rfl⟩
      · rw [if_neg hl]
        simp only [ne_eq, not_not] at hl
        cases hm : aGet q.mbar msg.tag with
        | none =>
          simp only []
          exact ⟨_, _, .idle, .echoNew wf hS hf0 hl hm, rfl⟩
        | some mb =>
          simp only []
          by_cases hmb : mb ≠ msg.payload
          · rw [if_pos hmb]
            exact ⟨_, [], .idle, .minor _ [] (SameCore.mkSend q l msg.tag) (by simp), rfl⟩
          · rw [if_neg hmb]
            simp only [ne_eq, not_not] at hmb
            subst hmb
            exact ⟨_, _, .idle, .echoOld wf hS hf0 hl hm, rfl⟩
  rw [if_neg hS]
  by_cases hE : msg.action = rEcho
  · rw [if_pos hE]
    by_cases hf : fHas q.echo l msg.tag = true
    · simp only [hf, Bool.not_true, Bool.false_eq_true, if_false]; exact minorRefl
    · have hf0 : fHas q.echo l msg.tag = false := by simpa using hf
      simp only [hf0, Bool.not_false, if_true]
      by_cases hlen : ioLen msg.payload > 2 * ioLen (T msg.tag)
      · rw [if_pos hlen]
        exact ⟨_, [], .idle, .minor _ [] (SameCore.mkEcho q l msg.tag) (by simp), rfl⟩
      · rw [if_neg hlen]
        trace_state
        sorry
  rw [if_neg hE]
  sorry

end Tmcg.Rbc
