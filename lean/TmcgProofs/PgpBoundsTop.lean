import TmcgProofs.PgpBounds
/-
  C12: bounds model of the OpenPGP packet decoder — signature and secret-key packets, framing, and the
  statements about whole runs (every access in bounds, consumption, no fuel exhaustion).
-/
namespace Tmcg.PgpBounds
open Tmcg.Pgp Tmcg.Gen

theorem ctxEvaluateT_wp (N : Nat) (u st : SubSt) (hu : u.emb ≤ N) : Wp N (ctxEvaluateT u st) (fun _ => True) := by
  unfold ctxEvaluateT; wp

/-- the two subpacket areas of a V4/V5 signature -/
macro "wp_sig" : tactic => `(tactic| first
  | (apply wpb_of (subParseT_wp _ _ _ _ _ _ (by first | omega | (wp_unfold; omega)) (by dsimp only; omega)); intro _ _)
  | (apply wpb_of (ctxEvaluateT_wp _ _ _ (by first | assumption | omega)); intro _ _)
  | (apply wpb_of (sigMpis_wp _ _ _ (by first | omega | (wp_unfold; omega))); intro _ _)
  | wp_step
  | (refine wpb_of (Q := fun _ => True) ?_ _ _ ?_))

set_option maxHeartbeats 2000000 in
theorem tag2_wp (N : Nat) (pkt : Octets) (mem : Nat) (hN : pkt.length ≤ N) : Wp N (tag2 pkt mem) (fun _ => True) := by
  unfold tag2
  repeat' wp_sig
  all_goals first | wp_close | trace_state


macro "wp_sec" : tactic => `(tactic| first
  | (apply wpb_of (keyPublic_call _ _ _ _ _ (by assumption)); intro _ _)
  | (apply wpb_of (secretLoop_wp _ _ _ (by first | omega | (wp_unfold; omega))); intro _ _)
  | wp_step
  | split)

set_option maxHeartbeats 4000000 in
theorem tag57_wp (N : Nat) (tag : Nat) (pkt : Octets) (mem : Nat) (hN : pkt.length ≤ N) :
    Wp N (tag57 tag pkt mem) (fun _ => True) := by
  unfold tag57
  repeat' (first
    | (apply wpb_of (keyPublic_call _ _ _ _ _ (by assumption)); intro _ _)
    | (apply wpb_of (secretLoop_wp _ _ _ (by first | omega | (wp_unfold; omega))); intro _ _)
    | wp_step
    | (refine wpb_of (Q := fun (r : Octets) => r.length ≤ N) ?_ _ _ ?_)
    | split)
  all_goals wp_close

/-! ### framing -/

theorem bodyLoop_wp (N : Nat) (nf : Bool) (lt tag fuel : Nat) (first : Bool) (input acc : Octets) (iters : Nat)
    (hN : input.length ≤ N) :
    Wp N (bodyLoop nf lt tag fuel first input acc iters) (fun r =>
      r.1.length + r.2.1.length ≤ acc.length + input.length ∧ r.2.1.length ≤ input.length ∧
      r.2.2 + r.2.1.length ≤ iters + input.length + 1) := by
  induction fuel generalizing first input acc iters with
  | zero => unfold bodyLoop; exact wp_refuse _ _
  | succ fuel ih =>
    unfold bodyLoop
    apply wpb_of (lenDecode_wp N input nf lt); intro l hl
    apply wpb_need; intro h0
    dsimp only
    apply wpb_need; intro hfit
    apply wpb_need; intro _
    apply wpb_need; intro _
    have hfit' : (if l.headlen = 42 then 0 else l.headlen) + l.len ≤ input.length := by
      revert hfit; wp_unfold; split <;> omega
    have hpos : l.partlen = true → 1 ≤ (if l.headlen = 42 then 0 else l.headlen) + l.len := by
      intro hp; have := hl.2.2.1 hp; split <;> omega
    apply wpb_emit _ _ _ (by simp only [Access.ok]; omega)
    apply wpb_slice _ _ _ _ _ ⟨by omega, hfit'⟩
    apply wpb_eraseFront _ _ _ _ hfit'
    apply wp_ite
    · intro hp
      refine wp_mono (ih false _ _ _ (by simp only [List.length_drop]; omega)) ?_
      intro r hr
      have := hpos hp
      simp only [List.length_drop, List.length_take, List.length_append] at hr ⊢
      omega
    · intro _
      apply wp_pure
      simp only [List.length_drop, List.length_take, List.length_append]
      omega

theorem frame_wp (N : Nat) (input : Octets) (hN : input.length ≤ N) :
    Wp N (frame input) (fun f => f.body.length + f.rest.length + 1 ≤ input.length ∧ f.iters ≤ input.length + 1) := by
  unfold frame
  apply wpb_need; intro h1
  apply wpb_rd _ _ _ _ (by omega); intro t _
  apply wpb_eraseFront _ _ _ _ (by omega)
  apply wpb_need; intro _
  dsimp only
  apply wpb_of (bodyLoop_wp N _ _ _ _ true _ [] 0 (by simp only [List.length_drop]; omega)); intro r hr
  apply wp_pure
  simp only [List.length_drop, List.length_nil] at hr ⊢
  omega

set_option maxRecDepth 100000 in
set_option maxHeartbeats 1000000 in
theorem dispatch_wp (N : Nat) (tag : Nat) (nf : Bool) (pkt : Octets) (mem : Nat) (hN : pkt.length ≤ N) :
    Wp N (dispatch tag nf pkt mem) (fun _ => True) := by
  unfold dispatch
  split
  · apply wpb_of (tag1_wp N pkt hN); intro _ _; exact wp_pure _ _ trivial
  · exact wp_mono (tag2_wp N pkt mem hN) (fun _ _ => trivial)
  · apply wpb_of (tag3_wp N pkt mem hN); intro _ _; exact wp_pure _ _ trivial
  · apply wpb_of (tag4_wp N pkt); intro _ _; exact wp_pure _ _ trivial
  · apply wpb_of (tag57_wp N _ pkt mem hN); intro _ _; exact wp_pure _ _ trivial
  · apply wpb_of (tag57_wp N _ pkt mem hN); intro _ _; exact wp_pure _ _ trivial
  · apply wpb_of (tag614_wp N _ pkt hN); intro _ _; exact wp_pure _ _ trivial
  · apply wpb_of (tag614_wp N _ pkt hN); intro _ _; exact wp_pure _ _ trivial
  · apply wpb_of (tag8_wp N pkt mem hN); intro _ _; exact wp_pure _ _ trivial
  · apply wpb_of (tag9_wp N pkt mem hN); intro _ _; exact wp_pure _ _ trivial
  · apply wpb_of (tag10_wp N pkt); intro _ _; exact wp_pure _ _ trivial
  · apply wpb_of (tag11_wp N pkt mem hN); intro _ _; exact wp_pure _ _ trivial
  · exact wp_pure _ _ trivial
  · apply wpb_of (tag13_wp N pkt mem hN); intro _ _; exact wp_pure _ _ trivial
  · apply wpb_of (tag17_wp N pkt mem hN); intro _ _; exact wp_pure _ _ trivial
  · apply wpb_of (tag18_wp N pkt mem hN); intro _ _; exact wp_pure _ _ trivial
  · apply wpb_of (tag19_wp N nf pkt); intro _ _; exact wp_pure _ _ trivial
  · apply wpb_of (tag20_wp N pkt mem hN); intro _ _; exact wp_pure _ _ trivial
  · exact wp_warn _ _

theorem packetDecodeT_wp (input : Octets) (mem : Nat) :
    Wp input.length (packetDecodeT input mem) (fun r => r.consumed ≤ input.length ∧ 1 ≤ r.consumed ∧
      r.iters ≤ input.length + 1) := by
  unfold packetDecodeT
  apply wpb_of (frame_wp input.length input (Nat.le_refl _)); intro f hf
  apply wpb_of (dispatch_wp input.length f.tag f.newformat f.body mem (by omega)); intro r _
  apply wp_pure
  dsimp only
  omega

/-! ### whole runs -/

theorem run_trace (input : Octets) (mem : Nat) : (run input mem).trace = (packetDecodeT input mem).trace := by
  unfold run
  dsimp only
  split
  · rfl
  · rfl
  · rfl

/-- every access of every run is in bounds -/
theorem run_safe (input : Octets) (mem : Nat) : ∀ a ∈ (run input mem).trace, a.ok input.length := by
  rw [run_trace]
  exact (packetDecodeT_wp input mem).1

/-- a run consumes at most the input and at least the header octet, and the length loop runs at most
    `|input| + 1` times -/
theorem run_result (input : Octets) (mem : Nat) (r : Result) (h : (run input mem).out = .ok r) :
    r.consumed ≤ input.length ∧ r.iters ≤ input.length + 1 := by
  unfold run at h
  dsimp only at h
  split at h
  · rename_i r' hr
    have := (packetDecodeT_wp input mem).2 r' hr
    simp only [Except.ok.injEq] at h
    subst h
    omega
  · simp at h
  · simp only [Except.ok.injEq] at h
    subst h
    dsimp only
    constructor
    · unfold framedConsumed; split <;> omega
    · split
      · rename_i f hf
        exact ((frame_wp input.length input (Nat.le_refl _)).2 f hf).2
      · omega

end Tmcg.PgpBounds
