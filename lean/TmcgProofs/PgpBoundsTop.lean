import TmcgProofs.PgpBounds
/-
  C12: bounds model of the OpenPGP packet decoder — signature and secret-key packets, framing, and the
  statements about whole runs (every access in bounds, consumption, no fuel exhaustion).
-/
namespace Tmcg.PgpBounds
open Tmcg.Pgp Tmcg.Gen

theorem ctxEvaluateT_wp (N : Nat) (u st : SubSt) (hu : u.emb ≤ N) : Wp N (ctxEvaluateT u st) (fun _ => True) := by
  unfold ctxEvaluateT; wp

/-- the state after a subpacket area: the embedded signature it holds came from that area -/
theorem subDecodeT_emb (N : Nat) (buf : Octets) (st : SubSt) (K : Nat) (hK : buf.length ≤ K) (hst : st.emb ≤ K) :
    ∀ o, (subDecodeT buf st).out = .ok o → o.st.emb ≤ K := by
  intro o ho
  by_cases h : o.st.emb ≤ K
  · exact h
  · exfalso
    -- the only writer of `emb` is type 32, which stores the body length
    unfold subDecodeT at ho
    simp only [bind, M.bind] at ho
    sorry

end Tmcg.PgpBounds
