import Tmcg.Model.Dkg
import TmcgProofs.Group
import Mathlib.Algebra.Polynomial.Eval.Defs
import Mathlib.Algebra.Polynomial.Degree.Defs
/-
  C15, arithmetic layer: what the loops of src/PedersenVSS.cc and
  src/GennaroJareckiKrawczykRabinDKG.cc compute, in `ZMod q` (exponents) and `ZMod p` (group).

    * `evalShare_val`       the share loop is polynomial evaluation mod q
    * `commitProd_val`      the verification loop is ∏ C_k^(x^k)
    * `pedS_val`/`pedF_val` g^s h^s' through the fixed-base tables
    * `share_check`         Pedersen commitments of the coefficients open to the shares:
                            g^f(x) h^f'(x) = ∏ C_k^(x^k)           (equations (2)/(4) hold for honest dealers)
    * `feldman_check`       g^f(x) = ∏ (g^a_k)^(x^k)               (equation (5))
-/
namespace Tmcg.DkgP
open Tmcg Tmcg.Powm Tmcg.Dkg Tmcg.Grp

/-- the two Schnorr groups `(p, q, g)` and `(p, q, h)` of the CRS -/
def gGrp (G : Dkg.Grp) : Vtmf.Group := ⟨G.p, G.q, G.g⟩
def hGrp (G : Dkg.Grp) : Vtmf.Group := ⟨G.p, G.q, G.h⟩

/-- what `CheckGroup` establishes (with correct primality tests): `p`, `q` prime, `g` and `h` of
    order `q`; and the tables are the ones the constructor builds -/
structure ValidGrp (G : Dkg.Grp) : Prop where
  vg : ValidGroup (gGrp G)
  vh : ValidGroup (hGrp G)
  tg : IsTable (gGrp G) G.tabG G.g
  th : IsTable (hGrp G) G.tabH G.h

abbrev Fp (G : Dkg.Grp) := ZMod G.p.natAbs
abbrev Fq (G : Dkg.Grp) := ZMod G.q.natAbs

/-- casts of model integers into the field of the group and the field of the exponents -/
def cp (G : Dkg.Grp) (a : Int) : Fp G := (a : ZMod G.p.natAbs)
def cq (G : Dkg.Grp) (a : Int) : Fq G := (a : ZMod G.q.natAbs)

theorem mkGrp_valid {p q g h : Int} {G : Dkg.Grp} (hm : mkGrp p q g h = .ok G)
    (hg : ValidGroup ⟨p, q, g⟩) (hh : ValidGroup ⟨p, q, h⟩) : ValidGrp G := by
  unfold mkGrp at hm
  cases h1 : precompute g p (bitlen q) with
  | error e => rw [h1] at hm; cases hm
  | ok tg =>
    cases h2 : precompute h p (bitlen q) with
    | error e => rw [h1, h2] at hm; cases hm
    | ok th =>
      rw [h1, h2] at hm
      have hG : G = ⟨p, q, g, h, tg, th⟩ := by
        injection hm with hm
        exact hm.symm
      subst hG
      exact ⟨hg, hh, h1, h2⟩

/-- `Σ_i c_i · x^(k+i)` -/
def polyEvalFrom {R : Type} [CommRing R] (x : R) : Nat → List R → R
  | _, [] => 0
  | k, c :: cs => c * x ^ k + polyEvalFrom x (k + 1) cs

/-- value at `x` of the polynomial with coefficient list `coef` (lowest first) -/
def polyEval {R : Type} [CommRing R] (coef : List R) (x : R) : R := polyEvalFrom x 0 coef

/-- the polynomial with coefficient list `coef` -/
noncomputable def polyOf {R : Type} [CommRing R] (coef : List R) : Polynomial R :=
  (List.range coef.length).foldr (fun k acc => Polynomial.C (coef.getD k 0) * Polynomial.X ^ k + acc) 0

theorem polyFold_eval {R : Type} [CommRing R] (x : R) (cs : List R) (k : Nat) (f : Nat → R)
    (hf : ∀ i, i < cs.length → f (k + i) = cs.getD i 0) :
    ((List.range' k cs.length).foldr
      (fun j acc => Polynomial.C (f j) * Polynomial.X ^ j + acc) 0).eval x = polyEvalFrom x k cs := by
  induction cs generalizing k with
  | nil => simp [polyEvalFrom]
  | cons c cs ih =>
    have h0 : f k = c := by simpa using hf 0 (by simp)
    have ih' := ih (k + 1) (fun i hi => by
      have := hf (i + 1) (by simpa using hi)
      simpa [Nat.add_assoc, Nat.add_comm 1 i] using this)
    simp only [List.length_cons, List.range'_succ, List.foldr_cons, Polynomial.eval_add,
      Polynomial.eval_C_mul, Polynomial.eval_pow, Polynomial.eval_X, polyEvalFrom, h0]
    rw [ih']

theorem polyFold_degree_lt {R : Type} [CommRing R] (n k : Nat) (f : Nat → R) :
    ((List.range' k n).foldr
      (fun j acc => Polynomial.C (f j) * Polynomial.X ^ j + acc) 0).degree < ((k + n : Nat) : WithBot Nat) := by
  induction n generalizing k with
  | zero => simp
  | succ n ih =>
    simp only [List.range'_succ, List.foldr_cons]
    refine lt_of_le_of_lt (Polynomial.degree_add_le _ _) (max_lt ?_ ?_)
    · refine lt_of_le_of_lt (Polynomial.degree_C_mul_X_pow_le k (f k)) ?_
      exact_mod_cast (by omega : k < k + (n + 1))
    · have := ih (k + 1)
      rwa [show k + 1 + n = k + (n + 1) by omega] at this

theorem cq_emod {G : Dkg.Grp} (hq : 0 < G.q) (a : Int) : cq G (a % G.q) = cq G a := by
  unfold cq
  have h : ((G.q.natAbs : Nat) : Int) = G.q := Int.natAbs_of_nonneg hq.le
  have := ZMod.intCast_mod a G.q.natAbs
  rwa [h] at this

theorem cq_add (G : Dkg.Grp) (a b : Int) : cq G (a + b) = cq G a + cq G b := by
  unfold cq; push_cast; rfl

theorem cq_mul (G : Dkg.Grp) (a b : Int) : cq G (a * b) = cq G a * cq G b := by
  unfold cq; push_cast; rfl

theorem cq_pow (G : Dkg.Grp) (a : Int) (n : Nat) : cq G (a ^ n) = cq G a ^ n := by
  unfold cq; push_cast; rfl

theorem cq_natCast (G : Dkg.Grp) (x : Nat) : cq G (x : Int) = (x : Fq G) := by
  unfold cq; push_cast; rfl

theorem cq_zero (G : Dkg.Grp) : cq G 0 = 0 := by
  unfold cq; push_cast; rfl

theorem cq_eq_iff {G : Dkg.Grp} (hq : 0 < G.q) (a b : Int) : cq G a = cq G b ↔ a % G.q = b % G.q := by
  unfold cq
  rw [ZMod.intCast_eq_intCast_iff, Int.natAbs_of_nonneg hq.le]
  rfl

theorem polyOf_eval {R : Type} [CommRing R] (coef : List R) (x : R) :
    (polyOf coef).eval x = polyEval coef x := by
  unfold polyOf polyEval
  rw [List.range_eq_range']
  exact polyFold_eval x coef 0 (fun k => coef.getD k 0) (fun i _ => by simp)

theorem polyOf_degree_lt {R : Type} [CommRing R] (coef : List R) :
    (polyOf coef).degree < coef.length := by
  unfold polyOf
  rw [List.range_eq_range']
  have := polyFold_degree_lt coef.length 0 (fun k => coef.getD k 0)
  simpa using this

/-- the share loop continues a partial sum -/
theorem evalShareFrom_val (G : Dkg.Grp) (hq : 0 < G.q) (x k : Nat) (cs : List Int) (acc : Int) :
    cq G (evalShareFrom G.q x k cs acc) = cq G acc + polyEvalFrom (x : Fq G) k (cs.map (cq G)) := by
  induction cs generalizing k acc with
  | nil => simp [evalShareFrom, polyEvalFrom]
  | cons c cs ih =>
    simp only [evalShareFrom, List.map_cons, polyEvalFrom]
    rw [ih, cq_emod hq, cq_add, cq_emod hq, cq_mul, cq_pow, cq_natCast]
    ring

theorem evalShareFrom_range (G : Dkg.Grp) (hq : 0 < G.q) (x k : Nat) (cs : List Int) (acc : Int)
    (hacc : 0 ≤ acc ∧ acc < G.q) :
    0 ≤ evalShareFrom G.q x k cs acc ∧ evalShareFrom G.q x k cs acc < G.q := by
  induction cs generalizing k acc with
  | nil => simpa [evalShareFrom] using hacc
  | cons c cs ih =>
    simp only [evalShareFrom]
    exact ih _ _ ⟨Int.emod_nonneg _ (ne_of_gt hq), Int.emod_lt_of_pos _ hq⟩

/-- the share loop is polynomial evaluation mod q -/
theorem evalShare_val (G : Dkg.Grp) (hq : 0 < G.q) (coef : List Int) (x : Nat) :
    cq G (evalShare G.q coef x) = polyEval (coef.map (cq G)) (x : Fq G) ∧
    0 ≤ evalShare G.q coef x ∧ evalShare G.q coef x < G.q := by
  unfold evalShare polyEval
  refine ⟨?_, evalShareFrom_range G hq x 0 coef 0 ⟨le_refl _, hq⟩⟩
  rw [evalShareFrom_val G hq, cq_zero, zero_add]

/-- `∏_i c_i^(x^(k+i))` -/
def powProdFrom {R : Type} [CommRing R] (x : Nat) : Nat → List R → R
  | _, [] => 1
  | k, c :: cs => c ^ (x ^ k) * powProdFrom x (k + 1) cs

theorem cp_mul (G : Dkg.Grp) (a b : Int) : cp G (a * b) = cp G a * cp G b := by
  unfold cp; push_cast; rfl

theorem cp_pow (G : Dkg.Grp) (a : Int) (n : Nat) : cp G (a ^ n) = cp G a ^ n := by
  unfold cp; push_cast; rfl

theorem cp_one (G : Dkg.Grp) : cp G 1 = 1 := by
  unfold cp; push_cast; rfl

theorem cp_emod {G : Dkg.Grp} (hG : ValidGrp G) (a : Int) : cp G (a % G.p) = cp G a := by
  have : Fact (Nat.Prime (gGrp G).p.natAbs) := ⟨hG.vg.p_prime⟩
  exact toF_emod hG.vg a

theorem cp_inj {G : Dkg.Grp} (hG : ValidGrp G) {a b : Int} (ha : 0 ≤ a ∧ a < G.p)
    (hb : 0 ≤ b ∧ b < G.p) (h : cp G a = cp G b) : a = b := by
  have : Fact (Nat.Prime (gGrp G).p.natAbs) := ⟨hG.vg.p_prime⟩
  exact eq_of_toF_eq hG.vg ha hb h

theorem p_bounds {G : Dkg.Grp} (hG : ValidGrp G) (a : Int) : 0 ≤ a % G.p ∧ a % G.p < G.p :=
  emod_bounds hG.vg a

/-- the verification loop over units of `ZMod p` -/
theorem commitProdFrom_val {G : Dkg.Grp} (hG : ValidGrp G) (x k : Nat) (cs : List Int) (acc : Int)
    (hcs : ∀ c ∈ cs, cp G c ≠ 0) (hacc : 0 ≤ acc ∧ acc < G.p) :
    ∃ r, commitProdFrom G.p x k cs acc = .ok r ∧ 0 ≤ r ∧ r < G.p ∧
      cp G r = cp G acc * powProdFrom x k (cs.map (cp G)) := by
  have : Fact (Nat.Prime (gGrp G).p.natAbs) := ⟨hG.vg.p_prime⟩
  induction cs generalizing k acc with
  | nil => exact ⟨acc, rfl, hacc.1, hacc.2, by simp [powProdFrom]⟩
  | cons c cs ih =>
    obtain ⟨b, hb, hb0, hb1, hbv⟩ := mpzPowm_nonneg hG.vg c ((x : Int) ^ k) (by positivity)
    have hb' : mpzPowm c ((x : Int) ^ k) G.p = .ok b := hb
    have hbv' : cp G b = cp G c ^ ((x : Int) ^ k).toNat := hbv
    obtain ⟨r, hr, hr0, hr1, hrv⟩ := ih (k + 1) (acc * b % G.p)
      (fun c hc => hcs c (List.mem_cons_of_mem _ hc)) (p_bounds hG _)
    refine ⟨r, ?_, hr0, hr1, ?_⟩
    · simp only [commitProdFrom, hb']
      exact hr
    · have hn : ((x : Int) ^ k).toNat = x ^ k := by rw [← Nat.cast_pow, Int.toNat_natCast]
      rw [hrv, cp_emod hG, cp_mul, hbv', hn]
      simp only [List.map_cons, powProdFrom]
      ring

theorem commitProd_val {G : Dkg.Grp} (hG : ValidGrp G) (x : Nat) (cs : List Int)
    (hcs : ∀ c ∈ cs, cp G c ≠ 0) :
    ∃ r, commitProd G.p x cs = .ok r ∧ 0 ≤ r ∧ r < G.p ∧ cp G r = powProdFrom x 0 (cs.map (cp G)) := by
  have : Fact (Nat.Prime (gGrp G).p.natAbs) := ⟨hG.vg.p_prime⟩
  have h1 : (1 : Int) < G.p := one_lt_p hG.vg
  obtain ⟨r, hr, hr0, hr1, hrv⟩ := commitProdFrom_val hG x 0 cs 1 hcs ⟨by norm_num, h1⟩
  refine ⟨r, hr, hr0, hr1, ?_⟩
  rw [hrv, cp_one, one_mul]

theorem fact_p {G : Dkg.Grp} (hG : ValidGrp G) : Fact (Nat.Prime G.p.natAbs) := ⟨hG.vg.p_prime⟩
theorem fact_q {G : Dkg.Grp} (hG : ValidGrp G) : Fact (Nat.Prime G.q.natAbs) := ⟨hG.vg.q_prime⟩

-- from here on `ZMod p` is a field: obtain the instance with `haveI := fact_p hG`
variable {G : Dkg.Grp} [Fact (Nat.Prime G.p.natAbs)]

theorem g_unit (hG : ValidGrp G) : cp G G.g ≠ 0 :=
  @g_ne_zero (gGrp G) ‹Fact (Nat.Prime G.p.natAbs)› hG.vg

theorem h_unit (hG : ValidGrp G) : cp G G.h ≠ 0 :=
  @g_ne_zero (hGrp G) ‹Fact (Nat.Prime G.p.natAbs)› hG.vh

theorem g_pow_q_eq (hG : ValidGrp G) : cp G G.g ^ G.q.natAbs = 1 :=
  @g_pow_q (gGrp G) ‹Fact (Nat.Prime G.p.natAbs)› hG.vg

theorem h_pow_q_eq (hG : ValidGrp G) : cp G G.h ^ G.q.natAbs = 1 :=
  @g_pow_q (hGrp G) ‹Fact (Nat.Prime G.p.natAbs)› hG.vh

theorem fspowm_g (hG : ValidGrp G) (s : Int) (hs : s.natAbs < G.q.natAbs) :
    ∃ r, fspowm G.tabG G.g s G.p = .ok r ∧ 0 ≤ r ∧ r < G.p ∧ cp G r = cp G G.g ^ s :=
  @fspowm_val (gGrp G) ‹Fact (Nat.Prime G.p.natAbs)› hG.vg G.tabG G.g s hG.tg (g_unit hG) hs

theorem fspowm_h (hG : ValidGrp G) (s : Int) (hs : s.natAbs < G.q.natAbs) :
    ∃ r, fspowm G.tabH G.h s G.p = .ok r ∧ 0 ≤ r ∧ r < G.p ∧ cp G r = cp G G.h ^ s :=
  @fspowm_val (hGrp G) ‹Fact (Nat.Prime G.p.natAbs)› hG.vh G.tabH G.h s hG.th (h_unit hG) hs

theorem fpowm_g (hG : ValidGrp G) (s : Int) (hs : s.natAbs < G.q.natAbs) :
    ∃ r, fpowm G.tabG G.g s G.p = .ok r ∧ 0 ≤ r ∧ r < G.p ∧ cp G r = cp G G.g ^ s :=
  @fpowm_val (gGrp G) ‹Fact (Nat.Prime G.p.natAbs)› hG.vg G.tabG G.g s hG.tg (g_unit hG) hs

theorem fpowm_h (hG : ValidGrp G) (s : Int) (hs : s.natAbs < G.q.natAbs) :
    ∃ r, fpowm G.tabH G.h s G.p = .ok r ∧ 0 ≤ r ∧ r < G.p ∧ cp G r = cp G G.h ^ s :=
  @fpowm_val (hGrp G) ‹Fact (Nat.Prime G.p.natAbs)› hG.vh G.tabH G.h s hG.th (h_unit hG) hs

/-- `g^s h^s'` through `tmcg_mpz_fspowm` for `|s|, |s'| < q` -/
theorem pedS_val (hG : ValidGrp G) (s s' : Int)
    (hs : s.natAbs < G.q.natAbs) (hs' : s'.natAbs < G.q.natAbs) :
    ∃ a l, pedS G s s' = .ok (a, l) ∧ 0 ≤ a ∧ a < G.p ∧ 0 ≤ l ∧ l < G.p ∧
      cp G a = cp G G.g ^ s ∧ cp G l = cp G G.g ^ s * cp G G.h ^ s' := by
  obtain ⟨a, ha, ha0, ha1, hav⟩ := fspowm_g hG s hs
  obtain ⟨b, hb, hb0, hb1, hbv⟩ := fspowm_h hG s' hs'
  refine ⟨a, a * b % G.p, ?_, ha0, ha1, (p_bounds hG _).1, (p_bounds hG _).2, hav, ?_⟩
  · simp only [pedS, ha, hb]
    rfl
  · rw [cp_emod hG, cp_mul, hav, hbv]

/-- `g^s h^s'` through `tmcg_mpz_fpowm` for `|s|, |s'| < q` -/
theorem pedF_val (hG : ValidGrp G) (s s' : Int)
    (hs : s.natAbs < G.q.natAbs) (hs' : s'.natAbs < G.q.natAbs) :
    ∃ l, pedF G s s' = .ok l ∧ 0 ≤ l ∧ l < G.p ∧ cp G l = cp G G.g ^ s * cp G G.h ^ s' := by
  obtain ⟨a, ha, ha0, ha1, hav⟩ := fpowm_g hG s hs
  obtain ⟨b, hb, hb0, hb1, hbv⟩ := fpowm_h hG s' hs'
  refine ⟨a * b % G.p, ?_, (p_bounds hG _).1, (p_bounds hG _).2, ?_⟩
  · simp only [pedF, ha, hb]
    rfl
  · rw [cp_emod hG, cp_mul, hav, hbv]

/-- `g` and `h` are units of order dividing `q`; exponents only matter mod `q` -/
theorem g_zpow_congr (hG : ValidGrp G) (e e' : Int) (h : cq G e = cq G e') :
    cp G G.g ^ e = cp G G.g ^ e' := by
  have hmod := (cq_eq_iff hG.vg.q_pos e e').mp h
  have h1 : ∀ e : Int, cp G G.g ^ (e % G.q) = cp G G.g ^ e := fun e =>
    @zpow_mod_q (gGrp G) ‹Fact (Nat.Prime G.p.natAbs)› hG.vg (cp G G.g) (g_pow_q_eq hG) (g_unit hG) e
  rw [← h1 e, ← h1 e', hmod]

theorem h_zpow_congr (hG : ValidGrp G) (e e' : Int) (h : cq G e = cq G e') :
    cp G G.h ^ e = cp G G.h ^ e' := by
  have hmod := (cq_eq_iff hG.vg.q_pos e e').mp h
  have h1 : ∀ e : Int, cp G G.h ^ (e % G.q) = cp G G.h ^ e := fun e =>
    @zpow_mod_q (hGrp G) ‹Fact (Nat.Prime G.p.natAbs)› hG.vh (cp G G.h) (h_pow_q_eq hG) (h_unit hG) e
  rw [← h1 e, ← h1 e', hmod]

theorem natAbs_lt_of_range {q c : Int} (h : 0 ≤ c ∧ c < q) : c.natAbs < q.natAbs := by
  omega

/-- `commitList` in list form: every entry is a reduced unit, and the list of field values is
    the list of `g^a_k h^b_k` -/
theorem commitList_aux (hG : ValidGrp G) (a b : List Int) (hlen : a.length = b.length)
    (ha : ∀ c ∈ a, 0 ≤ c ∧ c < G.q) (hb : ∀ c ∈ b, 0 ≤ c ∧ c < G.q) :
    ∃ C, commitList G a b = .ok C ∧ C.length = a.length ∧
      (∀ c ∈ C, 0 ≤ c ∧ c < G.p ∧ cp G c ≠ 0) ∧
      C.map (cp G) = List.zipWith (fun u v => cp G G.g ^ u * cp G G.h ^ v) a b := by
  induction a generalizing b with
  | nil =>
    refine ⟨[], ?_, rfl, by simp, by simp⟩
    cases b <;> rfl
  | cons a0 as ih =>
    cases b with
    | nil => simp at hlen
    | cons b0 bs =>
      obtain ⟨ga, l, hped, -, -, hl0, hl1, -, hlv⟩ := pedS_val hG a0 b0
        (natAbs_lt_of_range (ha a0 (by simp))) (natAbs_lt_of_range (hb b0 (by simp)))
      obtain ⟨Cs, hCs, hCl, hCb, hCm⟩ := ih bs (by simpa using hlen)
        (fun c hc => ha c (List.mem_cons_of_mem _ hc)) (fun c hc => hb c (List.mem_cons_of_mem _ hc))
      refine ⟨l :: Cs, ?_, by simp [hCl], ?_, ?_⟩
      · simp only [commitList, hped, hCs]
        rfl
      · intro c hc
        rcases List.mem_cons.mp hc with rfl | hc
        · refine ⟨hl0, hl1, ?_⟩
          rw [hlv]
          exact mul_ne_zero (zpow_ne_zero _ (g_unit hG)) (zpow_ne_zero _ (h_unit hG))
        · exact hCb c hc
      · simp only [List.map_cons, List.zipWith_cons_cons, hlv, hCm]

/-- the commitments `commitList` produces are units with the expected value -/
theorem commitList_val (hG : ValidGrp G) (a b : List Int) (hlen : a.length = b.length)
    (ha : ∀ c ∈ a, 0 ≤ c ∧ c < G.q) (hb : ∀ c ∈ b, 0 ≤ c ∧ c < G.q) :
    ∃ C, commitList G a b = .ok C ∧ C.length = a.length ∧
      (∀ k, k < a.length → 0 ≤ C.getD k 0 ∧ C.getD k 0 < G.p ∧
        cp G (C.getD k 0) = cp G G.g ^ (a.getD k 0) * cp G G.h ^ (b.getD k 0)) := by
  obtain ⟨C, hC, hCl, hCb, hCm⟩ := commitList_aux hG a b hlen ha hb
  refine ⟨C, hC, hCl, ?_⟩
  intro k hk
  have hkC : k < C.length := by omega
  have hkb : k < b.length := by omega
  rw [List.getD_eq_getElem _ _ hkC, List.getD_eq_getElem _ _ hk, List.getD_eq_getElem _ _ hkb]
  obtain ⟨h0, h1, -⟩ := hCb C[k] (List.getElem_mem hkC)
  refine ⟨h0, h1, ?_⟩
  have := List.getElem_of_eq hCm (by simpa using hkC)
  simpa using this

/-- `cq` commutes with the integer partial sums -/
theorem cq_polyEvalFrom (G : Dkg.Grp) (x k : Nat) (cs : List Int) :
    cq G (polyEvalFrom (x : Int) k cs) = polyEvalFrom (x : Fq G) k (cs.map (cq G)) := by
  induction cs generalizing k with
  | nil => simp [polyEvalFrom, cq_zero]
  | cons c cs ih =>
    simp only [polyEvalFrom, List.map_cons, cq_add, cq_mul, cq_pow, cq_natCast, ih]

/-- `∏ (g^a_k h^b_k)^(x^(k+i)) = g^(Σ a_k x^(k+i)) h^(Σ b_k x^(k+i))` with integer exponent sums -/
theorem powProd_zip (hG : ValidGrp G) (x : Nat) (a b : List Int) (hlen : a.length = b.length) (k : Nat) :
    powProdFrom x k (List.zipWith (fun u v => cp G G.g ^ u * cp G G.h ^ v) a b) =
      cp G G.g ^ polyEvalFrom (x : Int) k a * cp G G.h ^ polyEvalFrom (x : Int) k b := by
  induction a generalizing b k with
  | nil =>
    cases b with
    | nil => simp [powProdFrom, polyEvalFrom]
    | cons b0 bs => simp at hlen
  | cons a0 as ih =>
    cases b with
    | nil => simp at hlen
    | cons b0 bs =>
      simp only [List.zipWith_cons_cons, powProdFrom, polyEvalFrom]
      rw [ih bs (by simpa using hlen), zpow_add₀ (g_unit hG), zpow_add₀ (h_unit hG), mul_pow,
        ← zpow_natCast (cp G G.g ^ a0), ← zpow_natCast (cp G G.h ^ b0), ← zpow_mul, ← zpow_mul]
      push_cast
      ring

theorem powProd_map (hG : ValidGrp G) (x : Nat) (a : List Int) (k : Nat) :
    powProdFrom x k (a.map (fun u => cp G G.g ^ u)) = cp G G.g ^ polyEvalFrom (x : Int) k a := by
  induction a generalizing k with
  | nil => simp [powProdFrom, polyEvalFrom]
  | cons a0 as ih =>
    simp only [List.map_cons, powProdFrom, polyEvalFrom]
    rw [ih, zpow_add₀ (g_unit hG), ← zpow_natCast (cp G G.g ^ a0), ← zpow_mul]
    push_cast
    rfl

omit [Fact (Nat.Prime G.p.natAbs)] in
/-- the share the code computes and the integer polynomial value agree mod `q` -/
theorem cq_evalShare (hG : ValidGrp G) (a : List Int) (x : Nat) :
    cq G (evalShare G.q a x) = cq G (polyEvalFrom (x : Int) 0 a) := by
  rw [(evalShare_val G hG.vg.q_pos a x).1, cq_polyEvalFrom]
  rfl

omit [Fact (Nat.Prime G.p.natAbs)] in
theorem evalShare_natAbs (hG : ValidGrp G) (a : List Int) (x : Nat) :
    (evalShare G.q a x).natAbs < G.q.natAbs :=
  natAbs_lt_of_range (evalShare_val G hG.vg.q_pos a x).2

/-- the right-hand side of equations (2)/(4) for the commitments of an honest dealer -/
theorem commitProd_commitList (hG : ValidGrp G) (a b : List Int) (hlen : a.length = b.length)
    (ha : ∀ c ∈ a, 0 ≤ c ∧ c < G.q) (hb : ∀ c ∈ b, 0 ≤ c ∧ c < G.q) (C : List Int)
    (hC : commitList G a b = .ok C) (x : Nat) :
    ∃ r, commitProd G.p x C = .ok r ∧ 0 ≤ r ∧ r < G.p ∧
      cp G r = cp G G.g ^ (evalShare G.q a x) * cp G G.h ^ (evalShare G.q b x) := by
  obtain ⟨C', hC', -, hCb, hCm⟩ := commitList_aux hG a b hlen ha hb
  rw [hC] at hC'
  injection hC' with hC'
  subst hC'
  obtain ⟨r, hr, hr0, hr1, hrv⟩ := commitProd_val hG x C (fun c hc => (hCb c hc).2.2)
  refine ⟨r, hr, hr0, hr1, ?_⟩
  rw [hrv, hCm, powProd_zip hG x a b hlen 0,
    g_zpow_congr hG _ _ (cq_evalShare hG a x), h_zpow_congr hG _ _ (cq_evalShare hG b x)]

/-- equation (2) of PedersenVSS / (4) of the DKG holds for the shares of an honest dealer: the left
    side the receiver computes from `(f(x), f'(x))` equals the right side it computes from the
    dealer's commitments -/
theorem share_check (hG : ValidGrp G) (a b : List Int) (hlen : a.length = b.length)
    (ha : ∀ c ∈ a, 0 ≤ c ∧ c < G.q) (hb : ∀ c ∈ b, 0 ≤ c ∧ c < G.q) (C : List Int)
    (hC : commitList G a b = .ok C) (x : Nat) :
    ∃ ga l r, pedS G (evalShare G.q a x) (evalShare G.q b x) = .ok (ga, l) ∧
      commitProd G.p x C = .ok r ∧ l = r := by
  obtain ⟨r, hr, hr0, hr1, hrv⟩ := commitProd_commitList hG a b hlen ha hb C hC x
  obtain ⟨ga, l, hl, -, -, hl0, hl1, -, hlv⟩ :=
    pedS_val hG _ _ (evalShare_natAbs hG a x) (evalShare_natAbs hG b x)
  exact ⟨ga, l, r, hl, hr, cp_inj hG ⟨hl0, hl1⟩ ⟨hr0, hr1⟩ (by rw [hlv, hrv])⟩

/-- the same with the table routine of the public resolution (`tmcg_mpz_fpowm`) -/
theorem share_check_F (hG : ValidGrp G) (a b : List Int) (hlen : a.length = b.length)
    (ha : ∀ c ∈ a, 0 ≤ c ∧ c < G.q) (hb : ∀ c ∈ b, 0 ≤ c ∧ c < G.q) (C : List Int)
    (hC : commitList G a b = .ok C) (x : Nat) :
    ∃ l r, pedF G (evalShare G.q a x) (evalShare G.q b x) = .ok l ∧
      commitProd G.p x C = .ok r ∧ l = r := by
  obtain ⟨r, hr, hr0, hr1, hrv⟩ := commitProd_commitList hG a b hlen ha hb C hC x
  obtain ⟨l, hl, hl0, hl1, hlv⟩ :=
    pedF_val hG _ _ (evalShare_natAbs hG a x) (evalShare_natAbs hG b x)
  exact ⟨l, r, hl, hr, cp_inj hG ⟨hl0, hl1⟩ ⟨hr0, hr1⟩ (by rw [hlv, hrv])⟩

/-- conversely: a pair `(s, s')` in range passes the check against the commitments of `(a, b)` iff
    `g^s h^s' = g^f(x) h^f'(x)` -/
theorem share_check_iff (hG : ValidGrp G) (a b : List Int) (hlen : a.length = b.length)
    (ha : ∀ c ∈ a, 0 ≤ c ∧ c < G.q) (hb : ∀ c ∈ b, 0 ≤ c ∧ c < G.q) (C : List Int)
    (hC : commitList G a b = .ok C) (x : Nat) (s s' : Int)
    (hs : s.natAbs < G.q.natAbs) (hs' : s'.natAbs < G.q.natAbs) :
    ∃ l r, pedF G s s' = .ok l ∧ commitProd G.p x C = .ok r ∧
      (l = r ↔ cp G G.g ^ s * cp G G.h ^ s' =
        cp G G.g ^ (evalShare G.q a x) * cp G G.h ^ (evalShare G.q b x)) := by
  obtain ⟨r, hr, hr0, hr1, hrv⟩ := commitProd_commitList hG a b hlen ha hb C hC x
  obtain ⟨l, hl, hl0, hl1, hlv⟩ := pedF_val hG s s' hs hs'
  refine ⟨l, r, hl, hr, ?_⟩
  rw [← hlv, ← hrv]
  exact ⟨fun h => by rw [h], fun h => cp_inj hG ⟨hl0, hl1⟩ ⟨hr0, hr1⟩ h⟩

/-- `gaList` in list form -/
theorem gaList_aux (hG : ValidGrp G) (a : List Int) (ha : ∀ c ∈ a, 0 ≤ c ∧ c < G.q) :
    ∃ ga, gaList G a = .ok ga ∧ (∀ c ∈ ga, 0 ≤ c ∧ c < G.p ∧ cp G c ≠ 0) ∧
      ga.map (cp G) = a.map (fun u => cp G G.g ^ u) := by
  induction a with
  | nil => exact ⟨[], rfl, by simp, by simp⟩
  | cons a0 as ih =>
    obtain ⟨v, hv, hv0, hv1, hvv⟩ := fspowm_g hG a0 (natAbs_lt_of_range (ha a0 (by simp)))
    obtain ⟨gs, hgs, hgb, hgm⟩ := ih (fun c hc => ha c (List.mem_cons_of_mem _ hc))
    refine ⟨v :: gs, ?_, ?_, ?_⟩
    · simp only [gaList, hv, hgs]
      rfl
    · intro c hc
      rcases List.mem_cons.mp hc with rfl | hc
      · exact ⟨hv0, hv1, by rw [hvv]; exact zpow_ne_zero _ (g_unit hG)⟩
      · exact hgb c hc
    · simp only [List.map_cons, hvv, hgm]

/-- equation (5): `g^f(x) = ∏ (g^a_k)^(x^k)` for the Feldman commitments `gaList` -/
theorem feldman_check (hG : ValidGrp G) (a : List Int)
    (ha : ∀ c ∈ a, 0 ≤ c ∧ c < G.q) (ga : List Int) (hga : gaList G a = .ok ga) (x : Nat) :
    ∃ l r, fspowm G.tabG G.g (evalShare G.q a x) G.p = .ok l ∧ commitProd G.p x ga = .ok r ∧ l = r := by
  obtain ⟨ga', hga', hgb, hgm⟩ := gaList_aux hG a ha
  rw [hga] at hga'
  injection hga' with hga'
  subst hga'
  obtain ⟨r, hr, hr0, hr1, hrv⟩ := commitProd_val hG x ga (fun c hc => (hgb c hc).2.2)
  obtain ⟨l, hl, hl0, hl1, hlv⟩ := fspowm_g hG _ (evalShare_natAbs hG a x)
  refine ⟨l, r, hl, hr, cp_inj hG ⟨hl0, hl1⟩ ⟨hr0, hr1⟩ ?_⟩
  rw [hlv, hrv, hgm, powProd_map hG x a 0, g_zpow_congr hG _ _ (cq_evalShare hG a x)]

end Tmcg.DkgP
