import TmcgProofs.Dkg
import Tmcg.Model.Cgjkr
/-
  C15 for the classes of src/CanettiGennaroJareckiKrawczykRabinASTC.cc, step-function layer of the
  joint sharings (`RVSS::Share`, `ZVSS::Share`; model: Tmcg/Model/Cgjkr.lean): what an honest party knows
  after its own checks, for ARBITRARY inboxes (whatever the other parties sent).

    * `rvCheck_sound`            step 1(b): a dealer the party does not complain about gave it a share that
                                 satisfies equation (1) against the commitments the party holds (and has
                                 `C_j0 = 1` in the sharing of zero)
    * `rvResolveGo_share_valid`  step 1(d), code after the repair e60796f: a dealer `j ≠ i` the party
                                 complained about and that is still qualified afterwards has published a
                                 share for the party that satisfies equation (1)
    * `rvShare_checked`          "a dealer with inconsistent shares is disqualified or forced to publish
                                 consistent ones": after `Share` every share of a dealer in QUAL that the
                                 party holds satisfies equation (1)
    * `rv_share_matches_commitments`  "shares match the verification values":
                                 `g^{x_i} h^{x'_i} = ∏_{j ∈ QUAL} ∏_k C_jk^{(i+1)^k}`
    * `refRound_update`          what the last round of `Refresh` does (link to CgjkrRefresh.lean)
    * `ref_zx_cong`              the adjusted share of the sharing of zero is the sum over the admitted dealers
-/
namespace Tmcg.CgjkrP
open Tmcg Tmcg.Powm Tmcg.Dkg Tmcg.Grp Tmcg.DkgL Tmcg.DkgP Tmcg.Cgjkr

/-- equation (1) as party `E.i` tests it in step 1(b) (`tmcg_mpz_fspowm`) -/
def EqS (E : Env) (Cj : List Int) (s s' : Int) : Prop :=
  ∃ a l r, pedS E.G s s' = .ok (a, l) ∧ commitProd E.G.p (E.pt E.i) Cj = .ok r ∧ l = r

/-- equation (1) as tested in the public resolution of step 1(d) (`tmcg_mpz_fpowm`) -/
def EqF (E : Env) (Cj : List Int) (s s' : Int) : Prop :=
  ∃ l r, pedF E.G s s' = .ok l ∧ commitProd E.G.p (E.pt E.i) Cj = .ok r ∧ l = r

/-- step 1(b): complaints are only added; a dealer without complaint passed the test(s) -/
theorem rvCheck_sound (E : Env) (zero : Bool) (C : List (List Int)) (s sp : List Int)
    (idx : List Nat) (cm cm' : List Nat)
    (h : rvCheck E zero C s sp idx cm = .ok cm') :
    (∀ j ∈ cm, j ∈ cm') ∧
    ∀ j ∈ idx, j ∉ cm' →
      EqS E (getRow C j) (getI s j) (getI sp j) ∧ (zero = true → getI (getRow C j) 0 = 1) := by
  induction idx generalizing cm with
  | nil =>
    simp only [rvCheck, Except.ok.injEq] at h
    subst h
    exact ⟨fun _ h => h, fun j hj => by cases hj⟩
  | cons j rest ih =>
    simp only [rvCheck, bind, Except.bind] at h
    cases hp : pedS E.G (getI s j) (getI sp j) with
    | error e => rw [hp] at h; cases h
    | ok pr =>
      obtain ⟨a, l⟩ := pr
      rw [hp] at h
      simp only at h
      cases hc : commitProd E.G.p (E.pt E.i) (getRow C j) with
      | error e => rw [hc] at h; cases h
      | ok r =>
        rw [hc] at h
        simp only at h
        obtain ⟨h1, h2⟩ := ih _ h
        refine ⟨fun k hk => h1 k ?_, ?_⟩
        · split <;> split <;> simp [hk]
        · intro k hk hkn
          rcases List.mem_cons.1 hk with rfl | hk
          · by_cases hlr : l = r
            · refine ⟨⟨a, l, r, hp, hc, hlr⟩, ?_⟩
              intro hz
              by_contra hne
              apply hkn
              apply h1
              simp [hz, hne]
            · exfalso
              apply hkn
              apply h1
              have : (l != r) = true := bne_iff_ne.2 hlr
              simp only [this, if_true]
              split <;> simp
          · exact h2 k hk hkn

/-! ### list helpers (local copies; TmcgProofs/DkgSteps.lean is not imported here) -/

theorem rv_getI_set_self (l : List Int) (j : Nat) (v : Int) (hj : j < l.length) :
    getI (l.set j v) j = v := by
  simp [getI, List.getD_eq_getElem?_getD, hj]

theorem rv_getI_set_ne (l : List Int) (j k : Nat) (v : Int) (hk : k ≠ j) :
    getI (l.set j v) k = getI l k := by
  simp [getI, List.getD_eq_getElem?_getD, Ne.symm hk]

theorem rv_getRow_set_ne (A : List (List Int)) (j k : Nat) (v : List Int) (hk : k ≠ j) :
    getRow (A.set j v) k = getRow A k := by
  simp [getRow, List.getD_eq_getElem?_getD, Ne.symm hk]

/-! ### step 1(d): the answers of one dealer -/

/-- one unfolding of `rvReadAnswers`: stop, or continue with the same shares, or continue with a
    share pair for the party itself that passed equation (1); the list of answered complaints grows
    by the complainer named in the triple -/
theorem rvReadAnswers_step (E : Env) (tag : Tag) (C : List (List Int)) (j f : Nat) (I : Inbox)
    (s sp : List Int) (cm an : List Nat) (R : Inbox × List Int × List Int × List Nat × List Nat)
    (h : rvReadAnswers E tag C j (f + 1) I s sp cm an = .ok R) :
    (∃ I1 cm1 an1, R = (I1, s, sp, cm1, an1) ∧ (∀ k ∈ cm, k ∈ cm1) ∧
      (an1 = an ∨ (j ∈ cm1 ∧ ∃ who, an1 = an ++ [who]))) ∨
    (∃ I3 cm1 who, (∀ k ∈ cm, k ∈ cm1) ∧
      rvReadAnswers E tag C j f I3 s sp cm1 (an ++ [who]) = .ok R ∧ (who = E.i → j ∈ cm1)) ∨
    (∃ I3 cm1 foo bar, (∀ k ∈ cm, k ∈ cm1) ∧ EqF E (getRow C j) foo bar ∧
      rvReadAnswers E tag C j f I3 (s.set j foo) (sp.set j bar) cm1 (an ++ [E.i]) = .ok R) := by
  unfold rvReadAnswers at h
  split at h
  · left
    exact ⟨_, _, _, (Except.ok.inj h).symm, fun k hk => List.mem_append_left _ hk, Or.inl rfl⟩
  · rename_i v I1 h1
    simp only at h
    split at h
    · left
      exact ⟨_, _, _, (Except.ok.inj h).symm, fun k hk => hk, Or.inl rfl⟩
    · split at h
      · left
        exact ⟨_, _, _, (Except.ok.inj h).symm, fun k hk => List.mem_append_left _ hk,
          Or.inr ⟨by simp, getUi v, rfl⟩⟩
      · rename_i foo0 I2 h2
        split at h
        · left
          refine ⟨_, _, _, (Except.ok.inj h).symm, fun k hk => List.mem_append_left _ ?_,
            Or.inr ⟨by simp, getUi v, rfl⟩⟩
          split
          · exact List.mem_append_left _ hk
          · exact hk
        · rename_i bar0 I3 h3
          generalize (if absGe foo0 E.G.q = true then (true, (0:Int)) else (false, foo0)) = pf at h
          generalize (if absGe bar0 E.G.q = true then (true, (0:Int)) else (false, bar0)) = pb at h
          obtain ⟨c1, foo⟩ := pf
          obtain ⟨c2, bar⟩ := pb
          simp only at h
          generalize hcmB : (if c2 = true then (if c1 = true then cm ++ [j] else cm) ++ [j]
            else if c1 = true then cm ++ [j] else cm) = cmB at h
          have hsub : ∀ k ∈ cm, k ∈ cmB := by
            intro k hk
            subst hcmB
            split <;> split <;> simp [hk]
          simp only [bind, Except.bind] at h
          cases hp : pedF E.G foo bar with
          | error e => rw [hp] at h; cases h
          | ok l =>
            rw [hp] at h
            simp only at h
            cases hc : commitProd E.G.p (E.pt (getUi v)) (getRow C j) with
            | error e => rw [hc] at h; cases h
            | ok r =>
              rw [hc] at h
              simp only at h
              split at h
              · right; left
                exact ⟨_, _, getUi v, fun k hk => List.mem_append_left _ (hsub k hk), h,
                  fun _ => by simp⟩
              · rename_i hlr
                split at h
                · rename_i hw
                  right; right
                  refine ⟨_, _, foo, bar, hsub, ⟨l, r, hp, hw ▸ hc, ?_⟩, hw ▸ h⟩
                  simpa using hlr
                · rename_i hw
                  right; left
                  exact ⟨_, _, getUi v, hsub, h, fun e => absurd e hw⟩

theorem rvReadAnswers_mono (E : Env) (tag : Tag) (C : List (List Int)) (j f : Nat) (I : Inbox)
    (s sp : List Int) (cm an : List Nat) (I' : Inbox) (s' sp' : List Int) (cm' an' : List Nat)
    (h : rvReadAnswers E tag C j f I s sp cm an = .ok (I', s', sp', cm', an')) :
    ∀ k ∈ cm, k ∈ cm' := by
  induction f generalizing I s sp cm an with
  | zero =>
    simp only [rvReadAnswers, Except.ok.injEq, Prod.mk.injEq] at h
    obtain ⟨_, _, _, rfl, _⟩ := h
    exact fun _ h => h
  | succ f ih =>
    rcases rvReadAnswers_step E tag C j f I s sp cm an _ h with
      ⟨I1, cm1, an1, hR, hs, _⟩ | ⟨I3, cm1, who, hs, h', _⟩ | ⟨I3, cm1, foo, bar, hs, _, h'⟩
    · simp only [Prod.mk.injEq] at hR
      obtain ⟨_, _, _, rfl, _⟩ := hR
      exact hs
    · exact fun k hk => ih _ _ _ _ _ h' k (hs k hk)
    · exact fun k hk => ih _ _ _ _ _ h' k (hs k hk)

theorem rvReadAnswers_inv (E : Env) (tag : Tag) (C : List (List Int)) (j : Nat) (a b : Int) (f : Nat)
    (I : Inbox) (s sp : List Int) (cm an : List Nat) (I' : Inbox) (s' sp' : List Int) (cm' an' : List Nat)
    (hlen : s.length = sp.length)
    (h : rvReadAnswers E tag C j f I s sp cm an = .ok (I', s', sp', cm', an'))
    (hinv : (getI s j = a ∧ getI sp j = b) ∨ EqF E (getRow C j) (getI s j) (getI sp j)) :
    (getI s' j = a ∧ getI sp' j = b) ∨ EqF E (getRow C j) (getI s' j) (getI sp' j) := by
  induction f generalizing I s sp cm an with
  | zero =>
    simp only [rvReadAnswers, Except.ok.injEq, Prod.mk.injEq] at h
    obtain ⟨_, rfl, rfl, _⟩ := h
    exact hinv
  | succ f ih =>
    rcases rvReadAnswers_step E tag C j f I s sp cm an _ h with
      ⟨I1, cm1, an1, hR, hs, _⟩ | ⟨I3, cm1, who, hs, h', _⟩ | ⟨I3, cm1, foo, bar, hs, he, h'⟩
    · simp only [Prod.mk.injEq] at hR
      obtain ⟨_, rfl, rfl, _⟩ := hR
      exact hinv
    · exact ih _ _ _ _ _ hlen h' hinv
    · apply ih _ _ _ _ _ (by simp [hlen]) h'
      by_cases hjl : j < s.length
      · right
        rw [rv_getI_set_self _ _ _ hjl, rv_getI_set_self _ _ _ (hlen ▸ hjl)]
        exact he
      · rw [List.set_eq_of_length_le (Nat.le_of_not_lt hjl),
          List.set_eq_of_length_le (hlen ▸ Nat.le_of_not_lt hjl)]
        exact hinv

/-- the answers of dealer `j` never touch the shares held from other dealers -/
theorem rvReadAnswers_other (E : Env) (tag : Tag) (C : List (List Int)) (j f : Nat) (I : Inbox)
    (s sp : List Int) (cm an : List Nat) (I' : Inbox) (s' sp' : List Int) (cm' an' : List Nat)
    (h : rvReadAnswers E tag C j f I s sp cm an = .ok (I', s', sp', cm', an')) (k : Nat) (hk : k ≠ j) :
    getI s' k = getI s k ∧ getI sp' k = getI sp k := by
  induction f generalizing I s sp cm an with
  | zero =>
    simp only [rvReadAnswers, Except.ok.injEq, Prod.mk.injEq] at h
    obtain ⟨_, rfl, rfl, _⟩ := h
    exact ⟨rfl, rfl⟩
  | succ f ih =>
    rcases rvReadAnswers_step E tag C j f I s sp cm an _ h with
      ⟨I1, cm1, an1, hR, hs, _⟩ | ⟨I3, cm1, who, hs, h', _⟩ | ⟨I3, cm1, foo, bar, hs, _, h'⟩
    · simp only [Prod.mk.injEq] at hR
      obtain ⟨_, rfl, rfl, _⟩ := hR
      exact ⟨rfl, rfl⟩
    · exact ih _ _ _ _ _ h'
    · have := ih _ _ _ _ _ h'
      rw [rv_getI_set_ne _ _ _ _ hk, rv_getI_set_ne _ _ _ _ hk] at this
      exact this

theorem rvReadAnswers_length (E : Env) (tag : Tag) (C : List (List Int)) (j f : Nat) (I : Inbox)
    (s sp : List Int) (cm an : List Nat) (I' : Inbox) (s' sp' : List Int) (cm' an' : List Nat)
    (h : rvReadAnswers E tag C j f I s sp cm an = .ok (I', s', sp', cm', an')) :
    s'.length = s.length ∧ sp'.length = sp.length := by
  induction f generalizing I s sp cm an with
  | zero =>
    simp only [rvReadAnswers, Except.ok.injEq, Prod.mk.injEq] at h
    obtain ⟨_, rfl, rfl, _⟩ := h
    exact ⟨rfl, rfl⟩
  | succ f ih =>
    rcases rvReadAnswers_step E tag C j f I s sp cm an _ h with
      ⟨I1, cm1, an1, hR, hs, _⟩ | ⟨I3, cm1, who, hs, h', _⟩ | ⟨I3, cm1, foo, bar, hs, _, h'⟩
    · simp only [Prod.mk.injEq] at hR
      obtain ⟨_, rfl, rfl, _⟩ := hR
      exact ⟨rfl, rfl⟩
    · exact ih _ _ _ _ _ h'
    · have := ih _ _ _ _ _ h'
      simpa using this

/-- if dealer `j` answered the complaint of party `i` (the reader) and its answers do not disqualify
    it, the share the reader holds from `j` afterwards satisfies equation (1) -/
theorem rvReadAnswers_answered (E : Env) (tag : Tag) (C : List (List Int)) (j f : Nat) (I : Inbox)
    (s sp : List Int) (cm an : List Nat) (I' : Inbox) (s' sp' : List Int) (cm' an' : List Nat)
    (hlen : s.length = sp.length) (hjlen : j < s.length)
    (h : rvReadAnswers E tag C j f I s sp cm an = .ok (I', s', sp', cm', an')) (hj : j ∉ cm')
    (hinv : E.i ∈ an → EqF E (getRow C j) (getI s j) (getI sp j))
    (hans : E.i ∈ an') :
    EqF E (getRow C j) (getI s' j) (getI sp' j) := by
  induction f generalizing I s sp cm an with
  | zero =>
    simp only [rvReadAnswers, Except.ok.injEq, Prod.mk.injEq] at h
    obtain ⟨_, rfl, rfl, _, rfl⟩ := h
    exact hinv hans
  | succ f ih =>
    rcases rvReadAnswers_step E tag C j f I s sp cm an _ h with
      ⟨I1, cm1, an1, hR, hs, ha⟩ | ⟨I3, cm1, who, hs, h', hw⟩ | ⟨I3, cm1, foo, bar, hs, he, h'⟩
    · simp only [Prod.mk.injEq] at hR
      obtain ⟨_, rfl, rfl, rfl, rfl⟩ := hR
      rcases ha with ha | ⟨hjc, _⟩
      · rw [ha] at hans
        exact hinv hans
      · exact absurd hjc hj
    · refine ih _ _ _ _ _ hlen hjlen h' ?_
      intro hm
      rcases List.mem_append.1 hm with hm | hm
      · exact hinv hm
      · have : E.i = who := by simpa using hm
        exact absurd (rvReadAnswers_mono E tag C j f _ _ _ _ _ _ _ _ _ _ h' j (hw this.symm)) hj
    · refine ih _ _ _ _ _ (by simp [hlen]) (by simpa using hjlen) h' ?_
      intro _
      rw [rv_getI_set_self _ _ _ hjlen, rv_getI_set_self _ _ _ (hlen ▸ hjlen)]
      exact he

/-! ### step 1(d): the loop over the dealers -/

theorem rvResolveGo_step (E : Env) (tag : Tag) (rv : Rv) (k : Nat) (rest : List Nat) (I : Inbox)
    (s sp : List Int) (cm : List Nat) (R : Inbox × List Int × List Int × List Nat)
    (h : rvResolveGo E tag rv (k :: rest) I s sp cm = .ok R) :
    (k = E.i ∧ ∃ cm1, (∀ x ∈ cm, x ∈ cm1) ∧ rvResolveGo E tag rv rest I s sp cm1 = .ok R) ∨
    (k ≠ E.i ∧ ∃ cm0 I1 s1 sp1 cm1 an, (∀ x ∈ cm, x ∈ cm0) ∧
      rvReadAnswers E tag rv.C k (E.n + 1) I s sp cm0 [] = .ok (I1, s1, sp1, cm1, an) ∧
      rvResolveGo E tag rv rest I1 s1 sp1
        (cm1 ++ ((rv.complainers.getD k []).filter (fun c => !an.contains c)).map (fun _ => k)) = .ok R) := by
  simp only [rvResolveGo] at h
  have hsub : ∀ x ∈ cm, x ∈ (if getN rv.cnt k > E.t then cm ++ [k] else cm) := by
    intro x hx
    split
    · exact List.mem_append_left _ hx
    · exact hx
  generalize (if getN rv.cnt k > E.t then cm ++ [k] else cm) = cm0 at h hsub
  split at h
  · rename_i hk
    left
    exact ⟨hk, cm0, hsub, h⟩
  · rename_i hk
    right
    refine ⟨hk, cm0, ?_⟩
    simp only [bind, Except.bind] at h
    cases hr : rvReadAnswers E tag rv.C k (E.n + 1) I s sp cm0 [] with
    | error e => rw [hr] at h; cases h
    | ok R1 =>
      obtain ⟨I1, s1, sp1, cm1, an⟩ := R1
      rw [hr] at h
      exact ⟨_, _, _, _, _, hsub, rfl, h⟩

/-- step 1(d): complaints are only added -/
theorem rvResolveGo_mono (E : Env) (tag : Tag) (rv : Rv) (idx : List Nat) (I : Inbox) (s sp : List Int)
    (cm : List Nat) (I' : Inbox) (s' sp' : List Int) (cm' : List Nat)
    (h : rvResolveGo E tag rv idx I s sp cm = .ok (I', s', sp', cm')) :
    ∀ j ∈ cm, j ∈ cm' := by
  induction idx generalizing I s sp cm with
  | nil =>
    simp only [rvResolveGo, Except.ok.injEq, Prod.mk.injEq] at h
    obtain ⟨_, _, _, rfl⟩ := h
    exact fun _ hx => hx
  | cons k rest ih =>
    rcases rvResolveGo_step E tag rv k rest I s sp cm _ h with
      ⟨_, cm1, hs, h'⟩ | ⟨_, cm0, I1, s1, sp1, cm1, an, hs, hr, h'⟩
    · exact fun x hx => ih _ _ _ _ h' x (hs x hx)
    · exact fun x hx => ih _ _ _ _ h' x
        (List.mem_append_left _ (rvReadAnswers_mono E tag rv.C k _ _ _ _ _ _ _ _ _ _ _ hr x (hs x hx)))

/-- step 1(d): the shares of dealers outside `idx` are not touched -/
theorem rvResolveGo_other (E : Env) (tag : Tag) (rv : Rv) (idx : List Nat) (I : Inbox) (s sp : List Int)
    (cm : List Nat) (I' : Inbox) (s' sp' : List Int) (cm' : List Nat)
    (h : rvResolveGo E tag rv idx I s sp cm = .ok (I', s', sp', cm'))
    (j : Nat) (hj : j ∉ idx) : getI s' j = getI s j ∧ getI sp' j = getI sp j := by
  induction idx generalizing I s sp cm with
  | nil =>
    simp only [rvResolveGo, Except.ok.injEq, Prod.mk.injEq] at h
    obtain ⟨_, rfl, rfl, _⟩ := h
    exact ⟨rfl, rfl⟩
  | cons k rest ih =>
    have hjk : j ≠ k := fun e => hj (e ▸ List.mem_cons_self)
    have hjr : j ∉ rest := fun e => hj (List.mem_cons_of_mem _ e)
    rcases rvResolveGo_step E tag rv k rest I s sp cm _ h with
      ⟨_, cm1, _, h'⟩ | ⟨_, cm0, I1, s1, sp1, cm1, an, _, hr, h'⟩
    · exact ih _ _ _ _ h' hjr
    · have h1 := ih _ _ _ _ h' hjr
      have h2 := rvReadAnswers_other E tag rv.C k _ _ _ _ _ _ _ _ _ _ _ hr j hjk
      exact ⟨h1.1.trans h2.1, h1.2.trans h2.2⟩

/-- step 1(d): a share is either left alone or replaced by a published one that satisfies equation (1) -/
theorem rvResolveGo_share_kept_or_valid (E : Env) (tag : Tag) (rv : Rv) (idx : List Nat) (hnd : idx.Nodup)
    (I : Inbox) (s sp : List Int) (cm : List Nat) (I' : Inbox) (s' sp' : List Int) (cm' : List Nat)
    (hlen : s.length = sp.length)
    (h : rvResolveGo E tag rv idx I s sp cm = .ok (I', s', sp', cm'))
    (j : Nat) (hjlen : j < s.length) :
    (getI s' j = getI s j ∧ getI sp' j = getI sp j) ∨
      EqF E (getRow rv.C j) (getI s' j) (getI sp' j) := by
  induction idx generalizing I s sp cm with
  | nil =>
    simp only [rvResolveGo, Except.ok.injEq, Prod.mk.injEq] at h
    obtain ⟨_, rfl, rfl, _⟩ := h
    exact Or.inl ⟨rfl, rfl⟩
  | cons k rest ih =>
    have hnd' : rest.Nodup := (List.nodup_cons.1 hnd).2
    have hkr : k ∉ rest := (List.nodup_cons.1 hnd).1
    rcases rvResolveGo_step E tag rv k rest I s sp cm _ h with
      ⟨_, cm1, _, h'⟩ | ⟨_, cm0, I1, s1, sp1, cm1, an, _, hr, h'⟩
    · exact ih hnd' _ _ _ _ hlen h' hjlen
    · obtain ⟨hl1, hl2⟩ := rvReadAnswers_length E tag rv.C k _ _ _ _ _ _ _ _ _ _ _ hr
      by_cases hjk : j = k
      · subst hjk
        obtain ⟨e1, e2⟩ := rvResolveGo_other E tag rv _ _ _ _ _ _ _ _ _ h' j hkr
        rw [e1, e2]
        exact rvReadAnswers_inv E tag rv.C j _ _ _ _ _ _ _ _ _ _ _ _ _ hlen hr (Or.inl ⟨rfl, rfl⟩)
      · obtain ⟨e1, e2⟩ := rvReadAnswers_other E tag rv.C k _ _ _ _ _ _ _ _ _ _ _ hr j hjk
        rw [← e1, ← e2]
        exact ih hnd' _ _ _ _ (by rw [hl1, hl2, hlen]) h' (by rw [hl1]; exact hjlen)

/-- **step 1(d), code after e60796f**: for every dealer `j ≠ i` in `idx` that is not disqualified and
    that party `i` complained about in step 1(b) (`i ∈ complainers[j]`), the share `i` holds from `j`
    after step 1(d) satisfies equation (1) -/
theorem rvResolveGo_share_valid (E : Env) (tag : Tag) (rv : Rv) (idx : List Nat) (hnd : idx.Nodup)
    (I : Inbox) (s sp : List Int) (cm : List Nat) (I' : Inbox) (s' sp' : List Int) (cm' : List Nat)
    (hlen : s.length = sp.length)
    (h : rvResolveGo E tag rv idx I s sp cm = .ok (I', s', sp', cm'))
    (j : Nat) (hjidx : j ∈ idx) (hji : j ≠ E.i) (hjlen : j < s.length) (hj : j ∉ cm')
    (hcompl : E.i ∈ rv.complainers.getD j []) :
    EqF E (getRow rv.C j) (getI s' j) (getI sp' j) := by
  induction idx generalizing I s sp cm with
  | nil => cases hjidx
  | cons k rest ih =>
    have hnd' : rest.Nodup := (List.nodup_cons.1 hnd).2
    have hkr : k ∉ rest := (List.nodup_cons.1 hnd).1
    rcases rvResolveGo_step E tag rv k rest I s sp cm _ h with
      ⟨hk, cm1, _, h'⟩ | ⟨_, cm0, I1, s1, sp1, cm1, an, _, hr, h'⟩
    · have hjk : j ≠ k := fun e => hji (e.trans hk)
      have hjr : j ∈ rest := by
        rcases List.mem_cons.1 hjidx with e | e
        · exact absurd e hjk
        · exact e
      exact ih hnd' _ _ _ _ hlen h' hjr hjlen
    · obtain ⟨hl1, hl2⟩ := rvReadAnswers_length E tag rv.C k _ _ _ _ _ _ _ _ _ _ _ hr
      by_cases hjk : j = k
      · subst hjk
        have hjn : j ∉ cm1 ++ ((rv.complainers.getD j []).filter (fun c => !an.contains c)).map (fun _ => j) :=
          fun e => hj (rvResolveGo_mono E tag rv _ _ _ _ _ _ _ _ _ h' j e)
        have hans : E.i ∈ an := by
          refine Classical.byContradiction fun hn => hjn (List.mem_append_right _ ?_)
          exact List.mem_map.2 ⟨E.i, List.mem_filter.2 ⟨hcompl, by simpa using hn⟩, rfl⟩
        have hv := rvReadAnswers_answered E tag rv.C j _ _ _ _ _ _ _ _ _ _ _ hlen hjlen hr
          (fun e => hjn (List.mem_append_left _ e)) (fun hm => by cases hm) hans
        obtain ⟨e1, e2⟩ := rvResolveGo_other E tag rv _ _ _ _ _ _ _ _ _ h' j hkr
        rw [e1, e2]
        exact hv
      · have hjr : j ∈ rest := by
          rcases List.mem_cons.1 hjidx with e | e
          · exact absurd e hjk
          · exact e
        exact ih hnd' _ _ _ _ (by rw [hl1, hl2, hlen]) h' hjr (by rw [hl1]; exact hjlen)

/-- `rvResolve` unfolded: the loop of step 1(d), then QUAL and the share -/
theorem rvResolve_spec (E : Env) (tag : Tag) (rv rv' : Rv) (I I' : Inbox)
    (h : rvResolve E tag rv I = .ok (rv', I')) :
    ∃ I1 s sp cm, rvResolveGo E tag rv (List.range E.n) I rv.s rv.sp rv.compl = .ok (I1, s, sp, cm) ∧
      rv'.s = s ∧ rv'.sp = sp ∧ rv'.qual = (List.range E.n).filter (fun j => !cm.contains j) ∧
      rv'.C = rv.C ∧ rv'.x = sumMod E.G.q rv'.s rv'.qual ∧ rv'.xp = sumMod E.G.q rv'.sp rv'.qual ∧
      rv'.ret = some (rv'.qual.contains E.i && decide (rv'.qual.length > E.t)) := by
  simp only [rvResolve, bind, Except.bind] at h
  cases hg : rvResolveGo E tag rv (List.range E.n) I rv.s rv.sp rv.compl with
  | error e => rw [hg] at h; cases h
  | ok R =>
    obtain ⟨I1, s, sp, cm⟩ := R
    rw [hg] at h
    simp only [pure, Except.pure, Except.ok.injEq, Prod.mk.injEq] at h
    obtain ⟨rfl, _⟩ := h
    exact ⟨I1, s, sp, cm, rfl, rfl, rfl, rfl, rfl, rfl, rfl, rfl⟩

/-- shape of the state `rvDeal` produces (all that `rvShare_checked` needs about the first state) -/
structure RvShape (E : Env) (rv : Rv) : Prop where
  hi : E.i < E.n
  hC : rv.C.length = E.n
  hs : rv.s.length = E.n
  hsp : rv.sp.length = E.n

/-! ### the steps before 1(d) -/

theorem rvReadShares_length (E : Env) (idx : List Nat) (I : Inbox) (s sp : List Int) (cm : List Nat) :
    (rvReadShares E idx I s sp cm).2.1.length = s.length ∧
    (rvReadShares E idx I s sp cm).2.2.1.length = sp.length := by
  induction idx generalizing I s sp cm with
  | nil => exact ⟨rfl, rfl⟩
  | cons j rest ih =>
    unfold rvReadShares
    split
    · exact ih _ _ _ _
    · split
      · exact ih _ _ _ _
      · simp only
        split
        · exact ⟨by rw [(ih _ _ _ _).1, List.length_set], by rw [(ih _ _ _ _).2]⟩
        · exact ⟨by rw [(ih _ _ _ _).1, List.length_set], by rw [(ih _ _ _ _).2, List.length_set]⟩

theorem rv_cps_set_mono (cps : List (List Nat)) (who j k c : Nat) (h : c ∈ cps.getD k []) :
    c ∈ (cps.set who (cps.getD who [] ++ [j])).getD k [] := by
  by_cases hk : k = who
  · subst hk
    by_cases hl : k < cps.length
    · simp only [List.getD_eq_getElem?_getD, List.getElem?_set_self hl, Option.getD_some]
      exact List.mem_append_left _ (by simpa [List.getD_eq_getElem?_getD] using h)
    · rw [List.set_eq_of_length_le (Nat.le_of_not_lt hl)]
      exact h
  · simpa [List.getD_eq_getElem?_getD, Ne.symm hk] using h

/-- step 1(c) only appends to the lists of complainers -/
theorem rvReadComplaints_cps (E : Env) (tag : Tag) (j f it : Nat) (dup : List Nat) (I : Inbox)
    (cnt cf cm : List Nat) (cps : List (List Nat)) (k c : Nat) (h : c ∈ cps.getD k []) :
    c ∈ (rvReadComplaints E tag j f it dup I cnt cf cm cps).2.2.2.2.getD k [] := by
  induction f generalizing it dup I cnt cf cm cps with
  | zero => exact h
  | succ f ih =>
    unfold rvReadComplaints
    split
    · exact h
    · simp only
      split
      · split
        · exact ih _ _ _ _ _ _ _ (rv_cps_set_mono _ _ _ _ _ h)
        · exact rv_cps_set_mono _ _ _ _ _ h
      · split
        · split
          · exact ih _ _ _ _ _ _ _ h
          · exact h
        · exact h

theorem rvCollectGo_cps (E : Env) (tag : Tag) (idx : List Nat) (I : Inbox)
    (cnt cf cm : List Nat) (cps : List (List Nat)) (k c : Nat) (h : c ∈ cps.getD k []) :
    c ∈ (rvCollectGo E tag idx I cnt cf cm cps).2.2.2.2.getD k [] := by
  induction idx generalizing I cnt cf cm cps with
  | nil => exact h
  | cons j rest ih =>
    unfold rvCollectGo
    split
    · exact ih _ _ _ _ _ h
    · have h1 := rvReadComplaints_cps E tag j (E.n + 1) 0 [] I cnt cf cm cps k c h
      generalize rvReadComplaints E tag j (E.n + 1) 0 [] I cnt cf cm cps = r at h1
      obtain ⟨I1, cnt1, cf1, cm1, cps1⟩ := r
      exact ih _ _ _ _ _ h1

theorem rvCollect_spec (E : Env) (tag : Tag) (rv rv' : Rv) (I I' : Inbox) (ops : List Op)
    (h : rvCollect E tag rv I = (rv', I', ops)) :
    rv'.C = rv.C ∧ rv'.s = rv.s ∧ rv'.sp = rv.sp ∧
      ∀ k c, c ∈ rv.complainers.getD k [] → c ∈ rv'.complainers.getD k [] := by
  unfold rvCollect at h
  have h1 := fun k c => rvCollectGo_cps E tag (List.range E.n) I rv.cnt [] [] rv.complainers k c
  generalize rvCollectGo E tag (List.range E.n) I rv.cnt [] [] rv.complainers = r at h h1
  obtain ⟨I1, cnt, cf, cm, cps⟩ := r
  simp only [Prod.mk.injEq] at h
  obtain ⟨rfl, _, _⟩ := h
  exact ⟨rfl, rfl, rfl, h1⟩

theorem rvVerify_spec (E : Env) (tag : Tag) (rv rv' : Rv) (I I' : Inbox) (ops : List Op)
    (h : rvVerify E tag rv I = .ok (rv', I', ops)) :
    ∃ cm2 cm3, rvCheck E rv.zero rv'.C rv'.s rv'.sp (List.range E.n) cm2 = .ok cm3 ∧
      rv'.complainers = (List.range E.n).map
        (fun j => if (sortUniq E.n cm3).contains j then [E.i] else []) ∧
      rv'.s.length = rv.s.length ∧ rv'.sp.length = rv.sp.length := by
  unfold rvVerify at h
  generalize rvReadC E tag (List.range E.n) I rv.C [] = rc at h
  obtain ⟨I1, C, cm1⟩ := rc
  simp only at h
  have hl := rvReadShares_length E (List.range E.n) I1 rv.s rv.sp cm1
  generalize rvReadShares E (List.range E.n) I1 rv.s rv.sp cm1 = rs at h hl
  obtain ⟨I2, s, sp, cm2⟩ := rs
  simp only [bind, Except.bind] at h
  cases hck : rvCheck E rv.zero C s sp (List.range E.n) cm2 with
  | error e => rw [hck] at h; cases h
  | ok cm3 =>
    rw [hck] at h
    simp only [pure, Except.pure, Except.ok.injEq, Prod.mk.injEq] at h
    obtain ⟨rfl, _, _⟩ := h
    exact ⟨cm2, cm3, hck, rfl, hl.1, hl.2⟩

/-- **"A dealer with inconsistent shares is disqualified or forced to publish consistent ones."**
    Party `i` runs the three receiving steps of `Share` on ARBITRARY inboxes `I0 I1 I2`.  Then for every
    dealer `j ≠ i` of its set QUAL the share `(s_ji, s'_ji)` it ends with satisfies equation (1) against
    the commitments `C_jk` it holds — as tested in step 1(b) or, if it had to complain, as published by
    the dealer in step 1(c).  (For `j = i` the party's own polynomial: `rvDeal`.) -/
theorem rvShare_checked (E : Env) (tag : Tag) (rv0 rv1 rv2 rv3 : Rv) (I0 I0' I1 I1' I2 I2' : Inbox)
    (ops1 ops2 : List Op) (hsh : RvShape E rv0)
    (h1 : rvVerify E tag rv0 I0 = .ok (rv1, I0', ops1))
    (h2 : rvCollect E tag rv1 I1 = (rv2, I1', ops2))
    (h3 : rvResolve E tag rv2 I2 = .ok (rv3, I2')) :
    ∀ j ∈ rv3.qual, j ≠ E.i →
      EqS E (getRow rv3.C j) (getI rv3.s j) (getI rv3.sp j) ∨
      EqF E (getRow rv3.C j) (getI rv3.s j) (getI rv3.sp j) := by
  obtain ⟨cm2, cm3, hck, hcps, hl1, hl1'⟩ := rvVerify_spec E tag rv0 rv1 I0 I0' ops1 h1
  obtain ⟨hC2, hs2, hsp2, hmono⟩ := rvCollect_spec E tag rv1 rv2 I1 I1' ops2 h2
  obtain ⟨I3, s, sp, cm, hgo, hs3, hsp3, hq3, hC3, _, _, _⟩ := rvResolve_spec E tag rv2 rv3 I2 I2' h3
  intro j hjq hji
  rw [hq3] at hjq
  obtain ⟨hjr, hjcm⟩ := List.mem_filter.1 hjq
  have hjn : j < E.n := List.mem_range.1 hjr
  have hjcm' : j ∉ cm := by simpa using hjcm
  have hlen : rv2.s.length = rv2.sp.length := by rw [hs2, hsp2, hl1, hl1', hsh.hs, hsh.hsp]
  have hjlen : j < rv2.s.length := by rw [hs2, hl1, hsh.hs]; exact hjn
  rw [hC3, hs3, hsp3]
  by_cases hc : j ∈ cm3
  · right
    refine rvResolveGo_share_valid E tag rv2 _ List.nodup_range I2 _ _ _ _ _ _ _ hlen hgo j hjr hji
      hjlen hjcm' (hmono j E.i ?_)
    have hsu : j ∈ sortUniq E.n cm3 :=
      List.mem_filter.2 ⟨hjr, by simpa using hc⟩
    rw [hcps]
    simp [List.getD_eq_getElem?_getD, hjn, hsu]
  · obtain ⟨_, hsnd⟩ := rvCheck_sound E rv0.zero rv1.C rv1.s rv1.sp _ _ _ hck
    have hS := (hsnd j hjr hc).1
    rcases rvResolveGo_share_kept_or_valid E tag rv2 _ List.nodup_range I2 _ _ _ _ _ _ _ hlen hgo j hjlen with
      ⟨e1, e2⟩ | hF
    · left
      rw [e1, e2, hC2, hs2, hsp2]
      exact hS
    · right
      exact hF

/-- the share and its companion are the sums over QUAL (definition of `rvResolve`) -/
theorem rvResolve_x (E : Env) (tag : Tag) (rv rv' : Rv) (I I' : Inbox)
    (h : rvResolve E tag rv I = .ok (rv', I')) :
    rv'.x = sumMod E.G.q rv'.s rv'.qual ∧ rv'.xp = sumMod E.G.q rv'.sp rv'.qual ∧
      rv'.ret = some (rv'.qual.contains E.i && decide (rv'.qual.length > E.t)) ∧ rv'.C = rv.C := by
  obtain ⟨_, _, _, _, _, _, _, _, hC, hx, hxp, hret⟩ := rvResolve_spec E tag rv rv' I I' h
  exact ⟨hx, hxp, hret, hC⟩

variable {G : Dkg.Grp} [Fact (Nat.Prime G.p.natAbs)]

set_option linter.unusedSectionVars false

theorem rv_h_zpow_listSum (hG : ValidGrp G) (l : List Int) :
    cp G G.h ^ l.sum = (l.map (fun e => cp G G.h ^ e)).prod := by
  induction l with
  | nil => simp
  | cons a l ih => simp only [List.sum_cons, List.map_cons, List.prod_cons, zpow_add₀ (pl_h_unit hG), ih]

omit [Fact (Nat.Prime G.p.natAbs)] in
theorem rv_prod_map_mul {R : Type} [CommMonoid R] (l : List Nat) (f g : Nat → R) :
    (l.map f).prod * (l.map g).prod = (l.map (fun j => f j * g j)).prod := by
  induction l with
  | nil => simp
  | cons a l ih => simp only [List.map_cons, List.prod_cons, ← ih, mul_mul_mul_comm]

/-- **"Shares match the verification values."**  If for every dealer `j` of QUAL the pair
    `(s_j, s'_j)` satisfies `g^{s_j} h^{s'_j} = ∏_k C_jk^{x^k}` (in the field; `x = i + 1` the party's
    evaluation point), then the share `x_i = Σ_{QUAL} s_j mod q`, `x'_i = Σ_{QUAL} s'_j mod q` satisfies
    `g^{x_i} h^{x'_i} = ∏_{j ∈ QUAL} ∏_k C_jk^{x^k}` — the check `DSS::Sign` relies on (its `β_i`). -/
theorem rv_share_matches_commitments (hG : ValidGrp G) (qual : List Nat) (C : List (List Int)) (s sp : List Int)
    (x : Nat)
    (h1 : ∀ j ∈ qual, cp G G.g ^ (getI s j) * cp G G.h ^ (getI sp j) =
      powProdFrom x 0 ((getRow C j).map (cp G))) :
    cp G G.g ^ (sumMod G.q s qual) * cp G G.h ^ (sumMod G.q sp qual) =
      (qual.map (fun j => powProdFrom x 0 ((getRow C j).map (cp G)))).prod := by
  obtain ⟨hs, _, _⟩ := sumMod_val (G := G) hG.vg.q_pos s qual
  obtain ⟨hsp, _, _⟩ := sumMod_val (G := G) hG.vg.q_pos sp qual
  have hc : cq G (sumMod G.q s qual) = cq G ((qual.map (fun j => getI s j)).sum) := by
    rw [hs, pl_cq_listSum, List.map_map]
    rfl
  have hc' : cq G (sumMod G.q sp qual) = cq G ((qual.map (fun j => getI sp j)).sum) := by
    rw [hsp, pl_cq_listSum, List.map_map]
    rfl
  rw [g_zpow_congr hG _ _ hc, h_zpow_congr hG _ _ hc', pl_g_zpow_listSum hG, rv_h_zpow_listSum hG,
    List.map_map, List.map_map, rv_prod_map_mul]
  congr 1
  apply List.map_congr_left
  intro j hj
  exact h1 j hj

omit [Fact (Nat.Prime G.p.natAbs)] in
/-- rows whose index is not hit by the fold are untouched -/
theorem rv_foldl_set_other (g : Nat → Nat) (F : List (List Int) → Nat → List Int) (l : List Nat)
    (C0 : List (List Int)) (it : Nat) (hit : it ∉ l.map g) :
    getRow (l.foldl (fun C j => C.set (g j) (F C j)) C0) it = getRow C0 it := by
  induction l generalizing C0 with
  | nil => rfl
  | cons a l ih =>
    simp only [List.map_cons, List.mem_cons, not_or] at hit
    simp only [List.foldl_cons]
    rw [ih _ hit.2, rv_getRow_set_ne _ _ _ _ hit.1]

omit [Fact (Nat.Prime G.p.natAbs)] in
theorem rv_cq_foldl_sub (s : List Int) (l : List Nat) (a : Int) :
    cq G (l.foldl (fun acc j => acc - getI s j) a) = cq G a - (l.map (fun j => cq G (getI s j))).sum := by
  induction l generalizing a with
  | nil => simp
  | cons j l ih =>
    simp only [List.foldl_cons, List.map_cons, List.sum_cons, ih]
    simp only [cq, Int.cast_sub]
    ring

omit [Fact (Nat.Prime G.p.natAbs)] in
theorem rv_sum_filter_split {R : Type} [AddCommMonoid R] (l : List Nat) (f : Nat → R) (keep : Nat → Bool) :
    (l.map f).sum = ((l.filter keep).map f).sum + ((l.filter (fun j => !keep j)).map f).sum := by
  induction l with
  | nil => simp
  | cons a l ih =>
    cases hk : keep a
    · simp [hk, ih, add_left_comm]
    · simp [hk, ih, add_assoc]

omit [Fact (Nat.Prime G.p.natAbs)] in
/-- **The adjusted share of the sharing of zero** (repair a457dd1): subtracting (without reduction) the
    shares of the dealers that are not admitted from `x_i = Σ_{QUAL} s_j mod q` leaves a value that is
    congruent mod `q` to the sum of the shares of the admitted dealers.  (`qual.Nodup` is not needed.) -/
theorem ref_zx_cong (hq : 0 < G.q) (qual : List Nat) (keep : Nat → Bool) (s : List Int) :
    cq G ((qual.filter (fun j => !keep j)).foldl (fun acc j => acc - getI s j) (sumMod G.q s qual)) =
      ((qual.filter keep).map (fun j => cq G (getI s j))).sum := by
  have hs : cq G (sumMod G.q s qual) = (qual.map (fun j => cq G (getI s j))).sum := by
    have h := (pl_sumMod_aux (G := G) hq s qual 0 ⟨le_refl _, hq⟩).1
    rw [cq_zero, zero_add] at h
    exact h
  rw [rv_cq_foldl_sub, hs, rv_sum_filter_split qual (fun j => cq G (getI s j)) keep]
  ring

/-- **The last round of `Refresh`** (code after the repair a457dd1).  When the call returns `true` for a
    party that does not use the `simulate_faulty_behaviour` switch: the dealers of the joint sharing of
    zero that are not in the current `QUAL` are dropped (`zq` = the admitted ones), their shares are
    subtracted again from the party's share of the sharing (`zx`, `zxp`), the new share is the old one
    plus `zx`, `QUAL` becomes the set of admitted dealers (as key generation indices), and the
    commitments of these dealers are multiplied coefficient by coefficient; nothing else changes — in
    particular the public key `y` is no member of the state the call works on. -/
theorem refRound_update (G : Dkg.Grp) (weak : List Nat) (strong : List Int) (st st' : RSt) (I I' : Inbox)
    (hsfb : st.sfb = false)
    (h : refRound G weak strong 3 st I = .ok (.done st' I' true)) :
    st'.x = (st.x + st'.zx) % G.q ∧ st'.xp = (st.xp + st'.zxp) % G.q ∧
    st'.zq = st'.zr.qual.filter (fun j => st.qual.contains (getN st.sub j)) ∧
    st'.zx = (st'.zr.qual.filter (fun j => !st.qual.contains (getN st.sub j))).foldl
      (fun acc j => acc - getI st'.zr.s j) st'.zr.x ∧
    st'.zxp = (st'.zr.qual.filter (fun j => !st.qual.contains (getN st.sub j))).foldl
      (fun acc j => acc - getI st'.zr.sp j) st'.zr.xp ∧
    st'.zr.x = sumMod G.q st'.zr.s st'.zr.qual ∧ st'.zr.xp = sumMod G.q st'.zr.sp st'.zr.qual ∧
    st'.qual = st'.zq.map (fun j => getN st.sub j) ∧
    st'.zr.ret = some true ∧
    (∀ it, it ∉ st'.qual → getRow st'.C it = getRow st.C it) := by
  simp only [refRound, show (3 : Nat) ≠ 0 by decide, show (3 : Nat) ≠ 1 by decide,
    show (3 : Nat) ≠ 2 by decide, if_false, bind, Except.bind] at h
  cases hr : rvResolve (st.env G) (tagZ st.sub.length) st.zr I with
  | error e => rw [hr] at h; cases h
  | ok R =>
    obtain ⟨zr, I1⟩ := R
    rw [hr] at h
    obtain ⟨hx, hxp, hret, _⟩ := rvResolve_x _ _ _ _ _ _ hr
    simp only [hsfb, Bool.false_and, pure, Except.pure] at h
    split at h
    · simp at h
    · rename_i hrt
      simp only [Bool.false_eq_true, if_false, Int.add_zero, Except.ok.injEq, ROut.done.injEq] at h
      obtain ⟨rfl, _, _⟩ := h
      have hrt' : zr.ret = some true := by simpa using hrt
      refine ⟨rfl, rfl, rfl, rfl, rfl, hx, hxp, rfl, hrt', ?_⟩
      intro it hit
      exact rv_foldl_set_other _ _ _ _ _ hit

end Tmcg.CgjkrP
