import TmcgProofs.ArgsVrheAlg
/-
  C03 for the rotation argument, part 2: specifications of the blocks of prover and verifier
  (what they read, draw, write and return), and the completeness theorems of the three modes.
-/
namespace Tmcg.Args
open Tmcg Tmcg.Powm Tmcg.Vtmf Tmcg.Grp Tmcg.Sigma Tmcg.SigmaComplete
variable {G : Group} [Fact (Nat.Prime G.p.natAbs)]

set_option linter.unusedVariables false
set_option linter.unusedSectionVars false

theorem getD_map_range {β} (f : ℕ → β) (n i : ℕ) (d : β) (hi : i < n) :
    ((List.range n).map f).getD i d = f i := by
  rw [List.getD_eq_getElem _ _ (by simpa using hi)]
  simp

/-- `α_{k-r}` -/
def arOf (n r : ℕ) (alpha : List ℤ) (i : ℕ) : ℤ := alpha.getD (subMod n r i) 0

/-- all entries of a list of draws lie in `[0, q)` -/
def InQ (q : ℤ) (l : List ℤ) : Prop := ∀ x ∈ l, 0 ≤ x ∧ x < q

theorem InQ.getD {q : ℤ} {l : List ℤ} (h : InQ q l) (hq : 0 < q) (i : ℕ) :
    0 ≤ l.getD i 0 ∧ l.getD i 0 < q := by
  by_cases hi : i < l.length
  · rw [List.getD_eq_getElem _ _ hi]; exact h _ (List.getElem_mem hi)
  · rw [List.getD_eq_default _ _ (by omega)]; exact ⟨le_refl _, hq⟩

structure Move2Ok (G : Group) [Fact (Nat.Prime G.p.natAbs)] (S : State) (n r : ℕ) (s : List ℤ)
    (Y : List Card) (alpha ut opm : List ℤ) (x : VrheCtx) : Prop where
  ar_eq : x.ar = (List.range n).map (arOf n r alpha)
  ut_eq : x.ut = ut
  opm_eq : x.opm = opm
  lhk : x.hk.length = n
  lAk : x.Ak.length = n
  lfk : x.fk.length = n
  lFk : x.Fk.length = n
  v_eq : x.v = (List.range n).foldl (fun acc i =>
    (acc + (arOf n r alpha i * s.getD i 0 % G.q + ut.getD (2 * i + 1) 0) % G.q) % G.q) 0
  hk : ∀ i < n, Val G (x.hk.getD i 0)
    (toF G G.g ^ arOf n r alpha i * toF G S.h ^ ut.getD (2 * i) 0)
  Ak1 : ∀ i < n, Val G (x.Ak.getD i ⟨0, 0⟩).c1
    (toF G (Y.getD i ⟨0, 0⟩).c1 ^ arOf n r alpha i * toF G G.g ^ ut.getD (2 * i + 1) 0)
  Ak2 : ∀ i < n, Val G (x.Ak.getD i ⟨0, 0⟩).c2
    (toF G (Y.getD i ⟨0, 0⟩).c2 ^ arOf n r alpha i * toF G S.h ^ ut.getD (2 * i + 1) 0)
  fk : ∀ i < n, Val G (x.fk.getD i 0)
    (toF G G.g ^ opm.getD (3 * i) 0 * toF G S.h ^ opm.getD (3 * i + 1) 0)
  Fk1 : ∀ i < n, Val G (x.Fk.getD i ⟨0, 0⟩).c1
    (toF G (Y.getD i ⟨0, 0⟩).c1 ^ opm.getD (3 * i) 0 * toF G G.g ^ opm.getD (3 * i + 2) 0)
  Fk2 : ∀ i < n, Val G (x.Fk.getD i ⟨0, 0⟩).c2
    (toF G (Y.getD i ⟨0, 0⟩).c2 ^ opm.getD (3 * i) 0 * toF G S.h ^ opm.getD (3 * i + 2) 0)

theorem getD_map {α β} (f : α → β) (l : List α) (i : ℕ) (d : α) (d' : β) (hi : i < l.length) :
    (l.map f).getD i d' = f (l.getD i d) := by
  rw [List.getD_eq_getElem _ _ (by simpa using hi), List.getD_eq_getElem _ _ hi]
  simp

theorem vrheMove2_spec (hG : ValidGroup G) (S : State) (hS : StateOk G S) (r : ℕ) (s : List ℤ)
    (Y : List Card) (alpha ut opm rest : List ℤ) (peer : List (Option ℤ)) (sent : List ℤ) (tr : Bool)
    (hα : InQ G.q alpha) (hut : InQ G.q ut) (hopm : InQ G.q opm)
    (lut : ut.length = 2 * s.length) (lopm : opm.length = 3 * s.length)
    (hY : ∀ i < s.length, toF G (Y.getD i ⟨0, 0⟩).c1 ≠ 0 ∧ toF G (Y.getD i ⟨0, 0⟩).c2 ≠ 0) :
    ∃ x, vrheMove2 S r s Y alpha ⟨peer, ut ++ (opm ++ rest), sent, tr⟩ =
        .ok x ⟨peer, rest, sent ++ x.hk ++ flatCards x.Ak ++ [x.v] ++ x.fk ++ flatCards x.Fk, tr⟩ ∧
      Move2Ok G S s.length r s Y alpha ut opm x := by
  have hq := hG.q_pos
  have hr1 : ∀ i, (arOf s.length r alpha i).natAbs < G.q.natAbs := fun i =>
    natAbs_lt_of_range hG (hα.getD hq _)
  have hr2 : ∀ i, (ut.getD i 0).natAbs < G.q.natAbs := fun i => natAbs_lt_of_range hG (hut.getD hq _)
  have hr3 : ∀ i, (opm.getD i 0).natAbs < G.q.natAbs := fun i => natAbs_lt_of_range hG (hopm.getD hq _)
  obtain ⟨first, hfirst, lfirst, pfirst⟩ := mapE_range
    (fun i => vrheCommit S (Y.getD i ⟨0, 0⟩)
      (((List.range s.length).map fun i => alpha.getD (subMod s.length r i) 0).getD i 0)
      (ut.getD (2 * i) 0) (ut.getD (2 * i + 1) 0))
    (fun i b => Val G b.1 (toF G G.g ^ arOf s.length r alpha i * toF G S.h ^ ut.getD (2 * i) 0) ∧
      Val G b.2.c1 (toF G (Y.getD i ⟨0, 0⟩).c1 ^ arOf s.length r alpha i * toF G G.g ^ ut.getD (2 * i + 1) 0) ∧
      Val G b.2.c2 (toF G (Y.getD i ⟨0, 0⟩).c2 ^ arOf s.length r alpha i * toF G S.h ^ ut.getD (2 * i + 1) 0))
    s.length (0, ⟨0, 0⟩) (by
      intro i hi
      rw [getD_map_range _ _ _ _ hi]
      obtain ⟨hk, A, h, v1, v2, v3⟩ := vrheCommit_val hG S hS (Y.getD i ⟨0, 0⟩)
        (arOf s.length r alpha i) (ut.getD (2 * i) 0) (ut.getD (2 * i + 1) 0) (hY i hi).1 (hY i hi).2
        (hr1 i) (hr2 _) (hr2 _)
      exact ⟨(hk, A), h, v1, v2, v3⟩)
  obtain ⟨second, hsecond, lsecond, psecond⟩ := mapE_range
    (fun i => vrheCommit S (Y.getD i ⟨0, 0⟩) (opm.getD (3 * i) 0) (opm.getD (3 * i + 1) 0)
      (opm.getD (3 * i + 2) 0))
    (fun i b => Val G b.1 (toF G G.g ^ opm.getD (3 * i) 0 * toF G S.h ^ opm.getD (3 * i + 1) 0) ∧
      Val G b.2.c1 (toF G (Y.getD i ⟨0, 0⟩).c1 ^ opm.getD (3 * i) 0 * toF G G.g ^ opm.getD (3 * i + 2) 0) ∧
      Val G b.2.c2 (toF G (Y.getD i ⟨0, 0⟩).c2 ^ opm.getD (3 * i) 0 * toF G S.h ^ opm.getD (3 * i + 2) 0))
    s.length (0, ⟨0, 0⟩) (by
      intro i hi
      obtain ⟨hk, A, h, v1, v2, v3⟩ := vrheCommit_val hG S hS (Y.getD i ⟨0, 0⟩)
        (opm.getD (3 * i) 0) (opm.getD (3 * i + 1) 0) (opm.getD (3 * i + 2) 0) (hY i hi).1 (hY i hi).2
        (hr3 _) (hr3 _) (hr3 _)
      exact ⟨(hk, A), h, v1, v2, v3⟩)
  refine ⟨⟨(List.range s.length).map fun i => alpha.getD (subMod s.length r i) 0, ut, opm,
    first.map fun x => x.1, first.map fun x => x.2,
    (List.range s.length).foldl (fun acc i =>
      (acc + (((List.range s.length).map fun i => alpha.getD (subMod s.length r i) 0).getD i 0 *
        s.getD i 0 % S.G.q + ut.getD (2 * i + 1) 0) % S.G.q) % S.G.q) 0,
    second.map fun x => x.1, second.map fun x => x.2⟩, ?_, ?_⟩
  · simp only [vrheMove2]
    rw [bind_ok (drawN_spec _ peer ut (opm ++ rest) sent tr lut)]
    rw [bind_ok (liftE_ok hfirst _)]
    rw [bind_ok (sendAll_apply _ _), bind_ok (sendAll_apply _ _), bind_ok (send_apply _ _)]
    rw [bind_ok (drawN_spec _ peer opm rest _ tr lopm)]
    rw [bind_ok (liftE_ok hsecond _)]
    rw [bind_ok (sendAll_apply _ _), bind_ok (sendAll_apply _ _)]
    rfl
  · refine ⟨rfl, rfl, rfl, by simp [lfirst], by simp [lfirst], by simp [lsecond], by simp [lsecond],
      ?_, ?_, ?_, ?_, ?_, ?_, ?_⟩
    · show List.foldl _ _ _ = List.foldl _ _ _
      apply List.foldl_ext
      intro acc i hi
      rw [getD_map_range _ _ _ _ (List.mem_range.mp hi), hS.grp]
      rfl
    · intro i hi
      have := (pfirst i hi).1
      rwa [← getD_map (fun x : ℤ × Card => x.1) first i (0, ⟨0, 0⟩) 0 (by omega)] at this
    · intro i hi
      have := (pfirst i hi).2.1
      rwa [← getD_map (fun x : ℤ × Card => x.2) first i (0, ⟨0, 0⟩) ⟨0, 0⟩ (by omega)] at this
    · intro i hi
      have := (pfirst i hi).2.2
      rwa [← getD_map (fun x : ℤ × Card => x.2) first i (0, ⟨0, 0⟩) ⟨0, 0⟩ (by omega)] at this
    · intro i hi
      have := (psecond i hi).1
      rwa [← getD_map (fun x : ℤ × Card => x.1) second i (0, ⟨0, 0⟩) 0 (by omega)] at this
    · intro i hi
      have := (psecond i hi).2.1
      rwa [← getD_map (fun x : ℤ × Card => x.2) second i (0, ⟨0, 0⟩) ⟨0, 0⟩ (by omega)] at this
    · intro i hi
      have := (psecond i hi).2.2
      rwa [← getD_map (fun x : ℤ × Card => x.2) second i (0, ⟨0, 0⟩) ⟨0, 0⟩ (by omega)] at this

theorem vrheMove4_apply (q : ℤ) (n : ℕ) (x : VrheCtx) (lam : ℤ) (s : St) :
    vrheMove4 q n x lam s = .ok () { s with sent := s.sent ++ (vrheResp q n x lam).1 ++
      (vrheResp q n x lam).2.1 ++ (vrheResp q n x lam).2.2 } := rfl

theorem rotMove3_apply (S : State) (r : ℕ) (s beta : List ℤ) (x : RotCtx) (lam : ℤ) (st : St) :
    rotMove3 S r s beta x lam st = .ok () { st with sent := st.sent ++
      (rotResp S.G.q r s beta x lam).1 ++ (rotResp S.G.q r s beta x lam).2 } := rfl

theorem good_false (peer : List (Option ℤ)) (cs sent : List ℤ) :
    good ⟨peer, cs, sent, false⟩ = .ok true ⟨peer, cs, sent, false⟩ := rfl

theorem vrheRead1_spec (S : State) (n : ℕ) (hk : List ℤ) (Ak : List Card) (v : ℤ) (fk : List ℤ)
    (Fk : List Card) (rest : List (Option ℤ)) (cs sent : List ℤ)
    (l1 : hk.length = n) (l2 : Ak.length = n) (l3 : fk.length = n) (l4 : Fk.length = n)
    (e1 : ∀ x ∈ hk, checkElement .schnorr S.G x = true)
    (e2 : ∀ x ∈ Ak, checkElement .schnorr S.G x.c1 = true ∧ checkElement .schnorr S.G x.c2 = true)
    (e3 : ∀ x ∈ fk, checkElement .schnorr S.G x = true)
    (e4 : ∀ x ∈ Fk, checkElement .schnorr S.G x.c1 = true ∧ checkElement .schnorr S.G x.c2 = true)
    (hv : inRange S.G.q v = true) :
    vrheRead1 S n ⟨(hk ++ flatCards Ak ++ [v] ++ fk ++ flatCards Fk).map some ++ rest, cs, sent, false⟩ =
      .ok (hk, Ak, v, fk, Fk) ⟨rest, cs, sent, false⟩ := by
  have hpeer : (hk ++ flatCards Ak ++ [v] ++ fk ++ flatCards Fk).map some ++ rest =
      hk.map some ++ ((flatCards Ak).map some ++ (some v :: (fk.map some ++
        ((flatCards Fk).map some ++ rest)))) := by
    simp [List.map_append, List.append_assoc]
  rw [hpeer]
  simp only [vrheRead1]
  rw [bind_ok (readChecked_spec _ n hk _ cs sent false l1 e1)]
  rw [bind_ok (readPairsChecked_spec _ n Ak _ cs sent false l2 e2)]
  rw [bind_ok (recv_spec v _ cs sent false)]
  simp only [hv, Bool.not_true, Bool.false_eq_true, if_false]
  rw [bind_ok (good_false _ cs sent)]
  simp only [Bool.not_true, Bool.false_eq_true, if_false]
  rw [bind_ok (readChecked_spec _ n fk _ cs sent false l3 e3)]
  rw [bind_ok (readPairsChecked_spec _ n Fk _ cs sent false l4 e4)]
  rw [bind_ok (good_false _ cs sent)]
  simp only [Bool.not_true, Bool.false_eq_true, if_false]
  rfl

theorem vrheRead2_spec (q : ℤ) (n : ℕ) (tau rho mu : List ℤ) (rest : List (Option ℤ)) (cs sent : List ℤ)
    (l1 : tau.length = n) (l2 : rho.length = n) (l3 : mu.length = n)
    (e1 : ∀ x ∈ tau, inRange q x = true) (e2 : ∀ x ∈ rho, inRange q x = true)
    (e3 : ∀ x ∈ mu, inRange q x = true) :
    vrheRead2 q n ⟨(tau ++ rho ++ mu).map some ++ rest, cs, sent, false⟩ =
      .ok (tau, rho, mu) ⟨rest, cs, sent, false⟩ := by
  have hpeer : (tau ++ rho ++ mu).map some ++ rest =
      tau.map some ++ (rho.map some ++ (mu.map some ++ rest)) := by
    simp [List.map_append, List.append_assoc]
  rw [hpeer]
  simp only [vrheRead2]
  rw [bind_ok (readChecked_spec _ n tau _ cs sent false l1 e1)]
  rw [bind_ok (readChecked_spec _ n rho _ cs sent false l2 e2)]
  rw [bind_ok (readChecked_spec _ n mu _ cs sent false l3 e3)]
  rw [bind_ok (good_false _ cs sent)]
  simp only [Bool.not_true, Bool.false_eq_true, if_false]
  rfl

theorem rotRead1_spec (S : State) (n : ℕ) (f : List ℤ) (rest : List (Option ℤ)) (cs sent : List ℤ)
    (l1 : f.length = n) (e1 : ∀ x ∈ f, checkElement .schnorr S.G x = true) :
    rotRead1 S n ⟨f.map some ++ rest, cs, sent, false⟩ = .ok f ⟨rest, cs, sent, false⟩ := by
  simp only [rotRead1]
  rw [bind_ok (readChecked_spec _ n f _ cs sent false l1 e1)]
  rw [bind_ok (good_false _ cs sent)]
  simp only [Bool.not_true, Bool.false_eq_true, if_false]
  rfl

theorem rotRead2_spec (q : ℤ) (n : ℕ) (lamk tk : List ℤ) (rest : List (Option ℤ)) (cs sent : List ℤ)
    (l1 : lamk.length = n) (l2 : tk.length = n)
    (e1 : ∀ x ∈ lamk, inRange q x = true) (e2 : ∀ x ∈ tk, inRange q x = true) :
    rotRead2 q n ⟨(lamk ++ tk).map some ++ rest, cs, sent, false⟩ =
      .ok (lamk, tk) ⟨rest, cs, sent, false⟩ := by
  have hpeer : (lamk ++ tk).map some ++ rest = lamk.map some ++ (tk.map some ++ rest) := by
    simp [List.map_append, List.append_assoc]
  rw [hpeer]
  simp only [rotRead2]
  rw [bind_ok (readChecked_spec _ n lamk _ cs sent false l1 e1)]
  rw [bind_ok (readChecked_spec _ n tk _ cs sent false l2 e2)]
  rw [bind_ok (good_false _ cs sent)]
  simp only [Bool.not_true, Bool.false_eq_true, if_false]
  rfl
/-! ### PUB-ROT-ZK: prover's moves and the verifier's equations -/

/-- the value of `G = Π_j c_j^{β_j}` for `c_j = g^{a_j} h^{u_j}` -/
theorem prodPow_rot (hG : ValidGroup G) (S : State) (hS : StateOk G S) (n : ℕ) (c beta : List ℤ)
    (a u : ℕ → ℤ) (lc : c.length = n) (lb : beta.length = n)
    (hc : ∀ j < n, Val G (c.getD j 0) (toF G G.g ^ a j * toF G S.h ^ u j)) :
    ∃ Gv, prodPow G.p c beta = .ok Gv ∧
      Val G Gv (toF G G.g ^ (∑ j ∈ Finset.range n, a j * beta.getD j 0) *
        toF G S.h ^ (∑ j ∈ Finset.range n, u j * beta.getD j 0)) := by
  have hg0 := g_ne hG
  have hh0 := h_ne hG S hS
  have hcu : ∀ x ∈ c, toF G x ≠ 0 := by
    intro x hx
    obtain ⟨j, hj, rfl⟩ := List.getElem_of_mem hx
    have := (hc j (by omega)).2.2
    rw [List.getD_eq_getElem _ _ hj] at this
    rw [this]; exact mul_ne_zero (zpow_ne_zero _ hg0) (zpow_ne_zero _ hh0)
  obtain ⟨Gv, hGv, v0, vp, vv⟩ := prodPow_val hG c beta hcu
  refine ⟨Gv, hGv, v0, vp, ?_⟩
  rw [vv]
  conv_lhs => rw [list_eq_map_range c 0 n lc]
  rw [zip_map_range _ beta 0 n lb, List.map_map, prod_map_range]
  rw [← prod_zpow_sum _ hg0, ← prod_zpow_sum _ hh0, ← Finset.prod_mul_distrib]
  apply Finset.prod_congr rfl
  intro j hj
  have := (hc j (Finset.mem_range.mp hj)).2.2
  simp only [Function.comp]
  rw [this, mul_zpow, ← zpow_mul, ← zpow_mul]

/-- what the prover's second move of PUB-ROT-ZK produces -/
theorem rotMove2_spec (hG : ValidGroup G) (S : State) (hS : StateOk G S) (r : ℕ) (alpha c beta : List ℤ)
    (Gv : ℤ) (hGv : prodPow G.p c beta = .ok Gv) (hGv0 : toF G Gv ≠ 0)
    (u : ℤ) (lt rest : List ℤ) (hu : 0 ≤ u ∧ u < G.q) (hlt : InQ G.q lt)
    (llt : lt.length = 2 * (alpha.length - 1))
    (peer : List (Option ℤ)) (sent : List ℤ) (tr : Bool) :
    ∃ f, rotMove2 S r alpha c beta ⟨peer, u :: (lt ++ rest), sent, tr⟩ =
        .ok ⟨u, lt, f⟩ ⟨peer, rest, sent ++ f, tr⟩ ∧ f.length = alpha.length ∧
      ∀ j < alpha.length, if j = r then Val G (f.getD j 0) (toF G S.h ^ u) else
        Val G (f.getD j 0) (toF G G.g ^ ((RotCtx.lam ⟨u, lt, f⟩ r j) * gamma G.q alpha beta j % G.q) *
          toF G S.h ^ (RotCtx.t ⟨u, lt, f⟩ r j) * (toF G Gv ^ (RotCtx.lam ⟨u, lt, f⟩ r j))⁻¹) := by
  have hq := hG.q_pos
  have hr2 : ∀ i, (lt.getD i 0).natAbs < G.q.natAbs := fun i => natAbs_lt_of_range hG (hlt.getD hq _)
  obtain ⟨sim, hsim, lsim, psim⟩ := mapE_range
    (fun j => if j = r then pure 0
      else rotSim S Gv alpha beta j (lt.getD (2 * skipIdx r j) 0) (lt.getD (2 * skipIdx r j + 1) 0))
    (fun j b => j ≠ r → Val G b (toF G G.g ^ (lt.getD (2 * skipIdx r j) 0 * gamma G.q alpha beta j % G.q) *
          toF G S.h ^ lt.getD (2 * skipIdx r j + 1) 0 * (toF G Gv ^ lt.getD (2 * skipIdx r j) 0)⁻¹))
    alpha.length 0 (by
      intro j hj
      by_cases hjr : j = r
      · exact ⟨0, by simp only [hjr, if_true]; rfl, fun h => absurd hjr h⟩
      · obtain ⟨f, hf, hv⟩ := rotSim_val hG S hS Gv alpha beta j (lt.getD (2 * skipIdx r j) 0)
          (lt.getD (2 * skipIdx r j + 1) 0) hGv0 (hr2 _)
        exact ⟨f, by simp only [hjr, if_false]; exact hf, fun _ => hv⟩)
  obtain ⟨fr, hfr, fr0, frp, frv⟩ := fspowm_val hG S.tabH S.h u hS.tabH (h_ne hG S hS)
    (natAbs_lt_of_range hG hu)
  refine ⟨(List.range alpha.length).map fun j => if j = r then fr else sim.getD j 0, ?_, by simp, ?_⟩
  · simp only [rotMove2]
    rw [bind_ok (draw_spec peer u _ sent tr)]
    rw [hS.grp, bind_ok (liftE_ok hGv _)]
    rw [bind_ok (drawN_spec _ peer lt rest sent tr llt)]
    rw [bind_ok (liftE_ok hsim _)]
    rw [bind_ok (liftE_ok hfr _)]
    rw [bind_ok (sendAll_apply _ _)]
    rfl
  · intro j hj
    rw [getD_map_range _ _ _ _ hj]
    by_cases hjr : j = r
    · simp only [hjr, if_true]; exact ⟨fr0, frp, frv⟩
    · simp only [hjr, if_false]; exact psim j hj hjr

theorem sum_filter_ne (r : ℕ) (f : ℕ → ℤ) : ∀ l : List ℕ,
    ((l.filter (· ≠ r)).map f).sum = (l.map fun j => if j = r then 0 else f j).sum
  | [] => rfl
  | j :: l => by
    have ih := sum_filter_ne r f l
    by_cases h : j = r <;> simp_all

theorem sum_ite_split (r : ℕ) (a : ℤ) (f : ℕ → ℤ) : ∀ l : List ℕ,
    (l.map fun j => if j = r then a else f j).sum =
      (l.map fun j => if j = r then a else 0).sum + (l.map fun j => if j = r then 0 else f j).sum
  | [] => rfl
  | j :: l => by
    by_cases h : j = r
    · simp [h, sum_ite_split r a f l]; ring
    · simp [h, sum_ite_split r a f l]; ring

theorem sum_single (n r : ℕ) (hr : r < n) (a : ℤ) :
    ((List.range n).map fun j => if j = r then a else 0).sum = a := by
  rw [sum_map_range, Finset.sum_ite_eq' (Finset.range n) r (fun _ => a)]
  simp [hr]

/-- `λ_r` closes the sum: `Σ_j λ_j ≡ λ (mod q)` -/
theorem lamr_sum (q : ℤ) (hq : 0 < q) (lam T : ℤ) (h : 0 ≤ lam ∧ lam < q) :
    ((lam - T % q + q) % q + T) % q = lam := by
  rw [Int.emod_add_emod]
  have : lam - T % q + q + T = lam + q * (1 + T / q) := by rw [Int.emod_def]; ring
  rw [this, Int.add_mul_emod_self_left, Int.emod_eq_of_lt h.1 h.2]

theorem rot_core (hG : ValidGroup G) (S : State) (hS : StateOk G S) (r : ℕ)
    (alpha uk c beta : List ℤ) (hr : r < alpha.length)
    (luk : uk.length = alpha.length) (lc : c.length = alpha.length) (lb : beta.length = alpha.length)
    (hc : ∀ j < alpha.length, Val G (c.getD j 0)
      (toF G G.g ^ arOf alpha.length r alpha j * toF G S.h ^ uk.getD j 0))
    (u : ℤ) (lt rest : List ℤ) (hu : 0 ≤ u ∧ u < G.q) (hlt : InQ G.q lt)
    (llt : lt.length = 2 * (alpha.length - 1))
    (peer : List (Option ℤ)) (sent : List ℤ) (tr : Bool) :
    ∃ x, rotMove2 S r alpha c beta ⟨peer, u :: (lt ++ rest), sent, tr⟩ =
        .ok x ⟨peer, rest, sent ++ x.f, tr⟩ ∧ x.f.length = alpha.length ∧
      (∀ e ∈ x.f, checkElement .schnorr S.G e = true) ∧
      ∀ lambda, 0 ≤ lambda ∧ lambda < G.q →
        (rotResp S.G.q r uk beta x lambda).1.length = alpha.length ∧
        (rotResp S.G.q r uk beta x lambda).2.length = alpha.length ∧
        (∀ e ∈ (rotResp S.G.q r uk beta x lambda).1, inRange S.G.q e = true) ∧
        (∀ e ∈ (rotResp S.G.q r uk beta x lambda).2, inRange S.G.q e = true) ∧
        rotChecks S alpha c beta x.f lambda (rotResp S.G.q r uk beta x lambda).1
          (rotResp S.G.q r uk beta x lambda).2 = .ok true := by
  have hq := hG.q_pos
  have hg0 := g_ne hG
  have hh0 := h_ne hG S hS
  have hgq := g_sub hG
  have hhq := h_sub S hS
  obtain ⟨Gv, hGv, Gv0, Gvp, Gvv⟩ := prodPow_rot hG S hS alpha.length c beta
    (arOf alpha.length r alpha) (fun j => uk.getD j 0) lc lb hc
  have hGvne : toF G Gv ≠ 0 := by
    rw [Gvv]; exact mul_ne_zero (zpow_ne_zero _ hg0) (zpow_ne_zero _ hh0)
  have hGvq : toF G Gv ^ G.q.natAbs = 1 := by
    rw [Gvv, mul_pow, zpow_pow_q hgq, zpow_pow_q hhq, one_mul]
  obtain ⟨f, hf, lf, pf⟩ := rotMove2_spec hG S hS r alpha c beta Gv hGv hGvne u lt rest hu hlt llt
    peer sent tr
  have hltr : ∀ i, (lt.getD i 0).natAbs < G.q.natAbs := fun i => natAbs_lt_of_range hG (hlt.getD hq _)
  have hgam : ∀ k, (gamma G.q alpha beta k).natAbs < G.q.natAbs := by
    intro k; rw [gamma_eq hG alpha beta k lb]; exact natAbs_mod_lt hG _
  refine ⟨⟨u, lt, f⟩, hf, lf, ?_, ?_⟩
  · -- the commitments are group elements
    intro e he
    obtain ⟨j, hj, rfl⟩ := List.getElem_of_mem he
    have hj' : j < alpha.length := by rw [← lf]; exact hj
    have := pf j hj'
    rw [List.getD_eq_getElem _ _ hj] at this
    rw [hS.grp]
    show checkElement .schnorr G f[j] = true
    by_cases hjr : j = r
    · rw [if_pos hjr] at this
      exact this.elem hG (zpow_pow_q hhq _)
    · rw [if_neg hjr] at this
      refine this.elem hG ?_
      rw [mul_pow, mul_pow, inv_pow, zpow_pow_q hgq, zpow_pow_q hhq, zpow_pow_q hGvq, inv_one,
        one_mul, one_mul]
  · intro lambda hlam
    rw [hS.grp]
    have hmem : ∀ (g : ℕ → ℤ), (∀ j, (g j).natAbs < G.q.natAbs) →
        ∀ e ∈ (List.range beta.length).map g, inRange G.q e = true := by
      intro g hg e he
      obtain ⟨j, -, rfl⟩ := List.mem_map.mp he
      simpa [inRange] using hg j
    refine ⟨by simp [rotResp, lb], by simp [rotResp, lb], ?_, ?_, ?_⟩
    · apply hmem
      intro j
      by_cases hjr : j = r
      · simp only [hjr, if_true]; exact natAbs_mod_lt hG _
      · simp only [hjr, if_false]; exact hltr _
    · apply hmem
      intro j
      by_cases hjr : j = r
      · simp only [hjr, if_true]; exact natAbs_mod_lt hG _
      · simp only [hjr, if_false]; exact hltr _
    · -- the verifier's equations
      have hn : beta.length = alpha.length := lb
      set lamO : ℕ → ℤ := fun j => lt.getD (2 * skipIdx r j) 0 with hlamO
      set tO : ℕ → ℤ := fun j => lt.getD (2 * skipIdx r j + 1) 0 with htO
      set T : ℤ := ((List.range beta.length).map fun j => if j = r then 0 else lamO j).sum with hT
      set lamr : ℤ := (lambda - T % G.q + G.q) % G.q with hlamr
      set sig' : ℤ := dotMod G.q uk beta with hsig'
      set trr : ℤ := (u + sig' * lamr % G.q) % G.q with htrr
      have hresp : rotResp G.q r uk beta ⟨u, lt, f⟩ lambda =
          ((List.range beta.length).map fun j => if j = r then lamr else lamO j,
           (List.range beta.length).map fun j => if j = r then trr else tO j) := by
        simp only [rotResp, RotCtx.lam, RotCtx.t]
        rw [sumMod_eq G.q hq, sum_filter_ne]
        rfl
      rw [hresp]
      have hsum : lambda = sumMod G.q ((List.range beta.length).map fun j =>
          if j = r then lamr else lamO j) := by
        rw [sumMod_eq G.q hq, sum_ite_split, sum_single _ _ (by omega), ← hT]
        exact (lamr_sum G.q hq lambda T hlam).symm
      have hsig : sig' % G.q = (∑ j ∈ Finset.range alpha.length, uk.getD j 0 * beta.getD j 0) % G.q := by
        rw [hsig']
        conv_lhs => rw [list_eq_map_range uk 0 alpha.length luk]
        rw [dotMod_range hG _ beta alpha.length lb, Int.emod_emod_of_dvd _ (dvd_refl _)]
      have hGr : toF G Gv = toF G G.g ^ gamma G.q alpha beta r *
          toF G S.h ^ (∑ j ∈ Finset.range alpha.length, uk.getD j 0 * beta.getD j 0) := by
        rw [Gvv, gamma_eq hG alpha beta r lb, zpow_mod_q hG _ hgq hg0]
        rfl
      simp only [rotChecks, hS.grp]
      rw [if_neg (by simpa using hsum)]
      simp only [bind, Except.bind, hGv]
      apply allE_range_true
      intro k hk
      rw [getD_map_range _ _ _ _ (by omega), getD_map_range _ _ _ _ (by omega)]
      have hfk := pf k hk
      by_cases hkr : k = r
      · rw [if_pos hkr, hkr] at hfk
        simp only [hkr, if_true]
        apply rotCheck_ok hG S hS Gv alpha beta r _ _ _ hGvne (natAbs_mod_lt hG _) (hgam r)
        rw [hfk.2.2]
        exact rot_real_alg hG _ _ hgq hhq _ _ sig' u lamr hsig _ hGr
      · rw [if_neg hkr] at hfk
        simp only [hkr, if_false]
        apply rotCheck_ok hG S hS Gv alpha beta k _ _ _ hGvne (hltr _) (hgam k)
        rw [hfk.2.2]
        exact rot_sim_alg hG _ _ _ hgq hh0 hGvne _ _ _
/-! ### VRHE: prover's moves and the verifier's equations -/

/-- the true statement: `Y_k = X_{k-r} · (g^{s_k}, h^{s_k})` with `X` in the subgroup of order `q` -/
structure RotStmt (G : Group) [Fact (Nat.Prime G.p.natAbs)] (S : State) (r : ℕ) (s : List ℤ)
    (X Y : List Card) : Prop where
  n2 : 2 ≤ s.length
  r_lt : r < s.length
  lX : X.length = s.length
  lY : Y.length = s.length
  subX : ∀ j < s.length, Sub G (X.getD j ⟨0, 0⟩).c1 ∧ Sub G (X.getD j ⟨0, 0⟩).c2
  rel1 : ∀ k < s.length, toF G (Y.getD k ⟨0, 0⟩).c1 =
    toF G (X.getD (subMod s.length r k) ⟨0, 0⟩).c1 * toF G G.g ^ s.getD k 0
  rel2 : ∀ k < s.length, toF G (Y.getD k ⟨0, 0⟩).c2 =
    toF G (X.getD (subMod s.length r k) ⟨0, 0⟩).c2 * toF G S.h ^ s.getD k 0

theorem RotStmt.subY {S : State} {r : ℕ} {s : List ℤ} {X Y : List Card} (hG : ValidGroup G)
    (hS : StateOk G S) (st : RotStmt G S r s X Y) (k : ℕ) (hk : k < s.length) :
    Sub G (Y.getD k ⟨0, 0⟩).c1 ∧ Sub G (Y.getD k ⟨0, 0⟩).c2 := by
  have hx := st.subX _ (subMod_lt st.r_lt hk)
  unfold Sub at *
  rw [st.rel1 k hk, st.rel2 k hk, mul_pow, mul_pow, hx.1, hx.2, zpow_pow_q (g_sub hG),
    zpow_pow_q (h_sub S hS)]
  simp

theorem mem_of_getD {β} {l : List β} {d : β} {P : β → Prop} (h : ∀ i < l.length, P (l.getD i d)) :
    ∀ e ∈ l, P e := by
  intro e he
  obtain ⟨j, hj, rfl⟩ := List.getElem_of_mem he
  have := h j hj
  rwa [List.getD_eq_getElem _ _ hj] at this

theorem vrhe_core (hG : ValidGroup G) (S : State) (hS : StateOk G S) (r : ℕ) (s : List ℤ)
    (X Y : List Card) (st : RotStmt G S r s X Y) (alpha : List ℤ) (lα : alpha.length = s.length)
    (hα : InQ G.q alpha) (ut opm rest : List ℤ) (hut : InQ G.q ut) (hopm : InQ G.q opm)
    (lut : ut.length = 2 * s.length) (lopm : opm.length = 3 * s.length)
    (peer : List (Option ℤ)) (sent : List ℤ) (tr : Bool) :
    ∃ x, vrheMove2 S r s Y alpha ⟨peer, ut ++ (opm ++ rest), sent, tr⟩ =
        .ok x ⟨peer, rest, sent ++ x.hk ++ flatCards x.Ak ++ [x.v] ++ x.fk ++ flatCards x.Fk, tr⟩ ∧
      Move2Ok G S s.length r s Y alpha ut opm x ∧
      (∀ e ∈ x.hk, checkElement .schnorr S.G e = true) ∧
      (∀ e ∈ x.Ak, checkElement .schnorr S.G e.c1 = true ∧ checkElement .schnorr S.G e.c2 = true) ∧
      (∀ e ∈ x.fk, checkElement .schnorr S.G e = true) ∧
      (∀ e ∈ x.Fk, checkElement .schnorr S.G e.c1 = true ∧ checkElement .schnorr S.G e.c2 = true) ∧
      inRange S.G.q x.v = true ∧
      vrheFinal S X x.Ak alpha x.v = .ok true ∧
      ∀ lambda, 0 ≤ lambda ∧ lambda < G.q →
        (vrheResp S.G.q s.length x lambda).1.length = s.length ∧
        (vrheResp S.G.q s.length x lambda).2.1.length = s.length ∧
        (vrheResp S.G.q s.length x lambda).2.2.length = s.length ∧
        (∀ e ∈ (vrheResp S.G.q s.length x lambda).1, inRange S.G.q e = true) ∧
        (∀ e ∈ (vrheResp S.G.q s.length x lambda).2.1, inRange S.G.q e = true) ∧
        (∀ e ∈ (vrheResp S.G.q s.length x lambda).2.2, inRange S.G.q e = true) ∧
        vrheChecks S Y lambda x.hk x.Ak x.fk x.Fk (vrheResp S.G.q s.length x lambda).1
          (vrheResp S.G.q s.length x lambda).2.1 (vrheResp S.G.q s.length x lambda).2.2 = .ok true := by
  have hq := hG.q_pos
  have hg0 := g_ne hG
  have hh0 := h_ne hG S hS
  have hgq := g_sub hG
  have hhq := h_sub S hS
  have hYs := st.subY hG hS
  have hY0 : ∀ i < s.length, toF G (Y.getD i ⟨0, 0⟩).c1 ≠ 0 ∧ toF G (Y.getD i ⟨0, 0⟩).c2 ≠ 0 :=
    fun i hi => ⟨(hYs i hi).1.ne_zero hG, (hYs i hi).2.ne_zero hG⟩
  obtain ⟨x, hx, ok⟩ := vrheMove2_spec hG S hS r s Y alpha ut opm rest peer sent tr hα hut hopm
    lut lopm hY0
  have hv : x.v = (∑ i ∈ Finset.range s.length,
      (arOf s.length r alpha i * s.getD i 0 % G.q + ut.getD (2 * i + 1) 0) % G.q) % G.q := by
    rw [ok.v_eq, foldl_add_mod G.q hq (fun i => (arOf s.length r alpha i * s.getD i 0 % G.q +
      ut.getD (2 * i + 1) 0) % G.q) _ 0 (le_refl _) hq, zero_add, sum_map_range]
  refine ⟨x, hx, ok, ?_, ?_, ?_, ?_, ?_, ?_, ?_⟩
  · rw [hS.grp]
    apply mem_of_getD (P := fun e => checkElement .schnorr G e = true)
    intro i hi
    rw [ok.lhk] at hi
    exact (ok.hk i hi).elem hG (by rw [mul_pow, zpow_pow_q hgq, zpow_pow_q hhq, one_mul])
  · rw [hS.grp]
    apply mem_of_getD (P := fun e : Card => checkElement .schnorr G e.c1 = true ∧
      checkElement .schnorr G e.c2 = true)
    intro i hi
    rw [ok.lAk] at hi
    exact ⟨(ok.Ak1 i hi).elem hG (by rw [mul_pow, zpow_pow_q (hYs i hi).1, zpow_pow_q hgq, one_mul]),
      (ok.Ak2 i hi).elem hG (by rw [mul_pow, zpow_pow_q (hYs i hi).2, zpow_pow_q hhq, one_mul])⟩
  · rw [hS.grp]
    apply mem_of_getD (P := fun e => checkElement .schnorr G e = true)
    intro i hi
    rw [ok.lfk] at hi
    exact (ok.fk i hi).elem hG (by rw [mul_pow, zpow_pow_q hgq, zpow_pow_q hhq, one_mul])
  · rw [hS.grp]
    apply mem_of_getD (P := fun e : Card => checkElement .schnorr G e.c1 = true ∧
      checkElement .schnorr G e.c2 = true)
    intro i hi
    rw [ok.lFk] at hi
    exact ⟨(ok.Fk1 i hi).elem hG (by rw [mul_pow, zpow_pow_q (hYs i hi).1, zpow_pow_q hgq, one_mul]),
      (ok.Fk2 i hi).elem hG (by rw [mul_pow, zpow_pow_q (hYs i hi).2, zpow_pow_q hhq, one_mul])⟩
  · rw [hS.grp, hv]; exact inRange_of_mod hG _
  · -- the product equation
    apply vrheFinal_ok hG S hS X x.Ak alpha x.v
    · intro j hj; rw [lα] at hj
      exact ⟨(st.subX j hj).1.ne_zero hG, (st.subX j hj).2.ne_zero hG⟩
    · rw [hv]; exact natAbs_mod_lt hG _
    · rw [prod_map_range, lα, hv]
      apply final_alg hG s.length r st.r_lt (fun j => toF G (X.getD j ⟨0, 0⟩).c1)
        (fun j hj => (st.subX j hj).1.ne_zero hG) (fun j => alpha.getD j 0) (fun j => s.getD j 0)
        (fun j => ut.getD (2 * j + 1) 0) (toF G G.g) hgq
      intro j hj
      rw [(ok.Ak1 j hj).2.2, st.rel1 j hj]; rfl
    · rw [prod_map_range, lα, hv]
      apply final_alg hG s.length r st.r_lt (fun j => toF G (X.getD j ⟨0, 0⟩).c2)
        (fun j hj => (st.subX j hj).2.ne_zero hG) (fun j => alpha.getD j 0) (fun j => s.getD j 0)
        (fun j => ut.getD (2 * j + 1) 0) (toF G S.h) hhq
      intro j hj
      rw [(ok.Ak2 j hj).2.2, st.rel2 j hj]; rfl
  · intro lambda hlam
    rw [hS.grp]
    have hmem : ∀ (g : ℕ → ℤ), (∀ j, (g j).natAbs < G.q.natAbs) →
        ∀ e ∈ (List.range s.length).map g, inRange G.q e = true := by
      intro g hg e he
      obtain ⟨j, -, rfl⟩ := List.mem_map.mp he
      simpa [inRange] using hg j
    refine ⟨by simp [vrheResp], by simp [vrheResp], by simp [vrheResp],
      hmem _ (fun j => natAbs_mod_lt hG _), hmem _ (fun j => natAbs_mod_lt hG _),
      hmem _ (fun j => natAbs_mod_lt hG _), ?_⟩
    simp only [vrheChecks, vrheResp, st.lY]
    rw [allE_range_true]
    · simp only [bind, Except.bind, Bool.not_true, Bool.false_eq_true, if_false]
      apply allE_range_true
      intro i hi
      rw [getD_map_range _ _ _ _ hi, getD_map_range _ _ _ _ hi, ok.ar_eq, getD_map_range _ _ _ _ hi,
        ok.ut_eq, ok.opm_eq]
      have hA1 := ok.Ak1 i hi
      have hA2 := ok.Ak2 i hi
      apply vrheCheck2_ok hG S hS lambda _ _ _ _ _ (hY0 i hi).1 (hY0 i hi).2 ?_ ?_ (natAbs_mod_lt hG _)
      · rw [hA1.2.2, (ok.Fk1 i hi).2.2]
        exact expzk_mod hG _ _ (hYs i hi).1 hgq _ _ _ _ _
      · rw [hA2.2.2, (ok.Fk2 i hi).2.2]
        exact expzk_mod hG _ _ (hYs i hi).2 hhq _ _ _ _ _
      · rw [hA1.2.2]; exact mul_ne_zero (zpow_ne_zero _ (hY0 i hi).1) (zpow_ne_zero _ hg0)
      · rw [hA2.2.2]; exact mul_ne_zero (zpow_ne_zero _ (hY0 i hi).2) (zpow_ne_zero _ hh0)
    · intro i hi
      rw [getD_map_range _ _ _ _ hi, getD_map_range _ _ _ _ hi, ok.ar_eq, getD_map_range _ _ _ _ hi,
        ok.ut_eq, ok.opm_eq]
      have hk := ok.hk i hi
      apply vrheCheck1_ok hG S hS lambda _ _ _ _ ?_ (natAbs_mod_lt hG _) (natAbs_mod_lt hG _)
      · rw [hk.2.2, (ok.fk i hi).2.2]
        exact expzk_mod hG _ _ hgq hhq _ _ _ _ _
      · rw [hk.2.2]; exact mul_ne_zero (zpow_ne_zero _ hg0) (zpow_ne_zero _ hh0)
end Tmcg.Args
