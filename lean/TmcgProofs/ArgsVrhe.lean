import TmcgProofs.ArgsVrheAlg
/-
  C03 for the rotation argument, part 2: specifications of the blocks of prover and verifier
  (what they read, draw, write and return), and the completeness theorems of the three modes.
-/
namespace Tmcg.Args
open Tmcg Tmcg.Powm Tmcg.Vtmf Tmcg.Grp Tmcg.Sigma Tmcg.SigmaComplete
variable {G : Group} [Fact (Nat.Prime G.p.natAbs)]

set_option linter.unusedVariables false
set_option linter.unusedSectionVars false

theorem getD_map_range {β} (f : ℕ → β) (n i : ℕ) (d : β) (hi : i < n) :
    ((List.range n).map f).getD i d = f i := by
  rw [List.getD_eq_getElem _ _ (by simpa using hi)]
  simp

/-- `α_{k-r}` -/
def arOf (n r : ℕ) (alpha : List ℤ) (i : ℕ) : ℤ := alpha.getD (subMod n r i) 0

/-- all entries of a list of draws lie in `[0, q)` -/
def InQ (q : ℤ) (l : List ℤ) : Prop := ∀ x ∈ l, 0 ≤ x ∧ x < q

theorem InQ.getD {q : ℤ} {l : List ℤ} (h : InQ q l) (hq : 0 < q) (i : ℕ) :
    0 ≤ l.getD i 0 ∧ l.getD i 0 < q := by
  by_cases hi : i < l.length
  · rw [List.getD_eq_getElem _ _ hi]; exact h _ (List.getElem_mem hi)
  · rw [List.getD_eq_default _ _ (by omega)]; exact ⟨le_refl _, hq⟩

structure Move2Ok (G : Group) [Fact (Nat.Prime G.p.natAbs)] (S : State) (n r : ℕ) (s : List ℤ)
    (Y : List Card) (alpha ut opm : List ℤ) (x : VrheCtx) : Prop where
  ar_eq : x.ar = (List.range n).map (arOf n r alpha)
  ut_eq : x.ut = ut
  opm_eq : x.opm = opm
  lhk : x.hk.length = n
  lAk : x.Ak.length = n
  lfk : x.fk.length = n
  lFk : x.Fk.length = n
  v_eq : x.v = (List.range n).foldl (fun acc i =>
    (acc + (arOf n r alpha i * s.getD i 0 % G.q + ut.getD (2 * i + 1) 0) % G.q) % G.q) 0
  hk : ∀ i < n, Val G (x.hk.getD i 0)
    (toF G G.g ^ arOf n r alpha i * toF G S.h ^ ut.getD (2 * i) 0)
  Ak1 : ∀ i < n, Val G (x.Ak.getD i ⟨0, 0⟩).c1
    (toF G (Y.getD i ⟨0, 0⟩).c1 ^ arOf n r alpha i * toF G G.g ^ ut.getD (2 * i + 1) 0)
  Ak2 : ∀ i < n, Val G (x.Ak.getD i ⟨0, 0⟩).c2
    (toF G (Y.getD i ⟨0, 0⟩).c2 ^ arOf n r alpha i * toF G S.h ^ ut.getD (2 * i + 1) 0)
  fk : ∀ i < n, Val G (x.fk.getD i 0)
    (toF G G.g ^ opm.getD (3 * i) 0 * toF G S.h ^ opm.getD (3 * i + 1) 0)
  Fk1 : ∀ i < n, Val G (x.Fk.getD i ⟨0, 0⟩).c1
    (toF G (Y.getD i ⟨0, 0⟩).c1 ^ opm.getD (3 * i) 0 * toF G G.g ^ opm.getD (3 * i + 2) 0)
  Fk2 : ∀ i < n, Val G (x.Fk.getD i ⟨0, 0⟩).c2
    (toF G (Y.getD i ⟨0, 0⟩).c2 ^ opm.getD (3 * i) 0 * toF G S.h ^ opm.getD (3 * i + 2) 0)

theorem getD_map {α β} (f : α → β) (l : List α) (i : ℕ) (d : α) (d' : β) (hi : i < l.length) :
    (l.map f).getD i d' = f (l.getD i d) := by
  rw [List.getD_eq_getElem _ _ (by simpa using hi), List.getD_eq_getElem _ _ hi]
  simp

theorem vrheMove2_spec (hG : ValidGroup G) (S : State) (hS : StateOk G S) (r : ℕ) (s : List ℤ)
    (Y : List Card) (alpha ut opm rest : List ℤ) (peer : List (Option ℤ)) (sent : List ℤ) (tr : Bool)
    (hα : InQ G.q alpha) (hut : InQ G.q ut) (hopm : InQ G.q opm)
    (lut : ut.length = 2 * s.length) (lopm : opm.length = 3 * s.length)
    (hY : ∀ i < s.length, toF G (Y.getD i ⟨0, 0⟩).c1 ≠ 0 ∧ toF G (Y.getD i ⟨0, 0⟩).c2 ≠ 0) :
    ∃ x, vrheMove2 S r s Y alpha ⟨peer, ut ++ (opm ++ rest), sent, tr⟩ =
        .ok x ⟨peer, rest, sent ++ x.hk ++ flatCards x.Ak ++ [x.v] ++ x.fk ++ flatCards x.Fk, tr⟩ ∧
      Move2Ok G S s.length r s Y alpha ut opm x := by
  have hq := hG.q_pos
  have hr1 : ∀ i, (arOf s.length r alpha i).natAbs < G.q.natAbs := fun i =>
    natAbs_lt_of_range hG (hα.getD hq _)
  have hr2 : ∀ i, (ut.getD i 0).natAbs < G.q.natAbs := fun i => natAbs_lt_of_range hG (hut.getD hq _)
  have hr3 : ∀ i, (opm.getD i 0).natAbs < G.q.natAbs := fun i => natAbs_lt_of_range hG (hopm.getD hq _)
  obtain ⟨first, hfirst, lfirst, pfirst⟩ := mapE_range
    (fun i => vrheCommit S (Y.getD i ⟨0, 0⟩)
      (((List.range s.length).map fun i => alpha.getD (subMod s.length r i) 0).getD i 0)
      (ut.getD (2 * i) 0) (ut.getD (2 * i + 1) 0))
    (fun i b => Val G b.1 (toF G G.g ^ arOf s.length r alpha i * toF G S.h ^ ut.getD (2 * i) 0) ∧
      Val G b.2.c1 (toF G (Y.getD i ⟨0, 0⟩).c1 ^ arOf s.length r alpha i * toF G G.g ^ ut.getD (2 * i + 1) 0) ∧
      Val G b.2.c2 (toF G (Y.getD i ⟨0, 0⟩).c2 ^ arOf s.length r alpha i * toF G S.h ^ ut.getD (2 * i + 1) 0))
    s.length (0, ⟨0, 0⟩) (by
      intro i hi
      rw [getD_map_range _ _ _ _ hi]
      obtain ⟨hk, A, h, v1, v2, v3⟩ := vrheCommit_val hG S hS (Y.getD i ⟨0, 0⟩)
        (arOf s.length r alpha i) (ut.getD (2 * i) 0) (ut.getD (2 * i + 1) 0) (hY i hi).1 (hY i hi).2
        (hr1 i) (hr2 _) (hr2 _)
      exact ⟨(hk, A), h, v1, v2, v3⟩)
  obtain ⟨second, hsecond, lsecond, psecond⟩ := mapE_range
    (fun i => vrheCommit S (Y.getD i ⟨0, 0⟩) (opm.getD (3 * i) 0) (opm.getD (3 * i + 1) 0)
      (opm.getD (3 * i + 2) 0))
    (fun i b => Val G b.1 (toF G G.g ^ opm.getD (3 * i) 0 * toF G S.h ^ opm.getD (3 * i + 1) 0) ∧
      Val G b.2.c1 (toF G (Y.getD i ⟨0, 0⟩).c1 ^ opm.getD (3 * i) 0 * toF G G.g ^ opm.getD (3 * i + 2) 0) ∧
      Val G b.2.c2 (toF G (Y.getD i ⟨0, 0⟩).c2 ^ opm.getD (3 * i) 0 * toF G S.h ^ opm.getD (3 * i + 2) 0))
    s.length (0, ⟨0, 0⟩) (by
      intro i hi
      obtain ⟨hk, A, h, v1, v2, v3⟩ := vrheCommit_val hG S hS (Y.getD i ⟨0, 0⟩)
        (opm.getD (3 * i) 0) (opm.getD (3 * i + 1) 0) (opm.getD (3 * i + 2) 0) (hY i hi).1 (hY i hi).2
        (hr3 _) (hr3 _) (hr3 _)
      exact ⟨(hk, A), h, v1, v2, v3⟩)
  refine ⟨⟨(List.range s.length).map fun i => alpha.getD (subMod s.length r i) 0, ut, opm,
    first.map fun x => x.1, first.map fun x => x.2,
    (List.range s.length).foldl (fun acc i =>
      (acc + (((List.range s.length).map fun i => alpha.getD (subMod s.length r i) 0).getD i 0 *
        s.getD i 0 % S.G.q + ut.getD (2 * i + 1) 0) % S.G.q) % S.G.q) 0,
    second.map fun x => x.1, second.map fun x => x.2⟩, ?_, ?_⟩
  · simp only [vrheMove2]
    rw [bind_ok (drawN_spec _ peer ut (opm ++ rest) sent tr lut)]
    rw [bind_ok (liftE_ok hfirst _)]
    rw [bind_ok (sendAll_apply _ _), bind_ok (sendAll_apply _ _), bind_ok (send_apply _ _)]
    rw [bind_ok (drawN_spec _ peer opm rest _ tr lopm)]
    rw [bind_ok (liftE_ok hsecond _)]
    rw [bind_ok (sendAll_apply _ _), bind_ok (sendAll_apply _ _)]
    rfl
  · refine ⟨rfl, rfl, rfl, by simp [lfirst], by simp [lfirst], by simp [lsecond], by simp [lsecond],
      ?_, ?_, ?_, ?_, ?_, ?_, ?_⟩
    · show List.foldl _ _ _ = List.foldl _ _ _
      apply List.foldl_ext
      intro acc i hi
      rw [getD_map_range _ _ _ _ (List.mem_range.mp hi), hS.grp]
      rfl
    · intro i hi
      have := (pfirst i hi).1
      rwa [← getD_map (fun x : ℤ × Card => x.1) first i (0, ⟨0, 0⟩) 0 (by omega)] at this
    · intro i hi
      have := (pfirst i hi).2.1
      rwa [← getD_map (fun x : ℤ × Card => x.2) first i (0, ⟨0, 0⟩) ⟨0, 0⟩ (by omega)] at this
    · intro i hi
      have := (pfirst i hi).2.2
      rwa [← getD_map (fun x : ℤ × Card => x.2) first i (0, ⟨0, 0⟩) ⟨0, 0⟩ (by omega)] at this
    · intro i hi
      have := (psecond i hi).1
      rwa [← getD_map (fun x : ℤ × Card => x.1) second i (0, ⟨0, 0⟩) 0 (by omega)] at this
    · intro i hi
      have := (psecond i hi).2.1
      rwa [← getD_map (fun x : ℤ × Card => x.2) second i (0, ⟨0, 0⟩) ⟨0, 0⟩ (by omega)] at this
    · intro i hi
      have := (psecond i hi).2.2
      rwa [← getD_map (fun x : ℤ × Card => x.2) second i (0, ⟨0, 0⟩) ⟨0, 0⟩ (by omega)] at this

theorem vrheMove4_apply (q : ℤ) (n : ℕ) (x : VrheCtx) (lam : ℤ) (s : St) :
    vrheMove4 q n x lam s = .ok () { s with sent := s.sent ++ (vrheResp q n x lam).1 ++
      (vrheResp q n x lam).2.1 ++ (vrheResp q n x lam).2.2 } := rfl

theorem rotMove3_apply (S : State) (r : ℕ) (s beta : List ℤ) (x : RotCtx) (lam : ℤ) (st : St) :
    rotMove3 S r s beta x lam st = .ok () { st with sent := st.sent ++
      (rotResp S.G.q r s beta x lam).1 ++ (rotResp S.G.q r s beta x lam).2 } := rfl

theorem good_false (peer : List (Option ℤ)) (cs sent : List ℤ) :
    good ⟨peer, cs, sent, false⟩ = .ok true ⟨peer, cs, sent, false⟩ := rfl

theorem vrheRead1_spec (S : State) (n : ℕ) (hk : List ℤ) (Ak : List Card) (v : ℤ) (fk : List ℤ)
    (Fk : List Card) (rest : List (Option ℤ)) (cs sent : List ℤ)
    (l1 : hk.length = n) (l2 : Ak.length = n) (l3 : fk.length = n) (l4 : Fk.length = n)
    (e1 : ∀ x ∈ hk, checkElement .schnorr S.G x = true)
    (e2 : ∀ x ∈ Ak, checkElement .schnorr S.G x.c1 = true ∧ checkElement .schnorr S.G x.c2 = true)
    (e3 : ∀ x ∈ fk, checkElement .schnorr S.G x = true)
    (e4 : ∀ x ∈ Fk, checkElement .schnorr S.G x.c1 = true ∧ checkElement .schnorr S.G x.c2 = true)
    (hv : inRange S.G.q v = true) :
    vrheRead1 S n ⟨(hk ++ flatCards Ak ++ [v] ++ fk ++ flatCards Fk).map some ++ rest, cs, sent, false⟩ =
      .ok (hk, Ak, v, fk, Fk) ⟨rest, cs, sent, false⟩ := by
  have hpeer : (hk ++ flatCards Ak ++ [v] ++ fk ++ flatCards Fk).map some ++ rest =
      hk.map some ++ ((flatCards Ak).map some ++ (some v :: (fk.map some ++
        ((flatCards Fk).map some ++ rest)))) := by
    simp [List.map_append, List.append_assoc]
  rw [hpeer]
  simp only [vrheRead1]
  rw [bind_ok (readChecked_spec _ n hk _ cs sent false l1 e1)]
  rw [bind_ok (readPairsChecked_spec _ n Ak _ cs sent false l2 e2)]
  rw [bind_ok (recv_spec v _ cs sent false)]
  simp only [hv, Bool.not_true, Bool.false_eq_true, if_false]
  rw [bind_ok (good_false _ cs sent)]
  simp only [Bool.not_true, Bool.false_eq_true, if_false]
  rw [bind_ok (readChecked_spec _ n fk _ cs sent false l3 e3)]
  rw [bind_ok (readPairsChecked_spec _ n Fk _ cs sent false l4 e4)]
  rw [bind_ok (good_false _ cs sent)]
  simp only [Bool.not_true, Bool.false_eq_true, if_false]
  rfl

theorem vrheRead2_spec (q : ℤ) (n : ℕ) (tau rho mu : List ℤ) (rest : List (Option ℤ)) (cs sent : List ℤ)
    (l1 : tau.length = n) (l2 : rho.length = n) (l3 : mu.length = n)
    (e1 : ∀ x ∈ tau, inRange q x = true) (e2 : ∀ x ∈ rho, inRange q x = true)
    (e3 : ∀ x ∈ mu, inRange q x = true) :
    vrheRead2 q n ⟨(tau ++ rho ++ mu).map some ++ rest, cs, sent, false⟩ =
      .ok (tau, rho, mu) ⟨rest, cs, sent, false⟩ := by
  have hpeer : (tau ++ rho ++ mu).map some ++ rest =
      tau.map some ++ (rho.map some ++ (mu.map some ++ rest)) := by
    simp [List.map_append, List.append_assoc]
  rw [hpeer]
  simp only [vrheRead2]
  rw [bind_ok (readChecked_spec _ n tau _ cs sent false l1 e1)]
  rw [bind_ok (readChecked_spec _ n rho _ cs sent false l2 e2)]
  rw [bind_ok (readChecked_spec _ n mu _ cs sent false l3 e3)]
  rw [bind_ok (good_false _ cs sent)]
  simp only [Bool.not_true, Bool.false_eq_true, if_false]
  rfl

theorem rotRead1_spec (S : State) (n : ℕ) (f : List ℤ) (rest : List (Option ℤ)) (cs sent : List ℤ)
    (l1 : f.length = n) (e1 : ∀ x ∈ f, checkElement .schnorr S.G x = true) :
    rotRead1 S n ⟨f.map some ++ rest, cs, sent, false⟩ = .ok f ⟨rest, cs, sent, false⟩ := by
  simp only [rotRead1]
  rw [bind_ok (readChecked_spec _ n f _ cs sent false l1 e1)]
  rw [bind_ok (good_false _ cs sent)]
  simp only [Bool.not_true, Bool.false_eq_true, if_false]
  rfl

theorem rotRead2_spec (q : ℤ) (n : ℕ) (lamk tk : List ℤ) (rest : List (Option ℤ)) (cs sent : List ℤ)
    (l1 : lamk.length = n) (l2 : tk.length = n)
    (e1 : ∀ x ∈ lamk, inRange q x = true) (e2 : ∀ x ∈ tk, inRange q x = true) :
    rotRead2 q n ⟨(lamk ++ tk).map some ++ rest, cs, sent, false⟩ =
      .ok (lamk, tk) ⟨rest, cs, sent, false⟩ := by
  have hpeer : (lamk ++ tk).map some ++ rest = lamk.map some ++ (tk.map some ++ rest) := by
    simp [List.map_append, List.append_assoc]
  rw [hpeer]
  simp only [rotRead2]
  rw [bind_ok (readChecked_spec _ n lamk _ cs sent false l1 e1)]
  rw [bind_ok (readChecked_spec _ n tk _ cs sent false l2 e2)]
  rw [bind_ok (good_false _ cs sent)]
  simp only [Bool.not_true, Bool.false_eq_true, if_false]
  rfl
end Tmcg.Args
