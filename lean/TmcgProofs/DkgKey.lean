import TmcgProofs.DkgKeyBase
import TmcgProofs.DkgKeySim7
/-
  C15: "all honest parties agree on the public key", success of `Generate`, consistency of the shares
  with the verification keys and with the key, for EVERY deviation script of at most `t` parties
  (`SetupK`), runs with reconstruction included, under the explicit binding hypothesis `BindingHypG`.

    * `generate_succeeds`      every honest party's `Generate` returns `true`
    * `key_agree`              all honest parties end with the same `y` and the same verification keys
                               `v_k` (`k ∈ QUAL`); `y = ∏_{j ∈ QUAL} g^{f_j(0)}`
    * `share_matches_vk_run'`  `CheckKey()` is true at every honest party (in particular `g^{x_i} = v_i`)
    * `interpolate_run`        any `t+1` honest parties' `x_i` interpolate to an `x` with `g^x = y`
-/
namespace Tmcg.DkgP
open Tmcg Tmcg.Powm Tmcg.Dkg Tmcg.Grp Tmcg.DkgL

variable {G : Dkg.Grp} [Fact (Nat.Prime G.p.natAbs)]

set_option linter.unusedSectionVars false
set_option linter.unusedVariables false

/-- `y = ∏_{j ∈ QUAL} g^{f_j(0)}` for a party in the final state -/
theorem key_val {n t : Nat} {ins : List PartyIn} (S : SetupK G n t ins)
    (fam : Nat → Polynomial (ZMod G.q.natAbs)) (Q : List Nat) (Afl : List (List Int)) (hqlt : ∀ j ∈ Q, j < n)
    (hfeld : ∀ j ∈ Q, (∀ k, k < t + 1 → cp G (getI (getRow Afl j) k) = cp G G.g ^ ((fam j).coeff k).val) ∧
      ∀ x : Nat, powProdFrom x 0 ((getRow Afl j).map (cp G)) =
        cp G G.g ^ ((fam j).eval ((x : Nat) : ZMod G.q.natAbs)).val)
    (i : Nat) (P : Party GenSt) (hF : FinK G n t ins fam Q Afl i P) :
    cp G P.st.y = (Q.map (fun j => cp G G.g ^ ((fam j).eval 0).val)).prod := by
  have hG := S.hG
  rw [hF.y, kg_yFold_val hG, cp_one, one_mul]
  congr 1
  apply List.map_congr_left
  intro j hj
  rw [hF.yi, (ra_yiFold (fun j => getI (getRow Afl j) 0) Q (zeros n) j).2 hj (by simp [zeros, hqlt j hj]),
    (hfeld j hj).1 0 (by omega), Polynomial.coeff_zero_eq_eval_zero]

theorem generate_succeeds {n t : Nat} {ins : List PartyIn} (S : SetupK G n t ins)
    (fam : Nat → Polynomial (ZMod G.q.natAbs)) (hB : BindingHypG G n t ins fam)
    (i : Nat) (hi : i ∈ honestIdx ins) :
    ∃ P, (runGen G n t ins)[i]? = some P ∧ P.status = .ret true := by
  obtain ⟨Q, Afl, -, -, -, -, -, hall⟩ := kg_outcome S fam hB
  obtain ⟨P, hP, hF⟩ := hall i hi
  exact ⟨P, hP, hF.status⟩

theorem key_agree {n t : Nat} {ins : List PartyIn} (S : SetupK G n t ins)
    (fam : Nat → Polynomial (ZMod G.q.natAbs)) (hB : BindingHypG G n t ins fam)
    (i i' : Nat) (hi : i ∈ honestIdx ins) (hi' : i' ∈ honestIdx ins) (P P' : Party GenSt)
    (hP : (runGen G n t ins)[i]? = some P) (hP' : (runGen G n t ins)[i']? = some P') :
    P.st.qual = P'.st.qual ∧ P.st.y = P'.st.y ∧
    (∀ k ∈ P.st.qual, getI P.st.vi k = getI P'.st.vi k) ∧
    cp G P.st.y = (P.st.qual.map (fun j => cp G G.g ^ ((fam j).eval 0).val)).prod := by
  obtain ⟨Q, Afl, hqnd, hqlt, hqh, hfeld, hdeg, hall⟩ := kg_outcome S fam hB
  obtain ⟨P1, hP1, hF⟩ := hall i hi
  obtain ⟨P2, hP2, hF'⟩ := hall i' hi'
  rw [Option.some.inj (hP.symm.trans hP1)]
  rw [Option.some.inj (hP'.symm.trans hP2)]
  have hyi : P1.st.yi = P2.st.yi := hF.yi.trans hF'.yi.symm
  refine ⟨hF.qual.trans hF'.qual.symm, ?_, ?_, ?_⟩
  · rw [hF.y, hF'.y, hyi]
  · intro k _
    have := hF.vi.symm.trans hF'.vi
    rw [Except.ok.inj this]
  · rw [hF.qual]
    exact key_val S fam Q Afl hqlt hfeld i P1 hF

theorem share_matches_vk_run' {n t : Nat} {ins : List PartyIn} (S : SetupK G n t ins)
    (fam : Nat → Polynomial (ZMod G.q.natAbs)) (hB : BindingHypG G n t ins fam)
    (i : Nat) (hi : i ∈ honestIdx ins) (P : Party GenSt) (hP : (runGen G n t ins)[i]? = some P) :
    (∃ r, fspowm G.tabG G.g P.st.x G.p = .ok r ∧ r = getI P.st.vi i) ∧
    genCheckKey G P.st = .ok true := by
  have hG := S.hG
  have hq : 0 < G.q := hG.vg.q_pos
  have : Fact (Nat.Prime G.q.natAbs) := fact_q hG
  obtain ⟨Q, Afl, hqnd, hqlt, hqh, hfeld, hdeg, hall⟩ := kg_outcome S fam hB
  obtain ⟨P1, hP1, hF⟩ := hall i hi
  rw [Option.some.inj (hP.symm.trans hP1)]
  have hiQ : i ∈ Q := hqh i hi
  have hi1 : i < n := hqlt i hiQ
  -- `g^{x_i}`
  obtain ⟨hxc, hx0, hx1⟩ := sumMod_val (G := G) hq P1.st.s Q
  rw [← hF.x] at hxc hx0 hx1
  obtain ⟨r, hr, r0, r1, rv⟩ := fspowm_g hG P1.st.x (natAbs_lt_of_range ⟨hx0, hx1⟩)
  -- `v_i`
  obtain ⟨-, -, hfold⟩ := ra_viFold (fun jt => viOf G Q Afl jt) Q (zeros n) P1.st.vi hF.vi i
  obtain ⟨v, hv, hget⟩ := hfold hiQ hqnd (by simp [zeros, hi1])
  obtain ⟨v', hv', v0, v1, vv⟩ := kg_viOf_val hG Q Afl i
  rw [hv'] at hv
  have hvv' := Except.ok.inj hv
  subst hvv'
  have hprod := prod_feldman_at hG t Q Afl fam (fun j hj x => (hfeld j hj).2 x) (i + 1)
  have hsum := sum_shares_val (G := G) hq Q P1.st.s i fam hF.sfam
  rw [← hF.x] at hsum
  have hpt : ∀ j, (fam j).eval (pt G.q i) = (fam j).eval (((i + 1 : Nat)) : ZMod G.q.natAbs) := by
    intro j
    congr 1
    unfold pt
    push_cast
    rfl
  have hrv : r = v' := by
    apply cp_inj hG ⟨r0, r1⟩ ⟨v0, v1⟩
    rw [rv, vv, hprod, ka_gexp_cq hG, hsum]
    congr 3
    apply List.map_congr_left
    intro j _
    exact hpt j
  refine ⟨⟨r, hr, by rw [hrv, hget]⟩, ?_⟩
  unfold genCheckKey
  simp only [hr, hF.hi, hget, hrv, hF.own, bind, Except.bind, pure, Except.pure]
  simp

theorem interpolate_run {n t : Nat} {ins : List PartyIn} (S : SetupK G n t ins)
    (fam : Nat → Polynomial (ZMod G.q.natAbs)) (hB : BindingHypG G n t ins fam)
    (parties : List Nat) (hnd : parties.Nodup) (hlen : parties.length = t + 1)
    (hh : ∀ k ∈ parties, k ∈ honestIdx ins) (xs : Nat → Int)
    (hxs : ∀ k ∈ parties, ∃ Pk, (runGen G n t ins)[k]? = some Pk ∧ xs k = Pk.st.x)
    (i : Nat) (hi : i ∈ honestIdx ins) (P : Party GenSt) (hP : (runGen G n t ins)[i]? = some P) :
    ∃ v, lagrange0 G.q parties xs = some v ∧ 0 ≤ v ∧ v < G.q ∧ cp G G.g ^ v = cp G P.st.y := by
  have hG := S.hG
  have hq : 0 < G.q := hG.vg.q_pos
  have : Fact (Nat.Prime G.q.natAbs) := fact_q hG
  obtain ⟨Q, Afl, hqnd, hqlt, hqh, hfeld, hdeg, hall⟩ := kg_outcome S fam hB
  obtain ⟨P1, hP1, hF⟩ := hall i hi
  rw [Option.some.inj (hP.symm.trans hP1)]
  have hp : GoodParties G.q parties :=
    kg_goodParties_range S.hnq parties hnd (fun k hk => hqlt k (hqh k (hh k hk)))
  have hf : ∀ j ∈ Q, (fam j).degree < ((t + 1 : Nat) : WithBot Nat) := fun j hj => hdeg j (hqlt j hj)
  have hx : ∀ k ∈ parties, ((xs k : Int) : ZMod G.q.natAbs) =
      (Q.map (fun j => (fam j).eval (pt G.q k))).sum := by
    intro k hk
    obtain ⟨Pk, hPk, hxk⟩ := hxs k hk
    obtain ⟨Pk', hPk', hFk⟩ := hall k (hh k hk)
    rw [hxk, Option.some.inj (hPk.symm.trans hPk'), hFk.x]
    exact sum_shares_val (G := G) hq Q Pk'.st.s k fam hFk.sfam
  obtain ⟨v, hv, -, hgv⟩ := interpolate_secret hG Q t fam hf parties hp hlen xs hx
    (fun j => (((fam j).eval 0).val : Int)) (fun j _ => by simp)
  obtain ⟨hd, he⟩ := pl_listSum_poly Q fam t hf
  rw [← hlen] at hd
  obtain ⟨v', hv', v0, v1, -⟩ := lagrange0_val (q := G.q) hq parties hp ((Q.map fam).sum) hd xs
    (fun k hk => by rw [hx k hk, he])
  rw [hv] at hv'
  have hvv := Option.some.inj hv'
  subst hvv
  refine ⟨v, hv, v0, v1, ?_⟩
  rw [hgv, key_val S fam Q Afl hqlt hfeld i P1 hF]
  congr 1
  apply List.map_congr_left
  intro j _
  rw [zpow_natCast]

end Tmcg.DkgP
