import TmcgProofs.DkgKeyBase
/-
  C15: "all honest parties agree on the public key", success of `Generate`, consistency of the shares
  with the verification keys and with the key, for EVERY deviation script of at most `t` parties
  (`SetupK`), runs with reconstruction included, under the explicit binding hypothesis `BindingHypG`.

    * `generate_succeeds`      every honest party's `Generate` returns `true`
    * `key_agree`              all honest parties end with the same `y` and the same verification keys
                               `v_k` (`k ∈ QUAL`); `y = ∏_{j ∈ QUAL} g^{f_j(0)}`
    * `share_matches_vk_run'`  `CheckKey()` is true at every honest party (in particular `g^{x_i} = v_i`)
    * `interpolate_run`        any `t+1` honest parties' `x_i` interpolate to an `x` with `g^x = y`
-/
namespace Tmcg.DkgP
open Tmcg Tmcg.Powm Tmcg.Dkg Tmcg.Grp Tmcg.DkgL

variable {G : Dkg.Grp} [Fact (Nat.Prime G.p.natAbs)]

theorem generate_succeeds {n t : Nat} {ins : List PartyIn} (S : SetupK G n t ins)
    (fam : Nat → Polynomial (ZMod G.q.natAbs)) (hB : BindingHypG G n t ins fam)
    (i : Nat) (hi : i ∈ honestIdx ins) :
    ∃ P, (runGen G n t ins)[i]? = some P ∧ P.status = .ret true := by
  sorry

theorem key_agree {n t : Nat} {ins : List PartyIn} (S : SetupK G n t ins)
    (fam : Nat → Polynomial (ZMod G.q.natAbs)) (hB : BindingHypG G n t ins fam)
    (i i' : Nat) (hi : i ∈ honestIdx ins) (hi' : i' ∈ honestIdx ins) (P P' : Party GenSt)
    (hP : (runGen G n t ins)[i]? = some P) (hP' : (runGen G n t ins)[i']? = some P') :
    P.st.qual = P'.st.qual ∧ P.st.y = P'.st.y ∧
    (∀ k ∈ P.st.qual, getI P.st.vi k = getI P'.st.vi k) ∧
    cp G P.st.y = (P.st.qual.map (fun j => cp G G.g ^ ((fam j).eval 0).val)).prod := by
  sorry

theorem share_matches_vk_run' {n t : Nat} {ins : List PartyIn} (S : SetupK G n t ins)
    (fam : Nat → Polynomial (ZMod G.q.natAbs)) (hB : BindingHypG G n t ins fam)
    (i : Nat) (hi : i ∈ honestIdx ins) (P : Party GenSt) (hP : (runGen G n t ins)[i]? = some P) :
    (∃ r, fspowm G.tabG G.g P.st.x G.p = .ok r ∧ r = getI P.st.vi i) ∧
    genCheckKey G P.st = .ok true := by
  sorry

theorem interpolate_run {n t : Nat} {ins : List PartyIn} (S : SetupK G n t ins)
    (fam : Nat → Polynomial (ZMod G.q.natAbs)) (hB : BindingHypG G n t ins fam)
    (parties : List Nat) (hnd : parties.Nodup) (hlen : parties.length = t + 1)
    (hh : ∀ k ∈ parties, k ∈ honestIdx ins) (xs : Nat → Int)
    (hxs : ∀ k ∈ parties, ∃ Pk, (runGen G n t ins)[k]? = some Pk ∧ xs k = Pk.st.x)
    (i : Nat) (hi : i ∈ honestIdx ins) (P : Party GenSt) (hP : (runGen G n t ins)[i]? = some P) :
    ∃ v, lagrange0 G.q parties xs = some v ∧ 0 ≤ v ∧ v < G.q ∧ cp G G.g ^ v = cp G P.st.y := by
  sorry

end Tmcg.DkgP
