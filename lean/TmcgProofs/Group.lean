import Tmcg.Model.Vtmf
import Tmcg.Model.Sigma
import TmcgProofs.Base
import TmcgProofs.Powm
import Mathlib.Data.ZMod.Basic
import Mathlib.FieldTheory.Finite.Basic
import Mathlib.GroupTheory.OrderOfElement
import Mathlib.Algebra.Field.ZMod
import Mathlib.RingTheory.RootsOfUnity.PrimitiveRoots
/-
  Foundation for the protocol algebra (C01, C03, C04, C05, C08): a well-formed Schnorr group,
  the cast into the field `ZMod p`, and the value of every exponentiation routine of the model
  as a field power.  All later proofs work in `ZMod p` with `zpow`.
-/
namespace Tmcg.Grp
open Tmcg Tmcg.Powm Tmcg.Vtmf

/-- what `CheckGroup` establishes when the primality tests are right (C06):
    `p`, `q` prime, `g` of order `q` in `(ZMod p)ˣ`, `q` within the fixed-base table limit -/
structure ValidGroup (G : Group) : Prop where
  p_pos : 0 < G.p
  q_pos : 0 < G.q
  p_prime : Nat.Prime G.p.natAbs
  q_prime : Nat.Prime G.q.natAbs
  g_gt : 1 < G.g
  g_lt : G.g < G.p
  g_order : G.g ^ G.q.natAbs % G.p = 1
  q_fits : bitlen G.q ≤ Gen.TMCG_MAX_FPOWM_T

/-- the field the group lives in -/
abbrev F (G : Group) := ZMod G.p.natAbs

/-- cast of a model integer into the field -/
def toF (G : Group) (a : Int) : F G := (a : ZMod G.p.natAbs)

variable {G : Group}

-- the statements below keep the `Fact` instance argument even where the proof does not need it
set_option linter.unusedSectionVars false

theorem fact_prime (hG : ValidGroup G) : Fact (Nat.Prime G.p.natAbs) := ⟨hG.p_prime⟩

-- from here on the primality of `p` is available as an instance (so that `F G` is a field);
-- users obtain it with `haveI := fact_prime hG`
variable [Fact (Nat.Prime G.p.natAbs)]

theorem one_lt_p (hG : ValidGroup G) : 1 < G.p := by
  have := hG.g_gt; have := hG.g_lt; omega

omit [Fact (Nat.Prime G.p.natAbs)] in
/-- `p` is positive, so its absolute value casts back to `p` -/
theorem natAbs_p (hG : ValidGroup G) : ((G.p.natAbs : Nat) : Int) = G.p :=
  Int.natAbs_of_nonneg hG.p_pos.le

omit [Fact (Nat.Prime G.p.natAbs)] in
theorem natAbs_q (hG : ValidGroup G) : ((G.q.natAbs : Nat) : Int) = G.q :=
  Int.natAbs_of_nonneg hG.q_pos.le

omit [Fact (Nat.Prime G.p.natAbs)] in
/-- equality in the field is congruence modulo `p` -/
theorem toF_eq_iff (hG : ValidGroup G) (a b : Int) : toF G a = toF G b ↔ a % G.p = b % G.p := by
  unfold toF
  rw [ZMod.intCast_eq_intCast_iff, natAbs_p hG]
  rfl

omit [Fact (Nat.Prime G.p.natAbs)] in
theorem toF_congr (hG : ValidGroup G) {a b : Int} (h : a ≡ b [ZMOD G.p]) : toF G a = toF G b :=
  (toF_eq_iff hG a b).mpr h

omit [Fact (Nat.Prime G.p.natAbs)] in
theorem emod_bounds (hG : ValidGroup G) (a : Int) : 0 ≤ a % G.p ∧ a % G.p < G.p :=
  ⟨Int.emod_nonneg _ (ne_of_gt hG.p_pos), Int.emod_lt_of_pos _ hG.p_pos⟩

theorem toF_emod (hG : ValidGroup G) (a : Int) : toF G (a % G.p) = toF G a := by
  rw [toF_eq_iff hG]
  exact Int.emod_emod_of_dvd _ (dvd_refl _)

theorem toF_mul (a b : Int) : toF G (a * b) = toF G a * toF G b := by
  unfold toF; push_cast; rfl

theorem toF_pow (a : Int) (n : Nat) : toF G (a ^ n) = toF G a ^ n := by
  unfold toF; push_cast; rfl

theorem toF_one : toF G 1 = 1 := by unfold toF; push_cast; rfl

/-- reduced representatives are determined by their field value -/
theorem eq_of_toF_eq (hG : ValidGroup G) {a b : Int} (ha : 0 ≤ a ∧ a < G.p) (hb : 0 ≤ b ∧ b < G.p)
    (h : toF G a = toF G b) : a = b := by
  have h' := (toF_eq_iff hG a b).mp h
  rwa [Int.emod_eq_of_lt ha.1 ha.2, Int.emod_eq_of_lt hb.1 hb.2] at h'

theorem toF_eq_zero_iff (hG : ValidGroup G) (a : Int) : toF G a = 0 ↔ a % G.p = 0 := by
  have h0 : (0 : F G) = toF G 0 := by unfold toF; simp
  rw [h0, toF_eq_iff hG, Int.zero_emod]

/-- the generator is a unit of order exactly `q` -/
theorem g_ne_zero (hG : ValidGroup G) : toF G G.g ≠ 0 := by
  rw [Ne, toF_eq_zero_iff hG, Int.emod_eq_of_lt (by have := hG.g_gt; omega) hG.g_lt]
  have := hG.g_gt; omega

theorem g_pow_q (hG : ValidGroup G) : toF G G.g ^ G.q.natAbs = 1 := by
  rw [← toF_pow, ← toF_emod hG, hG.g_order, toF_one]

theorem g_orderOf (hG : ValidGroup G) : orderOf (toF G G.g) = G.q.natAbs := by
  have : Fact (Nat.Prime G.q.natAbs) := ⟨hG.q_prime⟩
  refine orderOf_eq_prime (g_pow_q hG) ?_
  intro h1
  rw [← toF_one (G := G)] at h1
  have := eq_of_toF_eq hG ⟨by have := hG.g_gt; omega, hG.g_lt⟩ ⟨by norm_num, one_lt_p hG⟩ h1
  have := hG.g_gt
  omega

/-- `t ↦ g^t` is injective below `q` -/
theorem g_pow_inj (hG : ValidGroup G) {t t' : Nat} (ht : t < G.q.natAbs) (ht' : t' < G.q.natAbs)
    (h : toF G G.g ^ t = toF G G.g ^ t') : t = t' := by
  rw [← g_orderOf hG] at ht ht'
  exact pow_injOn_Iio_orderOf ht ht' h

/-- exponents only matter modulo `q` for elements of the subgroup -/
theorem zpow_mod_q (hG : ValidGroup G) (a : F G) (ha : a ^ G.q.natAbs = 1) (ha0 : a ≠ 0) (e : Int) :
    a ^ (e % G.q) = a ^ e := by
  have h1 : a ^ G.q = 1 := by
    have : a ^ ((G.q.natAbs : Nat) : Int) = 1 := by rw [zpow_natCast]; exact ha
    rwa [natAbs_q hG] at this
  conv_rhs => rw [← Int.mul_ediv_add_emod e G.q]
  rw [zpow_add₀ ha0, zpow_mul, h1, one_zpow, one_mul]

/-! ### the arithmetic routines as field operations -/

/-- a model integer that is non-zero in the field is coprime to `p` -/
theorem gcd_eq_one_of_unit (hG : ValidGroup G) (a : Int) (ha : toF G a ≠ 0) :
    Int.gcd a G.p = 1 := by
  rw [Int.gcd_comm, Int.gcd_def]
  refine (Nat.Prime.coprime_iff_not_dvd hG.p_prime).mpr ?_
  intro hd
  apply ha
  rw [toF_eq_zero_iff hG]
  exact Int.emod_eq_zero_of_dvd (Int.natAbs_dvd_natAbs.mp hd)

omit [Fact (Nat.Prime G.p.natAbs)] in
theorem p_odd (hG : ValidGroup G) : G.p % 2 = 1 := by
  have h3 : 2 < G.p := by have := hG.g_gt; have := hG.g_lt; omega
  rcases hG.p_prime.eq_two_or_odd with h | h
  · omega
  · omega

/-- powers with exponent `|e|` as integer powers -/
theorem pow_natAbs_of_nonneg (x : F G) {e : Int} (he : 0 ≤ e) : x ^ e.natAbs = x ^ e := by
  conv_rhs => rw [← Int.natAbs_of_nonneg he]
  rw [zpow_natCast]

theorem inv_pow_natAbs_of_neg (x : F G) {e : Int} (he : e < 0) : (x ^ e.natAbs)⁻¹ = x ^ e := by
  have : e = -((e.natAbs : Nat) : Int) := by omega
  conv_rhs => rw [this]
  rw [zpow_neg, zpow_natCast]

/-- `invm` on a unit: the field inverse, reduced -/
theorem invm_val (hG : ValidGroup G) (a : Int) (ha : toF G a ≠ 0) :
    ∃ r, invm a G.p = some r ∧ 0 ≤ r ∧ r < G.p ∧ toF G r = (toF G a)⁻¹ := by
  obtain ⟨r, hr⟩ := invm_isSome_of_coprime (ne_of_gt hG.p_pos) (gcd_eq_one_of_unit hG a ha)
  obtain ⟨h0, h1, hc⟩ := invm_some hr
  rw [abs_of_pos hG.p_pos] at h1
  refine ⟨r, hr, h0, h1, ?_⟩
  have := toF_congr hG hc
  rw [toF_mul, toF_one] at this
  exact eq_inv_of_mul_eq_one_right this

theorem invm_none_iff (hG : ValidGroup G) (a : Int) : invm a G.p = none ↔ toF G a = 0 := by
  constructor
  · intro h
    by_contra h0
    obtain ⟨r, hr, -⟩ := invm_val hG a h0
    rw [h] at hr
    cases hr
  · intro h
    cases hinv : invm a G.p with
    | none => rfl
    | some r =>
      exfalso
      have := toF_congr hG (invm_some hinv).2.2
      rw [toF_mul, toF_one, h, zero_mul] at this
      exact zero_ne_one this

theorem mpzPowm_nonneg_aux (hG : ValidGroup G) (b e : Int) (he : 0 ≤ e) :
    ∃ r, mpzPowm b e G.p = .ok r ∧ 0 ≤ r ∧ r < G.p ∧ toF G r = toF G b ^ e.toNat := by
  refine ⟨b ^ e.toNat % G.p, ?_, (emod_bounds hG _).1, (emod_bounds hG _).2, ?_⟩
  · unfold mpzPowm
    simp only [ne_of_gt hG.p_pos, if_false, he, if_true, baz_eq b G.p hG.p_pos]
  · rw [toF_emod hG, toF_pow]

/-- `mpz_powm` on a unit base with any integer exponent -/
theorem mpzPowm_val (hG : ValidGroup G) (b e : Int) (hb : toF G b ≠ 0) :
    ∃ r, mpzPowm b e G.p = .ok r ∧ 0 ≤ r ∧ r < G.p ∧ toF G r = toF G b ^ e := by
  by_cases he : 0 ≤ e
  · obtain ⟨r, hr, h0, h1, hv⟩ := mpzPowm_nonneg_aux hG b e he
    refine ⟨r, hr, h0, h1, ?_⟩
    rw [hv, ← zpow_natCast, Int.toNat_of_nonneg he]
  · obtain ⟨bi, hbi, hb0, hb1, hbv⟩ := invm_val hG b hb
    have hval : ((powm bi.toNat (-e).toNat G.p.natAbs : Nat) : Int) = bi ^ (-e).toNat % G.p := by
      have := baz_eq bi G.p hG.p_pos (-e).toNat
      rwa [natAbs_p hG, Int.emod_eq_of_lt hb0 hb1] at this
    refine ⟨bi ^ (-e).toNat % G.p, ?_, (emod_bounds hG _).1, (emod_bounds hG _).2, ?_⟩
    · unfold mpzPowm
      simp only [ne_of_gt hG.p_pos, if_false, he, hbi, hval]
    · rw [toF_emod hG, toF_pow, hbv, inv_pow]
      have : e = -(((-e).toNat : Nat) : Int) := by omega
      conv_rhs => rw [this]
      rw [zpow_neg, zpow_natCast]

/-- `mpz_powm` with a non-negative exponent never fails, unit or not -/
theorem mpzPowm_nonneg (hG : ValidGroup G) (b e : Int) (he : 0 ≤ e) :
    ∃ r, mpzPowm b e G.p = .ok r ∧ 0 ≤ r ∧ r < G.p ∧ toF G r = toF G b ^ e.toNat :=
  mpzPowm_nonneg_aux hG b e he

/-- `tmcg_mpz_spowm` on a unit base -/
theorem spowm_val (hG : ValidGroup G) (b e : Int) (hb : toF G b ≠ 0) :
    ∃ r, spowm b e G.p = .ok r ∧ 0 ≤ r ∧ r < G.p ∧ toF G r = toF G b ^ e := by
  obtain ⟨r, hr, h0, h1, hv⟩ :=
    spowm_spec b e G.p (one_lt_p hG) (p_odd hG) (gcd_eq_one_of_unit hG b hb)
  refine ⟨r, hr, h0, h1, ?_⟩
  by_cases he : 0 ≤ e
  · rw [if_pos he] at hv
    rw [hv, toF_emod hG, toF_pow, pow_natAbs_of_nonneg _ he]
  · rw [if_neg he] at hv
    have h2 : toF G (r * b ^ e.natAbs) = toF G 1 := by
      rw [toF_eq_iff hG, hv, Int.emod_eq_of_lt (by norm_num) (one_lt_p hG)]
    rw [toF_mul, toF_pow, toF_one] at h2
    rw [← inv_pow_natAbs_of_neg _ (not_le.mp he)]
    exact eq_inv_of_mul_eq_one_left h2

/-- a table for base `b` built with the group's table length -/
def IsTable (G : Group) (T : Table) (b : Int) : Prop := precompute b G.p (tableLen G) = .ok T

theorem table_exists (hG : ValidGroup G) (b : Int) : ∃ T, IsTable G T b :=
  precompute_ok b G.p (tableLen G) (ne_of_gt hG.p_pos)

omit [Fact (Nat.Prime G.p.natAbs)] in
/-- exponents below `q` fit the table built with the group's table length -/
theorem bitlen_le_tableSize (hG : ValidGroup G) (e : Int) (he : e.natAbs < G.q.natAbs) :
    bitlen e ≤ tableSize (tableLen G) := by
  have hq := hG.q_fits
  have hq0 : G.q.natAbs ≠ 0 := by omega
  have hle : bitlen e ≤ bitlen G.q := by
    unfold bitlen
    simp only [hq0, if_false]
    by_cases h0 : e.natAbs = 0
    · simp [h0]
    · simp only [h0, if_false]
      have h1 := Nat.log2_self_le h0
      have : e.natAbs.log2 ≤ G.q.natAbs.log2 := (Nat.le_log2 hq0).mpr (by omega)
      omega
  have hpos : 1 ≤ bitlen G.q := by
    unfold bitlen; simp only [hq0, if_false]; omega
  unfold tableSize tableLen
  omega

/-- `tmcg_mpz_fpowm` / `fspowm` on their table base (a unit), exponent `|e| < q` -/
theorem fpowm_val (hG : ValidGroup G) (T : Table) (b e : Int) (hT : IsTable G T b)
    (hb : toF G b ≠ 0) (he : e.natAbs < G.q.natAbs) :
    ∃ r, fpowm T b e G.p = .ok r ∧ 0 ≤ r ∧ r < G.p ∧ toF G r = toF G b ^ e := by
  rw [fpowm_spec b G.p (tableLen G) (one_lt_p hG) T hT e (bitlen_le_tableSize hG e he)]
  by_cases h0 : 0 ≤ e
  · rw [if_pos h0]
    refine ⟨_, rfl, (emod_bounds hG _).1, (emod_bounds hG _).2, ?_⟩
    rw [toF_emod hG, toF_pow, pow_natAbs_of_nonneg _ h0]
  · rw [if_neg h0]
    have hne : toF G (b ^ e.natAbs % G.p) ≠ 0 := by
      rw [toF_emod hG, toF_pow]; exact pow_ne_zero _ hb
    obtain ⟨r, hr, hr0, hr1, hv⟩ := invm_val hG _ hne
    refine ⟨r, by rw [hr], hr0, hr1, ?_⟩
    rw [hv, toF_emod hG, toF_pow, inv_pow_natAbs_of_neg _ (not_le.mp h0)]

theorem fspowm_val (hG : ValidGroup G) (T : Table) (b e : Int) (hT : IsTable G T b)
    (hb : toF G b ≠ 0) (he : e.natAbs < G.q.natAbs) :
    ∃ r, fspowm T b e G.p = .ok r ∧ 0 ≤ r ∧ r < G.p ∧ toF G r = toF G b ^ e := by
  rw [fspowm_spec b G.p (tableLen G) (one_lt_p hG) T hT e (bitlen_le_tableSize hG e he)]
  have hne : toF G (b ^ e.natAbs % G.p) ≠ 0 := by
    rw [toF_emod hG, toF_pow]; exact pow_ne_zero _ hb
  obtain ⟨r, hr, hr0, hr1, hv⟩ := invm_val hG _ hne
  simp only [hr]
  by_cases h0 : 0 ≤ e
  · simp only [h0, if_true]
    refine ⟨_, rfl, (emod_bounds hG _).1, (emod_bounds hG _).2, ?_⟩
    rw [toF_emod hG, toF_pow, pow_natAbs_of_nonneg _ h0]
  · simp only [h0, if_false]
    refine ⟨r, rfl, hr0, hr1, ?_⟩
    rw [hv, toF_emod hG, toF_pow, inv_pow_natAbs_of_neg _ (not_le.mp h0)]

theorem fpowmUi_val (hG : ValidGroup G) (T : Table) (b : Int) (e : Nat) (hT : IsTable G T b)
    (he : e < G.q.natAbs) :
    ∃ r, fpowmUi T b e G.p = .ok r ∧ 0 ≤ r ∧ r < G.p ∧ toF G r = toF G b ^ e := by
  rw [fpowmUi_spec b G.p (tableLen G) (one_lt_p hG) T hT e
    (bitlen_le_tableSize hG e (by simpa using he))]
  refine ⟨_, rfl, (emod_bounds hG _).1, (emod_bounds hG _).2, ?_⟩
  rw [toF_emod hG, toF_pow]

/-- `CheckElement` (Schnorr-group flavour) decides membership in the order-`q` subgroup -/
theorem checkElement_iff (hG : ValidGroup G) (a : Int) :
    Sigma.checkElement .schnorr G a = true ↔
      (0 < a ∧ a < G.p ∧ toF G a ^ G.q.natAbs = 1) := by
  unfold Sigma.checkElement
  by_cases hr : a ≤ 0 ∨ G.p ≤ a
  · rw [if_pos hr]
    constructor
    · intro h; cases h
    · rintro ⟨h1, h2, -⟩; omega
  · rw [if_neg hr]
    have ha0 : 0 < a := by omega
    have ha1 : a < G.p := by omega
    have hq : G.q.toNat = G.q.natAbs := by have := hG.q_pos; omega
    have hp : G.p.toNat = G.p.natAbs := by have := hG.p_pos; omega
    have hval : ((powm a.toNat G.q.toNat G.p.toNat : Nat) : Int) = a ^ G.q.natAbs % G.p := by
      have := baz_eq a G.p hG.p_pos G.q.natAbs
      rw [natAbs_p hG, Int.emod_eq_of_lt ha0.le ha1] at this
      rw [hq, hp]; exact this
    have hfield : toF G a ^ G.q.natAbs = 1 ↔ a ^ G.q.natAbs % G.p = 1 := by
      rw [← toF_pow, ← toF_one (G := G), toF_eq_iff hG,
        Int.emod_eq_of_lt (by norm_num : (0:Int) ≤ 1) (one_lt_p hG)]
    simp only [beq_iff_eq, hfield, ← hval]
    constructor
    · intro h; exact ⟨ha0, ha1, by rw [h]; rfl⟩
    · rintro ⟨-, -, h⟩; exact_mod_cast h

/-- members of the order-`q` subgroup are powers of `g` -/
theorem exists_log (hG : ValidGroup G) (a : F G) (ha : a ^ G.q.natAbs = 1) :
    ∃ e : Nat, e < G.q.natAbs ∧ a = toF G G.g ^ e := by
  have : NeZero G.q.natAbs := ⟨hG.q_prime.ne_zero⟩
  have hprim : IsPrimitiveRoot (toF G G.g) G.q.natAbs := by
    have := IsPrimitiveRoot.orderOf (toF G G.g)
    rwa [g_orderOf hG] at this
  obtain ⟨i, hi, hia⟩ := hprim.eq_pow_of_pow_eq_one ha
  exact ⟨i, hi, hia.symm⟩

end Tmcg.Grp
