import Tmcg.Model.Vtmf
import Tmcg.Model.Sigma
import TmcgProofs.Base
import TmcgProofs.Powm
import Mathlib.Data.ZMod.Basic
import Mathlib.FieldTheory.Finite.Basic
import Mathlib.GroupTheory.OrderOfElement
import Mathlib.Algebra.Field.ZMod
/-
  Foundation for the protocol algebra (C01, C03, C04, C05, C08): a well-formed Schnorr group,
  the cast into the field `ZMod p`, and the value of every exponentiation routine of the model
  as a field power.  All later proofs work in `ZMod p` with `zpow`.
-/
namespace Tmcg.Grp
open Tmcg Tmcg.Powm Tmcg.Vtmf

/-- what `CheckGroup` establishes when the primality tests are right (C06):
    `p`, `q` prime, `g` of order `q` in `(ZMod p)ˣ`, `q` within the fixed-base table limit -/
structure ValidGroup (G : Group) : Prop where
  p_pos : 0 < G.p
  q_pos : 0 < G.q
  p_prime : Nat.Prime G.p.natAbs
  q_prime : Nat.Prime G.q.natAbs
  g_gt : 1 < G.g
  g_lt : G.g < G.p
  g_order : G.g ^ G.q.natAbs % G.p = 1
  q_fits : bitlen G.q ≤ Gen.TMCG_MAX_FPOWM_T

/-- the field the group lives in -/
abbrev F (G : Group) := ZMod G.p.natAbs

/-- cast of a model integer into the field -/
def toF (G : Group) (a : Int) : F G := (a : ZMod G.p.natAbs)

variable {G : Group}

theorem fact_prime (hG : ValidGroup G) : Fact (Nat.Prime G.p.natAbs) := ⟨hG.p_prime⟩

-- from here on the primality of `p` is available as an instance (so that `F G` is a field);
-- users obtain it with `haveI := fact_prime hG`
variable [Fact (Nat.Prime G.p.natAbs)]

theorem one_lt_p (hG : ValidGroup G) : 1 < G.p := by
  sorry

theorem toF_emod (hG : ValidGroup G) (a : Int) : toF G (a % G.p) = toF G a := by
  sorry

theorem toF_mul (a b : Int) : toF G (a * b) = toF G a * toF G b := by
  unfold toF; push_cast; rfl

theorem toF_pow (a : Int) (n : Nat) : toF G (a ^ n) = toF G a ^ n := by
  unfold toF; push_cast; rfl

theorem toF_one : toF G 1 = 1 := by unfold toF; push_cast; rfl

/-- reduced representatives are determined by their field value -/
theorem eq_of_toF_eq (hG : ValidGroup G) {a b : Int} (ha : 0 ≤ a ∧ a < G.p) (hb : 0 ≤ b ∧ b < G.p)
    (h : toF G a = toF G b) : a = b := by
  sorry

theorem toF_eq_zero_iff (hG : ValidGroup G) (a : Int) : toF G a = 0 ↔ a % G.p = 0 := by
  sorry

/-- the generator is a unit of order exactly `q` -/
theorem g_ne_zero (hG : ValidGroup G) : toF G G.g ≠ 0 := by
  sorry

theorem g_pow_q (hG : ValidGroup G) : toF G G.g ^ G.q.natAbs = 1 := by
  sorry

theorem g_orderOf (hG : ValidGroup G) : orderOf (toF G G.g) = G.q.natAbs := by
  sorry

/-- `t ↦ g^t` is injective below `q` -/
theorem g_pow_inj (hG : ValidGroup G) {t t' : Nat} (ht : t < G.q.natAbs) (ht' : t' < G.q.natAbs)
    (h : toF G G.g ^ t = toF G G.g ^ t') : t = t' := by
  sorry

/-- exponents only matter modulo `q` for elements of the subgroup -/
theorem zpow_mod_q (hG : ValidGroup G) (a : F G) (ha : a ^ G.q.natAbs = 1) (ha0 : a ≠ 0) (e : Int) :
    a ^ (e % G.q) = a ^ e := by
  sorry

/-! ### the arithmetic routines as field operations -/

/-- `invm` on a unit: the field inverse, reduced -/
theorem invm_val (hG : ValidGroup G) (a : Int) (ha : toF G a ≠ 0) :
    ∃ r, invm a G.p = some r ∧ 0 ≤ r ∧ r < G.p ∧ toF G r = (toF G a)⁻¹ := by
  sorry

theorem invm_none_iff (hG : ValidGroup G) (a : Int) : invm a G.p = none ↔ toF G a = 0 := by
  sorry

/-- `mpz_powm` on a unit base with any integer exponent -/
theorem mpzPowm_val (hG : ValidGroup G) (b e : Int) (hb : toF G b ≠ 0) :
    ∃ r, mpzPowm b e G.p = .ok r ∧ 0 ≤ r ∧ r < G.p ∧ toF G r = toF G b ^ e := by
  sorry

/-- `mpz_powm` with a non-negative exponent never fails, unit or not -/
theorem mpzPowm_nonneg (hG : ValidGroup G) (b e : Int) (he : 0 ≤ e) :
    ∃ r, mpzPowm b e G.p = .ok r ∧ 0 ≤ r ∧ r < G.p ∧ toF G r = toF G b ^ e.toNat := by
  sorry

/-- `tmcg_mpz_spowm` on a unit base -/
theorem spowm_val (hG : ValidGroup G) (b e : Int) (hb : toF G b ≠ 0) :
    ∃ r, spowm b e G.p = .ok r ∧ 0 ≤ r ∧ r < G.p ∧ toF G r = toF G b ^ e := by
  sorry

/-- a table for base `b` built with the group's table length -/
def IsTable (G : Group) (T : Table) (b : Int) : Prop := precompute b G.p (tableLen G) = .ok T

theorem table_exists (hG : ValidGroup G) (b : Int) : ∃ T, IsTable G T b := by
  sorry

/-- `tmcg_mpz_fpowm` / `fspowm` on their table base (a unit), exponent `|e| < q` -/
theorem fpowm_val (hG : ValidGroup G) (T : Table) (b e : Int) (hT : IsTable G T b)
    (hb : toF G b ≠ 0) (he : e.natAbs < G.q.natAbs) :
    ∃ r, fpowm T b e G.p = .ok r ∧ 0 ≤ r ∧ r < G.p ∧ toF G r = toF G b ^ e := by
  sorry

theorem fspowm_val (hG : ValidGroup G) (T : Table) (b e : Int) (hT : IsTable G T b)
    (hb : toF G b ≠ 0) (he : e.natAbs < G.q.natAbs) :
    ∃ r, fspowm T b e G.p = .ok r ∧ 0 ≤ r ∧ r < G.p ∧ toF G r = toF G b ^ e := by
  sorry

theorem fpowmUi_val (hG : ValidGroup G) (T : Table) (b : Int) (e : Nat) (hT : IsTable G T b)
    (he : e < G.q.natAbs) :
    ∃ r, fpowmUi T b e G.p = .ok r ∧ 0 ≤ r ∧ r < G.p ∧ toF G r = toF G b ^ e := by
  sorry

/-- `CheckElement` (Schnorr-group flavour) decides membership in the order-`q` subgroup -/
theorem checkElement_iff (hG : ValidGroup G) (a : Int) :
    Sigma.checkElement .schnorr G a = true ↔
      (0 < a ∧ a < G.p ∧ toF G a ^ G.q.natAbs = 1) := by
  sorry

/-- members of the order-`q` subgroup are powers of `g` -/
theorem exists_log (hG : ValidGroup G) (a : F G) (ha : a ^ G.q.natAbs = 1) :
    ∃ e : Nat, e < G.q.natAbs ∧ a = toF G G.g ^ e := by
  sorry

end Tmcg.Grp
