import TmcgProofs.ArgsSoundSkcModes
/-
  C04 for Groth's shuffle argument, part 4: the shuffle argument (`GrothVSSHE`) played by the honest
  prover algorithm with a witness that need not fit the statement: an output stack `E` that is not
  the re-encryption of the permuted input stack, or an index map `pi` that is no permutation.
  Acceptance implies (a) the exceptional event of the inner shuffle of known content and (b) an
  explicit relation, linear in the exponents, between the challenges `t_1 … t_n`.
-/
namespace Tmcg.Args
open Tmcg Tmcg.Powm Tmcg.Vtmf Tmcg.Grp Tmcg.Sigma Tmcg.SigmaComplete Tmcg.CoinFlip Tmcg.ArgsSound
variable {G : Group} [Fact (Nat.Prime G.p.natAbs)] [Fact (Nat.Prime G.q.natAbs)]
set_option linter.unusedVariables false
set_option linter.unusedSectionVars false

/-- what the honest prover ALGORITHM needs to run (no claim that the statement is true): sizes,
    indices below `n`, stacks of subgroup elements -/
structure ShufAlg (G : Group) [Fact (Nat.Prime G.p.natAbs)] (P : GrothPub) (pi : List ℕ) (R : List ℤ)
    (e E : List Card) : Prop where
  n2 : 2 ≤ pi.length
  bound : ∀ j ∈ pi, j < pi.length
  lR : R.length = pi.length
  le : e.length = pi.length
  lE : E.length = pi.length
  lcg : pi.length ≤ P.cg.length
  small : (pi.length : ℤ) < G.q
  sub : ∀ j < pi.length, Sub G (e.getD j ⟨0, 0⟩).c1 ∧ Sub G (e.getD j ⟨0, 0⟩).c2
  subE : ∀ j < pi.length, Sub G (E.getD j ⟨0, 0⟩).c1 ∧ Sub G (E.getD j ⟨0, 0⟩).c2

theorem ShufStmt.toAlg {P : GrothPub} {pi : List ℕ} {R : List ℤ} {e E : List Card} (hG : ValidGroup G)
    (hP : PubOk G P) (st : ShufStmt G P pi R e E) : ShufAlg G P pi R e E :=
  ⟨st.n2, fun j hj => List.mem_range.mp (st.perm.subset hj), st.lR, st.le, st.lE, st.lcg, st.small,
    st.sub, st.subE hG hP⟩

theorem grothMove1_spec' (hG : ValidGroup G) {P : GrothPub} (hP : PubOk G P) (pi : List ℕ) (R : List ℤ)
    (e E : List Card) (st : ShufAlg G P pi R e E) (r Rd : ℤ) (d : List ℤ) (rd : ℤ) (rest : List ℤ)
    (hr : 0 ≤ r ∧ r < G.q) (hRd : 0 ≤ Rd ∧ Rd < G.q) (hd : InQ G.q d) (hrd : 0 ≤ rd ∧ rd < G.q)
    (ld : d.length = pi.length) (peer : List (Option ℤ)) (sent : List ℤ) (tr : Bool) :
    ∃ c cd Ed,
      grothMove1 P pi E ⟨peer, r :: Rd :: (d ++ (rd :: rest)), sent, tr⟩ =
        .ok ⟨r, Rd, d, rd, c, cd, Ed⟩ ⟨peer, rest, sent ++ [c, cd, Ed.c1, Ed.c2], tr⟩ ∧
      Val G c (comVal G P pi.length (fun i => (pi.map fun (j : ℕ) => (Int.ofNat j + 1)).getD i 0) r) ∧
      Val G cd (comVal G P pi.length (fun i => (d.map fun v => -v).getD i 0) rd) ∧
      Val G Ed.c1 ((∏ i ∈ Finset.range pi.length, toF G (E.getD i ⟨0, 0⟩).c1 ^ (-(d.getD i 0))) *
        toF G G.g ^ Rd) ∧
      Val G Ed.c2 ((∏ i ∈ Finset.range pi.length, toF G (E.getD i ⟨0, 0⟩).c2 ^ (-(d.getD i 0))) *
        toF G P.S.h ^ Rd) := by
  have hq := hG.q_pos
  have hsm := st.small
  obtain ⟨c, hc, vc⟩ := commitBy_val hG hP r (pi.map fun (j : ℕ) => (Int.ofNat j + 1))
    (by simp; exact st.lcg) hr (by
      intro v hv
      obtain ⟨j, hj, rfl⟩ := List.mem_map.mp hv
      have : j < pi.length := st.bound j hj
      simp only [Int.ofNat_eq_natCast]; omega)
  obtain ⟨cd, hcd, vcd⟩ := commitBy_val hG hP rd (d.map fun v => -v) (by simp [ld]; exact st.lcg) hrd (by
      intro v hv
      obtain ⟨w, hw, rfl⟩ := List.mem_map.mp hv
      have := natAbs_lt_of_range hG (hd w hw)
      simpa using this)
  obtain ⟨Ed, hEd, v1, v2⟩ := grothEd_val hG hP E d Rd pi.length st.lE ld hRd
    (fun i hi => ⟨(st.subE i hi).1.ne_zero hG, (st.subE i hi).2.ne_zero hG⟩)
  simp only [List.length_map] at vc vcd
  rw [ld] at vcd
  refine ⟨c, cd, Ed, ?_, vc, vcd, v1, v2⟩
  simp only [grothMove1]
  rw [bind_ok (draw_spec peer r _ sent tr), bind_ok (draw_spec peer Rd _ sent tr)]
  rw [bind_ok (drawN_spec _ peer d _ sent tr ld), bind_ok (draw_spec peer rd _ sent tr)]
  rw [bind_ok (liftE_ok hc _), bind_ok (liftE_ok hcd _), bind_ok (liftE_ok hEd _)]
  rw [bind_ok (send_apply _ _), bind_ok (send_apply _ _), bind_ok (send_apply _ _),
    bind_ok (send_apply _ _)]
  simp [pure_apply, List.append_assoc]

/-! ### the final product equation, converse direction -/

/-- if the last check of the shuffle argument holds, the product equation holds in the field -/
theorem grothFinal_true (hG : ValidGroup G) {P : GrothPub} (hP : PubOk G P) (e E : List Card)
    (t f : List ℤ) (Ed : Card) (Z : ℤ) (n : ℕ) (le : e.length = n) (lE : E.length = n)
    (lt : t.length = n) (lf : f.length = n)
    (hsube : ∀ j < n, toF G (e.getD j ⟨0, 0⟩).c1 ≠ 0 ∧ toF G (e.getD j ⟨0, 0⟩).c2 ≠ 0)
    (hsubE : ∀ j < n, toF G (E.getD j ⟨0, 0⟩).c1 ≠ 0 ∧ toF G (E.getD j ⟨0, 0⟩).c2 ≠ 0)
    (hZ : 0 ≤ Z ∧ Z < G.q) (h : grothFinal P e E t f Ed Z = .ok true) :
    (∏ i ∈ Finset.range n, toF G (E.getD i ⟨0, 0⟩).c1 ^ f.getD i 0) * toF G Ed.c1 *
        (∏ i ∈ Finset.range n, (toF G (e.getD i ⟨0, 0⟩).c1 ^ t.getD i 0)⁻¹) = toF G G.g ^ Z ∧
    (∏ i ∈ Finset.range n, toF G (E.getD i ⟨0, 0⟩).c2 ^ f.getD i 0) * toF G Ed.c2 *
        (∏ i ∈ Finset.range n, (toF G (e.getD i ⟨0, 0⟩).c2 ^ t.getD i 0)⁻¹) = toF G P.S.h ^ Z := by
  have hp1 := one_lt_p hG
  have hue : ∀ y ∈ e.zip t, toF G y.1.c1 ≠ 0 ∧ toF G y.1.c2 ≠ 0 := by
    intro y hy
    rw [zip_range e t ⟨0, 0⟩ 0 n le lt] at hy
    obtain ⟨i, hi, rfl⟩ := List.mem_map.mp hy
    exact hsube i (List.mem_range.mp hi)
  have huE : ∀ y ∈ E.zip f, toF G y.1.c1 ≠ 0 ∧ toF G y.1.c2 ≠ 0 := by
    intro y hy
    rw [zip_range E f ⟨0, 0⟩ 0 n lE lf] at hy
    obtain ⟨i, hi, rfl⟩ := List.mem_map.mp hy
    exact hsubE i (List.mem_range.mp hi)
  obtain ⟨L2, hL2, a1, a2⟩ := prodInv_val hG (e.zip t) ⟨1, 1⟩ ⟨by norm_num, hp1⟩ ⟨by norm_num, hp1⟩ hue
  obtain ⟨L3, hL3, b1, b2⟩ := pairFold_val hG (fun b k => mpzPowm b k G.p) (fun k => k)
    (fun b k hb => mpzPowm_val hG b k hb) (E.zip f) ⟨1, 1⟩ ⟨by norm_num, hp1⟩ ⟨by norm_num, hp1⟩ huE
  obtain ⟨r1, hr1, c0, cp, r1v⟩ := fpowm_val hG P.S.tabG G.g Z hP.st.tabG (g_ne hG) (natAbs_lt_of_range hG hZ)
  obtain ⟨r2, hr2, d0, dp, r2v⟩ := fpowm_val hG P.S.tabH P.S.h Z hP.st.tabH (h_ne hG P.S hP.st)
    (natAbs_lt_of_range hG hZ)
  obtain ⟨-, -, m1⟩ := mulmod_val hG L3.c1 Ed.c1
  obtain ⟨x0, xp, m2⟩ := mulmod_val hG (L3.c1 * Ed.c1 % G.p) L2.c1
  obtain ⟨-, -, m3⟩ := mulmod_val hG L3.c2 Ed.c2
  obtain ⟨y0, yp, m4⟩ := mulmod_val hG (L3.c2 * Ed.c2 % G.p) L2.c2
  have hInv : grothProdInv G.p e t = .ok (some L2) := hL2
  have hPow : grothProdPow G.p E f = .ok L3 := hL3
  simp only [grothFinal, hP.st.grp, hInv, hPow, bind, Except.bind, hr1, hr2, pure, Except.pure] at h
  have h' : (L3.c1 * Ed.c1 % G.p * L2.c1 % G.p == r1 && L3.c2 * Ed.c2 % G.p * L2.c2 % G.p == r2) = true := by
    simpa using h
  rw [Bool.and_eq_true, beq_iff_eq, beq_iff_eq] at h'
  constructor
  · have := congrArg (toF G) h'.1
    rw [m2, m1, b1.2.2, a1.2.2, r1v,
      prod_zip_range E ⟨0, 0⟩ f n lE lf (fun y k => toF G y.c1 ^ k),
      prod_zip_range e ⟨0, 0⟩ t n le lt (fun y k => (toF G y.c1 ^ k)⁻¹)] at this
    rw [← this]
    show _ = toF G 1 * _ * _ * (toF G 1 * _)
    rw [toF_one, one_mul, one_mul]
  · have := congrArg (toF G) h'.2
    rw [m4, m3, b2.2.2, a2.2.2, r2v,
      prod_zip_range E ⟨0, 0⟩ f n lE lf (fun y k => toF G y.c2 ^ k),
      prod_zip_range e ⟨0, 0⟩ t n le lt (fun y k => (toF G y.c2 ^ k)⁻¹)] at this
    rw [← this]
    show _ = toF G 1 * _ * _ * (toF G 1 * _)
    rw [toF_one, one_mul, one_mul]

/-- the relation, linear in the exponents, that the last check imposes on the challenges `t`:
    `Π E_i^{t_{π(i)}} · Π e_i^{-t_i} = E(1; Σ R_i t_{π(i)})` (both components) -/
def GrothRel (G : Group) [Fact (Nat.Prime G.p.natAbs)] (P : GrothPub) (pi : List ℕ) (R : List ℤ)
    (e E : List Card) (t : List ℤ) : Prop :=
  ((∏ i ∈ Finset.range pi.length, toF G (E.getD i ⟨0, 0⟩).c1 ^ t.getD (pi.getD i 0) 0) *
      (∏ i ∈ Finset.range pi.length, (toF G (e.getD i ⟨0, 0⟩).c1 ^ t.getD i 0)⁻¹) =
    toF G G.g ^ (∑ i ∈ Finset.range pi.length, R.getD i 0 * t.getD (pi.getD i 0) 0)) ∧
  ((∏ i ∈ Finset.range pi.length, toF G (E.getD i ⟨0, 0⟩).c2 ^ t.getD (pi.getD i 0) 0) *
      (∏ i ∈ Finset.range pi.length, (toF G (e.getD i ⟨0, 0⟩).c2 ^ t.getD i 0)⁻¹) =
    toF G P.S.h ^ (∑ i ∈ Finset.range pi.length, R.getD i 0 * t.getD (pi.getD i 0) 0))

/-- one component of the product equation on the honest algorithm's values -/
theorem groth_rel_alg (hG : ValidGroup G) (n : ℕ) (Ev ev : ℕ → F G) (b : F G) (hb0 : b ≠ 0)
    (hbq : b ^ G.q.natAbs = 1) (hE : ∀ i < n, Ev i ^ G.q.natAbs = 1)
    (f d tp R : ℕ → ℤ) (tt : ℕ → ℤ) (Z Rd : ℤ) (Edv : F G)
    (hf : ∀ i < n, toQ G (f i) = toQ G (d i + tp i))
    (hZ : toQ G Z = toQ G (Rd + ∑ i ∈ Finset.range n, R i * tp i))
    (hEd : Edv = (∏ i ∈ Finset.range n, Ev i ^ (-(d i))) * b ^ Rd)
    (h : (∏ i ∈ Finset.range n, Ev i ^ f i) * Edv * (∏ i ∈ Finset.range n, (ev i ^ tt i)⁻¹) = b ^ Z) :
    (∏ i ∈ Finset.range n, Ev i ^ tp i) * (∏ i ∈ Finset.range n, (ev i ^ tt i)⁻¹) =
      b ^ (∑ i ∈ Finset.range n, R i * tp i) := by
  have hE0 : ∀ i < n, Ev i ≠ 0 := fun i hi => ne_zero_of_pow_eq_one (q_natAbs_ne_zero hG) (hE i hi)
  have h1 : (∏ i ∈ Finset.range n, Ev i ^ f i) =
      (∏ i ∈ Finset.range n, Ev i ^ d i) * ∏ i ∈ Finset.range n, Ev i ^ tp i := by
    rw [← Finset.prod_mul_distrib]
    apply Finset.prod_congr rfl
    intro i hi
    have hi' := Finset.mem_range.mp hi
    rw [zpow_toQ hG _ (hE i hi') (hf i hi'), zpow_add₀ (hE0 i hi')]
  have h2 : (∏ i ∈ Finset.range n, Ev i ^ d i) * (∏ i ∈ Finset.range n, Ev i ^ (-(d i))) = 1 := by
    rw [← Finset.prod_mul_distrib]
    apply Finset.prod_eq_one
    intro i hi
    rw [← zpow_add₀ (hE0 i (Finset.mem_range.mp hi))]; simp
  rw [zpow_toQ hG b hbq hZ, zpow_add₀ hb0, h1, hEd] at h
  have h3 : (∏ i ∈ Finset.range n, Ev i ^ tp i) * (∏ i ∈ Finset.range n, (ev i ^ tt i)⁻¹) * b ^ Rd =
      b ^ (∑ i ∈ Finset.range n, R i * tp i) * b ^ Rd := by
    calc _ = ((∏ i ∈ Finset.range n, Ev i ^ d i) * (∏ i ∈ Finset.range n, Ev i ^ (-(d i)))) *
          ((∏ i ∈ Finset.range n, Ev i ^ tp i) * (∏ i ∈ Finset.range n, (ev i ^ tt i)⁻¹) * b ^ Rd) := by
            rw [h2, one_mul]
      _ = (∏ i ∈ Finset.range n, Ev i ^ d i) * (∏ i ∈ Finset.range n, Ev i ^ tp i) *
          ((∏ i ∈ Finset.range n, Ev i ^ (-(d i))) * b ^ Rd) *
          (∏ i ∈ Finset.range n, (ev i ^ tt i)⁻¹) := by ring
      _ = _ := by rw [h]; ring
  exact mul_right_cancel₀ (zpow_ne_zero _ hb0) h3

/-! ### the shuffle argument in any mode: honest algorithm, arbitrary witness -/

theorem groth_sound_modes (hG : ValidGroup G) (mode : Mode) {P : GrothPub} (hP : PubOk G P) (pi : List ℕ)
    (R : List ℤ) (e E : List Card) (st : ShufAlg G P pi R e E)
    (T : List ChalSrc) (lT : T.length = pi.length) (hT : ∀ d ∈ T, GChalOk mode P false d)
    (L X Es : ChalSrc) (hL : GChalOk mode P false L) (hX : GChalOk mode P false X)
    (hEs : GChalOk mode P true Es)
    (r Rd : ℤ) (d : List ℤ) (rd rd' rD' : ℤ) (d' mid : List ℤ) (ra : ℤ) (rest : List ℤ) (alpha : ℤ)
    (hr : 0 ≤ r ∧ r < G.q) (hRd : 0 ≤ Rd ∧ Rd < G.q) (hd : InQ G.q d) (hrd : 0 ≤ rd ∧ rd < G.q)
    (hrd' : 0 ≤ rd' ∧ rd' < G.q) (hrD' : 0 ≤ rD' ∧ rD' < G.q) (hd' : InQ G.q d') (hmid : InQ G.q mid)
    (hra : 0 ≤ ra ∧ ra < G.q) (ld : d.length = pi.length) (ld' : d'.length = pi.length)
    (lmid : mid.length = pi.length - 2) :
    ∃ (c cd : ℤ) (Ed : Card) (f : List ℤ) (Z : ℤ) (a resp t msgs : List ℤ) (lambda x ev : ℤ),
      a.length = 3 ∧ f.length = pi.length ∧ t.length = pi.length ∧
      t = tVals P e E c cd Ed T 0 (P.lnizk : ℤ) ∧
      lambda = L.val (fun _ => grothHashL P e E t f Z) ∧
      msgs = grothMsgs G.q lambda t ∧
      x = X.val (fun _ => P.cg ++ msgs ++ comPqh P) ∧
      ev = Es.val (fun _ => P.cg ++ msgs ++ x :: a) ∧
      run (done (grothProve mode P pi R e E))
        ⟨(gVerifierLines T L X Es).map some, gProverCoins T L X Es r Rd d rd rd' rD' d' mid ra rest, [], false⟩ =
        .ok ⟨[c, cd, Ed.c1, Ed.c2] ++ (T.flatMap ChalSrc.pSent ++ (f ++ (Z :: (L.pSent ++ (X.pSent ++
          (a ++ (Es.pSent ++ resp))))))), true, false⟩ ∧
      ∀ o : PcOutcome, o.result = true →
        run (grothVerify mode P e E)
          ⟨([c, cd, Ed.c1, Ed.c2] ++ (T.flatMap ChalSrc.pSent ++ (f ++ (Z :: (L.pSent ++ (X.pSent ++
            (a ++ (Es.pSent ++ resp)))))))).map some, gVerifierCoins T L X Es alpha, [], false⟩ = .ok o →
        GrothRel G P pi R e E t ∧ toQ G ev ≠ 0 ∧ SkcRoot G pi msgs x := by
  have hn := st.n2
  have hq := hG.q_pos
  obtain ⟨c, cd, Ed, hmove, vc, vcd, v1, v2⟩ := grothMove1_spec' hG hP pi R e E st r Rd d rd
    (T.flatMap ChalSrc.pCoins ++ (L.pCoins ++ (X.pCoins ++
      (rd' :: rD' :: (d' ++ (mid ++ (ra :: (Es.pCoins ++ rest)))))))) hr hRd hd hrd ld
    ((T.flatMap ChalSrc.pPeer).map some ++ (L.pPeer.map some ++ (X.pPeer.map some ++ (Es.pPeer.map some ++ []))))
    [] false
  set t := tVals P e E c cd Ed T 0 (P.lnizk : ℤ) with ht
  have lt : t.length = pi.length := by rw [ht, tVals_length, lT]
  set fZ := grothResp G.q pi R ⟨r, Rd, d, rd, c, cd, Ed⟩ t with hfZ
  set lambda := L.val (fun _ => grothHashL P e E t fZ.1 fZ.2) with hlam
  set tp := pi.map (fun j => t.getD j 0) with htp
  have gtp : ∀ i < pi.length, tp.getD i 0 = t.getD (pi.getD i 0) 0 := by
    intro i hi; rw [htp, getD_map (fun j => t.getD j 0) pi i 0 0 hi]
  have hf : fZ.1 = (List.range pi.length).map fun i => (d.getD i 0 + tp.getD i 0) % G.q := rfl
  have hZ : fZ.2 = ((tp.zip R).foldl (fun acc (y : ℤ × ℤ) => (acc + y.1 * y.2 % G.q) % G.q) 0 + Rd) % G.q := rfl
  have lf : fZ.1.length = pi.length := by rw [hf]; simp
  have gf : ∀ i < pi.length, fZ.1.getD i 0 = (d.getD i 0 + t.getD (pi.getD i 0) 0) % G.q := by
    intro i hi; rw [hf, getD_map_range _ _ _ _ hi, gtp i hi]
  have hZq : toQ G fZ.2 = toQ G (Rd + ∑ i ∈ Finset.range pi.length, R.getD i 0 * t.getD (pi.getD i 0) 0) := by
    rw [hZ, toQ_emod hG, foldl_add_mod G.q hq (fun y : ℤ × ℤ => y.1 * y.2 % G.q) _ 0 (le_refl _) hq,
      zero_add, toQ_add, toQ_emod hG, zip_range tp R 0 0 pi.length (by simp [htp]) st.lR, List.map_map,
      sum_map_range, toQ_add, add_comm]
    congr 1
    have : ∀ i, ((fun y : ℤ × ℤ => y.1 * y.2 % G.q) ∘ fun i => (tp.getD i 0, R.getD i 0)) i =
        (tp.getD i 0 * R.getD i 0) % G.q := fun i => rfl
    simp only [this]
    rw [toQ_sum_mod hG]
    congr 1
    apply Finset.sum_congr rfl
    intro i hi
    rw [gtp i (Finset.mem_range.mp hi), mul_comm]
  have hZr : 0 ≤ fZ.2 ∧ fZ.2 < G.q := by rw [hZ]; exact mod_range hG _
  -- the commitment handed to the SKC
  have n0c := comVal_ne_zero hG hP pi.length st.lcg
  have hc0 : toF G c ≠ 0 := by rw [vc.2.2]; exact n0c _ _
  obtain ⟨cl, hcl, -, -, clv⟩ := mpzPowm_val hG c lambda hc0
  obtain ⟨-, -, xv⟩ := mulmod_val hG cl cd
  have hcc0 : toF G (cl * cd % G.p) ≠ 0 := by
    rw [xv, clv, vcd.2.2]; exact mul_ne_zero (zpow_ne_zero _ hc0) (n0c _ _)
  set msgs := grothMsgs G.q lambda t with hmsgs
  have lm : msgs.length = pi.length := by rw [hmsgs]; simp [grothMsgs, lt]
  obtain ⟨a, resp, la, hskcP, hskcV⟩ := skc_sound_modes hG mode hP pi msgs (by rw [lm])
    (by omega) (by rw [lm]; exact st.lcg) ((lambda * r % G.q + rd) % G.q) X Es hX hEs rd' rD' d' mid ra rest
    hrd' hrD' hd' hmid hra (by rw [lm]; exact ld') (by rw [lm]; exact lmid) (cl * cd % G.p) alpha fZ.1
    (by rw [lm]; exact lf) []
    ([] ++ [c, cd, Ed.c1, Ed.c2] ++ T.flatMap ChalSrc.pSent ++ fZ.1 ++ [fZ.2] ++ L.pSent) false
  refine ⟨c, cd, Ed, fZ.1, fZ.2, a, resp, t, msgs, lambda, X.val (fun _ => P.cg ++ msgs ++ comPqh P),
    Es.val (fun _ => P.cg ++ msgs ++ X.val (fun _ => P.cg ++ msgs ++ comPqh P) :: a),
    la, lf, lt, rfl, rfl, rfl, rfl, rfl, ?_, ?_⟩
  · have hpeer : (gVerifierLines T L X Es).map some = (T.flatMap ChalSrc.pPeer).map some ++
        (L.pPeer.map some ++ (X.pPeer.map some ++ (Es.pPeer.map some ++ []))) := by
      simp [gVerifierLines, List.map_append, List.append_assoc]
    rw [hpeer]
    simp only [run, done, grothProve, gProverCoins, hP.st.grp]
    rw [bind_apply, if_neg (by rw [st.lR, st.le, st.lE]; have := st.lcg; omega)]
    rw [bind_ok hmove]
    simp only []
    rw [← lT, bind_ok (ts_P mode P e E c cd Ed T 0 _ _ _ _ _ hT), ← ht, ← hfZ]
    rw [bind_ok (sendAll_apply _ _), bind_ok (send_apply _ _)]
    rw [bind_ok (hL.prover _ _ _ _ _), ← hlam, ← hmsgs]
    rw [hskcP]
    simp only [pure_apply, List.nil_append, List.append_assoc, List.cons_append]
  · intro o ho hrun
    have hpeer : ([c, cd, Ed.c1, Ed.c2] ++ (T.flatMap ChalSrc.pSent ++ (fZ.1 ++ (fZ.2 :: (L.pSent ++ (X.pSent ++
        (a ++ (Es.pSent ++ resp)))))))).map some =
        some c :: some cd :: some Ed.c1 :: some Ed.c2 :: ((T.flatMap ChalSrc.pSent).map some ++
          (fZ.1.map some ++ (some fZ.2 :: (L.pSent.map some ++ (X.pSent.map some ++ (a.map some ++
            (Es.pSent.map some ++ (resp.map some ++ [])))))))) := by
      simp only [List.map_append, List.map_cons, List.cons_append, List.nil_append,
        List.append_nil]
    rw [hpeer] at hrun
    simp only [grothVerify, gVerifierCoins, st.le, hP.st.grp] at hrun
    rw [if_neg (by rw [st.lE]; have := st.lcg; omega)] at hrun
    rw [run_bind_ok (grothRead1_spec c cd Ed.c1 Ed.c2 _ _ _)] at hrun
    simp only [] at hrun
    rw [← lT, run_bind_ok (ts_V mode P e E c cd Ed T 0 _ _ _ _ hT), ← ht, lT] at hrun
    rw [run_bind_ok (grothRead2_spec _ fZ.1 fZ.2 _ _ _ lf)] at hrun
    simp only [] at hrun
    rw [run_bind_ok (hL.verifier _ _ _ _), ← hlam] at hrun
    obtain ⟨hchk1, hrun⟩ := run_check_bind _ _ _ _ ho hrun
    rw [run_bind_ok (liftE_ok hcl _), ← hmsgs] at hrun
    obtain ⟨hexc, hrun⟩ := hskcV [] [] ([] ++ T.flatMap ChalSrc.pPeer ++ L.pPeer) _ o ho hrun
    obtain ⟨hfin, -⟩ := run_check_bind _ _ _ _ ho hrun
    have hrel := grothFinal_true hG hP e E t fZ.1 Ed fZ.2 pi.length st.le st.lE lt lf
      (fun j hj => ⟨(st.sub j hj).1.ne_zero hG, (st.sub j hj).2.ne_zero hG⟩)
      (fun j hj => ⟨(st.subE j hj).1.ne_zero hG, (st.subE j hj).2.ne_zero hG⟩) hZr hfin
    refine ⟨⟨?_, ?_⟩, hexc.1, hexc.2.1⟩
    · exact groth_rel_alg hG pi.length (fun i => toF G (E.getD i ⟨0, 0⟩).c1)
        (fun i => toF G (e.getD i ⟨0, 0⟩).c1) _ (g_ne hG) (g_sub hG) (fun i hi => (st.subE i hi).1)
        (fun i => fZ.1.getD i 0) (fun i => d.getD i 0) (fun i => t.getD (pi.getD i 0) 0)
        (fun i => R.getD i 0) (fun i => t.getD i 0) fZ.2 Rd _
        (fun i hi => by rw [gf i hi, toQ_emod hG]) hZq v1.2.2 hrel.1
    · exact groth_rel_alg hG pi.length (fun i => toF G (E.getD i ⟨0, 0⟩).c2)
        (fun i => toF G (e.getD i ⟨0, 0⟩).c2) _ (h_ne hG P.S hP.st) (h_sub P.S hP.st)
        (fun i hi => (st.subE i hi).2)
        (fun i => fZ.1.getD i 0) (fun i => d.getD i 0) (fun i => t.getD (pi.getD i 0) 0)
        (fun i => R.getD i 0) (fun i => t.getD i 0) fZ.2 Rd _
        (fun i hi => by rw [gf i hi, toQ_emod hG]) hZq v2.2.2 hrel.2

end Tmcg.Args
