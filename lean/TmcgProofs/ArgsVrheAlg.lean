import TmcgProofs.ArgsBase
/-
  C03 for the rotation argument, part 1: the value of every arithmetic block of the model
  (Model/Args.lean) as an element of the field `ZMod p`, and the algebra of the argument's
  equations.  Part 2 (ArgsVrhe.lean) threads the transcript through prover and verifier.
-/
namespace Tmcg.Args
open Tmcg Tmcg.Powm Tmcg.Vtmf Tmcg.Grp Tmcg.Sigma Tmcg.SigmaComplete

variable {G : Group} [Fact (Nat.Prime G.p.natAbs)]

set_option linter.unusedVariables false
set_option linter.unusedSectionVars false

/-- (the class of) `a` lies in the subgroup of order `q` -/
def Sub (G : Group) [Fact (Nat.Prime G.p.natAbs)] (a : Int) : Prop := toF G a ^ G.q.natAbs = 1

theorem Sub.ne_zero (hG : ValidGroup G) {a : Int} (h : Sub G a) : toF G a ≠ 0 :=
  ne_zero_of_pow_eq_one (q_natAbs_ne_zero hG) h

/-- a reduced representative with a given field value in the subgroup -/
def Val (G : Group) [Fact (Nat.Prime G.p.natAbs)] (a : Int) (v : F G) : Prop :=
  0 ≤ a ∧ a < G.p ∧ toF G a = v

theorem Val.mem (hG : ValidGroup G) {a : Int} {v : F G} (h : Val G a v) (hv : v ^ G.q.natAbs = 1) :
    Mem G a :=
  mem_of_val h.1 h.2.1 h.2.2 (ne_zero_of_pow_eq_one (q_natAbs_ne_zero hG) hv) hv

theorem Val.elem (hG : ValidGroup G) {a : Int} {v : F G} (h : Val G a v) (hv : v ^ G.q.natAbs = 1) :
    checkElement .schnorr G a = true :=
  (checkElement_iff hG a).2 (h.mem hG hv)

theorem inRange_of_mod (hG : ValidGroup G) (e : Int) : inRange G.q (e % G.q) = true := by
  have := resp_range hG e
  simp only [inRange, decide_eq_true_eq]; omega

theorem natAbs_lt_of_range (hG : ValidGroup G) {x : Int} (h : 0 ≤ x ∧ x < G.q) :
    x.natAbs < G.q.natAbs := by
  have := hG.q_pos; omega

theorem natAbs_mod_lt (hG : ValidGroup G) (e : Int) : (e % G.q).natAbs < G.q.natAbs := by
  have := resp_range hG e; omega

theorem mod_range (hG : ValidGroup G) (e : Int) : 0 ≤ e % G.q ∧ e % G.q < G.q :=
  ⟨Int.emod_nonneg _ (ne_of_gt hG.q_pos), Int.emod_lt_of_pos _ hG.q_pos⟩

/-- equality of reduced products from equality in the field -/
theorem mulmod_eq (hG : ValidGroup G) (a b c d : Int)
    (h : toF G a * toF G b = toF G c * toF G d) : a * b % G.p = c * d % G.p := by
  obtain ⟨x0, xp, xv⟩ := mulmod_val hG a b
  obtain ⟨y0, yp, yv⟩ := mulmod_val hG c d
  exact eq_of_toF_eq hG ⟨x0, xp⟩ ⟨y0, yp⟩ (by rw [xv, yv, h])

/-! ### the group elements in the field -/

section

theorem g_sub (hG : ValidGroup G) : toF G G.g ^ G.q.natAbs = 1 := g_pow_q hG
theorem h_sub (S : State) (hS : StateOk G S) : toF G S.h ^ G.q.natAbs = 1 := hS.h_mem
theorem g_ne (hG : ValidGroup G) : toF G G.g ≠ 0 := g_ne_zero hG
theorem h_ne (hG : ValidGroup G) (S : State) (hS : StateOk G S) : toF G S.h ≠ 0 := (hS.mem_h).ne_zero hG

/-- `vrheCommit`: `h_k = g^a h^u`, `A_k = (d^a g^t, e^a h^t)` -/
theorem vrheCommit_val (hG : ValidGroup G) (S : State) (hS : StateOk G S) (Yk : Card) (a u t : Int) (hd : toF G Yk.c1 ≠ 0) (he : toF G Yk.c2 ≠ 0)
    (ha : a.natAbs < G.q.natAbs) (hu : u.natAbs < G.q.natAbs) (ht : t.natAbs < G.q.natAbs) :
    ∃ hk A, vrheCommit S Yk a u t = .ok (hk, A) ∧
      Val G hk (toF G G.g ^ a * toF G S.h ^ u) ∧
      Val G A.c1 (toF G Yk.c1 ^ a * toF G G.g ^ t) ∧
      Val G A.c2 (toF G Yk.c2 ^ a * toF G S.h ^ t) := by
  have hg0 := g_ne hG
  have hh0 := h_ne hG S hS
  obtain ⟨x, hx, -, -, xv⟩ := fspowm_val hG S.tabG G.g a hS.tabG hg0 ha
  obtain ⟨y, hy, -, -, yv⟩ := fspowm_val hG S.tabH S.h u hS.tabH hh0 hu
  obtain ⟨d, hdd, -, -, dv⟩ := spowm_val hG Yk.c1 a hd
  obtain ⟨gt, hgt, -, -, gtv⟩ := fspowm_val hG S.tabG G.g t hS.tabG hg0 ht
  obtain ⟨e, hee, -, -, ev⟩ := spowm_val hG Yk.c2 a he
  obtain ⟨ht', hht, -, -, htv⟩ := fspowm_val hG S.tabH S.h t hS.tabH hh0 ht
  obtain ⟨k0, kp, kv⟩ := mulmod_val hG x y
  obtain ⟨a0, ap, av⟩ := mulmod_val hG d gt
  obtain ⟨b0, bp, bv⟩ := mulmod_val hG e ht'
  refine ⟨x * y % G.p, ⟨d * gt % G.p, e * ht' % G.p⟩, ?_, ⟨k0, kp, by rw [kv, xv, yv]⟩,
    ⟨a0, ap, by rw [av, dv, gtv]⟩, ⟨b0, bp, by rw [bv, ev, htv]⟩⟩
  simp [vrheCommit, hS.grp, bind, Except.bind, pure, Except.pure, hx, hy, hdd, hgt, hee, hht]

/-- `vrheCheck1` holds when `g^τ h^ρ = h_k^λ f_k` in the field -/
theorem vrheCheck1_ok (hG : ValidGroup G) (S : State) (hS : StateOk G S) (lambda hk fk tau rho : Int) (hhk : toF G hk ≠ 0)
    (htau : tau.natAbs < G.q.natAbs) (hrho : rho.natAbs < G.q.natAbs)
    (heq : toF G G.g ^ tau * toF G S.h ^ rho = toF G hk ^ lambda * toF G fk) :
    vrheCheck1 S lambda hk fk tau rho = .ok true := by
  obtain ⟨a, ha, -, -, av⟩ := fpowm_val hG S.tabG G.g tau hS.tabG (g_ne hG) htau
  obtain ⟨b, hb, -, -, bv⟩ := fpowm_val hG S.tabH S.h rho hS.tabH (h_ne hG S hS) hrho
  obtain ⟨e, he, -, -, ev⟩ := mpzPowm_val hG hk lambda hhk
  have : a * b % G.p = e * fk % G.p := mulmod_eq hG a b e fk (by rw [av, bv, ev, heq])
  simp [vrheCheck1, hS.grp, bind, Except.bind, pure, Except.pure, ha, hb, he, this]

/-- `vrheCheck2` holds when both component equations hold in the field -/
theorem vrheCheck2_ok (hG : ValidGroup G) (S : State) (hS : StateOk G S) (lambda : Int) (Yk Ak Fk : Card) (tau mu : Int)
    (hd : toF G Yk.c1 ≠ 0) (he : toF G Yk.c2 ≠ 0) (hA1 : toF G Ak.c1 ≠ 0) (hA2 : toF G Ak.c2 ≠ 0)
    (hmu : mu.natAbs < G.q.natAbs)
    (h1 : toF G Yk.c1 ^ tau * toF G G.g ^ mu = toF G Ak.c1 ^ lambda * toF G Fk.c1)
    (h2 : toF G Yk.c2 ^ tau * toF G S.h ^ mu = toF G Ak.c2 ^ lambda * toF G Fk.c2) :
    vrheCheck2 S lambda Yk Ak Fk tau mu = .ok true := by
  obtain ⟨d, hdd, -, -, dv⟩ := mpzPowm_val hG Yk.c1 tau hd
  obtain ⟨gm, hgm, -, -, gmv⟩ := fpowm_val hG S.tabG G.g mu hS.tabG (g_ne hG) hmu
  obtain ⟨e, hee, -, -, ev⟩ := mpzPowm_val hG Yk.c2 tau he
  obtain ⟨hm, hhm, -, -, hmv⟩ := fpowm_val hG S.tabH S.h mu hS.tabH (h_ne hG S hS) hmu
  obtain ⟨r1, hr1, -, -, r1v⟩ := mpzPowm_val hG Ak.c1 lambda hA1
  obtain ⟨r2, hr2, -, -, r2v⟩ := mpzPowm_val hG Ak.c2 lambda hA2
  have e1 : d * gm % G.p = r1 * Fk.c1 % G.p := mulmod_eq hG _ _ _ _ (by rw [dv, gmv, r1v, h1])
  have e2 : e * hm % G.p = r2 * Fk.c2 % G.p := mulmod_eq hG _ _ _ _ (by rw [ev, hmv, r2v, h2])
  simp [vrheCheck2, hS.grp, bind, Except.bind, pure, Except.pure, hdd, hgm, hee, hhm, hr1, hr2, e1, e2]

/-- one step of the final product -/
theorem vrheProdStep_val (hG : ValidGroup G) (L Xj Aj : Card) (a : Int) (h1 : toF G Xj.c1 ≠ 0) (h2 : toF G Xj.c2 ≠ 0) :
    ∃ L', vrheProdStep G.p L Xj Aj a = .ok (some L') ∧
      Val G L'.c1 (toF G L.c1 * ((toF G Xj.c1 ^ a)⁻¹ * toF G Aj.c1)) ∧
      Val G L'.c2 (toF G L.c2 * ((toF G Xj.c2 ^ a)⁻¹ * toF G Aj.c2)) := by
  obtain ⟨b1, hb1, -, -, b1v⟩ := mpzPowm_val hG Xj.c1 a h1
  obtain ⟨b2, hb2, -, -, b2v⟩ := mpzPowm_val hG Xj.c2 a h2
  obtain ⟨i1, hi1, -, -, i1v⟩ := invm_val hG b1 (by rw [b1v]; exact zpow_ne_zero _ h1)
  obtain ⟨i2, hi2, -, -, i2v⟩ := invm_val hG b2 (by rw [b2v]; exact zpow_ne_zero _ h2)
  obtain ⟨-, -, m1⟩ := mulmod_val hG i1 Aj.c1
  obtain ⟨-, -, m2⟩ := mulmod_val hG i2 Aj.c2
  obtain ⟨x0, xp, xv⟩ := mulmod_val hG L.c1 (i1 * Aj.c1 % G.p)
  obtain ⟨y0, yp, yv⟩ := mulmod_val hG L.c2 (i2 * Aj.c2 % G.p)
  refine ⟨⟨L.c1 * (i1 * Aj.c1 % G.p) % G.p, L.c2 * (i2 * Aj.c2 % G.p) % G.p⟩, ?_,
    ⟨x0, xp, by rw [xv, m1, i1v, b1v]⟩, ⟨y0, yp, by rw [yv, m2, i2v, b2v]⟩⟩
  simp [vrheProdStep, bind, Except.bind, pure, Except.pure, hb1, hb2, hi1, hi2]

theorem vrheProduct_val (hG : ValidGroup G) (X Ak : List Card) (alpha : List Int) :
    ∀ (js : List Nat) (L : Card),
    (∀ j ∈ js, toF G (X.getD j ⟨0, 0⟩).c1 ≠ 0 ∧ toF G (X.getD j ⟨0, 0⟩).c2 ≠ 0) →
    (0 ≤ L.c1 ∧ L.c1 < G.p) → (0 ≤ L.c2 ∧ L.c2 < G.p) →
    ∃ L', vrheProduct G.p X Ak alpha js L = .ok (some L') ∧
      Val G L'.c1 (toF G L.c1 * (js.map fun j =>
        (toF G (X.getD j ⟨0, 0⟩).c1 ^ alpha.getD j 0)⁻¹ * toF G (Ak.getD j ⟨0, 0⟩).c1).prod) ∧
      Val G L'.c2 (toF G L.c2 * (js.map fun j =>
        (toF G (X.getD j ⟨0, 0⟩).c2 ^ alpha.getD j 0)⁻¹ * toF G (Ak.getD j ⟨0, 0⟩).c2).prod)
  | [], L, _, r1, r2 => ⟨L, rfl, ⟨r1.1, r1.2, by simp⟩, ⟨r2.1, r2.2, by simp⟩⟩
  | j :: js, L, hX, r1, r2 => by
    obtain ⟨L1, hL1, v1, v2⟩ := vrheProdStep_val hG L (X.getD j ⟨0, 0⟩) (Ak.getD j ⟨0, 0⟩)
      (alpha.getD j 0) (hX j (by simp)).1 (hX j (by simp)).2
    obtain ⟨L2, hL2, w1, w2⟩ := vrheProduct_val hG X Ak alpha js L1
      (fun i hi => hX i (by simp [hi])) ⟨v1.1, v1.2.1⟩ ⟨v2.1, v2.2.1⟩
    refine ⟨L2, ?_, ⟨w1.1, w1.2.1, ?_⟩, ⟨w2.1, w2.2.1, ?_⟩⟩
    · simp only [vrheProduct, bind, Except.bind, hL1, hL2]
    · rw [w1.2.2, v1.2.2, List.map_cons, List.prod_cons]; ring
    · rw [w2.2.2, v2.2.2, List.map_cons, List.prod_cons]; ring

/-- `vrheFinal` holds when the product equals `(g^v, h^v)` in the field -/
theorem vrheFinal_ok (hG : ValidGroup G) (S : State) (hS : StateOk G S) (X Ak : List Card) (alpha : List Int) (v : Int)
    (hX : ∀ j < alpha.length, toF G (X.getD j ⟨0, 0⟩).c1 ≠ 0 ∧ toF G (X.getD j ⟨0, 0⟩).c2 ≠ 0)
    (hv : v.natAbs < G.q.natAbs)
    (h1 : ((List.range alpha.length).map fun j =>
      (toF G (X.getD j ⟨0, 0⟩).c1 ^ alpha.getD j 0)⁻¹ * toF G (Ak.getD j ⟨0, 0⟩).c1).prod
        = toF G G.g ^ v)
    (h2 : ((List.range alpha.length).map fun j =>
      (toF G (X.getD j ⟨0, 0⟩).c2 ^ alpha.getD j 0)⁻¹ * toF G (Ak.getD j ⟨0, 0⟩).c2).prod
        = toF G S.h ^ v) :
    vrheFinal S X Ak alpha v = .ok true := by
  have hp1 := one_lt_p hG
  obtain ⟨L, hL, v1, v2⟩ := vrheProduct_val hG X Ak alpha (List.range alpha.length) ⟨1, 1⟩
    (fun j hj => hX j (List.mem_range.mp hj)) ⟨by norm_num, hp1⟩ ⟨by norm_num, hp1⟩
  obtain ⟨r1, hr1, a0, ap, r1v⟩ := fpowm_val hG S.tabG G.g v hS.tabG (g_ne hG) hv
  obtain ⟨r2, hr2, b0, bp, r2v⟩ := fpowm_val hG S.tabH S.h v hS.tabH (h_ne hG S hS) hv
  have e1 : L.c1 = r1 := eq_of_toF_eq hG ⟨v1.1, v1.2.1⟩ ⟨a0, ap⟩ (by
    rw [v1.2.2, r1v, h1]; show toF G 1 * _ = _; rw [toF_one, one_mul])
  have e2 : L.c2 = r2 := eq_of_toF_eq hG ⟨v2.1, v2.2.1⟩ ⟨b0, bp⟩ (by
    rw [v2.2.2, r2v, h2]; show toF G 1 * _ = _; rw [toF_one, one_mul])
  simp [vrheFinal, hS.grp, bind, Except.bind, pure, Except.pure, hL, hr1, hr2, e1, e2]

/-- `prodPow`: `G = Π c_j^{β_j}` -/
theorem prodPow_fold (hG : ValidGroup G) : ∀ (l : List (Int × Int)) (G0 : Int), (0 ≤ G0 ∧ G0 < G.p) →
    (∀ x ∈ l, toF G x.1 ≠ 0) →
    ∃ Gv, l.foldlM (fun Gacc (x : Int × Int) => do
        let f ← mpzPowm x.1 x.2 G.p
        pure (Gacc * f % G.p)) G0 = Except.ok Gv ∧
      Val G Gv (toF G G0 * (l.map fun x => toF G x.1 ^ x.2).prod)
  | [], G0, r, _ => ⟨G0, rfl, r.1, r.2, by simp⟩
  | x :: l, G0, r, hx => by
    obtain ⟨f, hf, -, -, fv⟩ := mpzPowm_val hG x.1 x.2 (hx x (by simp))
    obtain ⟨m0, mp, mv⟩ := mulmod_val hG G0 f
    obtain ⟨Gv, hGv, w⟩ := prodPow_fold hG l (G0 * f % G.p) ⟨m0, mp⟩ (fun y hy => hx y (by simp [hy]))
    refine ⟨Gv, ?_, w.1, w.2.1, ?_⟩
    · rw [List.foldlM_cons]
      simp only [bind, Except.bind, hf, pure, Except.pure]
      exact hGv
    · rw [w.2.2, mv, fv, List.map_cons, List.prod_cons]; ring

theorem prodPow_val (hG : ValidGroup G) (c beta : List Int) (hc : ∀ x ∈ c, toF G x ≠ 0) :
    ∃ Gv, prodPow G.p c beta = .ok Gv ∧
      Val G Gv ((c.zip beta).map fun x => toF G x.1 ^ x.2).prod := by
  obtain ⟨Gv, h, w⟩ := prodPow_fold hG (c.zip beta) 1 ⟨by norm_num, one_lt_p hG⟩
    (fun x hx => hc x.1 (List.of_mem_zip hx).1)
  refine ⟨Gv, h, w.1, w.2.1, ?_⟩
  rw [w.2.2, toF_one, one_mul]

/-- the simulated branch of PUB-ROT-ZK -/
theorem rotSim_val (hG : ValidGroup G) (S : State) (hS : StateOk G S) (Gv : Int) (alpha beta : List Int) (j : Nat) (lam t : Int)
    (hGv : toF G Gv ≠ 0) (ht : t.natAbs < G.q.natAbs) :
    ∃ f, rotSim S Gv alpha beta j lam t = .ok f ∧
      Val G f (toF G G.g ^ (lam * gamma G.q alpha beta j % G.q) * toF G S.h ^ t *
        (toF G Gv ^ lam)⁻¹) := by
  obtain ⟨a, ha, -, -, av⟩ := fspowm_val hG S.tabG G.g (lam * gamma G.q alpha beta j % G.q) hS.tabG
    (g_ne hG) (natAbs_mod_lt hG _)
  obtain ⟨b, hb, -, -, bv⟩ := fspowm_val hG S.tabH S.h t hS.tabH (h_ne hG S hS) ht
  obtain ⟨d, hd, -, -, dv⟩ := spowm_val hG Gv lam hGv
  obtain ⟨di, hdi, -, -, div⟩ := invm_val hG d (by rw [dv]; exact zpow_ne_zero _ hGv)
  obtain ⟨-, -, m1⟩ := mulmod_val hG a b
  obtain ⟨x0, xp, xv⟩ := mulmod_val hG (a * b % G.p) di
  refine ⟨a * b % G.p * di % G.p, ?_, x0, xp, by rw [xv, m1, av, bv, div, dv]⟩
  simp [rotSim, hS.grp, bind, Except.bind, pure, Except.pure, ha, hb, hd, hdi]

/-- the per-index check of PUB-ROT-ZK -/
theorem rotCheck_ok (hG : ValidGroup G) (S : State) (hS : StateOk G S) (Gv : Int) (alpha beta : List Int) (k : Nat) (fk lamk tk : Int)
    (hGv : toF G Gv ≠ 0) (htk : tk.natAbs < G.q.natAbs)
    (hgam : (gamma G.q alpha beta k).natAbs < G.q.natAbs)
    (heq : toF G S.h ^ tk =
      ((toF G G.g ^ gamma G.q alpha beta k)⁻¹ * toF G Gv) ^ lamk * toF G fk) :
    rotCheck S Gv alpha beta k fk lamk tk = .ok true := by
  obtain ⟨lhs, hl, l0, lp, lv⟩ := fpowm_val hG S.tabH S.h tk hS.tabH (h_ne hG S hS) htk
  obtain ⟨gg, hgg, -, -, ggv⟩ := fpowm_val hG S.tabG G.g (gamma G.q alpha beta k) hS.tabG
    (g_ne hG) hgam
  have hgg0 : toF G gg ≠ 0 := by rw [ggv]; exact zpow_ne_zero _ (g_ne hG)
  obtain ⟨gi, hgi, -, -, giv⟩ := invm_val hG gg hgg0
  obtain ⟨-, -, bv⟩ := mulmod_val hG gi Gv
  have hb0 : toF G (gi * Gv % G.p) ≠ 0 := by
    rw [bv, giv]; exact mul_ne_zero (inv_ne_zero hgg0) hGv
  obtain ⟨e, he, -, -, ev⟩ := mpzPowm_val hG (gi * Gv % G.p) lamk hb0
  obtain ⟨x0, xp, xv⟩ := mulmod_val hG e fk
  have : lhs = e * fk % G.p := eq_of_toF_eq hG ⟨l0, lp⟩ ⟨x0, xp⟩ (by
    rw [lv, xv, ev, bv, giv, ggv, heq])
  simp [rotCheck, hS.grp, bind, Except.bind, pure, Except.pure, hl, hgg, hgi, he, this]

end

/-! ### lists over `range n` as finite sums and products -/

open Finset in
theorem prod_map_range {M : Type*} [CommMonoid M] (f : ℕ → M) (n : ℕ) :
    ((List.range n).map f).prod = ∏ i ∈ Finset.range n, f i := by
  induction n with
  | zero => simp
  | succ n ih => rw [List.prod_range_succ, Finset.prod_range_succ, ih]

theorem sum_map_range (f : ℕ → ℤ) (n : ℕ) :
    ((List.range n).map f).sum = ∑ i ∈ Finset.range n, f i := by
  induction n with
  | zero => simp
  | succ n ih => rw [List.sum_range_succ, Finset.sum_range_succ, ih]

theorem zip_map_range {α β} (f : ℕ → α) (l : List β) (d : β) (n : ℕ) (hl : l.length = n) :
    ((List.range n).map f).zip l = (List.range n).map fun j => (f j, l.getD j d) := by
  apply List.ext_getElem
  · simp [hl]
  · intro i h1 h2
    have hi : i < n := by simpa using h2
    have hil : i < l.length := by omega
    simp [List.getElem?_eq_getElem hil]

theorem list_eq_map_range {β} (l : List β) (d : β) (n : ℕ) (hl : l.length = n) :
    l = (List.range n).map fun j => l.getD j d := by
  apply List.ext_getElem
  · simp [hl]
  · intro i h1 h2
    simp [List.getElem?_eq_getElem h1]

theorem dotMod_range (hG : ValidGroup G) (f : ℕ → ℤ) (l : List ℤ) (n : ℕ) (hl : l.length = n) :
    dotMod G.q ((List.range n).map f) l = (∑ j ∈ Finset.range n, f j * l.getD j 0) % G.q := by
  rw [dotMod_eq G.q hG.q_pos, zip_map_range f l 0 n hl, List.map_map, sum_map_range]
  rfl

theorem gamma_eq (hG : ValidGroup G) (alpha beta : List ℤ) (k : ℕ) (hb : beta.length = alpha.length) :
    gamma G.q alpha beta k = (∑ j ∈ Finset.range alpha.length,
      alpha.getD (subMod alpha.length k j) 0 * beta.getD j 0) % G.q := by
  unfold gamma
  exact dotMod_range hG _ beta alpha.length hb

/-! ### exponent arithmetic in the subgroup -/

theorem zpow_congr_q (hG : ValidGroup G) (a : F G) (ha : a ^ G.q.natAbs = 1) {e1 e2 : ℤ}
    (h : e1 % G.q = e2 % G.q) : a ^ e1 = a ^ e2 := by
  have h0 := ne_zero_of_pow_eq_one (q_natAbs_ne_zero hG) ha
  rw [← zpow_mod_q hG a ha h0 e1, ← zpow_mod_q hG a ha h0 e2, h]

theorem prod_zpow_sum (a : F G) (ha : a ≠ 0) (f : ℕ → ℤ) (n : ℕ) :
    ∏ i ∈ Finset.range n, a ^ f i = a ^ ∑ i ∈ Finset.range n, f i := by
  induction n with
  | zero => simp
  | succ n ih => rw [Finset.prod_range_succ, Finset.sum_range_succ, zpow_add₀ ha, ih]

/-- `a^{(Σ e_i) mod q} = Π a^{e_i}` -/
theorem zpow_sum_mod (hG : ValidGroup G) (a : F G) (ha : a ^ G.q.natAbs = 1) (f : ℕ → ℤ) (n : ℕ) :
    a ^ ((∑ i ∈ Finset.range n, f i) % G.q) = ∏ i ∈ Finset.range n, a ^ f i := by
  have h0 := ne_zero_of_pow_eq_one (q_natAbs_ne_zero hG) ha
  rw [zpow_mod_q hG a ha h0, prod_zpow_sum a h0]

/-- the EXP-ZK response equation: `x^{λa+o} y^{λu+p} = (x^a y^u)^λ (x^o y^p)` -/
theorem expzk_alg (x y : F G) (hx : x ≠ 0) (hy : y ≠ 0) (a u o pp lam : ℤ) :
    x ^ (lam * a + o) * y ^ (lam * u + pp) = (x ^ a * y ^ u) ^ lam * (x ^ o * y ^ pp) := by
  rw [zpow_add₀ hx, zpow_add₀ hy, mul_zpow, ← zpow_mul, ← zpow_mul, mul_comm a lam, mul_comm u lam]
  ring

/-- … with the reductions of the code (`x`, `y` of order dividing `q`) -/
theorem expzk_mod (hG : ValidGroup G) (x y : F G) (hx : x ^ G.q.natAbs = 1) (hy : y ^ G.q.natAbs = 1)
    (a u o pp lam : ℤ) :
    x ^ ((lam * a % G.q + o) % G.q) * y ^ ((lam * u % G.q + pp) % G.q) =
      (x ^ a * y ^ u) ^ lam * (x ^ o * y ^ pp) := by
  have hx0 := ne_zero_of_pow_eq_one (q_natAbs_ne_zero hG) hx
  have hy0 := ne_zero_of_pow_eq_one (q_natAbs_ne_zero hG) hy
  rw [← expzk_alg x y hx0 hy0]
  congr 1
  · apply zpow_congr_q hG x hx
    rw [Int.emod_emod_of_dvd _ (dvd_refl _), Int.emod_add_emod]
  · apply zpow_congr_q hG y hy
    rw [Int.emod_emod_of_dvd _ (dvd_refl _), Int.emod_add_emod]

/-! ### rotation of the index range -/

/-- `k ↦ k + r (mod n)`, the inverse of `subMod n r` -/
def addMod (n r k : ℕ) : ℕ := if k + r < n then k + r else k + r - n

theorem subMod_lt {n r k : ℕ} (hr : r < n) (hk : k < n) : subMod n r k < n := by
  unfold subMod; split_ifs <;> omega

theorem addMod_lt {n r k : ℕ} (hr : r < n) (hk : k < n) : addMod n r k < n := by
  unfold addMod; split_ifs <;> omega

theorem addMod_subMod {n r k : ℕ} (hr : r < n) (hk : k < n) : addMod n r (subMod n r k) = k := by
  unfold addMod subMod; split_ifs <;> omega

theorem subMod_addMod {n r k : ℕ} (hr : r < n) (hk : k < n) : subMod n r (addMod n r k) = k := by
  unfold addMod subMod; split_ifs <;> omega

/-- products over `range n` are invariant under the rotation `k ↦ k - r (mod n)` -/
theorem prod_rot {M : Type*} [CommMonoid M] (n r : ℕ) (hr : r < n) (f : ℕ → M) :
    ∏ k ∈ Finset.range n, f (subMod n r k) = ∏ j ∈ Finset.range n, f j := by
  apply Finset.prod_nbij' (fun k => subMod n r k) (fun j => addMod n r j)
  · intro k hk; exact Finset.mem_range.mpr (subMod_lt hr (Finset.mem_range.mp hk))
  · intro j hj; exact Finset.mem_range.mpr (addMod_lt hr (Finset.mem_range.mp hj))
  · intro k hk; exact addMod_subMod hr (Finset.mem_range.mp hk)
  · intro j hj; exact subMod_addMod hr (Finset.mem_range.mp hj)
  · intro k hk; rfl

/-- the last equation of the rotation argument: `Π_j A_j X_j^{-α_j} = b^v` -/
theorem final_alg (hG : ValidGroup G) (n r : ℕ) (hr : r < n) (x : ℕ → F G) (hx : ∀ j, j < n → x j ≠ 0)
    (al s t : ℕ → ℤ) (b : F G) (hb : b ^ G.q.natAbs = 1) (A : ℕ → F G)
    (hA : ∀ j, j < n → A j = (x (subMod n r j) * b ^ s j) ^ al (subMod n r j) * b ^ t j) :
    ∏ j ∈ Finset.range n, ((x j ^ al j)⁻¹ * A j) =
      b ^ ((∑ j ∈ Finset.range n, (al (subMod n r j) * s j % G.q + t j) % G.q) % G.q) := by
  have hb0 := ne_zero_of_pow_eq_one (q_natAbs_ne_zero hG) hb
  rw [zpow_sum_mod hG b hb, Finset.prod_mul_distrib]
  have hA' : ∏ j ∈ Finset.range n, A j =
      (∏ j ∈ Finset.range n, x (subMod n r j) ^ al (subMod n r j)) *
        ∏ j ∈ Finset.range n, b ^ ((al (subMod n r j) * s j % G.q + t j) % G.q) := by
    rw [← Finset.prod_mul_distrib]
    apply Finset.prod_congr rfl
    intro j hj
    rw [hA j (Finset.mem_range.mp hj), mul_zpow, ← zpow_mul, mul_assoc]
    congr 1
    rw [zpow_mod_q hG b hb hb0, zpow_add₀ hb0, zpow_mod_q hG b hb hb0, mul_comm (s j)]
  rw [hA', prod_rot n r hr (fun j => x j ^ al j), ← mul_assoc, ← Finset.prod_mul_distrib]
  have : ∏ j ∈ Finset.range n, ((x j ^ al j)⁻¹ * x j ^ al j) = 1 := by
    apply Finset.prod_eq_one
    intro j hj
    exact inv_mul_cancel₀ (zpow_ne_zero _ (hx j (Finset.mem_range.mp hj)))
  rw [this, one_mul]

/-! ### PUB-ROT-ZK -/

/-- the simulated branches verify for every challenge -/
theorem rot_sim_alg (hG : ValidGroup G) (g h Gv : F G) (hg : g ^ G.q.natAbs = 1) (hh : h ≠ 0)
    (hGv : Gv ≠ 0) (gam lam t : ℤ) :
    h ^ t = ((g ^ gam)⁻¹ * Gv) ^ lam * (g ^ (lam * gam % G.q) * h ^ t * (Gv ^ lam)⁻¹) := by
  have hg0 := ne_zero_of_pow_eq_one (q_natAbs_ne_zero hG) hg
  rw [zpow_mod_q hG g hg hg0, mul_zpow, inv_zpow, ← zpow_mul, mul_comm gam lam]
  have h1 := zpow_ne_zero (lam * gam) hg0
  have h2 := zpow_ne_zero lam hGv
  field_simp

/-- the real branch: `G = g^{γ_r} h^{Σ u_j β_j}`, `t_r = u + λ_r Σ u_j β_j` -/
theorem rot_real_alg (hG : ValidGroup G) (g h : F G) (hg : g ^ G.q.natAbs = 1) (hh : h ^ G.q.natAbs = 1)
    (gam sig sig' u lamr : ℤ) (hsig : sig' % G.q = sig % G.q) (Gv : F G)
    (hGv : Gv = g ^ gam * h ^ sig) :
    h ^ ((u + sig' * lamr % G.q) % G.q) = ((g ^ gam)⁻¹ * Gv) ^ lamr * h ^ u := by
  have hg0 := ne_zero_of_pow_eq_one (q_natAbs_ne_zero hG) hg
  have hh0 := ne_zero_of_pow_eq_one (q_natAbs_ne_zero hG) hh
  have e : (g ^ gam)⁻¹ * Gv = h ^ sig := by
    rw [hGv, ← mul_assoc, inv_mul_cancel₀ (zpow_ne_zero _ hg0), one_mul]
  rw [e, ← zpow_mul, ← zpow_add₀ hh0]
  apply zpow_congr_q hG h hh
  rw [Int.emod_emod_of_dvd _ (dvd_refl _), Int.add_emod, Int.emod_emod_of_dvd _ (dvd_refl _),
    Int.mul_emod, hsig, ← Int.mul_emod, ← Int.add_emod, add_comm]

end Tmcg.Args
