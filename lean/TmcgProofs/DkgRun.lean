import TmcgProofs.Dkg
import TmcgProofs.DkgSteps
/-
  C15, from the step-function facts to the key check.

  `checkKey_of_checks`: a party whose cache is `g^{s_ji}` (`genResolve_gs`), whose shares are in range
  and for which every dealer in QUAL passed the check of step 4(b) (`genReadA_sound`: group elements
  satisfying equation (5); for the own polynomial this is `feldman_check`) ends with `g^{x_i} = v_i`:
  the first test of `CheckKey()`.  This is the run-level statement `share_matches_vk` for every honest
  party that neither complained in step 4(b) nor had a dealer reconstructed.  For the remaining cases
  (own complaint, reconstructed dealers) the library is not consistent yet, see the findings of
  harness/drv_dkg.cc (`craftedA`).
-/
namespace Tmcg.DkgP
open Tmcg Tmcg.Powm Tmcg.Dkg Tmcg.Grp

variable {G : Dkg.Grp} [Fact (Nat.Prime G.p.natAbs)]

omit [Fact (Nat.Prime G.p.natAbs)] in
theorem run_gaList_get (s : List Int) :
    ∀ (gs : List Int), gaList G s = .ok gs → ∀ j, j < s.length →
      fspowm G.tabG G.g (getI s j) G.p = .ok (getI gs j) := by
  induction s with
  | nil => intro gs _ j hj; simp at hj
  | cons a as ih =>
    intro gs h j hj
    unfold gaList at h
    cases h1 : fspowm G.tabG G.g a G.p with
    | error e => rw [h1] at h; cases h
    | ok x =>
      cases h2 : gaList G as with
      | error e => rw [h1, h2] at h; cases h
      | ok r =>
        rw [h1, h2] at h
        have hgs : gs = x :: r := by
          injection h with h
          exact h.symm
        subst hgs
        cases j with
        | zero => simpa [getI] using h1
        | succ j =>
          have := ih r h2 j (by simpa using hj)
          simpa [getI] using this

theorem checkKey_of_checks (hG : ValidGrp G) (st : GenSt)
    (hgs : gaList G st.s = .ok st.gs)
    (hs : ∀ j ∈ st.qual, (getI st.s j).natAbs < G.q.natAbs) (hslen : ∀ j ∈ st.qual, j < st.s.length)
    (hA : ∀ j ∈ st.qual, (∀ c ∈ getRow st.A j, Dkg.checkElement G c = true) ∧
      commitProd G.p (st.i + 1) (getRow st.A j) = .ok (getI st.gs j))
    (hx : st.x = sumMod G.q st.s st.qual) :
    ∃ v r, viOf G st.qual st.A st.i = .ok v ∧ fspowm G.tabG G.g st.x G.p = .ok r ∧ r = v := by
  have := fact_q hG
  rw [hx]
  refine share_matches_vk hG st.qual st.A st.s st.i
    (fun j hj c hc => pl_checkElement_unit hG c ((hA j hj).1 c hc)) ?_
  intro j hj
  obtain ⟨r, hr, hr0, hr1, hrv⟩ := commitProd_val hG (st.i + 1) (getRow st.A j)
    (fun c hc => pl_checkElement_unit hG c ((hA j hj).1 c hc))
  rw [(hA j hj).2] at hr
  injection hr with hr
  subst hr
  obtain ⟨r', hr', -, -, hrv'⟩ := pl_fspowm_g hG (getI st.s j) (hs j hj)
  rw [run_gaList_get st.s st.gs hgs j (hslen j hj)] at hr'
  injection hr' with hr'
  rw [← hrv, hr', hrv']

end Tmcg.DkgP
