import TmcgProofs.RbcGlobal
/-
  C14 liveness, part A: `dispatch` as equations per action (the "must happen" direction;
  `Disp` of RbcGlobal.lean only says what MAY happen), frame lemmas for the first-time filters.
-/
namespace Tmcg.Rbc
variable (H : Int → Int) (T : Tag → Int)

theorem wf_checks {q : Party} {msg : Msg} (wf : WF q msg) :
    ¬(msg.sender > ((q.n : Int) - 1) ∨ msg.sender < 0) ∧ ¬ msg.seq < 1 := by
  unfold WF at wf; omega

/-- the length check on digests (`r-echo`, `r-ready`) -/
def LenOk (T : Tag → Int) (tag : Tag) (d : Int) : Prop := ¬ ioLen d > 2 * ioLen (T tag)

theorem dispatch_bad {q : Party} {s0 : Sent} {l : Nat} {msg : Msg} (wf : ¬ WF q msg) :
    dispatch H T q s0 l msg = ⟨q, s0 ++ [], .idle⟩ := by
  unfold dispatch
  simp only []
  by_cases h1 : msg.sender > ((q.n : Int) - 1) ∨ msg.sender < 0
  · rw [if_pos h1]
  · rw [if_neg h1]
    have h2 : msg.seq < 1 := by unfold WF at wf; omega
    rw [if_pos h2]

theorem dispatch_send_eq {q : Party} {s0 : Sent} {l : Nat} {msg : Msg} (wf : WF q msg)
    (ha : msg.action = rSend) :
    dispatch H T q s0 l msg =
      if fHas q.send l msg.tag then ⟨q, s0 ++ [], .idle⟩
      else if msg.sender ≠ (l : Int) then ⟨{ q with send := fIns q.send l msg.tag }, s0 ++ [], .idle⟩
      else match aGet q.mbar msg.tag with
        | none => ⟨{ q with send := fIns q.send l msg.tag, mbar := aSet q.mbar msg.tag msg.payload },
            s0 ++ sendAll q.n ⟨msg.id, msg.sender, msg.seq, rEcho, H msg.payload⟩, .idle⟩
        | some mb => if mb ≠ msg.payload then ⟨{ q with send := fIns q.send l msg.tag }, s0 ++ [], .idle⟩
            else ⟨{ q with send := fIns q.send l msg.tag },
              s0 ++ sendAll q.n ⟨msg.id, msg.sender, msg.seq, rEcho, H msg.payload⟩, .idle⟩ := by
  obtain ⟨h1, h2⟩ := wf_checks wf
  have h3 : ¬(msg.action < rSend ∨ msg.action > lDeliver) := by rw [ha]; decide
  unfold dispatch
  simp only []
  rw [if_neg h1, if_neg h2, if_neg h3, if_pos ha]
  by_cases hf : fHas q.send l msg.tag = true
  · simp [hf]
  · have hf0 : fHas q.send l msg.tag = false := by simpa using hf
    simp only [hf0, Bool.not_false, if_true, Bool.false_eq_true, if_false]
    rfl

theorem dispatch_echo_eq {q : Party} {s0 : Sent} {l : Nat} {msg : Msg} (wf : WF q msg)
    (ha : msg.action = rEcho) :
    dispatch H T q s0 l msg =
      if fHas q.echo l msg.tag then ⟨q, s0 ++ [], .idle⟩
      else if ioLen msg.payload > 2 * ioLen (T msg.tag) then
        ⟨{ q with echo := fIns q.echo l msg.tag }, s0 ++ [], .idle⟩
      else if (cntInc q.eD (msg.tag, msg.payload)).2 = q.n - q.t ∧
          (cntTouch q.rD (msg.tag, msg.payload)).2 ≤ q.t then
        ⟨echoPost q l msg, s0 ++ sendAll q.n ⟨msg.id, msg.sender, msg.seq, rReady, msg.payload⟩, .idle⟩
      else ⟨echoPost q l msg, s0 ++ [], .idle⟩ := by
  obtain ⟨h1, h2⟩ := wf_checks wf
  have h3 : ¬(msg.action < rSend ∨ msg.action > lDeliver) := by rw [ha]; decide
  have h4 : ¬ msg.action = rSend := by rw [ha]; decide
  unfold dispatch
  simp only []
  rw [if_neg h1, if_neg h2, if_neg h3, if_neg h4, if_pos ha]
  by_cases hf : fHas q.echo l msg.tag = true
  · simp [hf]
  · have hf0 : fHas q.echo l msg.tag = false := by simpa using hf
    simp only [hf0, Bool.not_false, if_true, Bool.false_eq_true, if_false]
    rfl

/-- the `2t+1` part of the r-ready branch, on the party `p2 = readyPost q l msg` -/
def readyTail (q : Party) (s0 : Sent) (l : Nat) (msg : Msg) : Result :=
  let p2 := readyPost q l msg
  match (match aGet p2.dbar msg.tag with
         | none => some { p2 with dbar := aSet p2.dbar msg.tag msg.payload }
         | some db => if db ≠ msg.payload then none else some p2) with
  | none => ⟨p2, s0 ++ [], .idle⟩
  | some p3 =>
    let db := (aGet p3.dbar msg.tag).getD 0
    let foo := match aGet p3.mbar msg.tag with
      | none => 0
      | some mb => H mb
    if foo ≠ db then
      ⟨{ p3 with awaited := if p3.awaited.contains msg.tag then p3.awaited else msg.tag :: p3.awaited },
        s0 ++ ((List.range (2 * q.t + 1)).map fun i =>
          (i, (⟨msg.id, msg.sender, msg.seq, rRequest, msg.payload⟩ : Msg))), .idle⟩
    else
      let r := deliverOrBuffer p3 msg []
      { r with sent := s0 ++ r.sent }

theorem dispatch_ready_eq {q : Party} {s0 : Sent} {l : Nat} {msg : Msg} (wf : WF q msg)
    (ha : msg.action = rReady) :
    dispatch H T q s0 l msg =
      if fHas q.ready l msg.tag then ⟨q, s0 ++ [], .idle⟩
      else if ioLen msg.payload > 2 * ioLen (T msg.tag) then
        ⟨{ q with ready := fIns q.ready l msg.tag }, s0 ++ [], .idle⟩
      else if q.t > 0 ∧ (cntInc q.rD (msg.tag, msg.payload)).2 = q.t + 1 ∧
          (cntTouch q.eD (msg.tag, msg.payload)).2 < q.n - q.t then
        ⟨readyPost q l msg, s0 ++ sendAll q.n ⟨msg.id, msg.sender, msg.seq, rReady, msg.payload⟩, .idle⟩
      else if (cntInc q.rD (msg.tag, msg.payload)).2 = 2 * q.t + 1 then readyTail H q s0 l msg
      else ⟨readyPost q l msg, s0 ++ [], .idle⟩ := by
  obtain ⟨h1, h2⟩ := wf_checks wf
  have h3 : ¬(msg.action < rSend ∨ msg.action > lDeliver) := by rw [ha]; decide
  have h4 : ¬ msg.action = rSend := by rw [ha]; decide
  have h5 : ¬ msg.action = rEcho := by rw [ha]; decide
  unfold dispatch
  simp only []
  rw [if_neg h1, if_neg h2, if_neg h3, if_neg h4, if_neg h5, if_pos ha]
  by_cases hf : fHas q.ready l msg.tag = true
  · simp [hf]
  · have hf0 : fHas q.ready l msg.tag = false := by simpa using hf
    simp only [hf0, Bool.not_false, if_true, Bool.false_eq_true, if_false]
    rfl

theorem dispatch_request_eq {q : Party} {s0 : Sent} {l : Nat} {msg : Msg} (wf : WF q msg)
    (ha : msg.action = rRequest) :
    dispatch H T q s0 l msg =
      if fHas q.request l msg.tag then ⟨q, s0 ++ [], .idle⟩
      else match aGet q.mbar msg.tag with
        | some mb => ⟨{ q with request := fIns q.request l msg.tag },
            s0 ++ [(l, ⟨msg.id, msg.sender, msg.seq, rAnswer, mb⟩)], .idle⟩
        | none => ⟨{ q with request := fIns q.request l msg.tag }, s0 ++ [], .idle⟩ := by
  obtain ⟨h1, h2⟩ := wf_checks wf
  have h3 : ¬(msg.action < rSend ∨ msg.action > lDeliver) := by rw [ha]; decide
  have h4 : ¬ msg.action = rSend := by rw [ha]; decide
  have h5 : ¬ msg.action = rEcho := by rw [ha]; decide
  have h6 : ¬ msg.action = rReady := by rw [ha]; decide
  unfold dispatch
  simp only []
  rw [if_neg h1, if_neg h2, if_neg h3, if_neg h4, if_neg h5, if_neg h6, if_pos ha]
  by_cases hf : fHas q.request l msg.tag = true
  · simp [hf]
  · have hf0 : fHas q.request l msg.tag = false := by simpa using hf
    simp only [hf0, Bool.not_false, if_true, Bool.false_eq_true, if_false]
    rfl

/-- the party after a valid r-answer for an awaited tag (before deliver-or-buffer) -/
def answerPost (q : Party) (l : Nat) (msg : Msg) : Party :=
  { q with answer := fIns q.answer l msg.tag, mbar := aSet q.mbar msg.tag msg.payload,
           awaited := q.awaited.erase msg.tag }

theorem dispatch_answer_eq {q : Party} {s0 : Sent} {l : Nat} {msg : Msg} (wf : WF q msg)
    (ha : msg.action = rAnswer) :
    dispatch H T q s0 l msg =
      if fHas q.answer l msg.tag then ⟨q, s0 ++ [], .idle⟩
      else match aGet q.dbar msg.tag with
        | none => ⟨{ q with answer := fIns q.answer l msg.tag }, s0 ++ [], .idle⟩
        | some db =>
          if !q.awaited.contains msg.tag then ⟨{ q with answer := fIns q.answer l msg.tag }, s0 ++ [], .idle⟩
          else if H msg.payload = db then
            let r := deliverOrBuffer (answerPost q l msg) msg []
            { r with sent := s0 ++ r.sent }
          else ⟨{ q with answer := fIns q.answer l msg.tag }, s0 ++ [], .idle⟩ := by
  obtain ⟨h1, h2⟩ := wf_checks wf
  have h3 : ¬(msg.action < rSend ∨ msg.action > lDeliver) := by rw [ha]; decide
  have h4 : ¬ msg.action = rSend := by rw [ha]; decide
  have h5 : ¬ msg.action = rEcho := by rw [ha]; decide
  have h6 : ¬ msg.action = rReady := by rw [ha]; decide
  have h7 : ¬ msg.action = rRequest := by rw [ha]; decide
  unfold dispatch
  simp only []
  rw [if_neg h1, if_neg h2, if_neg h3, if_neg h4, if_neg h5, if_neg h6, if_neg h7, if_pos ha]
  by_cases hf : fHas q.answer l msg.tag = true
  · simp [hf]
  · have hf0 : fHas q.answer l msg.tag = false := by simpa using hf
    simp only [hf0, Bool.not_false, if_true, Bool.false_eq_true, if_false]
    rfl

theorem dispatch_retrieve_eq {q : Party} {s0 : Sent} {l : Nat} {msg : Msg} (wf : WF q msg)
    (ha : msg.action = lRetrieve) :
    (dispatch H T q s0 l msg).party = q ∧ (dispatch H T q s0 l msg).out = .idle ∧
    ∃ x : Msg, (dispatch H T q s0 l msg).sent = s0 ++ [(l, x)] ∧
      (x.action = lDeliver ∨ x.action = lFail) := by
  obtain ⟨q', s, o, hD, hEq⟩ := dispatch_cases H T q s0 l msg
  have hne : ∀ a : Int, a ≠ lRetrieve → msg.action ≠ a := by
    intro a h1 h2; exact h1 (h2.symm.trans ha)
  obtain ⟨h1, h2⟩ := wf_checks wf
  have h3 : ¬(msg.action < rSend ∨ msg.action > lDeliver) := by rw [ha]; decide
  unfold dispatch
  simp only []
  rw [if_neg h1, if_neg h2, if_neg h3, if_neg (hne rSend (by decide)), if_neg (hne rEcho (by decide)),
    if_neg (hne rReady (by decide)), if_neg (hne rRequest (by decide)),
    if_neg (hne rAnswer (by decide)), if_pos ha]
  split
  · split_ifs
    · exact ⟨rfl, rfl, _, rfl, Or.inl rfl⟩
    · exact ⟨rfl, rfl, _, rfl, Or.inr rfl⟩
  · exact ⟨rfl, rfl, _, rfl, Or.inr rfl⟩

theorem dispatch_badact {q : Party} {s0 : Sent} {l : Nat} {msg : Msg}
    (ha : msg.action < rSend ∨ msg.action > lDeliver) :
    dispatch H T q s0 l msg = ⟨q, s0 ++ [], .idle⟩ := by
  unfold dispatch
  simp only []
  by_cases h1 : msg.sender > ((q.n : Int) - 1) ∨ msg.sender < 0
  · rw [if_pos h1]
  · rw [if_neg h1]
    by_cases h2 : msg.seq < 1
    · rw [if_pos h2]
    · rw [if_neg h2, if_pos ha]

/-- the party on which an accepted, decided l-deliver runs deliver-or-buffer -/
def ldelDec (q : Party) (l : Nat) (msg : Msg) (i : Nat) : Party :=
  { ldelPost q l msg with mbar := aSet q.mbar msg.tag ((ldelBuf q l msg).getD i 0) }

theorem dispatch_ldeliver_eq {q : Party} {s0 : Sent} {l : Nat} {msg : Msg} (wf : WF q msg)
    (ha : msg.action = lDeliver) :
    dispatch H T q s0 l msg =
      if fHas q.deliver l msg.tag then ⟨q, s0 ++ [], .idle⟩
      else if !fHas q.retrieve l msg.tag then ⟨q, s0 ++ [], .idle⟩
      else if deliverNum (ldelPost q l msg) msg.tag < q.n - q.t then
        ⟨ldelPost q l msg, s0 ++ [], .idle⟩
      else match agreeFind (ldelPost q l msg) msg.tag (ldelBuf q l msg) (List.range q.n) with
        | none => ⟨ldelPost q l msg, s0 ++ [], .idle⟩
        | some i =>
          let r := deliverOrBuffer (ldelDec q l msg i) msg []
          { r with sent := s0 ++ r.sent } := by
  have hne : ∀ a : Int, a ≠ lDeliver → msg.action ≠ a := by
    intro a h1 h2; exact h1 (h2.symm.trans ha)
  obtain ⟨h1, h2⟩ := wf_checks wf
  have h3 : ¬(msg.action < rSend ∨ msg.action > lDeliver) := by rw [ha]; decide
  unfold dispatch
  simp only []
  rw [if_neg h1, if_neg h2, if_neg h3, if_neg (hne rSend (by decide)), if_neg (hne rEcho (by decide)),
    if_neg (hne rReady (by decide)), if_neg (hne rRequest (by decide)),
    if_neg (hne rAnswer (by decide)), if_neg (hne lRetrieve (by decide)), if_pos ha]
  by_cases hf : fHas q.deliver l msg.tag = true
  · simp [hf]
  · have hf0 : fHas q.deliver l msg.tag = false := by simpa using hf
    simp only [hf0, Bool.not_false, if_true, Bool.false_eq_true, if_false]
    rfl

/-! ### a complete relational description of `dispatch` (every branch explicit) -/

/-- the r-ready amplification condition -/
def Amp (q : Party) (msg : Msg) : Prop :=
  q.t > 0 ∧ cnt q.rD (msg.tag, msg.payload) + 1 = q.t + 1 ∧ cnt q.eD (msg.tag, msg.payload) < q.n - q.t

instance (q : Party) (msg : Msg) : Decidable (Amp q msg) := by unfold Amp; infer_instance

/-- the echo-quorum condition -/
def EchoQ (q : Party) (msg : Msg) : Prop :=
  cnt q.eD (msg.tag, msg.payload) + 1 = q.n - q.t ∧ cnt q.rD (msg.tag, msg.payload) ≤ q.t

instance (q : Party) (msg : Msg) : Decidable (EchoQ q msg) := by unfold EchoQ; infer_instance

def mkMsg (msg : Msg) (a x : Int) : Msg := ⟨msg.id, msg.sender, msg.seq, a, x⟩

def reqList (q : Party) (msg : Msg) : Sent :=
  (List.range (2 * q.t + 1)).map fun i => (i, mkMsg msg rRequest msg.payload)

/-- the filter entry of a consumed message is set -/
def Flagged (q' : Party) (l : Nat) (msg : Msg) : Prop :=
  (msg.action = rSend → fHas q'.send l msg.tag = true) ∧
  (msg.action = rEcho → fHas q'.echo l msg.tag = true) ∧
  (msg.action = rReady → fHas q'.ready l msg.tag = true) ∧
  (msg.action = rRequest → fHas q'.request l msg.tag = true) ∧
  (msg.action = rAnswer → fHas q'.answer l msg.tag = true)

theorem act_ne {msg : Msg} {a b : Int} (hab : a ≠ b) (h1 : msg.action = a) : msg.action ≠ b :=
  fun h2 => hab (h1.symm.trans h2)

theorem Flagged.ofSend {q' : Party} {l : Nat} {msg : Msg} (ha : msg.action = rSend)
    (h : fHas q'.send l msg.tag = true) : Flagged q' l msg :=
  ⟨fun _ => h, fun h' => absurd h' (act_ne (by decide) ha), fun h' => absurd h' (act_ne (by decide) ha),
   fun h' => absurd h' (act_ne (by decide) ha), fun h' => absurd h' (act_ne (by decide) ha)⟩

theorem Flagged.ofEcho {q' : Party} {l : Nat} {msg : Msg} (ha : msg.action = rEcho)
    (h : fHas q'.echo l msg.tag = true) : Flagged q' l msg :=
  ⟨fun h' => absurd h' (act_ne (by decide) ha), fun _ => h, fun h' => absurd h' (act_ne (by decide) ha),
   fun h' => absurd h' (act_ne (by decide) ha), fun h' => absurd h' (act_ne (by decide) ha)⟩

theorem Flagged.ofReady {q' : Party} {l : Nat} {msg : Msg} (ha : msg.action = rReady)
    (h : fHas q'.ready l msg.tag = true) : Flagged q' l msg :=
  ⟨fun h' => absurd h' (act_ne (by decide) ha), fun h' => absurd h' (act_ne (by decide) ha), fun _ => h,
   fun h' => absurd h' (act_ne (by decide) ha), fun h' => absurd h' (act_ne (by decide) ha)⟩

theorem Flagged.ofRequest {q' : Party} {l : Nat} {msg : Msg} (ha : msg.action = rRequest)
    (h : fHas q'.request l msg.tag = true) : Flagged q' l msg :=
  ⟨fun h' => absurd h' (act_ne (by decide) ha), fun h' => absurd h' (act_ne (by decide) ha),
   fun h' => absurd h' (act_ne (by decide) ha), fun _ => h, fun h' => absurd h' (act_ne (by decide) ha)⟩

theorem Flagged.ofAnswer {q' : Party} {l : Nat} {msg : Msg} (ha : msg.action = rAnswer)
    (h : fHas q'.answer l msg.tag = true) : Flagged q' l msg :=
  ⟨fun h' => absurd h' (act_ne (by decide) ha), fun h' => absurd h' (act_ne (by decide) ha),
   fun h' => absurd h' (act_ne (by decide) ha), fun h' => absurd h' (act_ne (by decide) ha), fun _ => h⟩

theorem Flagged.ofOther {q' : Party} {l : Nat} {msg : Msg}
    (ha : (msg.action < rSend ∨ msg.action > lDeliver) ∨ msg.action = lRetrieve ∨ msg.action = lDeliver) :
    Flagged q' l msg := by
  unfold Flagged
  simp only [rSend, rEcho, rReady, rRequest, rAnswer, lRetrieve, lDeliver] at *
  refine ⟨?_, ?_, ?_, ?_, ?_⟩ <;> intro h <;> omega

inductive DispL (H : Int → Int) (T : Tag → Int) (q : Party) (l : Nat) (msg : Msg) :
    Party → Sent → Outcome → Prop
  | drop (hfl : WF q msg → Flagged q l msg) : DispL H T q l msg q [] .idle
  | markSend (wf : WF q msg) (hact : msg.action = rSend) (hnew : fHas q.send l msg.tag = false)
      (hbad : msg.sender ≠ (l : Int) ∨ ∃ mb, aGet q.mbar msg.tag = some mb ∧ mb ≠ msg.payload) :
      DispL H T q l msg { q with send := fIns q.send l msg.tag } [] .idle
  | echoNew (wf : WF q msg) (hact : msg.action = rSend) (hnew : fHas q.send l msg.tag = false)
      (hl : msg.sender = (l : Int)) (hm : aGet q.mbar msg.tag = none) :
      DispL H T q l msg
        { q with send := fIns q.send l msg.tag, mbar := aSet q.mbar msg.tag msg.payload }
        (sendAll q.n (mkMsg msg rEcho (H msg.payload))) .idle
  | echoOld (wf : WF q msg) (hact : msg.action = rSend) (hnew : fHas q.send l msg.tag = false)
      (hl : msg.sender = (l : Int)) (hm : aGet q.mbar msg.tag = some msg.payload) :
      DispL H T q l msg { q with send := fIns q.send l msg.tag }
        (sendAll q.n (mkMsg msg rEcho (H msg.payload))) .idle
  | markEcho (wf : WF q msg) (hact : msg.action = rEcho) (hnew : fHas q.echo l msg.tag = false)
      (hlen : ¬ LenOk T msg.tag msg.payload) :
      DispL H T q l msg { q with echo := fIns q.echo l msg.tag } [] .idle
  | echoCount (wf : WF q msg) (hact : msg.action = rEcho) (hnew : fHas q.echo l msg.tag = false)
      (hlen : LenOk T msg.tag msg.payload) :
      DispL H T q l msg (echoPost q l msg)
        (if EchoQ q msg then sendAll q.n (mkMsg msg rReady msg.payload) else []) .idle
  | markReady (wf : WF q msg) (hact : msg.action = rReady) (hnew : fHas q.ready l msg.tag = false)
      (hlen : ¬ LenOk T msg.tag msg.payload) :
      DispL H T q l msg { q with ready := fIns q.ready l msg.tag } [] .idle
  | readyCount (wf : WF q msg) (hact : msg.action = rReady) (hnew : fHas q.ready l msg.tag = false)
      (hlen : LenOk T msg.tag msg.payload)
      (hno : Amp q msg ∨ cnt q.rD (msg.tag, msg.payload) + 1 ≠ 2 * q.t + 1 ∨
        ∃ db, aGet q.dbar msg.tag = some db ∧ db ≠ msg.payload) :
      DispL H T q l msg (readyPost q l msg)
        (if Amp q msg then sendAll q.n (mkMsg msg rReady msg.payload) else []) .idle
  | readyReq (wf : WF q msg) (hact : msg.action = rReady) (hnew : fHas q.ready l msg.tag = false)
      (hlen : LenOk T msg.tag msg.payload) (hamp : ¬ Amp q msg)
      (hr : cnt q.rD (msg.tag, msg.payload) + 1 = 2 * q.t + 1) (p3 : Party)
      (hd : (aGet q.dbar msg.tag = none ∧
              p3 = { readyPost q l msg with dbar := aSet q.dbar msg.tag msg.payload }) ∨
            (aGet q.dbar msg.tag = some msg.payload ∧ p3 = readyPost q l msg))
      (hfoo : (aGet q.mbar msg.tag = none ∧ msg.payload ≠ 0) ∨
              (∃ mb, aGet q.mbar msg.tag = some mb ∧ H mb ≠ msg.payload)) :
      DispL H T q l msg
        { p3 with awaited := if q.awaited.contains msg.tag then q.awaited
                             else msg.tag :: q.awaited } (reqList q msg) .idle
  | readyDeliver (wf : WF q msg) (hact : msg.action = rReady) (hnew : fHas q.ready l msg.tag = false)
      (hlen : LenOk T msg.tag msg.payload) (hamp : ¬ Amp q msg)
      (hr : cnt q.rD (msg.tag, msg.payload) + 1 = 2 * q.t + 1) (p3 : Party)
      (hd : (aGet q.dbar msg.tag = none ∧
              p3 = { readyPost q l msg with dbar := aSet q.dbar msg.tag msg.payload }) ∨
            (aGet q.dbar msg.tag = some msg.payload ∧ p3 = readyPost q l msg))
      (hfoo : (aGet q.mbar msg.tag = none ∧ msg.payload = 0) ∨
              (∃ mb, aGet q.mbar msg.tag = some mb ∧ H mb = msg.payload)) :
      DispL H T q l msg (deliverOrBuffer p3 msg []).party (deliverOrBuffer p3 msg []).sent
        (deliverOrBuffer p3 msg []).out
  | reqAnswer (wf : WF q msg) (hact : msg.action = rRequest)
      (hnew : fHas q.request l msg.tag = false) (mb : Int) (hm : aGet q.mbar msg.tag = some mb) :
      DispL H T q l msg { q with request := fIns q.request l msg.tag }
        [(l, mkMsg msg rAnswer mb)] .idle
  | markReq (wf : WF q msg) (hact : msg.action = rRequest)
      (hnew : fHas q.request l msg.tag = false) (hm : aGet q.mbar msg.tag = none) :
      DispL H T q l msg { q with request := fIns q.request l msg.tag } [] .idle
  | markAns (wf : WF q msg) (hact : msg.action = rAnswer)
      (hnew : fHas q.answer l msg.tag = false)
      (hbad : aGet q.dbar msg.tag = none ∨ q.awaited.contains msg.tag = false ∨
        ∃ db, aGet q.dbar msg.tag = some db ∧ H msg.payload ≠ db) :
      DispL H T q l msg { q with answer := fIns q.answer l msg.tag } [] .idle
  | answerDeliver (wf : WF q msg) (hact : msg.action = rAnswer)
      (hnew : fHas q.answer l msg.tag = false) (db : Int) (hd : aGet q.dbar msg.tag = some db)
      (haw : q.awaited.contains msg.tag = true) (hh : H msg.payload = db) :
      DispL H T q l msg (deliverOrBuffer (answerPost q l msg) msg []).party
        (deliverOrBuffer (answerPost q l msg) msg []).sent
        (deliverOrBuffer (answerPost q l msg) msg []).out
  | retrieve (wf : WF q msg) (hact : msg.action = lRetrieve) (x : Msg)
      (hx : x.action = lFail ∨ ∃ mb, x = mkMsg msg lDeliver mb ∧ aGet q.mbar msg.tag = some mb ∧
        ((q.fifo = true ∧ msg.seq < q.dS msg.sender.toNat) ∨ q.fifo = false)) :
      DispL H T q l msg q [(l, x)] .idle
  | ldelMark (wf : WF q msg) (hact : msg.action = lDeliver)
      (hnew : fHas q.deliver l msg.tag = false) (hretr : fHas q.retrieve l msg.tag = true) :
      DispL H T q l msg (ldelPost q l msg) [] .idle
  | ldelDeliver (wf : WF q msg) (hact : msg.action = lDeliver)
      (hnew : fHas q.deliver l msg.tag = false) (hretr : fHas q.retrieve l msg.tag = true)
      (i : Nat) (hi : agreeFind (ldelPost q l msg) msg.tag (ldelBuf q l msg) (List.range q.n) = some i) :
      DispL H T q l msg (deliverOrBuffer (ldelDec q l msg i) msg []).party
        (deliverOrBuffer (ldelDec q l msg i) msg []).sent
        (deliverOrBuffer (ldelDec q l msg i) msg []).out

theorem action_cases (msg : Msg) :
    (msg.action < rSend ∨ msg.action > lDeliver) ∨ msg.action = rSend ∨ msg.action = rEcho ∨
    msg.action = rReady ∨ msg.action = rRequest ∨ msg.action = rAnswer ∨ msg.action = lRetrieve ∨
    msg.action = lDeliver := by
  simp only [rSend, rEcho, rReady, rRequest, rAnswer, lRetrieve, lDeliver]; omega

theorem dispatchL_send {q : Party} (s0 : Sent) {l : Nat} {msg : Msg} (wf : WF q msg)
    (ha : msg.action = rSend) :
    ∃ q' s o, DispL H T q l msg q' s o ∧ dispatch H T q s0 l msg = ⟨q', s0 ++ s, o⟩ := by
  rw [dispatch_send_eq H T wf ha]
  by_cases hf : fHas q.send l msg.tag = true
  · rw [if_pos hf]; exact ⟨_, _, _, .drop (fun _ => .ofSend ha hf), rfl⟩
  · have hf0 : fHas q.send l msg.tag = false := by simpa using hf
    rw [if_neg hf]
    by_cases hl : msg.sender ≠ (l : Int)
    · rw [if_pos hl]; exact ⟨_, _, _, .markSend wf ha hf0 (Or.inl hl), rfl⟩
    · rw [if_neg hl]
      simp only [ne_eq, not_not] at hl
      cases hm : aGet q.mbar msg.tag with
      | none => exact ⟨_, _, _, .echoNew wf ha hf0 hl hm, rfl⟩
      | some mb =>
        simp only []
        by_cases hmb : mb ≠ msg.payload
        · rw [if_pos hmb]; exact ⟨_, _, _, .markSend wf ha hf0 (Or.inr ⟨mb, hm, hmb⟩), rfl⟩
        · rw [if_neg hmb]
          simp only [ne_eq, not_not] at hmb
          subst hmb
          exact ⟨_, _, _, .echoOld wf ha hf0 hl hm, rfl⟩

theorem dispatchL_echo {q : Party} (s0 : Sent) {l : Nat} {msg : Msg} (wf : WF q msg)
    (ha : msg.action = rEcho) :
    ∃ q' s o, DispL H T q l msg q' s o ∧ dispatch H T q s0 l msg = ⟨q', s0 ++ s, o⟩ := by
  rw [dispatch_echo_eq H T wf ha]
  by_cases hf : fHas q.echo l msg.tag = true
  · rw [if_pos hf]; exact ⟨_, _, _, .drop (fun _ => .ofEcho ha hf), rfl⟩
  · have hf0 : fHas q.echo l msg.tag = false := by simpa using hf
    rw [if_neg hf]
    by_cases hlen : ioLen msg.payload > 2 * ioLen (T msg.tag)
    · rw [if_pos hlen]
      exact ⟨_, _, _, .markEcho wf ha hf0 (by unfold LenOk; exact not_not.2 hlen), rfl⟩
    · rw [if_neg hlen]
      have hiff : ((cntInc q.eD (msg.tag, msg.payload)).2 = q.n - q.t ∧
          (cntTouch q.rD (msg.tag, msg.payload)).2 ≤ q.t) ↔ EchoQ q msg := by
        unfold EchoQ; rw [cntInc_snd, cntTouch_snd]
      refine ⟨_, _, _, .echoCount wf ha hf0 hlen, ?_⟩
      by_cases hq : EchoQ q msg
      · rw [if_pos (hiff.2 hq), if_pos hq]; rfl
      · rw [if_neg (fun h => hq (hiff.1 h)), if_neg hq]

theorem readyTail_cases {q : Party} (s0 : Sent) {l : Nat} {msg : Msg} (wf : WF q msg)
    (ha : msg.action = rReady) (hf0 : fHas q.ready l msg.tag = false)
    (hlen : LenOk T msg.tag msg.payload) (hamp : ¬ Amp q msg)
    (hr : cnt q.rD (msg.tag, msg.payload) + 1 = 2 * q.t + 1) :
    ∃ q' s o, DispL H T q l msg q' s o ∧ readyTail H q s0 l msg = ⟨q', s0 ++ s, o⟩ := by
  unfold readyTail
  simp only []
  have hdb : (readyPost q l msg).dbar = q.dbar := rfl
  have hmb : (readyPost q l msg).mbar = q.mbar := rfl
  rw [hdb]
  cases hd : aGet q.dbar msg.tag with
  | none =>
    simp only [aGet_aSet_self, Option.getD_some]
    cases hm : aGet q.mbar msg.tag with
    | none =>
      simp only [hmb, hm]
      by_cases hfoo : (0 : Int) ≠ msg.payload
      · rw [if_pos hfoo]
        exact ⟨_, _, _, .readyReq wf ha hf0 hlen hamp hr _ (Or.inl ⟨hd, rfl⟩)
          (Or.inl ⟨hm, Ne.symm hfoo⟩), rfl⟩
      · rw [if_neg hfoo]
        simp only [ne_eq, not_not] at hfoo
        exact ⟨_, _, _, .readyDeliver wf ha hf0 hlen hamp hr _ (Or.inl ⟨hd, rfl⟩)
          (Or.inl ⟨hm, hfoo.symm⟩), rfl⟩
    | some mb =>
      simp only [hmb, hm]
      by_cases hfoo : H mb ≠ msg.payload
      · rw [if_pos hfoo]
        exact ⟨_, _, _, .readyReq wf ha hf0 hlen hamp hr _ (Or.inl ⟨hd, rfl⟩)
          (Or.inr ⟨mb, hm, hfoo⟩), rfl⟩
      · rw [if_neg hfoo]
        simp only [ne_eq, not_not] at hfoo
        exact ⟨_, _, _, .readyDeliver wf ha hf0 hlen hamp hr _ (Or.inl ⟨hd, rfl⟩)
          (Or.inr ⟨mb, hm, hfoo⟩), rfl⟩
  | some db =>
    simp only []
    by_cases hdb2 : db ≠ msg.payload
    · rw [if_pos hdb2]
      simp only []
      refine ⟨_, _, _, .readyCount wf ha hf0 hlen (Or.inr (Or.inr ⟨db, hd, hdb2⟩)), ?_⟩
      rw [if_neg hamp]
    · rw [if_neg hdb2]
      simp only [ne_eq, not_not] at hdb2
      subst hdb2
      simp only [hdb, hd, Option.getD_some]
      cases hm : aGet q.mbar msg.tag with
      | none =>
        simp only [hmb, hm]
        by_cases hfoo : (0 : Int) ≠ msg.payload
        · rw [if_pos hfoo]
          exact ⟨_, _, _, .readyReq wf ha hf0 hlen hamp hr _ (Or.inr ⟨hd, rfl⟩)
            (Or.inl ⟨hm, Ne.symm hfoo⟩), rfl⟩
        · rw [if_neg hfoo]
          simp only [ne_eq, not_not] at hfoo
          exact ⟨_, _, _, .readyDeliver wf ha hf0 hlen hamp hr _ (Or.inr ⟨hd, rfl⟩)
            (Or.inl ⟨hm, hfoo.symm⟩), rfl⟩
      | some mb =>
        simp only [hmb, hm]
        by_cases hfoo : H mb ≠ msg.payload
        · rw [if_pos hfoo]
          exact ⟨_, _, _, .readyReq wf ha hf0 hlen hamp hr _ (Or.inr ⟨hd, rfl⟩)
            (Or.inr ⟨mb, hm, hfoo⟩), rfl⟩
        · rw [if_neg hfoo]
          simp only [ne_eq, not_not] at hfoo
          exact ⟨_, _, _, .readyDeliver wf ha hf0 hlen hamp hr _ (Or.inr ⟨hd, rfl⟩)
            (Or.inr ⟨mb, hm, hfoo⟩), rfl⟩

theorem dispatchL_ready {q : Party} (s0 : Sent) {l : Nat} {msg : Msg} (wf : WF q msg)
    (ha : msg.action = rReady) :
    ∃ q' s o, DispL H T q l msg q' s o ∧ dispatch H T q s0 l msg = ⟨q', s0 ++ s, o⟩ := by
  rw [dispatch_ready_eq H T wf ha]
  by_cases hf : fHas q.ready l msg.tag = true
  · rw [if_pos hf]; exact ⟨_, _, _, .drop (fun _ => .ofReady ha hf), rfl⟩
  · have hf0 : fHas q.ready l msg.tag = false := by simpa using hf
    rw [if_neg hf]
    by_cases hlen : ioLen msg.payload > 2 * ioLen (T msg.tag)
    · rw [if_pos hlen]
      exact ⟨_, _, _, .markReady wf ha hf0 (by unfold LenOk; exact not_not.2 hlen), rfl⟩
    · rw [if_neg hlen]
      have hiff : (q.t > 0 ∧ (cntInc q.rD (msg.tag, msg.payload)).2 = q.t + 1 ∧
          (cntTouch q.eD (msg.tag, msg.payload)).2 < q.n - q.t) ↔ Amp q msg := by
        unfold Amp; rw [cntInc_snd, cntTouch_snd]
      by_cases hq : Amp q msg
      · rw [if_pos (hiff.2 hq)]
        refine ⟨_, _, _, .readyCount wf ha hf0 hlen (Or.inl hq), ?_⟩
        rw [if_pos hq]; rfl
      · rw [if_neg (fun h => hq (hiff.1 h)), cntInc_snd]
        by_cases hr : cnt q.rD (msg.tag, msg.payload) + 1 = 2 * q.t + 1
        · rw [if_pos hr]
          exact readyTail_cases H T s0 wf ha hf0 hlen hq hr
        · rw [if_neg hr]
          refine ⟨_, _, _, .readyCount wf ha hf0 hlen (Or.inr (Or.inl hr)), ?_⟩
          rw [if_neg hq]

theorem dispatchL_request {q : Party} (s0 : Sent) {l : Nat} {msg : Msg} (wf : WF q msg)
    (ha : msg.action = rRequest) :
    ∃ q' s o, DispL H T q l msg q' s o ∧ dispatch H T q s0 l msg = ⟨q', s0 ++ s, o⟩ := by
  rw [dispatch_request_eq H T wf ha]
  by_cases hf : fHas q.request l msg.tag = true
  · rw [if_pos hf]; exact ⟨_, _, _, .drop (fun _ => .ofRequest ha hf), rfl⟩
  · have hf0 : fHas q.request l msg.tag = false := by simpa using hf
    rw [if_neg hf]
    cases hm : aGet q.mbar msg.tag with
    | none => exact ⟨_, _, _, .markReq wf ha hf0 hm, rfl⟩
    | some mb => exact ⟨_, _, _, .reqAnswer wf ha hf0 mb hm, rfl⟩

theorem dispatchL_answer {q : Party} (s0 : Sent) {l : Nat} {msg : Msg} (wf : WF q msg)
    (ha : msg.action = rAnswer) :
    ∃ q' s o, DispL H T q l msg q' s o ∧ dispatch H T q s0 l msg = ⟨q', s0 ++ s, o⟩ := by
  rw [dispatch_answer_eq H T wf ha]
  by_cases hf : fHas q.answer l msg.tag = true
  · rw [if_pos hf]; exact ⟨_, _, _, .drop (fun _ => .ofAnswer ha hf), rfl⟩
  · have hf0 : fHas q.answer l msg.tag = false := by simpa using hf
    rw [if_neg hf]
    cases hd : aGet q.dbar msg.tag with
    | none => exact ⟨_, _, _, .markAns wf ha hf0 (Or.inl hd), rfl⟩
    | some db =>
      simp only []
      by_cases haw : q.awaited.contains msg.tag = true
      · simp only [haw, Bool.not_true, Bool.false_eq_true, if_false]
        by_cases hh : H msg.payload = db
        · rw [if_pos hh]
          exact ⟨_, _, _, .answerDeliver wf ha hf0 db hd haw hh, rfl⟩
        · rw [if_neg hh]
          exact ⟨_, _, _, .markAns wf ha hf0 (Or.inr (Or.inr ⟨db, hd, hh⟩)), rfl⟩
      · have haw0 : q.awaited.contains msg.tag = false := by simpa using haw
        simp only [haw0, Bool.not_false, if_true]
        exact ⟨_, _, _, .markAns wf ha hf0 (Or.inr (Or.inl haw0)), rfl⟩

theorem dispatchL_retrieve {q : Party} (s0 : Sent) {l : Nat} {msg : Msg} (wf : WF q msg)
    (ha : msg.action = lRetrieve) :
    ∃ q' s o, DispL H T q l msg q' s o ∧ dispatch H T q s0 l msg = ⟨q', s0 ++ s, o⟩ := by
  have hne : ∀ a : Int, a ≠ lRetrieve → msg.action ≠ a := by
    intro a h1 h2; exact h1 (h2.symm.trans ha)
  obtain ⟨h1, h2⟩ := wf_checks wf
  have h3 : ¬(msg.action < rSend ∨ msg.action > lDeliver) := by rw [ha]; decide
  unfold dispatch
  simp only []
  rw [if_neg h1, if_neg h2, if_neg h3, if_neg (hne rSend (by decide)), if_neg (hne rEcho (by decide)),
    if_neg (hne rReady (by decide)), if_neg (hne rRequest (by decide)),
    if_neg (hne rAnswer (by decide)), if_pos ha]
  cases hm : aGet q.mbar msg.tag with
  | none => exact ⟨_, _, _, .retrieve wf ha _ (Or.inl rfl), rfl⟩
  | some mb =>
    simp only []
    by_cases hc : (q.fifo = true ∧ msg.seq < q.dS msg.sender.toNat) ∨ ¬q.fifo = true
    · rw [if_pos hc]
      refine ⟨_, _, _, .retrieve wf ha _ (Or.inr ⟨mb, rfl, hm, ?_⟩), rfl⟩
      rcases hc with hc | hc
      · exact Or.inl hc
      · exact Or.inr (by simpa using hc)
    · rw [if_neg hc]
      exact ⟨_, _, _, .retrieve wf ha _ (Or.inl rfl), rfl⟩

theorem dispatchL_ldeliver {q : Party} (s0 : Sent) {l : Nat} {msg : Msg} (wf : WF q msg)
    (ha : msg.action = lDeliver) :
    ∃ q' s o, DispL H T q l msg q' s o ∧ dispatch H T q s0 l msg = ⟨q', s0 ++ s, o⟩ := by
  rw [dispatch_ldeliver_eq H T wf ha]
  by_cases hf : fHas q.deliver l msg.tag = true
  · rw [if_pos hf]; exact ⟨_, _, _, .drop (fun _ => .ofOther (Or.inr (Or.inr ha))), rfl⟩
  · have hf0 : fHas q.deliver l msg.tag = false := by simpa using hf
    rw [if_neg hf]
    by_cases hr : fHas q.retrieve l msg.tag = true
    · simp only [hr, Bool.not_true, Bool.false_eq_true, if_false]
      by_cases hn : deliverNum (ldelPost q l msg) msg.tag < q.n - q.t
      · rw [if_pos hn]; exact ⟨_, _, _, .ldelMark wf ha hf0 hr, rfl⟩
      · rw [if_neg hn]
        cases hi : agreeFind (ldelPost q l msg) msg.tag (ldelBuf q l msg) (List.range q.n) with
        | none => exact ⟨_, _, _, .ldelMark wf ha hf0 hr, rfl⟩
        | some i => exact ⟨_, _, _, .ldelDeliver wf ha hf0 hr i hi, rfl⟩
    · have hr0 : fHas q.retrieve l msg.tag = false := by simpa using hr
      simp only [hr0, Bool.not_false, if_true]
      exact ⟨_, _, _, .drop (fun _ => .ofOther (Or.inr (Or.inr ha))), rfl⟩

/-- every call of `dispatch` is one of the cases of `DispL` -/
theorem dispatchL (q : Party) (s0 : Sent) (l : Nat) (msg : Msg) :
    ∃ q' s o, DispL H T q l msg q' s o ∧ dispatch H T q s0 l msg = ⟨q', s0 ++ s, o⟩ := by
  by_cases wf : WF q msg
  · rcases action_cases msg with h | h | h | h | h | h | h | h
    · rw [dispatch_badact H T h]; exact ⟨_, _, _, .drop (fun _ => .ofOther (Or.inl h)), rfl⟩
    · exact dispatchL_send H T s0 wf h
    · exact dispatchL_echo H T s0 wf h
    · exact dispatchL_ready H T s0 wf h
    · exact dispatchL_request H T s0 wf h
    · exact dispatchL_answer H T s0 wf h
    · exact dispatchL_retrieve H T s0 wf h
    · exact dispatchL_ldeliver H T s0 wf h
  · rw [dispatch_bad H T wf]; exact ⟨_, _, _, .drop (fun h => absurd h wf), rfl⟩

end Tmcg.Rbc
