import TmcgProofs.RbcGlobal
/-
  C14 liveness, part A: `dispatch` as equations per action (the "must happen" direction;
  `Disp` of RbcGlobal.lean only says what MAY happen), frame lemmas for the first-time filters.
-/
namespace Tmcg.Rbc
variable (H : Int → Int) (T : Tag → Int)

theorem wf_checks {q : Party} {msg : Msg} (wf : WF q msg) :
    ¬(msg.sender > ((q.n : Int) - 1) ∨ msg.sender < 0) ∧ ¬ msg.seq < 1 := by
  unfold WF at wf; omega

/-- the length check on digests (`r-echo`, `r-ready`) -/
def LenOk (T : Tag → Int) (tag : Tag) (d : Int) : Prop := ¬ ioLen d > 2 * ioLen (T tag)

theorem dispatch_bad {q : Party} {s0 : Sent} {l : Nat} {msg : Msg} (wf : ¬ WF q msg) :
    dispatch H T q s0 l msg = ⟨q, s0 ++ [], .idle⟩ := by
  unfold dispatch
  simp only []
  by_cases h1 : msg.sender > ((q.n : Int) - 1) ∨ msg.sender < 0
  · rw [if_pos h1]
  · rw [if_neg h1]
    have h2 : msg.seq < 1 := by unfold WF at wf; omega
    rw [if_pos h2]

theorem dispatch_send_eq {q : Party} {s0 : Sent} {l : Nat} {msg : Msg} (wf : WF q msg)
    (ha : msg.action = rSend) :
    dispatch H T q s0 l msg =
      if fHas q.send l msg.tag then ⟨q, s0 ++ [], .idle⟩
      else if msg.sender ≠ (l : Int) then ⟨{ q with send := fIns q.send l msg.tag }, s0 ++ [], .idle⟩
      else match aGet q.mbar msg.tag with
        | none => ⟨{ q with send := fIns q.send l msg.tag, mbar := aSet q.mbar msg.tag msg.payload },
            s0 ++ sendAll q.n ⟨msg.id, msg.sender, msg.seq, rEcho, H msg.payload⟩, .idle⟩
        | some mb => if mb ≠ msg.payload then ⟨{ q with send := fIns q.send l msg.tag }, s0 ++ [], .idle⟩
            else ⟨{ q with send := fIns q.send l msg.tag },
              s0 ++ sendAll q.n ⟨msg.id, msg.sender, msg.seq, rEcho, H msg.payload⟩, .idle⟩ := by
  obtain ⟨h1, h2⟩ := wf_checks wf
  have h3 : ¬(msg.action < rSend ∨ msg.action > lDeliver) := by rw [ha]; decide
  unfold dispatch
  simp only []
  rw [if_neg h1, if_neg h2, if_neg h3, if_pos ha]
  by_cases hf : fHas q.send l msg.tag = true
  · simp [hf]
  · have hf0 : fHas q.send l msg.tag = false := by simpa using hf
    simp only [hf0, Bool.not_false, if_true, Bool.false_eq_true, if_false]
    rfl

theorem dispatch_echo_eq {q : Party} {s0 : Sent} {l : Nat} {msg : Msg} (wf : WF q msg)
    (ha : msg.action = rEcho) :
    dispatch H T q s0 l msg =
      if fHas q.echo l msg.tag then ⟨q, s0 ++ [], .idle⟩
      else if ioLen msg.payload > 2 * ioLen (T msg.tag) then
        ⟨{ q with echo := fIns q.echo l msg.tag }, s0 ++ [], .idle⟩
      else if (cntInc q.eD (msg.tag, msg.payload)).2 = q.n - q.t ∧
          (cntTouch q.rD (msg.tag, msg.payload)).2 ≤ q.t then
        ⟨echoPost q l msg, s0 ++ sendAll q.n ⟨msg.id, msg.sender, msg.seq, rReady, msg.payload⟩, .idle⟩
      else ⟨echoPost q l msg, s0 ++ [], .idle⟩ := by
  obtain ⟨h1, h2⟩ := wf_checks wf
  have h3 : ¬(msg.action < rSend ∨ msg.action > lDeliver) := by rw [ha]; decide
  have h4 : ¬ msg.action = rSend := by rw [ha]; decide
  unfold dispatch
  simp only []
  rw [if_neg h1, if_neg h2, if_neg h3, if_neg h4, if_pos ha]
  by_cases hf : fHas q.echo l msg.tag = true
  · simp [hf]
  · have hf0 : fHas q.echo l msg.tag = false := by simpa using hf
    simp only [hf0, Bool.not_false, if_true, Bool.false_eq_true, if_false]
    rfl

/-- the `2t+1` part of the r-ready branch, on the party `p2 = readyPost q l msg` -/
def readyTail (q : Party) (s0 : Sent) (l : Nat) (msg : Msg) : Result :=
  let p2 := readyPost q l msg
  match (match aGet p2.dbar msg.tag with
         | none => some { p2 with dbar := aSet p2.dbar msg.tag msg.payload }
         | some db => if db ≠ msg.payload then none else some p2) with
  | none => ⟨p2, s0 ++ [], .idle⟩
  | some p3 =>
    let db := (aGet p3.dbar msg.tag).getD 0
    let foo := match aGet p3.mbar msg.tag with
      | none => 0
      | some mb => H mb
    if foo ≠ db then
      ⟨{ p3 with awaited := if p3.awaited.contains msg.tag then p3.awaited else msg.tag :: p3.awaited },
        s0 ++ ((List.range (2 * q.t + 1)).map fun i =>
          (i, (⟨msg.id, msg.sender, msg.seq, rRequest, msg.payload⟩ : Msg))), .idle⟩
    else
      let r := deliverOrBuffer p3 msg []
      { r with sent := s0 ++ r.sent }

theorem dispatch_ready_eq {q : Party} {s0 : Sent} {l : Nat} {msg : Msg} (wf : WF q msg)
    (ha : msg.action = rReady) :
    dispatch H T q s0 l msg =
      if fHas q.ready l msg.tag then ⟨q, s0 ++ [], .idle⟩
      else if ioLen msg.payload > 2 * ioLen (T msg.tag) then
        ⟨{ q with ready := fIns q.ready l msg.tag }, s0 ++ [], .idle⟩
      else if q.t > 0 ∧ (cntInc q.rD (msg.tag, msg.payload)).2 = q.t + 1 ∧
          (cntTouch q.eD (msg.tag, msg.payload)).2 < q.n - q.t then
        ⟨readyPost q l msg, s0 ++ sendAll q.n ⟨msg.id, msg.sender, msg.seq, rReady, msg.payload⟩, .idle⟩
      else if (cntInc q.rD (msg.tag, msg.payload)).2 = 2 * q.t + 1 then readyTail H q s0 l msg
      else ⟨readyPost q l msg, s0 ++ [], .idle⟩ := by
  obtain ⟨h1, h2⟩ := wf_checks wf
  have h3 : ¬(msg.action < rSend ∨ msg.action > lDeliver) := by rw [ha]; decide
  have h4 : ¬ msg.action = rSend := by rw [ha]; decide
  have h5 : ¬ msg.action = rEcho := by rw [ha]; decide
  unfold dispatch
  simp only []
  rw [if_neg h1, if_neg h2, if_neg h3, if_neg h4, if_neg h5, if_pos ha]
  by_cases hf : fHas q.ready l msg.tag = true
  · simp [hf]
  · have hf0 : fHas q.ready l msg.tag = false := by simpa using hf
    simp only [hf0, Bool.not_false, if_true, Bool.false_eq_true, if_false]
    rfl

theorem dispatch_request_eq {q : Party} {s0 : Sent} {l : Nat} {msg : Msg} (wf : WF q msg)
    (ha : msg.action = rRequest) :
    dispatch H T q s0 l msg =
      if fHas q.request l msg.tag then ⟨q, s0 ++ [], .idle⟩
      else match aGet q.mbar msg.tag with
        | some mb => ⟨{ q with request := fIns q.request l msg.tag },
            s0 ++ [(l, ⟨msg.id, msg.sender, msg.seq, rAnswer, mb⟩)], .idle⟩
        | none => ⟨{ q with request := fIns q.request l msg.tag }, s0 ++ [], .idle⟩ := by
  obtain ⟨h1, h2⟩ := wf_checks wf
  have h3 : ¬(msg.action < rSend ∨ msg.action > lDeliver) := by rw [ha]; decide
  have h4 : ¬ msg.action = rSend := by rw [ha]; decide
  have h5 : ¬ msg.action = rEcho := by rw [ha]; decide
  have h6 : ¬ msg.action = rReady := by rw [ha]; decide
  unfold dispatch
  simp only []
  rw [if_neg h1, if_neg h2, if_neg h3, if_neg h4, if_neg h5, if_neg h6, if_pos ha]
  by_cases hf : fHas q.request l msg.tag = true
  · simp [hf]
  · have hf0 : fHas q.request l msg.tag = false := by simpa using hf
    simp only [hf0, Bool.not_false, if_true, Bool.false_eq_true, if_false]
    rfl

/-- the party after a valid r-answer for an awaited tag (before deliver-or-buffer) -/
def answerPost (q : Party) (l : Nat) (msg : Msg) : Party :=
  { q with answer := fIns q.answer l msg.tag, mbar := aSet q.mbar msg.tag msg.payload,
           awaited := q.awaited.erase msg.tag }

theorem dispatch_answer_eq {q : Party} {s0 : Sent} {l : Nat} {msg : Msg} (wf : WF q msg)
    (ha : msg.action = rAnswer) :
    dispatch H T q s0 l msg =
      if fHas q.answer l msg.tag then ⟨q, s0 ++ [], .idle⟩
      else match aGet q.dbar msg.tag with
        | none => ⟨{ q with answer := fIns q.answer l msg.tag }, s0 ++ [], .idle⟩
        | some db =>
          if !q.awaited.contains msg.tag then ⟨{ q with answer := fIns q.answer l msg.tag }, s0 ++ [], .idle⟩
          else if H msg.payload = db then
            let r := deliverOrBuffer (answerPost q l msg) msg []
            { r with sent := s0 ++ r.sent }
          else ⟨{ q with answer := fIns q.answer l msg.tag }, s0 ++ [], .idle⟩ := by
  obtain ⟨h1, h2⟩ := wf_checks wf
  have h3 : ¬(msg.action < rSend ∨ msg.action > lDeliver) := by rw [ha]; decide
  have h4 : ¬ msg.action = rSend := by rw [ha]; decide
  have h5 : ¬ msg.action = rEcho := by rw [ha]; decide
  have h6 : ¬ msg.action = rReady := by rw [ha]; decide
  have h7 : ¬ msg.action = rRequest := by rw [ha]; decide
  unfold dispatch
  simp only []
  rw [if_neg h1, if_neg h2, if_neg h3, if_neg h4, if_neg h5, if_neg h6, if_neg h7, if_pos ha]
  by_cases hf : fHas q.answer l msg.tag = true
  · simp [hf]
  · have hf0 : fHas q.answer l msg.tag = false := by simpa using hf
    simp only [hf0, Bool.not_false, if_true, Bool.false_eq_true, if_false]
    rfl

theorem dispatch_retrieve_eq {q : Party} {s0 : Sent} {l : Nat} {msg : Msg} (wf : WF q msg)
    (ha : msg.action = lRetrieve) :
    (dispatch H T q s0 l msg).party = q ∧ (dispatch H T q s0 l msg).out = .idle ∧
    ∃ x : Msg, (dispatch H T q s0 l msg).sent = s0 ++ [(l, x)] ∧
      (x.action = lDeliver ∨ x.action = lFail) := by
  obtain ⟨q', s, o, hD, hEq⟩ := dispatch_cases H T q s0 l msg
  have hne : ∀ a : Int, a ≠ lRetrieve → msg.action ≠ a := by
    intro a h1 h2; exact h1 (h2.symm.trans ha)
  obtain ⟨h1, h2⟩ := wf_checks wf
  have h3 : ¬(msg.action < rSend ∨ msg.action > lDeliver) := by rw [ha]; decide
  unfold dispatch
  simp only []
  rw [if_neg h1, if_neg h2, if_neg h3, if_neg (hne rSend (by decide)), if_neg (hne rEcho (by decide)),
    if_neg (hne rReady (by decide)), if_neg (hne rRequest (by decide)),
    if_neg (hne rAnswer (by decide)), if_pos ha]
  split
  · split_ifs
    · exact ⟨rfl, rfl, _, rfl, Or.inl rfl⟩
    · exact ⟨rfl, rfl, _, rfl, Or.inr rfl⟩
  · exact ⟨rfl, rfl, _, rfl, Or.inr rfl⟩

theorem dispatch_badact {q : Party} {s0 : Sent} {l : Nat} {msg : Msg}
    (ha : msg.action < rSend ∨ msg.action > lDeliver) :
    dispatch H T q s0 l msg = ⟨q, s0 ++ [], .idle⟩ := by
  unfold dispatch
  simp only []
  split_ifs <;> rfl

end Tmcg.Rbc
