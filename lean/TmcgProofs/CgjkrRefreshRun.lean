import TmcgProofs.CgjkrRefresh
import TmcgProofs.CgjkrSteps
/-
  C15, the share refresh on the MODEL (`Cgjkr.refRound`, code after the repair a457dd1): the arithmetic
  theorem `refresh_keeps_secret` applied to the states the model computes.

    * `refresh_run_keeps_secret`   take any `t+1` parties whose `Refresh` call returns `true` (last round of
                                   the model, no `simulate_faulty_behaviour`) and that agree on the set `zq` of
                                   admitted dealers.  If their old shares lie on a polynomial `F` of degree
                                   `≤ t` and the shares they hold from every admitted dealer `j` lie on a
                                   polynomial `h_j` of degree `≤ t` with `h_j(0) = 0`, then the value
                                   interpolated from their NEW shares equals the value interpolated from
                                   their old shares, namely `F(0)`; the public key is not touched by the call
                                   (it is no member of `RSt`).
  The hypothesis on the `h_j` is what the checks of `ZVSS::Share` give an honest party for every dealer
  of QUAL up to the binding of the commitments: `rvShare_checked` (each share satisfies equation (1)
  against `C_jk`) and the additional test `C_j0 = 1` (`rvCheck_sound`), i.e. `g^{h_j(0)} h^{h'_j(0)} = 1`.
-/
namespace Tmcg.CgjkrP
open Tmcg Tmcg.Powm Tmcg.Dkg Tmcg.Grp Tmcg.DkgL Tmcg.DkgP Tmcg.Cgjkr
open Polynomial

variable {G : Dkg.Grp} [Fact (Nat.Prime G.p.natAbs)] [Fact (Nat.Prime G.q.natAbs)]

set_option linter.unusedSectionVars false
set_option linter.unusedVariables false

/-- **A share refresh changes the shares but not the secret** (model level). -/
theorem refresh_run_keeps_secret (hG : ValidGrp G) (t : Nat)
    (F : Polynomial (ZMod G.q.natAbs)) (hF : F.degree < (t + 1 : Nat))
    (parties : List Nat) (hp : GoodParties G.q parties) (hlen : parties.length = t + 1)
    (zq : List Nat) (h : Nat → Polynomial (ZMod G.q.natAbs))
    (hh : ∀ j ∈ zq, (h j).degree < (t + 1 : Nat)) (hh0 : ∀ j ∈ zq, (h j).eval 0 = 0)
    (old new : Nat → RSt) (weak : Nat → List Nat) (strong : Nat → List Int) (I I' : Nat → Inbox)
    (hsfb : ∀ i ∈ parties, (old i).sfb = false)
    (hstep : ∀ i ∈ parties, refRound G (weak i) (strong i) 3 (old i) (I i) = .ok (.done (new i) (I' i) true))
    (hzq : ∀ i ∈ parties, (new i).zq = zq)
    (hx : ∀ i ∈ parties, (((old i).x : Int) : ZMod G.q.natAbs) = F.eval (pt G.q i))
    (hs : ∀ i ∈ parties, ∀ j ∈ zq,
      ((getI (new i).zr.s j : Int) : ZMod G.q.natAbs) = (h j).eval (pt G.q i)) :
    ∃ v, lagrange0 G.q parties (fun i => (old i).x) = some v ∧
      lagrange0 G.q parties (fun i => (new i).x) = some v ∧
      ((v : Int) : ZMod G.q.natAbs) = F.eval 0 := by
  have hq : 0 < G.q := hG.vg.q_pos
  -- the share of the admitted sharings of zero, party by party
  have hz : ∀ i ∈ parties, (((new i).zx : Int) : ZMod G.q.natAbs) =
      (zq.map (fun j => (h j).eval (pt G.q i))).sum := by
    intro i hi
    obtain ⟨-, -, ezq, ezx, -, ezrx, -, -, -, -⟩ :=
      refRound_update G (weak i) (strong i) (old i) (new i) (I i) (I' i) (hsfb i hi) (hstep i hi)
    have hc := ref_zx_cong (G := G) hq (new i).zr.qual
      (fun j => (old i).qual.contains (getN (old i).sub j)) (new i).zr.s
    rw [← ezrx, ← ezx, ← ezq, hzq i hi] at hc
    have : (((new i).zx : Int) : ZMod G.q.natAbs) = cq G (new i).zx := rfl
    rw [this, hc]
    congr 1
    apply List.map_congr_left
    intro j hj
    exact hs i hi j hj
  obtain ⟨v, hv1, hv2, hv3⟩ := refresh_keeps_secret hG t F hF zq h hh hh0 parties hp hlen
    (fun i => (old i).x) (fun i => (new i).zx) hx hz
  refine ⟨v, hv1, ?_, hv3⟩
  -- the new shares are `(x_i + zx_i) mod q`
  have hnew : ∀ i ∈ parties, (new i).x = ((old i).x + (new i).zx) % G.q := by
    intro i hi
    exact (refRound_update G (weak i) (strong i) (old i) (new i) (I i) (I' i) (hsfb i hi) (hstep i hi)).1
  have hcongr : lagrange0 G.q parties (fun i => (new i).x) =
      lagrange0 G.q parties (fun i => ((old i).x + (new i).zx) % G.q) := by
    -- both sides interpolate the same polynomial from shares that agree on `parties`
    obtain ⟨hd, h0, he⟩ := zero_sum_poly (G := G) zq h t hh hh0
    have hsum : (F + (zq.map h).sum).degree < (parties.length : Nat) := by
      rw [hlen]
      exact lt_of_le_of_lt (Polynomial.degree_add_le _ _) (max_lt hF hd)
    have hval : ∀ i ∈ parties, ((((old i).x + (new i).zx) % G.q : Int) : ZMod G.q.natAbs) =
        (F + (zq.map h).sum).eval (pt G.q i) := by
      intro i hi
      rw [DkgL.cast_emod hq, Int.cast_add, hx i hi, hz i hi, Polynomial.eval_add, he]
    obtain ⟨w1, a1, b1, c1, d1⟩ := lagrange0_val (q := G.q) hq parties hp (F + (zq.map h).sum) hsum
      (fun i => (new i).x) (fun i hi => by rw [hnew i hi]; exact hval i hi)
    obtain ⟨w2, a2, b2, c2, d2⟩ := lagrange0_val (q := G.q) hq parties hp (F + (zq.map h).sum) hsum
      (fun i => ((old i).x + (new i).zx) % G.q) hval
    have : w1 = w2 := eq_of_cast_eq (q := G.q) hq ⟨b1, c1⟩ ⟨b2, c2⟩ (d1.trans d2.symm)
    rw [a1, a2, this]
  rw [hcongr]
  exact hv2

end Tmcg.CgjkrP
