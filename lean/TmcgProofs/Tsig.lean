import Tmcg.Model.Tsig
import TmcgProofs.Group
import TmcgProofs.SigmaComplete
/-
  C16, last sentence: "The library's own verifiers accept exactly the triples that the standard
  equation and range conditions accept."  Statements about `Tsig.dssVerify` (DSA) and
  `Tsig.ntsVerify` (Schnorr), for every input.

  The standard equations are written in the field `ZMod p` (`toF G`), exponents in `[0, q)`.
-/
namespace Tmcg.TsigProofs
open Tmcg Tmcg.Powm Tmcg.Vtmf Tmcg.Grp Tmcg.Tsig

variable {G : Group} [Fact (Nat.Prime G.p.natAbs)]

-- the statements below keep the `Fact` instance argument even where the proof does not need it
set_option linter.unusedSectionVars false
-- some hypotheses of the (fixed) statements below are not needed by the proofs
set_option linter.unusedVariables false

/-- the textbook DSA acceptance condition for `(r, s)` on hash value `m` under key `y`:
    `0 < r < q`, `0 < s < q`, and with `w = s⁻¹ mod q`:
    `r = ((g^(m·w mod q) · y^(r·w mod q)) mod p) mod q` -/
def DsaAccepts (G : Group) [Fact (Nat.Prime G.p.natAbs)] (y m r s : Int) : Prop :=
  0 < r ∧ r < G.q ∧ 0 < s ∧ s < G.q ∧
  ∃ w : Int, 0 ≤ w ∧ w < G.q ∧ s * w % G.q = 1 ∧
    r = ((toF G G.g ^ (m * w % G.q).toNat * toF G y ^ (r * w % G.q).toNat : F G).val : Int) % G.q

/-! ### helper lemmas -/

omit [Fact (Nat.Prime G.p.natAbs)] in
theorem one_lt_q (hG : ValidGroup G) : 1 < G.q := by
  have h1 := hG.q_prime.one_lt
  have h2 := natAbs_q hG
  omega

omit [Fact (Nat.Prime G.p.natAbs)] in
/-- `invm` modulo the prime `q` on `0 < s < q`: the reduced inverse -/
theorem invm_q (hG : ValidGroup G) (s : Int) (hs : 0 < s ∧ s < G.q) :
    ∃ w, invm s G.q = some w ∧ 0 ≤ w ∧ w < G.q ∧ s * w % G.q = 1 := by
  have hq := hG.q_pos
  have hgcd : Int.gcd s G.q = 1 := by
    rw [Int.gcd_comm, Int.gcd_def]
    refine (Nat.Prime.coprime_iff_not_dvd hG.q_prime).mpr ?_
    intro hd
    have := Nat.le_of_dvd (by omega) hd
    omega
  obtain ⟨w, hw⟩ := invm_isSome_of_coprime (ne_of_gt hq) hgcd
  obtain ⟨h0, h1, hc⟩ := invm_some hw
  rw [abs_of_pos hq] at h1
  refine ⟨w, hw, h0, h1, ?_⟩
  have : s * w % G.q = 1 % G.q := hc
  rw [this, Int.emod_eq_of_lt (by norm_num) (one_lt_q hG)]

omit [Fact (Nat.Prime G.p.natAbs)] in
theorem modEq_one_of_emod (hG : ValidGroup G) {a : Int} (h : a % G.q = 1) : a ≡ 1 [ZMOD G.q] := by
  unfold Int.ModEq
  rw [h, Int.emod_eq_of_lt (by norm_num) (one_lt_q hG)]

omit [Fact (Nat.Prime G.p.natAbs)] in
/-- reduced inverses modulo `q` are unique -/
theorem inv_q_unique (hG : ValidGroup G) {s w w' : Int} (hw : 0 ≤ w ∧ w < G.q)
    (hw' : 0 ≤ w' ∧ w' < G.q) (h : s * w % G.q = 1) (h' : s * w' % G.q = 1) : w = w' := by
  have h1 := modEq_one_of_emod hG h
  have h2 := modEq_one_of_emod hG h'
  have h3 : w ≡ w' [ZMOD G.q] :=
    calc w = w * 1 := (mul_one w).symm
      _ ≡ w * (s * w') [ZMOD G.q] := (h2.mul_left w).symm
      _ = w' * (s * w) := by ring
      _ ≡ w' * 1 [ZMOD G.q] := h1.mul_left w'
      _ = w' := mul_one w'
  unfold Int.ModEq at h3
  rwa [Int.emod_eq_of_lt hw.1 hw.2, Int.emod_eq_of_lt hw'.1 hw'.2] at h3

/-- the canonical representative of a reduced model integer -/
theorem toF_val (hG : ValidGroup G) (a : Int) (h : 0 ≤ a ∧ a < G.p) :
    ((toF G a).val : Int) = a := by
  have : NeZero G.p.natAbs := ⟨hG.p_prime.ne_zero⟩
  unfold toF
  rw [ZMod.val_intCast, natAbs_p hG, Int.emod_eq_of_lt h.1 h.2]

/-- exponents of `g` only matter modulo `q` -/
theorem g_zpow_congr (hG : ValidGroup G) {a b : Int} (h : a ≡ b [ZMOD G.q]) :
    toF G G.g ^ a = toF G G.g ^ b := by
  rw [← zpow_mod_q hG _ (g_pow_q hG) (g_ne_zero hG) a, ← zpow_mod_q hG _ (g_pow_q hG) (g_ne_zero hG) b]
  exact congrArg _ h

theorem pow_toNat (x : F G) {e : Int} (he : 0 ≤ e) : x ^ e.toNat = x ^ e := by
  conv_rhs => rw [← Int.toNat_of_nonneg he]
  rw [zpow_natCast]

/-! ### DSA -/

/-- the range conditions alone: anything outside `0 < r, s < q` is refused (in particular the
    representatives `r ± q`, `s ± q`, `-r`, `-s`, `0`, `q` of a valid pair) -/
theorem dssVerify_range (y m r s : Int) (h : r ≤ 0 ∨ G.q ≤ r ∨ s ≤ 0 ∨ G.q ≤ s) :
    dssVerify G y m r s = .ok false := by
  unfold dssVerify
  by_cases hr : r ≤ 0 ∨ r ≥ G.q
  · simp [hr, pure, Except.pure]
  · have hs : s ≤ 0 ∨ s ≥ G.q := by omega
    simp [hr, hs, pure, Except.pure]

/-- **DSA verifier = textbook**, for every `(y, m, r, s)`: the model never fails and returns `true`
    exactly on the textbook condition -/
theorem dssVerify_iff (hG : ValidGroup G) (y m r s : Int) :
    ∃ b, dssVerify G y m r s = .ok b ∧ (b = true ↔ DsaAccepts G y m r s) := by
  have hq := hG.q_pos
  have hp := hG.p_pos
  by_cases hrs : r ≤ 0 ∨ G.q ≤ r ∨ s ≤ 0 ∨ G.q ≤ s
  · refine ⟨false, dssVerify_range y m r s hrs, ?_⟩
    constructor
    · intro h; cases h
    · rintro ⟨h1, h2, h3, h4, -⟩; omega
  · have hr : ¬ (r ≤ 0 ∨ r ≥ G.q) := by omega
    have hs : ¬ (s ≤ 0 ∨ s ≥ G.q) := by omega
    obtain ⟨w, hw, hw0, hw1, hsw⟩ := invm_q hG s ⟨by omega, by omega⟩
    have hu1 := Int.emod_nonneg (m * w) (ne_of_gt hq)
    have hu1' := Int.emod_lt_of_pos (m * w) hq
    have hu2 := Int.emod_nonneg (r * w) (ne_of_gt hq)
    obtain ⟨T, hT⟩ := table_exists hG G.g
    have hT' : precompute G.g G.p (bitlen G.q) = .ok T := hT
    obtain ⟨a, ha, ha0, ha1, hav⟩ :=
      fpowm_val hG T G.g (m * w % G.q) hT (g_ne_zero hG) (by omega)
    obtain ⟨b, hb, hb0, hb1, hbv⟩ := mpzPowm_nonneg hG y (r * w % G.q) hu2
    rw [← pow_toNat _ hu1] at hav
    have hval : ((toF G G.g ^ (m * w % G.q).toNat * toF G y ^ (r * w % G.q).toNat : F G).val : Int)
        = a * b % G.p := by
      rw [← hav, ← hbv, ← toF_mul, ← toF_emod hG, toF_val hG _ (emod_bounds hG _)]
    refine ⟨r == a * b % G.p % G.q, ?_, ?_⟩
    · simp [dssVerify, bind, Except.bind, pure, Except.pure, mpzMod, hr, hs, hw, hT', ha, hb,
        ne_of_gt hq, ne_of_gt hp]
    · rw [beq_iff_eq]
      constructor
      · intro h
        refine ⟨by omega, by omega, by omega, by omega, w, hw0, hw1, hsw, ?_⟩
        rw [hval]; exact h
      · rintro ⟨-, -, -, -, w', hw'0, hw'1, hsw', h⟩
        obtain rfl := inv_q_unique hG ⟨hw0, hw1⟩ ⟨hw'0, hw'1⟩ hsw hsw'
        rw [hval] at h; exact h

/-- a textbook signature made with secret `x` and nonce `k` verifies under `y = g^x mod p`:
    `r = (g^k mod p) mod q ≠ 0`, `s = k⁻¹ (m + x r) mod q ≠ 0` -/
theorem dssVerify_textbook_signature (hG : ValidGroup G) (x k m r s y gk kinv : Int)
    (hx : 0 ≤ x ∧ x < G.q) (hk : 0 < k ∧ k < G.q)
    (hy : 0 ≤ y ∧ y < G.p ∧ toF G y = toF G G.g ^ x)
    (hgk : 0 ≤ gk ∧ gk < G.p ∧ toF G gk = toF G G.g ^ k)
    (hr : r = gk % G.q) (hr0 : r ≠ 0)
    (hkinv : 0 ≤ kinv ∧ kinv < G.q ∧ k * kinv % G.q = 1)
    (hs : s = kinv * (m + x * r) % G.q) (hs0 : s ≠ 0) :
    dssVerify G y m r s = .ok true := by
  have hq := hG.q_pos
  obtain ⟨b, hb, hiff⟩ := dssVerify_iff hG y m r s
  have hrr : 0 < r ∧ r < G.q := by
    have h1 := Int.emod_nonneg gk (ne_of_gt hq)
    have h2 := Int.emod_lt_of_pos gk hq
    omega
  have hss : 0 < s ∧ s < G.q := by
    have h1 := Int.emod_nonneg (kinv * (m + x * r)) (ne_of_gt hq)
    have h2 := Int.emod_lt_of_pos (kinv * (m + x * r)) hq
    omega
  obtain ⟨w, -, hw0, hw1, hsw⟩ := invm_q hG s hss
  have hacc : DsaAccepts G y m r s := by
    refine ⟨hrr.1, hrr.2, hss.1, hss.2, w, hw0, hw1, hsw, ?_⟩
    have hu1 := Int.emod_nonneg (m * w) (ne_of_gt hq)
    have hu2 := Int.emod_nonneg (r * w) (ne_of_gt hq)
    have h1 := modEq_one_of_emod hG hsw
    have h2 := modEq_one_of_emod hG hkinv.2.2
    have h3 : s ≡ kinv * (m + x * r) [ZMOD G.q] := by rw [hs]; exact Int.mod_modEq _ _
    have hcong : m * w % G.q + x * (r * w % G.q) ≡ k [ZMOD G.q] :=
      calc m * w % G.q + x * (r * w % G.q)
          ≡ m * w + x * (r * w) [ZMOD G.q] :=
            (Int.mod_modEq _ _).add ((Int.mod_modEq _ _).mul_left x)
        _ = 1 * (m + x * r) * w := by ring
        _ ≡ (k * kinv) * (m + x * r) * w [ZMOD G.q] := ((h2.symm.mul_right _).mul_right _)
        _ = k * (kinv * (m + x * r) * w) := by ring
        _ ≡ k * (s * w) [ZMOD G.q] := ((h3.symm.mul_right w).mul_left k)
        _ ≡ k * 1 [ZMOD G.q] := h1.mul_left k
        _ = k := mul_one k
    have hfield : toF G G.g ^ (m * w % G.q).toNat * toF G y ^ (r * w % G.q).toNat = toF G gk := by
      rw [hy.2.2, hgk.2.2, pow_toNat _ hu1, pow_toNat _ hu2, ← zpow_mul,
        ← zpow_add₀ (g_ne_zero hG)]
      exact g_zpow_congr hG hcong
    rw [hfield, toF_val hG gk ⟨hgk.1, hgk.2.1⟩]
    exact hr
  rw [hb, hiff.mpr hacc]

/-! ### Schnorr -/

/-- the textbook Schnorr acceptance condition for `(c, s)` on message `m` under key `y`
    (`y` invertible mod `p`): `0 ≤ s < q` and `c = H(m, g^s · y^(-c) mod p)` -/
def SchnorrAccepts (H : Sigma.Hash) (G : Group) [Fact (Nat.Prime G.p.natAbs)] (y m c s : Int) : Prop :=
  0 ≤ s ∧ s < G.q ∧
  ∃ r : Int, 0 ≤ r ∧ r < G.p ∧ toF G r = toF G G.g ^ s * (toF G y ^ c)⁻¹ ∧
    c = H (Sigma.shashInput [m, r])

/-- the range condition on the response (repair of finding F8): `s ± q`, `-s` are refused -/
theorem ntsVerify_range (H : Sigma.Hash) (y m c s : Int) (h : s < 0 ∨ G.q ≤ s) :
    ntsVerify H G y m c s = .ok false := by
  have hs : s < 0 ∨ s ≥ G.q := h
  simp [ntsVerify, hs, pure, Except.pure]

/-- **Schnorr verifier = textbook**, for every `(m, c, s)` and every key that is a unit mod `p`
    (for a non-unit key and negative `c` GMP's `mpz_powm` raises a division by zero: `Err`) -/
theorem ntsVerify_iff (H : Sigma.Hash) (hG : ValidGroup G) (y m c s : Int) (hy : toF G y ≠ 0) :
    ∃ b, ntsVerify H G y m c s = .ok b ∧ (b = true ↔ SchnorrAccepts H G y m c s) := by
  have hq := hG.q_pos
  have hp := hG.p_pos
  by_cases hs : s < 0 ∨ G.q ≤ s
  · refine ⟨false, ntsVerify_range H y m c s hs, ?_⟩
    constructor
    · intro h; cases h
    · rintro ⟨h1, h2, -⟩; omega
  · have hs' : ¬ (s < 0 ∨ s ≥ G.q) := by omega
    obtain ⟨T, hT⟩ := table_exists hG G.g
    have hT' : precompute G.g G.p (bitlen G.q) = .ok T := hT
    obtain ⟨r, hr, hr0, hr1, hrv⟩ := fpowm_val hG T G.g s hT (g_ne_zero hG) (by omega)
    obtain ⟨foo, hfoo, -, -, hfoov⟩ := mpzPowm_val hG y c hy
    have hfoo0 : toF G foo ≠ 0 := by rw [hfoov]; exact zpow_ne_zero _ hy
    obtain ⟨bar, hbar, -, -, hbarv⟩ := invm_val hG foo hfoo0
    have hv : toF G (r * bar % G.p) = toF G G.g ^ s * (toF G y ^ c)⁻¹ := by
      rw [toF_emod hG, toF_mul, hrv, hbarv, hfoov]
    refine ⟨c == H (Sigma.shashInput [m, r * bar % G.p]), ?_, ?_⟩
    · simp [ntsVerify, bind, Except.bind, pure, Except.pure, mpzMod, hs', hT', hr, hfoo, hbar,
        ne_of_gt hp]
    · rw [beq_iff_eq]
      constructor
      · intro h
        exact ⟨by omega, by omega, r * bar % G.p, (emod_bounds hG _).1, (emod_bounds hG _).2, hv, h⟩
      · rintro ⟨-, -, r', h0, h1, hv', hc⟩
        have : r' = r * bar % G.p :=
          eq_of_toF_eq hG ⟨h0, h1⟩ (emod_bounds hG _) (hv'.trans hv.symm)
        rw [← this]; exact hc

/-- a textbook signature `c = H(m, g^k)`, `s = k + c·x mod q` verifies under `y = g^x` -/
theorem ntsVerify_textbook_signature (H : Sigma.Hash) (hG : ValidGroup G) (x k m c s y gk : Int)
    (hx : 0 ≤ x ∧ x < G.q) (hk : 0 ≤ k ∧ k < G.q)
    (hy : 0 ≤ y ∧ y < G.p ∧ toF G y = toF G G.g ^ x)
    (hgk : 0 ≤ gk ∧ gk < G.p ∧ toF G gk = toF G G.g ^ k)
    (hc : c = H (Sigma.shashInput [m, gk])) (hs : s = (k + c * x) % G.q) :
    ntsVerify H G y m c s = .ok true := by
  have hq := hG.q_pos
  have hg0 := g_ne_zero hG
  have hy0 : toF G y ≠ 0 := by rw [hy.2.2]; exact zpow_ne_zero _ hg0
  obtain ⟨b, hb, hiff⟩ := ntsVerify_iff H hG y m c s hy0
  have hacc : SchnorrAccepts H G y m c s := by
    refine ⟨?_, ?_, gk, hgk.1, hgk.2.1, ?_, hc⟩
    · rw [hs]; exact Int.emod_nonneg _ (ne_of_gt hq)
    · rw [hs]; exact Int.emod_lt_of_pos _ hq
    · rw [hgk.2.2, hy.2.2, hs, zpow_mod_q hG _ (g_pow_q hG) hg0, ← zpow_mul, ← zpow_neg,
        ← zpow_add₀ hg0]
      congr 1; ring
  rw [hb, hiff.mpr hacc]

/-- non-vacuity on `p = 23, q = 11, g = 2`: key `x = 3`, `y = 8`; nonce `k = 5`: `g^k = 9`,
    `r = 9`; `m = 4`: `s = 5⁻¹·(4 + 27) mod 11 = 9·31 mod 11 = 4` -/
example : dssVerify ⟨23, 11, 2⟩ 8 4 9 4 = .ok true := by
  decide +kernel

end Tmcg.TsigProofs
