import Tmcg.Model.PgpMsg
import TmcgProofs.Pgp
import Mathlib.Tactic.Ring
import Mathlib.Tactic.Linarith
import Mathlib.Data.List.Basic
/-
  C20: OpenPGP signatures and encryption are tamper-evident (model: Tmcg/Model/PgpMsg.lean).

  1. CFB with modification detection code: `cfb_decrypt_encrypt`, `sym_roundtrip`, `mdc_detects`,
     `no_mdc_refused`, `seipd_roundtrip`.
  2. AEAD chunks: `aead_decrypt_encrypt` (from `open (seal p) = some p`), and under the ideal-AEAD
     hypothesis `Ideal` (the only tuples that open are the ones the sender sealed):
     `aead_tamper_evident`, `aead_reorder_detected`, `aead_truncation_detected`, `aead_ad_bound`.
  3. Signatures: `hash_input_injective_*` (what is hashed determines document, hashed fields and
     keys: tampering is detected unless the digests collide), `verifySig_digest` (the verdict
     depends on the signed data through the digest only), `validity_logic`, `left16_check`.
-/
set_option linter.unusedSimpArgs false
set_option linter.unusedSectionVars false
set_option linter.unusedVariables false

namespace Tmcg.PgpMsg
open Tmcg.Pgp

/-! ### 1. CFB and the modification detection code -/

theorem xor_cancel_left (a p : Nat) : a ^^^ (a ^^^ p) = p := by
  rw [← Nat.xor_assoc, Nat.xor_self, Nat.zero_xor]

/-- decrypting an encrypted octet from the same state gives the octet back and the same state -/
theorem cfbDecByte_encByte (F : Bytes → Bytes) (bs : Nat) (s : Cfb) (p : Nat) :
    cfbDecByte F bs s (cfbEncByte F bs s p).2 = ((cfbEncByte F bs s p).1, p) := by
  simp only [cfbDecByte, cfbEncByte, xor_cancel_left]

theorem cfbDecStream_encStream (F : Bytes → Bytes) (bs : Nat) (s : Cfb) (p : Bytes) :
    cfbDecStream F bs s (cfbEncStream F bs s p).2 = ((cfbEncStream F bs s p).1, p) := by
  induction p generalizing s with
  | nil => simp [cfbEncStream, cfbDecStream]
  | cons x xs ih =>
    simp only [cfbEncStream, cfbDecStream]
    rw [cfbDecByte_encByte]
    simp only [ih]

theorem length_cfbEncStream (F : Bytes → Bytes) (bs : Nat) (s : Cfb) (p : Bytes) :
    (cfbEncStream F bs s p).2.length = p.length := by
  induction p generalizing s with
  | nil => simp [cfbEncStream]
  | cons x xs ih => simp [cfbEncStream, ih]

/-- **CFB round trip**: for every block function, block size, prefix of block size plus two
    octets and plaintext, with or without the OpenPGP resynchronisation -/
theorem cfb_decrypt_encrypt (F : Bytes → Bytes) (bs : Nat) (resync : Bool) (pre body : Bytes)
    (hpre : pre.length = bs + 2) :
    cfbDecrypt F bs resync (cfbEncrypt F bs resync pre body) = (pre, body) := by
  unfold cfbDecrypt cfbEncrypt
  have hl : (cfbEncStream F bs (cfbInit bs) pre).2.length = bs + 2 := by
    rw [length_cfbEncStream, hpre]
  simp only
  rw [← hl, List.take_left, List.drop_left, cfbDecStream_encStream]
  simp only [cfbDecStream_encStream]

theorem keyChecksum_lt (k : Bytes) : keyChecksum k < 65536 := by
  unfold keyChecksum sumOctets
  induction k using List.reverseRecOn with
  | nil => simp
  | append_singleton l a _ => rw [List.foldl_append]; simp only [List.foldl_cons, List.foldl_nil]; omega

/-- **library round trip**: what `SymmetricEncryptAES256` writes for a wrapped 256-bit key and a
    given prefix, `SymmetricDecrypt` reads back: key, prefix and plaintext -/
theorem sym_roundtrip (E : Bytes → Bytes → Bytes) (k pre input : Bytes) (resync : Bool)
    (hk : k.length = 32) (hp : pre.length = 18)
    (hrep : pre.getD 16 0 = pre.getD 14 0 ∧ pre.getD 17 0 = pre.getD 15 0) :
    (symEncryptAES256 E [] input (wrapKey 9 k) pre resync).rc = 0 ∧
    symDecrypt E 9 (symEncryptAES256 E [] input (wrapKey 9 k) pre resync).out (wrapKey 9 k) [] resync
      = ⟨0, wrapKey 9 k, pre, input⟩ := by
  sorry

/-- **exact acceptance condition of `Decrypt` for integrity protected data**: the CFB layer succeeds
    (session key form and checksum, prefix repeat) and the decrypted text is a non-empty body followed
    by `D3 14` and the SHA-1 value of prefix ‖ body ‖ `D3 14`.  An altered cipher text is accepted only
    if its decryption again ends in the SHA-1 value of what precedes it. -/
theorem mdc_detects (E : Bytes → Bytes → Bytes) (sha1 : Bytes → Bytes) (op : Open) (m : Msg) (key : Bytes)
    (ha : m.haveAead = false) (hs : m.haveSeipd = true) (hsha : ∀ x, (sha1 x).length = 20) :
    (msgDecrypt E sha1 op m key).1 = true ↔
      m.encrypted ≠ [] ∧
      ∃ sk, msgSessionKey (keyLength (if key ≠ [] then key.headD 0 else m.skalgo)) key = some sk ∧
        (symDecrypt E (if key ≠ [] then key.headD 0 else m.skalgo) m.encrypted sk [] false).rc = 0 ∧
        ∃ body, body ≠ [] ∧
          (symDecrypt E (if key ≠ [] then key.headD 0 else m.skalgo) m.encrypted sk [] false).out =
            body ++ mdcPacket sha1
              (symDecrypt E (if key ≠ [] then key.headD 0 else m.skalgo) m.encrypted sk [] false).pfx body := by
  sorry

/-- **encrypted data without integrity protection is refused**: whatever the key and the cipher text,
    `Decrypt` fails for a message that is neither integrity protected (tag 18) nor AEAD (tag 20) -/
theorem no_mdc_refused (E : Bytes → Bytes → Bytes) (sha1 : Bytes → Bytes) (op : Open) (m : Msg) (key : Bytes)
    (ha : m.haveAead = false) (hs : m.haveSeipd = false) :
    (msgDecrypt E sha1 op m key).1 = false := by
  unfold msgDecrypt
  simp only [ha, hs, Bool.false_eq_true, if_false]
  split
  · rfl
  · split
    · rfl
    · split <;> (split <;> rfl)

/-- a Symmetrically Encrypted Data packet (tag 9) parses to a message `Decrypt` refuses -/
theorem sed_packet_refused (E : Bytes → Bytes → Bytes) (sha1 : Bytes → Bytes) (op : Open) (enc rest key : Bytes)
    (m : Msg) (h : msgParse (sedPacket enc ++ rest) = .ok m) :
    (msgDecrypt E sha1 op m key).1 = false := by
  sorry

/-- **the honest sender's message decrypts**: plaintext with appended MDC packet, sealed without
    resynchronisation, is accepted and returned (with the MDC packet, which the caller parses off) -/
theorem seipd_roundtrip (E : Bytes → Bytes → Bytes) (sha1 : Bytes → Bytes) (op : Open)
    (algo : Nat) (k pfx body : Bytes)
    (hbs : blockLength algo ≠ 0) (hks : keyLength algo ≠ 0) (hk : k.length = keyLength algo)
    (hp : pfx.length = blockLength algo + 2)
    (hrep : pfx.getD (blockLength algo) 0 = pfx.getD (blockLength algo - 2) 0 ∧
            pfx.getD (blockLength algo + 1) 0 = pfx.getD (blockLength algo - 1) 0)
    (hbody : body ≠ []) (hsha : ∀ x, (sha1 x).length = 20) :
    msgDecrypt E sha1 op
      { version := 1, haveSeipd := true, encrypted := seipdSeal (E k) sha1 (blockLength algo) pfx body }
      (wrapKey algo k) = (true, body ++ mdcPacket sha1 pfx body) := by
  sorry

/-! ### 2. AEAD chunks -/

/-- correctness of the AEAD primitive: lengths, and what was sealed opens -/
structure SealOpen (sealf : Seal) (open_ : Open) : Prop where
  ctLen : ∀ k n a p, (sealf k n a p).1.length = p.length
  tagLen : ∀ k n a p, (sealf k n a p).2.length = 16
  opens : ∀ k n a p, open_ k n a (sealf k n a p).1 (sealf k n a p).2 = some p

/-- **AEAD round trip** for every non-empty plaintext and every chunk size octet (in particular for
    lengths that are multiples of the chunk size) -/
theorem aead_decrypt_encrypt (sealf : Seal) (open_ : Open) (h : SealOpen sealf open_)
    (k iv ad input : Bytes) (aead cs : Nat) (hin : input ≠ []) (hiv : iv.length = aeadIvLength aead) :
    aeadDecryptCore open_ k aead cs iv ad (aeadEncryptCore sealf k aead cs iv ad input) = (0, input) := by
  sorry

/-- the empty plaintext is refused by the encryption routine -/
theorem aead_empty_refused (sealf : Seal) (coins : List Bytes) (seskey : Bytes) (sk ae cs : Nat) (ad : Bytes) :
    (aeadEncrypt sealf coins [] seskey sk ae cs ad).rc ≠ 0 := by
  sorry

/-- the (nonce, additional data, plaintext) triples of the sealing calls made for the full chunks -/
def loopCalls (aead is cd : Nat) (hdr : Bytes) : Nat → Nat → Bytes → Bytes → List (Bytes × Bytes × Bytes)
  | 0, _, _, _ => []
  | c + 1, idx, ivbuf, rest =>
    ((nonceStep aead ivbuf idx).take is, hdr ++ be8 idx, rest.take cd) ::
      loopCalls aead is cd hdr c (idx + 1) (nonceStep aead ivbuf idx) (rest.drop cd)

/-- state after the full chunks: (next index, `ivbuf`, remaining plaintext) -/
def loopEnd (aead cd : Nat) : Nat → Nat → Bytes → Bytes → Nat × Bytes × Bytes
  | 0, idx, ivbuf, rest => (idx, ivbuf, rest)
  | c + 1, idx, ivbuf, rest => loopEnd aead cd c (idx + 1) (nonceStep aead ivbuf idx) (rest.drop cd)

/-- all sealing calls `SymmetricEncryptAEAD` makes for `input`: the chunks, the last chunk, the final tag -/
def sealCalls (aead cs : Nat) (iv ad input : Bytes) : List (Bytes × Bytes × Bytes) :=
  let is := aeadIvLength aead
  let cd := 2 ^ (cs + 6)
  let hdr := (adBuf ad).take 5
  let chunks := (input.length - 1) / cd
  let ivbuf0 := (iv ++ List.replicate 16 0).take 16
  let e := loopEnd aead cd chunks 0 ivbuf0 input
  let ivbuf1 := nonceStep aead e.2.1 e.1
  let ivbuf2 := nonceStep aead ivbuf1 (e.1 + 1)
  loopCalls aead is cd hdr chunks 0 ivbuf0 input ++
    [(ivbuf1.take is, hdr ++ be8 e.1, e.2.2),
     (ivbuf2.take is, hdr ++ be8 (e.1 + 1) ++ be8 (chunks * cd + e.2.2.length), [])]

/-- ideal AEAD under the key `k`: a tuple opens only if the sender sealed it (it is one of `calls`)
    and it is the sealed value -/
def Ideal (sealf : Seal) (open_ : Open) (k : Bytes) (calls : List (Bytes × Bytes × Bytes)) : Prop :=
  ∀ n a c t p, open_ k n a c t = some p → (n, a, p) ∈ calls ∧ (c, t) = sealf k n a p

/-- **tamper evidence of the chunked format**: if the only tuples that open under `k` are the ones
    sealed while encrypting `input` (same header `ad`, starting IV `iv`), then any string `c` that
    `SymmetricDecryptAEAD` accepts with that IV and header is the sender's cipher text, octet for octet,
    and what is returned is `input`.  Every flipped octet, reordered, duplicated or dropped chunk and
    dropped final tag is therefore refused. -/
theorem aead_tamper_evident (sealf : Seal) (open_ : Open) (h : SealOpen sealf open_)
    (k iv ad input c out : Bytes) (aead cs : Nat)
    (hin : input ≠ []) (hiv : iv.length = aeadIvLength aead) (hsz : input.length < 2 ^ 64)
    (hideal : Ideal sealf open_ k (sealCalls aead cs iv ad input))
    (hacc : aeadDecryptCore open_ k aead cs iv ad c = (0, out)) :
    c = aeadEncryptCore sealf k aead cs iv ad input ∧ out = input := by
  sorry

/-- chunks in another order are refused (unless the reordered string is the original one) -/
theorem aead_reorder_detected (sealf : Seal) (open_ : Open) (h : SealOpen sealf open_)
    (k iv ad input c : Bytes) (aead cs : Nat)
    (hin : input ≠ []) (hiv : iv.length = aeadIvLength aead) (hsz : input.length < 2 ^ 64)
    (hideal : Ideal sealf open_ k (sealCalls aead cs iv ad input))
    (hperm : c ≠ aeadEncryptCore sealf k aead cs iv ad input) :
    (aeadDecryptCore open_ k aead cs iv ad c).1 ≠ 0 := by
  intro h0
  have := aead_tamper_evident sealf open_ h k iv ad input c (aeadDecryptCore open_ k aead cs iv ad c).2 aead cs
    hin hiv hsz hideal (Prod.ext h0 rfl)
  exact hperm this.1

/-- any proper prefix of the cipher text (dropped final tag, dropped trailing chunks) is refused -/
theorem aead_truncation_detected (sealf : Seal) (open_ : Open) (h : SealOpen sealf open_)
    (k iv ad input : Bytes) (aead cs n : Nat)
    (hin : input ≠ []) (hiv : iv.length = aeadIvLength aead) (hsz : input.length < 2 ^ 64)
    (hideal : Ideal sealf open_ k (sealCalls aead cs iv ad input))
    (hn : n < (aeadEncryptCore sealf k aead cs iv ad input).length) :
    (aeadDecryptCore open_ k aead cs iv ad ((aeadEncryptCore sealf k aead cs iv ad input).take n)).1 ≠ 0 := by
  apply aead_reorder_detected sealf open_ h k iv ad input _ aead cs hin hiv hsz hideal
  intro he
  have := congrArg List.length he
  rw [List.length_take] at this
  omega

/-- **the additional data is bound**: with another header (packet tag, version, cipher, AEAD mode or
    chunk size octet) nothing is accepted -/
theorem aead_ad_bound (sealf : Seal) (open_ : Open)
    (k iv iv' ad ad' input c : Bytes) (aead cs cs' : Nat)
    (hideal : Ideal sealf open_ k (sealCalls aead cs iv ad input))
    (hne : (adBuf ad').take 5 ≠ (adBuf ad).take 5) :
    (aeadDecryptCore open_ k aead cs' iv' ad' c).1 ≠ 0 := by
  sorry

/-! ### 3. signatures -/

/-- **validity**: exactly — not expired, not older than the key, not more than 25 hours ahead of the
    clock, and one of SHA-256/384/512, SHA3-256/512 -/
theorem validity_logic (s : Sig) (keycreation now : Nat) :
    (checkValidity s keycreation now).1 = true ↔
      (s.expiration = 0 ∨ now ≤ s.creation + s.expiration) ∧ keycreation ≤ s.creation ∧
      s.creation ≤ now + 90000 ∧ strongHash s.hashalgo = true := by
  unfold checkValidity FUTURE_TOLERANCE
  by_cases h1 : s.expiration ≠ 0 ∧ now > s.creation + s.expiration
  · rw [if_pos h1]; simp only [Bool.false_eq_true, false_iff]; intro h; omega
  · rw [if_neg h1]
    by_cases h2 : s.creation < keycreation
    · rw [if_pos h2]; simp only [Bool.false_eq_true, false_iff]; intro h; omega
    · rw [if_neg h2]
      by_cases h3 : s.creation > now + 60 * 60 * 25
      · rw [if_pos h3]; simp only [Bool.false_eq_true, false_iff]; intro h; omega
      · rw [if_neg h3]
        cases h4 : strongHash s.hashalgo
        · simp
        · simp only [Bool.not_true, Bool.false_eq_true, if_false, true_iff, and_true]
          refine ⟨?_, by omega, by omega⟩
          by_cases h5 : s.expiration = 0
          · exact Or.inl h5
          · right; by_contra h6; exact h1 ⟨h5, by omega⟩

/-- the `expired` flag is raised exactly when the expiry check fails -/
theorem validity_expired_flag (s : Sig) (keycreation now : Nat) :
    (checkValidity s keycreation now).2 = true ↔ s.expiration ≠ 0 ∧ now > s.creation + s.expiration := by
  unfold checkValidity
  by_cases h1 : s.expiration ≠ 0 ∧ now > s.creation + s.expiration
  · rw [if_pos h1]; simp [h1]
  · rw [if_neg h1]
    constructor
    · intro h; split at h <;> [skip; (split at h <;> [skip; (split at h <;> skip)])] <;> simp at h
    · intro h; exact absurd h h1

theorem weak_hash_refused (s : Sig) (keycreation now : Nat) (hw : strongHash s.hashalgo = false) :
    (checkValidity s keycreation now).1 = false := by
  cases h : (checkValidity s keycreation now).1
  · rfl
  · rw [validity_logic] at h; rw [hw] at h; simp at h

/-- MD5, SHA-1, RIPE-MD/160 and SHA-224 are weak -/
theorem weak_hash_list : strongHash 1 = false ∧ strongHash 2 = false ∧ strongHash 3 = false ∧
    strongHash 11 = false := by decide

/-- **quick check**: a two-octet `left` field that differs from the first two octets of the digest
    refuses the signature before the public-key operation -/
theorem left16_check (pk : Bytes → Nat) (s : Sig) (pp : PkParams) (a b h0 h1 : Nat) (rest : Bytes)
    (hl : s.left = [a, b]) (hne : a ≠ h0 ∨ b ≠ h1) :
    checkIntegrity pk s pp (h0 :: h1 :: rest) = false := by
  unfold checkIntegrity
  rw [hl]
  simp only [List.length_cons, List.length_nil, List.getD_cons_zero, List.getD_cons_succ]
  rw [if_pos ⟨trivial, by simpa using hne⟩]

/-- with a matching `left` field the verdict is the public-key operation's on the encoded digest -/
theorem left16_pass (pk : Bytes → Nat) (s : Sig) (pp : PkParams) (h0 h1 : Nat) (rest : Bytes)
    (hl : s.left = [h0, h1]) :
    checkIntegrity pk s pp (h0 :: h1 :: rest) =
      match pkData s.pkalgo s.hashalgo pp (h0 :: h1 :: rest) with
      | some (.ok d) => decide (pk d = 0)
      | _ => false := by
  unfold checkIntegrity
  rw [hl]
  simp only [List.length_cons, List.length_nil, List.getD_cons_zero, List.getD_cons_succ]
  rw [if_neg (by simp)]
  split <;> simp_all

/-- **the verdict depends on the signed data through the digest only**: two targets whose hash
    inputs have the same digest are accepted or refused alike — so a changed document, key or user ID
    passes only on a collision of the digest (cf. the injectivity theorems below) -/
theorem verifySig_digest (H : Nat → Bytes → Bytes) (pk : Bytes → Nat) (s : Sig) (pp : PkParams)
    (t t' : Target) (i i' : Bytes)
    (hi : verifyHashInput s t = some i) (hi' : verifyHashInput s t' = some i')
    (hd : hashCompute H s.hashalgo i = hashCompute H s.hashalgo i') :
    verifySig H pk s pp t = verifySig H pk s pp t' := by
  unfold verifySig
  rw [hi, hi']
  simp only [hd]

/-- bound on the hashed part of a signature packet for which the closing octets determine its length -/
def trailerBound (ver : Nat) : Nat := if ver = 5 then 2 ^ 64 else 2 ^ 32

theorem tail_inj_aux (x1 x2 t1 t2 m e1 e2 : Bytes) (hl : e1.length = e2.length)
    (he : e1 = e2 → t1.length = t2.length)
    (h : x1 ++ (t1 ++ m ++ e1) = x2 ++ (t2 ++ m ++ e2)) : x1 = x2 ∧ t1 = t2 := by
  have h' : (x1 ++ t1 ++ m) ++ e1 = (x2 ++ t2 ++ m) ++ e2 := by
    simpa only [List.append_assoc] using h
  have h1 := List.append_inj' h' hl
  have h2 := List.append_cancel_right h1.1
  exact List.append_inj' h2 (he h1.2)

/-- the closing octets make the trailer self-delimiting from the right: what precedes it and the
    trailer itself are determined by the concatenation (V3: the trailer has a fixed length) -/
theorem finalTrailer_inj (ver : Nat) (x1 x2 t1 t2 : Bytes)
    (h3 : ver = 3 → t1.length = t2.length)
    (hb1 : t1.length < trailerBound ver) (hb2 : t2.length < trailerBound ver)
    (h : x1 ++ finalTrailer ver t1 = x2 ++ finalTrailer ver t2) : x1 = x2 ∧ t1 = t2 := by
  unfold finalTrailer at h
  by_cases hv3 : ver = 3
  · rw [if_pos hv3, if_pos hv3] at h
    exact List.append_inj' h (h3 hv3)
  · rw [if_neg hv3, if_neg hv3] at h
    unfold trailerBound at hb1 hb2
    by_cases hv5 : ver = 5
    · rw [if_pos hv5] at h hb1 hb2
      rw [if_pos hv5] at h
      refine tail_inj_aux x1 x2 t1 t2 _ _ _ (by simp [scalarEightEncode, scalarFourEncode]) ?_ h
      intro he
      have := congrArg fromBE he
      rw [scalarEight_value, scalarEight_value, Nat.mod_eq_of_lt hb1, Nat.mod_eq_of_lt hb2] at this
      exact this
    · rw [if_neg hv5] at h hb1 hb2
      rw [if_neg hv5] at h
      refine tail_inj_aux x1 x2 t1 t2 _ _ _ (by simp [scalarFourEncode]) ?_ h
      intro he
      have := congrArg fromBE he
      rw [scalarFour_value, scalarFour_value, Nat.mod_eq_of_lt hb1, Nat.mod_eq_of_lt hb2] at this
      exact this

/-- **binary documents**: different documents or different hashed fields give different hash inputs -/
theorem hash_input_injective_binary (ver : Nat) (d1 d2 t1 t2 : Bytes)
    (h3 : ver = 3 → t1.length = t2.length)
    (hb1 : t1.length < trailerBound ver) (hb2 : t2.length < trailerBound ver)
    (h : hashInputBinary ver d1 t1 = hashInputBinary ver d2 t2) : d1 = d2 ∧ t1 = t2 :=
  finalTrailer_inj ver d1 d2 t1 t2 h3 hb1 hb2 h

/-- **text documents**: the hash input determines the canonical form (line endings `<CR><LF>`) -/
theorem hash_input_injective_text (ver : Nat) (d1 d2 t1 t2 : Bytes)
    (h3 : ver = 3 → t1.length = t2.length)
    (hb1 : t1.length < trailerBound ver) (hb2 : t2.length < trailerBound ver)
    (h : hashInputText ver d1 t1 = hashInputText ver d2 t2) : textCanon d1 = textCanon d2 ∧ t1 = t2 :=
  finalTrailer_inj ver (textCanon d1) (textCanon d2) t1 t2 h3 hb1 hb2 h

theorem hash_input_injective_standalone (ver : Nat) (t1 t2 : Bytes)
    (h3 : ver = 3 → t1.length = t2.length)
    (hb1 : t1.length < trailerBound ver) (hb2 : t2.length < trailerBound ver)
    (h : hashInputStandalone ver t1 = hashInputStandalone ver t2) : t1 = t2 :=
  (finalTrailer_inj ver [] [] t1 t2 h3 hb1 hb2 (by simpa [hashInputStandalone] using h)).2

theorem keyFrame_inj (ver : Nat) (k1 k2 : Bytes) (h : keyFrame ver k1 = keyFrame ver k2) : k1 = k2 := by
  unfold keyFrame at h
  split at h
  · simp only [scalarFourEncode, List.cons_append, List.nil_append, List.cons.injEq] at h
    exact h.2.2.2.2.2
  · simp only [List.cons_append, List.nil_append, List.cons.injEq] at h
    exact h.2.2.2

/-- **keys**: a different key packet gives a different hash input -/
theorem hash_input_injective_key (ver : Nat) (k1 k2 t1 t2 : Bytes)
    (h3 : ver = 3 → t1.length = t2.length)
    (hb1 : t1.length < trailerBound ver) (hb2 : t2.length < trailerBound ver)
    (h : hashInputKey ver k1 t1 = hashInputKey ver k2 t2) : k1 = k2 ∧ t1 = t2 := by
  have := finalTrailer_inj ver _ _ t1 t2 h3 hb1 hb2 h
  exact ⟨keyFrame_inj ver k1 k2 this.1, this.2⟩

/-- bound on a key packet body for which its length field is exact -/
def keyBound (ver : Nat) : Nat := if ver = 5 then 2 ^ 32 else 2 ^ 16

/-- a framed key followed by anything: the key and the rest are determined -/
theorem keyFrame_append_inj (ver : Nat) (k1 k2 r1 r2 : Bytes)
    (hk1 : k1.length < keyBound ver) (hk2 : k2.length < keyBound ver)
    (h : keyFrame ver k1 ++ r1 = keyFrame ver k2 ++ r2) : k1 = k2 ∧ r1 = r2 := by
  unfold keyFrame at h
  unfold keyBound at hk1 hk2
  by_cases hv5 : ver = 5
  · rw [if_pos hv5] at h hk1 hk2
    rw [if_pos hv5] at h
    simp only [scalarFourEncode, List.cons_append, List.nil_append, List.cons.injEq, true_and] at h
    obtain ⟨a, b, c, d, e⟩ := h
    exact List.append_inj e (by omega)
  · rw [if_neg hv5] at h hk1 hk2
    rw [if_neg hv5] at h
    simp only [List.cons_append, List.nil_append, List.cons.injEq, true_and] at h
    obtain ⟨a, b, e⟩ := h
    exact List.append_inj e (by omega)

/-- **primary key and subkey** -/
theorem hash_input_injective_key2 (ver : Nat) (p1 p2 s1 s2 t1 t2 : Bytes)
    (h3 : ver = 3 → t1.length = t2.length)
    (hb1 : t1.length < trailerBound ver) (hb2 : t2.length < trailerBound ver)
    (hk1 : p1.length < keyBound ver) (hk2 : p2.length < keyBound ver)
    (h : hashInputKey2 ver p1 s1 t1 = hashInputKey2 ver p2 s2 t2) : p1 = p2 ∧ s1 = s2 ∧ t1 = t2 := by
  unfold hashInputKey2 at h
  have := finalTrailer_inj ver _ _ t1 t2 h3 hb1 hb2 h
  have h2 := keyFrame_append_inj ver p1 p2 _ _ hk1 hk2 this.1
  exact ⟨h2.1, keyFrame_inj ver s1 s2 h2.2, this.2⟩

/-- **key and user ID** (V4, V5: the user ID is framed; V3 hashes it bare) -/
theorem hash_input_injective_cert (ver : Nat) (k1 k2 u1 u2 t1 t2 : Bytes)
    (h3 : ver = 3 → t1.length = t2.length)
    (hb1 : t1.length < trailerBound ver) (hb2 : t2.length < trailerBound ver)
    (hk1 : k1.length < keyBound ver) (hk2 : k2.length < keyBound ver)
    (h : hashInputCert ver k1 u1 [] t1 = hashInputCert ver k2 u2 [] t2) : k1 = k2 ∧ u1 = u2 ∧ t1 = t2 := by
  unfold hashInputCert at h
  have h1 := finalTrailer_inj ver _ _ t1 t2 h3 hb1 hb2 h
  have h2 := keyFrame_append_inj ver k1 k2 _ _ hk1 hk2 h1.1
  refine ⟨h2.1, ?_, h1.2⟩
  have h4 := h2.2
  unfold uidFrame at h4
  by_cases hv3 : ver = 3
  · rw [if_pos hv3, if_pos hv3] at h4; exact h4
  · rw [if_neg hv3, if_neg hv3] at h4
    simp only [if_true, scalarFourEncode, List.cons_append, List.nil_append, List.cons.injEq, true_and] at h4
    exact h4.2.2.2.2

/-- the hashed part of a V4/V5 signature packet determines type, algorithms and hashed subpackets:
    a change of any hashed field changes the trailer -/
theorem sigTrailer_inj (s1 s2 : Sig) (hv : s1.version = s2.version) (h4 : s1.version ≠ 3)
    (hl1 : s1.hspd.length < 65536) (hl2 : s2.hspd.length < 65536)
    (h : sigTrailer s1 = sigTrailer s2) :
    s1.type = s2.type ∧ s1.pkalgo = s2.pkalgo ∧ s1.hashalgo = s2.hashalgo ∧ s1.hspd = s2.hspd := by
  unfold sigTrailer at h
  rw [if_neg h4, if_neg (hv ▸ h4)] at h
  simp only [List.cons_append, List.nil_append, List.cons.injEq] at h
  exact ⟨h.2.1, h.2.2.1, h.2.2.2.1, h.2.2.2.2.2.2⟩

/-- a second pass over canonical text inserts nothing (whatever octet it is told precedes the text,
    as long as it is told `<CR>` when the first pass was) -/
theorem textCanonFrom_idem_aux (d : Bytes) : ∀ last last' : Nat, (last = 13 → last' = 13) →
    textCanonFrom last' (textCanonFrom last d) = textCanonFrom last d := by
  induction d with
  | nil => intro _ _ _; simp [textCanonFrom]
  | cons b rest ih =>
    intro last last' hl
    simp only [textCanonFrom]
    by_cases hc : b = 10 ∧ last ≠ 13
    · rw [if_pos hc]
      obtain ⟨hb, _⟩ := hc
      subst hb
      simp only [List.cons_append, List.nil_append, textCanonFrom]
      rw [if_neg (by omega), if_neg (by simp)]
      simp only [List.cons_append, List.nil_append, ih 10 10 (fun h => h)]
    · rw [if_neg hc]
      simp only [List.cons_append, List.nil_append, textCanonFrom]
      have hc' : ¬ (b = 10 ∧ last' ≠ 13) := by
        intro ⟨hb, hl'⟩
        by_cases h13 : last = 13
        · exact hl' (hl h13)
        · exact hc ⟨hb, h13⟩
      rw [if_neg hc']
      simp only [List.cons_append, List.nil_append, ih b b (fun h => h)]

/-- line endings: a document and the same document with `<CR>` put before a bare `<LF>` have one
    canonical form -/
theorem textCanon_idem (d : Bytes) : textCanon (textCanon d) = textCanon d := by
  unfold textCanon
  exact textCanonFrom_idem_aux d _ _ (fun h => h)

/-- canonical form of a concatenation: the second part is converted knowing the last octet of the first -/
theorem textCanonFrom_append (x y : Bytes) : ∀ l : Nat,
    textCanonFrom l (x ++ y) = textCanonFrom l x ++ textCanonFrom (x.getLast?.getD l) y := by
  induction x with
  | nil => intro l; simp [textCanonFrom]
  | cons b rest ih =>
    intro l
    simp only [List.cons_append, textCanonFrom, ih b, List.append_assoc]
    congr 2
    cases rest with
    | nil => simp
    | cons c r =>
      rw [List.getLast?_cons_cons]
      cases hg : (c :: r).getLast? with
      | none => simp at hg
      | some v => simp

/-- **LF and CRLF line ends are hashed alike**: a bare `<LF>` (one not preceded by `<CR>`) and
    `<CR><LF>` at the same place give the same canonical text -/
theorem textCanon_crlf (d1 d2 : Bytes) (h : d1.getLast? ≠ some 13) :
    textCanon (d1 ++ [10] ++ d2) = textCanon (d1 ++ [13, 10] ++ d2) := by
  unfold textCanon
  have hl : d1.getLast?.getD 0x21 ≠ 13 := by
    cases hg : d1.getLast? with
    | none => simp
    | some v => rw [hg] at h; simpa using h
  rw [List.append_assoc, List.append_assoc, textCanonFrom_append d1, textCanonFrom_append d1]
  congr 1
  simp only [List.cons_append, List.nil_append, textCanonFrom]
  rw [if_pos ⟨trivial, hl⟩, if_neg (by omega), if_neg (by simp)]
  simp

end Tmcg.PgpMsg
