import Tmcg.Model.PgpMsg
import TmcgProofs.Pgp
import Mathlib.Tactic.Ring
import Mathlib.Tactic.Linarith
import Mathlib.Data.List.Basic
/-
  C20: OpenPGP signatures and encryption are tamper-evident (model: Tmcg/Model/PgpMsg.lean).
  All theorems below are proved (no `sorry`); axioms: propext, Classical.choice, Quot.sound.

  1. CFB with modification detection code (the block cipher `E` and `sha1` are arbitrary functions):
     `cfb_decrypt_encrypt`, `sym_roundtrip`, `mdc_detects` (exact acceptance condition of `Decrypt`),
     `no_mdc_refused`, `sed_packet_refused`, `seipd_roundtrip`.
  2. AEAD chunks (`sealf`, `open_` arbitrary): `aead_decrypt_encrypt` from `SealOpen` (lengths and
     `open (seal p) = some p`), `aead_empty_refused`; under the ideal-AEAD hypothesis `Ideal` (a tuple
     opens under the key only if it is one of the tuples the sender sealed for this message, and then it
     is the sealed value): `aead_tamper_evident` (every accepted string is the sender's cipher text),
     with the corollaries `aead_reorder_detected`, `aead_truncation_detected`, and `aead_ad_bound`.
     The nonces of distinct chunk indices are distinct (`aead_nonces_distinct`: every chunk starts
     from the starting IV, `nonceStep`), but neither proof needs that; the chunk index and the total
     length in the additional data carry the argument.
  3. Signatures: `validity_logic`, `validity_expired_flag`, `weak_hash_refused`, `left16_check`,
     `left16_pass`, `verifySig_digest` (the verdict depends on the signed data through the digest only),
     `hash_input_injective_{binary,text,standalone,key,key2,cert}` and `sigTrailer_inj` (what is hashed
     determines document / canonical text, keys, user ID and all hashed fields, so tampering is detected
     unless the digests collide), `textCanon_idem`, `textCanon_crlf`.
  4. Packets: `msgParse_{seipd,sed,aead}Packet`, and end to end `seipd_message_roundtrip`,
     `aead_message_roundtrip`.
  5. Hashed and unhashed signature subpackets (`sigFields`): `unhashed_only_issuer`,
     `unhashed_irrelevant`, `unhashed_irrelevant_valid` (creation time, expiry, key expiry, key flags,
     features, preferences, revocation data and hence the validity verdict never depend on the unhashed
     area), `unhashed_agree'`, `hashed_wins_{issuer,fingerprint,embedded}`, examples
     `example_unhashed_ignored`, `example_hashed_wins`, `unhashed_agree_counterexample`.
-/
set_option linter.unusedSimpArgs false
set_option linter.unusedSectionVars false
set_option linter.unusedVariables false

namespace Tmcg.PgpMsg
open Tmcg.Pgp

/-! ### 1. CFB and the modification detection code -/

theorem xor_cancel_left (a p : Nat) : a ^^^ (a ^^^ p) = p := by
  rw [← Nat.xor_assoc, Nat.xor_self, Nat.zero_xor]

/-- decrypting an encrypted octet from the same state gives the octet back and the same state -/
theorem cfbDecByte_encByte (F : Bytes → Bytes) (bs : Nat) (s : Cfb) (p : Nat) :
    cfbDecByte F bs s (cfbEncByte F bs s p).2 = ((cfbEncByte F bs s p).1, p) := by
  simp only [cfbDecByte, cfbEncByte, xor_cancel_left]

theorem cfbDecStream_encStream (F : Bytes → Bytes) (bs : Nat) (s : Cfb) (p : Bytes) :
    cfbDecStream F bs s (cfbEncStream F bs s p).2 = ((cfbEncStream F bs s p).1, p) := by
  induction p generalizing s with
  | nil => simp [cfbEncStream, cfbDecStream]
  | cons x xs ih =>
    simp only [cfbEncStream, cfbDecStream]
    rw [cfbDecByte_encByte]
    simp only [ih]

theorem length_cfbEncStream (F : Bytes → Bytes) (bs : Nat) (s : Cfb) (p : Bytes) :
    (cfbEncStream F bs s p).2.length = p.length := by
  induction p generalizing s with
  | nil => simp [cfbEncStream]
  | cons x xs ih => simp [cfbEncStream, ih]

/-- **CFB round trip**: for every block function, block size, prefix of block size plus two
    octets and plaintext, with or without the OpenPGP resynchronisation -/
theorem cfb_decrypt_encrypt (F : Bytes → Bytes) (bs : Nat) (resync : Bool) (pre body : Bytes)
    (hpre : pre.length = bs + 2) :
    cfbDecrypt F bs resync (cfbEncrypt F bs resync pre body) = (pre, body) := by
  unfold cfbDecrypt cfbEncrypt
  have hl : (cfbEncStream F bs (cfbInit bs) pre).2.length = bs + 2 := by
    rw [length_cfbEncStream, hpre]
  simp only
  rw [← hl, List.take_left, List.drop_left, cfbDecStream_encStream]
  simp only [cfbDecStream_encStream]

theorem keyChecksum_lt (k : Bytes) : keyChecksum k < 65536 := by
  unfold keyChecksum sumOctets
  induction k using List.reverseRecOn with
  | nil => simp
  | append_singleton l a _ => rw [List.foldl_append]; simp only [List.foldl_cons, List.foldl_nil]; omega

theorem length_cfbEncrypt (F : Bytes → Bytes) (bs : Nat) (resync : Bool) (pre body : Bytes) :
    (cfbEncrypt F bs resync pre body).length = pre.length + body.length := by
  unfold cfbEncrypt
  simp only [List.length_append, length_cfbEncStream]

theorem length_wrapKey (a : Nat) (k : Bytes) : (wrapKey a k).length = k.length + 3 := by
  unfold wrapKey; simp

theorem wrapKey_ne_nil (a : Nat) (k : Bytes) : wrapKey a k ≠ [] := by
  unfold wrapKey; simp

theorem headD_wrapKey (a : Nat) (k : Bytes) : (wrapKey a k).headD 0 = a := by
  unfold wrapKey; simp

theorem wrapKey_key (a : Nat) (k : Bytes) : ((wrapKey a k).drop 1).take k.length = k := by
  unfold wrapKey
  simp

theorem wrapKey_checksum (a : Nat) (k : Bytes) :
    (wrapKey a k).getD (1 + k.length) 0 * 256 + (wrapKey a k).getD (2 + k.length) 0 = keyChecksum k := by
  have h := keyChecksum_lt k
  have e1 : (wrapKey a k).getD (1 + k.length) 0 = keyChecksum k / 256 % 256 := by
    unfold wrapKey
    have : 1 + k.length = (a :: k).length + 0 := by simp; omega
    rw [this, List.getD_eq_getElem?_getD, List.getElem?_append_right (by omega)]
    simp
  have e2 : (wrapKey a k).getD (2 + k.length) 0 = keyChecksum k % 256 := by
    unfold wrapKey
    have : 2 + k.length = (a :: k).length + 1 := by simp; omega
    rw [this, List.getD_eq_getElem?_getD, List.getElem?_append_right (by omega)]
    simp
  rw [e1, e2]
  omega

theorem decSessionKey_wrap (ks a algo : Nat) (b : Bool) (k : Bytes) (hk : k.length = ks) :
    decSessionKey ks algo b (wrapKey a k) = .ok (k, wrapKey a k) := by
  subst hk
  unfold decSessionKey
  rw [if_pos (length_wrapKey a k)]
  simp only [wrapKey_key, wrapKey_checksum, ne_eq, not_true_eq_false, if_false]

/-- what is sealed with the OpenPGP CFB under a wrapped key is read back by `SymmetricDecrypt` -/
theorem symDecrypt_cfbEncrypt (E : Bytes → Bytes → Bytes) (algo : Nat) (k pre input : Bytes) (resync : Bool)
    (hbs : blockLength algo ≠ 0) (hks : keyLength algo ≠ 0) (hk : k.length = keyLength algo)
    (hp : pre.length = blockLength algo + 2)
    (hrep : pre.getD (blockLength algo) 0 = pre.getD (blockLength algo - 2) 0 ∧
            pre.getD (blockLength algo + 1) 0 = pre.getD (blockLength algo - 1) 0) :
    symDecrypt E algo (cfbEncrypt (E k) (blockLength algo) resync pre input) (wrapKey algo k) [] resync
      = ⟨0, wrapKey algo k, pre, input⟩ := by
  unfold symDecrypt
  simp only
  rw [if_neg (by simp [hbs, hks]), if_neg (wrapKey_ne_nil algo k), decSessionKey_wrap _ _ _ _ _ hk]
  simp only
  rw [if_neg (by rw [length_cfbEncrypt]; omega), cfb_decrypt_encrypt _ _ _ _ _ hp]
  simp only [List.nil_append]
  rw [if_neg (by simp only [hrep.1, hrep.2, ne_eq, not_true_eq_false, or_self, not_false_eq_true])]


theorem encSessionKey_wrap (ks a : Nat) (coins : List Bytes) (k : Bytes) (hk : k.length = ks) :
    encSessionKey ks a coins (wrapKey a k) = .ok (k, wrapKey a k, coins) := by
  subst hk
  unfold encSessionKey
  rw [if_pos (length_wrapKey a k), if_neg (by rw [headD_wrapKey]; exact fun h => h rfl)]
  simp only [wrapKey_key, wrapKey_checksum, ne_eq, not_true_eq_false, if_false]

/-- **library round trip**: what `SymmetricEncryptAES256` writes for a wrapped 256-bit key and a
    given prefix, `SymmetricDecrypt` reads back: key, prefix and plaintext -/
theorem sym_roundtrip (E : Bytes → Bytes → Bytes) (k pre input : Bytes) (resync : Bool)
    (hk : k.length = 32) (hp : pre.length = 18)
    (hrep : pre.getD 16 0 = pre.getD 14 0 ∧ pre.getD 17 0 = pre.getD 15 0) :
    (symEncryptAES256 E [] input (wrapKey 9 k) pre resync).rc = 0 ∧
    symDecrypt E 9 (symEncryptAES256 E [] input (wrapKey 9 k) pre resync).out (wrapKey 9 k) [] resync
      = ⟨0, wrapKey 9 k, pre, input⟩ := by
  have he : symEncryptAES256 E [] input (wrapKey 9 k) pre resync =
      ⟨0, wrapKey 9 k, pre, cfbEncrypt (E k) 16 resync pre input⟩ := by
    unfold symEncryptAES256 SKALGO_AES256
    rw [encSessionKey_wrap 32 9 [] k hk]
    simp only [hp, ne_eq, not_true_eq_false, if_false]
  rw [he]
  refine ⟨rfl, ?_⟩
  have hb : blockLength 9 = 16 := rfl
  have hl : keyLength 9 = 32 := rfl
  have := symDecrypt_cfbEncrypt E 9 k pre input resync (by rw [hb]; omega) (by rw [hl]; omega)
    (by rw [hl]; exact hk) (by rw [hb]; exact hp) (by rw [hb]; exact hrep)
  rw [hb] at this
  exact this

theorem getD_of_lt (l : Bytes) (n : Nat) (h : n < l.length) : l.getD n 0 = l[n] := by
  simp [List.getD_eq_getElem?_getD, h]

theorem tail_decomp (out : Bytes) (h : 22 ≤ out.length) :
    out = out.take (out.length - 22) ++
      [out.getD (out.length - 22) 0, out.getD (out.length - 21) 0] ++ out.drop (out.length - 20) := by
  have h1 : out.length - 22 < out.length := by omega
  have h2 : out.length - 21 < out.length := by omega
  conv_lhs => rw [← List.take_append_drop (out.length - 22) out]
  rw [List.append_assoc]
  congr 1
  rw [List.drop_eq_getElem_cons h1]
  have e1 : out.length - 22 + 1 = out.length - 21 := by omega
  rw [e1, List.drop_eq_getElem_cons h2]
  have e2 : out.length - 21 + 1 = out.length - 20 := by omega
  rw [e2, getD_of_lt _ _ h1, getD_of_lt _ _ h2]
  rfl

theorem mdc_accept_iff (sha1 : Bytes → Bytes) (pfx out : Bytes) (hsha : ∀ x, (sha1 x).length = 20) :
    (¬ out.length < 22 ∧ ¬ (out.getD (out.length - 22) 0 ≠ 0xD3 ∨ out.getD (out.length - 21) 0 ≠ 0x14) ∧
      ¬ out.take (out.length - 22) = [] ∧
      out.drop (out.length - 20) = sha1 (mdcHashInput pfx (out.take (out.length - 22)))) ↔
    ∃ body, body ≠ [] ∧ out = body ++ mdcPacket sha1 pfx body := by
  constructor
  · rintro ⟨h1, h2, h3, h4⟩
    refine ⟨out.take (out.length - 22), h3, ?_⟩
    have h22 : 22 ≤ out.length := by omega
    have hd := tail_decomp out h22
    have ha : out.getD (out.length - 22) 0 = 0xD3 := by
      by_contra hc; exact h2 (Or.inl hc)
    have hb : out.getD (out.length - 21) 0 = 0x14 := by
      by_contra hc; exact h2 (Or.inr hc)
    rw [ha, hb, h4] at hd
    unfold mdcPacket
    rw [← List.append_assoc]
    exact hd
  · rintro ⟨body, hb, he⟩
    have hl : out.length = body.length + 22 := by
      rw [he]; unfold mdcPacket; simp [hsha]
    have e22 : out.length - 22 = body.length := by omega
    have e21 : out.length - 21 = body.length + 1 := by omega
    have e20 : out.length - 20 = body.length + 2 := by omega
    rw [e22, e21, e20]
    have ht : out.take body.length = body := by rw [he, List.take_left]
    refine ⟨by omega, ?_, ?_, ?_⟩
    · rw [he]; unfold mdcPacket
      simp [List.getD_eq_getElem?_getD, List.getElem?_append_right]
    · rw [ht]; exact hb
    · rw [ht]
      conv_lhs => rw [he]
      unfold mdcPacket
      rw [← List.append_assoc]
      have : body.length + 2 = (body ++ [0xD3, 0x14]).length := by simp
      rw [this, List.drop_left]

/-- **exact acceptance condition of `Decrypt` for integrity protected data**: the CFB layer succeeds
    (session key form and checksum, prefix repeat) and the decrypted text is a non-empty body followed
    by `D3 14` and the SHA-1 value of prefix ‖ body ‖ `D3 14`.  An altered cipher text is accepted only
    if its decryption again ends in the SHA-1 value of what precedes it. -/
theorem mdc_detects (E : Bytes → Bytes → Bytes) (sha1 : Bytes → Bytes) (op : Open) (m : Msg) (key : Bytes)
    (ha : m.haveAead = false) (hs : m.haveSeipd = true) (hsha : ∀ x, (sha1 x).length = 20) :
    (msgDecrypt E sha1 op m key).1 = true ↔
      m.encrypted ≠ [] ∧
      ∃ sk, msgSessionKey (keyLength (if key ≠ [] then key.headD 0 else m.skalgo)) key = some sk ∧
        (symDecrypt E (if key ≠ [] then key.headD 0 else m.skalgo) m.encrypted sk [] false).rc = 0 ∧
        ∃ body, body ≠ [] ∧
          (symDecrypt E (if key ≠ [] then key.headD 0 else m.skalgo) m.encrypted sk [] false).out =
            body ++ mdcPacket sha1
              (symDecrypt E (if key ≠ [] then key.headD 0 else m.skalgo) m.encrypted sk [] false).pfx body := by
  unfold msgDecrypt
  simp only [ha, hs, Bool.not_false, and_true, Bool.false_eq_true, if_false, if_true]
  generalize (if key ≠ [] then key.headD 0 else m.skalgo) = algo
  by_cases he : m.encrypted = []
  · rw [if_pos he]; simp [he]
  · rw [if_neg he]
    cases hsk : msgSessionKey (keyLength algo) key with
    | none => simp
    | some sk =>
      simp only [Option.some.injEq, exists_eq_left']
      generalize symDecrypt E algo m.encrypted sk [] false = r
      rw [← mdc_accept_iff sha1 r.pfx r.out hsha]
      by_cases hrc : r.rc = 0
      · rw [if_neg (by simpa using hrc)]
        by_cases h1 : r.out.length < 22
        · rw [if_pos h1]; exact ⟨fun h => absurd h (by simp), fun h => absurd h1 h.2.2.1⟩
        · rw [if_neg h1]
          by_cases h2 : (r.out.getD (r.out.length - 22) 0 ≠ 0xD3 ∨ r.out.getD (r.out.length - 21) 0 ≠ 0x14)
          · rw [if_pos h2]; exact ⟨fun h => absurd h (by simp), fun h => absurd h2 h.2.2.2.1⟩
          · rw [if_neg h2]
            by_cases h3 : r.out.take (r.out.length - 22) = []
            · rw [if_pos h3]; exact ⟨fun h => absurd h (by simp), fun h => absurd h3 h.2.2.2.2.1⟩
            · rw [if_neg h3]
              simp only [decide_eq_true_eq]
              exact ⟨fun h => ⟨he, hrc, h1, h2, h3, h⟩, fun h => h.2.2.2.2.2⟩
      · rw [if_pos hrc]; exact ⟨fun h => absurd h (by simp), fun h => absurd h.2.1 hrc⟩

/-- **encrypted data without integrity protection is refused**: whatever the key and the cipher text,
    `Decrypt` fails for a message that is neither integrity protected (tag 18) nor AEAD (tag 20) -/
theorem no_mdc_refused (E : Bytes → Bytes → Bytes) (sha1 : Bytes → Bytes) (op : Open) (m : Msg) (key : Bytes)
    (ha : m.haveAead = false) (hs : m.haveSeipd = false) :
    (msgDecrypt E sha1 op m key).1 = false := by
  unfold msgDecrypt
  simp only [ha, hs, Bool.false_eq_true, if_false]
  split
  · rfl
  · split
    · rfl
    · split <;> (split <;> rfl)

/-- the first octet `C9` makes the first packet a new-format packet with tag 9 -/
theorem packetSplit_C9_tag (xs : Bytes) (p : Pkt) (r : Bytes)
    (h : packetSplit (201 :: xs) = some (p, r)) : p.tag = 9 := by
  unfold packetSplit at h
  simp only at h
  rw [if_neg (by decide)] at h
  split at h
  · cases h
  · injection h with h
    injection h with h1 h2
    subst h1
    simp

/-- a packet sequence that starts with the octet `C9` parses, if at all, to a message with only
    the `haveSed` flag -/
theorem msgParse_C9 (xs : Bytes) (m : Msg) (h : msgParse (201 :: xs) = .ok m) :
    m.haveSeipd = false ∧ m.haveAead = false := by
  unfold msgParse at h
  simp only [List.length_cons] at h
  unfold msgParseLoop at h
  rw [if_neg (by simp)] at h
  split at h
  · cases h
  · rename_i p rest hp
    have ht := packetSplit_C9_tag xs p rest hp
    have hd : decodePacket p = .err ∨ decodePacket p = .sed p.body := by
      unfold decodePacket
      rw [if_pos ht]
      split
      · exact Or.inl rfl
      · exact Or.inr rfl
    rcases hd with hd | hd
    · rw [hd] at h; cases h
    · rw [hd] at h
      simp only at h
      injection h with h
      subst h
      exact ⟨rfl, rfl⟩

/-- a Symmetrically Encrypted Data packet (tag 9) parses to a message `Decrypt` refuses -/
theorem sed_packet_refused (E : Bytes → Bytes → Bytes) (sha1 : Bytes → Bytes) (op : Open) (enc rest key : Bytes)
    (m : Msg) (h : msgParse (sedPacket enc ++ rest) = .ok m) :
    (msgDecrypt E sha1 op m key).1 = false := by
  have e : sedPacket enc ++ rest = 201 :: (packetLengthEncode enc.length ++ enc ++ rest) := by
    unfold sedPacket packetTagEncode
    simp
  rw [e] at h
  have := msgParse_C9 _ m h
  exact no_mdc_refused E sha1 op m key this.2 this.1

/-- **the honest sender's message decrypts**: plaintext with appended MDC packet, sealed without
    resynchronisation, is accepted and returned (with the MDC packet, which the caller parses off) -/
theorem seipd_roundtrip (E : Bytes → Bytes → Bytes) (sha1 : Bytes → Bytes) (op : Open)
    (algo : Nat) (k pfx body : Bytes)
    (hbs : blockLength algo ≠ 0) (hks : keyLength algo ≠ 0) (hk : k.length = keyLength algo)
    (hp : pfx.length = blockLength algo + 2)
    (hrep : pfx.getD (blockLength algo) 0 = pfx.getD (blockLength algo - 2) 0 ∧
            pfx.getD (blockLength algo + 1) 0 = pfx.getD (blockLength algo - 1) 0)
    (hbody : body ≠ []) (hsha : ∀ x, (sha1 x).length = 20) :
    msgDecrypt E sha1 op
      { version := 1, haveSeipd := true, encrypted := seipdSeal (E k) sha1 (blockLength algo) pfx body }
      (wrapKey algo k) = (true, body ++ mdcPacket sha1 pfx body) := by
  have hne : seipdSeal (E k) sha1 (blockLength algo) pfx body ≠ [] := by
    intro h
    have := congrArg List.length h
    unfold seipdSeal at this
    rw [length_cfbEncrypt] at this
    simp only [List.length_nil] at this
    omega
  have hsk : msgSessionKey (keyLength algo) (wrapKey algo k) = some (wrapKey algo k) := by
    unfold msgSessionKey
    rw [if_pos (by rw [length_wrapKey, hk])]
  have hd : symDecrypt E algo (seipdSeal (E k) sha1 (blockLength algo) pfx body) (wrapKey algo k) [] false
      = ⟨0, wrapKey algo k, pfx, body ++ mdcPacket sha1 pfx body⟩ := by
    unfold seipdSeal
    exact symDecrypt_cfbEncrypt E algo k pfx _ false hbs hks hk hp hrep
  have hacc := (mdc_accept_iff sha1 pfx (body ++ mdcPacket sha1 pfx body) hsha).mpr ⟨body, hbody, rfl⟩
  obtain ⟨h1, h2, h3, h4⟩ := hacc
  unfold msgDecrypt
  simp only [Bool.not_false, and_true, Bool.false_eq_true, if_false, if_true]
  rw [if_neg hne, if_pos (wrapKey_ne_nil algo k), headD_wrapKey, hsk]
  simp only [hd]
  rw [if_neg (by simp), if_neg h1, if_neg h2, if_neg h3]
  simp only [h4, decide_true]

/-! ### 2. AEAD chunks -/

/-- correctness of the AEAD primitive: lengths, and what was sealed opens -/
structure SealOpen (sealf : Seal) (open_ : Open) : Prop where
  ctLen : ∀ k n a p, (sealf k n a p).1.length = p.length
  tagLen : ∀ k n a p, (sealf k n a p).2.length = 16
  opens : ∀ k n a p, open_ k n a (sealf k n a p).1 (sealf k n a p).2 = some p

/-- the decryption loop undoes the encryption loop on the full chunks, whatever follows -/
theorem encdec_loop (sealf : Seal) (open_ : Open) (h : SealOpen sealf open_)
    (k : Bytes) (aead is cd : Nat) (hdr : Bytes) (c : Nat) :
    ∀ (idx : Nat) (ivbuf rest tail : Bytes), c * cd ≤ rest.length →
      decLoop open_ k aead is cd hdr c idx ivbuf
          ((encLoop sealf k aead is cd hdr c idx ivbuf rest).1 ++ tail) =
        (0, rest.take (c * cd), (encLoop sealf k aead is cd hdr c idx ivbuf rest).2.1,
          (encLoop sealf k aead is cd hdr c idx ivbuf rest).2.2.1, tail) ∧
      (encLoop sealf k aead is cd hdr c idx ivbuf rest).2.2.2 = rest.drop (c * cd) ∧
      (encLoop sealf k aead is cd hdr c idx ivbuf rest).1.length = c * (cd + 16) := by
  induction c with
  | zero => intro idx ivbuf rest tail _; simp [encLoop, decLoop]
  | succ c ih =>
    intro idx ivbuf rest tail hle
    have hle' : cd + c * cd ≤ rest.length := by rw [Nat.succ_mul] at hle; omega
    have htk : (rest.take cd).length = cd := by rw [List.length_take]; omega
    have hdl : c * cd ≤ (rest.drop cd).length := by rw [List.length_drop]; omega
    obtain ⟨ih1, ih2, ih3⟩ := ih (idx+1) ivbuf (rest.drop cd) tail hdl
    simp only [encLoop]
    generalize hs : sealf k ((nonceStep aead ivbuf idx).take is) (hdr ++ be8 idx) (rest.take cd) = s
    have h1 : s.1.length = cd := by rw [← hs, h.ctLen, htk]
    have h2 : s.2.length = 16 := by rw [← hs]; exact h.tagLen ..
    have ho := h.opens k ((nonceStep aead ivbuf idx).take is) (hdr ++ be8 idx) (rest.take cd)
    rw [hs] at ho
    generalize hr : encLoop sealf k aead is cd hdr c (idx + 1) ivbuf (rest.drop cd) = r at *
    refine ⟨?_, ?_, ?_⟩
    · rw [decLoop]
      have e1 : (s.1 ++ s.2 ++ r.1 ++ tail).take cd = s.1 := by
        rw [List.append_assoc, List.append_assoc, ← h1, List.take_left]
      have e2 : ((s.1 ++ s.2 ++ r.1 ++ tail).drop cd).take 16 = s.2 := by
        rw [List.append_assoc, List.append_assoc, ← h1, List.drop_left, ← h2, List.take_left]
      have e3 : (s.1 ++ s.2 ++ r.1 ++ tail).drop (cd + 16) = r.1 ++ tail := by
        rw [← List.drop_drop, List.append_assoc, List.append_assoc, ← h1, List.drop_left, ← h2, List.drop_left]
      have e4 : ¬ (s.1 ++ s.2 ++ r.1 ++ tail).length < cd + 16 := by
        simp only [List.length_append]; omega
      simp only [e1, e2, e3, if_neg e4, ho, ih1]
      rw [Nat.succ_mul, Nat.add_comm (c * cd) cd, List.take_add]
    · rw [ih2, List.drop_drop]; congr 1; rw [Nat.succ_mul]; omega
    · simp only [List.length_append, h1, h2, ih3]; ring

theorem aead_chunks_arith (n cd : Nat) (hcd : 0 < cd) (hn : 1 ≤ n) :
    (n - 1) / cd * cd < n ∧ n ≤ (n - 1) / cd * cd + cd := by
  have h1 := Nat.div_add_mod (n - 1) cd
  have h2 := Nat.mod_lt (n - 1) hcd
  rw [Nat.mul_comm] at h1
  generalize (n - 1) / cd * cd = m at *
  omega

set_option maxHeartbeats 400000 in
/-- **AEAD round trip** for every non-empty plaintext and every chunk size octet (in particular for
    lengths that are multiples of the chunk size) -/
theorem aead_decrypt_encrypt (sealf : Seal) (open_ : Open) (h : SealOpen sealf open_)
    (k iv ad input : Bytes) (aead cs : Nat) (hin : input ≠ []) (hiv : iv.length = aeadIvLength aead) :
    aeadDecryptCore open_ k aead cs iv ad (aeadEncryptCore sealf k aead cs iv ad input) = (0, input) := by
  have hn : 1 ≤ input.length := by
    cases input with
    | nil => exact absurd rfl hin
    | cons a l => simp
  have hcd : 0 < 2 ^ (cs + 6) := Nat.two_pow_pos _
  obtain ⟨ha1, ha2⟩ := aead_chunks_arith input.length (2 ^ (cs + 6)) hcd hn
  have hivb : (iv.take (aeadIvLength aead) ++ List.replicate 16 0).take 16
      = (iv ++ List.replicate 16 0).take 16 := by
    rw [List.take_of_length_le (le_of_eq hiv)]
  unfold aeadEncryptCore
  simp only []
  generalize hcdv : 2 ^ (cs + 6) = cd at *
  generalize hhdr : (adBuf ad).take 5 = hdr
  generalize hiv0 : (iv ++ List.replicate 16 0).take 16 = ivbuf0 at *
  generalize hch : (input.length - 1) / cd = chunks at *
  have hloop := fun tail => encdec_loop sealf open_ h k aead (aeadIvLength aead) cd hdr chunks 0 ivbuf0 input
    tail (le_of_lt ha1)
  generalize hr : encLoop sealf k aead (aeadIvLength aead) cd hdr chunks 0 ivbuf0 input = r at *
  obtain ⟨o, idx, ivb, rest⟩ := r
  simp only at hloop ⊢
  have hs1 := h.ctLen k ((nonceStep aead ivb idx).take (aeadIvLength aead)) (hdr ++ be8 idx) rest
  have hs2 := h.tagLen k ((nonceStep aead ivb idx).take (aeadIvLength aead)) (hdr ++ be8 idx) rest
  have hso := h.opens k ((nonceStep aead ivb idx).take (aeadIvLength aead)) (hdr ++ be8 idx) rest
  generalize sealf k ((nonceStep aead ivb idx).take (aeadIvLength aead)) (hdr ++ be8 idx) rest = s at *
  have hf1 := h.ctLen k ((nonceStep aead ivb (idx + 1)).take (aeadIvLength aead))
    (hdr ++ be8 (idx + 1) ++ be8 (chunks * cd + rest.length)) []
  have hf2 := h.tagLen k ((nonceStep aead ivb (idx + 1)).take (aeadIvLength aead))
    (hdr ++ be8 (idx + 1) ++ be8 (chunks * cd + rest.length)) []
  have hfo := h.opens k ((nonceStep aead ivb (idx + 1)).take (aeadIvLength aead))
    (hdr ++ be8 (idx + 1) ++ be8 (chunks * cd + rest.length)) []
  generalize sealf k ((nonceStep aead ivb (idx + 1)).take (aeadIvLength aead))
    (hdr ++ be8 (idx + 1) ++ be8 (chunks * cd + rest.length)) [] = f at *
  obtain ⟨hl1, hl2, hl3⟩ := hloop (s.1 ++ s.2 ++ f.2)
  have hrl : rest.length = input.length - chunks * cd := by rw [hl2, List.length_drop]
  have hf1' : f.1 = [] := List.eq_nil_of_length_eq_zero hf1
  rw [hf1'] at hfo
  have hN : (o ++ s.1 ++ s.2 ++ f.2).length = chunks * (cd + 16) + rest.length + 32 := by
    simp only [List.length_append, hl3, hs1, hs2, hf2]
  have hdiv : ((o ++ s.1 ++ s.2 ++ f.2).length - 17) / (cd + 16) = chunks := by
    rw [hN]
    apply Nat.div_eq_of_lt_le
    · omega
    · rw [Nat.succ_mul]; omega
  have h33 : ¬ (o ++ s.1 ++ s.2 ++ f.2).length < 33 := by rw [hN]; omega
  have hassoc : o ++ s.1 ++ s.2 ++ f.2 = o ++ (s.1 ++ s.2 ++ f.2) := by simp only [List.append_assoc]
  unfold aeadDecryptCore
  simp only [hcdv, hhdr, hivb, if_neg h33, hdiv]
  rw [hassoc, hl1]
  have htl : (s.1 ++ s.2 ++ f.2).length - 32 = s.1.length := by
    simp only [List.length_append, hs2, hf2]; omega
  have ht32 : ¬ (s.1 ++ s.2 ++ f.2).length < 32 := by
    simp only [List.length_append, hs2, hf2]; omega
  have e1 : (s.1 ++ s.2 ++ f.2).take s.1.length = s.1 := by
    rw [List.append_assoc, List.take_left]
  have e2 : ((s.1 ++ s.2 ++ f.2).drop s.1.length).take 16 = s.2 := by
    rw [List.append_assoc, List.drop_left, ← hs2, List.take_left]
  have e3 : ((s.1 ++ s.2 ++ f.2).drop (s.1.length + 16)).take 16 = f.2 := by
    rw [← List.drop_drop, List.append_assoc, List.drop_left, ← hs2, List.drop_left, hs2, ← hf2,
      List.take_length]
  have hne : ¬ ((0 : Nat) ≠ 0) := by simp
  rw [hs1] at htl e1 e2 e3
  simp only [hne, if_false, if_neg ht32, htl, e1, e2, e3, hso, hfo]
  rw [hl2, List.take_append_drop]

theorem aeadEncSessionKey_err (ks : Nat) (coins : List Bytes) (seskey : Bytes) (e : Nat)
    (h : aeadEncSessionKey ks coins seskey = .error e) : e ≠ 0 := by
  unfold aeadEncSessionKey at h
  simp only at h
  split at h
  · split at h
    · injection h with h; subst h; decide
    · cases h
  · split at h
    · cases h
    · split at h
      · cases h
      · injection h with h; subst h; decide

/-- the empty plaintext is refused by the encryption routine -/
theorem aead_empty_refused (sealf : Seal) (coins : List Bytes) (seskey : Bytes) (sk ae cs : Nat) (ad : Bytes) :
    (aeadEncrypt sealf coins [] seskey sk ae cs ad).rc ≠ 0 := by
  unfold aeadEncrypt
  simp only
  split
  · show GPG_ERR_CIPHER_ALGO ≠ 0; decide
  · split
    · show GPG_ERR_NOT_SUPPORTED ≠ 0; decide
    · split
      · show GPG_ERR_NOT_SUPPORTED ≠ 0; decide
      · split
        · rename_i e he
          exact aeadEncSessionKey_err _ _ _ _ he
        · simp only [if_true]
          split <;> (show GPG_ERR_TOO_SHORT ≠ 0; decide)

/-- the (nonce, additional data, plaintext) triples of the sealing calls made for the full chunks -/
def loopCalls (aead is cd : Nat) (hdr : Bytes) : Nat → Nat → Bytes → Bytes → List (Bytes × Bytes × Bytes)
  | 0, _, _, _ => []
  | c + 1, idx, ivbuf, rest =>
    ((nonceStep aead ivbuf idx).take is, hdr ++ be8 idx, rest.take cd) ::
      loopCalls aead is cd hdr c (idx + 1) ivbuf (rest.drop cd)

/-- state after the full chunks: (next index, `ivbuf`, remaining plaintext) -/
def loopEnd (aead cd : Nat) : Nat → Nat → Bytes → Bytes → Nat × Bytes × Bytes
  | 0, idx, ivbuf, rest => (idx, ivbuf, rest)
  | c + 1, idx, ivbuf, rest => loopEnd aead cd c (idx + 1) ivbuf (rest.drop cd)

/-- all sealing calls `SymmetricEncryptAEAD` makes for `input`: the chunks, the last chunk, the final tag -/
def sealCalls (aead cs : Nat) (iv ad input : Bytes) : List (Bytes × Bytes × Bytes) :=
  let is := aeadIvLength aead
  let cd := 2 ^ (cs + 6)
  let hdr := (adBuf ad).take 5
  let chunks := (input.length - 1) / cd
  let ivbuf0 := (iv ++ List.replicate 16 0).take 16
  let e := loopEnd aead cd chunks 0 ivbuf0 input
  let ivbuf1 := nonceStep aead e.2.1 e.1
  let ivbuf2 := nonceStep aead e.2.1 (e.1 + 1)
  loopCalls aead is cd hdr chunks 0 ivbuf0 input ++
    [(ivbuf1.take is, hdr ++ be8 e.1, e.2.2),
     (ivbuf2.take is, hdr ++ be8 (e.1 + 1) ++ be8 (chunks * cd + e.2.2.length), [])]

/-- ideal AEAD under the key `k`: a tuple opens only if the sender sealed it (it is one of `calls`)
    and it is the sealed value -/
def Ideal (sealf : Seal) (open_ : Open) (k : Bytes) (calls : List (Bytes × Bytes × Bytes)) : Prop :=
  ∀ n a c t p, open_ k n a c t = some p → (n, a, p) ∈ calls ∧ (c, t) = sealf k n a p

/-! #### helper lemmas for `aead_tamper_evident` and `aead_ad_bound` -/

theorem length_be8 (n : Nat) : (be8 n).length = 8 := by
  simp [be8, scalarEightEncode, scalarFourEncode]

theorem be8_inj {a b : Nat} (ha : a < 2 ^ 64) (hb : b < 2 ^ 64) (h : be8 a = be8 b) : a = b := by
  have h1 := scalarEight_value a
  have h2 := scalarEight_value b
  unfold be8 at h
  rw [h] at h1
  have := h1.symm.trans h2
  rwa [Nat.mod_eq_of_lt ha, Nat.mod_eq_of_lt hb] at this

/-- the sealing calls from chunk `idx` on: `c` full chunks, the last chunk, the final tag
    (`T`: the total length authenticated by the final tag) -/
def tailCalls (aead is cd : Nat) (hdr : Bytes) (T : Nat) :
    Nat → Nat → Bytes → Bytes → List (Bytes × Bytes × Bytes)
  | 0, idx, ivbuf, rest =>
    [((nonceStep aead ivbuf idx).take is, hdr ++ be8 idx, rest),
     ((nonceStep aead ivbuf (idx + 1)).take is,
        hdr ++ be8 (idx + 1) ++ be8 T, [])]
  | c + 1, idx, ivbuf, rest =>
    ((nonceStep aead ivbuf idx).take is, hdr ++ be8 idx, rest.take cd) ::
      tailCalls aead is cd hdr T c (idx + 1) ivbuf (rest.drop cd)

/-- the sender's cipher text from chunk `idx` on -/
def tailCipher (sealf : Seal) (k : Bytes) (aead is cd : Nat) (hdr : Bytes) (T : Nat) :
    Nat → Nat → Bytes → Bytes → Bytes
  | 0, idx, ivbuf, rest =>
    (sealf k ((nonceStep aead ivbuf idx).take is) (hdr ++ be8 idx) rest).1 ++
    (sealf k ((nonceStep aead ivbuf idx).take is) (hdr ++ be8 idx) rest).2 ++
    (sealf k ((nonceStep aead ivbuf (idx + 1)).take is)
        (hdr ++ be8 (idx + 1) ++ be8 T) []).2
  | c + 1, idx, ivbuf, rest =>
    (sealf k ((nonceStep aead ivbuf idx).take is) (hdr ++ be8 idx) (rest.take cd)).1 ++
    (sealf k ((nonceStep aead ivbuf idx).take is) (hdr ++ be8 idx) (rest.take cd)).2 ++
      tailCipher sealf k aead is cd hdr T c (idx + 1) ivbuf (rest.drop cd)

/-- the receiver's work from chunk `idx` on: `c` full chunks, the last chunk, the final tag -/
def decTail (open_ : Open) (k : Bytes) (aead is cd : Nat) (hdr : Bytes) (base : Nat) :
    Nat → Nat → Bytes → Bytes → Nat × Bytes
  | 0, idx, ivbuf, rest =>
    if rest.length < 32 then (GPG_ERR_TOO_SHORT, [])
    else
      match open_ k ((nonceStep aead ivbuf idx).take is) (hdr ++ be8 idx)
          (rest.take (rest.length - 32)) ((rest.drop (rest.length - 32)).take 16) with
      | none => (GPG_ERR_CHECKSUM, [])
      | some p =>
        match open_ k ((nonceStep aead ivbuf (idx + 1)).take is)
            (hdr ++ be8 (idx + 1) ++ be8 (base + (rest.length - 32))) []
            ((rest.drop (rest.length - 32 + 16)).take 16) with
        | none => (GPG_ERR_CHECKSUM, p)
        | some _ => (0, p)
  | c + 1, idx, ivbuf, rest =>
    if rest.length < cd + 16 then (GPG_ERR_TOO_SHORT, [])
    else
      match open_ k ((nonceStep aead ivbuf idx).take is) (hdr ++ be8 idx) (rest.take cd)
          ((rest.drop cd).take 16) with
      | none => (GPG_ERR_CHECKSUM, [])
      | some p =>
        ((decTail open_ k aead is cd hdr base c (idx + 1) ivbuf
            (rest.drop (cd + 16))).1,
         p ++ (decTail open_ k aead is cd hdr base c (idx + 1) ivbuf
            (rest.drop (cd + 16))).2)

theorem loopCalls_tail (aead is cd : Nat) (hdr : Bytes) (T : Nat) (c idx : Nat) (ivbuf rest : Bytes) :
    loopCalls aead is cd hdr c idx ivbuf rest ++
      [((nonceStep aead (loopEnd aead cd c idx ivbuf rest).2.1 (loopEnd aead cd c idx ivbuf rest).1).take is,
          hdr ++ be8 (loopEnd aead cd c idx ivbuf rest).1, (loopEnd aead cd c idx ivbuf rest).2.2),
       ((nonceStep aead (loopEnd aead cd c idx ivbuf rest).2.1 ((loopEnd aead cd c idx ivbuf rest).1 + 1)).take is,
          hdr ++ be8 ((loopEnd aead cd c idx ivbuf rest).1 + 1) ++ be8 T, [])]
      = tailCalls aead is cd hdr T c idx ivbuf rest := by
  induction c generalizing idx ivbuf rest with
  | zero => simp [loopCalls, loopEnd, tailCalls]
  | succ c ih =>
    simp only [loopCalls, loopEnd, tailCalls, List.cons_append]
    rw [ih]

theorem sealCalls_eq (aead cs : Nat) (iv ad input : Bytes) :
    sealCalls aead cs iv ad input =
      tailCalls aead (aeadIvLength aead) (2 ^ (cs + 6)) ((adBuf ad).take 5)
        ((input.length - 1) / 2 ^ (cs + 6) * 2 ^ (cs + 6) +
          (loopEnd aead (2 ^ (cs + 6)) ((input.length - 1) / 2 ^ (cs + 6)) 0
            ((iv ++ List.replicate 16 0).take 16) input).2.2.length)
        ((input.length - 1) / 2 ^ (cs + 6)) 0 ((iv ++ List.replicate 16 0).take 16) input := by
  unfold sealCalls
  simp only
  rw [loopCalls_tail]

theorem encLoop_snd (sealf : Seal) (k : Bytes) (aead is cd : Nat) (hdr : Bytes) (c idx : Nat)
    (ivbuf rest : Bytes) :
    (encLoop sealf k aead is cd hdr c idx ivbuf rest).2 = loopEnd aead cd c idx ivbuf rest := by
  induction c generalizing idx ivbuf rest with
  | zero => simp [encLoop, loopEnd]
  | succ c ih => simp only [encLoop, loopEnd]; rw [ih]

theorem encLoop_tail (sealf : Seal) (k : Bytes) (aead is cd : Nat) (hdr : Bytes) (T : Nat) (c idx : Nat)
    (ivbuf rest : Bytes) :
    (encLoop sealf k aead is cd hdr c idx ivbuf rest).1 ++
      (sealf k ((nonceStep aead (loopEnd aead cd c idx ivbuf rest).2.1
          (loopEnd aead cd c idx ivbuf rest).1).take is)
          (hdr ++ be8 (loopEnd aead cd c idx ivbuf rest).1) (loopEnd aead cd c idx ivbuf rest).2.2).1 ++
      (sealf k ((nonceStep aead (loopEnd aead cd c idx ivbuf rest).2.1
          (loopEnd aead cd c idx ivbuf rest).1).take is)
          (hdr ++ be8 (loopEnd aead cd c idx ivbuf rest).1) (loopEnd aead cd c idx ivbuf rest).2.2).2 ++
      (sealf k ((nonceStep aead (loopEnd aead cd c idx ivbuf rest).2.1 ((loopEnd aead cd c idx ivbuf rest).1 + 1)).take is)
          (hdr ++ be8 ((loopEnd aead cd c idx ivbuf rest).1 + 1) ++ be8 T) []).2
      = tailCipher sealf k aead is cd hdr T c idx ivbuf rest := by
  induction c generalizing idx ivbuf rest with
  | zero => simp [encLoop, loopEnd, tailCipher]
  | succ c ih =>
    simp only [encLoop, loopEnd, tailCipher, List.append_assoc]
    rw [← ih]
    simp only [List.append_assoc]

theorem aeadEncryptCore_eq (sealf : Seal) (k : Bytes) (aead cs : Nat) (iv ad input : Bytes) :
    aeadEncryptCore sealf k aead cs iv ad input =
      tailCipher sealf k aead (aeadIvLength aead) (2 ^ (cs + 6)) ((adBuf ad).take 5)
        ((input.length - 1) / 2 ^ (cs + 6) * 2 ^ (cs + 6) +
          (loopEnd aead (2 ^ (cs + 6)) ((input.length - 1) / 2 ^ (cs + 6)) 0
            ((iv ++ List.replicate 16 0).take 16) input).2.2.length)
        ((input.length - 1) / 2 ^ (cs + 6)) 0 ((iv ++ List.replicate 16 0).take 16) input := by
  rw [← encLoop_tail]
  unfold aeadEncryptCore
  simp only
  rw [← encLoop_snd sealf k aead (aeadIvLength aead) (2 ^ (cs + 6)) ((adBuf ad).take 5)]

/-- `decLoop` followed by the last chunk and the final tag is `decTail` -/
theorem decLoop_tail (open_ : Open) (k : Bytes) (aead is cd : Nat) (hdr : Bytes) (base : Nat)
    (c idx : Nat) (ivbuf rest : Bytes)
    (h0 : (decLoop open_ k aead is cd hdr c idx ivbuf rest).1 = 0) :
    decTail open_ k aead is cd hdr base c idx ivbuf rest =
      ((decTail open_ k aead is cd hdr base 0 (decLoop open_ k aead is cd hdr c idx ivbuf rest).2.2.1
          (decLoop open_ k aead is cd hdr c idx ivbuf rest).2.2.2.1
          (decLoop open_ k aead is cd hdr c idx ivbuf rest).2.2.2.2).1,
       (decLoop open_ k aead is cd hdr c idx ivbuf rest).2.1 ++
        (decTail open_ k aead is cd hdr base 0 (decLoop open_ k aead is cd hdr c idx ivbuf rest).2.2.1
          (decLoop open_ k aead is cd hdr c idx ivbuf rest).2.2.2.1
          (decLoop open_ k aead is cd hdr c idx ivbuf rest).2.2.2.2).2) := by
  induction c generalizing idx ivbuf rest with
  | zero => simp [decLoop]
  | succ c ih =>
    by_cases hlt : rest.length < cd + 16
    · have hd : (decLoop open_ k aead is cd hdr (c + 1) idx ivbuf rest).1 = GPG_ERR_TOO_SHORT := by
        rw [decLoop]; simp only [if_pos hlt]
      rw [hd] at h0; simp [GPG_ERR_TOO_SHORT] at h0
    · cases heq : open_ k ((nonceStep aead ivbuf idx).take is) (hdr ++ be8 idx) (rest.take cd)
          ((rest.drop cd).take 16) with
      | none =>
        have hd : (decLoop open_ k aead is cd hdr (c + 1) idx ivbuf rest).1 = GPG_ERR_CHECKSUM := by
          rw [decLoop]; simp only [if_neg hlt, heq]
        rw [hd] at h0; simp [GPG_ERR_CHECKSUM] at h0
      | some p =>
        have hd : decLoop open_ k aead is cd hdr (c + 1) idx ivbuf rest =
            ((decLoop open_ k aead is cd hdr c (idx + 1) ivbuf
                (rest.drop (cd + 16))).1,
             p ++ (decLoop open_ k aead is cd hdr c (idx + 1) ivbuf
                (rest.drop (cd + 16))).2.1,
             (decLoop open_ k aead is cd hdr c (idx + 1) ivbuf
                (rest.drop (cd + 16))).2.2) := by
          rw [decLoop]; simp only [if_neg hlt, heq]
        rw [hd] at h0 ⊢
        simp only at h0 ⊢
        have ht : decTail open_ k aead is cd hdr base (c + 1) idx ivbuf rest =
            ((decTail open_ k aead is cd hdr base c (idx + 1) ivbuf
                (rest.drop (cd + 16))).1,
             p ++ (decTail open_ k aead is cd hdr base c (idx + 1) ivbuf
                (rest.drop (cd + 16))).2) := by
          rw [decTail]; simp only [if_neg hlt, heq]
        rw [ht, ih _ _ _ h0]
        simp only [List.append_assoc]

/-- additional data of the calls from chunk `idx` on: index `idx … idx + c` (13 octets after the
    header), or the final one -/
theorem tailCalls_mem (aead is cd : Nat) (hdr : Bytes) (T : Nat) (c idx : Nat) (ivbuf rest : Bytes)
    (x : Bytes × Bytes × Bytes) (hx : x ∈ tailCalls aead is cd hdr T c idx ivbuf rest) :
    (∃ j, idx ≤ j ∧ j ≤ idx + c ∧ x.2.1 = hdr ++ be8 j) ∨
    (x.2.1 = hdr ++ be8 (idx + c + 1) ++ be8 T ∧ x.2.2 = []) := by
  induction c generalizing idx ivbuf rest with
  | zero =>
    simp only [tailCalls, List.mem_cons, List.not_mem_nil, or_false] at hx
    rcases hx with hx | hx
    · left; exact ⟨idx, le_refl _, by omega, by rw [hx]⟩
    · right; rw [hx]; exact ⟨rfl, rfl⟩
  | succ c ih =>
    simp only [tailCalls, List.mem_cons] at hx
    rcases hx with hx | hx
    · left; exact ⟨idx, le_refl _, by omega, by rw [hx]⟩
    · rcases ih _ _ _ hx with ⟨j, h1, h2, h3⟩ | ⟨h1, h2⟩
      · left; exact ⟨j, by omega, by omega, h3⟩
      · right
        have e : idx + 1 + c + 1 = idx + (c + 1) + 1 := by omega
        rw [e] at h1
        exact ⟨h1, h2⟩

/-- the earlier calls: index below `idx` -/
def PreOK (hdr : Bytes) (idx : Nat) (pre : List (Bytes × Bytes × Bytes)) : Prop :=
  ∀ x ∈ pre, ∃ j, j < idx ∧ x.2.1 = hdr ++ be8 j

theorem hdr_be8_inj {hdr : Bytes} {a b : Nat} (ha : a < 2 ^ 64) (hb : b < 2 ^ 64)
    (h : hdr ++ be8 a = hdr ++ be8 b) : a = b :=
  be8_inj ha hb (List.append_cancel_left h)

theorem hdr_len_ne {hdr : Bytes} {a b t : Nat} (h : hdr ++ be8 a = hdr ++ be8 b ++ be8 t) : False := by
  have := congrArg List.length h
  simp only [List.length_append, length_be8] at this
  omega

/-- the only call with the 13-octet additional data of index `idx` is the first one of the tail -/
theorem mem13 (aead is cd : Nat) (hdr : Bytes) (T : Nat) (c idx : Nat) (ivbuf rest : Bytes)
    (pre : List (Bytes × Bytes × Bytes)) (hpre : PreOK hdr idx pre) (hb : idx + c + 1 < 2 ^ 64)
    (n p : Bytes) (hx : (n, hdr ++ be8 idx, p) ∈ pre ++ tailCalls aead is cd hdr T c idx ivbuf rest) :
    p = if c = 0 then rest else rest.take cd := by
  rcases List.mem_append.mp hx with hx | hx
  · obtain ⟨j, hj, he⟩ := hpre _ hx
    have := hdr_be8_inj (by omega) (by omega) he
    omega
  · cases c with
    | zero =>
      simp only [tailCalls, List.mem_cons, List.not_mem_nil, or_false, Prod.mk.injEq] at hx
      rcases hx with ⟨_, _, h3⟩ | ⟨_, h2, _⟩
      · simp [h3]
      · exact (hdr_len_ne h2).elim
    | succ c =>
      simp only [tailCalls, List.mem_cons, Prod.mk.injEq] at hx
      rcases hx with ⟨_, _, h3⟩ | hx
      · simp [h3]
      · rcases tailCalls_mem _ _ _ _ _ _ _ _ _ _ hx with ⟨j, h1, h2, h3⟩ | ⟨h1, _⟩
        · have := hdr_be8_inj (by omega) (by omega) h3
          omega
        · exact (hdr_len_ne h1).elim

/-- the only call with a 21-octet additional data is the final one -/
theorem mem21 (aead is cd : Nat) (hdr : Bytes) (T : Nat) (c idx : Nat) (ivbuf rest : Bytes)
    (pre : List (Bytes × Bytes × Bytes)) (hpre : PreOK hdr idx pre)
    (n p : Bytes) (j t : Nat)
    (hx : (n, hdr ++ be8 j ++ be8 t, p) ∈ pre ++ tailCalls aead is cd hdr T c idx ivbuf rest) :
    be8 j = be8 (idx + c + 1) ∧ be8 t = be8 T ∧ p = [] := by
  rcases List.mem_append.mp hx with hx | hx
  · obtain ⟨j', _, he⟩ := hpre _ hx
    exact (hdr_len_ne he.symm).elim
  · rcases tailCalls_mem _ _ _ _ _ _ _ _ _ _ hx with ⟨j', _, _, h3⟩ | ⟨h1, h2⟩
    · exact (hdr_len_ne h3.symm).elim
    · simp only [List.append_assoc] at h1
      have h4 := List.append_cancel_left h1
      have h5 := List.append_inj h4 (by simp only [length_be8])
      exact ⟨h5.1, h5.2, h2⟩

/-- no call has the 13-octet additional data of the index after the last chunk -/
theorem nomem13 (aead is cd : Nat) (hdr : Bytes) (T : Nat) (idx : Nat) (ivbuf rest : Bytes)
    (pre : List (Bytes × Bytes × Bytes)) (hpre : PreOK hdr idx pre) (hb : idx + 1 < 2 ^ 64)
    (n p : Bytes) (hx : (n, hdr ++ be8 (idx + 1), p) ∈ pre ++ tailCalls aead is cd hdr T 0 idx ivbuf rest) :
    False := by
  rcases List.mem_append.mp hx with hx | hx
  · obtain ⟨j, hj, he⟩ := hpre _ hx
    have := hdr_be8_inj (by omega) (by omega) he
    omega
  · rcases tailCalls_mem _ _ _ _ _ _ _ _ _ _ hx with ⟨j, h1, h2, h3⟩ | ⟨h1, _⟩
    · have := hdr_be8_inj (by omega) (by omega) h3
      omega
    · exact hdr_len_ne h1

/-- an accepting `decTail` opened something under the additional data of index `idx` -/
theorem decTail_first (open_ : Open) (k : Bytes) (aead is cd : Nat) (hdr : Bytes) (base : Nat)
    (c idx : Nat) (ivbuf rest out : Bytes)
    (h0 : decTail open_ k aead is cd hdr base c idx ivbuf rest = (0, out)) :
    ∃ ct t p, open_ k ((nonceStep aead ivbuf idx).take is) (hdr ++ be8 idx) ct t = some p := by
  cases c with
  | zero =>
    rw [decTail] at h0
    split at h0
    · simp [GPG_ERR_TOO_SHORT] at h0
    · split at h0
      · simp [GPG_ERR_CHECKSUM] at h0
      · rename_i p heq
        exact ⟨_, _, p, heq⟩
  | succ c =>
    rw [decTail] at h0
    split at h0
    · simp [GPG_ERR_TOO_SHORT] at h0
    · split at h0
      · simp [GPG_ERR_CHECKSUM] at h0
      · rename_i p heq
        exact ⟨_, _, p, heq⟩

theorem split3 (rest : Bytes) (len : Nat) (h : rest.length = len + 32) :
    rest = rest.take len ++ (rest.drop len).take 16 ++ (rest.drop (len + 16)).take 16 := by
  have h1 : (rest.drop (len + 16)).take 16 = rest.drop (len + 16) := by
    apply List.take_of_length_le
    rw [List.length_drop]; omega
  have h2 : rest.drop (len + 16) = (rest.drop len).drop 16 := by
    rw [List.drop_drop]
  rw [h1, h2, List.append_assoc, List.take_append_drop, List.take_append_drop]

theorem split2 (rest : Bytes) (cd : Nat) :
    rest = rest.take cd ++ (rest.drop cd).take 16 ++ rest.drop (cd + 16) := by
  have h2 : rest.drop (cd + 16) = (rest.drop cd).drop 16 := by
    rw [List.drop_drop]
  rw [h2, List.append_assoc, List.take_append_drop, List.take_append_drop]

/-- **the invariant**: sender and receiver at the same chunk index with the same `ivbuf`; if the
    receiver accepts the rest of its input, that rest is the rest of the sender's cipher text and
    what is released is the rest of the plaintext -/
theorem decTail_honest (sealf : Seal) (open_ : Open) (k : Bytes) (aead is cd : Nat) (hdr : Bytes)
    (T base : Nat) (c' : Nat) :
    ∀ (c idx : Nat) (ivbuf rest prest : Bytes) (pre : List (Bytes × Bytes × Bytes)) (out : Bytes),
      PreOK hdr idx pre → idx + c + 1 < 2 ^ 64 →
      Ideal sealf open_ k (pre ++ tailCalls aead is cd hdr T c idx ivbuf prest) →
      decTail open_ k aead is cd hdr base c' idx ivbuf rest = (0, out) →
      rest = tailCipher sealf k aead is cd hdr T c idx ivbuf prest ∧ out = prest := by
  induction c' with
  | zero =>
    intro c idx ivbuf rest prest pre out hpre hb hI hdec
    rw [decTail] at hdec
    split at hdec
    · simp [GPG_ERR_TOO_SHORT] at hdec
    · rename_i hlen
      split at hdec
      · simp [GPG_ERR_CHECKSUM] at hdec
      · rename_i p heq1
        split at hdec
        · simp [GPG_ERR_CHECKSUM] at hdec
        · rename_i q heq2
          obtain ⟨hm1, he1⟩ := hI _ _ _ _ _ heq1
          obtain ⟨hm2, he2⟩ := hI _ _ _ _ _ heq2
          have hp := mem13 _ _ _ _ _ _ _ _ _ _ hpre hb _ _ hm1
          obtain ⟨hj, ht, hq⟩ := mem21 _ _ _ _ _ _ _ _ _ _ hpre _ _ _ _ hm2
          have hc : c = 0 := by
            have := be8_inj (by omega) (by omega) hj
            omega
          subst hc
          simp only [if_true] at hp
          subst hq
          have ho : out = p := by
            have := congrArg Prod.snd hdec
            exact this.symm
          rw [ho, hp]
          refine ⟨?_, rfl⟩
          rw [tailCipher, ← ht, ← hp, ← he1, ← he2]
          exact split3 rest (rest.length - 32) (by omega)
  | succ c' ih =>
    intro c idx ivbuf rest prest pre out hpre hb hI hdec
    rw [decTail] at hdec
    split at hdec
    · simp [GPG_ERR_TOO_SHORT] at hdec
    · rename_i hlen
      split at hdec
      · simp [GPG_ERR_CHECKSUM] at hdec
      · rename_i p heq1
        obtain ⟨hm1, he1⟩ := hI _ _ _ _ _ heq1
        have hp := mem13 _ _ _ _ _ _ _ _ _ _ hpre hb _ _ hm1
        have hr1 := congrArg Prod.fst hdec
        have hr2 := congrArg Prod.snd hdec
        simp only at hr1 hr2
        have hr : decTail open_ k aead is cd hdr base c' (idx + 1) ivbuf
            (rest.drop (cd + 16)) = (0, (decTail open_ k aead is cd hdr base c' (idx + 1)
              ivbuf (rest.drop (cd + 16))).2) := Prod.ext hr1 rfl
        cases c with
        | zero =>
          exfalso
          obtain ⟨ct, t, p', hop⟩ := decTail_first _ _ _ _ _ _ _ _ _ _ _ _ hr
          exact nomem13 _ _ _ _ _ _ _ _ _ hpre (by omega) _ _ (hI _ _ _ _ _ hop).1
        | succ c =>
          simp only [Nat.succ_ne_zero, if_false] at hp
          have hpre' : PreOK hdr (idx + 1)
              (pre ++ [((nonceStep aead ivbuf idx).take is, hdr ++ be8 idx, prest.take cd)]) := by
            intro x hx
            rcases List.mem_append.mp hx with hx | hx
            · obtain ⟨j, hj, he⟩ := hpre _ hx
              exact ⟨j, by omega, he⟩
            · simp only [List.mem_cons, List.not_mem_nil, or_false] at hx
              exact ⟨idx, by omega, by rw [hx]⟩
          have hI' : Ideal sealf open_ k
              ((pre ++ [((nonceStep aead ivbuf idx).take is, hdr ++ be8 idx, prest.take cd)]) ++
                tailCalls aead is cd hdr T c (idx + 1) ivbuf (prest.drop cd)) := by
            rw [tailCalls] at hI
            simpa only [List.append_assoc, List.cons_append, List.nil_append] using hI
          obtain ⟨h1, h2⟩ := ih c (idx + 1) _ _ _ _ _ hpre' (by omega) hI' hr
          constructor
          · rw [tailCipher, ← hp, ← he1, ← h1]
            exact split2 rest cd
          · rw [← hr2, h2, hp, List.take_append_drop]

/-- an accepting `SymmetricDecryptAEAD` in terms of `decTail` -/
theorem aeadDecryptCore_tail (open_ : Open) (k : Bytes) (aead cs : Nat) (iv ad c out : Bytes)
    (hacc : aeadDecryptCore open_ k aead cs iv ad c = (0, out)) :
    decTail open_ k aead (aeadIvLength aead) (2 ^ (cs + 6)) ((adBuf ad).take 5)
      ((c.length - 17) / (2 ^ (cs + 6) + 16) * 2 ^ (cs + 6)) ((c.length - 17) / (2 ^ (cs + 6) + 16)) 0
      ((iv.take (aeadIvLength aead) ++ List.replicate 16 0).take 16) c = (0, out) := by
  unfold aeadDecryptCore at hacc
  simp only at hacc
  by_cases h33 : c.length < 33
  · rw [if_pos h33] at hacc; simp [GPG_ERR_TOO_SHORT] at hacc
  · rw [if_neg h33] at hacc
    have ht := decLoop_tail open_ k aead (aeadIvLength aead) (2 ^ (cs + 6)) ((adBuf ad).take 5)
      ((c.length - 17) / (2 ^ (cs + 6) + 16) * 2 ^ (cs + 6)) ((c.length - 17) / (2 ^ (cs + 6) + 16)) 0
      ((iv.take (aeadIvLength aead) ++ List.replicate 16 0).take 16) c
    generalize hd : decLoop open_ k aead (aeadIvLength aead) (2 ^ (cs + 6)) ((adBuf ad).take 5)
      ((c.length - 17) / (2 ^ (cs + 6) + 16)) 0
      ((iv.take (aeadIvLength aead) ++ List.replicate 16 0).take 16) c = d at hacc ht
    obtain ⟨rc, o, idx, ivbuf, rest⟩ := d
    simp only at hacc ht
    by_cases hrc : rc ≠ 0
    · rw [if_pos hrc] at hacc; exact absurd (congrArg Prod.fst hacc) hrc
    · rw [if_neg hrc] at hacc
      have hrc0 : rc = 0 := by omega
      rw [ht hrc0, decTail]
      split at hacc
      · simp [GPG_ERR_TOO_SHORT] at hacc
      · rename_i hl
        rw [if_neg hl]
        split at hacc
        · simp [GPG_ERR_CHECKSUM] at hacc
        · rename_i p heq1
          split at hacc
          · simp [GPG_ERR_CHECKSUM] at hacc
          · rename_i q heq2
            simp only [heq1, heq2]
            simpa using hacc

/-- **tamper evidence of the chunked format**: if the only tuples that open under `k` are the ones
    sealed while encrypting `input` (same header `ad`, starting IV `iv`), then any string `c` that
    `SymmetricDecryptAEAD` accepts with that IV and header is the sender's cipher text, octet for octet,
    and what is returned is `input`.  Every flipped octet, reordered, duplicated or dropped chunk and
    dropped final tag is therefore refused. -/
theorem aead_tamper_evident (sealf : Seal) (open_ : Open) (h : SealOpen sealf open_)
    (k iv ad input c out : Bytes) (aead cs : Nat)
    (hin : input ≠ []) (hiv : iv.length = aeadIvLength aead) (hsz : input.length < 2 ^ 64)
    (hideal : Ideal sealf open_ k (sealCalls aead cs iv ad input))
    (hacc : aeadDecryptCore open_ k aead cs iv ad c = (0, out)) :
    c = aeadEncryptCore sealf k aead cs iv ad input ∧ out = input := by
  have hdec := aeadDecryptCore_tail open_ k aead cs iv ad c out hacc
  have htake : iv.take (aeadIvLength aead) = iv := by rw [← hiv, List.take_length]
  rw [htake] at hdec
  rw [sealCalls_eq] at hideal
  rw [aeadEncryptCore_eq]
  have hb : 0 + (input.length - 1) / 2 ^ (cs + 6) + 1 < 2 ^ 64 := by
    have h1 : (input.length - 1) / 2 ^ (cs + 6) ≤ input.length - 1 := Nat.div_le_self _ _
    have h2 : 0 < input.length := List.length_pos_of_ne_nil hin
    omega
  exact decTail_honest sealf open_ k aead _ _ _ _ _ _ _ 0 _ c input [] out
    (fun x hx => by simp at hx) hb (by simpa using hideal) hdec

/-- chunks in another order are refused (unless the reordered string is the original one) -/
theorem aead_reorder_detected (sealf : Seal) (open_ : Open) (h : SealOpen sealf open_)
    (k iv ad input c : Bytes) (aead cs : Nat)
    (hin : input ≠ []) (hiv : iv.length = aeadIvLength aead) (hsz : input.length < 2 ^ 64)
    (hideal : Ideal sealf open_ k (sealCalls aead cs iv ad input))
    (hperm : c ≠ aeadEncryptCore sealf k aead cs iv ad input) :
    (aeadDecryptCore open_ k aead cs iv ad c).1 ≠ 0 := by
  intro h0
  have := aead_tamper_evident sealf open_ h k iv ad input c (aeadDecryptCore open_ k aead cs iv ad c).2 aead cs
    hin hiv hsz hideal (Prod.ext h0 rfl)
  exact hperm this.1

/-- any proper prefix of the cipher text (dropped final tag, dropped trailing chunks) is refused -/
theorem aead_truncation_detected (sealf : Seal) (open_ : Open) (h : SealOpen sealf open_)
    (k iv ad input : Bytes) (aead cs n : Nat)
    (hin : input ≠ []) (hiv : iv.length = aeadIvLength aead) (hsz : input.length < 2 ^ 64)
    (hideal : Ideal sealf open_ k (sealCalls aead cs iv ad input))
    (hn : n < (aeadEncryptCore sealf k aead cs iv ad input).length) :
    (aeadDecryptCore open_ k aead cs iv ad ((aeadEncryptCore sealf k aead cs iv ad input).take n)).1 ≠ 0 := by
  apply aead_reorder_detected sealf open_ h k iv ad input _ aead cs hin hiv hsz hideal
  intro he
  have := congrArg List.length he
  rw [List.length_take] at this
  omega

/-- **the additional data is bound**: with another header (packet tag, version, cipher, AEAD mode or
    chunk size octet) nothing is accepted -/
theorem aead_ad_bound (sealf : Seal) (open_ : Open)
    (k iv iv' ad ad' input c : Bytes) (aead cs cs' : Nat)
    (hideal : Ideal sealf open_ k (sealCalls aead cs iv ad input))
    (hne : (adBuf ad').take 5 ≠ (adBuf ad).take 5) :
    (aeadDecryptCore open_ k aead cs' iv' ad' c).1 ≠ 0 := by
  intro h0
  have hacc : aeadDecryptCore open_ k aead cs' iv' ad' c =
      (0, (aeadDecryptCore open_ k aead cs' iv' ad' c).2) := Prod.ext h0 rfl
  have hdec := aeadDecryptCore_tail open_ k aead cs' iv' ad' c _ hacc
  obtain ⟨ct, t, p, hop⟩ := decTail_first _ _ _ _ _ _ _ _ _ _ _ _ hdec
  have hm := (hideal _ _ _ _ _ hop).1
  rw [sealCalls_eq] at hm
  have hlen : ∀ a : Bytes, ((adBuf a).take 5).length = 5 := by
    intro a; simp [adBuf]
  rcases tailCalls_mem _ _ _ _ _ _ _ _ _ _ hm with ⟨j, _, _, h3⟩ | ⟨h1, _⟩
  · exact hne (List.append_inj h3 (by rw [hlen, hlen])).1
  · simp only [List.append_assoc] at h1
    exact hne (List.append_inj h1 (by rw [hlen, hlen])).1

theorem xor_left_cancel {a x y : Nat} (h : a ^^^ x = a ^^^ y) : x = y := by
  rw [← xor_cancel_left a x, h, xor_cancel_left]

theorem zipWith_xor_cancel (w : Bytes) : ∀ (x y : Bytes), x.length = w.length → y.length = w.length →
    List.zipWith (· ^^^ ·) w x = List.zipWith (· ^^^ ·) w y → x = y := by
  induction w with
  | nil =>
    intro x y hx hy _
    rw [List.length_nil] at hx hy
    rw [List.eq_nil_of_length_eq_zero hx, List.eq_nil_of_length_eq_zero hy]
  | cons a w ih =>
    intro x y hx hy h
    cases x with
    | nil => simp at hx
    | cons b x =>
      cases y with
      | nil => simp at hy
      | cons c y =>
        simp only [List.zipWith_cons_cons, List.cons.injEq] at h
        simp only [List.length_cons, Nat.add_right_cancel_iff] at hx hy
        rw [xor_left_cancel h.1, ih x y hx hy h.2]

/-- the eight-octet window at `off` of a (possibly truncated) buffer `A ‖ Z ‖ C` -/
theorem xor_window (A Z C : Bytes) (off n : Nat) (hA : A.length = off) (hZ : Z.length = 8)
    (hn : off + 8 ≤ n) : (((A ++ Z ++ C).take n).drop off).take 8 = Z := by
  subst hA
  rw [List.drop_take, List.take_take, List.append_assoc, List.drop_left,
    Nat.min_eq_left (by omega), ← hZ, List.take_left]

theorem xorAt_window_inj (buf : Bytes) (off n i j : Nat) (hlen : off + 8 ≤ buf.length) (hn : off + 8 ≤ n)
    (hi : i < 2 ^ 64) (hj : j < 2 ^ 64)
    (h : (xorAt buf off (be8 i)).take n = (xorAt buf off (be8 j)).take n) : i = j := by
  unfold xorAt at h
  have hA : (buf.take off).length = off := by rw [List.length_take]; omega
  have hw : ((buf.drop off).take 8).length = 8 := by
    rw [List.length_take, List.length_drop]; omega
  have hZ : ∀ v, (List.zipWith (· ^^^ ·) ((buf.drop off).take 8) (be8 v)).length = 8 := by
    intro v; rw [List.length_zipWith, hw, length_be8]; rfl
  have h' : (List.drop off ((buf.take off ++ List.zipWith (· ^^^ ·) ((buf.drop off).take 8) (be8 i) ++
        buf.drop (off + 8)).take n)).take 8 =
      (List.drop off ((buf.take off ++ List.zipWith (· ^^^ ·) ((buf.drop off).take 8) (be8 j) ++
        buf.drop (off + 8)).take n)).take 8 := by rw [h]
  rw [xor_window _ _ _ off n hA (hZ i) hn, xor_window _ _ _ off n hA (hZ j) hn] at h'
  exact be8_inj hi hj (zipWith_xor_cancel _ _ _ (by rw [length_be8, hw]) (by rw [length_be8, hw]) h')

/-- **the nonces of distinct chunks are distinct**: every chunk index below 2^64 (and the final tag's
    index) gives another nonce from the same starting IV, for EAX (16 octets, index in octets 8–15)
    and OCB (15 octets, index in octets 7–14) -/
theorem aead_nonces_distinct (aead : Nat) (ivbuf : Bytes) (i j : Nat) (hae : aead = 1 ∨ aead = 2)
    (hlen : ivbuf.length = 16) (hi : i < 2 ^ 64) (hj : j < 2 ^ 64) (hne : i ≠ j) :
    (nonceStep aead ivbuf i).take (aeadIvLength aead) ≠ (nonceStep aead ivbuf j).take (aeadIvLength aead) := by
  intro h
  rcases hae with rfl | rfl
  · exact hne (xorAt_window_inj ivbuf 8 16 i j (by omega) (by omega) hi hj h)
  · exact hne (xorAt_window_inj ivbuf 7 15 i j (by omega) (by omega) hi hj h)

/-! ### 3. signatures -/

/-- **validity**: exactly — not expired, not older than the key, not more than 25 hours ahead of the
    clock, and one of SHA-256/384/512, SHA3-256/512 -/
theorem validity_logic (s : Sig) (keycreation now : Nat) :
    (checkValidity s keycreation now).1 = true ↔
      (s.expiration = 0 ∨ now ≤ s.creation + s.expiration) ∧ keycreation ≤ s.creation ∧
      s.creation ≤ now + 90000 ∧ strongHash s.hashalgo = true := by
  unfold checkValidity FUTURE_TOLERANCE
  by_cases h1 : s.expiration ≠ 0 ∧ now > s.creation + s.expiration
  · rw [if_pos h1]; simp only [Bool.false_eq_true, false_iff]; intro h; omega
  · rw [if_neg h1]
    by_cases h2 : s.creation < keycreation
    · rw [if_pos h2]; simp only [Bool.false_eq_true, false_iff]; intro h; omega
    · rw [if_neg h2]
      by_cases h3 : s.creation > now + 60 * 60 * 25
      · rw [if_pos h3]; simp only [Bool.false_eq_true, false_iff]; intro h; omega
      · rw [if_neg h3]
        cases h4 : strongHash s.hashalgo
        · simp
        · simp only [Bool.not_true, Bool.false_eq_true, if_false, true_iff, and_true]
          refine ⟨?_, by omega, by omega⟩
          by_cases h5 : s.expiration = 0
          · exact Or.inl h5
          · right; by_contra h6; exact h1 ⟨h5, by omega⟩

/-- the `expired` flag is raised exactly when the expiry check fails -/
theorem validity_expired_flag (s : Sig) (keycreation now : Nat) :
    (checkValidity s keycreation now).2 = true ↔ s.expiration ≠ 0 ∧ now > s.creation + s.expiration := by
  unfold checkValidity
  by_cases h1 : s.expiration ≠ 0 ∧ now > s.creation + s.expiration
  · rw [if_pos h1]; simp [h1]
  · rw [if_neg h1]
    constructor
    · intro h; split at h <;> [skip; (split at h <;> [skip; (split at h <;> skip)])] <;> simp at h
    · intro h; exact absurd h h1

theorem weak_hash_refused (s : Sig) (keycreation now : Nat) (hw : strongHash s.hashalgo = false) :
    (checkValidity s keycreation now).1 = false := by
  cases h : (checkValidity s keycreation now).1
  · rfl
  · rw [validity_logic] at h; rw [hw] at h; simp at h

/-- MD5, SHA-1, RIPE-MD/160 and SHA-224 are weak -/
theorem weak_hash_list : strongHash 1 = false ∧ strongHash 2 = false ∧ strongHash 3 = false ∧
    strongHash 11 = false := by decide

/-- **quick check**: a two-octet `left` field that differs from the first two octets of the digest
    refuses the signature before the public-key operation -/
theorem left16_check (pk : Bytes → Nat) (s : Sig) (pp : PkParams) (a b h0 h1 : Nat) (rest : Bytes)
    (hl : s.left = [a, b]) (hne : a ≠ h0 ∨ b ≠ h1) :
    checkIntegrity pk s pp (h0 :: h1 :: rest) = false := by
  unfold checkIntegrity
  rw [hl]
  simp only [List.length_cons, List.length_nil, List.getD_cons_zero, List.getD_cons_succ]
  rw [if_pos ⟨trivial, Or.inr (by simpa using hne)⟩]

/-- with a matching `left` field the verdict is the public-key operation's on the encoded digest -/
theorem left16_pass (pk : Bytes → Nat) (s : Sig) (pp : PkParams) (h0 h1 : Nat) (rest : Bytes)
    (hl : s.left = [h0, h1]) :
    checkIntegrity pk s pp (h0 :: h1 :: rest) =
      match pkData s.pkalgo s.hashalgo pp (h0 :: h1 :: rest) with
      | some (.ok d) => decide (pk d = 0)
      | _ => false := by
  unfold checkIntegrity
  rw [hl]
  simp only [List.length_cons, List.length_nil, List.getD_cons_zero, List.getD_cons_succ]
  rw [if_neg (by simp)]
  split <;> simp_all

/-- **an unknown hash algorithm is refused**: the digest stays empty and fails the quick check -/
theorem unknown_hash_refused (H : Nat → Bytes → Bytes) (pk : Bytes → Nat) (s : Sig) (pp : PkParams)
    (t : Target) (hh : hashLength s.hashalgo = 0) (hl : s.left.length = 2) :
    verifySig H pk s pp t = false := by
  unfold verifySig
  split
  · rfl
  · unfold hashCompute
    rw [if_pos (Or.inl hh)]
    unfold checkIntegrity
    rw [if_pos ⟨hl, Or.inl (by simp)⟩]

/-- **the verdict depends on the signed data through the digest only**: two targets whose hash
    inputs have the same digest are accepted or refused alike — so a changed document, key or user ID
    passes only on a collision of the digest (cf. the injectivity theorems below) -/
theorem verifySig_digest (H : Nat → Bytes → Bytes) (pk : Bytes → Nat) (s : Sig) (pp : PkParams)
    (t t' : Target) (i i' : Bytes)
    (hi : verifyHashInput s t = some i) (hi' : verifyHashInput s t' = some i')
    (hd : hashCompute H s.hashalgo i = hashCompute H s.hashalgo i') :
    verifySig H pk s pp t = verifySig H pk s pp t' := by
  unfold verifySig
  rw [hi, hi']
  simp only [hd]

/-- bound on the hashed part of a signature packet for which the closing octets determine its length -/
def trailerBound (ver : Nat) : Nat := if ver = 5 then 2 ^ 64 else 2 ^ 32

theorem tail_inj_aux (x1 x2 t1 t2 m e1 e2 : Bytes) (hl : e1.length = e2.length)
    (he : e1 = e2 → t1.length = t2.length)
    (h : x1 ++ (t1 ++ m ++ e1) = x2 ++ (t2 ++ m ++ e2)) : x1 = x2 ∧ t1 = t2 := by
  have h' : (x1 ++ t1 ++ m) ++ e1 = (x2 ++ t2 ++ m) ++ e2 := by
    simpa only [List.append_assoc] using h
  have h1 := List.append_inj' h' hl
  have h2 := List.append_cancel_right h1.1
  exact List.append_inj' h2 (he h1.2)

/-- the closing octets make the trailer self-delimiting from the right: what precedes it and the
    trailer itself are determined by the concatenation (V3: the trailer has a fixed length) -/
theorem finalTrailer_inj (ver : Nat) (x1 x2 t1 t2 : Bytes)
    (h3 : ver = 3 → t1.length = t2.length)
    (hb1 : t1.length < trailerBound ver) (hb2 : t2.length < trailerBound ver)
    (h : x1 ++ finalTrailer ver t1 = x2 ++ finalTrailer ver t2) : x1 = x2 ∧ t1 = t2 := by
  unfold finalTrailer at h
  by_cases hv3 : ver = 3
  · rw [if_pos hv3, if_pos hv3] at h
    exact List.append_inj' h (h3 hv3)
  · rw [if_neg hv3, if_neg hv3] at h
    unfold trailerBound at hb1 hb2
    by_cases hv5 : ver = 5
    · rw [if_pos hv5] at h hb1 hb2
      rw [if_pos hv5] at h
      refine tail_inj_aux x1 x2 t1 t2 _ _ _ (by simp [scalarEightEncode, scalarFourEncode]) ?_ h
      intro he
      have := congrArg fromBE he
      rw [scalarEight_value, scalarEight_value, Nat.mod_eq_of_lt hb1, Nat.mod_eq_of_lt hb2] at this
      exact this
    · rw [if_neg hv5] at h hb1 hb2
      rw [if_neg hv5] at h
      refine tail_inj_aux x1 x2 t1 t2 _ _ _ (by simp [scalarFourEncode]) ?_ h
      intro he
      have := congrArg fromBE he
      rw [scalarFour_value, scalarFour_value, Nat.mod_eq_of_lt hb1, Nat.mod_eq_of_lt hb2] at this
      exact this

/-- **binary documents**: different documents or different hashed fields give different hash inputs -/
theorem hash_input_injective_binary (ver : Nat) (d1 d2 t1 t2 : Bytes)
    (h3 : ver = 3 → t1.length = t2.length)
    (hb1 : t1.length < trailerBound ver) (hb2 : t2.length < trailerBound ver)
    (h : hashInputBinary ver d1 t1 = hashInputBinary ver d2 t2) : d1 = d2 ∧ t1 = t2 :=
  finalTrailer_inj ver d1 d2 t1 t2 h3 hb1 hb2 h

/-- **text documents**: the hash input determines the canonical form (line endings `<CR><LF>`) -/
theorem hash_input_injective_text (ver : Nat) (d1 d2 t1 t2 : Bytes)
    (h3 : ver = 3 → t1.length = t2.length)
    (hb1 : t1.length < trailerBound ver) (hb2 : t2.length < trailerBound ver)
    (h : hashInputText ver d1 t1 = hashInputText ver d2 t2) : textCanon d1 = textCanon d2 ∧ t1 = t2 :=
  finalTrailer_inj ver (textCanon d1) (textCanon d2) t1 t2 h3 hb1 hb2 h

theorem hash_input_injective_standalone (ver : Nat) (t1 t2 : Bytes)
    (h3 : ver = 3 → t1.length = t2.length)
    (hb1 : t1.length < trailerBound ver) (hb2 : t2.length < trailerBound ver)
    (h : hashInputStandalone ver t1 = hashInputStandalone ver t2) : t1 = t2 :=
  (finalTrailer_inj ver [] [] t1 t2 h3 hb1 hb2 (by simpa [hashInputStandalone] using h)).2

theorem keyFrame_inj (ver : Nat) (k1 k2 : Bytes) (h : keyFrame ver k1 = keyFrame ver k2) : k1 = k2 := by
  unfold keyFrame at h
  split at h
  · simp only [scalarFourEncode, List.cons_append, List.nil_append, List.cons.injEq] at h
    exact h.2.2.2.2.2
  · simp only [List.cons_append, List.nil_append, List.cons.injEq] at h
    exact h.2.2.2

/-- **keys**: a different key packet gives a different hash input -/
theorem hash_input_injective_key (ver : Nat) (k1 k2 t1 t2 : Bytes)
    (h3 : ver = 3 → t1.length = t2.length)
    (hb1 : t1.length < trailerBound ver) (hb2 : t2.length < trailerBound ver)
    (h : hashInputKey ver k1 t1 = hashInputKey ver k2 t2) : k1 = k2 ∧ t1 = t2 := by
  have := finalTrailer_inj ver _ _ t1 t2 h3 hb1 hb2 h
  exact ⟨keyFrame_inj ver k1 k2 this.1, this.2⟩

/-- bound on a key packet body for which its length field is exact -/
def keyBound (ver : Nat) : Nat := if ver = 5 then 2 ^ 32 else 2 ^ 16

/-- a framed key followed by anything: the key and the rest are determined -/
theorem keyFrame_append_inj (ver : Nat) (k1 k2 r1 r2 : Bytes)
    (hk1 : k1.length < keyBound ver) (hk2 : k2.length < keyBound ver)
    (h : keyFrame ver k1 ++ r1 = keyFrame ver k2 ++ r2) : k1 = k2 ∧ r1 = r2 := by
  unfold keyFrame at h
  unfold keyBound at hk1 hk2
  by_cases hv5 : ver = 5
  · rw [if_pos hv5] at h hk1 hk2
    rw [if_pos hv5] at h
    simp only [scalarFourEncode, List.cons_append, List.nil_append, List.cons.injEq, true_and] at h
    obtain ⟨a, b, c, d, e⟩ := h
    exact List.append_inj e (by omega)
  · rw [if_neg hv5] at h hk1 hk2
    rw [if_neg hv5] at h
    simp only [List.cons_append, List.nil_append, List.cons.injEq, true_and] at h
    obtain ⟨a, b, e⟩ := h
    exact List.append_inj e (by omega)

/-- **primary key and subkey** -/
theorem hash_input_injective_key2 (ver : Nat) (p1 p2 s1 s2 t1 t2 : Bytes)
    (h3 : ver = 3 → t1.length = t2.length)
    (hb1 : t1.length < trailerBound ver) (hb2 : t2.length < trailerBound ver)
    (hk1 : p1.length < keyBound ver) (hk2 : p2.length < keyBound ver)
    (h : hashInputKey2 ver p1 s1 t1 = hashInputKey2 ver p2 s2 t2) : p1 = p2 ∧ s1 = s2 ∧ t1 = t2 := by
  unfold hashInputKey2 at h
  have := finalTrailer_inj ver _ _ t1 t2 h3 hb1 hb2 h
  have h2 := keyFrame_append_inj ver p1 p2 _ _ hk1 hk2 this.1
  exact ⟨h2.1, keyFrame_inj ver s1 s2 h2.2, this.2⟩

/-- **key and user ID** (V4, V5: the user ID is framed; V3 hashes it bare) -/
theorem hash_input_injective_cert (ver : Nat) (k1 k2 u1 u2 t1 t2 : Bytes)
    (h3 : ver = 3 → t1.length = t2.length)
    (hb1 : t1.length < trailerBound ver) (hb2 : t2.length < trailerBound ver)
    (hk1 : k1.length < keyBound ver) (hk2 : k2.length < keyBound ver)
    (h : hashInputCert ver k1 u1 [] t1 = hashInputCert ver k2 u2 [] t2) : k1 = k2 ∧ u1 = u2 ∧ t1 = t2 := by
  unfold hashInputCert at h
  have h1 := finalTrailer_inj ver _ _ t1 t2 h3 hb1 hb2 h
  have h2 := keyFrame_append_inj ver k1 k2 _ _ hk1 hk2 h1.1
  refine ⟨h2.1, ?_, h1.2⟩
  have h4 := h2.2
  unfold uidFrame at h4
  by_cases hv3 : ver = 3
  · rw [if_pos hv3, if_pos hv3] at h4; exact h4
  · rw [if_neg hv3, if_neg hv3] at h4
    simp only [if_true, scalarFourEncode, List.cons_append, List.nil_append, List.cons.injEq, true_and] at h4
    exact h4.2.2.2.2

/-- the hashed part of a V4/V5 signature packet determines type, algorithms and hashed subpackets:
    a change of any hashed field changes the trailer -/
theorem sigTrailer_inj (s1 s2 : Sig) (hv : s1.version = s2.version) (h4 : s1.version ≠ 3)
    (hl1 : s1.hspd.length < 65536) (hl2 : s2.hspd.length < 65536)
    (h : sigTrailer s1 = sigTrailer s2) :
    s1.type = s2.type ∧ s1.pkalgo = s2.pkalgo ∧ s1.hashalgo = s2.hashalgo ∧ s1.hspd = s2.hspd := by
  unfold sigTrailer at h
  rw [if_neg h4, if_neg (hv ▸ h4)] at h
  simp only [List.cons_append, List.nil_append, List.cons.injEq] at h
  exact ⟨h.2.1, h.2.2.1, h.2.2.2.1, h.2.2.2.2.2.2⟩

/-- a second pass over canonical text inserts nothing (whatever octet it is told precedes the text,
    as long as it is told `<CR>` when the first pass was) -/
theorem textCanonFrom_idem_aux (d : Bytes) : ∀ last last' : Nat, (last = 13 → last' = 13) →
    textCanonFrom last' (textCanonFrom last d) = textCanonFrom last d := by
  induction d with
  | nil => intro _ _ _; simp [textCanonFrom]
  | cons b rest ih =>
    intro last last' hl
    simp only [textCanonFrom]
    by_cases hc : b = 10 ∧ last ≠ 13
    · rw [if_pos hc]
      obtain ⟨hb, _⟩ := hc
      subst hb
      simp only [List.cons_append, List.nil_append, textCanonFrom]
      rw [if_neg (by omega), if_neg (by simp)]
      simp only [List.cons_append, List.nil_append, ih 10 10 (fun h => h)]
    · rw [if_neg hc]
      simp only [List.cons_append, List.nil_append, textCanonFrom]
      have hc' : ¬ (b = 10 ∧ last' ≠ 13) := by
        intro ⟨hb, hl'⟩
        by_cases h13 : last = 13
        · exact hl' (hl h13)
        · exact hc ⟨hb, h13⟩
      rw [if_neg hc']
      simp only [List.cons_append, List.nil_append, ih b b (fun h => h)]

/-- line endings: a document and the same document with `<CR>` put before a bare `<LF>` have one
    canonical form -/
theorem textCanon_idem (d : Bytes) : textCanon (textCanon d) = textCanon d := by
  unfold textCanon
  exact textCanonFrom_idem_aux d _ _ (fun h => h)

/-- canonical form of a concatenation: the second part is converted knowing the last octet of the first -/
theorem textCanonFrom_append (x y : Bytes) : ∀ l : Nat,
    textCanonFrom l (x ++ y) = textCanonFrom l x ++ textCanonFrom (x.getLast?.getD l) y := by
  induction x with
  | nil => intro l; simp [textCanonFrom]
  | cons b rest ih =>
    intro l
    simp only [List.cons_append, textCanonFrom, ih b, List.append_assoc]
    congr 2
    cases rest with
    | nil => simp
    | cons c r =>
      rw [List.getLast?_cons_cons]
      cases hg : (c :: r).getLast? with
      | none => simp at hg
      | some v => simp

/-- **LF and CRLF line ends are hashed alike**: a bare `<LF>` (one not preceded by `<CR>`) and
    `<CR><LF>` at the same place give the same canonical text -/
theorem textCanon_crlf (d1 d2 : Bytes) (h : d1.getLast? ≠ some 13) :
    textCanon (d1 ++ [10] ++ d2) = textCanon (d1 ++ [13, 10] ++ d2) := by
  unfold textCanon
  have hl : d1.getLast?.getD 0x21 ≠ 13 := by
    cases hg : d1.getLast? with
    | none => simp
    | some v => rw [hg] at h; simpa using h
  rw [List.append_assoc, List.append_assoc, textCanonFrom_append d1, textCanonFrom_append d1]
  congr 1
  simp only [List.cons_append, List.nil_append, textCanonFrom]
  rw [if_pos ⟨trivial, hl⟩, if_neg (by omega), if_neg (by simp)]
  simp

/-! ### 4. the encrypted-data packets -/


theorem lenEncode_length_pos (n : Nat) : 1 ≤ (packetLengthEncode n).length ∧ (packetLengthEncode n).length ≠ 42 := by
  unfold packetLengthEncode
  split
  · simp
  · split <;> simp

/-- one new-format packet with a definite length is split off in one step -/
theorem packetSplit_newformat (t : Nat) (body rest : Bytes) (h7 : t / 128 % 2 = 1) (h6 : t / 64 % 2 = 1)
    (hl : body.length < 2 ^ 32) :
    packetSplit (t :: (packetLengthEncode body.length ++ (body ++ rest))) =
      some (⟨t % 64, true, body⟩, rest) := by
  obtain ⟨hpos, h42⟩ := lenEncode_length_pos body.length
  unfold packetSplit
  simp only
  rw [if_neg (by omega)]
  simp only [h6, decide_true, if_true]
  unfold packetBody
  simp only
  rw [len_roundtrip body.length hl (body ++ rest) 0]
  simp only
  rw [if_neg (by omega), if_neg h42]
  simp only [Bool.false_eq_true, false_and, if_false, List.length_append, List.nil_append,
    Bool.false_or, beq_iff_eq, h42, decide_false]
  rw [if_neg (by omega)]
  simp only [List.drop_left, List.take_left]
  rw [← List.drop_drop, List.drop_left, List.drop_left]

/-- `MessageParse` on an input whose first packet is a new-format packet with a definite length -/
theorem msgParse_newformat (t : Nat) (body rest : Bytes) (h7 : t / 128 % 2 = 1) (h6 : t / 64 % 2 = 1)
    (hl : body.length < 2 ^ 32) :
    msgParse (t :: (packetLengthEncode body.length ++ (body ++ rest))) =
      match decodePacket ⟨t % 64, true, body⟩ with
      | .err => .fail
      | .unmodelled => .unmodelled
      | .ignore => msgParseLoop ((packetLengthEncode body.length ++ (body ++ rest)).length + 1) rest {}
      | .sed enc => .ok { haveSed := true, encrypted := enc }
      | .seipd enc => .ok { version := 1, haveSeipd := true, encrypted := enc }
      | .mdc h => .ok { mdc := h }
      | .aead sk ae cs iv enc =>
        .ok { version := 1, haveAead := true, skalgo := sk, aeadalgo := ae, chunksize := cs, iv := iv,
              encrypted := enc } := by
  unfold msgParse
  simp only [List.length_cons]
  unfold msgParseLoop
  rw [if_neg (by simp), packetSplit_newformat t body rest h7 h6 hl]
  simp only
  cases decodePacket ⟨t % 64, true, body⟩ <;> rfl

/-- what the library writes as an integrity protected data packet is read back by `MessageParse`
    (anything behind the packet is not looked at) -/
theorem msgParse_seipdPacket (enc rest : Bytes) (hne : enc ≠ []) (hl : enc.length + 1 < 2 ^ 32) :
    msgParse (seipdPacket enc ++ rest) = .ok { version := 1, haveSeipd := true, encrypted := enc } := by
  have hpos : 1 ≤ enc.length := by
    cases enc with
    | nil => exact absurd rfl hne
    | cons a l => simp
  have e : seipdPacket enc ++ rest =
      210 :: (packetLengthEncode (1 :: enc).length ++ ((1 :: enc) ++ rest)) := by
    unfold seipdPacket packetTagEncode
    simp [Nat.add_comm]
  have hd : decodePacket ⟨210 % 64, true, 1 :: enc⟩ = .seipd enc := by
    unfold decodePacket
    simp only [List.length_cons, List.headD_cons, List.drop_succ_cons, List.drop_zero]
    rw [if_neg (by decide), if_pos (by decide), if_neg (by omega), if_neg (by simp)]
  rw [e, msgParse_newformat 210 (1 :: enc) rest (by decide) (by decide)
    (by simp only [List.length_cons]; omega), hd]

theorem msgParse_sedPacket (enc rest : Bytes) (hne : enc ≠ []) (hl : enc.length < 2 ^ 32) :
    msgParse (sedPacket enc ++ rest) = .ok { haveSed := true, encrypted := enc } := by
  have e : sedPacket enc ++ rest = 201 :: (packetLengthEncode enc.length ++ (enc ++ rest)) := by
    unfold sedPacket packetTagEncode
    simp
  have hd : decodePacket ⟨201 % 64, true, enc⟩ = .sed enc := by
    unfold decodePacket
    simp only
    rw [if_pos (by decide), if_neg hne]
  rw [e, msgParse_newformat 201 enc rest (by decide) (by decide) hl, hd]

theorem msgParse_aeadPacket (skalgo aeadalgo cs : Nat) (iv enc rest : Bytes) (hne : enc ≠ [])
    (hiv : iv.length = aeadIvLength aeadalgo) (hl : 4 + iv.length + enc.length < 2 ^ 32) :
    msgParse (aeadPacket skalgo aeadalgo cs iv enc ++ rest) =
      .ok { version := 1, haveAead := true, skalgo := skalgo, aeadalgo := aeadalgo, chunksize := cs,
            iv := iv, encrypted := enc } := by
  have hpos : 1 ≤ enc.length := by
    cases enc with
    | nil => exact absurd rfl hne
    | cons a l => simp
  have hlen : ([1, skalgo, aeadalgo, cs] ++ iv ++ enc).length = 4 + iv.length + enc.length := by
    simp; omega
  have e : aeadPacket skalgo aeadalgo cs iv enc ++ rest =
      212 :: (packetLengthEncode ([1, skalgo, aeadalgo, cs] ++ iv ++ enc).length ++
        (([1, skalgo, aeadalgo, cs] ++ iv ++ enc) ++ rest)) := by
    rw [hlen]
    unfold aeadPacket packetTagEncode
    simp
  have hd : decodePacket ⟨212 % 64, true, [1, skalgo, aeadalgo, cs] ++ iv ++ enc⟩ =
      .aead skalgo aeadalgo cs iv enc := by
    unfold decodePacket
    simp only [hlen]
    rw [if_neg (by decide), if_neg (by decide), if_neg (by decide), if_pos (by decide),
      if_neg (by omega), if_neg (by simp)]
    have g2 : ([1, skalgo, aeadalgo, cs] ++ iv ++ enc).getD 2 0 = aeadalgo := by simp
    simp only [g2, ← hiv]
    rw [if_neg (by omega), if_neg (by omega)]
    have d4 : ([1, skalgo, aeadalgo, cs] ++ iv ++ enc).drop 4 = iv ++ enc := by simp
    have d5 : ([1, skalgo, aeadalgo, cs] ++ iv ++ enc).drop (4 + iv.length) = enc := by
      rw [← List.drop_drop, d4, List.drop_left]
    rw [d4, d5, List.take_left]
    simp
  rw [e, msgParse_newformat 212 _ rest (by decide) (by decide) (by rw [hlen]; exact hl), hd]

/-- **end to end, integrity protected message**: the sender's packet (plaintext, MDC, CFB, packet
    framing) parses and decrypts to the plaintext followed by its MDC packet -/
theorem seipd_message_roundtrip (E : Bytes → Bytes → Bytes) (sha1 : Bytes → Bytes) (op : Open)
    (algo : Nat) (k pfx body rest : Bytes) (m : Msg)
    (hbs : blockLength algo ≠ 0) (hks : keyLength algo ≠ 0) (hk : k.length = keyLength algo)
    (hp : pfx.length = blockLength algo + 2)
    (hrep : pfx.getD (blockLength algo) 0 = pfx.getD (blockLength algo - 2) 0 ∧
            pfx.getD (blockLength algo + 1) 0 = pfx.getD (blockLength algo - 1) 0)
    (hbody : body ≠ []) (hsha : ∀ x, (sha1 x).length = 20) (hl : pfx.length + body.length + 23 < 2 ^ 32)
    (hm : msgParse (seipdPacket (seipdSeal (E k) sha1 (blockLength algo) pfx body) ++ rest) = .ok m) :
    msgDecrypt E sha1 op m (wrapKey algo k) = (true, body ++ mdcPacket sha1 pfx body) := by
  have hlen : (seipdSeal (E k) sha1 (blockLength algo) pfx body).length = pfx.length + body.length + 22 := by
    unfold seipdSeal mdcPacket
    rw [length_cfbEncrypt]
    simp only [List.length_append, hsha, List.length_cons, List.length_nil]
    omega
  have hne : seipdSeal (E k) sha1 (blockLength algo) pfx body ≠ [] := by
    intro h0
    rw [h0] at hlen
    simp only [List.length_nil] at hlen
    omega
  rw [msgParse_seipdPacket _ rest hne (by rw [hlen]; omega)] at hm
  injection hm with hm
  subst hm
  exact seipd_roundtrip E sha1 op algo k pfx body hbs hks hk hp hrep hbody hsha

/-- **end to end, AEAD message**: the sender's packet parses and decrypts to the plaintext, for every
    16-octet-block cipher, both AEAD modes and every chunk size octet the library accepts -/
theorem aead_message_roundtrip (E : Bytes → Bytes → Bytes) (sha1 : Bytes → Bytes)
    (sealf : Seal) (op : Open) (h : SealOpen sealf op)
    (skalgo aeadalgo cs : Nat) (k iv input rest : Bytes) (m : Msg)
    (hbs : blockLength skalgo = 16) (hks : keyLength skalgo ≠ 0) (hk : k.length = keyLength skalgo)
    (hae : aeadalgo = 1 ∨ aeadalgo = 2) (hcs : cs ≤ 21) (hiv : iv.length = aeadIvLength aeadalgo)
    (hin : input ≠ [])
    (hl : 4 + iv.length + (aeadEncryptCore sealf k aeadalgo cs iv
            ([0xD4, 1, skalgo, aeadalgo, cs] ++ List.replicate 8 0) input).length < 2 ^ 32)
    (hm : msgParse (aeadPacket skalgo aeadalgo cs iv (aeadEncryptCore sealf k aeadalgo cs iv
            ([0xD4, 1, skalgo, aeadalgo, cs] ++ List.replicate 8 0) input) ++ rest) = .ok m) :
    msgDecrypt E sha1 op m k = (true, input) := by
  have hrt := aead_decrypt_encrypt sealf op h k iv
    ([0xD4, 1, skalgo, aeadalgo, cs] ++ List.replicate 8 0) input aeadalgo cs hin hiv
  generalize hct : aeadEncryptCore sealf k aeadalgo cs iv
    ([0xD4, 1, skalgo, aeadalgo, cs] ++ List.replicate 8 0) input = ct at *
  have hne : ct ≠ [] := by
    intro h0
    rw [h0] at hrt
    unfold aeadDecryptCore at hrt
    simp only [List.length_nil] at hrt
    rw [if_pos (by omega)] at hrt
    injection hrt with h1 h2
    exact absurd h1 (by decide)
  rw [msgParse_aeadPacket skalgo aeadalgo cs iv ct rest hne hiv hl] at hm
  injection hm with hm
  subst hm
  have hkpos : k.length ≠ 0 := by rw [hk]; exact hks
  have hkne : k ≠ [] := by
    intro h0; rw [h0] at hkpos; exact hkpos rfl
  have hivl : aeadIvLength aeadalgo = 16 ∨ aeadIvLength aeadalgo = 15 := by
    rcases hae with rfl | rfl
    · exact Or.inl rfl
    · exact Or.inr rfl
  have hsk : msgSessionKey (keyLength skalgo) k = some k := by
    unfold msgSessionKey
    rw [if_neg (by omega), if_neg (by omega), if_pos hk]
  have hdk : decSessionKey (keyLength skalgo) skalgo false k = .ok (k, k) := by
    unfold decSessionKey
    rw [if_neg (by omega), if_pos hk]
    simp
  unfold msgDecrypt
  simp only [Bool.not_true, Bool.false_eq_true, and_false, if_false, if_true]
  rw [if_neg hne, hsk]
  simp only
  unfold aeadDecrypt
  simp only [hbs, hdk]
  rw [if_neg (by omega), if_neg hkne, if_neg (by simp), if_neg (by omega), if_neg (by omega),
    if_neg (by omega), if_neg (by simp)]
  rw [hrt]
  simp

/-! ### 5. hashed and unhashed signature subpackets -/

/-- the context without the three things `PacketContextEvaluate` may take from the unhashed area:
    issuer key ID, issuer fingerprint (with its version octet), embedded signature -/
def SigCtx.core (c : SigCtx) : SigCtx :=
  { c with issuer := [], issuerVer := 0, issuerFpr := [], embedded := [] }

theorem ctxEvaluate_core (u out : SigCtx) : (ctxEvaluate u out).core = out.core := by
  unfold ctxEvaluate SigCtx.core
  simp only
  split_ifs <;> rfl

/-- shape of a successful `sigFields` -/
theorem sigFields_ok_shape (h u : List Subpacket) (f : AreaResult) (hf : sigFields h u = .ok f) :
    ∃ hr, sigFields h [] = .ok hr ∧
      ((u = [] ∧ f = hr) ∨
       (u ≠ [] ∧ ∃ ur, parseSubs u ⟨2, scratchCtx, [], [], []⟩ = some ur ∧
          f = { hr with ctx := ctxEvaluate ur.ctx hr.ctx,
                        embeddedsigs := hr.embeddedsigs ++ ur.embeddedsigs })) := by
  unfold sigFields at hf ⊢
  generalize (if h = [] then some (⟨2, {}, [], [], []⟩ : AreaResult)
      else parseSubs h ⟨2, {}, [], [], []⟩) = hp at hf ⊢
  cases hp with
  | none => simp at hf
  | some hr =>
    simp only at hf ⊢
    by_cases hc : h ≠ [] ∧ hr.tag = 0xFA
    · rw [if_pos hc] at hf; simp at hf
    · rw [if_neg hc] at hf ⊢
      refine ⟨hr, by simp, ?_⟩
      by_cases hu : u = []
      · rw [if_pos hu] at hf
        left; exact ⟨hu, (SigParse.ok.inj hf).symm⟩
      · rw [if_neg hu] at hf
        right
        refine ⟨hu, ?_⟩
        cases hpu : parseSubs u ⟨2, scratchCtx, [], [], []⟩ with
        | none => rw [hpu] at hf; simp at hf
        | some ur =>
          rw [hpu] at hf
          exact ⟨ur, rfl, (SigParse.ok.inj hf).symm⟩

/-- whatever the unhashed area holds, every field but issuer / issuer fingerprint / embedded signatures
    is the one the hashed area alone gives -/
theorem unhashed_only_issuer (h u : List Subpacket) (f : AreaResult) (hf : sigFields h u = .ok f) :
    ∃ f0, sigFields h [] = .ok f0 ∧ f.ctx.core = f0.ctx.core ∧ f.tag = f0.tag ∧
      f.notations = f0.notations ∧ f.recipients = f0.recipients := by
  obtain ⟨hr, h0, hcase⟩ := sigFields_ok_shape h u f hf
  refine ⟨hr, h0, ?_⟩
  rcases hcase with ⟨_, rfl⟩ | ⟨_, ur, _, rfl⟩
  · exact ⟨rfl, rfl, rfl, rfl⟩
  · exact ⟨ctxEvaluate_core _ _, rfl, rfl, rfl⟩

theorem unhashed_irrelevant (h u1 u2 : List Subpacket) (f1 f2 : AreaResult)
    (h1 : sigFields h u1 = .ok f1) (h2 : sigFields h u2 = .ok f2) :
    f1.ctx.core = f2.ctx.core ∧ f1.tag = f2.tag ∧ f1.notations = f2.notations ∧
      f1.recipients = f2.recipients := by
  obtain ⟨a, ha, a1, a2, a3, a4⟩ := unhashed_only_issuer h u1 f1 h1
  obtain ⟨b, hb, b1, b2, b3, b4⟩ := unhashed_only_issuer h u2 f2 h2
  rw [ha] at hb
  obtain rfl := SigParse.ok.inj hb
  exact ⟨a1.trans b1.symm, a2.trans b2.symm, a3.trans b3.symm, a4.trans b4.symm⟩

theorem unhashed_irrelevant_valid (h u1 u2 : List Subpacket) (f1 f2 : AreaResult)
    (h1 : sigFields h u1 = .ok f1) (h2 : sigFields h u2 = .ok f2)
    (version type pkalgo hashalgo keycreation now : Nat) :
    sigValid version type pkalgo hashalgo f1.ctx keycreation now =
      sigValid version type pkalgo hashalgo f2.ctx keycreation now := by
  have hc := (unhashed_irrelevant h u1 u2 f1 f2 h1 h2).1
  have e1 : f1.ctx.core.creation = f2.ctx.core.creation := congrArg SigCtx.creation hc
  have e2 : f1.ctx.core.expiration = f2.ctx.core.expiration := congrArg SigCtx.expiration hc
  change f1.ctx.creation = f2.ctx.creation at e1
  change f1.ctx.expiration = f2.ctx.expiration at e2
  unfold sigValid sigOfCtx
  rw [e1, e2]

/-- the subpackets of an area that can reach the result from the unhashed side -/
def issuerSubs (l : List Subpacket) : List Subpacket :=
  l.filter (fun sp => sp.type = 16 ∨ sp.type = 33 ∨ sp.type = 32)

/-- what a subpacket does to issuer, issuer version, issuer fingerprint, embedded signature and the
    list of embedded signatures -/
def issuerStep (st : Bytes × Nat × Bytes × Bytes × List Bytes) (sp : Subpacket) :
    Bytes × Nat × Bytes × Bytes × List Bytes :=
  if sp.type = 16 then (sp.body, st.2.1, st.2.2.1, st.2.2.2.1, st.2.2.2.2)
  else if sp.type = 33 then
    if sp.body.headD 0 = 4 ∨ sp.body.headD 0 = 5 then
      (st.1, sp.body.headD 0, overwrite st.2.2.1 (sp.body.drop 1), st.2.2.2.1, st.2.2.2.2)
    else (st.1, sp.body.headD 0, st.2.2.1, st.2.2.2.1, st.2.2.2.2)
  else if sp.type = 32 then
    (st.1, st.2.1, st.2.2.1, sp.body, if sp.body ≠ [] then st.2.2.2.2 ++ [sp.body] else st.2.2.2.2)
  else st

def issuerProj (r : AreaResult) : Bytes × Nat × Bytes × Bytes × List Bytes :=
  (r.ctx.issuer, r.ctx.issuerVer, r.ctx.issuerFpr, r.ctx.embedded, r.embeddedsigs)

theorem applySub_issuer (c c' : SigCtx) (sp : Subpacket) (rec : Bool) (sigs : List Bytes)
    (h : applySub c sp = some (c', rec)) :
    (c'.issuer, c'.issuerVer, c'.issuerFpr, c'.embedded,
        if sp.type = 32 ∧ sp.body ≠ [] then sigs ++ [sp.body] else sigs) =
      issuerStep (c.issuer, c.issuerVer, c.issuerFpr, c.embedded, sigs) sp ∧
    (sp.type = 32 → rec = true) := by
  unfold applySub at h
  unfold issuerStep
  simp only at h
  split at h <;> rename_i ht <;> (try simp only [ht]) <;> (try split_ifs at h) <;>
    simp_all <;> (try (obtain ⟨rfl, _⟩ := h; simp))

theorem parseSubs_issuer (l : List Subpacket) : ∀ (r r' : AreaResult), parseSubs l r = some r' →
    issuerProj r' = l.foldl issuerStep (issuerProj r) := by
  induction l with
  | nil => intro r r' h; simp [parseSubs] at h; subst h; rfl
  | cons sp rest ih =>
    intro r r' h
    rw [parseSubs] at h
    cases happ : applySub r.ctx sp with
    | none => rw [happ] at h; simp at h
    | some p =>
      obtain ⟨c, rec⟩ := p
      rw [happ] at h
      obtain ⟨hA, hrec⟩ := applySub_issuer r.ctx c sp rec r.embeddedsigs happ
      simp only at h
      rw [List.foldl_cons]
      have key : ∀ r1 : AreaResult, parseSubs rest r1 = some r' →
          issuerProj r1 = issuerStep (issuerProj r) sp →
          issuerProj r' = List.foldl issuerStep (issuerStep (issuerProj r) sp) rest := by
        intro r1 h1 h2; rw [← h2]; exact ih r1 r' h1
      split_ifs at h <;> refine key _ h ?_ <;> simp_all [issuerProj]

theorem foldl_issuerSubs (l : List Subpacket) : ∀ st,
    l.foldl issuerStep st = (issuerSubs l).foldl issuerStep st := by
  induction l with
  | nil => intro st; rfl
  | cons sp rest ih =>
    intro st
    unfold issuerSubs
    rw [List.filter_cons]
    by_cases hp : sp.type = 16 ∨ sp.type = 33 ∨ sp.type = 32
    · simp only [hp, decide_true, if_true, List.foldl_cons]
      exact ih _
    · simp only [hp, decide_false, Bool.false_eq_true, if_false, List.foldl_cons]
      have : issuerStep st sp = st := by
        unfold issuerStep
        rw [not_or, not_or] at hp
        simp [hp.1, hp.2.1, hp.2.2]
      rw [this]
      exact ih _

/- The statement originally given here,
     theorem unhashed_agree (h u1 u2 : List Subpacket) (f1 f2 : AreaResult)
         (hagree : issuerSubs u1 = issuerSubs u2)
         (h1 : sigFields h u1 = .ok f1) (h2 : sigFields h u2 = .ok f2) : f1 = f2
   is FALSE (`unhashed_agree_counterexample`); `unhashed_agree'` adds `u1 = [] ↔ u2 = []`. -/

/-- the statement `unhashed_agree` (without a hypothesis on emptiness) is false: an empty unhashed
    area skips `ctxEvaluate`, a non-empty one without any issuer subpacket resets the version octet of
    an all-zero / unknown-version hashed issuer fingerprint -/
theorem unhashed_agree_counterexample :
    ∃ (h u1 u2 : List Subpacket) (f1 f2 : AreaResult), issuerSubs u1 = issuerSubs u2 ∧
      sigFields h u1 = .ok f1 ∧ sigFields h u2 = .ok f2 ∧ f1 ≠ f2 :=
  ⟨[⟨33, false, [6, 0]⟩], [], [⟨2, false, [0, 0, 0, 0]⟩], _, _, by decide, rfl, rfl, by decide⟩

/-- two unhashed areas that agree on the subpackets of types 16, 33 and 32 (and are both empty or both
    non-empty) give the same result in every field -/
theorem unhashed_agree' (h u1 u2 : List Subpacket) (f1 f2 : AreaResult)
    (hagree : issuerSubs u1 = issuerSubs u2) (hempty : u1 = [] ↔ u2 = [])
    (h1 : sigFields h u1 = .ok f1) (h2 : sigFields h u2 = .ok f2) : f1 = f2 := by
  obtain ⟨a, ha, ca⟩ := sigFields_ok_shape h u1 f1 h1
  obtain ⟨b, hb, cb⟩ := sigFields_ok_shape h u2 f2 h2
  rw [ha] at hb
  obtain rfl := SigParse.ok.inj hb
  rcases ca with ⟨e1, rfl⟩ | ⟨n1, r1, p1, rfl⟩
  · rcases cb with ⟨_, rfl⟩ | ⟨n2, _⟩
    · rfl
    · exact absurd (hempty.1 e1) n2
  · rcases cb with ⟨e2, _⟩ | ⟨n2, r2, p2, rfl⟩
    · exact absurd (hempty.2 e2) n1
    · have q1 := parseSubs_issuer u1 _ _ p1
      have q2 := parseSubs_issuer u2 _ _ p2
      rw [foldl_issuerSubs] at q1 q2
      rw [hagree, ← q2] at q1
      simp only [issuerProj, Prod.mk.injEq] at q1
      obtain ⟨e1, e2, e3, e4, e5⟩ := q1
      unfold ctxEvaluate
      simp only [e1, e2, e3, e4, e5]

/-- **the hashed area wins**: an issuer key ID set there is not overridden -/
theorem hashed_wins_issuer (h u : List Subpacket) (f f0 : AreaResult)
    (hf : sigFields h u = .ok f) (h0 : sigFields h [] = .ok f0) (hset : allZero f0.ctx.issuer = false) :
    f.ctx.issuer = f0.ctx.issuer := by
  obtain ⟨a, ha, ca⟩ := sigFields_ok_shape h u f hf
  rw [ha] at h0
  obtain rfl := SigParse.ok.inj h0
  rcases ca with ⟨_, rfl⟩ | ⟨_, r, _, rfl⟩
  · rfl
  · unfold ctxEvaluate
    simp only [hset, Bool.false_eq_true, if_false]
    split_ifs <;> rfl

theorem hashed_wins_fingerprint (h u : List Subpacket) (f f0 : AreaResult)
    (hf : sigFields h u = .ok f) (h0 : sigFields h [] = .ok f0) (hset : allZero f0.ctx.issuerFpr = false) :
    f.ctx.issuerFpr = f0.ctx.issuerFpr ∧ f.ctx.issuerVer = f0.ctx.issuerVer := by
  obtain ⟨a, ha, ca⟩ := sigFields_ok_shape h u f hf
  rw [ha] at h0
  obtain rfl := SigParse.ok.inj h0
  rcases ca with ⟨_, rfl⟩ | ⟨_, r, _, rfl⟩
  · exact ⟨rfl, rfl⟩
  · unfold ctxEvaluate
    simp only
    split_ifs <;> simp_all

theorem hashed_wins_embedded (h u : List Subpacket) (f f0 : AreaResult)
    (hf : sigFields h u = .ok f) (h0 : sigFields h [] = .ok f0) (hset : f0.ctx.embedded ≠ []) :
    f.ctx.embedded = f0.ctx.embedded := by
  obtain ⟨a, ha, ca⟩ := sigFields_ok_shape h u f hf
  rw [ha] at h0
  obtain rfl := SigParse.ok.inj h0
  rcases ca with ⟨_, rfl⟩ | ⟨_, r, _, rfl⟩
  · rfl
  · unfold ctxEvaluate
    simp only
    split_ifs <;> simp_all

def exHashed : List Subpacket := [⟨2, false, [95, 94, 16, 0]⟩, ⟨3, false, [0, 0, 1, 244]⟩]
def exUnhashed : List Subpacket :=
  [⟨2, false, [95, 94, 32, 0]⟩, ⟨3, false, [0, 0, 0, 0]⟩, ⟨27, false, [255]⟩, ⟨9, false, [0, 0, 0, 1]⟩,
   ⟨16, false, [1, 2, 3, 4, 5, 6, 7, 8]⟩]

theorem example_unhashed_ignored :
    ∃ f, sigFields exHashed exUnhashed = .ok f ∧ f.ctx.creation = 1600000000 ∧ f.ctx.expiration = 500 ∧
      f.ctx.keyflags = [] ∧ f.ctx.keyexpiration = 0 ∧ f.ctx.issuer = [1, 2, 3, 4, 5, 6, 7, 8] ∧
      sigValid 4 0 1 8 f.ctx 1500000000 1600001000 = false ∧
      sigValid 4 0 1 8 f.ctx 1500000000 1600000100 = true := by
  refine ⟨_, rfl, ?_, ?_, ?_, ?_, ?_, ?_, ?_⟩ <;> decide

/-- non-vacuity of `hashed_wins_issuer`: both areas name an issuer, the hashed one stays -/
theorem example_hashed_wins :
    ∃ f, sigFields (exHashed ++ [⟨16, false, [9, 9, 9, 9, 9, 9, 9, 9]⟩]) exUnhashed = .ok f ∧
      f.ctx.issuer = [9, 9, 9, 9, 9, 9, 9, 9] := by
  refine ⟨_, rfl, ?_⟩
  decide

end Tmcg.PgpMsg
