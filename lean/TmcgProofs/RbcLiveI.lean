import TmcgProofs.RbcLiveH
/-
  C14 liveness, part I: the r-request / r-answer path.
-/
namespace Tmcg.Rbc
variable {H : Int → Int} {T : Tag → Int} {c : Cfg}

def reqMsg (τ : Tag) (d : Int) : Msg := ⟨τ.id, τ.sender, τ.seq, rRequest, d⟩
def ansMsg (τ : Tag) (v : Int) : Msg := ⟨τ.id, τ.sender, τ.seq, rAnswer, v⟩

/-- what one `dispatch` sends with action r-request / r-answer, and how the two filters and the
    awaited list change -/
theorem DispL.req_ans {q : Party} {l : Nat} {msg : Msg} {q' : Party} {s : Sent} {o : Outcome}
    (h : DispL H T q l msg q' s o) :
    -- (1) r-requests are sent only when the tag becomes awaited
    ((∀ x ∈ s, x.2.action ≠ rRequest) ∨
      (msg.action = rReady ∧ WF q msg ∧ s = reqList q msg ∧ msg.tag ∈ q'.awaited ∧
        aGet q'.dbar msg.tag = some msg.payload ∧
        cnt q.rD (msg.tag, msg.payload) + 1 = 2 * q.t + 1 ∧
        q'.request = q.request ∧ q'.answer = q.answer)) ∧
    -- (2) r-answers are sent only for a new r-request, with the stored payload
    ((∀ x ∈ s, x.2.action ≠ rAnswer) ∨
      (∃ mb, msg.action = rRequest ∧ aGet q.mbar msg.tag = some mb ∧
        s = [(l, mkMsg msg rAnswer mb)] ∧ fHas q'.request l msg.tag = true)) ∧
    -- (3) the request filter
    (q'.request = q.request ∨
      (q'.request = fIns q.request l msg.tag ∧ msg.action = rRequest ∧
        fHas q.request l msg.tag = false ∧
        ((∃ mb, aGet q.mbar msg.tag = some mb ∧ s = [(l, mkMsg msg rAnswer mb)]) ∨
         aGet q.mbar msg.tag = none))) ∧
    -- (4) the answer filter
    (q'.answer = q.answer ∨
      (q'.answer = fIns q.answer l msg.tag ∧ msg.action = rAnswer ∧
        ((aGet q.dbar msg.tag = none ∨ q.awaited.contains msg.tag = false ∨
          ∃ db, aGet q.dbar msg.tag = some db ∧ H msg.payload ≠ db) ∨
         q'.awaited = q.awaited.erase msg.tag))) ∧
    -- (5) new awaited tags
    (∀ τ, τ ∈ q'.awaited → τ ∈ q.awaited ∨ (τ = msg.tag ∧ s = reqList q msg ∧ msg.action = rReady)) := by
  have nil1 : ∀ (a : Int) , ∀ x ∈ ([] : Sent), x.2.action ≠ a := by intro a x hx; cases hx
  have all1 : ∀ (m : Msg) (a : Int), m.action ≠ a → ∀ x ∈ sendAll q.n m, x.2.action ≠ a := by
    intro m a hm x hx; rw [(mem_sendAll_iff.1 hx).2]; exact hm
  cases h with
  | drop => exact ⟨Or.inl (nil1 _), Or.inl (nil1 _), Or.inl rfl, Or.inl rfl, fun τ h => Or.inl h⟩
  | markSend => exact ⟨Or.inl (nil1 _), Or.inl (nil1 _), Or.inl rfl, Or.inl rfl, fun τ h => Or.inl h⟩
  | echoNew =>
    exact ⟨Or.inl (all1 _ _ (by actdec)), Or.inl (all1 _ _ (by actdec)), Or.inl rfl, Or.inl rfl,
      fun τ h => Or.inl h⟩
  | echoOld =>
    exact ⟨Or.inl (all1 _ _ (by actdec)), Or.inl (all1 _ _ (by actdec)), Or.inl rfl, Or.inl rfl,
      fun τ h => Or.inl h⟩
  | markEcho => exact ⟨Or.inl (nil1 _), Or.inl (nil1 _), Or.inl rfl, Or.inl rfl, fun τ h => Or.inl h⟩
  | echoCount =>
    refine ⟨Or.inl ?_, Or.inl ?_, Or.inl rfl, Or.inl rfl, fun τ h => Or.inl h⟩ <;> split_ifs
    · exact all1 _ _ (by actdec)
    · exact nil1 _
    · exact all1 _ _ (by actdec)
    · exact nil1 _
  | markReady => exact ⟨Or.inl (nil1 _), Or.inl (nil1 _), Or.inl rfl, Or.inl rfl, fun τ h => Or.inl h⟩
  | readyCount =>
    refine ⟨Or.inl ?_, Or.inl ?_, Or.inl rfl, Or.inl rfl, fun τ h => Or.inl h⟩ <;> split_ifs
    · exact all1 _ _ (by actdec)
    · exact nil1 _
    · exact all1 _ _ (by actdec)
    · exact nil1 _
  | readyReq wf hact hnew hlen hamp hr p3 hd hfoo =>
    have hin : msg.tag ∈ (if q.awaited.contains msg.tag then q.awaited
        else msg.tag :: q.awaited) := by
      split_ifs with hc
      · simpa using hc
      · exact List.mem_cons_self
    have hdb : aGet p3.dbar msg.tag = some msg.payload := by
      rcases hd with ⟨_, rfl⟩ | ⟨h, rfl⟩
      · exact aGet_aSet_self _ _ _
      · exact h
    have hrq : p3.request = q.request := by rcases hd with ⟨_, rfl⟩ | ⟨_, rfl⟩ <;> rfl
    have han : p3.answer = q.answer := by rcases hd with ⟨_, rfl⟩ | ⟨_, rfl⟩ <;> rfl
    refine ⟨Or.inr ⟨hact, wf, rfl, hin, hdb, hr, hrq, han⟩, Or.inl ?_, Or.inl hrq, Or.inl han, ?_⟩
    · intro x hx
      unfold reqList at hx
      obtain ⟨i, _, rfl⟩ := List.mem_map.1 hx
      actdec
    · intro τ h
      have h' : τ ∈ (if q.awaited.contains msg.tag then q.awaited else msg.tag :: q.awaited) := h
      split_ifs at h'
      · exact Or.inl h'
      · rcases List.mem_cons.1 h' with rfl | h''
        · exact Or.inr ⟨rfl, rfl, hact⟩
        · exact Or.inl h''
  | readyDeliver wf hact hnew hlen hamp hr p3 hd hfoo =>
    have hrq : p3.request = q.request := by rcases hd with ⟨_, rfl⟩ | ⟨_, rfl⟩ <;> rfl
    have han : p3.answer = q.answer := by rcases hd with ⟨_, rfl⟩ | ⟨_, rfl⟩ <;> rfl
    have haw : p3.awaited = q.awaited := by rcases hd with ⟨_, rfl⟩ | ⟨_, rfl⟩ <;> rfl
    rw [dob_sent_nil, (dob_same p3 msg []).request, (dob_same p3 msg []).answer,
      (dob_same p3 msg []).awaited, hrq, han, haw]
    exact ⟨Or.inl (nil1 _), Or.inl (nil1 _), Or.inl rfl, Or.inl rfl, fun τ h => Or.inl h⟩
  | reqAnswer wf hact hnew mb hm =>
    refine ⟨Or.inl ?_, Or.inr ⟨mb, hact, hm, rfl, fHas_fIns_self _ _ _⟩,
      Or.inr ⟨rfl, hact, hnew, Or.inl ⟨mb, hm, rfl⟩⟩,
      Or.inl rfl, fun τ h => Or.inl h⟩
    intro x hx
    rw [List.mem_singleton] at hx; subst hx
    actdec
  | markReq wf hact hnew hm =>
    exact ⟨Or.inl (nil1 _), Or.inl (nil1 _), Or.inr ⟨rfl, hact, hnew, Or.inr hm⟩, Or.inl rfl,
      fun τ h => Or.inl h⟩
  | markAns wf hact hnew hbad =>
    exact ⟨Or.inl (nil1 _), Or.inl (nil1 _), Or.inl rfl, Or.inr ⟨rfl, hact, Or.inl hbad⟩,
      fun τ h => Or.inl h⟩
  | answerDeliver wf hact hnew db hd haw hh =>
    rw [dob_sent_nil, (dob_same _ msg []).request, (dob_same _ msg []).answer,
      (dob_same _ msg []).awaited]
    refine ⟨Or.inl (nil1 _), Or.inl (nil1 _), Or.inl rfl, Or.inr ⟨rfl, hact, Or.inr rfl⟩, ?_⟩
    intro τ h
    exact Or.inl (List.mem_of_mem_erase h)
  | retrieve wf hact x hx =>
    have : ∀ a : Int, a ≠ lFail → a ≠ lDeliver → ∀ y ∈ [(l, x)], y.2.action ≠ a := by
      intro a h1 h2 y hy
      rw [List.mem_singleton] at hy; subst hy
      rcases hx with hx | ⟨mb, rfl, _⟩
      · show x.action ≠ a
        rw [hx]; exact Ne.symm h1
      · exact Ne.symm h2
    exact ⟨Or.inl (this _ (by decide) (by decide)), Or.inl (this _ (by decide) (by decide)),
      Or.inl rfl, Or.inl rfl, fun τ h => Or.inl h⟩
  | ldelMark => exact ⟨Or.inl (nil1 _), Or.inl (nil1 _), Or.inl rfl, Or.inl rfl, fun τ h => Or.inl h⟩
  | ldelDeliver =>
    rw [dob_sent_nil, (dob_same _ msg []).request, (dob_same _ msg []).answer,
      (dob_same _ msg []).awaited]
    exact ⟨Or.inl (nil1 _), Or.inl (nil1 _), Or.inl rfl, Or.inl rfl, fun τ h => Or.inl h⟩

theorem micro_fmono {s s' : Sys} (hm : Micro H T c s s') (j : Nat) : FMono (s.st j) (s'.st j) := by
  have same : ∀ (i : Nat) (q' : Party), FMono (s.st i) q' → FMono (s.st j) (upd s.st i q' j) := by
    intro i q' h
    by_cases hji : j = i
    · subst hji; rw [upd_same]; exact h
    · rw [upd_ne _ _ _ _ hji]; exact FMono.refl _
  cases hm with
  | hk i hi R s0 hff hR hs0 => exact same i _ (FSame.mono ⟨rfl, rfl, rfl, rfl, rfl⟩)
  | bufDel i hi e rest m' hff hm' => exact same i _ (FSame.mono ⟨rfl, rfl, rfl, rfl, rfl⟩)
  | bcast i hi v rnd => exact same i _ (FSame.mono ⟨rfl, rfl, rfl, rfl, rfl⟩)
  | disp i hi l msg hl hin q' sd o hD => exact same i q' hD.fmono

/-- what the log gains in a micro-step -/
theorem micro_newlog {s s' : Sys} (hm : Micro H T c s s') {k dst : Nat} {m : Msg}
    (h : (k, dst, m) ∈ s'.log) :
    (k, dst, m) ∈ s.log ∨ m.action = lRetrieve ∨ m.action = rSend ∨
    (∃ l msg q' sd o, c.honest k ∧ DispL H T (s.st k) l msg q' sd o ∧ (dst, m) ∈ sd ∧
      s'.st = upd s.st k q' ∧ l < c.n ∧ (l ∈ c.byz ∨ (l, k, msg) ∈ s.log)) := by
  cases hm with
  | hk i hi R s0 hff hR hs0 =>
    rcases List.mem_append.1 h with h | h
    · exact Or.inl h
    · exact Or.inr (Or.inl (hs0 _ (mem_tagMsgs.1 h).2))
  | bufDel i hi e rest m' hff hm' => exact Or.inl h
  | bcast i hi v rnd =>
    rcases List.mem_append.1 h with h | h
    · exact Or.inl h
    · obtain ⟨_, h2⟩ := mem_tagMsgs.1 h
      rw [broadcast_snd] at h2
      have := (mem_sendAll_iff.1 h2).2
      simp only at this
      right; right; left; rw [this]; rfl
  | disp i hi l msg hl hin q' sd o hD =>
    rcases List.mem_append.1 h with h | h
    · exact Or.inl h
    · obtain ⟨rfl, h2⟩ := mem_tagMsgs.1 h
      exact Or.inr (Or.inr (Or.inr ⟨l, msg, q', sd, o, hi, hD, h2, rfl, hl, hin⟩))

/-- an r-request of an honest party carries its fixed digest -/
def ReqDbar (c : Cfg) (s : Sys) : Prop :=
  ∀ i, c.honest i → ∀ dst m, (i, dst, m) ∈ s.log → m.action = rRequest →
    aGet (s.st i).dbar m.tag = some m.payload

theorem reqDbar_step {s s' : Sys} (hm : Micro H T c s s') (ih : ReqDbar c s) : ReqDbar c s' := by
  intro i hi dst m hlog ha
  rcases micro_newlog hm hlog with h | h | h | ⟨l, msg, q', sd, o, _, hD, hin, hst, _⟩
  · exact dbar_keeps hm (ih i hi dst m h ha)
  · rw [ha] at h; exact absurd h (by decide)
  · rw [ha] at h; exact absurd h (by decide)
  · rw [hst, upd_same]
    rcases hD.req_ans.1 with hno | ⟨_, _, hsd, _, hdb, _⟩
    · exact absurd ha (hno _ hin)
    · rw [hsd] at hin
      unfold reqList at hin
      obtain ⟨x, _, hx⟩ := List.mem_map.1 hin
      simp only [Prod.mk.injEq] at hx
      rw [← hx.2]; exact hdb

/-- an r-answer is only sent to a link whose r-request was consumed -/
def AnsReq (c : Cfg) (s : Sys) : Prop :=
  ∀ j, c.honest j → ∀ i m, (j, i, m) ∈ s.log → m.action = rAnswer →
    fHas (s.st j).request i m.tag = true

theorem ansReq_step {s s' : Sys} (hm : Micro H T c s s') (ih : AnsReq c s) : AnsReq c s' := by
  intro j hj i m hlog ha
  rcases micro_newlog hm hlog with h | h | h | ⟨l, msg, q', sd, o, _, hD, hin, hst, _⟩
  · exact (micro_fmono hm j).request _ _ (ih j hj i m h ha)
  · rw [ha] at h; exact absurd h (by decide)
  · rw [ha] at h; exact absurd h (by decide)
  · rw [hst, upd_same]
    rcases hD.req_ans.2.1 with hno | ⟨mb, _, _, hsd, hfl⟩
    · exact absurd ha (hno _ hin)
    · rw [hsd, List.mem_singleton] at hin
      simp only [Prod.mk.injEq] at hin
      rw [hin.1, hin.2]; exact hfl

/-- an echo quorum contains an honest party among the parties `0 .. 2t` (those asked by r-request) -/
theorem quorum_pick (hy : Hyp H c) (S : Finset Nat) (hS : S ⊆ Finset.range c.n)
    (hc : c.n - c.t ≤ S.card) : ∃ j ∈ S, j < 2 * c.t + 1 ∧ j ∉ c.byz := by
  have hn := hy.hn
  have hb := hy.hb
  have hQ : Finset.range (2 * c.t + 1) ⊆ Finset.range c.n := by
    intro x hx
    rw [Finset.mem_range] at hx ⊢
    omega
  have h1 := Finset.card_union_add_card_inter S (Finset.range (2 * c.t + 1))
  have h2 : (S ∪ Finset.range (2 * c.t + 1)).card ≤ c.n := by
    have := Finset.card_le_card (Finset.union_subset hS hQ)
    simpa using this
  have h3 : c.byz.card < (S ∩ Finset.range (2 * c.t + 1)).card := by
    rw [Finset.card_range] at h1
    omega
  obtain ⟨j, hj, hjb⟩ := exists_honest_of_card (c := c) _ h3
  obtain ⟨hj1, hj2⟩ := Finset.mem_inter.1 hj
  exact ⟨j, hj1, Finset.mem_range.1 hj2, hjb⟩

/-- the witness for an awaited tag `τ` of party `i`: an honest party `j` among `0 .. 2t` that
    echoed the agreed digest before the r-request was sent, has been sent the r-request, answers
    (only) with a matching payload, and whose answer has not yet been consumed by `i` -/
structure ReqW (H : Int → Int) (c : Cfg) (s : Sys) (i : Nat) (τ : Tag) (j : Nat) (d : Int) : Prop where
  jle : j < 2 * c.t + 1
  jh : c.honest j
  wf : 0 ≤ τ.sender ∧ τ.sender ≤ (c.n : Int) - 1 ∧ 1 ≤ τ.seq
  dbar : aGet (s.st i).dbar τ = some d
  echo : ∃ dst, (j, dst, echoMsg τ d) ∈ s.log
  req : (i, j, reqMsg τ d) ∈ s.log
  ans : fHas (s.st j).request i τ = true → ∃ v, H v = d ∧ (j, i, ansMsg τ v) ∈ s.log
  ansOk : ∀ m, (j, i, m) ∈ s.log → m.action = rAnswer → m.tag = τ → H m.payload = d
  noAns : fHas (s.st i).answer j τ = false

def ReqAns (H : Int → Int) (c : Cfg) (s : Sys) : Prop :=
  ∀ i, c.honest i → ∀ τ, τ ∈ (s.st i).awaited → τ.id = c.ID → ∃ j d, ReqW H c s i τ j d

/-- the payload an echoing party holds hashes to the agreed digest -/
theorem echo_holds (hy : Hyp H c) {s : Sys} (hI : Inv H c s) (hE : EchoHold H c s)
    {i j : Nat} (hi : c.honest i) (hj : c.honest j) {τ : Tag} {d : Int} (hid : τ.id = c.ID)
    (hdb : aGet (s.st i).dbar τ = some d) {dst : Nat} (hecho : (j, dst, echoMsg τ d) ∈ s.log) :
    ∃ v, aGet (s.st j).mbar τ = some v ∧ H v = d := by
  obtain ⟨v, hv, hor⟩ := hE j hj dst (echoMsg τ d) hecho rfl hid
  refine ⟨v, hv, ?_⟩
  rcases hor with h | h
  · exact h
  · exact EQ.unique hy hI h ((hI.parties i hi).dbarEQ τ d hdb)

end Tmcg.Rbc
