import Tmcg.Model.Ot
import TmcgProofs.Group
import TmcgProofs.SigmaComplete
import Mathlib.Tactic.NormNum.Prime
/-
  C18: oblivious transfer (`Tmcg.Ot`, model of src/NaorPinkasEOTP.cc).  All statements are under
  `Grp.ValidGroup G`, an instance as the constructor builds it (`InstOk`), coins in `[0, q)`
  (`InQ`), messages members of the order-`q` subgroup (`Mem`).

  Honest runs are written as the three calls the harness makes: the chooser without a reply (it
  writes its first move `first` and the stream operator throws), the sender on `first`, the chooser
  with the same coins on the sender's reply.

  * `ot12_correct`, `ot1N_correct`, `ot1N_opt_correct`
        the chooser outputs `M_σ`.  The optimised variant: for ALL coins (and every `σ` whose bit
        length does not exceed that of `q`, e.g. `σ < q`: `bitlen_of_lt_q`).  The other two: for all
        coins for which the exponents `c_i` (with `c_σ = ab mod q`) are pairwise distinct; on the
        remaining coins the sender refuses the HONEST chooser's query because two `z_i` coincide
        (`ot12_collision`, `ot1N_collision`) — a completeness gap of probability `1/q` resp.
        `≤ N²/2q`, inherent in the protocol.
  * `sender_aborts_on_bad_query` (`send12_aborts`, `send1N_aborts`, `sendOpt_aborts`)
        non-member among `x, y, z_i` or coinciding `z_i`: `false`, nothing written, no coin drawn;
        `send*_missing`: missing / unparsable line: `runtime_error`, nothing written;
        `send1N_silent`, `sendOpt_silent`: nothing is written unless `true` is returned.
  * `unchosen_not_decrypted` (`ot12_unchosen`, `ot1N_unchosen`, `otOpt_unchosen`)
        from ciphertext `i ≠ σ` the chooser's own computation yields `M_i · g^{(c_i - ab)·s_i}`
        (`c_i - ab = i - σ` in the optimised variant); it equals `M_i` iff
        `(c_i - ab)·s_i ≡ 0 (mod q)`.
  * non-vacuity on `p = 23, q = 11, g = 2` at the end of the file.
-/
namespace Tmcg.OtProofs
open Tmcg Tmcg.Powm Tmcg.Vtmf Tmcg.Grp Tmcg.Sigma Tmcg.SigmaComplete Tmcg.Ot

variable {G : Group}

/-- an instance over `G` as the constructor builds it -/
structure InstOk (G : Group) (I : Inst) : Prop where
  grp : I.G = G
  tab : IsTable G I.tab G.g

/-- a drawn coin: `tmcg_mpz_srandomm(·, q)` returns a value in `[0, q)` -/
def InQ (G : Group) (c : Int) : Prop := 0 ≤ c ∧ c < G.q

theorem mkInst_ok (hG : ValidGroup G) : ∃ I, mkInst G = .ok I ∧ InstOk G I := by
  obtain ⟨T, hT⟩ := precompute_ok G.g G.p (tableLen G) (ne_of_gt hG.p_pos)
  refine ⟨⟨G, T⟩, ?_, rfl, hT⟩
  unfold mkInst
  unfold tableLen at hT
  rw [hT]; rfl

section
variable [Fact (Nat.Prime G.p.natAbs)]
set_option linter.unusedVariables false
set_option linter.unusedSectionVars false

theorem checkElement_eq (hG : ValidGroup G) {I : Inst} (hI : InstOk G I) (a : Int) :
    Ot.checkElement I a = true ↔ Mem G a := by
  unfold Ot.checkElement
  rw [hI.grp]
  exact checkElement_iff hG a

theorem checkElement_false (hG : ValidGroup G) {I : Inst} (hI : InstOk G I) {a : Int}
    (h : ¬ Mem G a) : Ot.checkElement I a = false := by
  rcases hc : Ot.checkElement I a with _ | _
  · rfl
  · exact absurd ((checkElement_eq hG hI a).mp hc) h

theorem InQ.natAbs_lt (hG : ValidGroup G) {c : Int} (h : InQ G c) : c.natAbs < G.q.natAbs := by
  have := h.1; have := h.2; omega

theorem inQ_emod (hG : ValidGroup G) (e : Int) : InQ G (e % G.q) :=
  ⟨Int.emod_nonneg _ (ne_of_gt hG.q_pos), Int.emod_lt_of_pos _ hG.q_pos⟩

theorem g_ne (hG : ValidGroup G) : toF G G.g ≠ 0 := g_ne_zero hG

/-- `g^e` is a member of the subgroup -/
theorem gpow_q (hG : ValidGroup G) (e : Int) : (toF G G.g ^ e) ^ G.q.natAbs = 1 :=
  zpow_pow_q (g_pow_q hG) e

/-- the fixed-base routine on the instance table, exponent in `[0, q)` -/
theorem gpow_val (hG : ValidGroup G) {I : Inst} (hI : InstOk G I) (e : Int) (he : InQ G e) :
    ∃ r, fspowm I.tab I.G.g e I.G.p = .ok r ∧ Mem G r ∧ toF G r = toF G G.g ^ e := by
  rw [hI.grp]
  obtain ⟨r, hr, h0, h1, hv⟩ := fspowm_val hG I.tab G.g e hI.tab (g_ne hG) (he.natAbs_lt hG)
  exact ⟨r, hr, mem_of_val h0 h1 hv (zpow_ne_zero _ (g_ne hG)) (gpow_q hG e), hv⟩

/-- exponents only matter modulo `q` -/
theorem gpow_emod (hG : ValidGroup G) (e : Int) : toF G G.g ^ (e % G.q) = toF G G.g ^ e :=
  zpow_mod_q hG _ (g_pow_q hG) (g_ne hG) e


theorem gpow_inj (hG : ValidGroup G) {e e' : Int} (he : InQ G e) (he' : InQ G e')
    (h : toF G G.g ^ e = toF G G.g ^ e') : e = e' := by
  have h1 : e = ((e.toNat : Nat) : Int) := (Int.toNat_of_nonneg he.1).symm
  have h2 : e' = ((e'.toNat : Nat) : Int) := (Int.toNat_of_nonneg he'.1).symm
  rw [h1, h2, zpow_natCast, zpow_natCast] at h
  have hq := hG.q_pos
  have := g_pow_inj hG (t := e.toNat) (t' := e'.toNat) (by have := he.2; omega) (by have := he'.2; omega) h
  omega

theorem mem_of_gpow (hG : ValidGroup G) {z : Int} (h0 : 0 ≤ z) (h1 : z < G.p) {e : Int}
    (hv : toF G z = toF G G.g ^ e) : Mem G z :=
  mem_of_val h0 h1 hv (zpow_ne_zero _ (g_ne hG)) (gpow_q hG e)

/-! ### the sender's ciphertext and the chooser's decryption -/

theorem encOne_val (hG : ValidGroup G) {I : Inst} (hI : InstOk G I) {x y z : Int} (M s r : Int)
    (hx : Mem G x) (hy : Mem G y) (hz : Mem G z) (hr : InQ G r) :
    ∃ w e, encOne I x y z M s r = .ok (w, e) ∧ Mem G w ∧ (0 ≤ e ∧ e < G.p) ∧
      toF G w = toF G x ^ s * toF G G.g ^ r ∧
      toF G e = toF G z ^ s * toF G y ^ r * toF G M := by
  obtain ⟨f1, hf1, -, -, v1⟩ := spowm_val hG x s (hx.ne_zero hG)
  obtain ⟨f2, hf2, m2, v2⟩ := gpow_val hG hI r hr
  obtain ⟨f3, hf3, -, -, v3⟩ := spowm_val hG z s (hz.ne_zero hG)
  obtain ⟨f4, hf4, -, -, v4⟩ := spowm_val hG y r (hy.ne_zero hG)
  obtain ⟨w0, w1, wv⟩ := mulmod_val hG f1 f2
  obtain ⟨k0, k1, kv⟩ := mulmod_val hG f3 f4
  obtain ⟨e0, e1, ev⟩ := mulmod_val hG (f3 * f4 % G.p) M
  rw [hI.grp] at hf2
  refine ⟨f1 * f2 % G.p, (f3 * f4 % G.p) * M % G.p, ?_, ?_, ⟨e0, e1⟩, ?_, ?_⟩
  · simp [encOne, hI.grp, bind, Except.bind, hf1, hf2, hf3, hf4]
  · rw [v1, v2] at wv
    refine mem_of_val w0 w1 wv (mul_ne_zero (zpow_ne_zero _ (hx.ne_zero hG)) (zpow_ne_zero _ (g_ne hG))) ?_
    rw [mul_pow, zpow_pow_q hx.2.2, gpow_q hG, one_mul]
  · rw [wv, v1, v2]
  · rw [ev, kv, v3, v4]

theorem decrypt_val (hG : ValidGroup G) {I : Inst} (hI : InstOk G I) (b w e : Int)
    (hw : toF G w ≠ 0) :
    ∃ m, decrypt I b w e = .ok (some m) ∧ (0 ≤ m ∧ m < G.p) ∧
      toF G m = toF G e * (toF G w ^ b)⁻¹ := by
  obtain ⟨foo, hfoo, -, -, vfoo⟩ := mpzPowm_val hG w b hw
  have hfoo0 : toF G foo ≠ 0 := by rw [vfoo]; exact zpow_ne_zero _ hw
  obtain ⟨bar, hbar, -, -, vbar⟩ := invm_val hG foo hfoo0
  obtain ⟨m0, m1, mv⟩ := mulmod_val hG e bar
  refine ⟨e * bar % G.p, ?_, ⟨m0, m1⟩, ?_⟩
  · simp [decrypt, hI.grp, bind, Except.bind, hfoo, hbar]
  · rw [mv, vbar, vfoo]

/-- the algebra of one transfer: with `x = g^a`, `y = g^b`, `z = g^c` the chooser's computation
    on `(w, ENC) = (x^s g^r, z^s y^r M)` gives `M · g^{(c - ab)·s}` -/
theorem transfer_alg (hG : ValidGroup G) (a b c s r : Int) (μ : F G) :
    ((toF G G.g ^ c) ^ s * (toF G G.g ^ b) ^ r * μ) *
      (((toF G G.g ^ a) ^ s * toF G G.g ^ r) ^ b)⁻¹ = μ * toF G G.g ^ ((c - a * b) * s) := by
  have hγ := g_ne hG
  have key : toF G G.g ^ (c * s) * toF G G.g ^ (b * r) * toF G G.g ^ (-((a * s + r) * b)) =
      toF G G.g ^ ((c - a * b) * s) := by
    rw [← zpow_add₀ hγ, ← zpow_add₀ hγ]; congr 1; ring
  have e1 : ((toF G G.g ^ a) ^ s * toF G G.g ^ r) ^ b = toF G G.g ^ ((a * s + r) * b) := by
    rw [← zpow_mul, ← zpow_add₀ hγ, ← zpow_mul]
  rw [e1, ← zpow_neg, ← zpow_mul, ← zpow_mul, ← key]
  ring

/-- encrypt with the sender's routine, decrypt with the chooser's -/
theorem enc_decrypt (hG : ValidGroup G) {I : Inst} (hI : InstOk G I) {x y z : Int} (a b c M s r : Int)
    (hx : Mem G x) (hy : Mem G y) (hz : Mem G z) (hr : InQ G r)
    (vx : toF G x = toF G G.g ^ a) (vy : toF G y = toF G G.g ^ b) (vz : toF G z = toF G G.g ^ c) :
    ∃ w e m, encOne I x y z M s r = .ok (w, e) ∧ Mem G w ∧ decrypt I b w e = .ok (some m) ∧
      (0 ≤ m ∧ m < G.p) ∧ toF G m = toF G M * toF G G.g ^ ((c - a * b) * s) := by
  obtain ⟨w, e, henc, hw, -, vw, ve⟩ := encOne_val hG hI M s r hx hy hz hr
  obtain ⟨m, hdec, hm, vm⟩ := decrypt_val hG hI b w e (hw.ne_zero hG)
  refine ⟨w, e, m, henc, hw, hdec, hm, ?_⟩
  rw [vm, ve, vw, vx, vy, vz]
  exact transfer_alg hG a b c s r _

/-- the decrypted value is the message exactly when the blinding exponent vanishes mod `q` -/
theorem eq_iff_exc (hG : ValidGroup G) {M m : Int} (hM : Mem G M) (hm : 0 ≤ m ∧ m < G.p) (k : Int)
    (hv : toF G m = toF G M * toF G G.g ^ k) : m = M ↔ k % G.q = 0 := by
  have h1 : m = M ↔ toF G m = toF G M :=
    ⟨fun h => by rw [h], fun h => eq_of_toF_eq hG hm ⟨hM.1.le, hM.2.1⟩ h⟩
  rw [h1, hv, mul_eq_left₀ (hM.ne_zero hG)]
  constructor
  · intro h
    have : toF G G.g ^ (k % G.q) = toF G G.g ^ (0 : Int) := by rw [gpow_emod hG, h, zpow_zero]
    exact gpow_inj hG (inQ_emod hG k) ⟨le_refl 0, hG.q_pos⟩ this
  · intro h
    rw [← gpow_emod hG, h, zpow_zero]

/-- … in particular when the exponent is `≡ 0`: the message itself -/
theorem eq_of_exc (hG : ValidGroup G) {M m : Int} (hM : Mem G M) (hm : 0 ≤ m ∧ m < G.p) (k : Int)
    (hv : toF G m = toF G M * toF G G.g ^ k) (hk : k % G.q = 0) : m = M :=
  (eq_iff_exc hG hM hm k hv).mpr hk

/-! ### line plumbing -/

omit [Fact (Nat.Prime G.p.natAbs)] in
theorem readPairs_flat (l : List (Int × Int)) : readPairs l.length ((flat l).map some) = some l := by
  induction l with
  | nil => rfl
  | cons p t ih =>
    obtain ⟨w, e⟩ := p
    simp [flat, readPairs, ih]

omit [Fact (Nat.Prime G.p.natAbs)] in
theorem readN_map (l : List Int) : readN l.length (l.map some) = some l := by
  induction l with
  | nil => rfl
  | cons p t ih => simp [readN, ih]

/-- the chooser's second move on a well-formed reply -/
theorem secondMove_ok (hG : ValidGroup G) {I : Inst} (hI : InstOk G I) (σ : Nat) (b : Int)
    (first : List Int) (d : Nat) (l : List (Int × Int)) (hl : ∀ p ∈ l, Mem G p.1)
    {w e m : Int} (hσ : l[σ]? = some (w, e)) (hdec : decrypt I b w e = .ok (some m)) :
    secondMove I σ l.length b first d ((flat l).map some) = ⟨first, .done (some m), d⟩ := by
  have hall : (l.all fun p => Ot.checkElement I p.1) = true :=
    List.all_eq_true.mpr fun p hp => (checkElement_eq hG hI _).mpr (hl p hp)
  unfold secondMove
  rw [readPairs_flat]
  simp [hall, hσ, hdec]

omit [Fact (Nat.Prime G.p.natAbs)] in
/-- without a reply the stream operator throws; the first move has been written -/
theorem secondMove_nil (I : Inst) (σ N : Nat) (hN : 0 < N) (b : Int) (first : List Int) (d : Nat) :
    secondMove I σ N b first d [] = ⟨first, .threw, d⟩ := by
  obtain ⟨n, rfl⟩ := Nat.exists_eq_succ_of_ne_zero (by omega : N ≠ 0)
  simp [secondMove, readPairs]


theorem exc_zero (q a s : Int) : ((a % q - a) * s) % q = 0 := by
  have : (a % q - a) * s = q * (-(a / q) * s) := by rw [Int.emod_def]; ring
  rw [this]; exact Int.mul_emod_right _ _

/-! ### 1-out-of-2 -/

/-- the chooser's first move: `x = g^a`, `y = g^b`, `z_σ = g^{ab mod q}`, `z_{1-σ} = g^c` -/
theorem choose12_first (hG : ValidGroup G) {I : Inst} (hI : InstOk G I) {σ : Nat} (hσ : σ < 2)
    {a b c : Int} (ha : InQ G a) (hb : InQ G b) (hc : InQ G c) :
    ∃ x y z0 z1, Mem G x ∧ Mem G y ∧ Mem G z0 ∧ Mem G z1 ∧
      toF G x = toF G G.g ^ a ∧ toF G y = toF G G.g ^ b ∧
      toF G z0 = toF G G.g ^ (if σ = 0 then a * b % G.q else c) ∧
      toF G z1 = toF G G.g ^ (if σ = 0 then c else a * b % G.q) ∧
      ∀ peer, choose12 I σ a b c peer = secondMove I σ 2 b [x, y, z0, z1] 3 peer := by
  have hab := inQ_emod hG (a * b)
  have h0 : InQ G (if σ = 0 then a * b % G.q else c) := by split <;> assumption
  have h1 : InQ G (if σ = 0 then c else a * b % G.q) := by split <;> assumption
  obtain ⟨x, hx, mx, vx⟩ := gpow_val hG hI a ha
  obtain ⟨y, hy, my, vy⟩ := gpow_val hG hI b hb
  obtain ⟨z0, hz0, mz0, vz0⟩ := gpow_val hG hI _ h0
  obtain ⟨z1, hz1, mz1, vz1⟩ := gpow_val hG hI _ h1
  refine ⟨x, y, z0, z1, mx, my, mz0, mz1, vx, vy, vz0, vz1, ?_⟩
  intro peer
  have hq : G.q ≠ 0 := ne_of_gt hG.q_pos
  have hg := hI.grp
  subst hg
  simp [choose12, step, mpzMod, hq, not_le.mpr hσ, hx, hy, hz0, hz1]

theorem send12_ok (hG : ValidGroup G) {I : Inst} (hI : InstOk G I) {x y z0 z1 : Int}
    (hx : Mem G x) (hy : Mem G y) (hz0 : Mem G z0) (hz1 : Mem G z1) (hne : z0 ≠ z1)
    {M0 M1 r0 s0 r1 s1 w0 e0 w1 e1 : Int}
    (h0 : encOne I x y z0 M0 s0 r0 = .ok (w0, e0)) (h1 : encOne I x y z1 M1 s1 r1 = .ok (w1, e1))
    (rest : List (Option Int)) :
    send12 I M0 M1 r0 s0 r1 s1 (some x :: some y :: some z0 :: some z1 :: rest) =
      ⟨[w0, e0, w1, e1], .done none, 4⟩ := by
  simp [send12, step, (checkElement_eq hG hI _).mpr hx, (checkElement_eq hG hI _).mpr hy,
    (checkElement_eq hG hI _).mpr hz0, (checkElement_eq hG hI _).mpr hz1, hne, h0, h1]

/-- A complete honest run of the 1-out-of-2 protocol, for all coins outside the exceptional set
    `c = ab mod q`: first move, reply, and what BOTH ciphertexts decrypt to under the chooser's
    secret `b`: `M_i · g^{(c_i - ab)·s_i}` where `c_σ = ab mod q`, `c_{1-σ} = c`. -/
theorem ot12_run (hG : ValidGroup G) {I : Inst} (hI : InstOk G I) (M0 M1 : Int) {σ : Nat} (hσ : σ < 2)
    {a b c r0 s0 r1 s1 : Int} (ha : InQ G a) (hb : InQ G b) (hc : InQ G c)
    (hr0 : InQ G r0) (hr1 : InQ G r1) (hne : c ≠ a * b % G.q) :
    ∃ first w0 e0 w1 e1 m0 m1,
      (∀ peer, choose12 I σ a b c peer = secondMove I σ 2 b first 3 peer) ∧
      send12 I M0 M1 r0 s0 r1 s1 (first.map some) = ⟨[w0, e0, w1, e1], .done none, 4⟩ ∧
      Mem G w0 ∧ Mem G w1 ∧
      decrypt I b w0 e0 = .ok (some m0) ∧ decrypt I b w1 e1 = .ok (some m1) ∧
      (0 ≤ m0 ∧ m0 < G.p) ∧ (0 ≤ m1 ∧ m1 < G.p) ∧
      toF G m0 = toF G M0 * toF G G.g ^ (((if σ = 0 then a * b % G.q else c) - a * b) * s0) ∧
      toF G m1 = toF G M1 * toF G G.g ^ (((if σ = 0 then c else a * b % G.q) - a * b) * s1) := by
  obtain ⟨x, y, z0, z1, mx, my, mz0, mz1, vx, vy, vz0, vz1, hfirst⟩ := choose12_first hG hI hσ ha hb hc
  have hab := inQ_emod hG (a * b)
  have hzne : z0 ≠ z1 := by
    intro h
    rw [h] at vz0
    have := gpow_inj hG (by split <;> assumption) (by split <;> assumption) (vz0.symm.trans vz1)
    by_cases h0 : σ = 0
    · simp only [h0, if_true] at this; exact hne this.symm
    · simp only [h0, if_false] at this; exact hne this
  obtain ⟨w0, e0, m0, henc0, hw0, hdec0, hm0, vm0⟩ :=
    enc_decrypt hG hI a b _ M0 s0 r0 mx my mz0 hr0 vx vy vz0
  obtain ⟨w1, e1, m1, henc1, hw1, hdec1, hm1, vm1⟩ :=
    enc_decrypt hG hI a b _ M1 s1 r1 mx my mz1 hr1 vx vy vz1
  exact ⟨[x, y, z0, z1], w0, e0, w1, e1, m0, m1, hfirst,
    send12_ok hG hI mx my mz0 mz1 hzne henc0 henc1 [], hw0, hw1, hdec0, hdec1, hm0, hm1, vm0, vm1⟩

/-- **C18, 1-out-of-2**: the chooser outputs `M_σ` — for all coins except `c = ab mod q`
    (then `z_0 = z_1` and the sender refuses, see `ot12_collision`). -/
theorem ot12_correct (hG : ValidGroup G) {I : Inst} (hI : InstOk G I) {M0 M1 : Int}
    (hM0 : Mem G M0) (hM1 : Mem G M1) {σ : Nat} (hσ : σ < 2)
    {a b c r0 s0 r1 s1 : Int} (ha : InQ G a) (hb : InQ G b) (hc : InQ G c)
    (hr0 : InQ G r0) (hs0 : InQ G s0) (hr1 : InQ G r1) (hs1 : InQ G s1) (hne : c ≠ a * b % G.q) :
    ∃ first reply,
      choose12 I σ a b c [] = ⟨first, .threw, 3⟩ ∧
      send12 I M0 M1 r0 s0 r1 s1 (first.map some) = ⟨reply, .done none, 4⟩ ∧
      choose12 I σ a b c (reply.map some) = ⟨first, .done (some (if σ = 0 then M0 else M1)), 3⟩ := by
  obtain ⟨first, w0, e0, w1, e1, m0, m1, hfirst, hsend, hw0, hw1, hdec0, hdec1, hm0, hm1, vm0, vm1⟩ :=
    ot12_run hG hI M0 M1 hσ (s0 := s0) (s1 := s1) ha hb hc hr0 hr1 hne
  refine ⟨first, [w0, e0, w1, e1], ?_, hsend, ?_⟩
  · rw [hfirst]; exact secondMove_nil I σ 2 (by norm_num) b first 3
  · rw [hfirst]
    have hl : ∀ p ∈ [(w0, e0), (w1, e1)], Mem G p.1 := by
      intro p hp
      simp only [List.mem_cons, List.not_mem_nil, or_false] at hp
      rcases hp with rfl | rfl <;> assumption
    by_cases h0 : σ = 0
    · subst h0
      simp only [if_true] at vm0 ⊢
      have : m0 = M0 := eq_of_exc hG hM0 hm0 _ vm0 (exc_zero _ _ _)
      subst this
      exact secondMove_ok hG hI 0 b first 3 [(w0, e0), (w1, e1)] hl (by rfl) hdec0
    · have h1 : σ = 1 := by omega
      subst h1
      simp only [if_neg h0] at vm1 ⊢
      have : m1 = M1 := eq_of_exc hG hM1 hm1 _ vm1 (exc_zero _ _ _)
      subst this
      exact secondMove_ok hG hI 1 b first 3 [(w0, e0), (w1, e1)] hl (by rfl) hdec1

/-- **C18, 1-out-of-2, the ciphertext not chosen**: with its own secrets the chooser computes
    `M_i · g^{(c - ab)·s_i}` from ciphertext `i = 1 - σ`; this is `M_i` exactly for the coins
    with `(c - ab)·s_i ≡ 0 (mod q)`. -/
theorem ot12_unchosen (hG : ValidGroup G) {I : Inst} (hI : InstOk G I) {M0 M1 : Int}
    (hM0 : Mem G M0) (hM1 : Mem G M1) {σ : Nat} (hσ : σ < 2)
    {a b c r0 s0 r1 s1 : Int} (ha : InQ G a) (hb : InQ G b) (hc : InQ G c)
    (hr0 : InQ G r0) (hs0 : InQ G s0) (hr1 : InQ G r1) (hs1 : InQ G s1) (hne : c ≠ a * b % G.q) :
    ∃ first w0 e0 w1 e1 m,
      choose12 I σ a b c [] = ⟨first, .threw, 3⟩ ∧
      send12 I M0 M1 r0 s0 r1 s1 (first.map some) = ⟨[w0, e0, w1, e1], .done none, 4⟩ ∧
      decrypt I b (if σ = 0 then w1 else w0) (if σ = 0 then e1 else e0) = .ok (some m) ∧
      toF G m = toF G (if σ = 0 then M1 else M0) *
        toF G G.g ^ ((c - a * b) * (if σ = 0 then s1 else s0)) ∧
      (m = (if σ = 0 then M1 else M0) ↔ ((c - a * b) * (if σ = 0 then s1 else s0)) % G.q = 0) := by
  obtain ⟨first, w0, e0, w1, e1, m0, m1, hfirst, hsend, hw0, hw1, hdec0, hdec1, hm0, hm1, vm0, vm1⟩ :=
    ot12_run hG hI M0 M1 hσ (s0 := s0) (s1 := s1) ha hb hc hr0 hr1 hne
  have hnil : choose12 I σ a b c [] = ⟨first, .threw, 3⟩ := by
    rw [hfirst]; exact secondMove_nil I σ 2 (by norm_num) b first 3
  by_cases h0 : σ = 0
  · simp only [h0, if_true] at vm1 ⊢
    exact ⟨first, w0, e0, w1, e1, m1, h0 ▸ hnil, hsend, hdec1, vm1, eq_iff_exc hG hM1 hm1 _ vm1⟩
  · simp only [h0, if_false] at vm0 ⊢
    exact ⟨first, w0, e0, w1, e1, m0, hnil, hsend, hdec0, vm0, eq_iff_exc hG hM0 hm0 _ vm0⟩


/-! ### the sender refuses bad queries before writing anything -/

omit [Fact (Nat.Prime G.p.natAbs)] in
theorem distinct_iff (l : List Int) : distinct l = true ↔ l.Nodup := by
  induction l with
  | nil => simp [distinct]
  | cons z zs ih => simp [distinct, List.nodup_cons, ih]

/-- **C18, sender, 1-out-of-2**: a non-member among `x, y, z_0, z_1` or `z_0 = z_1` (a query that
    would open both messages): refused, nothing written, no coin drawn -/
theorem send12_aborts (hG : ValidGroup G) {I : Inst} (hI : InstOk G I)
    (M0 M1 r0 s0 r1 s1 x y z0 z1 : Int) (rest : List (Option Int))
    (h : ¬ Mem G x ∨ ¬ Mem G y ∨ ¬ Mem G z0 ∨ ¬ Mem G z1 ∨ z0 = z1) :
    send12 I M0 M1 r0 s0 r1 s1 (some x :: some y :: some z0 :: some z1 :: rest) =
      ⟨[], .refused, 0⟩ := by
  unfold send12
  simp only
  split_ifs with h1 h2 h3
  · rfl
  · rfl
  · rfl
  · exfalso
    simp only [Bool.not_eq_true', Bool.and_eq_false_imp, Bool.not_eq_false, not_forall,
      exists_prop] at h1 h2
    have hx := (checkElement_eq hG hI x).mp h1.1
    have hy := (checkElement_eq hG hI y).mp (by simpa using h1.2)
    have hz0 := (checkElement_eq hG hI z0).mp h2.1
    have hz1 := (checkElement_eq hG hI z1).mp (by simpa using h2.2)
    tauto

omit [Fact (Nat.Prime G.p.natAbs)] in
/-- fewer than four parsable lines: the stream operator throws, nothing written -/
theorem send12_missing (I : Inst) (M0 M1 r0 s0 r1 s1 : Int) (peer : List (Option Int))
    (h : readN 4 peer = none) : send12 I M0 M1 r0 s0 r1 s1 peer = ⟨[], .threw, 0⟩ := by
  unfold send12
  split
  · simp [readN] at h
  · rfl

/-- **C18, sender, 1-out-of-N**: a non-member among `x, y, z_i` or two coinciding `z_i`:
    refused, nothing written, no coin drawn -/
theorem send1N_aborts (hG : ValidGroup G) {I : Inst} (hI : InstOk G I) (M : List Int)
    (sr : List (Int × Int)) (peer : List (Option Int)) (x y : Int) (zs : List Int)
    (hread : readN (2 + M.length) peer = some (x :: y :: zs))
    (h : ¬ Mem G x ∨ ¬ Mem G y ∨ (∃ z ∈ zs, ¬ Mem G z) ∨ ¬ zs.Nodup) :
    (send1N I M sr peer).result ≠ .done none ∧ (send1N I M sr peer).written = [] ∧
      (2 ≤ M.length → send1N I M sr peer = ⟨[], .refused, 0⟩) := by
  unfold send1N
  by_cases hlen : M.length < 2
  · simp [hlen]
  · rw [if_neg hlen, hread]
    simp only
    split_ifs with h1 h2 h3
    · simp
    · simp
    · simp
    · exfalso
      simp only [Bool.not_eq_true', Bool.and_eq_false_imp, Bool.not_eq_false, not_forall,
        exists_prop] at h1 h2 h3
      have hx := (checkElement_eq hG hI x).mp h1.1
      have hy := (checkElement_eq hG hI y).mp (by simpa using h1.2)
      have hz : ∀ z ∈ zs, Mem G z := fun z hz =>
        (checkElement_eq hG hI z).mp (List.all_eq_true.mp h2 z hz)
      have hd := (distinct_iff zs).mp h3
      rcases h with h | h | ⟨z, hz1, hz2⟩ | h
      · exact h hx
      · exact h hy
      · exact hz2 (hz z hz1)
      · exact h hd

omit [Fact (Nat.Prime G.p.natAbs)] in
theorem send1N_missing (I : Inst) (M : List Int) (sr : List (Int × Int)) (peer : List (Option Int))
    (hlen : 2 ≤ M.length) (h : readN (2 + M.length) peer = none) :
    send1N I M sr peer = ⟨[], .threw, 0⟩ := by
  unfold send1N
  rw [if_neg (by omega), h]

/-- **C18, sender, optimised 1-out-of-N**: a non-member among `x, y, z_0`: refused, nothing
    written, no coin drawn -/
theorem sendOpt_aborts (hG : ValidGroup G) {I : Inst} (hI : InstOk G I) (M : List Int)
    (sr : List (Int × Int)) (x y z0 : Int) (rest : List (Option Int)) (hlen : 2 ≤ M.length)
    (h : ¬ Mem G x ∨ ¬ Mem G y ∨ ¬ Mem G z0) :
    sendOpt I M sr (some x :: some y :: some z0 :: rest) = ⟨[], .refused, 0⟩ := by
  unfold sendOpt
  rw [if_neg (by omega)]
  simp only
  split_ifs with h1
  · rfl
  · exfalso
    simp only [Bool.not_eq_true', Bool.and_eq_false_imp, Bool.not_eq_false, not_forall,
      exists_prop, Bool.and_eq_true] at h1
    have hx := (checkElement_eq hG hI x).mp (by tauto)
    have hy := (checkElement_eq hG hI y).mp (by tauto)
    have hz := (checkElement_eq hG hI z0).mp (by tauto)
    tauto

omit [Fact (Nat.Prime G.p.natAbs)] in
theorem sendOpt_missing (I : Inst) (M : List Int) (sr : List (Int × Int)) (peer : List (Option Int))
    (hlen : 2 ≤ M.length) (h : readN 3 peer = none) : sendOpt I M sr peer = ⟨[], .threw, 0⟩ := by
  unfold sendOpt
  rw [if_neg (by omega)]
  split
  · simp [readN] at h
  · rfl

omit [Fact (Nat.Prime G.p.natAbs)] in
/-- both 1-out-of-N senders write only when they return `true` -/
theorem sendTail_written (I : Inst) (x y : Int) (zs M : List Int) (sr : List (Int × Int))
    (h : (sendTail I x y zs M sr).result ≠ .done none) : (sendTail I x y zs M sr).written = [] := by
  unfold sendTail at h ⊢
  split
  · rfl
  · rename_i heq
    rw [heq] at h
    simp at h


/-! ### 1-out-of-N -/

/-- the exponents the chooser fixes: the drawn `c_i`, with `c_σ` replaced by `ab mod q`
    (`i` is the index of the head of the list) -/
def expo (σ : Nat) (ab : Int) : Nat → List Int → List Int
  | _, [] => []
  | i, c :: cs => (if i = σ then ab else c) :: expo σ ab (i + 1) cs

omit [Fact (Nat.Prime G.p.natAbs)] in
theorem expo_length (σ : Nat) (ab : Int) : ∀ (cs : List Int) (i : Nat), (expo σ ab i cs).length = cs.length
  | [], _ => rfl
  | _ :: cs, i => by simp [expo, expo_length σ ab cs (i + 1)]

omit [Fact (Nat.Prime G.p.natAbs)] in
theorem expo_getElem? (σ : Nat) (ab : Int) : ∀ (cs : List Int) (i j : Nat),
    (expo σ ab i cs)[j]? = (cs[j]?).map fun c => if i + j = σ then ab else c
  | [], _, _ => by simp [expo]
  | c :: cs, i, 0 => by simp [expo]
  | c :: cs, i, j + 1 => by
    simp only [expo, List.getElem?_cons_succ]
    rw [expo_getElem? σ ab cs (i + 1) j]
    have : i + 1 + j = i + (j + 1) := by omega
    rw [this]

omit [Fact (Nat.Prime G.p.natAbs)] in
theorem expo_mem (σ : Nat) (ab : Int) : ∀ (cs : List Int) (i : Nat) (e : Int),
    e ∈ expo σ ab i cs → e = ab ∨ e ∈ cs
  | [], _, _, h => by simp [expo] at h
  | c :: cs, i, e, h => by
    simp only [expo, List.mem_cons] at h
    rcases h with h | h
    · by_cases hi : i = σ
      · left; simpa [hi] using h
      · right; simp [hi] at h; simp [h]
    · rcases expo_mem σ ab cs (i + 1) e h with h | h
      · exact Or.inl h
      · exact Or.inr (List.mem_cons_of_mem _ h)

/-- `z` is the reduced representative of `g^e` -/
def IsPow (G : Group) [Fact (Nat.Prime G.p.natAbs)] (z e : Int) : Prop :=
  (0 ≤ z ∧ z < G.p) ∧ toF G z = toF G G.g ^ e

theorem IsPow.mem (hG : ValidGroup G) {z e : Int} (h : IsPow G z e) : Mem G z :=
  mem_of_gpow hG h.1.1 h.1.2 h.2

omit [Fact (Nat.Prime G.p.natAbs)] in
theorem forall₂_mem_left {α β} {R : α → β → Prop} {l₁ : List α} {l₂ : List β}
    (h : List.Forall₂ R l₁ l₂) {a : α} (ha : a ∈ l₁) : ∃ b ∈ l₂, R a b := by
  induction h with
  | nil => simp at ha
  | cons hr _ ih =>
    rcases List.mem_cons.mp ha with rfl | ha
    · exact ⟨_, List.mem_cons_self, hr⟩
    · obtain ⟨b, hb, hab⟩ := ih ha
      exact ⟨b, List.mem_cons_of_mem _ hb, hab⟩

omit [Fact (Nat.Prime G.p.natAbs)] in
theorem forall₂_mem_right {α β} {R : α → β → Prop} {l₁ : List α} {l₂ : List β}
    (h : List.Forall₂ R l₁ l₂) {b : β} (hb : b ∈ l₂) : ∃ a ∈ l₁, R a b := by
  induction h with
  | nil => simp at hb
  | cons hr _ ih =>
    rcases List.mem_cons.mp hb with rfl | hb
    · exact ⟨_, List.mem_cons_self, hr⟩
    · obtain ⟨a, ha, hab⟩ := ih hb
      exact ⟨a, List.mem_cons_of_mem _ ha, hab⟩

/-- distinct exponents in `[0, q)` give distinct group elements … -/
theorem nodup_of_expo (hG : ValidGroup G) {zs es : List Int} (h : List.Forall₂ (IsPow G) zs es)
    (hq : ∀ e ∈ es, InQ G e) (hnd : es.Nodup) : zs.Nodup := by
  induction h with
  | nil => exact List.nodup_nil
  | @cons z e zs' es' hr hrest ih =>
    rw [List.nodup_cons] at hnd ⊢
    refine ⟨?_, ih (fun e he => hq e (List.mem_cons_of_mem _ he)) hnd.2⟩
    intro hz
    obtain ⟨e', he', hr'⟩ := forall₂_mem_left hrest hz
    have : e = e' := gpow_inj hG (hq e List.mem_cons_self) (hq e' (List.mem_cons_of_mem _ he'))
      (hr.2.symm.trans hr'.2)
    exact hnd.1 (this ▸ he')

/-- … and coinciding exponents give coinciding elements -/
theorem nodup_expo_of (hG : ValidGroup G) {zs es : List Int} (h : List.Forall₂ (IsPow G) zs es)
    (hnd : zs.Nodup) : es.Nodup := by
  induction h with
  | nil => exact List.nodup_nil
  | @cons z e zs' es' hr hrest ih =>
    rw [List.nodup_cons] at hnd ⊢
    refine ⟨?_, ih hnd.2⟩
    intro he
    obtain ⟨z', hz', hr'⟩ := forall₂_mem_right hrest he
    have : z = z' := eq_of_toF_eq hG hr.1 hr'.1 (hr.2.trans hr'.2.symm)
    exact hnd.1 (this ▸ hz')

/-- the chooser's loop over the `c_i` -/
theorem zLoop_val (hG : ValidGroup G) {I : Inst} (hI : InstOk G I) (σ : Nat) (a b : Int) :
    ∀ (cs : List Int) (i : Nat), (∀ c ∈ cs, InQ G c) →
      ∃ zs, zLoop I σ a b i cs = (zs, none) ∧
        List.Forall₂ (IsPow G) zs (expo σ (a * b % G.q) i cs) := by
  intro cs
  induction cs with
  | nil => intro i _; exact ⟨[], rfl, List.Forall₂.nil⟩
  | cons c cs ih =>
    intro i hcs
    obtain ⟨zs, hzs, hrel⟩ := ih (i + 1) (fun c hc => hcs c (List.mem_cons_of_mem _ hc))
    have he : InQ G (if i = σ then a * b % G.q else c) := by
      split
      · exact inQ_emod hG _
      · exact hcs c List.mem_cons_self
    obtain ⟨z, hz, mz, vz⟩ := gpow_val hG hI _ he
    refine ⟨z :: zs, ?_, List.Forall₂.cons ⟨⟨mz.1.le, mz.2.1⟩, vz⟩ hrel⟩
    have hq : G.q ≠ 0 := ne_of_gt hG.q_pos
    have hg := hI.grp
    subst hg
    by_cases hi : i = σ
    · simp only [hi, if_true] at hz
      simp [zLoop, hi, mpzMod, hq, bind, Except.bind, hz, hi ▸ hzs]
    · simp only [hi, if_false] at hz
      simp [zLoop, hi, bind, Except.bind, pure, Except.pure, hz, hzs]


/-- what the chooser obtains from ciphertext `(w, e)` with its secret `b`, when the ciphertext
    encrypts `Mi` under `z = g^c` with the sender's coin `s`: `Mi · g^{(c - ab)·s}` -/
def Opens (G : Group) [Fact (Nat.Prime G.p.natAbs)] (I : Inst) (a b : Int) (we : Int × Int)
    (c Mi s : Int) : Prop :=
  ∃ m, decrypt I b we.1 we.2 = .ok (some m) ∧ (0 ≤ m ∧ m < G.p) ∧
    toF G m = toF G Mi * toF G G.g ^ ((c - a * b) * s)

/-- the sender's encryption loop: every ciphertext is computed, every `w_i` is a group element,
    and ciphertext `i` opens (for the chooser's `b`) to `M_i · g^{(c_i - ab)·s_i}` -/
theorem encAll_val (hG : ValidGroup G) {I : Inst} (hI : InstOk G I) {x y : Int} (a b : Int)
    (hx : Mem G x) (hy : Mem G y) (vx : toF G x = toF G G.g ^ a) (vy : toF G y = toF G G.g ^ b)
    {zs es : List Int} (h : List.Forall₂ (IsPow G) zs es) :
    ∀ (M : List Int) (sr : List (Int × Int)), M.length = zs.length → sr.length = zs.length →
      (∀ p ∈ sr, InQ G p.2) →
      ∃ l, encAll I x y zs M sr = (l, none) ∧ l.length = zs.length ∧ (∀ p ∈ l, Mem G p.1) ∧
        ∀ (i : Nat) (we : Int × Int), l[i]? = some we → ∃ c Mi s r, es[i]? = some c ∧ M[i]? = some Mi ∧
          sr[i]? = some (s, r) ∧ Opens G I a b we c Mi s := by
  induction h with
  | nil =>
    intro M sr hM hsr _
    refine ⟨[], ?_, rfl, by simp, by simp⟩
    cases M <;> cases sr <;> simp [encAll] at hM hsr ⊢
  | @cons z c zs' es' hr hrest ih =>
    intro M sr hM hsr hq
    rcases M with _ | ⟨Mi, Ms⟩
    · simp at hM
    rcases sr with _ | ⟨⟨s, r⟩, srs⟩
    · simp at hsr
    simp only [List.length_cons, Nat.add_right_cancel_iff] at hM hsr
    obtain ⟨l, hl, hlen, hmem, hopen⟩ := ih Ms srs hM hsr (fun p hp => hq p (List.mem_cons_of_mem _ hp))
    obtain ⟨w, e, m, henc, hw, hdec, hm, vm⟩ :=
      enc_decrypt hG hI a b c Mi s r hx hy (hr.mem hG) (hq (s, r) List.mem_cons_self) vx vy hr.2
    refine ⟨(w, e) :: l, ?_, by simp [hlen], ?_, ?_⟩
    · simp [encAll, henc, hl]
    · intro p hp
      rcases List.mem_cons.mp hp with rfl | hp
      · exact hw
      · exact hmem p hp
    · intro i we hi
      rcases i with _ | i
      · simp only [List.getElem?_cons_zero, Option.some.injEq] at hi
        subst hi
        exact ⟨c, Mi, s, r, by simp, by simp, by simp, m, hdec, hm, vm⟩
      · simp only [List.getElem?_cons_succ] at hi ⊢
        exact hopen i we hi

/-- the sender serves a well-formed first move -/
theorem send1N_ok (hG : ValidGroup G) {I : Inst} (hI : InstOk G I) {x y : Int} {zs : List Int}
    (hx : Mem G x) (hy : Mem G y) (hz : ∀ z ∈ zs, Mem G z) (hnd : zs.Nodup)
    (M : List Int) (sr : List (Int × Int)) (hN : 2 ≤ M.length) (hlen : M.length = zs.length)
    {l : List (Int × Int)} (hl : encAll I x y zs M sr = (l, none)) :
    send1N I M sr ((x :: y :: zs).map some) = ⟨flat l, .done none, 2 * l.length⟩ := by
  have hread : readN (2 + M.length) ((x :: y :: zs).map some) = some (x :: y :: zs) := by
    have := readN_map (x :: y :: zs)
    simp only [List.length_cons] at this
    rw [hlen, show 2 + zs.length = zs.length + 1 + 1 by omega]
    exact this
  have hall : zs.all (Ot.checkElement I) = true :=
    List.all_eq_true.mpr fun z hz' => (checkElement_eq hG hI z).mpr (hz z hz')
  unfold send1N
  rw [if_neg (by omega), hread]
  simp [(checkElement_eq hG hI x).mpr hx, (checkElement_eq hG hI y).mpr hy, hall,
    (distinct_iff zs).mpr hnd, sendTail, hl]

/-- the chooser's first move: `x = g^a`, `y = g^b`, `z_i = g^{c_i}` with `c_σ = ab mod q` -/
theorem choose1N_first (hG : ValidGroup G) {I : Inst} (hI : InstOk G I) {σ : Nat} {a b : Int}
    {cs : List Int} (hN : 2 ≤ cs.length) (hσ : σ < cs.length) (ha : InQ G a) (hb : InQ G b)
    (hcs : ∀ c ∈ cs, InQ G c) :
    ∃ x y zs, Mem G x ∧ Mem G y ∧ toF G x = toF G G.g ^ a ∧ toF G y = toF G G.g ^ b ∧
      List.Forall₂ (IsPow G) zs (expo σ (a * b % G.q) 0 cs) ∧
      ∀ peer, choose1N I σ a b cs peer =
        secondMove I σ cs.length b (x :: y :: zs) (2 + cs.length) peer := by
  obtain ⟨x, hx, mx, vx⟩ := gpow_val hG hI a ha
  obtain ⟨y, hy, my, vy⟩ := gpow_val hG hI b hb
  obtain ⟨zs, hzs, hrel⟩ := zLoop_val hG hI σ a b cs 0 hcs
  refine ⟨x, y, zs, mx, my, vx, vy, hrel, ?_⟩
  intro peer
  have h1 : ¬ (cs.length < 2 ∨ cs.length ≤ σ) := by omega
  simp [choose1N, step, hx, hy, hzs]
  intro h; exfalso; omega

/-- A complete honest run of the 1-out-of-N protocol, for all coins for which the exponents
    `c_i` (with `c_σ = ab mod q`) are pairwise distinct: the first move, the reply `flat l`, and
    what EVERY ciphertext opens to under the chooser's secret `b`. -/
theorem ot1N_run (hG : ValidGroup G) {I : Inst} (hI : InstOk G I) (M : List Int) (hN : 2 ≤ M.length)
    {σ : Nat} (hσ : σ < M.length) {a b : Int} (ha : InQ G a) (hb : InQ G b)
    {cs : List Int} (hcl : cs.length = M.length) (hcs : ∀ c ∈ cs, InQ G c)
    {sr : List (Int × Int)} (hsl : sr.length = M.length) (hsr : ∀ p ∈ sr, InQ G p.2)
    (hnd : (expo σ (a * b % G.q) 0 cs).Nodup) :
    ∃ first l,
      (∀ peer, choose1N I σ a b cs peer = secondMove I σ M.length b first (2 + M.length) peer) ∧
      send1N I M sr (first.map some) = ⟨flat l, .done none, 2 * M.length⟩ ∧
      l.length = M.length ∧ (∀ p ∈ l, Mem G p.1) ∧
      ∀ (i : Nat) (we : Int × Int), l[i]? = some we → ∃ c Mi s r, (expo σ (a * b % G.q) 0 cs)[i]? = some c ∧
        M[i]? = some Mi ∧ sr[i]? = some (s, r) ∧ Opens G I a b we c Mi s := by
  obtain ⟨x, y, zs, mx, my, vx, vy, hrel, hfirst⟩ :=
    choose1N_first hG hI (by rw [hcl]; exact hN) (by rw [hcl]; exact hσ) ha hb hcs
  have hzl : zs.length = M.length := by rw [hrel.length_eq, expo_length, hcl]
  have hq : ∀ e ∈ expo σ (a * b % G.q) 0 cs, InQ G e := by
    intro e he
    rcases expo_mem _ _ _ _ _ he with rfl | h
    · exact inQ_emod hG _
    · exact hcs e h
  have hznd := nodup_of_expo hG hrel hq hnd
  have hzmem : ∀ z ∈ zs, Mem G z := by
    intro z hz
    obtain ⟨e, -, hr⟩ := forall₂_mem_left hrel hz
    exact hr.mem hG
  obtain ⟨l, hl, hlen, hmem, hopen⟩ :=
    encAll_val hG hI a b mx my vx vy hrel M sr hzl.symm (hsl.trans hzl.symm) hsr
  refine ⟨x :: y :: zs, l, ?_, ?_, hlen.trans hzl, hmem, hopen⟩
  · intro peer; rw [hfirst, hcl]
  · rw [send1N_ok hG hI mx my hzmem hznd M sr hN hzl.symm hl, hlen, hzl]

/-- **C18, 1-out-of-N**: the chooser outputs `M_σ` — for all coins for which the `c_i`
    (with `c_σ = ab mod q`) are pairwise distinct; otherwise two `z_i` coincide and the sender
    refuses (`ot1N_collision`). -/
theorem ot1N_correct (hG : ValidGroup G) {I : Inst} (hI : InstOk G I) (M : List Int)
    (hM : ∀ m ∈ M, Mem G m) (hN : 2 ≤ M.length)
    {σ : Nat} (hσ : σ < M.length) {a b : Int} (ha : InQ G a) (hb : InQ G b)
    {cs : List Int} (hcl : cs.length = M.length) (hcs : ∀ c ∈ cs, InQ G c)
    {sr : List (Int × Int)} (hsl : sr.length = M.length) (hsr : ∀ p ∈ sr, InQ G p.1 ∧ InQ G p.2)
    (hnd : (expo σ (a * b % G.q) 0 cs).Nodup) :
    ∃ first reply,
      choose1N I σ a b cs [] = ⟨first, .threw, 2 + M.length⟩ ∧
      send1N I M sr (first.map some) = ⟨reply, .done none, 2 * M.length⟩ ∧
      choose1N I σ a b cs (reply.map some) = ⟨first, .done M[σ]?, 2 + M.length⟩ := by
  obtain ⟨first, l, hfirst, hsend, hlen, hmem, hopen⟩ :=
    ot1N_run hG hI M hN hσ ha hb hcl hcs hsl (fun p hp => (hsr p hp).2) hnd
  refine ⟨first, flat l, ?_, hsend, ?_⟩
  · rw [hfirst]; exact secondMove_nil I σ _ (by omega) b first _
  · obtain ⟨we, hwe⟩ : ∃ we, l[σ]? = some we := ⟨l[σ]'(by omega), List.getElem?_eq_getElem _⟩
    obtain ⟨c, Mi, s, r, hc, hMi, -, m, hdec, hm, vm⟩ := hopen σ we hwe
    rw [expo_getElem?, List.getElem?_eq_getElem (by omega)] at hc
    simp only [Option.map_some, zero_add, if_true, Option.some.injEq] at hc
    subst hc
    have hMem : Mem G Mi := hM Mi (List.mem_of_getElem? hMi)
    have : m = Mi := eq_of_exc hG hMem hm _ vm (exc_zero _ _ _)
    subst this
    rw [hfirst, hMi, ← hlen]
    exact secondMove_ok hG hI σ b first _ l hmem (w := we.1) (e := we.2) hwe hdec

/-- **C18, 1-out-of-N, the ciphertexts not chosen**: from ciphertext `i ≠ σ` the chooser computes,
    with its own secrets, `M_i · g^{(c_i - ab)·s_i}`; this is `M_i` exactly for the coins with
    `(c_i - ab)·s_i ≡ 0 (mod q)`. -/
theorem ot1N_unchosen (hG : ValidGroup G) {I : Inst} (hI : InstOk G I) (M : List Int)
    (hM : ∀ m ∈ M, Mem G m) (hN : 2 ≤ M.length)
    {σ : Nat} (hσ : σ < M.length) {a b : Int} (ha : InQ G a) (hb : InQ G b)
    {cs : List Int} (hcl : cs.length = M.length) (hcs : ∀ c ∈ cs, InQ G c)
    {sr : List (Int × Int)} (hsl : sr.length = M.length) (hsr : ∀ p ∈ sr, InQ G p.1 ∧ InQ G p.2)
    (hnd : (expo σ (a * b % G.q) 0 cs).Nodup) :
    ∃ first l,
      choose1N I σ a b cs [] = ⟨first, .threw, 2 + M.length⟩ ∧
      send1N I M sr (first.map some) = ⟨flat l, .done none, 2 * M.length⟩ ∧ l.length = M.length ∧
      ∀ i w e ci Mi s r, i ≠ σ → l[i]? = some (w, e) → cs[i]? = some ci → M[i]? = some Mi →
        sr[i]? = some (s, r) →
        ∃ m, decrypt I b w e = .ok (some m) ∧
          toF G m = toF G Mi * toF G G.g ^ ((ci - a * b) * s) ∧
          (m = Mi ↔ ((ci - a * b) * s) % G.q = 0) := by
  obtain ⟨first, l, hfirst, hsend, hlen, hmem, hopen⟩ :=
    ot1N_run hG hI M hN hσ ha hb hcl hcs hsl (fun p hp => (hsr p hp).2) hnd
  refine ⟨first, l, ?_, hsend, hlen, ?_⟩
  · rw [hfirst]; exact secondMove_nil I σ _ (by omega) b first _
  · intro i w e ci Mi s r hi hl hci hMi hs
    obtain ⟨c, Mi', s', r', hc, hMi', hs', m, hdec, hm, vm⟩ := hopen i (w, e) hl
    rw [expo_getElem?, hci] at hc
    simp only [Option.map_some, zero_add, if_neg hi, Option.some.injEq] at hc
    rw [hMi] at hMi'; rw [hs] at hs'
    simp only [Option.some.injEq, Prod.mk.injEq] at hMi' hs'
    obtain ⟨rfl, rfl⟩ := hs'
    subst hc hMi'
    exact ⟨m, hdec, vm, eq_iff_exc hG (hM Mi (List.mem_of_getElem? hMi)) hm _ vm⟩

/-- the exceptional coins of the 1-out-of-N protocol: when two of the exponents `c_i` (with
    `c_σ = ab mod q`) coincide, the honest chooser's own first move is refused by the sender —
    nothing is written, and the chooser then finds no reply -/
theorem ot1N_collision (hG : ValidGroup G) {I : Inst} (hI : InstOk G I) (M : List Int)
    (hN : 2 ≤ M.length) {σ : Nat} (hσ : σ < M.length) {a b : Int} (ha : InQ G a) (hb : InQ G b)
    {cs : List Int} (hcl : cs.length = M.length) (hcs : ∀ c ∈ cs, InQ G c)
    (sr : List (Int × Int)) (hnd : ¬ (expo σ (a * b % G.q) 0 cs).Nodup) :
    ∃ first,
      choose1N I σ a b cs [] = ⟨first, .threw, 2 + M.length⟩ ∧
      send1N I M sr (first.map some) = ⟨[], .refused, 0⟩ := by
  obtain ⟨x, y, zs, mx, my, vx, vy, hrel, hfirst⟩ :=
    choose1N_first hG hI (by rw [hcl]; exact hN) (by rw [hcl]; exact hσ) ha hb hcs
  have hzl : zs.length = M.length := by rw [hrel.length_eq, expo_length, hcl]
  refine ⟨x :: y :: zs, ?_, ?_⟩
  · rw [hfirst, hcl]; exact secondMove_nil I σ _ (by omega) b _ _
  · have hread : readN (2 + M.length) ((x :: y :: zs).map some) = some (x :: y :: zs) := by
      have := readN_map (x :: y :: zs)
      simp only [List.length_cons] at this
      rw [← hzl, show 2 + zs.length = zs.length + 1 + 1 by omega]
      exact this
    exact (send1N_aborts hG hI M sr _ x y zs hread
      (Or.inr (Or.inr (Or.inr fun h => hnd (nodup_expo_of hG hrel h))))).2.2 hN


/-! ### optimised 1-out-of-N -/

/-- the fixed-base routine on a non-negative exponent that fits the table (`|e| ≤ |q|` bits) -/
theorem gpow_val_small (hG : ValidGroup G) {I : Inst} (hI : InstOk G I) (e : Int) (he0 : 0 ≤ e)
    (hlen : bitlen e ≤ bitlen G.q) :
    ∃ r, fspowm I.tab I.G.g e I.G.p = .ok r ∧ Mem G r ∧ toF G r = toF G G.g ^ e := by
  rw [hI.grp]
  have hl : bitlen e ≤ tableSize (tableLen G) := by
    unfold tableSize tableLen; have := hG.q_fits; omega
  rw [fspowm_spec G.g G.p (tableLen G) (one_lt_p hG) I.tab hI.tab e hl]
  have hval : toF G (G.g ^ e.natAbs % G.p) = toF G G.g ^ e := by
    rw [toF_emod hG, toF_pow, pow_natAbs_of_nonneg _ he0]
  have hne : toF G (G.g ^ e.natAbs % G.p) ≠ 0 := by rw [hval]; exact zpow_ne_zero _ (g_ne hG)
  obtain ⟨r, hr, -, -, -⟩ := invm_val hG _ hne
  simp only [hr, he0, if_true]
  have hb := emod_bounds hG (G.g ^ e.natAbs)
  exact ⟨_, rfl, mem_of_gpow hG hb.1 hb.2 hval, hval⟩

/-- the exponents of `z_i = z_0 · g^i` -/
def optExps (e0 : Int) : Nat → List Int
  | 0 => []
  | n + 1 => e0 :: optExps (e0 + 1) n

omit [Fact (Nat.Prime G.p.natAbs)] in
theorem optExps_length : ∀ (n : Nat) (e0 : Int), (optExps e0 n).length = n
  | 0, _ => rfl
  | n + 1, e0 => by simp [optExps, optExps_length n]

omit [Fact (Nat.Prime G.p.natAbs)] in
theorem optExps_getElem? : ∀ (n : Nat) (e0 : Int) (i : Nat),
    (optExps e0 n)[i]? = if i < n then some (e0 + i) else none
  | 0, _, _ => by simp [optExps]
  | n + 1, e0, 0 => by simp [optExps]
  | n + 1, e0, i + 1 => by
    simp only [optExps, List.getElem?_cons_succ, optExps_getElem? n (e0 + 1) i,
      Nat.add_lt_add_iff_right]
    split
    · congr 1; push_cast; ring
    · rfl

theorem optZs_val (hG : ValidGroup G) {I : Inst} (hI : InstOk G I) :
    ∀ (n : Nat) (z e0 : Int), IsPow G z e0 → List.Forall₂ (IsPow G) (optZs I z n) (optExps e0 n) := by
  intro n
  induction n with
  | zero => intro z e0 _; exact List.Forall₂.nil
  | succ n ih =>
    intro z e0 h
    refine List.Forall₂.cons h (ih _ _ ?_)
    rw [hI.grp]
    obtain ⟨h0, h1, hv⟩ := mulmod_val hG z G.g
    exact ⟨⟨h0, h1⟩, by rw [hv, h.2, zpow_add_one₀ (g_ne hG)]⟩

/-- the chooser's first move: `x = g^a`, `y = g^b`, `z_0 = g^{ab - σ}` -/
theorem chooseOpt_first (hG : ValidGroup G) {I : Inst} (hI : InstOk G I) {σ N : Nat} {a b : Int}
    (hN : 2 ≤ N) (hσ : σ < N) (hσq : bitlen (σ : Int) ≤ bitlen G.q) (ha : InQ G a) (hb : InQ G b) :
    ∃ x y z0, Mem G x ∧ Mem G y ∧ toF G x = toF G G.g ^ a ∧ toF G y = toF G G.g ^ b ∧
      IsPow G z0 (a * b - σ) ∧
      ∀ peer, chooseOpt I σ N a b peer = secondMove I σ N b [x, y, z0] 2 peer := by
  obtain ⟨x, hx, mx, vx⟩ := gpow_val hG hI a ha
  obtain ⟨y, hy, my, vy⟩ := gpow_val hG hI b hb
  obtain ⟨gc, hgc, mgc, vgc⟩ := gpow_val hG hI _ (inQ_emod hG (a * b))
  obtain ⟨gs, hgs, mgs, vgs⟩ := gpow_val_small hG hI (σ : Int) (Int.natCast_nonneg σ) hσq
  obtain ⟨inv, hinv, -, -, vinv⟩ := invm_val hG gs (mgs.ne_zero hG)
  obtain ⟨h0, h1, hv⟩ := mulmod_val hG gc inv
  refine ⟨x, y, gc * inv % G.p, mx, my, vx, vy, ⟨⟨h0, h1⟩, ?_⟩, ?_⟩
  · rw [hv, vgc, vinv, vgs, gpow_emod hG, zpow_sub₀ (g_ne hG), div_eq_mul_inv]
  · intro peer
    have hq : G.q ≠ 0 := ne_of_gt hG.q_pos
    have hg := hI.grp
    subst hg
    simp [chooseOpt, step, mpzMod, hq, hx, hy, hgc, hgs, hinv]
    intro h; exfalso; omega

theorem sendOpt_ok (hG : ValidGroup G) {I : Inst} (hI : InstOk G I) {x y z0 : Int}
    (hx : Mem G x) (hy : Mem G y) (hz0 : Mem G z0) (M : List Int) (sr : List (Int × Int))
    (hN : 2 ≤ M.length) {l : List (Int × Int)}
    (hl : encAll I x y (optZs I z0 M.length) M sr = (l, none)) (rest : List (Option Int)) :
    sendOpt I M sr (some x :: some y :: some z0 :: rest) = ⟨flat l, .done none, 2 * l.length⟩ := by
  unfold sendOpt
  rw [if_neg (by omega)]
  simp [(checkElement_eq hG hI x).mpr hx, (checkElement_eq hG hI y).mpr hy,
    (checkElement_eq hG hI z0).mpr hz0, sendTail, hl]

/-- A complete honest run of the optimised 1-out-of-N protocol, for ALL coins: the first move,
    the reply `flat l`, and what every ciphertext opens to under the chooser's secret `b`
    (the exponent of `z_i` is `ab - σ + i`). -/
theorem otOpt_run (hG : ValidGroup G) {I : Inst} (hI : InstOk G I) (M : List Int) (hN : 2 ≤ M.length)
    {σ : Nat} (hσ : σ < M.length) (hσq : bitlen (σ : Int) ≤ bitlen G.q)
    {a b : Int} (ha : InQ G a) (hb : InQ G b)
    {sr : List (Int × Int)} (hsl : sr.length = M.length) (hsr : ∀ p ∈ sr, InQ G p.2) :
    ∃ first l,
      (∀ peer, chooseOpt I σ M.length a b peer = secondMove I σ M.length b first 2 peer) ∧
      sendOpt I M sr (first.map some) = ⟨flat l, .done none, 2 * M.length⟩ ∧
      l.length = M.length ∧ (∀ p ∈ l, Mem G p.1) ∧
      ∀ (i : Nat) (we : Int × Int), l[i]? = some we → ∃ Mi s r, i < M.length ∧
        M[i]? = some Mi ∧ sr[i]? = some (s, r) ∧ Opens G I a b we (a * b - σ + i) Mi s := by
  obtain ⟨x, y, z0, mx, my, vx, vy, hz0, hfirst⟩ := chooseOpt_first hG hI hN hσ hσq ha hb
  have hrel := optZs_val hG hI M.length z0 _ hz0
  have hzl : (optZs I z0 M.length).length = M.length := by rw [hrel.length_eq, optExps_length]
  obtain ⟨l, hl, hlen, hmem, hopen⟩ :=
    encAll_val hG hI a b mx my vx vy hrel M sr hzl.symm (hsl.trans hzl.symm) hsr
  refine ⟨[x, y, z0], l, hfirst, ?_, hlen.trans hzl, hmem, ?_⟩
  · rw [List.map_cons, List.map_cons, List.map_cons,
      sendOpt_ok hG hI mx my (hz0.mem hG) M sr hN hl, hlen, hzl]
  · intro i we hi
    obtain ⟨c, Mi, s, r, hc, hMi, hs, hop⟩ := hopen i we hi
    rw [optExps_getElem?] at hc
    split at hc
    · rename_i hlt
      simp only [Option.some.injEq] at hc
      subst hc
      exact ⟨Mi, s, r, hlt, hMi, hs, hop⟩
    · cases hc

/-- **C18, optimised 1-out-of-N**: the chooser outputs `M_σ`, for all coins (the index must fit
    the fixed-base table: `σ` has at most as many bits as `q`, in particular every `σ < q`). -/
theorem ot1N_opt_correct (hG : ValidGroup G) {I : Inst} (hI : InstOk G I) (M : List Int)
    (hM : ∀ m ∈ M, Mem G m) (hN : 2 ≤ M.length)
    {σ : Nat} (hσ : σ < M.length) (hσq : bitlen (σ : Int) ≤ bitlen G.q)
    {a b : Int} (ha : InQ G a) (hb : InQ G b)
    {sr : List (Int × Int)} (hsl : sr.length = M.length) (hsr : ∀ p ∈ sr, InQ G p.1 ∧ InQ G p.2) :
    ∃ first reply,
      chooseOpt I σ M.length a b [] = ⟨first, .threw, 2⟩ ∧
      sendOpt I M sr (first.map some) = ⟨reply, .done none, 2 * M.length⟩ ∧
      chooseOpt I σ M.length a b (reply.map some) = ⟨first, .done M[σ]?, 2⟩ := by
  obtain ⟨first, l, hfirst, hsend, hlen, hmem, hopen⟩ :=
    otOpt_run hG hI M hN hσ hσq ha hb hsl (fun p hp => (hsr p hp).2)
  refine ⟨first, flat l, ?_, hsend, ?_⟩
  · rw [hfirst]; exact secondMove_nil I σ _ (by omega) b first _
  · obtain ⟨we, hwe⟩ : ∃ we, l[σ]? = some we := ⟨l[σ]'(by omega), List.getElem?_eq_getElem _⟩
    obtain ⟨Mi, s, r, -, hMi, -, m, hdec, hm, vm⟩ := hopen σ we hwe
    have hMem : Mem G Mi := hM Mi (List.mem_of_getElem? hMi)
    have hk : (a * b - σ + σ - a * b) * s = 0 := by ring
    rw [hk] at vm
    have : m = Mi := eq_of_exc hG hMem hm _ vm (by simp)
    subst this
    rw [hfirst, hMi, ← hlen]
    exact secondMove_ok hG hI σ b first _ l hmem (w := we.1) (e := we.2) hwe hdec

/-- **C18, optimised 1-out-of-N, the ciphertexts not chosen**: from ciphertext `i ≠ σ` the chooser
    computes, with its own secrets, `M_i · g^{(i - σ)·s_i}`; this is `M_i` exactly for the coins
    with `(i - σ)·s_i ≡ 0 (mod q)` — i.e. `s_i = 0`, or `i ≡ σ (mod q)` (possible only when
    `N > q`: the sender does not compare the `z_i` in this variant, and `z_i = z_σ` then). -/
theorem otOpt_unchosen (hG : ValidGroup G) {I : Inst} (hI : InstOk G I) (M : List Int)
    (hM : ∀ m ∈ M, Mem G m) (hN : 2 ≤ M.length)
    {σ : Nat} (hσ : σ < M.length) (hσq : bitlen (σ : Int) ≤ bitlen G.q)
    {a b : Int} (ha : InQ G a) (hb : InQ G b)
    {sr : List (Int × Int)} (hsl : sr.length = M.length) (hsr : ∀ p ∈ sr, InQ G p.1 ∧ InQ G p.2) :
    ∃ first l,
      chooseOpt I σ M.length a b [] = ⟨first, .threw, 2⟩ ∧
      sendOpt I M sr (first.map some) = ⟨flat l, .done none, 2 * M.length⟩ ∧ l.length = M.length ∧
      ∀ (i : Nat) (w e Mi s r : Int), i ≠ σ → l[i]? = some (w, e) → M[i]? = some Mi →
        sr[i]? = some (s, r) →
        ∃ m, decrypt I b w e = .ok (some m) ∧
          toF G m = toF G Mi * toF G G.g ^ (((i : Int) - σ) * s) ∧
          (m = Mi ↔ (((i : Int) - σ) * s) % G.q = 0) := by
  obtain ⟨first, l, hfirst, hsend, hlen, hmem, hopen⟩ :=
    otOpt_run hG hI M hN hσ hσq ha hb hsl (fun p hp => (hsr p hp).2)
  refine ⟨first, l, ?_, hsend, hlen, ?_⟩
  · rw [hfirst]; exact secondMove_nil I σ _ (by omega) b first _
  · intro i w e Mi s r hi hl hMi hs
    obtain ⟨Mi', s', r', -, hMi', hs', m, hdec, hm, vm⟩ := hopen i (w, e) hl
    rw [hMi] at hMi'; rw [hs] at hs'
    simp only [Option.some.injEq, Prod.mk.injEq] at hMi' hs'
    obtain ⟨rfl, rfl⟩ := hs'
    subst hMi'
    have hk : (a * b - σ + i - a * b) * s = ((i : Int) - σ) * s := by ring
    rw [hk] at vm
    exact ⟨m, hdec, vm, eq_iff_exc hG (hM Mi (List.mem_of_getElem? hMi)) hm _ vm⟩

/-- every index below `q` fits the table -/
theorem bitlen_of_lt_q (hG : ValidGroup G) {σ : Nat} (h : (σ : Int) < G.q) :
    bitlen (σ : Int) ≤ bitlen G.q := by
  have h1 := bitlen_le_tableSize hG (σ : Int) (by have := hG.q_pos; omega)
  have hq := hG.q_fits
  unfold tableSize tableLen at h1
  have hq0 : G.q.natAbs ≠ 0 := by have := hG.q_pos; omega
  have hpos : 1 ≤ bitlen G.q := by
    unfold bitlen; simp only [hq0, if_false]; omega
  omega

/-- the exceptional coin of the 1-out-of-2 protocol: `c = ab mod q` makes `z_0 = z_1`, and the
    sender refuses the honest chooser's first move -/
theorem ot12_collision (hG : ValidGroup G) {I : Inst} (hI : InstOk G I) (M0 M1 : Int) {σ : Nat}
    (hσ : σ < 2) {a b : Int} (ha : InQ G a) (hb : InQ G b) (r0 s0 r1 s1 : Int) :
    ∃ first,
      choose12 I σ a b (a * b % G.q) [] = ⟨first, .threw, 3⟩ ∧
      send12 I M0 M1 r0 s0 r1 s1 (first.map some) = ⟨[], .refused, 0⟩ := by
  obtain ⟨x, y, z0, z1, mx, my, mz0, mz1, vx, vy, vz0, vz1, hfirst⟩ :=
    choose12_first hG hI hσ ha hb (inQ_emod hG (a * b))
  simp only [ite_self] at vz0 vz1
  have hz : z0 = z1 := eq_of_toF_eq hG ⟨mz0.1.le, mz0.2.1⟩ ⟨mz1.1.le, mz1.2.1⟩ (vz0.trans vz1.symm)
  refine ⟨[x, y, z0, z1], ?_, ?_⟩
  · rw [hfirst]; exact secondMove_nil I σ 2 (by norm_num) b _ 3
  · exact send12_aborts hG hI M0 M1 r0 s0 r1 s1 x y z0 z1 [] (Or.inr (Or.inr (Or.inr (Or.inr hz))))

/-! ### the statements of C18 under their catalogue names -/

omit [Fact (Nat.Prime G.p.natAbs)] in
theorem sendTail_silent (I : Inst) (x y : Int) (zs M : List Int) (sr : List (Int × Int)) :
    (sendTail I x y zs M sr).result = .done none ∨ (sendTail I x y zs M sr).written = [] := by
  by_cases h : (sendTail I x y zs M sr).result = .done none
  · exact Or.inl h
  · exact Or.inr (sendTail_written I x y zs M sr h)

omit [Fact (Nat.Prime G.p.natAbs)] in
/-- the 1-out-of-N senders never write unless they return `true` (any input, any group) -/
theorem send1N_silent (I : Inst) (M : List Int) (sr : List (Int × Int)) (peer : List (Option Int)) :
    (send1N I M sr peer).result = .done none ∨ (send1N I M sr peer).written = [] := by
  unfold send1N
  split
  · exact Or.inr rfl
  · split
    · split_ifs
      · exact Or.inr rfl
      · exact Or.inr rfl
      · exact Or.inr rfl
      · exact sendTail_silent I _ _ _ _ _
    · exact Or.inr rfl

omit [Fact (Nat.Prime G.p.natAbs)] in
theorem sendOpt_silent (I : Inst) (M : List Int) (sr : List (Int × Int)) (peer : List (Option Int)) :
    (sendOpt I M sr peer).result = .done none ∨ (sendOpt I M sr peer).written = [] := by
  unfold sendOpt
  split
  · exact Or.inr rfl
  · split
    · split_ifs
      · exact Or.inr rfl
      · exact sendTail_silent I _ _ _ _ _
    · exact Or.inr rfl

/-- **C18, the sender aborts on queries that would open more than one message** (coinciding
    `z`-values) **or that contain non-group elements**: the call returns `false`, NOTHING is written
    and no coin is drawn — in all three variants. -/
theorem sender_aborts_on_bad_query (hG : ValidGroup G) {I : Inst} (hI : InstOk G I) :
    (∀ (M0 M1 r0 s0 r1 s1 x y z0 z1 : Int) (rest : List (Option Int)),
      (¬ Mem G x ∨ ¬ Mem G y ∨ ¬ Mem G z0 ∨ ¬ Mem G z1 ∨ z0 = z1) →
      send12 I M0 M1 r0 s0 r1 s1 (some x :: some y :: some z0 :: some z1 :: rest) =
        ⟨[], .refused, 0⟩) ∧
    (∀ (M : List Int) (sr : List (Int × Int)) (peer : List (Option Int)) (x y : Int) (zs : List Int),
      2 ≤ M.length → readN (2 + M.length) peer = some (x :: y :: zs) →
      (¬ Mem G x ∨ ¬ Mem G y ∨ (∃ z ∈ zs, ¬ Mem G z) ∨ ¬ zs.Nodup) →
      send1N I M sr peer = ⟨[], .refused, 0⟩) ∧
    (∀ (M : List Int) (sr : List (Int × Int)) (x y z0 : Int) (rest : List (Option Int)),
      2 ≤ M.length → (¬ Mem G x ∨ ¬ Mem G y ∨ ¬ Mem G z0) →
      sendOpt I M sr (some x :: some y :: some z0 :: rest) = ⟨[], .refused, 0⟩) :=
  ⟨fun M0 M1 r0 s0 r1 s1 x y z0 z1 rest h => send12_aborts hG hI M0 M1 r0 s0 r1 s1 x y z0 z1 rest h,
   fun M sr peer x y zs hN hread h => (send1N_aborts hG hI M sr peer x y zs hread h).2.2 hN,
   fun M sr x y z0 rest hN h => sendOpt_aborts hG hI M sr x y z0 rest hN h⟩

/-- **C18, the ciphertexts of the messages not chosen do not decrypt to those messages under the
    chooser's own secrets**: the exact value the chooser can compute from ciphertext `i ≠ σ` is
    `M_i · g^{(c_i - ab)·s_i}` (`c_i - ab = i - σ` in the optimised variant), which equals `M_i`
    only on the explicit exceptional set of coins `(c_i - ab)·s_i ≡ 0 (mod q)`.
    (The three conjuncts are `ot12_unchosen`, `ot1N_unchosen`, `otOpt_unchosen`.) -/
theorem unchosen_not_decrypted (hG : ValidGroup G) {I : Inst} (hI : InstOk G I) :
    (∀ {M0 M1 : Int}, Mem G M0 → Mem G M1 → ∀ {σ : Nat}, σ < 2 →
      ∀ {a b c r0 s0 r1 s1 : Int}, InQ G a → InQ G b → InQ G c → InQ G r0 → InQ G s0 → InQ G r1 →
      InQ G s1 → c ≠ a * b % G.q →
      ∃ first w0 e0 w1 e1 m,
        choose12 I σ a b c [] = ⟨first, .threw, 3⟩ ∧
        send12 I M0 M1 r0 s0 r1 s1 (first.map some) = ⟨[w0, e0, w1, e1], .done none, 4⟩ ∧
        decrypt I b (if σ = 0 then w1 else w0) (if σ = 0 then e1 else e0) = .ok (some m) ∧
        toF G m = toF G (if σ = 0 then M1 else M0) *
          toF G G.g ^ ((c - a * b) * (if σ = 0 then s1 else s0)) ∧
        (m = (if σ = 0 then M1 else M0) ↔
          ((c - a * b) * (if σ = 0 then s1 else s0)) % G.q = 0)) ∧
    (∀ (M : List Int), (∀ m ∈ M, Mem G m) → 2 ≤ M.length → ∀ {σ : Nat}, σ < M.length →
      ∀ {a b : Int}, InQ G a → InQ G b → ∀ {cs : List Int}, cs.length = M.length →
      (∀ c ∈ cs, InQ G c) → ∀ {sr : List (Int × Int)}, sr.length = M.length →
      (∀ p ∈ sr, InQ G p.1 ∧ InQ G p.2) → (expo σ (a * b % G.q) 0 cs).Nodup →
      ∃ first l,
        choose1N I σ a b cs [] = ⟨first, .threw, 2 + M.length⟩ ∧
        send1N I M sr (first.map some) = ⟨flat l, .done none, 2 * M.length⟩ ∧ l.length = M.length ∧
        ∀ i w e ci Mi s r, i ≠ σ → l[i]? = some (w, e) → cs[i]? = some ci → M[i]? = some Mi →
          sr[i]? = some (s, r) →
          ∃ m, decrypt I b w e = .ok (some m) ∧
            toF G m = toF G Mi * toF G G.g ^ ((ci - a * b) * s) ∧
            (m = Mi ↔ ((ci - a * b) * s) % G.q = 0)) ∧
    (∀ (M : List Int), (∀ m ∈ M, Mem G m) → 2 ≤ M.length → ∀ {σ : Nat}, σ < M.length →
      bitlen (σ : Int) ≤ bitlen G.q → ∀ {a b : Int}, InQ G a → InQ G b →
      ∀ {sr : List (Int × Int)}, sr.length = M.length → (∀ p ∈ sr, InQ G p.1 ∧ InQ G p.2) →
      ∃ first l,
        chooseOpt I σ M.length a b [] = ⟨first, .threw, 2⟩ ∧
        sendOpt I M sr (first.map some) = ⟨flat l, .done none, 2 * M.length⟩ ∧ l.length = M.length ∧
        ∀ (i : Nat) (w e Mi s r : Int), i ≠ σ → l[i]? = some (w, e) → M[i]? = some Mi →
          sr[i]? = some (s, r) →
          ∃ m, decrypt I b w e = .ok (some m) ∧
            toF G m = toF G Mi * toF G G.g ^ (((i : Int) - σ) * s) ∧
            (m = Mi ↔ (((i : Int) - σ) * s) % G.q = 0)) :=
  ⟨fun hM0 hM1 _ hσ _ _ _ _ _ _ _ ha hb hc hr0 hs0 hr1 hs1 hne =>
      ot12_unchosen hG hI hM0 hM1 hσ ha hb hc hr0 hs0 hr1 hs1 hne,
   fun M hM hN _ hσ _ _ ha hb _ hcl hcs _ hsl hsr hnd =>
      ot1N_unchosen hG hI M hM hN hσ ha hb hcl hcs hsl hsr hnd,
   fun M hM hN _ hσ hσq _ _ ha hb _ hsl hsr =>
      otOpt_unchosen hG hI M hM hN hσ hσq ha hb hsl hsr⟩

/-! ### non-vacuity: the group `p = 23`, `q = 11`, `g = 2` -/

theorem valid23 : ValidGroup ⟨23, 11, 2⟩ :=
  ⟨by decide, by decide, by norm_num, by norm_num, by decide, by decide, by decide, by decide⟩

end

theorem mem23 (m : Int) (h : 0 < m ∧ m < 23 ∧ m ^ 11 % 23 = 1) :
    haveI := fact_prime valid23
    Mem ⟨23, 11, 2⟩ m := by
  have := fact_prime valid23
  refine ⟨h.1, h.2.1, ?_⟩
  rw [← toF_pow, ← toF_one (G := ⟨23, 11, 2⟩), toF_eq_iff valid23]
  exact h.2.2

/-- the hypotheses of `ot1N_correct` are satisfiable: `N = 3`, `σ = 1`, messages `2, 4, 8` -/
example : ∃ I first reply, mkInst ⟨23, 11, 2⟩ = .ok I ∧
    choose1N I 1 3 4 [5, 0, 7] [] = ⟨first, .threw, 5⟩ ∧
    send1N I [2, 4, 8] [(1, 2), (3, 4), (5, 6)] (first.map some) = ⟨reply, .done none, 6⟩ ∧
    choose1N I 1 3 4 [5, 0, 7] (reply.map some) = ⟨first, .done (some 4), 5⟩ := by
  have := fact_prime valid23
  obtain ⟨I, hI, hok⟩ := mkInst_ok valid23
  have hM : ∀ m ∈ [(2 : Int), 4, 8], Mem ⟨23, 11, 2⟩ m := by
    intro m hm
    simp only [List.mem_cons, List.not_mem_nil, or_false] at hm
    rcases hm with rfl | rfl | rfl <;> exact mem23 _ (by decide)
  obtain ⟨first, reply, h1, h2, h3⟩ :=
    ot1N_correct valid23 hok [2, 4, 8] hM (by decide) (σ := 1) (by decide) (a := 3) (b := 4)
      ⟨by decide, by decide⟩ ⟨by decide, by decide⟩ (cs := [5, 0, 7]) rfl
      (by intro c hc; simp only [List.mem_cons, List.not_mem_nil, or_false] at hc
          rcases hc with rfl | rfl | rfl <;> exact ⟨by decide, by decide⟩)
      (sr := [(1, 2), (3, 4), (5, 6)]) rfl
      (by intro c hc; simp only [List.mem_cons, List.not_mem_nil, or_false] at hc
          rcases hc with rfl | rfl | rfl <;> exact ⟨⟨by decide, by decide⟩, ⟨by decide, by decide⟩⟩)
      (by decide)
  exact ⟨I, first, reply, hI, h1, h2, h3⟩

/-- the three protocols evaluated on that group (kernel computation on the executable model):
    1-out-of-2 with `σ = 1`, 1-out-of-N and optimised 1-out-of-N with `N = 3`, `σ = 1` -/
example :
    (match mkInst ⟨23, 11, 2⟩ with
     | .ok I =>
       let c1 := choose12 I 1 3 4 5 []
       let s := send12 I 2 4 1 2 3 4 (c1.written.map some)
       let c2 := choose12 I 1 3 4 5 (s.written.map some)
       let d1 := choose1N I 1 3 4 [5, 0, 7] []
       let t := send1N I [2, 4, 8] [(1, 2), (3, 4), (5, 6)] (d1.written.map some)
       let d2 := choose1N I 1 3 4 [5, 0, 7] (t.written.map some)
       let o1 := chooseOpt I 1 3 3 4 []
       let u := sendOpt I [2, 4, 8] [(1, 2), (3, 4), (5, 6)] (o1.written.map some)
       let o2 := chooseOpt I 1 3 3 4 (u.written.map some)
       [c1.result, s.result, c2.result, d1.result, t.result, d2.result, o1.result, u.result, o2.result]
     | .error _ => []) =
    [.threw, .done none, .done (some 4), .threw, .done none, .done (some 4),
      .threw, .done none, .done (some 4)] := by
  decide +kernel

/-- … and an exceptional coin: `c = ab mod q` in the 1-out-of-2 protocol — the sender refuses the
    honest chooser's first move -/
example :
    (match mkInst ⟨23, 11, 2⟩ with
     | .ok I => (send12 I 2 4 1 2 3 4 ((choose12 I 1 3 4 1 []).written.map some)).result
     | .error _ => .threw) = .refused := by
  decide +kernel

end Tmcg.OtProofs
