import Tmcg.Model.Ot
import TmcgProofs.Group
import TmcgProofs.SigmaComplete
import Mathlib.Tactic.NormNum.Prime
/-
  C18: oblivious transfer (`Tmcg.Ot`, model of src/NaorPinkasEOTP.cc).
-/
namespace Tmcg.OtProofs
open Tmcg Tmcg.Powm Tmcg.Vtmf Tmcg.Grp Tmcg.Sigma Tmcg.SigmaComplete Tmcg.Ot

variable {G : Group}

/-- an instance over `G` as the constructor builds it -/
structure InstOk (G : Group) (I : Inst) : Prop where
  grp : I.G = G
  tab : IsTable G I.tab G.g

/-- a drawn coin: `tmcg_mpz_srandomm(·, q)` returns a value in `[0, q)` -/
def InQ (G : Group) (c : Int) : Prop := 0 ≤ c ∧ c < G.q

theorem mkInst_ok (hG : ValidGroup G) : ∃ I, mkInst G = .ok I ∧ InstOk G I := by
  obtain ⟨T, hT⟩ := precompute_ok G.g G.p (tableLen G) (ne_of_gt hG.p_pos)
  refine ⟨⟨G, T⟩, ?_, rfl, hT⟩
  unfold mkInst
  unfold tableLen at hT
  rw [hT]; rfl

section
variable [Fact (Nat.Prime G.p.natAbs)]
set_option linter.unusedVariables false
set_option linter.unusedSectionVars false

theorem checkElement_eq (hG : ValidGroup G) {I : Inst} (hI : InstOk G I) (a : Int) :
    Ot.checkElement I a = true ↔ Mem G a := by
  unfold Ot.checkElement
  rw [hI.grp]
  exact checkElement_iff hG a

theorem checkElement_false (hG : ValidGroup G) {I : Inst} (hI : InstOk G I) {a : Int}
    (h : ¬ Mem G a) : Ot.checkElement I a = false := by
  rcases hc : Ot.checkElement I a with _ | _
  · rfl
  · exact absurd ((checkElement_eq hG hI a).mp hc) h

theorem InQ.natAbs_lt (hG : ValidGroup G) {c : Int} (h : InQ G c) : c.natAbs < G.q.natAbs := by
  have := h.1; have := h.2; omega

theorem inQ_emod (hG : ValidGroup G) (e : Int) : InQ G (e % G.q) :=
  ⟨Int.emod_nonneg _ (ne_of_gt hG.q_pos), Int.emod_lt_of_pos _ hG.q_pos⟩

theorem g_ne (hG : ValidGroup G) : toF G G.g ≠ 0 := g_ne_zero hG

/-- `g^e` is a member of the subgroup -/
theorem gpow_q (hG : ValidGroup G) (e : Int) : (toF G G.g ^ e) ^ G.q.natAbs = 1 :=
  zpow_pow_q (g_pow_q hG) e

/-- the fixed-base routine on the instance table, exponent in `[0, q)` -/
theorem gpow_val (hG : ValidGroup G) {I : Inst} (hI : InstOk G I) (e : Int) (he : InQ G e) :
    ∃ r, fspowm I.tab I.G.g e I.G.p = .ok r ∧ Mem G r ∧ toF G r = toF G G.g ^ e := by
  rw [hI.grp]
  obtain ⟨r, hr, h0, h1, hv⟩ := fspowm_val hG I.tab G.g e hI.tab (g_ne hG) (he.natAbs_lt hG)
  exact ⟨r, hr, mem_of_val h0 h1 hv (zpow_ne_zero _ (g_ne hG)) (gpow_q hG e), hv⟩

/-- exponents only matter modulo `q` -/
theorem gpow_emod (hG : ValidGroup G) (e : Int) : toF G G.g ^ (e % G.q) = toF G G.g ^ e :=
  zpow_mod_q hG _ (g_pow_q hG) (g_ne hG) e


theorem gpow_inj (hG : ValidGroup G) {e e' : Int} (he : InQ G e) (he' : InQ G e')
    (h : toF G G.g ^ e = toF G G.g ^ e') : e = e' := by
  have h1 : e = ((e.toNat : Nat) : Int) := (Int.toNat_of_nonneg he.1).symm
  have h2 : e' = ((e'.toNat : Nat) : Int) := (Int.toNat_of_nonneg he'.1).symm
  rw [h1, h2, zpow_natCast, zpow_natCast] at h
  have hq := hG.q_pos
  have := g_pow_inj hG (t := e.toNat) (t' := e'.toNat) (by have := he.2; omega) (by have := he'.2; omega) h
  omega

theorem mem_of_gpow (hG : ValidGroup G) {z : Int} (h0 : 0 ≤ z) (h1 : z < G.p) {e : Int}
    (hv : toF G z = toF G G.g ^ e) : Mem G z :=
  mem_of_val h0 h1 hv (zpow_ne_zero _ (g_ne hG)) (gpow_q hG e)

/-! ### the sender's ciphertext and the chooser's decryption -/

theorem encOne_val (hG : ValidGroup G) {I : Inst} (hI : InstOk G I) {x y z : Int} (M s r : Int)
    (hx : Mem G x) (hy : Mem G y) (hz : Mem G z) (hr : InQ G r) :
    ∃ w e, encOne I x y z M s r = .ok (w, e) ∧ Mem G w ∧ (0 ≤ e ∧ e < G.p) ∧
      toF G w = toF G x ^ s * toF G G.g ^ r ∧
      toF G e = toF G z ^ s * toF G y ^ r * toF G M := by
  obtain ⟨f1, hf1, -, -, v1⟩ := spowm_val hG x s (hx.ne_zero hG)
  obtain ⟨f2, hf2, m2, v2⟩ := gpow_val hG hI r hr
  obtain ⟨f3, hf3, -, -, v3⟩ := spowm_val hG z s (hz.ne_zero hG)
  obtain ⟨f4, hf4, -, -, v4⟩ := spowm_val hG y r (hy.ne_zero hG)
  obtain ⟨w0, w1, wv⟩ := mulmod_val hG f1 f2
  obtain ⟨k0, k1, kv⟩ := mulmod_val hG f3 f4
  obtain ⟨e0, e1, ev⟩ := mulmod_val hG (f3 * f4 % G.p) M
  rw [hI.grp] at hf2
  refine ⟨f1 * f2 % G.p, (f3 * f4 % G.p) * M % G.p, ?_, ?_, ⟨e0, e1⟩, ?_, ?_⟩
  · simp [encOne, hI.grp, bind, Except.bind, hf1, hf2, hf3, hf4]
  · rw [v1, v2] at wv
    refine mem_of_val w0 w1 wv (mul_ne_zero (zpow_ne_zero _ (hx.ne_zero hG)) (zpow_ne_zero _ (g_ne hG))) ?_
    rw [mul_pow, zpow_pow_q hx.2.2, gpow_q hG, one_mul]
  · rw [wv, v1, v2]
  · rw [ev, kv, v3, v4]

theorem decrypt_val (hG : ValidGroup G) {I : Inst} (hI : InstOk G I) (b w e : Int)
    (hw : toF G w ≠ 0) :
    ∃ m, decrypt I b w e = .ok (some m) ∧ (0 ≤ m ∧ m < G.p) ∧
      toF G m = toF G e * (toF G w ^ b)⁻¹ := by
  obtain ⟨foo, hfoo, -, -, vfoo⟩ := mpzPowm_val hG w b hw
  have hfoo0 : toF G foo ≠ 0 := by rw [vfoo]; exact zpow_ne_zero _ hw
  obtain ⟨bar, hbar, -, -, vbar⟩ := invm_val hG foo hfoo0
  obtain ⟨m0, m1, mv⟩ := mulmod_val hG e bar
  refine ⟨e * bar % G.p, ?_, ⟨m0, m1⟩, ?_⟩
  · simp [decrypt, hI.grp, bind, Except.bind, hfoo, hbar]
  · rw [mv, vbar, vfoo]

/-- the algebra of one transfer: with `x = g^a`, `y = g^b`, `z = g^c` the chooser's computation
    on `(w, ENC) = (x^s g^r, z^s y^r M)` gives `M · g^{(c - ab)·s}` -/
theorem transfer_alg (hG : ValidGroup G) (a b c s r : Int) (μ : F G) :
    ((toF G G.g ^ c) ^ s * (toF G G.g ^ b) ^ r * μ) *
      (((toF G G.g ^ a) ^ s * toF G G.g ^ r) ^ b)⁻¹ = μ * toF G G.g ^ ((c - a * b) * s) := by
  have hγ := g_ne hG
  have key : toF G G.g ^ (c * s) * toF G G.g ^ (b * r) * toF G G.g ^ (-((a * s + r) * b)) =
      toF G G.g ^ ((c - a * b) * s) := by
    rw [← zpow_add₀ hγ, ← zpow_add₀ hγ]; congr 1; ring
  have e1 : ((toF G G.g ^ a) ^ s * toF G G.g ^ r) ^ b = toF G G.g ^ ((a * s + r) * b) := by
    rw [← zpow_mul, ← zpow_add₀ hγ, ← zpow_mul]
  rw [e1, ← zpow_neg, ← zpow_mul, ← zpow_mul, ← key]
  ring

/-- encrypt with the sender's routine, decrypt with the chooser's -/
theorem enc_decrypt (hG : ValidGroup G) {I : Inst} (hI : InstOk G I) {x y z : Int} (a b c M s r : Int)
    (hx : Mem G x) (hy : Mem G y) (hz : Mem G z) (hr : InQ G r)
    (vx : toF G x = toF G G.g ^ a) (vy : toF G y = toF G G.g ^ b) (vz : toF G z = toF G G.g ^ c) :
    ∃ w e m, encOne I x y z M s r = .ok (w, e) ∧ Mem G w ∧ decrypt I b w e = .ok (some m) ∧
      (0 ≤ m ∧ m < G.p) ∧ toF G m = toF G M * toF G G.g ^ ((c - a * b) * s) := by
  obtain ⟨w, e, henc, hw, -, vw, ve⟩ := encOne_val hG hI M s r hx hy hz hr
  obtain ⟨m, hdec, hm, vm⟩ := decrypt_val hG hI b w e (hw.ne_zero hG)
  refine ⟨w, e, m, henc, hw, hdec, hm, ?_⟩
  rw [vm, ve, vw, vx, vy, vz]
  exact transfer_alg hG a b c s r _

/-- the decrypted value is the message exactly when the blinding exponent vanishes mod `q` -/
theorem eq_iff_exc (hG : ValidGroup G) {M m : Int} (hM : Mem G M) (hm : 0 ≤ m ∧ m < G.p) (k : Int)
    (hv : toF G m = toF G M * toF G G.g ^ k) : m = M ↔ k % G.q = 0 := by
  have h1 : m = M ↔ toF G m = toF G M :=
    ⟨fun h => by rw [h], fun h => eq_of_toF_eq hG hm ⟨hM.1.le, hM.2.1⟩ h⟩
  rw [h1, hv, mul_eq_left₀ (hM.ne_zero hG)]
  constructor
  · intro h
    have : toF G G.g ^ (k % G.q) = toF G G.g ^ (0 : Int) := by rw [gpow_emod hG, h, zpow_zero]
    exact gpow_inj hG (inQ_emod hG k) ⟨le_refl 0, hG.q_pos⟩ this
  · intro h
    rw [← gpow_emod hG, h, zpow_zero]

/-- … in particular when the exponent is `≡ 0`: the message itself -/
theorem eq_of_exc (hG : ValidGroup G) {M m : Int} (hM : Mem G M) (hm : 0 ≤ m ∧ m < G.p) (k : Int)
    (hv : toF G m = toF G M * toF G G.g ^ k) (hk : k % G.q = 0) : m = M :=
  (eq_iff_exc hG hM hm k hv).mpr hk

/-! ### line plumbing -/

omit [Fact (Nat.Prime G.p.natAbs)] in
theorem readPairs_flat (l : List (Int × Int)) : readPairs l.length ((flat l).map some) = some l := by
  induction l with
  | nil => rfl
  | cons p t ih =>
    obtain ⟨w, e⟩ := p
    simp [flat, readPairs, ih]

omit [Fact (Nat.Prime G.p.natAbs)] in
theorem readN_map (l : List Int) : readN l.length (l.map some) = some l := by
  induction l with
  | nil => rfl
  | cons p t ih => simp [readN, ih]

/-- the chooser's second move on a well-formed reply -/
theorem secondMove_ok (hG : ValidGroup G) {I : Inst} (hI : InstOk G I) (σ : Nat) (b : Int)
    (first : List Int) (d : Nat) (l : List (Int × Int)) (hl : ∀ p ∈ l, Mem G p.1)
    {w e m : Int} (hσ : l[σ]? = some (w, e)) (hdec : decrypt I b w e = .ok (some m)) :
    secondMove I σ l.length b first d ((flat l).map some) = ⟨first, .done (some m), d⟩ := by
  have hall : (l.all fun p => Ot.checkElement I p.1) = true :=
    List.all_eq_true.mpr fun p hp => (checkElement_eq hG hI _).mpr (hl p hp)
  unfold secondMove
  rw [readPairs_flat]
  simp [hall, hσ, hdec]

omit [Fact (Nat.Prime G.p.natAbs)] in
/-- without a reply the stream operator throws; the first move has been written -/
theorem secondMove_nil (I : Inst) (σ N : Nat) (hN : 0 < N) (b : Int) (first : List Int) (d : Nat) :
    secondMove I σ N b first d [] = ⟨first, .threw, d⟩ := by
  obtain ⟨n, rfl⟩ := Nat.exists_eq_succ_of_ne_zero (by omega : N ≠ 0)
  simp [secondMove, readPairs]

end
end Tmcg.OtProofs
