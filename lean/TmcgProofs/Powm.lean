import Tmcg.Model.Powm
import TmcgProofs.Base
import Mathlib.Data.Nat.Bits
import Mathlib.Data.Nat.Bitwise
/-
  Specification lemmas for src/mpz_spowm.cc's model (Tmcg/Model/Powm.lean), used by
  C09, C01, C03, C08.   `T.get i` is entry `i` of a precomputed table (0 beyond it).
-/
namespace Tmcg.Powm
open Tmcg

/-- number of table entries actually computed by `precompute … t` -/
def tableSize (t : Nat) : Nat := max 1 (min t Gen.TMCG_MAX_FPOWM_T)

theorem precompute_ok (g p : Int) (t : Nat) (hp : p ≠ 0) :
    ∃ T, precompute g p t = .ok T := by
  sorry

/-- entries of a precomputed table: `g` itself, then iterated squares mod `p`, then zeros -/
theorem precompute_get (g p : Int) (t : Nat) (hp : p ≠ 0) (T : Table)
    (hT : precompute g p t = .ok T) :
    T.get 0 = g ∧
    (∀ i, 0 < i → i < tableSize t → T.get i = g ^ (2 ^ i) % p) ∧
    (∀ i, tableSize t ≤ i → T.get i = 0) := by
  sorry

/-- `tmcg_mpz_fpowm` on its table base, exponent within the table:
    plain modular exponentiation, inverse power for negative exponents -/
theorem fpowm_spec (g p : Int) (t : Nat) (hp : 1 < p) (T : Table)
    (hT : precompute g p t = .ok T) (x : Int) (hlen : bitlen x ≤ tableSize t) :
    fpowm T g x p =
      if 0 ≤ x then .ok (g ^ x.natAbs % p)
      else match invm (g ^ x.natAbs % p) p with
        | none => .error .runtimeError
        | some r => .ok r := by
  sorry

theorem fpowmUi_spec (g p : Int) (t : Nat) (hp : 1 < p) (T : Table)
    (hT : precompute g p t = .ok T) (x : Nat) (hlen : bitlen x ≤ tableSize t) :
    fpowmUi T g x p = .ok (g ^ x % p) := by
  sorry

/-- `tmcg_mpz_fspowm` (always-multiply variant with dummy operations): same value as `fpowm`
    whenever the power is invertible, `runtime_error` otherwise (for either sign) -/
theorem fspowm_spec (g p : Int) (t : Nat) (hp : 1 < p) (T : Table)
    (hT : precompute g p t = .ok T) (x : Int) (hlen : bitlen x ≤ tableSize t) :
    fspowm T g x p =
      match invm (g ^ x.natAbs % p) p with
      | none => .error .runtimeError
      | some r => .ok (if 0 ≤ x then g ^ x.natAbs % p else r) := by
  sorry

/-- wrong base is refused by all three table routines -/
theorem wrong_base (T : Table) (m x p : Int) (h : m ≠ T.get 0) :
    fpowm T m x p = .error .invalidArgument ∧ fspowm T m x p = .error .invalidArgument ∧
    fpowmUi T m x.toNat p = .error .invalidArgument := by
  sorry

/-- exponents longer than `TMCG_MAX_FPOWM_T` bits are refused -/
theorem exponent_too_large (T : Table) (x p : Int) (h : Gen.TMCG_MAX_FPOWM_T < bitlen x) :
    fpowm T (T.get 0) x p = .error .invalidArgument ∧
    fspowm T (T.get 0) x p = .error .invalidArgument := by
  sorry

/-- `tmcg_mpz_spowm` (constant-time variant, after the repair of finding F6): for an odd
    modulus and a base coprime to it, the plain power for every exponent (the inverse power
    for negative ones) -/
theorem spowm_spec (m x p : Int) (hp : 1 < p) (hodd : p % 2 = 1) (hm : Int.gcd m p = 1) :
    ∃ r, spowm m x p = .ok r ∧ 0 ≤ r ∧ r < p ∧
      (if 0 ≤ x then r = m ^ x.natAbs % p else r * m ^ x.natAbs % p = 1) := by
  sorry

theorem spowm_even (m x p : Int) (h : p % 2 = 0) : spowm m x p = .error .invalidArgument := by
  unfold spowm; simp [h]

/-- a base that is not a unit is refused with `runtime_error` (never a wrong value) -/
theorem spowm_not_coprime (m x p : Int) (hp : 1 < p) (hodd : p % 2 = 1) (hm : Int.gcd m p ≠ 1) :
    spowm m x p = .error .runtimeError := by
  sorry

end Tmcg.Powm
