import Tmcg.Model.Powm
import TmcgProofs.Base
import Mathlib.Data.Nat.Bits
import Mathlib.Data.Nat.Bitwise
/-
  Specification lemmas for src/mpz_spowm.cc's model (Tmcg/Model/Powm.lean), used by
  C09, C01, C03, C08.   `T.get i` is entry `i` of a precomputed table (0 beyond it).
-/
namespace Tmcg.Powm
open Tmcg

/-- number of table entries actually computed by `precompute … t` -/
def tableSize (t : Nat) : Nat := max 1 (min t Gen.TMCG_MAX_FPOWM_T)

/-- the only fact about the generated constant that the proofs use -/
theorem max_fpowm_pos : 0 < Gen.TMCG_MAX_FPOWM_T := by decide

/-- entries of `precomputeGo`: the start value, then iterated squares mod `p`, then zeros -/
theorem precomputeGo_getD (p : Int) : ∀ (n : Nat) (cur : Int) (i : Nat),
    (precomputeGo p n cur).getD i 0 =
      if i < n then (if i = 0 then cur else cur ^ (2 ^ i) % p) else 0 := by
  intro n
  induction n with
  | zero => intro cur i; simp [precomputeGo]
  | succ n ih =>
    intro cur i
    cases i with
    | zero => simp [precomputeGo]
    | succ j =>
      simp only [precomputeGo, List.getD_cons_succ, ih, Nat.succ_lt_succ_iff, Nat.succ_ne_zero,
        if_false]
      by_cases hj : j < n
      · simp only [hj, if_true]
        have key : (cur * cur % p) ^ (2 ^ j) % p = cur ^ (2 ^ (j + 1)) % p := by
          have h1 : (cur * cur % p) ^ (2 ^ j) ≡ (cur * cur) ^ (2 ^ j) [ZMOD p] :=
            (Int.mod_modEq _ _).pow _
          rw [h1.eq, pow_succ, pow_mul', pow_two]
        by_cases hj0 : j = 0
        · subst hj0; simp [pow_two]
        · simp only [hj0, if_false]
          exact key
      · simp [hj]

theorem precompute_ok (g p : Int) (t : Nat) (hp : p ≠ 0) :
    ∃ T, precompute g p t = .ok T := by
  unfold precompute; simp [hp]

/-- entries of a precomputed table: `g` itself, then iterated squares mod `p`, then zeros -/
theorem precompute_get (g p : Int) (t : Nat) (hp : p ≠ 0) (T : Table)
    (hT : precompute g p t = .ok T) :
    T.get 0 = g ∧
    (∀ i, 0 < i → i < tableSize t → T.get i = g ^ (2 ^ i) % p) ∧
    (∀ i, tableSize t ≤ i → T.get i = 0) := by
  unfold precompute at hT
  simp only [hp, if_false] at hT
  injection hT with hT
  subst hT
  have hpos : 0 < tableSize t := by unfold tableSize; omega
  refine ⟨?_, ?_, ?_⟩
  · simp only [Table.get, precomputeGo_getD]
    simp [show 0 < max 1 (min t Gen.TMCG_MAX_FPOWM_T) from hpos]
  · intro i hi hlt
    simp only [Table.get, precomputeGo_getD]
    have : i < max 1 (min t Gen.TMCG_MAX_FPOWM_T) := hlt
    simp [this, Nat.ne_of_gt hi]
  · intro i hle
    simp only [Table.get, precomputeGo_getD]
    have : ¬ i < max 1 (min t Gen.TMCG_MAX_FPOWM_T) := Nat.not_lt.mpr hle
    simp [this]

/-! ### the multiplication loop -/

theorem low_bit_split (y n : Nat) : y % 2 ^ (n + 1) = y % 2 + 2 * (y / 2 % 2 ^ n) := by
  rw [pow_succ', Nat.mod_mul]

/-- invariant of `mulLoop`: starting at bit `i`, `n` further bits of `x` are consumed; the
    accumulator is untouched when all of them are clear (it is *not* reduced then), otherwise
    it is multiplied by the matching power of `g` and reduced -/
theorem mulLoop_spec (T : Table) (p g : Int) (x : Nat) : ∀ (n i : Nat) (res : Int),
    (∀ j, j < i + n → T.get j ≡ g ^ (2 ^ j) [ZMOD p]) →
    mulLoop T p x n i res =
      if (x / 2 ^ i) % 2 ^ n = 0 then res
      else (res * g ^ ((x / 2 ^ i) % 2 ^ n * 2 ^ i)) % p := by
  intro n
  induction n with
  | zero => intro i res _; simp [mulLoop, Nat.mod_one]
  | succ n ih =>
    intro i res htab
    unfold mulLoop
    rw [ih (i + 1) _ (fun j hj => htab j (by omega))]
    have hdiv : x / 2 ^ (i + 1) = x / 2 ^ i / 2 := by
      rw [Nat.div_div_eq_div_mul, pow_succ]
    have hbit : tstbit x i = decide ((x / 2 ^ i) % 2 = 1) := by
      unfold tstbit; rw [Nat.shiftRight_eq_div_pow]
    rw [hdiv, low_bit_split, hbit]
    have hti : T.get i ≡ g ^ (2 ^ i) [ZMOD p] := htab i (by omega)
    generalize x / 2 ^ i = y
    generalize hm : y / 2 % 2 ^ n = m
    rcases Nat.mod_two_eq_zero_or_one y with h | h
    · simp only [h, zero_add]
      by_cases hm0 : m = 0
      · simp [hm0]
      · have : 2 * m ≠ 0 := by omega
        simp only [hm0, this, if_false]
        have : m * 2 ^ (i + 1) = 2 * m * 2 ^ i := by rw [pow_succ]; ring
        simp [this]
    · have h12 : 1 + 2 * m ≠ 0 := by omega
      simp only [h, h12, decide_true, if_true, if_false]
      have h1 : res * T.get i % p ≡ res * g ^ (2 ^ i) [ZMOD p] :=
        (Int.mod_modEq _ _).trans (Int.ModEq.mul_left _ hti)
      by_cases hm0 : m = 0
      · simp only [hm0, if_true, mul_zero, add_zero, one_mul]
        exact Int.ModEq.mul_left _ hti
      · simp only [hm0, if_false]
        have h2 := Int.ModEq.mul_right (g ^ (m * 2 ^ (i + 1))) h1
        have h3 : res * g ^ (2 ^ i) * g ^ (m * 2 ^ (i + 1)) = res * g ^ ((1 + 2 * m) * 2 ^ i) := by
          rw [mul_assoc, ← pow_add]
          congr 2
          rw [pow_succ]; ring
        rw [h3] at h2
        exact h2

theorem natAbs_lt_two_pow_bitlen (x : Int) : x.natAbs < 2 ^ bitlen x := by
  unfold bitlen
  by_cases h : x.natAbs = 0
  · simp [h]
  · simp only [h, if_false]
    exact Nat.lt_log2_self

theorem table_modEq (g p : Int) (t : Nat) (hp : p ≠ 0) (T : Table)
    (hT : precompute g p t = .ok T) :
    ∀ j, j < tableSize t → T.get j ≡ g ^ (2 ^ j) [ZMOD p] := by
  obtain ⟨h0, h1, _⟩ := precompute_get g p t hp T hT
  intro j hj
  rcases Nat.eq_zero_or_pos j with rfl | hpos
  · rw [h0]; simp
  · rw [h1 j hpos hj]; exact Int.mod_modEq _ _

theorem mulLoop_full (T : Table) (p g : Int) (x n : Nat) (hp : 1 < p)
    (htab : ∀ j, j < n → T.get j ≡ g ^ (2 ^ j) [ZMOD p]) (hx : x < 2 ^ n) :
    mulLoop T p x n 0 1 = g ^ x % p := by
  rw [mulLoop_spec T p g x n 0 1 (by simpa using htab)]
  simp only [pow_zero, Nat.div_one, Nat.mod_eq_of_lt hx, mul_one, one_mul]
  by_cases h0 : x = 0
  · subst h0
    simp only [if_true, pow_zero]
    exact (Int.emod_eq_of_lt (by norm_num) hp).symm
  · simp [h0]

theorem mulLoop_bitlen (g p : Int) (t : Nat) (hp : 1 < p) (T : Table)
    (hT : precompute g p t = .ok T) (x : Int) (hlen : bitlen x ≤ tableSize t) :
    mulLoop T p x.natAbs (bitlen x) 0 1 = g ^ x.natAbs % p :=
  mulLoop_full T p g x.natAbs (bitlen x) hp
    (fun j hj => table_modEq g p t (by omega) T hT j (by omega))
    (natAbs_lt_two_pow_bitlen x)

theorem bitlen_le_max {x : Int} {t : Nat} (hlen : bitlen x ≤ tableSize t) :
    bitlen x ≤ Gen.TMCG_MAX_FPOWM_T := by
  have := max_fpowm_pos
  unfold tableSize at hlen
  omega

/-- `tmcg_mpz_fpowm` on its table base, exponent within the table:
    plain modular exponentiation, inverse power for negative exponents -/
theorem fpowm_spec (g p : Int) (t : Nat) (hp : 1 < p) (T : Table)
    (hT : precompute g p t = .ok T) (x : Int) (hlen : bitlen x ≤ tableSize t) :
    fpowm T g x p =
      if 0 ≤ x then .ok (g ^ x.natAbs % p)
      else match invm (g ^ x.natAbs % p) p with
        | none => .error .runtimeError
        | some r => .ok r := by
  have hp0 : p ≠ 0 := by omega
  have hg : T.get 0 = g := (precompute_get g p t hp0 T hT).1
  unfold fpowm
  simp only [hg, ne_eq, not_true_eq_false, if_false, bitlen_le_max hlen, if_true, hp0, false_and,
    mulLoop_bitlen g p t hp T hT x hlen]
  by_cases hx : x < 0
  · simp only [hx, not_le.mpr hx, if_true, if_false]
    cases invm (g ^ x.natAbs % p) p <;> rfl
  · simp [hx, not_lt.mp hx]

theorem fpowmUi_spec (g p : Int) (t : Nat) (hp : 1 < p) (T : Table)
    (hT : precompute g p t = .ok T) (x : Nat) (hlen : bitlen x ≤ tableSize t) :
    fpowmUi T g x p = .ok (g ^ x % p) := by
  have hp0 : p ≠ 0 := by omega
  have hg : T.get 0 = g := (precompute_get g p t hp0 T hT).1
  unfold fpowmUi
  have := mulLoop_bitlen g p t hp T hT x hlen
  simp only [Int.natAbs_natCast] at this
  simp [hg, hp0, this]

/-- the `bar` component of the always-multiply loop does not influence the result -/
theorem fsLoop_fst (T : Table) (p : Int) (x : Nat) : ∀ (n i : Nat) (res bar : Int),
    (fsLoop T p x n i res bar).1 = mulLoop T p x n i res := by
  intro n
  induction n with
  | zero => intro i res bar; simp [fsLoop, mulLoop]
  | succ n ih =>
    intro i res bar
    unfold fsLoop mulLoop
    by_cases h : tstbit x i <;> simp [h, ih]

/-- a dummy operation `b * r * b⁻¹ mod p` returns `r` when `r` is already reduced -/
theorem unit_conj {p : Int} (r b f : Int) (h0 : 0 ≤ r) (h1 : r < p)
    (hbf : b * f ≡ 1 [ZMOD p]) : (b * r % p) * f % p = r := by
  have h : (b * r % p) * f ≡ r [ZMOD p] := by
    have h2 : (b * r % p) * f ≡ b * r * f [ZMOD p] := Int.ModEq.mul_right _ (Int.mod_modEq _ _)
    have h3 : b * r * f = r * (b * f) := by ring
    rw [h3] at h2
    have h4 : r * (b * f) ≡ r * 1 [ZMOD p] := Int.ModEq.mul_left _ hbf
    rw [mul_one] at h4
    exact h2.trans h4
  rw [h.eq]
  exact Int.emod_eq_of_lt h0 h1

/-- `tmcg_mpz_fspowm` (always-multiply variant with dummy operations): same value as `fpowm`
    whenever the power is invertible, `runtime_error` otherwise (for either sign) -/
theorem fspowm_spec (g p : Int) (t : Nat) (hp : 1 < p) (T : Table)
    (hT : precompute g p t = .ok T) (x : Int) (hlen : bitlen x ≤ tableSize t) :
    fspowm T g x p =
      match invm (g ^ x.natAbs % p) p with
      | none => .error .runtimeError
      | some r => .ok (if 0 ≤ x then g ^ x.natAbs % p else r) := by
  have hp0 : p ≠ 0 := by omega
  have hg : T.get 0 = g := (precompute_get g p t hp0 T hT).1
  unfold fspowm
  simp only [hg, ne_eq, not_true_eq_false, if_false, bitlen_le_max hlen, if_true, hp0]
  generalize hbar0 : (if x < 0 then (0:Int) else -x) = bar0
  have hfst := fsLoop_fst T p x.natAbs (bitlen x) 0 1 bar0
  rw [mulLoop_bitlen g p t hp T hT x hlen] at hfst
  rcases hfs : fsLoop T p x.natAbs (bitlen x) 0 1 bar0 with ⟨res, bar⟩
  rw [hfs] at hfst
  simp only at hfst
  subst hfst
  simp only
  rcases hinv : invm (g ^ x.natAbs % p) p with _ | foo
  · rfl
  · simp only
    obtain ⟨hf0, hf1, -⟩ := invm_some hinv
    rw [abs_of_pos (by omega : 0 < p)] at hf1
    have hr0 : 0 ≤ g ^ x.natAbs % p := Int.emod_nonneg _ hp0
    have hr1 : g ^ x.natAbs % p < p := Int.emod_lt_of_pos _ (by omega)
    generalize (if x < 0 then g ^ x.natAbs % p else foo) = baz
    generalize hr : (if x < 0 then foo else g ^ x.natAbs % p) = r1
    have h0 : 0 ≤ r1 := by rw [← hr]; split <;> assumption
    have h1 : r1 < p := by rw [← hr]; split <;> assumption
    have one : (1 : Int) * 1 ≡ 1 [ZMOD p] := by rw [mul_one]
    have hfin : r1 = if 0 ≤ x then g ^ x.natAbs % p else foo := by
      rw [← hr]
      by_cases hx : x < 0
      · simp [hx, not_le.mpr hx]
      · simp [hx, not_lt.mp hx]
    rw [← hfin]
    rcases hb : invm bar p with _ | ib <;> rcases hz : invm baz p with _ | iz <;> simp only
    · rw [unit_conj r1 1 1 h0 h1 one, unit_conj r1 1 1 h0 h1 one]
    · rw [unit_conj r1 1 1 h0 h1 one, unit_conj r1 baz iz h0 h1 (invm_some hz).2.2]
    · rw [unit_conj r1 bar ib h0 h1 (invm_some hb).2.2, unit_conj r1 1 1 h0 h1 one]
    · rw [unit_conj r1 bar ib h0 h1 (invm_some hb).2.2,
        unit_conj r1 baz iz h0 h1 (invm_some hz).2.2]

/-- wrong base is refused by all three table routines -/
theorem wrong_base (T : Table) (m x p : Int) (h : m ≠ T.get 0) :
    fpowm T m x p = .error .invalidArgument ∧ fspowm T m x p = .error .invalidArgument ∧
    fpowmUi T m x.toNat p = .error .invalidArgument := by
  unfold fpowm fspowm fpowmUi
  simp [h]

/-- exponents longer than `TMCG_MAX_FPOWM_T` bits are refused -/
theorem exponent_too_large (T : Table) (x p : Int) (h : Gen.TMCG_MAX_FPOWM_T < bitlen x) :
    fpowm T (T.get 0) x p = .error .invalidArgument ∧
    fspowm T (T.get 0) x p = .error .invalidArgument := by
  have h' : ¬ bitlen x ≤ Gen.TMCG_MAX_FPOWM_T := Nat.not_le.mpr h
  unfold fpowm fspowm
  simp [h']

/-! ### `tmcg_mpz_spowm` -/

theorem baz_eq (m p : Int) (hp : 0 < p) (xx : Nat) :
    ((powm (m % (p.natAbs : Int)).toNat xx p.natAbs : Nat) : Int) = m ^ xx % p := by
  rw [powm_eq]
  push_cast
  rw [abs_of_pos hp, Int.toNat_of_nonneg (Int.emod_nonneg _ (ne_of_gt hp))]
  exact ((Int.mod_modEq m p).pow xx).eq

theorem gcd_emod_left (a p : Int) : Int.gcd (a % p) p = Int.gcd a p := by
  rw [Int.gcd_comm, Int.gcd_comm a, Int.emod_def]
  exact Int.gcd_sub_mul_left_right ..

theorem gcd_eq_one_of_mul_modEq_one {a b p : Int} (h : a * b ≡ 1 [ZMOD p]) : Int.gcd a p = 1 := by
  have h1 : p ∣ 1 - a * b := by
    have := Int.modEq_iff_dvd.mp h
    exact this
  have hda : ((Int.gcd a p : Nat) : Int) ∣ a := Int.gcd_dvd_left ..
  have hdp : ((Int.gcd a p : Nat) : Int) ∣ p := Int.gcd_dvd_right ..
  have h2 : ((Int.gcd a p : Nat) : Int) ∣ 1 := by
    have h3 := dvd_add (hdp.trans h1) (hda.mul_right b)
    simpa using h3
  have : (Int.gcd a p : Nat) ∣ 1 := by exact_mod_cast h2
  exact Nat.dvd_one.mp this

theorem gcd_pow_left_iff (m p : Int) (k : Nat) (hk : 0 < k) :
    Int.gcd (m ^ k) p = 1 ↔ Int.gcd m p = 1 := by
  rw [Int.gcd_def, Int.gcd_def, Int.natAbs_pow]
  exact Nat.coprime_pow_left_iff hk _ _

theorem step2 {p : Int} (a b c : Int) (h : b * c ≡ 1 [ZMOD p]) :
    (a * b % p) * c % p ≡ a [ZMOD p] := by
  have h1 : (a * b % p) * c % p ≡ (a * b % p) * c [ZMOD p] := Int.mod_modEq _ _
  have h2 : (a * b % p) * c ≡ a * b * c [ZMOD p] := Int.ModEq.mul_right _ (Int.mod_modEq _ _)
  have h3 : a * b * c ≡ a * 1 [ZMOD p] := by
    rw [mul_assoc]; exact Int.ModEq.mul_left _ h
  rw [mul_one] at h3
  exact (h1.trans h2).trans h3

/-- `tmcg_mpz_spowm` (constant-time variant, after the repair of finding F6): for an odd
    modulus and a base coprime to it, the plain power for every exponent (the inverse power
    for negative ones) -/
theorem spowm_spec (m x p : Int) (hp : 1 < p) (hodd : p % 2 = 1) (hm : Int.gcd m p = 1) :
    ∃ r, spowm m x p = .ok r ∧ 0 ≤ r ∧ r < p ∧
      (if 0 ≤ x then r = m ^ x.natAbs % p else r * m ^ x.natAbs % p = 1) := by
  have hp0 : p ≠ 0 := by omega
  have hpp : 0 < p := by omega
  unfold spowm
  have hne : ¬ p % 2 = 0 := by omega
  simp only [hne, if_false]
  generalize hxx : (if x = 0 then 1 else x.natAbs) = xx
  rw [baz_eq m p hpp xx]
  have hxxpos : 0 < xx := by
    rw [← hxx]; split
    · exact Nat.one_pos
    · exact Int.natAbs_pos.mpr ‹_›
  have hcop : Int.gcd (m ^ xx % p) p = 1 := by
    rw [gcd_emod_left]; exact (gcd_pow_left_iff m p xx hxxpos).mpr hm
  obtain ⟨foo, hfoo⟩ := invm_isSome_of_coprime hp0 hcop
  obtain ⟨hf0, hf1, hfc⟩ := invm_some hfoo
  rw [abs_of_pos hpp] at hf1
  have hfc' : foo * (m ^ xx % p) ≡ 1 [ZMOD p] := by rw [mul_comm]; exact hfc
  obtain ⟨i1, hi1⟩ := invm_isSome_of_coprime hp0 (gcd_eq_one_of_mul_modEq_one hfc')
  have hi1c := (invm_some hi1).2.2
  simp only [hfoo, hi1]
  generalize hr0 : (if x < 0 then foo else if 0 < x then m ^ xx % p else (xx : Int)) = r0
  generalize hbar : (if 0 < x then -x else (-1 : Int)) = bar
  suffices fin : ∀ i2 bar' : Int, bar' * i2 ≡ 1 [ZMOD p] → ∃ r,
      Except.ok (ε := Err)
        (r0 * foo % p * i1 % p * bar' % p * i2 % p * (m ^ xx % p) % p * foo % p) = Except.ok r ∧
      0 ≤ r ∧ r < p ∧
        if 0 ≤ x then r = m ^ x.natAbs % p else r * m ^ x.natAbs % p = 1 by
    rcases hb : invm bar p with _ | ib
    · exact fin 1 1 (by rw [mul_one])
    · exact fin ib bar (invm_some hb).2.2
  intro i2 bar' hbc
  have hres : r0 * foo % p * i1 % p * bar' % p * i2 % p * (m ^ xx % p) % p * foo % p = r0 % p := by
    have e1 := step2 r0 foo i1 hi1c
    have e2 := step2 (r0 * foo % p * i1 % p) bar' i2 hbc
    have e3 := step2 (r0 * foo % p * i1 % p * bar' % p * i2 % p) (m ^ xx % p) foo hfc
    have := ((e3.trans e2).trans e1).eq
    rw [Int.emod_emod_of_dvd _ (dvd_refl p)] at this
    exact this
  refine ⟨r0 % p, by rw [hres], Int.emod_nonneg _ hp0, Int.emod_lt_of_pos _ hpp, ?_⟩
  rcases lt_trichotomy x 0 with hx | hx | hx
  · have hxx' : xx = x.natAbs := by rw [← hxx]; simp [ne_of_lt hx]
    have : r0 = foo := by rw [← hr0]; simp [hx]
    subst this
    simp only [not_le.mpr hx, if_false]
    rw [Int.emod_eq_of_lt hf0 hf1, ← hxx']
    have h1 : r0 * m ^ xx ≡ r0 * (m ^ xx % p) [ZMOD p] :=
      Int.ModEq.mul_left _ (Int.mod_modEq _ _).symm
    rw [(h1.trans hfc').eq]
    exact Int.emod_eq_of_lt (by norm_num) hp
  · subst hx
    have hxx' : xx = 1 := by rw [← hxx]; simp
    have : r0 = 1 := by rw [← hr0, hxx']; simp
    subst this
    simp
  · have hxx' : xx = x.natAbs := by rw [← hxx]; simp [ne_of_gt hx]
    have : r0 = m ^ xx % p := by rw [← hr0]; simp [hx, not_lt.mpr (le_of_lt hx)]
    simp only [le_of_lt hx, if_true, this, ← hxx']
    exact Int.emod_emod_of_dvd _ (dvd_refl p)

theorem spowm_even (m x p : Int) (h : p % 2 = 0) : spowm m x p = .error .invalidArgument := by
  unfold spowm; simp [h]

/-- a base that is not a unit is refused with `runtime_error` (never a wrong value) -/
theorem spowm_not_coprime (m x p : Int) (hp : 1 < p) (hodd : p % 2 = 1) (hm : Int.gcd m p ≠ 1) :
    spowm m x p = .error .runtimeError := by
  have hpp : 0 < p := by omega
  unfold spowm
  have hne : ¬ p % 2 = 0 := by omega
  simp only [hne, if_false]
  generalize hxx : (if x = 0 then 1 else x.natAbs) = xx
  rw [baz_eq m p hpp xx]
  have hxxpos : 0 < xx := by
    rw [← hxx]; split
    · exact Nat.one_pos
    · exact Int.natAbs_pos.mpr ‹_›
  have hcop : Int.gcd (m ^ xx % p) p ≠ 1 := by
    rw [gcd_emod_left]; exact fun h => hm ((gcd_pow_left_iff m p xx hxxpos).mp h)
  have hnat : 1 < p.natAbs := by omega
  rw [(invm_eq_none_iff hnat).mpr hcop]

end Tmcg.Powm
