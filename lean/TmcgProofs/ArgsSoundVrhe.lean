import TmcgProofs.ArgsSoundSkcModes
/-
  C04 for the rotation argument (`HooghSchoenmakersSkoricVillegasVRHE`), honest prover algorithm
  with a witness that does not fit: an output stack `Y` that is not the rotation by `r` of the
  re-encrypted input stack (a non-cyclic permutation presented as a rotation, a substituted card,
  a wrong re-encryption exponent).  Acceptance implies a relation, linear in the exponents, between
  the challenges `α_0 … α_{n-1}`.
-/
namespace Tmcg.Args
open Tmcg Tmcg.Powm Tmcg.Vtmf Tmcg.Grp Tmcg.Sigma Tmcg.SigmaComplete Tmcg.CoinFlip Tmcg.ArgsSound
variable {G : Group} [Fact (Nat.Prime G.p.natAbs)]
set_option linter.unusedVariables false
set_option linter.unusedSectionVars false

/-- what the honest prover ALGORITHM of the rotation argument needs to run: sizes, `r < n`, stacks
    of subgroup elements (no claim that `Y` is a rotation of `X`) -/
structure RotAlg (G : Group) [Fact (Nat.Prime G.p.natAbs)] (S : State) (r : ℕ) (s : List ℤ)
    (X Y : List Card) : Prop where
  n2 : 2 ≤ s.length
  r_lt : r < s.length
  lX : X.length = s.length
  lY : Y.length = s.length
  subX : ∀ j < s.length, Sub G (X.getD j ⟨0, 0⟩).c1 ∧ Sub G (X.getD j ⟨0, 0⟩).c2
  subY : ∀ j < s.length, Sub G (Y.getD j ⟨0, 0⟩).c1 ∧ Sub G (Y.getD j ⟨0, 0⟩).c2

/-- the last check, converse direction -/
theorem vrheFinal_true (hG : ValidGroup G) (S : State) (hS : StateOk G S) (X Ak : List Card)
    (alpha : List Int) (v : Int)
    (hX : ∀ j < alpha.length, toF G (X.getD j ⟨0, 0⟩).c1 ≠ 0 ∧ toF G (X.getD j ⟨0, 0⟩).c2 ≠ 0)
    (hv : v.natAbs < G.q.natAbs) (h : vrheFinal S X Ak alpha v = .ok true) :
    ((List.range alpha.length).map fun j =>
      (toF G (X.getD j ⟨0, 0⟩).c1 ^ alpha.getD j 0)⁻¹ * toF G (Ak.getD j ⟨0, 0⟩).c1).prod
        = toF G G.g ^ v ∧
    ((List.range alpha.length).map fun j =>
      (toF G (X.getD j ⟨0, 0⟩).c2 ^ alpha.getD j 0)⁻¹ * toF G (Ak.getD j ⟨0, 0⟩).c2).prod
        = toF G S.h ^ v := by
  have hp1 := one_lt_p hG
  obtain ⟨L, hL, v1, v2⟩ := vrheProduct_val hG X Ak alpha (List.range alpha.length) ⟨1, 1⟩
    (fun j hj => hX j (List.mem_range.mp hj)) ⟨by norm_num, hp1⟩ ⟨by norm_num, hp1⟩
  obtain ⟨r1, hr1, a0, ap, r1v⟩ := fpowm_val hG S.tabG G.g v hS.tabG (g_ne hG) hv
  obtain ⟨r2, hr2, b0, bp, r2v⟩ := fpowm_val hG S.tabH S.h v hS.tabH (h_ne hG S hS) hv
  simp only [vrheFinal, hS.grp, bind, Except.bind, pure, Except.pure, hL, hr1, hr2] at h
  have h' : (L.c1 == r1 && L.c2 == r2) = true := by simpa using h
  rw [Bool.and_eq_true, beq_iff_eq, beq_iff_eq] at h'
  constructor
  · have := v1.2.2
    rw [h'.1, r1v] at this
    rw [this]; show _ = toF G 1 * _; rw [toF_one, one_mul]
  · have := v2.2.2
    rw [h'.2, r2v] at this
    rw [this]; show _ = toF G 1 * _; rw [toF_one, one_mul]

/-- deviation of the output card `k` from the re-encryption of `X_{k-r}` with `s_k`, first component -/
noncomputable def rotDev1 (G : Group) [Fact (Nat.Prime G.p.natAbs)] (r : ℕ) (s : List ℤ)
    (X Y : List Card) (k : ℕ) : F G :=
  toF G (Y.getD k ⟨0, 0⟩).c1 / (toF G (X.getD (subMod s.length r k) ⟨0, 0⟩).c1 * toF G G.g ^ s.getD k 0)

/-- second component -/
noncomputable def rotDev2 (G : Group) [Fact (Nat.Prime G.p.natAbs)] (S : State) (r : ℕ) (s : List ℤ)
    (X Y : List Card) (k : ℕ) : F G :=
  toF G (Y.getD k ⟨0, 0⟩).c2 / (toF G (X.getD (subMod s.length r k) ⟨0, 0⟩).c2 * toF G S.h ^ s.getD k 0)

/-- the relation that the last check imposes on the challenges `α`: `Π_k D_k^{α_{k-r}} = 1` for the
    deviations `D_k` (both components) -/
def RotRel (G : Group) [Fact (Nat.Prime G.p.natAbs)] (S : State) (r : ℕ) (s : List ℤ) (X Y : List Card)
    (alpha : List ℤ) : Prop :=
  (∏ k ∈ Finset.range s.length, rotDev1 G r s X Y k ^ alpha.getD (subMod s.length r k) 0 = 1) ∧
  (∏ k ∈ Finset.range s.length, rotDev2 G S r s X Y k ^ alpha.getD (subMod s.length r k) 0 = 1)

/-- one component of the last equation with deviations -/
theorem final_alg_dev (hG : ValidGroup G) (n r : ℕ) (hr : r < n) (x y : ℕ → F G)
    (hx : ∀ j, j < n → x j ≠ 0) (hy : ∀ j, j < n → y j ≠ 0)
    (al s t : ℕ → ℤ) (b : F G) (hb : b ^ G.q.natAbs = 1) (A : ℕ → F G)
    (hA : ∀ j, j < n → A j = y j ^ al (subMod n r j) * b ^ t j)
    (h : ∏ j ∈ Finset.range n, ((x j ^ al j)⁻¹ * A j) =
      b ^ ((∑ j ∈ Finset.range n, (al (subMod n r j) * s j % G.q + t j) % G.q) % G.q)) :
    ∏ j ∈ Finset.range n, (y j / (x (subMod n r j) * b ^ s j)) ^ al (subMod n r j) = 1 := by
  have hb0 := ne_zero_of_pow_eq_one (q_natAbs_ne_zero hG) hb
  have hxs : ∀ j < n, x (subMod n r j) * b ^ s j ≠ 0 := fun j hj =>
    mul_ne_zero (hx _ (subMod_lt hr hj)) (zpow_ne_zero _ hb0)
  have h0 := final_alg hG n r hr x hx al s t b hb
    (fun j => (x (subMod n r j) * b ^ s j) ^ al (subMod n r j) * b ^ t j) (fun j _ => rfl)
  rw [← h0] at h
  have hsplit : ∏ j ∈ Finset.range n, ((x j ^ al j)⁻¹ * A j) =
      (∏ j ∈ Finset.range n, ((x j ^ al j)⁻¹ * ((x (subMod n r j) * b ^ s j) ^ al (subMod n r j) * b ^ t j))) *
      ∏ j ∈ Finset.range n, (y j / (x (subMod n r j) * b ^ s j)) ^ al (subMod n r j) := by
    rw [← Finset.prod_mul_distrib]
    apply Finset.prod_congr rfl
    intro j hj
    have hj' := Finset.mem_range.mp hj
    rw [hA j hj', div_zpow]
    have := zpow_ne_zero (al (subMod n r j)) (hxs j hj')
    field_simp
  rw [hsplit] at h
  have hne : ∏ j ∈ Finset.range n,
      ((x j ^ al j)⁻¹ * ((x (subMod n r j) * b ^ s j) ^ al (subMod n r j) * b ^ t j)) ≠ 0 := by
    rw [Finset.prod_ne_zero_iff]
    intro j hj
    have hj' := Finset.mem_range.mp hj
    exact mul_ne_zero (inv_ne_zero (zpow_ne_zero _ (hx j hj')))
      (mul_ne_zero (zpow_ne_zero _ (hxs j hj')) (zpow_ne_zero _ hb0))
  have : (∏ j ∈ Finset.range n,
      ((x j ^ al j)⁻¹ * ((x (subMod n r j) * b ^ s j) ^ al (subMod n r j) * b ^ t j))) *
      ∏ j ∈ Finset.range n, (y j / (x (subMod n r j) * b ^ s j)) ^ al (subMod n r j) =
      (∏ j ∈ Finset.range n,
      ((x j ^ al j)⁻¹ * ((x (subMod n r j) * b ^ s j) ^ al (subMod n r j) * b ^ t j))) * 1 := by
    rw [mul_one]; exact h
  exact mul_left_cancel₀ hne this

/-- the prover's second move and what the verifier's checks before the last one do with it, for
    arbitrary stacks of subgroup elements -/
theorem vrhe_core_alg (hG : ValidGroup G) (S : State) (hS : StateOk G S) (r : ℕ) (s : List ℤ)
    (X Y : List Card) (st : RotAlg G S r s X Y) (alpha : List ℤ) (lα : alpha.length = s.length)
    (hα : InQ G.q alpha) (ut opm rest : List ℤ) (hut : InQ G.q ut) (hopm : InQ G.q opm)
    (lut : ut.length = 2 * s.length) (lopm : opm.length = 3 * s.length)
    (peer : List (Option ℤ)) (sent : List ℤ) (tr : Bool) :
    ∃ x, vrheMove2 S r s Y alpha ⟨peer, ut ++ (opm ++ rest), sent, tr⟩ =
        .ok x ⟨peer, rest, sent ++ x.hk ++ flatCards x.Ak ++ [x.v] ++ x.fk ++ flatCards x.Fk, tr⟩ ∧
      Move2Ok G S s.length r s Y alpha ut opm x ∧
      (∀ e ∈ x.hk, checkElement .schnorr S.G e = true) ∧
      (∀ e ∈ x.Ak, checkElement .schnorr S.G e.c1 = true ∧ checkElement .schnorr S.G e.c2 = true) ∧
      (∀ e ∈ x.fk, checkElement .schnorr S.G e = true) ∧
      (∀ e ∈ x.Fk, checkElement .schnorr S.G e.c1 = true ∧ checkElement .schnorr S.G e.c2 = true) ∧
      inRange S.G.q x.v = true ∧
      (vrheFinal S X x.Ak alpha x.v = .ok true → RotRel G S r s X Y alpha) ∧
      ∀ lambda, 0 ≤ lambda ∧ lambda < G.q →
        (vrheResp S.G.q s.length x lambda).1.length = s.length ∧
        (vrheResp S.G.q s.length x lambda).2.1.length = s.length ∧
        (vrheResp S.G.q s.length x lambda).2.2.length = s.length ∧
        (∀ e ∈ (vrheResp S.G.q s.length x lambda).1, inRange S.G.q e = true) ∧
        (∀ e ∈ (vrheResp S.G.q s.length x lambda).2.1, inRange S.G.q e = true) ∧
        (∀ e ∈ (vrheResp S.G.q s.length x lambda).2.2, inRange S.G.q e = true) ∧
        vrheChecks S Y lambda x.hk x.Ak x.fk x.Fk (vrheResp S.G.q s.length x lambda).1
          (vrheResp S.G.q s.length x lambda).2.1 (vrheResp S.G.q s.length x lambda).2.2 = .ok true := by
  have hq := hG.q_pos
  have hg0 := g_ne hG
  have hh0 := h_ne hG S hS
  have hgq := g_sub hG
  have hhq := h_sub S hS
  have hYs := st.subY
  have hY0 : ∀ i < s.length, toF G (Y.getD i ⟨0, 0⟩).c1 ≠ 0 ∧ toF G (Y.getD i ⟨0, 0⟩).c2 ≠ 0 :=
    fun i hi => ⟨(hYs i hi).1.ne_zero hG, (hYs i hi).2.ne_zero hG⟩
  obtain ⟨x, hx, ok⟩ := vrheMove2_spec hG S hS r s Y alpha ut opm rest peer sent tr hα hut hopm
    lut lopm hY0
  have hv : x.v = (∑ i ∈ Finset.range s.length,
      (arOf s.length r alpha i * s.getD i 0 % G.q + ut.getD (2 * i + 1) 0) % G.q) % G.q := by
    rw [ok.v_eq, foldl_add_mod G.q hq (fun i => (arOf s.length r alpha i * s.getD i 0 % G.q +
      ut.getD (2 * i + 1) 0) % G.q) _ 0 (le_refl _) hq, zero_add, sum_map_range]
  refine ⟨x, hx, ok, ?_, ?_, ?_, ?_, ?_, ?_, ?_⟩
  · rw [hS.grp]
    apply mem_of_getD (P := fun e => checkElement .schnorr G e = true)
    intro i hi
    rw [ok.lhk] at hi
    exact (ok.hk i hi).elem hG (by rw [mul_pow, zpow_pow_q hgq, zpow_pow_q hhq, one_mul])
  · rw [hS.grp]
    apply mem_of_getD (P := fun e : Card => checkElement .schnorr G e.c1 = true ∧
      checkElement .schnorr G e.c2 = true)
    intro i hi
    rw [ok.lAk] at hi
    exact ⟨(ok.Ak1 i hi).elem hG (by rw [mul_pow, zpow_pow_q (hYs i hi).1, zpow_pow_q hgq, one_mul]),
      (ok.Ak2 i hi).elem hG (by rw [mul_pow, zpow_pow_q (hYs i hi).2, zpow_pow_q hhq, one_mul])⟩
  · rw [hS.grp]
    apply mem_of_getD (P := fun e => checkElement .schnorr G e = true)
    intro i hi
    rw [ok.lfk] at hi
    exact (ok.fk i hi).elem hG (by rw [mul_pow, zpow_pow_q hgq, zpow_pow_q hhq, one_mul])
  · rw [hS.grp]
    apply mem_of_getD (P := fun e : Card => checkElement .schnorr G e.c1 = true ∧
      checkElement .schnorr G e.c2 = true)
    intro i hi
    rw [ok.lFk] at hi
    exact ⟨(ok.Fk1 i hi).elem hG (by rw [mul_pow, zpow_pow_q (hYs i hi).1, zpow_pow_q hgq, one_mul]),
      (ok.Fk2 i hi).elem hG (by rw [mul_pow, zpow_pow_q (hYs i hi).2, zpow_pow_q hhq, one_mul])⟩
  · rw [hS.grp, hv]; exact inRange_of_mod hG _
  · -- the product equation, converse
    intro hfin
    obtain ⟨f1, f2⟩ := vrheFinal_true hG S hS X x.Ak alpha x.v
      (by intro j hj; rw [lα] at hj
          exact ⟨(st.subX j hj).1.ne_zero hG, (st.subX j hj).2.ne_zero hG⟩)
      (by rw [hv]; exact natAbs_mod_lt hG _) hfin
    rw [prod_map_range, lα, hv] at f1 f2
    constructor
    · exact final_alg_dev hG s.length r st.r_lt (fun j => toF G (X.getD j ⟨0, 0⟩).c1)
        (fun j => toF G (Y.getD j ⟨0, 0⟩).c1)
        (fun j hj => (st.subX j hj).1.ne_zero hG) (fun j hj => (hY0 j hj).1)
        (fun j => alpha.getD j 0) (fun j => s.getD j 0)
        (fun j => ut.getD (2 * j + 1) 0) (toF G G.g) hgq
        (fun j => toF G (x.Ak.getD j ⟨0, 0⟩).c1) (fun j hj => by rw [(ok.Ak1 j hj).2.2]; rfl) f1
    · exact final_alg_dev hG s.length r st.r_lt (fun j => toF G (X.getD j ⟨0, 0⟩).c2)
        (fun j => toF G (Y.getD j ⟨0, 0⟩).c2)
        (fun j hj => (st.subX j hj).2.ne_zero hG) (fun j hj => (hY0 j hj).2)
        (fun j => alpha.getD j 0) (fun j => s.getD j 0)
        (fun j => ut.getD (2 * j + 1) 0) (toF G S.h) hhq
        (fun j => toF G (x.Ak.getD j ⟨0, 0⟩).c2) (fun j hj => by rw [(ok.Ak2 j hj).2.2]; rfl) f2
  · intro lambda hlam
    rw [hS.grp]
    have hmem : ∀ (g : ℕ → ℤ), (∀ j, (g j).natAbs < G.q.natAbs) →
        ∀ e ∈ (List.range s.length).map g, inRange G.q e = true := by
      intro g hg e he
      obtain ⟨j, -, rfl⟩ := List.mem_map.mp he
      simpa [inRange] using hg j
    refine ⟨by simp [vrheResp], by simp [vrheResp], by simp [vrheResp],
      hmem _ (fun j => natAbs_mod_lt hG _), hmem _ (fun j => natAbs_mod_lt hG _),
      hmem _ (fun j => natAbs_mod_lt hG _), ?_⟩
    simp only [vrheChecks, vrheResp, st.lY]
    rw [allE_range_true]
    · simp only [bind, Except.bind, Bool.not_true, Bool.false_eq_true, if_false]
      apply allE_range_true
      intro i hi
      rw [getD_map_range _ _ _ _ hi, getD_map_range _ _ _ _ hi, ok.ar_eq, getD_map_range _ _ _ _ hi,
        ok.ut_eq, ok.opm_eq]
      have hA1 := ok.Ak1 i hi
      have hA2 := ok.Ak2 i hi
      apply vrheCheck2_ok hG S hS lambda _ _ _ _ _ (hY0 i hi).1 (hY0 i hi).2 ?_ ?_ (natAbs_mod_lt hG _)
      · rw [hA1.2.2, (ok.Fk1 i hi).2.2]
        exact expzk_mod hG _ _ (hYs i hi).1 hgq _ _ _ _ _
      · rw [hA2.2.2, (ok.Fk2 i hi).2.2]
        exact expzk_mod hG _ _ (hYs i hi).2 hhq _ _ _ _ _
      · rw [hA1.2.2]; exact mul_ne_zero (zpow_ne_zero _ (hY0 i hi).1) (zpow_ne_zero _ hg0)
      · rw [hA2.2.2]; exact mul_ne_zero (zpow_ne_zero _ (hY0 i hi).2) (zpow_ne_zero _ hh0)
    · intro i hi
      rw [getD_map_range _ _ _ _ hi, getD_map_range _ _ _ _ hi, ok.ar_eq, getD_map_range _ _ _ _ hi,
        ok.ut_eq, ok.opm_eq]
      have hk := ok.hk i hi
      apply vrheCheck1_ok hG S hS lambda _ _ _ _ ?_ (natAbs_mod_lt hG _) (natAbs_mod_lt hG _)
      · rw [hk.2.2, (ok.fk i hi).2.2]
        exact expzk_mod hG _ _ hgq hhq _ _ _ _ _
      · rw [hk.2.2]; exact mul_ne_zero (zpow_ne_zero _ hg0) (zpow_ne_zero _ hh0)

/-! ### the rotation argument in any mode: honest algorithm, arbitrary output stack -/

theorem vrhe_sound_modes (hG : ValidGroup G) (mode : Mode) (S : State) (hS : StateOk G S)
    (r : ℕ) (s : List ℤ) (X Y : List Card) (st : RotAlg G S r s X Y)
    (A : List ChalSrc) (lA : A.length = s.length) (hA : ∀ d ∈ A, ChalOk mode S.G.q d)
    (L : ChalSrc) (hL : ChalOk mode S.G.q L)
    (B : List ChalSrc) (lB : B.length = s.length) (hB : ∀ d ∈ B, ChalOk mode S.G.q d)
    (L2 : ChalSrc) (hL2 : ChalOk mode S.G.q L2)
    (ut opm : List ℤ) (u : ℤ) (lt rest : List ℤ)
    (hut : InQ G.q ut) (hopm : InQ G.q opm) (hu : 0 ≤ u ∧ u < G.q) (hlt : InQ G.q lt)
    (lut : ut.length = 2 * s.length) (lopm : opm.length = 3 * s.length)
    (llt : lt.length = 2 * (s.length - 1)) :
    ∃ sentP,
      run (done (vrheProve mode S r s X Y))
        ⟨(verifierLines A L B L2).map some, proverCoins A L B L2 ut opm u lt rest, [], false⟩ =
        .ok ⟨sentP, true, false⟩ ∧
      ∀ o : PcOutcome, o.result = true →
        run (vrheVerify mode S X Y) ⟨sentP.map some, verifierCoins A L B L2, [], false⟩ = .ok o →
        RotRel G S r s X Y (chainVals (flatCards X ++ flatCards Y ++ pqgh S) A 0 0) := by
  have hq := hG.q_pos
  have hn := st.n2
  have hr := st.r_lt
  set alpha := chainVals (flatCards X ++ flatCards Y ++ pqgh S) A 0 0 with halpha
  have lα : alpha.length = s.length := by rw [halpha, chainVals_length, lA]
  have hα : InQ G.q alpha := by
    have := chainVals_inQ mode S.G.q (flatCards X ++ flatCards Y ++ pqgh S) A 0 0 hA
    rwa [hS.grp] at this
  obtain ⟨x, hx, ok, ehk, eAk, efk, eFk, hv, hfinal, hresp⟩ := vrhe_core_alg hG S hS r s X Y st alpha lα hα
    ut opm (L.pCoins ++ (B.flatMap ChalSrc.pCoins ++ (u :: (lt ++ (L2.pCoins ++ rest))))) hut hopm lut lopm
    (L.pPeer.map some ++ ((B.flatMap ChalSrc.pPeer).map some ++ (L2.pPeer.map some ++ [])))
    ([] ++ A.flatMap ChalSrc.pSent) false
  set lambda := L.val (fun _ => vrheHash2 S X Y x.Ak x.Fk x.hk x.fk x.v) with hlambda
  have hlam : 0 ≤ lambda ∧ lambda < G.q := by
    have := hL.range (fun _ => vrheHash2 S X Y x.Ak x.Fk x.hk x.fk x.v)
    rwa [hS.grp] at this
  obtain ⟨l1, l2, l3, e1, e2, e3, hchk⟩ := hresp lambda hlam
  have hc : ∀ j < alpha.length, Val G (x.hk.getD j 0)
      (toF G G.g ^ arOf alpha.length r alpha j * toF G S.h ^ (stride 2 0 x.ut s.length).getD j 0) := by
    intro j hj
    rw [lα] at hj ⊢
    rw [stride_getD _ _ _ _ _ hj, ok.ut_eq]
    exact ok.hk j hj
  obtain ⟨f, r1, r2, hrotP, hrotV⟩ := rot_modes hG mode S hS r alpha (stride 2 0 x.ut s.length) x.hk
    (by omega) (by omega) (by simp [stride, lα]) (by rw [ok.lhk, lα]) hc B (by rw [lB, lα]) hB L2 hL2
    u lt rest hu hlt (by rw [lα]; exact llt) []
    ([] ++ A.flatMap ChalSrc.pSent ++ x.hk ++ flatCards x.Ak ++ [x.v] ++ x.fk ++ flatCards x.Fk ++ L.pSent ++
      (vrheResp S.G.q s.length x lambda).1 ++ (vrheResp S.G.q s.length x lambda).2.1 ++
      (vrheResp S.G.q s.length x lambda).2.2) false
  refine ⟨A.flatMap ChalSrc.pSent ++ ((x.hk ++ flatCards x.Ak ++ [x.v] ++ x.fk ++ flatCards x.Fk) ++
    (L.pSent ++ (((vrheResp S.G.q s.length x lambda).1 ++ (vrheResp S.G.q s.length x lambda).2.1 ++
      (vrheResp S.G.q s.length x lambda).2.2) ++ (B.flatMap ChalSrc.pSent ++ (f ++ (L2.pSent ++
        (r1 ++ r2))))))), ?_, ?_⟩
  · have hpeer : (verifierLines A L B L2).map some = (A.flatMap ChalSrc.pPeer).map some ++
        (L.pPeer.map some ++ ((B.flatMap ChalSrc.pPeer).map some ++ (L2.pPeer.map some ++ []))) := by
      simp [verifierLines, List.map_append, List.append_assoc]
    rw [hpeer]
    simp only [run, done, vrheProve, proverCoins]
    rw [bind_apply, if_neg (by rw [st.lX, st.lY]; omega), ← lA]
    rw [bind_ok (chain_P mode _ _ A 0 0 _ _ _ _ hA), ← halpha, lA, bind_ok hx]
    rw [bind_ok (hL.prover _ _ _ _ _), ← hlambda, bind_ok (vrheMove4_apply _ _ _ _ _)]
    rw [hrotP]
    simp only [pure_apply, List.nil_append, List.append_assoc]
  · intro o ho hrun
    have hpeer : (A.flatMap ChalSrc.pSent ++ ((x.hk ++ flatCards x.Ak ++ [x.v] ++ x.fk ++ flatCards x.Fk) ++
        (L.pSent ++ (((vrheResp S.G.q s.length x lambda).1 ++ (vrheResp S.G.q s.length x lambda).2.1 ++
          (vrheResp S.G.q s.length x lambda).2.2) ++ (B.flatMap ChalSrc.pSent ++ (f ++ (L2.pSent ++
            (r1 ++ r2)))))))).map some =
        (A.flatMap ChalSrc.pSent).map some ++
          ((x.hk ++ flatCards x.Ak ++ [x.v] ++ x.fk ++ flatCards x.Fk).map some ++
          (L.pSent.map some ++ (((vrheResp S.G.q s.length x lambda).1 ++
            (vrheResp S.G.q s.length x lambda).2.1 ++ (vrheResp S.G.q s.length x lambda).2.2).map some ++
          ((B.flatMap ChalSrc.pSent).map some ++ (f.map some ++ (L2.pSent.map some ++
            ((r1 ++ r2).map some ++ []))))))) := by
      simp only [List.map_append, List.append_assoc, List.append_nil]
    have hcoins : verifierCoins A L B L2 = A.flatMap ChalSrc.vCoins ++ (L.vCoins ++
        (B.flatMap ChalSrc.vCoins ++ (L2.vCoins ++ []))) := by
      simp [verifierCoins]
    rw [hpeer, hcoins] at hrun
    simp only [vrheVerify, st.lX] at hrun
    rw [if_neg (by rw [st.lY]; omega), ← lA] at hrun
    rw [run_bind_ok (chain_V mode _ _ A 0 0 _ _ _ hA), ← halpha, lA] at hrun
    rw [run_bind_ok (vrheRead1_spec S _ x.hk x.Ak x.v x.fk x.Fk _ _ _ ok.lhk ok.lAk
      ok.lfk ok.lFk ehk eAk efk eFk hv)] at hrun
    simp only [] at hrun
    rw [run_bind_ok (hL.verifier _ _ _ _), ← hlambda] at hrun
    rw [run_bind_ok (vrheRead2_spec _ _ _ _ _ _ _ _ l1 l2 l3 e1 e2 e3)] at hrun
    simp only [] at hrun
    obtain ⟨-, hrun⟩ := run_check_bind _ _ _ _ ho hrun
    rw [run_bind_ok (hrotV [] [] _)] at hrun
    obtain ⟨hfin, -⟩ := run_check_bind _ _ _ _ ho hrun
    exact hfinal hfin

/-- **rotation argument, interactive mode, honest algorithm with any output stack** -/
theorem vrhe_sound_interactive (hG : ValidGroup G) (S : State) (hS : StateOk G S)
    (r : ℕ) (s : List ℤ) (X Y : List Card) (st : RotAlg G S r s X Y)
    (alpha : List ℤ) (lambda : ℤ) (beta : List ℤ) (lambda2 : ℤ)
    (hα : InQ G.q alpha) (hlam : 0 ≤ lambda ∧ lambda < G.q) (hbeta : InQ G.q beta)
    (hlam2 : 0 ≤ lambda2 ∧ lambda2 < G.q) (lα : alpha.length = s.length) (lbeta : beta.length = s.length)
    (ut opm : List ℤ) (u : ℤ) (lt rest : List ℤ)
    (hut : InQ G.q ut) (hopm : InQ G.q opm) (hu : 0 ≤ u ∧ u < G.q) (hlt : InQ G.q lt)
    (lut : ut.length = 2 * s.length) (lopm : opm.length = 3 * s.length)
    (llt : lt.length = 2 * (s.length - 1)) :
    ∃ sentP,
      run (done (vrheProve .inter S r s X Y))
        ⟨(alpha ++ [lambda] ++ beta ++ [lambda2]).map some, ut ++ (opm ++ (u :: (lt ++ rest))), [], false⟩ =
        .ok ⟨sentP, true, false⟩ ∧
      ∀ o : PcOutcome, o.result = true →
        run (vrheVerify .inter S X Y) ⟨sentP.map some, alpha ++ [lambda] ++ beta ++ [lambda2], [], false⟩ =
          .ok o →
        RotRel G S r s X Y alpha := by
  have hall : ∀ (l : List ℤ), InQ G.q l → ∀ d ∈ l.map srcInter, ChalOk .inter S.G.q d := by
    intro l hl d hd
    obtain ⟨c, hc, rfl⟩ := List.mem_map.mp hd
    rw [hS.grp]; exact srcInter_ok G.q c (hl c hc)
  obtain ⟨sentP, hP, hV⟩ := vrhe_sound_modes hG .inter S hS r s X Y st
    (alpha.map srcInter) (by simp [lα]) (hall alpha hα) (srcInter lambda)
    (by rw [hS.grp]; exact srcInter_ok G.q lambda hlam)
    (beta.map srcInter) (by simp [lbeta]) (hall beta hbeta) (srcInter lambda2)
    (by rw [hS.grp]; exact srcInter_ok G.q lambda2 hlam2)
    ut opm u lt rest hut hopm hu hlt lut lopm llt
  have p1 : ∀ l : List ℤ, (l.map srcInter).flatMap ChalSrc.pPeer = l := by
    intro l; rw [flatMap_map_single srcInter ChalSrc.pPeer id (fun _ => rfl)]; simp
  have p2 : ∀ l : List ℤ, (l.map srcInter).flatMap ChalSrc.vCoins = l := by
    intro l; rw [flatMap_map_single srcInter ChalSrc.vCoins id (fun _ => rfl)]; simp
  have p3 : ∀ l : List ℤ, (l.map srcInter).flatMap ChalSrc.pCoins = [] :=
    fun l => flatMap_map_nil srcInter ChalSrc.pCoins (fun _ => rfl) l
  have e1 : verifierLines (alpha.map srcInter) (srcInter lambda) (beta.map srcInter) (srcInter lambda2) =
      alpha ++ [lambda] ++ beta ++ [lambda2] := by
    simp [verifierLines, p1, srcInter]
  have e2 : proverCoins (alpha.map srcInter) (srcInter lambda) (beta.map srcInter) (srcInter lambda2)
      ut opm u lt rest = ut ++ (opm ++ (u :: (lt ++ rest))) := by
    simp [proverCoins, p3, srcInter]
  have e3 : verifierCoins (alpha.map srcInter) (srcInter lambda) (beta.map srcInter) (srcInter lambda2) =
      alpha ++ [lambda] ++ beta ++ [lambda2] := by
    simp [verifierCoins, p2, srcInter]
  have e4 : ∀ (base : List ℤ) (l : List ℤ) (i : ℕ) (prev : ℤ), chainVals base (l.map srcInter) i prev = l := by
    intro base l
    induction l with
    | nil => intro i prev; rfl
    | cons a l ih => intro i prev; simp only [List.map_cons, chainVals, ih]; rfl
  rw [e1, e2] at hP
  rw [e3, e4] at hV
  exact ⟨sentP, hP, hV⟩

/-- **rotation argument, non-interactive mode**: the challenges `α_i` are the oracle's answers
    (`chainVals`: `α_i = H(X, Y, p, q, g, h, α_{i-1}, i) mod q`) -/
theorem vrhe_sound_noninteractive (hG : ValidGroup G) (H : Hash) (S : State) (hS : StateOk G S)
    (r : ℕ) (s : List ℤ) (X Y : List Card) (st : RotAlg G S r s X Y)
    (ut opm : List ℤ) (u : ℤ) (lt rest : List ℤ)
    (hut : InQ G.q ut) (hopm : InQ G.q opm) (hu : 0 ≤ u ∧ u < G.q) (hlt : InQ G.q lt)
    (lut : ut.length = 2 * s.length) (lopm : opm.length = 3 * s.length)
    (llt : lt.length = 2 * (s.length - 1)) :
    ∃ proof,
      run (done (vrheProve (.ni H) S r s X Y)) ⟨[], ut ++ (opm ++ (u :: (lt ++ rest))), [], false⟩ =
        .ok ⟨proof, true, false⟩ ∧
      ∀ o : PcOutcome, o.result = true →
        run (vrheVerify (.ni H) S X Y) ⟨proof.map some, [], [], false⟩ = .ok o →
        RotRel G S r s X Y (chainVals (flatCards X ++ flatCards Y ++ pqgh S)
          (List.replicate s.length (srcNi H S.G.q)) 0 0) := by
  have hq : 0 < S.G.q := by rw [hS.grp]; exact hG.q_pos
  have hsrc := srcNi_ok H S.G.q hq
  have hall : ∀ d ∈ List.replicate s.length (srcNi H S.G.q), ChalOk (.ni H) S.G.q d := by
    intro d hd; rw [List.eq_of_mem_replicate hd]; exact hsrc
  obtain ⟨sentP, hP, hV⟩ := vrhe_sound_modes hG (.ni H) S hS r s X Y st
    (List.replicate s.length (srcNi H S.G.q)) (by simp) hall (srcNi H S.G.q) hsrc
    (List.replicate s.length (srcNi H S.G.q)) (by simp) hall (srcNi H S.G.q) hsrc
    ut opm u lt rest hut hopm hu hlt lut lopm llt
  have e : ∀ (f : ChalSrc → List ℤ), f (srcNi H S.G.q) = [] →
      (List.replicate s.length (srcNi H S.G.q)).flatMap f = [] := by
    intro f hf
    exact flatMap_nil_of f _ (fun d hd => by rw [List.eq_of_mem_replicate hd]; exact hf)
  have e1 : verifierLines (List.replicate s.length (srcNi H S.G.q)) (srcNi H S.G.q)
      (List.replicate s.length (srcNi H S.G.q)) (srcNi H S.G.q) = [] := by
    simp only [verifierLines, e ChalSrc.pPeer rfl]; simp [srcNi]
  have e2 : proverCoins (List.replicate s.length (srcNi H S.G.q)) (srcNi H S.G.q)
      (List.replicate s.length (srcNi H S.G.q)) (srcNi H S.G.q) ut opm u lt rest =
      ut ++ (opm ++ (u :: (lt ++ rest))) := by
    simp only [proverCoins, e ChalSrc.pCoins rfl]; simp [srcNi]
  have e3 : verifierCoins (List.replicate s.length (srcNi H S.G.q)) (srcNi H S.G.q)
      (List.replicate s.length (srcNi H S.G.q)) (srcNi H S.G.q) = [] := by
    simp only [verifierCoins, e ChalSrc.vCoins rfl]; simp [srcNi]
  rw [e1, e2] at hP
  rw [e3] at hV
  exact ⟨sentP, hP, hV⟩

/-- **the bound for the rotation argument**: some output card `Y_{k0}` deviates from the
    re-encryption of `X_{k0-r}`; then at most `|T|^(n-1)` of the `|T|^n` challenge vectors `α ∈ T^n`
    (`T`: integers pairwise different modulo `q`) satisfy the relation `RotRel` that acceptance
    implies. -/
theorem rot_count (hG : ValidGroup G) (S : State) (hS : StateOk G S)
    (r : ℕ) (s : List ℤ) (X Y : List Card) (st : RotAlg G S r s X Y) (k0 : ℕ) (hk0 : k0 < s.length)
    (hbad : rotDev1 G r s X Y k0 ≠ 1 ∨ rotDev2 G S r s X Y k0 ≠ 1)
    (T : Finset ℤ) (hT : ∀ a ∈ T, ∀ b ∈ T, (a : ZMod G.q.natAbs) = (b : ZMod G.q.natAbs) → a = b)
    (acc : (Fin s.length → ℤ) → Prop) [DecidablePred acc]
    (h : ∀ t : Fin s.length → ℤ, (∀ j, t j ∈ T) → acc t → RotRel G S r s X Y (List.ofFn t)) :
    ((Fintype.piFinset fun _ : Fin s.length => T).filter acc).card ≤ T.card ^ (s.length - 1) := by
  have hgq := g_sub hG
  have hhq := h_sub S hS
  have hr := st.r_lt
  have hD1 : ∀ i < s.length, rotDev1 G r s X Y i ^ G.q.natAbs = 1 := by
    intro i hi
    unfold rotDev1
    rw [div_pow, mul_pow, (st.subY i hi).1, (st.subX _ (subMod_lt hr hi)).1, zpow_pow_q hgq]
    simp
  have hD2 : ∀ i < s.length, rotDev2 G S r s X Y i ^ G.q.natAbs = 1 := by
    intro i hi
    unfold rotDev2
    rw [div_pow, mul_pow, (st.subY i hi).2, (st.subX _ (subMod_lt hr hi)).2, zpow_pow_q hhq]
    simp
  have hinj : ∀ i < s.length, ∀ j < s.length, subMod s.length r i = subMod s.length r j → i = j := by
    intro i hi j hj heq
    rw [← addMod_subMod hr hi, ← addMod_subMod hr hj, heq]
  rcases hbad with hb | hb
  · exact inj_form_bound G.q.natAbs hG.q_prime s.length (subMod s.length r)
      (fun i hi => subMod_lt hr hi) hinj (rotDev1 G r s X Y) hD1 k0 hk0 hb T hT acc
      (fun t ht ha => (h t ht ha).1)
  · exact inj_form_bound G.q.natAbs hG.q_prime s.length (subMod s.length r)
      (fun i hi => subMod_lt hr hi) hinj (rotDev2 G S r s X Y) hD2 k0 hk0 hb T hT acc
      (fun t ht ha => (h t ht ha).2)

end Tmcg.Args
