import Tmcg.Model.PgpBounds
/-
  C12: the bounds model of the OpenPGP packet decoder (`Tmcg.Model.PgpBounds`) never leaves its
  buffers — weakest-precondition calculus for the trace monad and the safety of every decoder.
-/
namespace Tmcg.PgpBounds
open Tmcg.Pgp Tmcg.Gen

/-- every access logged by `m` is in bounds (for a decoder started on `N` octets) -/
def Safe (N : Nat) {α : Type} (m : M α) : Prop := ∀ a ∈ m.trace, a.ok N

/-- `m` is safe and its result, when it has one, satisfies `Q` -/
def Wp (N : Nat) {α : Type} (m : M α) (Q : α → Prop) : Prop :=
  Safe N m ∧ ∀ a, m.out = .ok a → Q a

theorem Wp.safe {N : Nat} {α : Type} {m : M α} {Q : α → Prop} (h : Wp N m Q) : Safe N m := h.1

theorem wp_mono {N : Nat} {α : Type} {m : M α} {Q R : α → Prop} (h : Wp N m Q) (hqr : ∀ a, Q a → R a) :
    Wp N m R := ⟨h.1, fun a ha => hqr a (h.2 a ha)⟩

theorem wp_pure {N : Nat} {α : Type} (a : α) (Q : α → Prop) (h : Q a) : Wp N (pure a : M α) Q := by
  refine ⟨?_, ?_⟩
  · intro x hx; simp [pure, M.pure] at hx
  · intro b hb; simp [pure, M.pure] at hb; subst hb; exact h

theorem wp_bind {N : Nat} {α β : Type} (m : M α) (f : α → M β) (Q : α → Prop) (R : β → Prop)
    (hm : Wp N m Q) (hf : ∀ a, Q a → Wp N (f a) R) : Wp N (m >>= f) R := by
  show Wp N (M.bind m f) R
  unfold M.bind
  cases hout : m.out with
  | error e =>
    refine ⟨?_, ?_⟩
    · intro x hx; simp at hx; exact hm.1 x hx
    · intro b hb; simp at hb
  | ok a =>
    have hq := hm.2 a hout
    have hfa := hf a hq
    refine ⟨?_, ?_⟩
    · intro x hx
      simp at hx
      rcases hx with hx | hx
      · exact hm.1 x hx
      · exact hfa.1 x hx
    · intro b hb; simp at hb; exact hfa.2 b hb

theorem wp_emit {N : Nat} (a : Access) (Q : Unit → Prop) (ha : a.ok N) (hq : Q ()) : Wp N (emit a) Q := by
  refine ⟨?_, ?_⟩
  · intro x hx; simp [emit] at hx; subst hx; exact ha
  · intro b _; exact hq

theorem wp_refuse {N : Nat} {α : Type} (w : Refusal) (Q : α → Prop) : Wp N (refuse w : M α) Q := by
  refine ⟨?_, ?_⟩
  · intro x hx; simp [refuse] at hx
  · intro b hb; simp [refuse] at hb

theorem wp_warn {N : Nat} {α : Type} (c : Nat) (Q : α → Prop) : Wp N (warn c : M α) Q := by
  refine ⟨?_, ?_⟩
  · intro x hx; simp [warn] at hx
  · intro b hb; simp [warn] at hb

theorem wp_need {N : Nat} (c : Prop) [Decidable c] (w : Refusal) (Q : Unit → Prop) (h : c → Q ()) :
    Wp N (need c w) Q := by
  unfold need
  split
  · rename_i hc; exact wp_pure () Q (h hc)
  · exact wp_refuse w Q

theorem wp_ite {N : Nat} {α : Type} (c : Prop) [Decidable c] (a b : M α) (Q : α → Prop)
    (ha : c → Wp N a Q) (hb : ¬ c → Wp N b Q) : Wp N (if c then a else b) Q := by
  split
  · rename_i h; exact ha h
  · rename_i h; exact hb h

theorem wp_rd {N : Nat} (buf : Octets) (i : Nat) (Q : Nat → Prop) (hi : i < buf.length)
    (hq : ∀ v, v < 256 → Q v) : Wp N (rd buf i) Q := by
  unfold rd
  refine wp_bind _ _ (fun _ => True) _ (wp_emit _ _ hi trivial) ?_
  intro _ _
  exact wp_pure _ _ (hq _ (Nat.mod_lt _ (by decide)))


/-! ### rules in continuation form (what the `wp` tactic applies) -/

theorem wpb_rd {N : Nat} {β : Type} (buf : Octets) (i : Nat) (f : Nat → M β) (R : β → Prop)
    (hi : i < buf.length) (hf : ∀ v, v < 256 → Wp N (f v) R) : Wp N (rd buf i >>= f) R :=
  wp_bind _ _ (fun v => v < 256) R (wp_rd buf i _ hi (fun _ h => h)) hf

theorem wpb_need {N : Nat} {β : Type} (c : Prop) [Decidable c] (w : Refusal) (f : Unit → M β) (R : β → Prop)
    (hf : c → Wp N (f ()) R) : Wp N (need c w >>= f) R :=
  wp_bind _ _ (fun _ => c) R (wp_need c w _ (fun h => h)) (fun _ h => hf h)

theorem wpb_emit {N : Nat} {β : Type} (a : Access) (f : Unit → M β) (R : β → Prop)
    (ha : a.ok N) (hf : Wp N (f ()) R) : Wp N (emit a >>= f) R :=
  wp_bind _ _ (fun _ => True) R (wp_emit a _ ha trivial) (fun _ _ => hf)

theorem wp_slice {N : Nat} (buf : Octets) (lo hi : Nat) (Q : Octets → Prop) (h : lo ≤ hi ∧ hi ≤ buf.length)
    (hq : Q ((buf.drop lo).take (hi - lo))) : Wp N (slice buf lo hi) Q := by
  unfold slice
  exact wp_bind _ _ (fun _ => True) _ (wp_emit _ _ h trivial) (fun _ _ => wp_pure _ _ hq)

theorem wpb_slice {N : Nat} {β : Type} (buf : Octets) (lo hi : Nat) (f : Octets → M β) (R : β → Prop)
    (h : lo ≤ hi ∧ hi ≤ buf.length) (hf : Wp N (f ((buf.drop lo).take (hi - lo))) R) :
    Wp N (slice buf lo hi >>= f) R :=
  wp_bind _ _ (fun s => s = (buf.drop lo).take (hi - lo)) R (wp_slice buf lo hi _ h rfl) (fun _ e => e ▸ hf)

theorem wp_eraseFront {N : Nat} (buf : Octets) (k : Nat) (Q : Octets → Prop) (h : k ≤ buf.length)
    (hq : Q (buf.drop k)) : Wp N (eraseFront buf k) Q := by
  unfold eraseFront
  exact wp_bind _ _ (fun _ => True) _ (wp_emit _ _ ⟨Nat.zero_le _, h⟩ trivial) (fun _ _ => wp_pure _ _ hq)

theorem wpb_eraseFront {N : Nat} {β : Type} (buf : Octets) (k : Nat) (f : Octets → M β) (R : β → Prop)
    (h : k ≤ buf.length) (hf : Wp N (f (buf.drop k)) R) : Wp N (eraseFront buf k >>= f) R :=
  wp_bind _ _ (fun s => s = buf.drop k) R (wp_eraseFront buf k _ h rfl) (fun _ e => e ▸ hf)

theorem wp_storeF {N : Nat} (fl : Field) (off : Nat) (buf : Octets) (src k : Nat) (Q : Unit → Prop)
    (hr : k = 0 ∨ src + k ≤ buf.length) (hc : k = 0 ∨ off + k ≤ fl.cap) (hq : Q ()) :
    Wp N (storeF fl off buf src k) Q := by
  unfold storeF
  exact wp_bind _ _ (fun _ => True) _ (wp_emit _ _ hr trivial) (fun _ _ => wp_emit _ _ hc hq)

theorem wpb_storeF {N : Nat} {β : Type} (fl : Field) (off : Nat) (buf : Octets) (src k : Nat) (f : Unit → M β)
    (R : β → Prop) (hr : k = 0 ∨ src + k ≤ buf.length) (hc : k = 0 ∨ off + k ≤ fl.cap) (hf : Wp N (f ()) R) :
    Wp N (storeF fl off buf src k >>= f) R :=
  wp_bind _ _ (fun _ => True) R (wp_storeF fl off buf src k _ hr hc trivial) (fun _ _ => hf)

theorem wp_allocCopy {N : Nat} (h : Heap) (size : Nat) (buf : Octets) (src k : Nat) (Q : Unit → Prop)
    (hs : size ≤ N + 1) (hr : k = 0 ∨ src + k ≤ buf.length) (hk : k ≤ size) (hq : Q ()) :
    Wp N (allocCopy h size buf src k) Q := by
  unfold allocCopy
  exact wp_bind _ _ (fun _ => True) _ (wp_emit _ _ hs trivial) (fun _ _ =>
    wp_bind _ _ (fun _ => True) _ (wp_emit _ _ hr trivial) (fun _ _ => wp_emit _ _ hk hq))

theorem wpb_allocCopy {N : Nat} {β : Type} (h : Heap) (size : Nat) (buf : Octets) (src k : Nat) (f : Unit → M β)
    (R : β → Prop) (hs : size ≤ N + 1) (hr : k = 0 ∨ src + k ≤ buf.length) (hk : k ≤ size)
    (hf : Wp N (f ()) R) : Wp N (allocCopy h size buf src k >>= f) R :=
  wp_bind _ _ (fun _ => True) R (wp_allocCopy h size buf src k _ hs hr hk trivial) (fun _ _ => hf)

theorem wp_charge {N : Nat} (mem n : Nat) (Q : Nat → Prop) (hq : ∀ m, Q m) : Wp N (charge mem n) Q := by
  unfold charge
  split
  · exact wp_refuse _ _
  · exact wp_pure _ _ (hq _)

theorem wpb_charge {N : Nat} {β : Type} (mem n : Nat) (f : Nat → M β) (R : β → Prop)
    (hf : ∀ m, Wp N (f m) R) : Wp N (charge mem n >>= f) R :=
  wp_bind _ _ (fun _ => True) R (wp_charge mem n _ (fun _ => trivial)) (fun m _ => hf m)

/-- generic bind with a known specification of the first part -/
theorem wpb_of {N : Nat} {α β : Type} {m : M α} {Q : α → Prop} (hm : Wp N m Q) (f : α → M β) (R : β → Prop)
    (hf : ∀ a, Q a → Wp N (f a) R) : Wp N (m >>= f) R := wp_bind m f Q R hm hf

/-- one step of the calculus on the head of the goal -/
macro "wp_step" : tactic => `(tactic| first
  | apply wpb_rd
  | apply wpb_need
  | apply wpb_storeF
  | apply wpb_allocCopy
  | apply wpb_slice
  | apply wpb_eraseFront
  | apply wpb_charge
  | apply wpb_emit
  | apply wp_pure
  | apply wp_refuse
  | apply wp_warn
  | apply wp_ite
  | apply wp_storeF
  | apply wp_allocCopy
  | apply wp_slice
  | apply wp_eraseFront
  | apply wp_emit
  | (intro _)
  | (dsimp only))

/-- arithmetic side conditions: unfold the generated capacities and widths, then linear arithmetic -/
macro "wp_unfold" : tactic => `(tactic|
  simp only [Access.ok, Field.cap, CTX_CAP_keyid, CTX_CAP_rkw, CTX_CAP_issuer, CTX_CAP_notation_name,
      CTX_CAP_notation_value, CTX_CAP_psa, CTX_CAP_pha, CTX_CAP_pca, CTX_CAP_paa, CTX_CAP_trustregex,
      CTX_CAP_revocationkey_fingerprint, CTX_CAP_keyserverpreferences, CTX_CAP_preferedkeyserver,
      CTX_CAP_policyuri, CTX_CAP_keyflags, CTX_CAP_signersuserid, CTX_CAP_revocationreason, CTX_CAP_features,
      CTX_CAP_signaturetarget_hash, CTX_CAP_issuerfingerprint, CTX_CAP_recipientfingerprint, CTX_CAP_left,
      CTX_CAP_signingkeyid, CTX_CAP_curveoid, CTX_CAP_s2k_salt, CTX_CAP_iv, CTX_CAP_datafilename,
      CTX_CAP_mdc_hash, u32, usz, subSz, be4, PGP_BITS_UINT32, PGP_BITS_SIZE_T, List.length_drop,
      List.length_take, Nat.reducePow, ge_iff_le, gt_iff_lt, Nat.not_lt, Nat.not_le, ne_eq, Decidable.not_not,
      not_and, not_or, Bool.and_eq_true, decide_eq_true_eq, if_true, if_false, Bool.false_eq_true,
      false_imp_iff, true_imp_iff, imp_self, and_true, true_and, not_true_eq_false, not_false_eq_true,
      Bool.not_eq_true, reduceCtorEq, List.length_nil, List.length_cons] at *)

macro "wp_close" : tactic => `(tactic| first
  | trivial
  | omega
  | ((try dsimp only at *) <;> (try wp_unfold) <;> first | omega | trivial | (simp at * <;> omega)))

macro "wp" : tactic => `(tactic| (repeat' wp_step) <;> wp_close)

theorem tag4_wp (N : Nat) (pkt : Octets) : Wp N (tag4 pkt) (fun _ => True) := by
  unfold tag4
  wp


/-! ### leaf decoders -/

theorem lenDecode_wp (N : Nat) (buf : Octets) (nf : Bool) (lt : Nat) :
    Wp N (lenDecode buf nf lt) (fun l => l.len < 2 ^ 32 ∧ l.headlen ≤ 42 ∧ (l.partlen = true → l.headlen = 1) ∧
      (l.headlen ≠ 0 → l.headlen ≠ 42 → l.headlen ≤ buf.length)) := by
  unfold lenDecode
  wp

theorem mpiT_wp (N : Nat) (secure : Bool) (buf : Octets) (hN : buf.length ≤ N) :
    Wp N (mpiT secure buf) (fun r => r.1 = 0 ∨ (2 ≤ r.1 ∧ r.1 ≤ buf.length)) := by
  cases secure <;> (unfold mpiT; wp)

theorem mpiNext_wp (N : Nat) (strict secure erase : Bool) (buf : Octets) (hN : buf.length ≤ N) :
    Wp N (mpiNext strict secure erase buf) (fun r => r.2.length ≤ buf.length ∧ (erase = true → r.2.length + 2 ≤ buf.length)) := by
  cases erase <;>
  · unfold mpiNext
    apply wpb_need; intro _
    apply wpb_of (mpiT_wp N secure buf hN); intro r hr
    wp

theorem mpiLoop_wp (N : Nat) (secure : Bool) (n : Nat) (buf : Octets) (hN : buf.length ≤ N) :
    Wp N (mpiLoop secure n buf) (fun r => r.2.length ≤ buf.length) := by
  induction n generalizing buf with
  | zero => unfold mpiLoop; wp
  | succ n ih =>
    unfold mpiLoop
    apply wpb_of (mpiNext_wp N false secure true buf hN); intro r hr
    apply wpb_of (ih r.2 (by omega)); intro q hq
    wp

theorem strT_wp (N : Nat) (buf : Octets) : Wp N (strT buf) (fun _ => True) := by
  unfold strT
  apply wpb_of (lenDecode_wp N buf true 0xFF); intro l hl
  wp

theorem strLoop_wp (N : Nat) (n : Nat) (buf : Octets) :
    Wp N (strLoop n buf) (fun r => r.length ≤ buf.length) := by
  induction n generalizing buf with
  | zero => unfold strLoop; wp
  | succ n ih =>
    unfold strLoop
    apply wpb_of (strT_wp N buf); intro r _
    apply wpb_need; intro h
    apply wpb_eraseFront _ _ _ _ (by omega)
    exact wp_mono (ih _) (fun a ha => by simp only [List.length_drop] at ha; omega)


/-! ### subpackets -/

theorem copyAll_wp (N : Nat) (f : Field) (strict : Bool) (pkt : Octets) : Wp N (copyAll f strict pkt) (fun _ => True) := by
  cases strict <;> (unfold copyAll; wp)

theorem boolSub_wp (N : Nat) (pkt : Octets) : Wp N (boolSub pkt) (fun _ => True) := by
  unfold boolSub; wp

theorem timeSub_wp (N : Nat) (pkt : Octets) : Wp N (timeSub pkt) (fun _ => True) := by
  unfold timeSub; wp

theorem fprSub_wp (N : Nat) (f : Field) (hf : 32 ≤ f.cap) (pkt : Octets) : Wp N (fprSub f pkt) (fun _ => True) := by
  unfold fprSub; wp

theorem blockSub_wp (N : Nat) (h : Heap) (old mem : Nat) (pkt : Octets) (hN : pkt.length ≤ N) :
    Wp N (blockSub h old mem pkt) (fun r => r.2 ≤ N) := by
  unfold blockSub; wp

/-- the notation lengths a caller reads back stay inside the two arrays -/
def SubPost (N : Nat) (r : Nat × Nat × Nat × Nat × SubSt) : Prop :=
  r.2.1 ≤ Field.notation_name.cap ∧ r.2.2.1 ≤ Field.notation_value.cap ∧ r.2.2.2.2.emb ≤ N

set_option maxRecDepth 100000 in
theorem subBody_wp (N : Nat) (type : Nat) (pkt : Octets) (st : SubSt) (hN : pkt.length ≤ N) (hst : st.emb ≤ N) :
    Wp N (subBody type pkt st) (SubPost N) := by
  unfold subBody
  split
  all_goals first
    | (apply wpb_of (timeSub_wp N pkt); intro _ _; apply wp_pure; simp [SubPost, hst])
    | (apply wpb_of (boolSub_wp N pkt); intro _ _; apply wp_pure; simp [SubPost, hst])
    | (apply wpb_of (copyAll_wp N _ _ pkt); intro _ _; apply wp_pure; simp [SubPost, hst])
    | (apply wpb_of (blockSub_wp N _ _ _ pkt hN); intro r hr; apply wp_pure; simp [SubPost, hst, hr])
    | (apply wpb_of (fprSub_wp N _ (by decide) pkt); intro _ _; apply wp_pure; simp [SubPost, hst])
    | (apply wp_pure; simp [SubPost, hst])
    | (unfold SubPost; wp)

theorem subHead_wp (N : Nat) (buf : Octets) :
    Wp N (subHead buf) (fun h => (h.1 = 2 ∨ h.1 = 3 ∨ h.1 = 6) ∧ h.1 ≤ buf.length ∧ h.2 < 2 ^ 32) := by
  unfold subHead; wp

theorem subDecodeT_wp (N : Nat) (buf : Octets) (st : SubSt) (hN : buf.length ≤ N) (hst : st.emb ≤ N) :
    Wp N (subDecodeT buf st) (fun o => o.nl ≤ Field.notation_name.cap ∧ o.vl ≤ Field.notation_value.cap ∧
      2 ≤ o.used ∧ o.used ≤ buf.length ∧ o.st.emb ≤ N) := by
  unfold subDecodeT
  apply wpb_of (subHead_wp N buf); intro h hh
  dsimp only
  apply wpb_rd _ _ _ _ (by omega); intro t _
  apply wpb_need; intro hlen
  apply wpb_need; intro hshort
  have hfit : h.1 + (h.2 - 1) ≤ buf.length := by
    revert hshort; wp_unfold; omega
  apply wpb_slice _ _ _ _ _ ⟨by omega, hfit⟩
  apply wpb_of (subBody_wp N _ _ st (by simp only [List.length_take, List.length_drop]; omega) hst); intro r hr
  apply wpb_eraseFront _ _ _ _ hfit
  apply wp_pure
  exact ⟨hr.1, hr.2.1, by dsimp only; omega, hfit, hr.2.2⟩

theorem subParseT_wp (N : Nat) (fuel : Nat) (buf : Octets) (st : SubSt) (tag iters : Nat) (hN : buf.length ≤ N)
    (hst : st.emb ≤ N) : Wp N (subParseT fuel buf st tag iters) (fun r => r.2.1.emb ≤ N) := by
  induction fuel generalizing buf st tag iters with
  | zero => unfold subParseT; exact wp_refuse _ _
  | succ fuel ih =>
    unfold subParseT
    apply wp_ite
    · intro _; exact wp_pure _ _ hst
    · intro _
      apply wpb_of (subDecodeT_wp N buf st hN hst); intro o ho
      have hrec : ∀ tg, Wp N (subParseT fuel (List.drop o.used buf) o.st tg (iters + 1)) (fun r => r.2.1.emb ≤ N) :=
        fun tg => ih _ _ _ _ (by simp only [List.length_drop]; omega) ho.2.2.2.2
      have hfp : (if o.rver = 4 then 20 else if o.rver = 5 then 32 else 0) ≤ 32 := by
        split
        · omega
        · split <;> omega
      dsimp only
      repeat' wp_step
      all_goals first
        | exact hrec _
        | (simp only [Access.ok, Field.cap, CTX_CAP_recipientfingerprint] at *; omega)


/-! ### body decoders -/

/-- steps with the specifications of the leaf decoders -/
macro "wp_leaf" : tactic => `(tactic| first
  | (apply wpb_of (mpiNext_wp _ _ _ _ _ (by first | assumption | omega | (simp only [List.length_drop, List.length_take] at *; omega))); intro _ _)
  | (apply wpb_of (mpiLoop_wp _ _ _ _ (by first | assumption | omega | (simp only [List.length_drop, List.length_take] at *; omega))); intro _ _)
  | (apply wpb_of (strLoop_wp _ _ _); intro _ _)
  | wp_step)

macro "wpl" : tactic => `(tactic| (repeat' wp_leaf) <;> wp_close)

theorem tag1_wp (N : Nat) (pkt : Octets) (hN : pkt.length ≤ N) : Wp N (tag1 pkt) (fun _ => True) := by
  unfold tag1
  wpl

theorem sigMpis_wp (N : Nat) (algo : Nat) (mpis : Octets) (hN : mpis.length ≤ N) :
    Wp N (sigMpis algo mpis) (fun _ => True) := by
  unfold sigMpis
  wpl

theorem payload_wp (N : Nat) (h : Heap) (mem : Nat) (pkt : Octets) (off : Nat) (e : Option Nat) (ret : Nat)
    (hN : pkt.length ≤ N) (hoff : off ≤ pkt.length) : Wp N (payload h mem pkt off e ret) (fun _ => True) := by
  have hs : subSz pkt.length off = pkt.length - off := by unfold subSz; simp [hoff]
  unfold payload
  rw [hs]
  cases e <;> wp

theorem tag3_wp (N : Nat) (pkt : Octets) (mem : Nat) (hN : pkt.length ≤ N) : Wp N (tag3 pkt mem) (fun _ => True) := by
  unfold tag3
  repeat' (first | (apply payload_wp _ _ _ _ _ _ _ hN) | wp_step)
  all_goals wp_close

theorem tag8_wp (N : Nat) (pkt : Octets) (mem : Nat) (hN : pkt.length ≤ N) : Wp N (tag8 pkt mem) (fun _ => True) := by
  unfold tag8
  repeat' (first | (apply payload_wp _ _ _ _ _ _ _ hN) | wp_step)
  all_goals wp_close

theorem tag9_wp (N : Nat) (pkt : Octets) (mem : Nat) (hN : pkt.length ≤ N) : Wp N (tag9 pkt mem) (fun _ => True) := by
  unfold tag9
  repeat' (first | (apply payload_wp _ _ _ _ _ _ _ hN) | wp_step)
  all_goals wp_close

theorem tag10_wp (N : Nat) (pkt : Octets) : Wp N (tag10 pkt) (fun _ => True) := by
  unfold tag10; wp

theorem tag11_wp (N : Nat) (pkt : Octets) (mem : Nat) (hN : pkt.length ≤ N) : Wp N (tag11 pkt mem) (fun _ => True) := by
  unfold tag11
  repeat' (first | (apply payload_wp _ _ _ _ _ _ _ hN) | wp_step)
  all_goals wp_close

theorem tag13_wp (N : Nat) (pkt : Octets) (mem : Nat) (hN : pkt.length ≤ N) : Wp N (tag13 pkt mem) (fun _ => True) := by
  unfold tag13; wp

theorem tag17_wp (N : Nat) (pkt : Octets) (mem : Nat) (hN : pkt.length ≤ N) : Wp N (tag17 pkt mem) (fun _ => True) := by
  unfold tag17
  repeat' (first | (apply payload_wp _ _ _ _ _ _ _ hN) | wp_step)
  all_goals wp_close

theorem tag18_wp (N : Nat) (pkt : Octets) (mem : Nat) (hN : pkt.length ≤ N) : Wp N (tag18 pkt mem) (fun _ => True) := by
  unfold tag18
  repeat' (first | (apply payload_wp _ _ _ _ _ _ _ hN) | wp_step)
  all_goals wp_close

theorem tag19_wp (N : Nat) (nf : Bool) (pkt : Octets) : Wp N (tag19 nf pkt) (fun _ => True) := by
  unfold tag19; wp

theorem aeadIv_le (a : Nat) : PgpMsg.aeadIvLength a ≤ 16 := by
  unfold PgpMsg.aeadIvLength; split <;> omega

theorem blockLength_le (a : Nat) : PgpMsg.blockLength a ≤ 16 := by
  unfold PgpMsg.blockLength; split <;> omega

theorem tag20_wp (N : Nat) (pkt : Octets) (mem : Nat) (hN : pkt.length ≤ N) : Wp N (tag20 pkt mem) (fun _ => True) := by
  unfold tag20
  repeat' (first | (apply payload_wp _ _ _ _ _ _ _ hN) | wp_step)
  all_goals wp_close


theorem ecPublic_wp (N : Nat) (pkt : Octets) (off : Nat) (erase : Bool) (hN : pkt.length ≤ N) (hoff : off ≤ 10) :
    Wp N (ecPublic pkt off erase) (fun r => r.length ≤ pkt.length) := by
  unfold ecPublic
  wpl

set_option maxHeartbeats 4000000 in
theorem keyPublic_wp (N : Nat) (pub : Bool) (pkt : Octets) (off algo : Nat) (mpis : Octets)
    (hN : pkt.length ≤ N) (hm : mpis.length ≤ pkt.length) (hoff : off ≤ 10) :
    Wp N (keyPublic pub pkt off algo mpis) (fun r => r.length ≤ pkt.length) := by
  cases pub <;>
  · unfold keyPublic
    simp only [↓reduceIte, Bool.false_eq_true, Bool.not_true, Bool.not_false]
    repeat' (first
      | (apply wpb_of (ecPublic_wp _ _ _ _ hN hoff); intro _ _)
      | (exact ecPublic_wp _ _ _ _ hN hoff)
      | wp_leaf)
    all_goals wp_close

theorem keyPublic_call (N : Nat) (pub : Bool) (pkt : Octets) (v algo : Nat) (hN : pkt.length ≤ N) :
    Wp N (keyPublic pub pkt (if v = 4 then 6 else 10) algo
      ((pkt.drop (if v = 4 then 6 else 10)).take (pkt.length - (if v = 4 then 6 else 10)))) (fun r => r.length ≤ pkt.length) :=
  keyPublic_wp N pub pkt _ algo _ hN (by simp only [List.length_drop, List.length_take]; omega) (by split <;> omega)

theorem tag614_wp (N : Nat) (tag : Nat) (pkt : Octets) (hN : pkt.length ≤ N) : Wp N (tag614 tag pkt) (fun _ => True) := by
  unfold tag614
  repeat' (first
    | (apply wpb_of (keyPublic_call _ _ _ _ _ hN); intro _ _)
    | wp_step)
  all_goals first | wp_close | (split <;> omega)

theorem secretLoop_wp (N : Nat) (n : Nat) (buf : Octets) (hN : buf.length ≤ N) :
    Wp N (secretLoop n buf) (fun r => r.length ≤ buf.length) := by
  induction n generalizing buf with
  | zero => unfold secretLoop; wp
  | succ n ih =>
    unfold secretLoop
    apply wpb_of (mpiNext_wp N false true true buf hN); intro r hr
    apply wpb_emit
    · simp only [Access.ok]; omega
    · exact wp_mono (ih r.2 (by omega)) (fun a ha => by omega)

end Tmcg.PgpBounds
