import Tmcg.Model.Rbc
import TmcgProofs.Base
import Mathlib.Data.List.Basic
/-
  C14, part A — properties of ONE honest party of the reliable broadcast that hold whatever the
  network (including arbitrarily misbehaving peers) hands over: FIFO order, no duplication in
  FIFO mode, channel isolation.  (Agreement and integrity need the other honest parties:
  TmcgProofs/RbcGlobal.lean.)
-/
namespace Tmcg.Rbc

variable (H : Int → Int) (T : Tag → Int)

/-- `Deliver` never changes the channel or the configuration -/
theorem step_keeps_config (p : Party) (pi : List Nat) (inp : Option (Nat × Msg)) :
    let r := step H T p pi inp
    r.party.ID = p.ID ∧ r.party.fifo = p.fifo ∧ r.party.n = p.n ∧ r.party.t = p.t ∧
    r.party.j = p.j ∧ r.party.fifoSkip = p.fifoSkip := by
  sorry

/-- what a delivery is: some message of the *current* channel from sender `who`, in FIFO mode
    with exactly the expected sequence number, whose cached payload is the returned value; the
    expected sequence number of `who` advances by one and no other counter moves -/
theorem step_delivery_spec (p : Party) (pi : List Nat) (inp : Option (Nat × Msg)) (who : Nat) (m : Int)
    (hlen : p.deliverS.length = p.n)
    (hout : (step H T p pi inp).out = .delivered who m) :
    ∃ msg : Msg, msg.id = p.ID ∧ msg.sender.toNat = who ∧
      (p.fifo = true → msg.seq = p.dS who) ∧
      aGet (step H T p pi inp).party.mbar msg.tag = some m ∧
      (step H T p pi inp).party.deliverS = p.deliverS.set who (p.dS who + 1) := by
  sorry

/-- without a delivery the expected sequence numbers do not move (FIFO mode, `fifo_skip = 0`) -/
theorem step_no_delivery_keeps_counters (p : Party) (pi : List Nat) (inp : Option (Nat × Msg))
    (hskip : p.fifoSkip = 0)
    (hout : ∀ who m, (step H T p pi inp).out ≠ .delivered who m) :
    (step H T p pi inp).party.deliverS = p.deliverS := by
  sorry

/-- a run of `Deliver` calls of one party within one channel: inputs are whatever the network
    hands over; returns the final state and the deliveries `(sender, expected seq before, value)` -/
def runSteps (p : Party) : List (List Nat × Option (Nat × Msg)) → Party × List (Nat × Int × Int)
  | [] => (p, [])
  | (pi, inp) :: rest =>
    let r := step H T p pi inp
    let (q, ds) := runSteps r.party rest
    match r.out with
    | .delivered who m => (q, (who, p.dS who, m) :: ds)
    | _ => (q, ds)

/-- **FIFO order and no duplication** (FIFO mode, `fifo_skip = 0`): in every run, whatever
    arrives, the deliveries from one sender carry consecutive sequence numbers starting at the
    expected one — so no slot is delivered twice and none out of order -/
theorem fifo_order (p : Party) (hfifo : p.fifo = true) (hskip : p.fifoSkip = 0)
    (hlen : p.deliverS.length = p.n)
    (ins : List (List Nat × Option (Nat × Msg))) (who : Nat) (hwho : who < p.n) :
    ((runSteps H T p ins).2.filter (fun d => d.1 = who)).map (fun d => d.2.1)
      = (List.range ((runSteps H T p ins).2.filter (fun d => d.1 = who)).length).map
          (fun k => p.dS who + (k : Int)) := by
  sorry

/-- **channel isolation for `DeliverFrom`**: a value handed out was stored under the current
    channel identifier (the per-sender buffer never hands a value across channels) -/
theorem deliverFrom_isolation (p : Party) (iIn : Nat) (pi : List Nat) (inp : Option (Nat × Msg)) (v : Int)
    (hb : p.bufMpz.length = p.n ∧ p.bufId.length = p.n)
    (hpair : ∀ i, (p.bufMpz.getD i []).length = (p.bufId.getD i []).length)
    (h : (deliverFrom H T p iIn pi inp).value = some v) :
    ∃ k, (p.bufMpz.getD iIn []).getD k 0 = v ∧ (p.bufId.getD iIn []).getD k 0 = p.ID ∧
      k < (p.bufMpz.getD iIn []).length := by
  sorry

/-- `setID` starts every sender at slot 1 and `unsetID` after `setID` restores the counters of the
    enclosing channel: a nested channel cannot disturb the FIFO bookkeeping of the outer one -/
theorem unsetID_setID (p : Party) (newID : Int) (f f' : Bool) :
    (unsetID (setID p newID f) f').deliverS = p.deliverS ∧
    (unsetID (setID p newID f) f').ID = p.ID ∧ (unsetID (setID p newID f) f').s = p.s := by
  sorry

end Tmcg.Rbc
