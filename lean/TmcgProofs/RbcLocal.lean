import Tmcg.Model.Rbc
import TmcgProofs.Base
import Mathlib.Data.List.Basic
/-
  C14, part A — properties of ONE honest party of the reliable broadcast that hold whatever the
  network (including arbitrarily misbehaving peers) hands over: FIFO order, no duplication in
  FIFO mode, channel isolation.  (Agreement and integrity need the other honest parties:
  TmcgProofs/RbcGlobal.lean.)
-/
namespace Tmcg.Rbc

variable (H : Int → Int) (T : Tag → Int)

/-! ### helper lemmas: what one pass of the loop may do to the state -/

/-- the configuration fields agree -/
structure SameCfg (p q : Party) : Prop where
  ID : q.ID = p.ID
  fifo : q.fifo = p.fifo
  n : q.n = p.n
  t : q.t = p.t
  j : q.j = p.j
  fifoSkip : q.fifoSkip = p.fifoSkip

theorem SameCfg.refl (p : Party) : SameCfg p p := ⟨rfl, rfl, rfl, rfl, rfl, rfl⟩

theorem SameCfg.trans {p q r : Party} (h1 : SameCfg p q) (h2 : SameCfg q r) : SameCfg p r :=
  ⟨h2.ID.trans h1.ID, h2.fifo.trans h1.fifo, h2.n.trans h1.n, h2.t.trans h1.t, h2.j.trans h1.j,
   h2.fifoSkip.trans h1.fifoSkip⟩

/-- same configuration and same counters -/
def Same (p q : Party) : Prop := SameCfg p q ∧ q.deliverS = p.deliverS

/-- what one pass may do: nothing to the counters (and no delivery), or one well-formed delivery -/
def Spec (p : Party) (r : Result) : Prop :=
  SameCfg p r.party ∧
  ((r.party.deliverS = p.deliverS ∧ ∀ who m, r.out ≠ .delivered who m) ∨
   (∃ (msg : Msg) (m : Int), msg.id = p.ID ∧ (p.fifo = true → msg.seq = p.dS msg.sender.toNat) ∧
      aGet r.party.mbar msg.tag = some m ∧ r.out = .delivered msg.sender.toNat m ∧
      r.party.deliverS = p.deliverS.set msg.sender.toNat (p.dS msg.sender.toNat + 1)))

theorem spec_of_same {p q : Party} {r : Result} (h : Same p q) (hs : Spec q r) : Spec p r := by
  obtain ⟨hc, hd⟩ := h
  obtain ⟨hc2, hs⟩ := hs
  refine ⟨hc.trans hc2, ?_⟩
  have hdS : ∀ w, q.dS w = p.dS w := fun w => by simp [Party.dS, hd]
  rcases hs with ⟨h1, h2⟩ | ⟨msg, m, h1, h2, h3, h4, h5⟩
  · exact Or.inl ⟨h1.trans hd, h2⟩
  · refine Or.inr ⟨msg, m, h1.trans hc.ID, ?_, h3, h4, ?_⟩
    · intro hf; rw [← hdS]; exact h2 (hc.fifo.trans hf)
    · rw [h5, hd, hdS]

theorem spec_stop {p q : Party} (s : Sent) (h : Same p q) : Spec p ⟨q, s, .idle⟩ :=
  ⟨h.1, Or.inl ⟨h.2, fun _ _ hh => by cases hh⟩⟩

theorem spec_sent {p : Party} {r : Result} (s : Sent) (h : Spec p r) :
    Spec p { r with sent := s } := h

theorem spec_dob (p : Party) (msg : Msg) (s : Sent) : Spec p (deliverOrBuffer p msg s) := by
  unfold deliverOrBuffer
  simp only []
  split
  · rename_i hc
    split
    · exact ⟨SameCfg.refl p, Or.inl ⟨rfl, fun _ _ hh => by cases hh⟩⟩
    · rename_i m hm
      refine ⟨⟨rfl, rfl, rfl, rfl, rfl, rfl⟩, Or.inr ⟨msg, m, hc.1, ?_, hm, rfl, rfl⟩⟩
      intro hf
      rcases hc.2 with h | h
      · exact h.2
      · exact absurd hf h
  · exact ⟨⟨rfl, rfl, rfl, rfl, rfl, rfl⟩, Or.inl ⟨rfl, fun _ _ hh => by cases hh⟩⟩

theorem spec_ite {p : Party} {c : Prop} [Decidable c] {a b : Result}
    (ha : c → Spec p a) (hb : ¬c → Spec p b) : Spec p (if c then a else b) := by
  split
  · exact ha ‹_›
  · exact hb ‹_›

theorem same_p3 {p q p2 p3 : Party} {o : Option Int} {d : Int} (hq : Same p q) (h2 : Same p p2)
    (h : (match o with
          | none => some q
          | some db => if db ≠ d then none else some p2) = some p3) : Same p p3 := by
  cases o with
  | none => simp only [Option.some.injEq] at h; exact h ▸ hq
  | some db =>
    simp only at h
    split at h
    · cases h
    · simp only [Option.some.injEq] at h; exact h ▸ h2

theorem spec_dob_sent {p q : Party} (msg : Msg) (s s' : Sent) (h : Same p q) :
    Spec p { deliverOrBuffer q msg s with sent := s' } :=
  spec_of_same h (spec_dob q msg s)

section
attribute [local irreducible] deliverOrBuffer

theorem dispatch_spec (p : Party) (sent0 : Sent) (l : Nat) (msg : Msg) :
    Spec p (dispatch H T p sent0 l msg) := by
  unfold dispatch
  simp only []
  repeat' first
    | exact spec_stop _ ⟨⟨rfl, rfl, rfl, rfl, rfl, rfl⟩, rfl⟩
    | exact spec_dob_sent _ _ _ ⟨⟨rfl, rfl, rfl, rfl, rfl, rfl⟩, rfl⟩
    | (apply spec_ite <;> intro _)
    | (have h := ‹(_ : Option Party) = some _›
       repeat' split at h
       all_goals cases h)
    | split

end

theorem findFirst_some_loc {α} (q : α → Bool) : ∀ (l : List α) (x : α) (r : List α),
    findFirst q l = some (x, r) → q x = true
  | [], x, r, h => by simp [findFirst] at h
  | y :: ys, x, r, h => by
    unfold findFirst at h
    split at h
    · rename_i hq
      simp only [Option.some.injEq, Prod.mk.injEq] at h
      exact h.1 ▸ hq
    · split at h
      · cases h
      · rename_i y' r' heq
        simp only [Option.some.injEq, Prod.mk.injEq] at h
        exact h.1 ▸ findFirst_some_loc q ys y' r' heq

theorem phaseBuffer_inl (p : Party) (r : Result) (h : phaseBuffer p = .inl r) : Spec p r := by
  unfold phaseBuffer at h
  split at h
  · rename_i e rest hf
    have hd := findFirst_some_loc _ _ _ _ hf
    simp only [deliverable, Bool.and_eq_true, Bool.or_eq_true, Bool.not_eq_true', decide_eq_true_eq] at hd
    split at h
    · cases h
      exact ⟨SameCfg.refl p, Or.inl ⟨rfl, fun _ _ hh => by cases hh⟩⟩
    · rename_i m hm
      cases h
      refine ⟨⟨rfl, rfl, rfl, rfl, rfl, rfl⟩, Or.inr ⟨e, m, hd.1, ?_, hm, rfl, rfl⟩⟩
      intro hf
      rcases hd.2 with h | h
      · rw [hf] at h; cases h
      · exact h
  · cases h

theorem phaseBuffer_inr (p p1 : Party) (sent : Sent) (h : phaseBuffer p = .inr (p1, sent)) :
    SameCfg p p1 ∧ ((p.fifo = true → p.fifoSkip = 0) → p1.deliverS = p.deliverS) := by
  unfold phaseBuffer at h
  split at h
  · split at h <;> cases h
  · simp only [Sum.inr.injEq, Prod.mk.injEq] at h
    obtain ⟨h1, -⟩ := h
    subst h1
    refine ⟨⟨rfl, rfl, rfl, rfl, rfl, rfl⟩, ?_⟩
    intro hskip
    have hc : ¬(p.fifo = true ∧ p.fifoSkip > 0) := fun hc => by
      have := hskip hc.1
      omega
    simp only [hc, if_false]

theorem step_cfg (p : Party) (pi : List Nat) (inp : Option (Nat × Msg)) :
    SameCfg p (step H T p pi inp).party := by
  unfold step
  split
  · rename_i r h
    exact (phaseBuffer_inl p r h).1
  · rename_i p1 sent h
    have hc := (phaseBuffer_inr p p1 sent h).1
    split
    · rename_i l msg bm _
      have hd := (dispatch_spec H T { p1 with bufMsg := bm } sent l msg).1
      have hq : SameCfg p1 { p1 with bufMsg := bm } := ⟨rfl, rfl, rfl, rfl, rfl, rfl⟩
      exact hc.trans (hq.trans hd)
    · split
      · exact hc
      · rename_i l msg
        exact hc.trans (dispatch_spec H T p1 sent l msg).1

theorem step_spec (p : Party) (pi : List Nat) (inp : Option (Nat × Msg))
    (hskip : p.fifo = true → p.fifoSkip = 0) : Spec p (step H T p pi inp) := by
  unfold step
  split
  · rename_i r h
    exact phaseBuffer_inl p r h
  · rename_i p1 sent h
    have hs : Same p p1 := ⟨(phaseBuffer_inr p p1 sent h).1, (phaseBuffer_inr p p1 sent h).2 hskip⟩
    split
    · rename_i l msg bm _
      have hd := dispatch_spec H T { p1 with bufMsg := bm } sent l msg
      have hq : Same p { p1 with bufMsg := bm } := ⟨hs.1.trans ⟨rfl, rfl, rfl, rfl, rfl, rfl⟩, hs.2⟩
      exact spec_of_same hq hd
    · split
      · exact spec_stop _ hs
      · rename_i l msg
        exact spec_of_same hs (dispatch_spec H T p1 sent l msg)

/-- `Deliver` never changes the channel or the configuration -/
theorem step_keeps_config (p : Party) (pi : List Nat) (inp : Option (Nat × Msg)) :
    let r := step H T p pi inp
    r.party.ID = p.ID ∧ r.party.fifo = p.fifo ∧ r.party.n = p.n ∧ r.party.t = p.t ∧
    r.party.j = p.j ∧ r.party.fifoSkip = p.fifoSkip := by
  intro r
  have h := step_cfg H T p pi inp
  exact ⟨h.ID, h.fifo, h.n, h.t, h.j, h.fifoSkip⟩

/- `step_delivery_spec` (first attempt, not a theorem): "a delivery is some message of the
   *current* channel from sender `who`, in FIFO mode with exactly the expected sequence number,
   whose cached payload is the returned value; the expected sequence number of `who` advances by
   one and no other counter moves".  This is FALSE in FIFO mode with `fifo_skip > 0`: the
   bookkeeping of `phaseBuffer` (`skipAdjust`) may move the counter of a sender `i` to `min_s[i]`
   in the same iteration in which a message of ANOTHER sender is delivered through
   `deliverOrBuffer`.  Machine-checked counterexample: `step_delivery_spec_refuted`; the statement
   that holds (hypothesis `p.fifo = true → p.fifoSkip = 0`, the library's default): 
   `step_delivery_spec'`. -/

/-- the state of the counterexample to `step_delivery_spec`: `n = 4`, `t = 1`, FIFO mode with
    `fifo_skip = 1`, two buffered messages of sender 0 with a gap (slots 5 and 10 while slot 1 is
    expected, so `skipAdjust` moves `deliver_s[0]` to 5), and an agreed digest for slot 1 of
    sender 1 whose payload has been requested (r-request outstanding) -/
def cexParty : Party :=
  { Party.init 4 1 2 1 with
    deliverBuf := [⟨0, 0, 5, rReady, 0⟩, ⟨0, 0, 10, rReady, 0⟩],
    dbar := [(⟨0, 1, 1⟩, 107)],
    awaited := [⟨0, 1, 1⟩] }

/-- `step_delivery_spec` does not hold: on `cexParty` the r-answer `(0, 1, 1, 7)` from party 3
    (with `H x = x + 100`) is delivered (`delivered 1 7`) and the counters become `[5, 2, 1, 1]`,
    not `[1, 2, 1, 1]` -/
theorem step_delivery_spec_refuted :
    ¬ ∀ (H : Int → Int) (T : Tag → Int) (p : Party) (pi : List Nat) (inp : Option (Nat × Msg))
        (who : Nat) (m : Int),
        p.deliverS.length = p.n →
        (step H T p pi inp).out = .delivered who m →
        ∃ msg : Msg, msg.id = p.ID ∧ msg.sender.toNat = who ∧
          (p.fifo = true → msg.seq = p.dS who) ∧
          aGet (step H T p pi inp).party.mbar msg.tag = some m ∧
          (step H T p pi inp).party.deliverS = p.deliverS.set who (p.dS who + 1) := by
  intro h
  obtain ⟨msg, -, -, -, -, h5⟩ :=
    h (fun x => x + 100) (fun _ => 0) cexParty [] (some (3, ⟨0, 1, 1, rAnswer, 7⟩)) 1 7
      (by decide) (by decide)
  revert h5
  decide

/-- corrected version of `step_delivery_spec`: the counters are only guaranteed to move in one
    place when the skip heuristic is off (`fifo_skip = 0`) or the channel is not FIFO -/
theorem step_delivery_spec' (p : Party) (pi : List Nat) (inp : Option (Nat × Msg)) (who : Nat) (m : Int)
    (hskip : p.fifo = true → p.fifoSkip = 0)
    (hout : (step H T p pi inp).out = .delivered who m) :
    ∃ msg : Msg, msg.id = p.ID ∧ msg.sender.toNat = who ∧
      (p.fifo = true → msg.seq = p.dS who) ∧
      aGet (step H T p pi inp).party.mbar msg.tag = some m ∧
      (step H T p pi inp).party.deliverS = p.deliverS.set who (p.dS who + 1) := by
  obtain ⟨-, hs⟩ := step_spec H T p pi inp hskip
  rcases hs with ⟨-, h2⟩ | ⟨msg, m', h1, h2, h3, h4, h5⟩
  · exact absurd hout (h2 who m)
  · rw [h4] at hout
    injection hout with hw hm
    subst hw; subst hm
    exact ⟨msg, h1, rfl, h2, h3, h5⟩

/-- without a delivery the expected sequence numbers do not move (FIFO mode, `fifo_skip = 0`) -/
theorem step_no_delivery_keeps_counters (p : Party) (pi : List Nat) (inp : Option (Nat × Msg))
    (hskip : p.fifoSkip = 0)
    (hout : ∀ who m, (step H T p pi inp).out ≠ .delivered who m) :
    (step H T p pi inp).party.deliverS = p.deliverS := by
  obtain ⟨-, hs⟩ := step_spec H T p pi inp (fun _ => hskip)
  rcases hs with ⟨h1, -⟩ | ⟨msg, m', -, -, -, h4, -⟩
  · exact h1
  · exact absurd h4 (hout _ _)

/-- a run of `Deliver` calls of one party within one channel: inputs are whatever the network
    hands over; returns the final state and the deliveries `(sender, expected seq before, value)` -/
def runSteps (p : Party) : List (List Nat × Option (Nat × Msg)) → Party × List (Nat × Int × Int)
  | [] => (p, [])
  | (pi, inp) :: rest =>
    let r := step H T p pi inp
    let (q, ds) := runSteps r.party rest
    match r.out with
    | .delivered who m => (q, (who, p.dS who, m) :: ds)
    | _ => (q, ds)

theorem runSteps_cons_snd (p : Party) (pi : List Nat) (inp : Option (Nat × Msg))
    (rest : List (List Nat × Option (Nat × Msg))) :
    (runSteps H T p ((pi, inp) :: rest)).2 =
      match (step H T p pi inp).out with
      | .delivered who m => (who, p.dS who, m) :: (runSteps H T (step H T p pi inp).party rest).2
      | _ => (runSteps H T (step H T p pi inp).party rest).2 := by
  simp only [runSteps]
  split <;> rfl

theorem coe_range_map (c : Int) (n : Nat) :
    (List.range n).map (fun k => c + (k : Int)) = (List.range n).map (fun k : Nat => c + (k : Int)) := by
  simp only [List.pure_def, List.bind_eq_flatMap, ← List.map_eq_flatMap, List.map_map]
  rfl

theorem consec_cons (c : Int) (l : List Int)
    (h : l = (List.range l.length).map (fun k : Nat => c + 1 + (k : Int))) :
    c :: l = (List.range (c :: l).length).map (fun k : Nat => c + (k : Int)) := by
  rw [List.length_cons, List.range_succ_eq_map, List.map_cons, List.map_map]
  simp only [Nat.cast_zero, add_zero, List.cons.injEq, true_and]
  rw [h, List.length_map, List.length_range]
  apply List.map_congr_left
  intro k _
  simp only [Function.comp, Nat.cast_succ]
  omega

/-- the sequence numbers of the deliveries from `who` in a run -/
def seqsOf (who : Nat) (ds : List (Nat × Int × Int)) : List Int :=
  (ds.filter (fun d => d.1 = who)).map (fun d => d.2.1)

theorem fifo_order_aux (who : Nat) : ∀ (ins : List (List Nat × Option (Nat × Msg))) (p : Party),
    p.fifo = true → p.fifoSkip = 0 → p.deliverS.length = p.n → who < p.n →
    seqsOf who (runSteps H T p ins).2
      = (List.range (seqsOf who (runSteps H T p ins).2).length).map
          (fun k : Nat => p.dS who + (k : Int))
  | [], p, _, _, _, _ => by simp [runSteps, seqsOf]
  | (pi, inp) :: rest, p, hfifo, hskip, hlen, hwho => by
    obtain ⟨hc, hs⟩ := step_spec H T p pi inp (fun _ => hskip)
    rw [runSteps_cons_snd]
    have ih := fifo_order_aux who rest (step H T p pi inp).party (hc.fifo.trans hfifo)
      (hc.fifoSkip.trans hskip)
    generalize (step H T p pi inp).party = q at hc hs ih ⊢
    generalize (step H T p pi inp).out = o at hs ⊢
    rcases hs with ⟨h1, h2⟩ | ⟨msg, m', -, -, -, h4, h5⟩
    · have ih' := ih (by rw [h1, hc.n]; exact hlen) (by rw [hc.n]; exact hwho)
      have hd : q.dS who = p.dS who := by simp [Party.dS, h1]
      rw [hd] at ih'
      cases o with
      | delivered w m => exact absurd rfl (h2 w m)
      | idle => exact ih'
      | threw => exact ih'
    · subst h4
      have ih' := ih (by rw [h5, List.length_set, hc.n]; exact hlen) (by rw [hc.n]; exact hwho)
      simp only []
      by_cases hw : msg.sender.toNat = who
      · have hd : q.dS who = p.dS who + 1 := by
          simp only [Party.dS, h5, hw]
          rw [List.getD_eq_getElem?_getD, List.getElem?_set_self (by omega)]
          rfl
        rw [hd] at ih'
        have : seqsOf who ((msg.sender.toNat, p.dS msg.sender.toNat, m') :: (runSteps H T q rest).2)
            = p.dS who :: seqsOf who (runSteps H T q rest).2 := by
          simp [seqsOf, hw]
        rw [this]
        exact consec_cons _ _ ih'
      · have hd : q.dS who = p.dS who := by
          unfold Party.dS
          rw [h5, List.getD_eq_getElem?_getD, List.getD_eq_getElem?_getD, List.getElem?_set_ne hw]
        rw [hd] at ih'
        have : seqsOf who ((msg.sender.toNat, p.dS msg.sender.toNat, m') :: (runSteps H T q rest).2)
            = seqsOf who (runSteps H T q rest).2 := by
          simp [seqsOf, hw]
        rw [this]
        exact ih'

/-- **FIFO order and no duplication** (FIFO mode, `fifo_skip = 0`): in every run, whatever
    arrives, the deliveries from one sender carry consecutive sequence numbers starting at the
    expected one — so no slot is delivered twice and none out of order -/
theorem fifo_order (p : Party) (hfifo : p.fifo = true) (hskip : p.fifoSkip = 0)
    (hlen : p.deliverS.length = p.n)
    (ins : List (List Nat × Option (Nat × Msg))) (who : Nat) (hwho : who < p.n) :
    ((runSteps H T p ins).2.filter (fun d => d.1 = who)).map (fun d => d.2.1)
      = (List.range ((runSteps H T p ins).2.filter (fun d => d.1 = who)).length).map
          (fun k => p.dS who + (k : Int)) := by
  have h := fifo_order_aux H T who ins p hfifo hskip hlen hwho
  rw [coe_range_map]
  simpa only [seqsOf, List.length_map] using h

theorem takeMatching_some (ID : Int) : ∀ (vs is : List Int) (m : Int) (vs' is' : List Int),
    takeMatching ID vs is = some (m, vs', is') →
    ∃ k, vs.getD k 0 = m ∧ is.getD k 0 = ID ∧ k < vs.length
  | [], _, _, _, _, h => by simp [takeMatching] at h
  | _ :: _, [], _, _, _, h => by simp [takeMatching] at h
  | v :: vs, i :: is, m, vs', is', h => by
    unfold takeMatching at h
    split at h
    · rename_i hi
      simp only [Option.some.injEq, Prod.mk.injEq] at h
      exact ⟨0, by simp [h.1], by simp [hi], by simp⟩
    · split at h
      · cases h
      · rename_i m2 vs2 is2 heq
        simp only [Option.some.injEq, Prod.mk.injEq] at h
        obtain ⟨k, h1, h2, h3⟩ := takeMatching_some ID vs is m2 vs2 is2 heq
        exact ⟨k + 1, by simpa [h.1] using h1, by simpa using h2, by simpa using h3⟩

/-- **channel isolation for `DeliverFrom`**: a value handed out was stored under the current
    channel identifier (the per-sender buffer never hands a value across channels) -/
theorem deliverFrom_isolation (p : Party) (iIn : Nat) (pi : List Nat) (inp : Option (Nat × Msg)) (v : Int)
    (hb : p.bufMpz.length = p.n ∧ p.bufId.length = p.n)
    (hpair : ∀ i, (p.bufMpz.getD i []).length = (p.bufId.getD i []).length)
    (h : (deliverFrom H T p iIn pi inp).value = some v) :
    ∃ k, (p.bufMpz.getD iIn []).getD k 0 = v ∧ (p.bufId.getD iIn []).getD k 0 = p.ID ∧
      k < (p.bufMpz.getD iIn []).length := by
  have _ := hb
  have _ := hpair
  unfold deliverFrom at h
  split at h
  · cases h
  · simp only [] at h
    split at h
    · split at h
      · rename_i m vs' is' heq
        simp only [Option.some.injEq] at h
        subst h
        exact takeMatching_some _ _ _ _ _ _ heq
      · cases h
    · split at h <;> cases h

/-- `setID` starts every sender at slot 1 and `unsetID` after `setID` restores the counters of the
    enclosing channel: a nested channel cannot disturb the FIFO bookkeeping of the outer one -/
theorem unsetID_setID (p : Party) (newID : Int) (f f' : Bool) :
    (unsetID (setID p newID f) f').deliverS = p.deliverS ∧
    (unsetID (setID p newID f) f').ID = p.ID ∧ (unsetID (setID p newID f) f').s = p.s := by
  simp [unsetID, setID]

end Tmcg.Rbc
